(** C14: the storage invariant together with the key invariant is preserved by every executed
    governance transaction; on reachable states the whole execution, cmd.run included, never
    panics (no assumption on the state is left). *)
From Coq Require Import ZArith NArith List Bool String Lia.
From Verif Require Import AdmitTotal.Base AdmitTotal.Model AdmitTotal.ProofsBase AdmitTotal.ProofsSystem AdmitTotal.ProofsName
  AdmitTotal.ProofsEntValidate AdmitTotal.ProofsEntExec AdmitTotal.Theorems AdmitTotal.State
  AdmitTotal.ProofsState1 AdmitTotal.ProofsState2 AdmitTotal.ProofsState3 AdmitTotal.ProofsState4 AdmitTotal.ProofsState5
  AdmitTotal.TheoremsState AdmitTotal.ProofsKeys1 AdmitTotal.ProofsKeys2 AdmitTotal.ProofsKeys3 AdmitTotal.ProofsKeys4
  AdmitTotal.ProofsKeys5 AdmitTotal.ProofsKeys6 AdmitTotal.ProofsKeys7.
Import ListNotations.
Open Scope list_scope.

Section G.
  Variable to_upper : str -> str.
  Variable decode_address : str -> option str.
  Variable encode_address : str -> str.
  Variable b58 : str -> option (nat * bool).
  Variable parse_big : str -> option Z.
  Variable allowed_name : str -> bool.
  Variable list_entry_ok : str -> bool.
  Variable rpc_parts : str -> nat.
  Variable rpc_b64_ok : str -> bool.
  Variable rpc_has_w : str -> bool.
  Variable cc_peer_ok : str -> bool.
  Variable cc_addr_ok : str -> bool.
  Variable cc_hex_ok : str -> bool.
  Variable b58dec : str -> str.
  Variable jmarshal : list json -> str.
  Variable junmarshal : str -> option (list str).
  Hypothesis Hjson : forall c, junmarshal (jmarshal [JStr c]) = Some [c].
  Hypothesis Hdec : forall x a, decode_address x = Some a -> small a.
  Hypothesis Hb58 : forall x n ok, b58 x = Some (n, ok) -> List.length (b58dec x) = n.

  Notation Inv := (Inv rpc_parts junmarshal).
  Notation KInv := (KInv junmarshal).
  Notation step := (step to_upper decode_address encode_address b58 parse_big allowed_name list_entry_ok rpc_parts rpc_b64_ok rpc_has_w cc_peer_ok cc_addr_ok cc_hex_ok b58dec jmarshal junmarshal).
  Notation reachable := (reachable to_upper decode_address encode_address b58 parse_big allowed_name list_entry_ok rpc_parts rpc_b64_ok rpc_has_w cc_peer_ok cc_addr_ok cc_hex_ok b58dec jmarshal junmarshal).
  Notation system_validate := (system_validate to_upper parse_big).
  Notation system_run := (system_run to_upper b58dec jmarshal junmarshal).
  Notation exec_system_full := (exec_system_full to_upper decode_address encode_address b58 parse_big allowed_name list_entry_ok rpc_parts rpc_b64_ok rpc_has_w cc_peer_ok cc_addr_ok cc_hex_ok b58dec jmarshal junmarshal).
  Notation exec_gov := (exec_gov to_upper decode_address encode_address b58 parse_big allowed_name list_entry_ok rpc_parts rpc_b64_ok rpc_has_w cc_peer_ok cc_addr_ok cc_hex_ok).

  Lemma kinv_same : forall g g', g_staking g' = g_staking g -> g_votes g' = g_votes g -> g_results g' = g_results g ->
    KInv g -> KInv g'.
  Proof. intros g g' E1 E2 E3 [H1 H2]. unfold ProofsKeys3.KInv. rewrite E1, E2, E3. auto. Qed.

  (** a BP vote admitted by types.ValidateSystemTx names whole 39-byte peer ids *)
  Lemma validated_bp_candidate : forall e t ci cx, tx_validate decode_address b58 allowed_name e t = Ok tt ->
    tx_type t = TGov -> str_eqb (tx_recipient t) c_aergo_system = true -> tx_ci t = Some ci ->
    cx_op cx = op_of (ci_name ci) -> cx_op cx = OpVoteBP ->
    Nat.modulo (List.length (bp_candidate b58dec (ci_args ci))) 39 = 0%nat.
  Proof.
    intros e t ci cx Hv Ht Hr Hci Hop Hbp.
    pose proof (tx_validate_gov_system decode_address b58 allowed_name e t tt Hv Ht Hr) as Hs.
    rewrite Hci in Hs. simpl in Hs. rewrite <- Hop, Hbp in Hs.
    eapply (bp_candidate_mod b58 b58dec Hb58); eauto.
  Qed.

  Theorem step_preserves : forall g g', Inv g -> KInv g -> step g g' -> Inv g' /\ KInv g'.
  Proof.
    intros g g' HI HK Hst. split; [eapply inv_preserved; eauto|].
    destruct Hst.
    - eapply kinv_same; [| | |exact HK]; reflexivity.
    - rewrite H2 in H3. destruct (system_validate_args _ _ _ _ _ _ H3) as [Hop Hargs].
      destruct (system_run_sem to_upper b58dec jmarshal junmarshal rpc_parts g acct se ci cx (tx_amount t) u HI HK Hargs)
        as [Hnd Hsem]; [| exact H4 | apply H6 |].
      + intros Hbp. eapply validated_bp_candidate; eauto.
      + apply apply_upd_KInv; auto.
    - eapply kinv_same; [| | |exact HK]; reflexivity.
    - eapply kinv_same; [| | |exact HK]; reflexivity.
  Qed.

  Theorem reachable_both : forall g0 g, Inv g0 -> KInv g0 -> reachable g0 g -> Inv g /\ KInv g.
  Proof.
    intros g0 g H0 K0 R. induction R; [auto|]. destruct IHR as [HI HK]. eapply step_preserves; eauto.
  Qed.

  (** genesis: the BP vote list written by InitVoteResult is the serialisation of a tally with
      39-byte keys and short amounts *)
  Lemma genesis_kinv : forall t0 ent0, tally_ok false t0 -> small (store_result false t0) ->
    KInv (genesis (store_result false t0) ent0).
  Proof.
    intros t0 ent0 Hok Hs. split; [|intros a r []].
    intros key. unfold genesis, lookup_raw. cbn [g_results g_votes assoc].
    destruct (str_eqb key issue_bp) eqn:E.
    - apply str_eqb_eq in E. subst key. exists t0. split; [|intros m a r []].
      replace (issue_is_ex issue_bp) with false by reflexivity. split; [reflexivity|]. split; assumption.
    - exists []. split; [|intros m a r []]. split; [reflexivity|]. split.
      + right. intros k v [].
      + unfold small. simpl. lia.
  Qed.

  Lemma genesis_result_ok : forall t0, tally_ok false t0 -> small (store_result false t0) ->
    result_ok false (store_result false t0).
  Proof.
    intros t0 Hok Hs. apply (result_shape_ok false); [eexists; reflexivity | exact Hs].
  Qed.

  (** the whole execution of a system transaction never panics on a state satisfying both invariants *)
  Theorem exec_system_full_np : forall g acct se e t, Inv g -> KInv g -> np (exec_system_full e t g acct se).
  Proof.
    intros g acct se e t HI HK. unfold TheoremsState.exec_system_full.
    apply np_bind; [exact (inv_exec_gov_np to_upper decode_address encode_address b58 parse_big allowed_name list_entry_ok rpc_parts rpc_b64_ok rpc_has_w cc_peer_ok cc_addr_ok cc_hex_ok junmarshal g acct se e t HI)|]. intros _ _.
    destruct (tx_ci t) as [ci|] eqn:Eci; [|reflexivity].
    apply np_bind.
    { apply (system_validate_total to_upper b58 parse_big). exact (inv_sys_wf rpc_parts junmarshal g acct se HI). }
    intros cx Hcx. destruct (system_validate_args _ _ _ _ _ _ Hcx) as [_ Ha].
    apply (system_run_np to_upper b58dec jmarshal junmarshal rpc_parts Hjson); auto.
  Qed.
End G.

(** Closed form used by Properties/C14.v. *)
Theorem reachable_executes_full :
  forall to_upper decode_address encode_address b58 parse_big allowed_name list_entry_ok rpc_parts rpc_b64_ok
         rpc_has_w cc_peer_ok cc_addr_ok cc_hex_ok b58dec jmarshal junmarshal,
  (forall c, junmarshal (jmarshal [JStr c]) = Some [c]) ->
  (forall x a, decode_address x = Some a -> small a) ->
  (forall x n ok, b58 x = Some (n, ok) -> List.length (b58dec x) = n) ->
  forall t0 ent0 g acct se e t p,
  tally_ok false t0 -> small (store_result false t0) -> ent_wf rpc_parts ent0 = true ->
  reachable to_upper decode_address encode_address b58 parse_big allowed_name list_entry_ok rpc_parts rpc_b64_ok
            rpc_has_w cc_peer_ok cc_addr_ok cc_hex_ok b58dec jmarshal junmarshal (genesis (store_result false t0) ent0) g ->
  exec_system_full to_upper decode_address encode_address b58 parse_big allowed_name list_entry_ok
    rpc_parts rpc_b64_ok rpc_has_w cc_peer_ok cc_addr_ok cc_hex_ok b58dec jmarshal junmarshal e t g acct se <> Panic p.
Proof.
  intros until p. intros Hok Hs He R. apply np_not_panic.
  destruct (reachable_both to_upper decode_address encode_address b58 parse_big allowed_name list_entry_ok rpc_parts
              rpc_b64_ok rpc_has_w cc_peer_ok cc_addr_ok cc_hex_ok b58dec jmarshal junmarshal H H0 H1 (genesis (store_result false t0) ent0) g) as [HI HK]; [| |exact R|].
  - apply genesis_inv; [apply genesis_result_ok; auto | exact He].
  - apply genesis_kinv; auto.
  - eapply exec_system_full_np; eauto.
Qed.

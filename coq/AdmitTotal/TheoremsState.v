(** C14: admission and execution on states satisfying the storage invariant. *)
From Coq Require Import ZArith NArith List Bool String Lia.
From Verif Require Import AdmitTotal.Base AdmitTotal.Model AdmitTotal.ProofsBase AdmitTotal.ProofsSystem AdmitTotal.ProofsName
  AdmitTotal.ProofsEntValidate AdmitTotal.ProofsEntExec AdmitTotal.Theorems AdmitTotal.State.
From Verif Require Import AdmitTotal.ProofsState1 AdmitTotal.ProofsState2 AdmitTotal.ProofsState3 AdmitTotal.ProofsState4 AdmitTotal.ProofsState5.
Import ListNotations.
Open Scope list_scope.

Section G.
  Variable to_upper : str -> str.
  Variable decode_address : str -> option str.
  Variable encode_address : str -> str.
  Variable b58 : str -> option (nat * bool).
  Variable parse_big : str -> option Z.
  Variable allowed_name : str -> bool.
  Variable list_entry_ok : str -> bool.
  Variable rpc_parts : str -> nat.
  Variable rpc_b64_ok : str -> bool.
  Variable rpc_has_w : str -> bool.
  Variable cc_peer_ok : str -> bool.
  Variable cc_addr_ok : str -> bool.
  Variable cc_hex_ok : str -> bool.
  Variable b58dec : str -> str.
  Variable jmarshal : list json -> str.
  Variable junmarshal : str -> option (list str).
  Hypothesis Hjson : forall c, junmarshal (jmarshal [JStr c]) = Some [c].
  Hypothesis Hdec : forall x a, decode_address x = Some a -> small a.

  Notation system_validate := (system_validate to_upper parse_big).
  Notation system_run := (system_run to_upper b58dec jmarshal junmarshal).
  Notation Inv := (Inv rpc_parts junmarshal).
  Notation exec_gov := (exec_gov to_upper decode_address encode_address b58 parse_big allowed_name list_entry_ok rpc_parts rpc_b64_ok rpc_has_w cc_peer_ok cc_addr_ok cc_hex_ok).
  Notation admission := (admission to_upper decode_address encode_address b58 parse_big allowed_name list_entry_ok rpc_parts rpc_b64_ok rpc_has_w cc_peer_ok cc_addr_ok cc_hex_ok).

  (** the whole execution of an aergo.system transaction: executeTx's validation, newSysCmd's
      ValidateSystemTx, the command constructor's argument handling, then cmd.run *)
  Definition exec_system_full (e : env) (t : tx) (g : gstate) (acct : str) (se : stepenv) : out sysupd :=
    _ <- exec_gov e t (state_of g acct se) ;;
    match tx_ci t with
    | Some ci =>
        cx <- system_validate (tx_ci t) (tx_amount t) (sys_view g acct se) ;;
        system_run ci cx (tx_amount t) (sys_view g acct se) (run_view g)
    | None => Err EInvalidPayload
    end.

  Theorem inv_admission_np : forall g acct se e t, Inv g -> np (admission e t (state_of g acct se)).
  Proof. intros g acct se e t HI. apply admission_np. exact (inv_state_wf rpc_parts junmarshal g acct se HI). Qed.

  Theorem inv_exec_gov_np : forall g acct se e t, Inv g -> np (exec_gov e t (state_of g acct se)).
  Proof. intros g acct se e t HI. apply exec_gov_np. exact (inv_state_wf rpc_parts junmarshal g acct se HI). Qed.

  Theorem inv_exec_system_full : forall g acct se e t, Inv g -> only_rmap (exec_system_full e t g acct se).
  Proof.
    intros g acct se e t HI. unfold exec_system_full.
    apply only_rmap_bind; [apply only_rmap_np, inv_exec_gov_np; exact HI|]. intros _ _.
    destruct (tx_ci t) as [ci|] eqn:Eci; [|apply only_rmap_np; reflexivity].
    apply only_rmap_bind.
    { apply only_rmap_np. apply (system_validate_total to_upper b58 parse_big). exact (inv_sys_wf rpc_parts junmarshal g acct se HI). }
    intros cx Hcx. destruct (system_validate_args _ _ _ _ _ _ Hcx) as [_ Ha].
    apply (system_run_only to_upper b58dec jmarshal junmarshal Hjson); [|exact Ha].
    exact (inv_run_pre rpc_parts junmarshal g acct se HI).
  Qed.
End G.

(** Closed forms used by Properties/C14.v: all string functions universally quantified; the two
    hypotheses are facts about encoding/json (a one-element string list survives Marshal /
    Unmarshal) and about types.DecodeAddress (its results are short byte strings). *)
Theorem reachable_validate_total :
  forall to_upper decode_address encode_address b58 parse_big allowed_name list_entry_ok rpc_parts rpc_b64_ok
         rpc_has_w cc_peer_ok cc_addr_ok cc_hex_ok b58dec jmarshal junmarshal,
  (forall c, junmarshal (jmarshal [JStr c]) = Some [c]) ->
  (forall x a, decode_address x = Some a -> small a) ->
  forall bp_list ent0 g acct se e t p,
  result_ok false bp_list -> ent_wf rpc_parts ent0 = true ->
  reachable to_upper decode_address encode_address b58 parse_big allowed_name list_entry_ok rpc_parts rpc_b64_ok
            rpc_has_w cc_peer_ok cc_addr_ok cc_hex_ok b58dec jmarshal junmarshal (genesis bp_list ent0) g ->
  admission to_upper decode_address encode_address b58 parse_big allowed_name list_entry_ok rpc_parts rpc_b64_ok
            rpc_has_w cc_peer_ok cc_addr_ok cc_hex_ok e t (state_of g acct se) <> Panic p.
Proof.
  intros until p. intros Hr He R. apply np_not_panic. eapply inv_admission_np.
  eapply reachable_inv; eauto. apply genesis_inv; auto.
Qed.

Theorem reachable_executes :
  forall to_upper decode_address encode_address b58 parse_big allowed_name list_entry_ok rpc_parts rpc_b64_ok
         rpc_has_w cc_peer_ok cc_addr_ok cc_hex_ok b58dec jmarshal junmarshal,
  (forall c, junmarshal (jmarshal [JStr c]) = Some [c]) ->
  (forall x a, decode_address x = Some a -> small a) ->
  forall bp_list ent0 g acct se e t,
  result_ok false bp_list -> ent_wf rpc_parts ent0 = true ->
  reachable to_upper decode_address encode_address b58 parse_big allowed_name list_entry_ok rpc_parts rpc_b64_ok
            rpc_has_w cc_peer_ok cc_addr_ok cc_hex_ok b58dec jmarshal junmarshal (genesis bp_list ent0) g ->
  (forall p, exec_gov to_upper decode_address encode_address b58 parse_big allowed_name list_entry_ok rpc_parts
               rpc_b64_ok rpc_has_w cc_peer_ok cc_addr_ok cc_hex_ok e t (state_of g acct se) <> Panic p) /\
  (forall p, exec_system_full to_upper decode_address encode_address b58 parse_big allowed_name list_entry_ok
               rpc_parts rpc_b64_ok rpc_has_w cc_peer_ok cc_addr_ok cc_hex_ok b58dec jmarshal junmarshal
               e t g acct se = Panic p -> p = rmap_site).
Proof.
  intros until t. intros Hr He R.
  assert (HI : Inv rpc_parts junmarshal g) by (eapply reachable_inv; eauto; apply genesis_inv; auto).
  split.
  - apply np_not_panic. eapply inv_exec_gov_np; eauto.
  - apply inv_exec_system_full; auto.
Qed.

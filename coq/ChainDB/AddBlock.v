(** add_block keeps the invariant for every arriving block; histories; initial state;
    the refutations for the unrepaired code (F7) and for BlockNo 0. *)
From Coq Require Import NArith List Bool Lia PeanoNat.
From Verif Require Import ChainDB.Model ChainDB.Basics ChainDB.Inv ChainDB.Reorg.
Import ListNotations.
Open Scope N_scope.

Section AddBlock.
Variable apply : sroot -> block -> option sroot.
Variable orphan_cap : nat.
Variable f27 : bool.
Variable spent : sroot -> txid -> bool.
Hypothesis apply_fresh : forall r b r', apply r b = Some r' ->
  NoDup (txs b) /\ forall t, In t (txs b) -> spent r t = false.
Hypothesis apply_spent : forall r b r' t, apply r b = Some r' ->
  spent r' t = spent r t || mem t (txs b).
Variable U : block -> Prop.
Hypothesis U_inj : forall a b, U a -> U b -> hash_field a = hash_field b -> a = b.
Variable g : block.
Notation Inv := (Inv apply spent U g).

Lemma reorg_inv n top n' err :
  Inv n -> U top -> get_block (dur n) (hash_field top) = Some top -> no (best n) < no top ->
  reorg apply true n top = (n', err) ->
  Inv n' /\ bad n' = bad n /\ lib n' = lib n.
Proof.
  intros I Ut Hst Hlt R. unfold reorg in R.
  destruct (gather (S (N.to_nat (no top))) (dur n) (no (best n)) top [] []) as [[[st news] olds]|] eqn:G.
  2:{ inversion R; subst. auto. }
  assert (SU : forall id x, get_block (dur n) id = Some x -> U x /\ hash_field x = id).
  { intros id x Hx. destruct (get_block_univ _ _ _ _ _ _ _ I Hx) as (A & B & _). auto. }
  assert (MS : forall k x, mainb (dur n) k = Some x -> get_block (dur n) (hash_field x) = Some x).
  { intros k x Hx. unfold mainb, get_block_by_no in Hx. destruct (get_hash_by_no (dur n) k); [|discriminate].
    destruct (SU _ _ Hx) as (_ & <-). exact Hx. }
  assert (ACC : acc_ok (dur n) (no (best n)) top top [] []).
  { unfold acc_ok. repeat split; simpl; auto; try contradiction.
    all: try (intros (k & H1 & H2 & _); lia).
    all: try (intros H; exfalso; apply H; reflexivity). }
  destruct (gather_spec U U_inj (dur n) (no (best n)) SU MS _ _ _ _ _ _ _ _ ACC G)
    as (Gst & Glt & Gne & Ghd & Glink & Gstored & Gdiff & Golds).
  destruct (no st <? lib n).
  { inversion R; subst. auto. }
  destruct (rollforward apply (set_state n (root st)) (rev news)) as [n2 ok] eqn:RF.
  destruct (rollforward_frame apply _ _ _ _ RF) as (Fb & Fo & Fbad & Flib & Ff & Fm & Fr & Fok).
  pose proof (rollforward_pmem apply _ _ _ _ RF eq_refl) as Fp.
  simpl in Fb, Fo, Fbad, Flib, Ff, Fm, Fr, Fok.
  destruct ok.
  - inversion R; subst; clear R.
    destruct (Fok eq_refl) as (Hv & Hs & Hc).
    split.
    + eapply swap_inv with (n0 := n) (st := st); eauto.
    + match goal with |- context [swap_chain n2 ?m ?tp news olds false] =>
        destruct (swap_chain_reads n2 m tp news olds st Glink) as (_ & _ & _ & Rbad & Rlib & _) end.
      rewrite Rbad, Rlib. auto.
  - inversion R; subst; clear R. simpl. split; auto.
    eapply (inv_frame2 apply spent U g n); simpl; eauto.
    + symmetry. apply (i_sdb _ _ _ _ _ I).
    + rewrite Fo. apply (i_orph _ _ _ _ _ I).
    + intros id x Hx. rewrite <- Hx. apply get_block_ext. apply Ff; intros; discriminate.
    + intros id x. rewrite Ff by (intros; discriminate). apply (i_univ _ _ _ _ _ I).
    + rewrite (i_params _ _ _ _ _ I). symmetry. apply (i_sdb _ _ _ _ _ I).
Qed.

Lemma is_main_chain_true n b : Inv n -> is_main_chain f27 n b = Some true -> (f27 = true \/ no b <> 0) ->
  prev b = hash_field (best n) /\ no b = no (best n) + 1.
Proof.
  intros I H Hn0. unfold is_main_chain in H.
  rewrite (best_hash _ _ _ _ _ I) in H.
  destruct ((f27 || (0 <? no b)) && negb (no b =? no (best n) + 1)) eqn:E; [discriminate|].
  inversion H as [H1]. apply N.eqb_eq in H1. split; auto.
  apply andb_false_iff in E. destruct E as [E|E].
  - apply orb_false_iff in E. destruct E as (E1 & E2). apply N.ltb_ge in E2.
    destruct Hn0 as [Hf|Hn0]; [congruence|lia].
  - apply negb_false_iff in E. apply N.eqb_eq in E. auto.
Qed.

(** addBlock keeps the invariant for EVERY block of the universe (valid or not, duplicate,
    orphan, side branch, triggering a reorganisation or not) that does not carry number 0. *)
Theorem add_block_inv n b :
  Inv n -> U b -> (f27 = true \/ no b <> 0) ->
  Inv (fst (add_block apply true f27 orphan_cap n b)).
Proof.
  intros I Ub Hn0. unfold add_block.
  destruct (mem (hash_field b) (bad n)); [exact I|].
  destruct (get_block (dur n) (hash_field b)); [exact I|].
  assert (Hint : Inv (fst (fst (add_block_internal apply true f27 orphan_cap n b)))).
  { unfold add_block_internal.
    destruct (get_block (dur n) (prev b)) as [p|] eqn:Ep.
    - destruct (is_main_chain f27 n b) as [main|] eqn:Em; [|exact I].
      destruct (run_chain apply (S (length (orphans n))) main n b b) as [[n1 ok] last] eqn:RC.
      assert (Hm : main = true -> prev b = hash_field (best n) /\ no b = no (best n) + 1).
      { intros ->. apply is_main_chain_true; auto. }
      destruct (run_chain_inv apply spent apply_fresh apply_spent U U_inj g _ _ _ _ _ _ _ _ I Ub Hm RC)
        as (I1 & Bad1 & L1 & Hb1 & GB1 & Hl1).
      destruct ok; [|exact I1].
      destruct (negb main && (no (best n1) <? no last)) eqn:Er; [|exact I1].
      apply andb_true_iff in Er. destruct Er as (E1 & E2). apply N.ltb_lt in E2.
      destruct (Hl1 eq_refl) as (Ul & Gl).
      destruct (reorg apply true n1 last) as [n2 e] eqn:R.
      destruct (reorg_inv _ _ _ _ I1 Ul Gl E2 R) as (I2 & _).
      destruct e; exact I2.
    - simpl. apply inv_tell. apply inv_set_orphans; auto.
      intros o Ho. apply (add_orphan_In orphan_cap) in Ho. destruct Ho as [Ho| ->]; auto.
      apply (i_orph _ _ _ _ _ I). auto. }
  destruct (add_block_internal apply true f27 orphan_cap n b) as [[n1 r] c].
  simpl in Hint. destruct r; simpl; auto. destruct c; simpl; auto. apply inv_set_bad. auto.
Qed.

Theorem history_inv (l : list (N * block)) : forall n,
  Inv n -> (forall x, In x l -> U (snd x) /\ (f27 = true \/ no (snd x) <> 0)) ->
  Inv (history apply true f27 orphan_cap n l).
Proof.
  induction l as [|x l IH]; intros n I H; simpl; auto.
  apply IH.
  - unfold arrive. apply add_block_inv.
    + apply inv_set_lib. auto.
    + apply H. left. auto.
    + apply H. left. auto.
  - intros y Hy. apply H. right. auto.
Qed.

Theorem inv_init : U g -> no g = 0 -> txs g = [] -> Inv (init_node g).
Proof.
  intros Ug Hg Htx.
  assert (D : forall k, dur (init_node g) k =
     match k with
     | KLatest => Some (VNo (no g))
     | KHeight h => if no g =? h then Some (VHash (hash_field g)) else None
     | KBlock id => if hash_field g =? id then Some (VBlock g) else None
     | KStateMarker r => if root g =? r then Some VUnit else None
     | _ => None end).
  { intros k. unfold init_node. simpl dur. unfold replay. simpl fold_left.
    unfold apply_unit. rewrite !apply_ops_lookup. unfold connect_unit. rewrite Htx.
    cbn [u_ops tx_ops lookup_ops state_unit fst snd].
    destruct k; cbn [dkey_eqb]; auto.
    - destruct (no g =? n); reflexivity.
    - destruct (hash_field g =? id); reflexivity.
    - destruct (root g =? r); reflexivity. }
  assert (M0 : mainb (dur (init_node g)) 0 = Some g).
  { unfold mainb, get_block_by_no, get_hash_by_no, get_block. rewrite D, Hg, N.eqb_refl, D, !N.eqb_refl. reflexivity. }
  assert (Mk : forall k x, mainb (dur (init_node g)) k = Some x -> k = 0 /\ x = g).
  { intros k x. unfold mainb, get_block_by_no, get_hash_by_no. rewrite D, Hg.
    destruct (0 =? k) eqn:E; [|discriminate]. apply N.eqb_eq in E. subst k. intros H.
    split; auto. unfold mainb, get_block_by_no, get_hash_by_no in M0. rewrite D, Hg, N.eqb_refl in M0. congruence. }
  constructor; simpl best; simpl sdb_root; simpl orphans; rewrite ?Hg.
  - unfold get_latest. rewrite D, Hg. reflexivity.
  - exact M0.
  - auto.
  - intros k x Hk Hx. destruct (Mk _ _ Hx) as (-> & ->). auto.
  - intros k Hk. lia.
  - intros k Hk. rewrite D, Hg. destruct (0 =? k) eqn:E; auto. apply N.eqb_eq in E. lia.
  - reflexivity.
  - intros k x Hk Hx. destruct (Mk _ _ Hx) as (-> & ->). unfold has_state_marker. rewrite D, N.eqb_refl. reflexivity.
  - intros k x Hk Hx. destruct (Mk _ _ Hx) as (-> & ->). congruence.
  - intros k x i t Hk Hx. destruct (Mk _ _ Hx) as (-> & ->). rewrite Htx. destruct i; discriminate.
  - intros t id i. rewrite D. discriminate.
  - intros j k bj bk t _ _ Hj. destruct (Mk _ _ Hj) as (-> & ->). rewrite Htx. contradiction.
  - rewrite D. reflexivity.
  - intros id x. rewrite D. destruct (hash_field g =? id) eqn:E; [|discriminate].
    intros H. inversion H; subst. apply N.eqb_eq in E. auto.
  - contradiction.
  - reflexivity.
Qed.

(** Query surface: under the invariant every transaction of a main-chain block is reported
    confirmed at its block and position, and only those are. *)
Theorem inv_get_tx_complete n k b i t :
  Inv n -> k <= no (best n) -> mainb (dur n) k = Some b -> nth_error (txs b) i = Some t ->
  get_tx (dur n) t = TxMain (hash_field b) i.
Proof.
  intros I Hk Hb Hn. unfold get_tx, get_tx_raw. rewrite (i_tx _ _ _ _ _ I _ _ _ _ Hk Hb Hn).
  assert (Hg : get_block (dur n) (hash_field b) = Some b).
  { unfold mainb, get_block_by_no in Hb. destruct (get_hash_by_no (dur n) k); [|discriminate].
    destruct (get_block_univ _ _ _ _ _ _ _ I Hb) as (_ & <- & _). exact Hb. }
  rewrite Hg. assert (Hlt : (i < length (txs b))%nat) by (apply nth_error_Some; congruence).
  apply Nat.ltb_lt in Hlt. rewrite Hlt.
  rewrite (i_no _ _ _ _ _ I _ _ Hk Hb). unfold mainb in Hb. rewrite Hb, N.eqb_refl. reflexivity.
Qed.

Theorem inv_get_tx_sound n t id i :
  Inv n -> get_tx (dur n) t = TxMain id i ->
  exists k b, k <= no (best n) /\ mainb (dur n) k = Some b /\ hash_field b = id /\ nth_error (txs b) i = Some t.
Proof.
  intros I H. unfold get_tx, get_tx_raw in H.
  destruct (dur n (KTx t)) as [[| | |id' i'| |]|] eqn:Et; try discriminate.
  destruct (i_txsound _ _ _ _ _ I _ _ _ Et) as (b & Hb & Hn). rewrite Hb in H.
  destruct (Nat.ltb i' (length (txs b))); [|discriminate].
  destruct (get_block_by_no (dur n) (no b)) as [m|] eqn:Em; [|discriminate].
  destruct (hash_field m =? hash_field b) eqn:E; [|discriminate]. apply N.eqb_eq in E.
  inversion H; subst.
  assert (Hle : no b <= no (best n)).
  { destruct (N.le_gt_cases (no b) (no (best n))) as [Hle|Hgt]; auto.
    unfold get_block_by_no, get_hash_by_no in Em. rewrite (i_above _ _ _ _ _ I _ Hgt) in Em. discriminate. }
  assert (m = b).
  { assert (Hm : get_block (dur n) (hash_field m) = Some m).
    { unfold get_block_by_no in Em. destruct (get_hash_by_no (dur n) (no b)); [|discriminate].
      destruct (get_block_univ _ _ _ _ _ _ _ I Em) as (_ & <- & _). exact Em. }
    destruct (get_block_univ _ _ _ _ _ _ _ I Hm) as (Um & _).
    destruct (get_block_univ _ _ _ _ _ _ _ I Hb) as (Ub & _). apply U_inj; auto. }
  subst m. exists (no b), b. repeat split; auto.
Qed.

(** pre-checks and blocks produced by the node itself keep the invariant *)
Theorem add_block_gen_inv own pre n b :
  Inv n -> U b -> (f27 = true \/ no b <> 0) ->
  Inv (fst (add_block_gen apply true f27 orphan_cap own pre n b)).
Proof.
  intros I Ub Hn0. unfold add_block_gen.
  destruct (mem (hash_field b) (bad n)); [exact I|].
  destruct (get_block (dur n) (hash_field b)) eqn:Eg; [exact I|].
  assert (Hrest : Inv (fst (if own && negb (prev b =? hash_field (best n)) then (n, RErr)
                            else if own then
                              match add_own_block_internal apply true f27 n b with
                              | (n1, RErr, true) => (set_bad n1 (bad_add (hash_field b) (bad n1)), RErr)
                              | (n1, r, _) => (n1, r)
                              end
                            else add_block apply true f27 orphan_cap n b))).
  { destruct (own && negb (prev b =? hash_field (best n))); [exact I|].
    destruct own; [|apply add_block_inv; auto].
    assert (Hint : Inv (fst (fst (add_own_block_internal apply true f27 n b)))).
    { unfold add_own_block_internal.
      destruct (is_main_chain f27 n b) as [main|] eqn:Em; [|exact I].
      destruct main.
      - destruct (is_main_chain_true n b I Em Hn0) as (Hp & Hn).
        destruct (connect_main apply n b) as [n1|] eqn:Ec; [|exact I].
        destruct (connect_main_inv apply spent apply_fresh apply_spent U U_inj g _ _ _ I Ub Hp Hn Ec) as (I1 & _).
        simpl. exact I1.
      - destruct (store_side_inv apply spent U U_inj g n b I Ub) as (I1 & B1 & _ & _ & _ & _ & _ & GBb & _).
        simpl negb. rewrite andb_true_l.
        destruct (no (best (store_side n b)) <? no b) eqn:El; [|exact I1].
        apply N.ltb_lt in El.
        destruct (reorg apply true (store_side n b) b) as [n2 e] eqn:R.
        destruct (reorg_inv _ _ _ _ I1 Ub GBb El R) as (I2 & _).
        destruct e; exact I2. }
    destruct (add_own_block_internal apply true f27 n b) as [[n1 r] c]. simpl in Hint.
    destruct r; simpl; auto. destruct c; simpl; auto. apply inv_set_bad. auto. }
  destruct pre; auto.
  destruct (own && negb (prev b =? hash_field (best n))); [exact I|]. apply inv_set_bad. exact I.
Qed.

(** a rejection for a transient reason (future timestamp; a produced block that became stale)
    leaves the node, in particular the negative cache, untouched: the block is accepted when it is
    delivered again later *)
Theorem transient_rejection_not_cached own n b :
  fst (add_block_gen apply true f27 orphan_cap own PreTimestamp n b) = n /\
  (prev b <> hash_field (best n) -> forall pre, fst (add_block_gen apply true f27 orphan_cap true pre n b) = n).
Proof.
  split.
  - unfold add_block_gen. destruct (mem (hash_field b) (bad n)); auto. destruct (get_block (dur n) (hash_field b)); auto.
  - intros Hne pre. unfold add_block_gen. destruct (mem (hash_field b) (bad n)); auto.
    destruct (get_block (dur n) (hash_field b)); auto.
    assert (E : prev b =? hash_field (best n) = false) by (apply N.eqb_neq; exact Hne).
    rewrite E. simpl. destruct pre; reflexivity.
Qed.

(** findAncestor returns a block of the main chain that was listed, the first such in list order;
    it fails only if no listed hash names a main-chain block. *)
Theorem find_ancestor_sound n hs b :
  Inv n -> find_ancestor (dur n) hs = Some b ->
  In (hash_field b) hs /\ no b <= no (best n) /\ mainb (dur n) (no b) = Some b.
Proof.
  intros I H. unfold find_ancestor in H. destruct (find (on_main (dur n)) hs) as [h|] eqn:Ef; [|discriminate].
  apply find_some in Ef. destruct Ef as (Hin & Hon). unfold on_main in Hon. rewrite H in Hon.
  destruct (get_block_univ _ _ _ _ _ _ _ I H) as (_ & Hh & _). subst h.
  destruct (get_hash_by_no (dur n) (no b)) as [h'|] eqn:Eh; [|discriminate]. apply N.eqb_eq in Hon. subst h'.
  split; [exact Hin|].
  assert (Hle : no b <= no (best n)).
  { destruct (N.le_gt_cases (no b) (no (best n))) as [Hle|Hgt]; auto.
    unfold get_hash_by_no in Eh. rewrite (i_above _ _ _ _ _ I _ Hgt) in Eh. discriminate. }
  split; [exact Hle|]. unfold mainb, get_block_by_no. rewrite Eh. exact H.
Qed.

Theorem find_ancestor_complete n hs k b :
  Inv n -> k <= no (best n) -> mainb (dur n) k = Some b -> In (hash_field b) hs ->
  exists a, find_ancestor (dur n) hs = Some a.
Proof.
  intros I Hk Hb Hin.
  assert (Hg : get_block (dur n) (hash_field b) = Some b).
  { unfold mainb, get_block_by_no in Hb. destruct (get_hash_by_no (dur n) k); [|discriminate].
    destruct (get_block_univ _ _ _ _ _ _ _ I Hb) as (_ & <- & _). exact Hb. }
  assert (Hon : on_main (dur n) (hash_field b) = true).
  { unfold on_main. rewrite Hg. rewrite (i_no _ _ _ _ _ I _ _ Hk Hb).
    unfold mainb, get_block_by_no in Hb. destruct (get_hash_by_no (dur n) k) as [h|] eqn:Eh; [|discriminate].
    destruct (get_block_univ _ _ _ _ _ _ _ I Hb) as (_ & Hh & _). subst h. apply N.eqb_refl. }
  unfold find_ancestor. destruct (find (on_main (dur n)) hs) as [h|] eqn:Ef.
  - apply find_some in Ef. destruct Ef as (_ & Hon'). unfold on_main in Hon'.
    destruct (get_block (dur n) h) as [a|]; [eauto|discriminate].
  - exfalso. pose proof (find_none _ _ Ef _ Hin) as E. simpl in E. rewrite Hon in E. discriminate.
Qed.

End AddBlock.

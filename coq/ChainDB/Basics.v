(** Store and write-unit lemmas for the ChainDB model. *)
From Coq Require Import NArith List Bool Lia PeanoNat.
From Verif Require Import ChainDB.Model.
Import ListNotations.
Open Scope N_scope.

Lemma dkey_eqb_spec a b : dkey_eqb a b = true <-> a = b.
Proof.
  destruct a, b; simpl; split; intro H; try discriminate; try reflexivity;
    try (apply N.eqb_eq in H; subst; reflexivity);
    try (inversion H; subst; apply N.eqb_refl).
  - apply andb_true_iff in H as [H1 H2]. apply N.eqb_eq in H1, H2. subst. reflexivity.
  - inversion H; subst. rewrite !N.eqb_refl. reflexivity.
Qed.
Lemma dkey_eqb_refl a : dkey_eqb a a = true.
Proof. apply dkey_eqb_spec. reflexivity. Qed.
Lemma dkey_eqb_neq a b : a <> b -> dkey_eqb a b = false.
Proof. intro H. destruct (dkey_eqb a b) eqn:E; auto. apply dkey_eqb_spec in E. contradiction. Qed.
Lemma dkey_eq_dec (a b : dkey) : {a = b} + {a <> b}.
Proof. destruct (dkey_eqb a b) eqn:E; [left; apply dkey_eqb_spec; auto | right; intro; subst; rewrite dkey_eqb_refl in E; discriminate]. Qed.

Lemma upd_same d k v : upd d k v k = v.
Proof. unfold upd. rewrite dkey_eqb_refl. reflexivity. Qed.
Lemma upd_other d k v k' : k <> k' -> upd d k v k' = d k'.
Proof. intro. unfold upd. rewrite dkey_eqb_neq; auto. Qed.

(** last matching operation of a unit *)
Fixpoint lookup_ops (ops : list op) (k : dkey) : option (option dval) :=
  match ops with
  | [] => None
  | o :: l => match lookup_ops l k with
              | Some v => Some v
              | None => if dkey_eqb (fst o) k then Some (snd o) else None
              end
  end.

Lemma apply_ops_lookup ops : forall d k,
  apply_ops d ops k = match lookup_ops ops k with Some v => v | None => d k end.
Proof.
  induction ops as [|o l IH]; intros d k; simpl; auto.
  unfold apply_ops in *. simpl. rewrite IH.
  destruct (lookup_ops l k); auto.
  unfold upd. destruct (dkey_eqb (fst o) k); auto.
Qed.

Lemma lookup_ops_app l1 l2 k :
  lookup_ops (l1 ++ l2) k = match lookup_ops l2 k with Some v => Some v | None => lookup_ops l1 k end.
Proof.
  induction l1 as [|o l IH]; simpl.
  - destruct (lookup_ops l2 k); auto.
  - rewrite IH. destruct (lookup_ops l2 k); auto.
Qed.

Lemma lookup_ops_none ops k : (forall o, In o ops -> fst o <> k) -> lookup_ops ops k = None.
Proof.
  induction ops as [|o l IH]; simpl; auto. intros H.
  rewrite IH by (intros; apply H; auto).
  rewrite dkey_eqb_neq; auto.
Qed.

Lemma lookup_ops_some_in ops k v : lookup_ops ops k = Some v -> In (k, v) ops.
Proof.
  induction ops as [|o l IH]; simpl; try discriminate.
  destruct (lookup_ops l k) eqn:E.
  - intros H; inversion H; subst. right. auto.
  - destruct (dkey_eqb (fst o) k) eqn:E2; try discriminate.
    intros H; inversion H; subst. apply dkey_eqb_spec in E2. left. destruct o; simpl in *; subst; auto.
Qed.

Lemma replay_app d u1 u2 : replay d (u1 ++ u2) = replay (replay d u1) u2.
Proof. unfold replay. apply fold_left_app. Qed.

(** tx index operations *)
Lemma tx_ops_keys id i l o : In o (tx_ops id i l) -> exists t j, o = (KTx t, Some (VTxIdx id j)) /\ In t l.
Proof.
  revert i. induction l as [|t l IH]; simpl; intros i H; [contradiction|].
  destruct H as [H|H].
  - subst. eauto.
  - destruct (IH _ H) as (t' & j & -> & Hin). eauto.
Qed.

Lemma lookup_tx_ops_other id i l k : (forall t, k <> KTx t) -> lookup_ops (tx_ops id i l) k = None.
Proof.
  intros H. apply lookup_ops_none. intros o Ho.
  destruct (tx_ops_keys _ _ _ _ Ho) as (t & j & -> & _). simpl. intro; subst. eapply H; eauto.
Qed.

Lemma lookup_tx_ops_notin id i l t : ~ In t l -> lookup_ops (tx_ops id i l) (KTx t) = None.
Proof.
  intros H. apply lookup_ops_none. intros o Ho.
  destruct (tx_ops_keys _ _ _ _ Ho) as (t' & j & -> & Hin). simpl. intro E; inversion E; subst. auto.
Qed.

Lemma lookup_tx_ops_in id l : forall i j t, NoDup l -> nth_error l j = Some t ->
  lookup_ops (tx_ops id i l) (KTx t) = Some (Some (VTxIdx id (i + j)%nat)).
Proof.
  induction l as [|x l IH]; intros i j t Hnd Hn.
  - destruct j; discriminate.
  - inversion Hnd; subst. destruct j; simpl in *.
    + inversion Hn; subst. rewrite lookup_tx_ops_notin by auto.
      simpl. rewrite N.eqb_refl. rewrite Nat.add_0_r. reflexivity.
    + rewrite (IH (S i) j t H2 Hn). f_equal. f_equal. f_equal. lia.
Qed.

Lemma mem_In x l : mem x l = true <-> In x l.
Proof.
  unfold mem. rewrite existsb_exists. split.
  - intros (y & Hy & E). apply N.eqb_eq in E. subst. auto.
  - intros H. exists x. split; auto. apply N.eqb_refl.
Qed.
Lemma mem_false x l : mem x l = false <-> ~ In x l.
Proof. rewrite <- mem_In. destruct (mem x l); split; intros; try discriminate; auto. exfalso; auto. Qed.

Lemma dedup_In x l : In x (dedup l) <-> In x l.
Proof.
  induction l as [|y l IH]; simpl; [tauto|].
  destruct (mem y l) eqn:E.
  - rewrite IH. apply mem_In in E. split; auto. intros [->|]; auto.
  - simpl. rewrite IH. tauto.
Qed.
Lemma dedup_NoDup l : NoDup (dedup l).
Proof.
  induction l as [|y l IH]; simpl; [constructor|].
  destruct (mem y l) eqn:E; auto. constructor; auto.
  rewrite dedup_In. apply mem_false. auto.
Qed.

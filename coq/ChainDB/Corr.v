(** Correspondence: the model run on an engine case, observables flattened to [list N]
    (options as 0 / x+1) in the order the check script flattens the engine's observations. *)
From Coq Require Import NArith List Bool.
From Verif Require Import ChainDB.Model.
Import ListNotations.
Open Scope N_scope.

Definition apply_tbl (tbl : list (sroot * bid * option sroot)) (r : sroot) (b : block) : option sroot :=
  match find (fun e => (fst (fst e) =? r) && (snd (fst e) =? digest b)) tbl with
  | Some e => snd e
  | None => None
  end.

Record case := mkCase {
  c_genesis : block;
  c_blocks : list block;
  c_apply : list (sroot * bid * option sroot);
  c_arrivals : list (N * nat);       (* LIB reported before the arrival, index into c_blocks *)
  c_modes : list N;                  (* per arrival: pre-check outcome 0 ok / 1 timestamp / 2 sign, +4 = produced by the node itself,
                                        +8 = body pre-written by the consensus WAL *)
  c_txs : list txid;
  c_heights : nat;                    (* heights 0 .. c_heights-1 are observed *)
  c_cap : nat;
  c_f7 : bool;
  c_f27 : bool;
  c_f28 : bool;      (* fixes/F28_query_nil_deref.diff: queries no longer dereference a nil main-chain block *)
  c_wal : bool;      (* consensus configuration: HasWAL() *)
  c_params : list (sroot * N);   (* system parameters (numbered) stored in the state of each root *)
  c_expected : list (list N)
}.

Definition optN (o : option N) : N := match o with Some x => x + 1 | None => 0 end.
Definition bN (b : bool) : N := if b then 1 else 0.
Definition res_code (r : result) : N :=
  match r with ROk => 0 | RKnown => 1 | RCached => 2 | ROrphan => 3 | RErr => 4 end.

Definition receipts_code (f28 : bool) (d : store) (id : bid) : N :=
  match get_block d id with
  | None => 0
  | Some b =>
      match get_block_by_no d (no b) with
      | None => if f28 then 1 else 3                   (* nil dereference in getReceipts before F28 *)
      | Some m => if hash_field m =? hash_field b
                  then (if has_receipts d (hash_field b) (no b) then 2 else 0)
                  else 1
      end
  end.

Definition tx_obs (f28 : bool) (d : store) (t : txid) : list N :=
  (match get_tx d t with
   | TxAbsent => [0; 0; 0]
   | TxSide id i => [1; id; N.of_nat i]
   | TxMain id i => [2; id; N.of_nat i]
   | TxPanic => if f28 then match get_tx_raw d t with
                            | Some (b, i) => [1; hash_field b; N.of_nat i]
                            | None => [0; 0; 0]
                            end
                else [3; 0; 0]
   end) ++
  (match d (KTx t) with
   | Some (VTxIdx id i) => [1; id; N.of_nat i]
   | _ => [0; 0; 0]
   end).

Fixpoint seqN (start : N) (len : nat) : list N :=
  match len with O => [] | S l => start :: seqN (start + 1) l end.

Definition params_of (tbl : list (sroot * N)) (r : sroot) : N :=
  match find (fun e => fst e =? r) tbl with Some e => snd e + 1 | None => 0 end.

Definition observe (c : case) (n : node) (r : result) : list N :=
  let d := dur n in
  [res_code r; hash_field (best n); no (best n); optN (get_latest d); sdb_root n]
  ++ map (fun k => optN (get_hash_by_no d k)) (seqN 0 (c_heights c))
  ++ concat (map (tx_obs (c_f28 c) d) (c_txs c))
  ++ concat (map (fun b => [bN (has_receipts d (hash_field b) (no b)); receipts_code (c_f28 c) d (hash_field b);
                            bN (match get_block d (hash_field b) with Some _ => true | None => false end);
                            bN (mem (hash_field b) (bad n));
                            bN (existsb (fun o => hash_field o =? hash_field b) (orphans n))])
                    (c_blocks c))
  ++ [bN (match get_marker d with Some _ => true | None => false end)]
  ++ map (fun t => bN (existsb (fun e => match e with EvMemPoolPut t' => t =? t' | _ => false end) (evs n))) (c_txs c)
  ++ [N.of_nat (length (filter (fun e => match e with EvMemPoolPut _ => true | _ => false end) (evs n)))]
  ++ rev (concat (map (fun e => match e with EvMemPoolDel b => [b] | _ => [] end) (evs n)))
  ++ [N.of_nat (length (filter (fun e => match e with EvSyncStart _ => true | _ => false end) (evs n)))]
  ++ [params_of (c_params c) (pmem n)]
  ++ [optN (match find_ancestor d (rev (map hash_field (c_blocks c)) ++ [hash_field (c_genesis c)]) with
            | Some a => Some (hash_field a) | None => None end)].

Definition clear_evs (n : node) : node :=
  mkNode (dur n) (best n) (sdb_root n) (orphans n) (bad n) (lib n) (jlog n) [] (pmem n).

Definition dummy_block : block := mkBlock 0 0 0 0 [] 0.

Definition mode_pre (m : N) : precheck :=
  match m mod 4 with 1 => PreTimestamp | 2 => PreSign | _ => PreOk end.
Definition mode_own (m : N) : bool := 4 <=? m mod 8.
Definition mode_wal (m : N) : bool := 8 <=? m.

Definition step_node (c : case) (n : node) (l : N) (i : nat) (m : N) : node * result :=
  add_block_cfg (apply_tbl (c_apply c)) (c_f7 c) (c_f27 c) (c_cap c) (c_wal c) (mode_wal m) (mode_own m) (mode_pre m)
                (set_lib (clear_evs n) l) (nth i (c_blocks c) dummy_block).

Fixpoint run_steps (c : case) (n : node) (arr : list (N * nat)) (modes : list N) : list (list N) :=
  match arr with
  | [] => []
  | (l, i) :: arr' =>
      let '(n', r) := step_node c n l i (hd 0 modes) in
      observe c n' r :: run_steps c n' arr' (tl modes)
  end.

Definition run_case (c : case) : list (list N) :=
  run_steps c (init_node (c_genesis c)) (c_arrivals c) (c_modes c).

Fixpoint listN_eqb (a b : list N) : bool :=
  match a, b with
  | [], [] => true
  | x :: a', y :: b' => (x =? y) && listN_eqb a' b'
  | _, _ => false
  end.
Fixpoint listlistN_eqb (a b : list (list N)) : bool :=
  match a, b with
  | [], [] => true
  | x :: a', y :: b' => listN_eqb x y && listlistN_eqb a' b'
  | _, _ => false
  end.

Definition case_ok (c : case) : bool := listlistN_eqb (run_case c) (c_expected c).

Fixpoint mismatches_from (cs : list case) (i : nat) : list nat :=
  match cs with
  | [] => []
  | c :: cs' => if case_ok c then mismatches_from cs' (S i) else i :: mismatches_from cs' (S i)
  end.

(** the journal of write units of a whole case, as (store, kind, key classes) codes, for C06 *)
Definition key_class (k : dkey) : N :=
  match k with
  | KLatest => 1 | KHeight _ => 2 | KBlock _ => 3 | KTx _ => 4 | KReceipts _ _ => 5 | KMarker => 6
  | KStateMarker _ => 7
  end.
Definition unit_code (u : wunit) : list N :=
  (match u_store u with SChain => 0 | SState => 1 end)
  :: (match u_kind u with USet => 0 | UTx => 1 | UBulk => 2 end)
  :: map (fun o => key_class (fst o) * 2 + (match snd o with Some _ => 0 | None => 1 end)) (u_ops u).

Fixpoint run_nodes (c : case) (n : node) (arr : list (N * nat)) (modes : list N) : node :=
  match arr with
  | [] => n
  | (l, i) :: arr' => run_nodes c (fst (step_node c n l i (hd 0 modes))) arr' (tl modes)
  end.
Definition case_units (c : case) : list (list N) :=
  map unit_code (rev (jlog (run_nodes c (init_node (c_genesis c)) (c_arrivals c) (c_modes c)))).

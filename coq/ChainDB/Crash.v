(** C06: crash points.  A crash keeps the durable store of the write-unit prefix and loses the
    volatile state; [restart] rebuilds the node. *)
From Coq Require Import NArith List Bool Lia PeanoNat.
From Verif Require Import ChainDB.Model ChainDB.Basics ChainDB.Inv ChainDB.Reorg ChainDB.AddBlock.
Import ListNotations.
Open Scope N_scope.

Section Crash.
Variable apply : sroot -> block -> option sroot.
Variable spent : sroot -> txid -> bool.
Hypothesis apply_fresh : forall r b r', apply r b = Some r' ->
  NoDup (txs b) /\ forall t, In t (txs b) -> spent r t = false.
Hypothesis apply_spent : forall r b r' t, apply r b = Some r' ->
  spent r' t = spent r t || mem t (txs b).
Variable U : block -> Prop.
Hypothesis U_inj : forall a b, U a -> U b -> hash_field a = hash_field b -> a = b.
Variable g : block.
Notation Inv := (Inv apply spent U g).

(** Restarting on the durable store of any state satisfying the invariant (no reorg marker)
    yields a node with the same best block that satisfies the invariant, whose state root is
    the best block's root and is available. *)
Theorem restart_inv f7 n :
  Inv n ->
  exists n', restart f7 (dur n) = Some (StartOk n') /\ Inv n' /\ best n' = best n /\ dur n' = dur n /\
             has_state_marker (dur n') (root (best n')) = true.
Proof.
  intros I. unfold restart. rewrite (i_latest _ _ _ _ _ I).
  pose proof (i_best _ _ _ _ _ I) as Hb. unfold mainb in Hb. rewrite Hb.
  unfold get_marker. rewrite (i_nomarker _ _ _ _ _ I).
  exists (mkNode (dur n) (best n) (root (best n)) [] [] 0 [] []).
  split; [reflexivity|]. split; [|split; [reflexivity|split; [reflexivity|]]].
  - pose proof I as I0. destruct I0. constructor; simpl; auto. contradiction.
  - simpl. eapply (i_state _ _ _ _ _ I (no (best n))); eauto. lia.
Qed.

(** Write units of connecting one main-chain block, oldest first. *)
Definition connect_units (b : block) : list wunit :=
  [state_unit (root b)] ++ (match txs b with [] => [] | _ => [receipts_unit b] end) ++ [connect_unit b].

Lemma connect_main_units n b n' : connect_main apply n b = Some n' ->
  jlog n' = rev (connect_units b) ++ jlog n /\ dur n' = replay (dur n) (connect_units b).
Proof.
  unfold connect_main, execute_block. destruct (exec_ok apply (sdb_root n) b); [|discriminate].
  intros H. inversion H; subst; clear H. unfold connect_units, emit_ne, receipts_unit.
  destruct (txs b); simpl; auto.
Qed.

(** Crash after any prefix of the write units of a main-chain connection: the node restarts
    on the old tip (before the tip transaction) or on the new tip, and the invariant holds. *)
Theorem crash_connect_inv f7 n b n' k :
  Inv n -> U b -> prev b = hash_field (best n) -> no b = no (best n) + 1 ->
  connect_main apply n b = Some n' ->
  exists r, restart f7 (crash k (dur n) (connect_units b)) = Some (StartOk r) /\ Inv r /\
            (best r = best n \/ best r = b) /\
            has_state_marker (dur r) (root (best r)) = true.
Proof.
  intros I Ub Hp Hn Hc.
  destruct (connect_main_inv apply spent apply_fresh apply_spent U U_inj g _ _ _ I Ub Hp Hn Hc) as (I' & Hb' & _).
  destruct (connect_main_units _ _ _ Hc) as (_ & Hd).
  (* the intermediate states after the state commit and after the receipts *)
  unfold connect_main in Hc. destruct (execute_block apply n b) as [n1|] eqn:Ex; [|discriminate].
  destruct (execute_block_frame _ _ _ _ Ex) as (Hok & Fb & Fs & Fo & Fbad & Flib & Ff & Fm & Fr).
  unfold execute_block in Ex. rewrite Hok in Ex. inversion Ex as [En1]; clear Ex.
  set (na := emit n (state_unit (root b))).
  assert (Ia : Inv na).
  { eapply (inv_frame apply spent U g n); simpl; eauto.
    all: try (intros k0 H1 H2; apply state_unit_frame; auto; fail).
    all: try (intros r Hr; rewrite state_unit_marker, Hr; apply orb_true_r). }
  assert (I1 : Inv (set_sdb n1 (sdb_root n))).
  { eapply (inv_frame apply spent U g n); simpl; eauto.
    all: try (intros r H; rewrite Fm, H; apply orb_true_r).
    all: try (intros i m H; rewrite Fr, H; apply orb_true_r). }
  assert (D1 : dur n1 = replay (dur n) ([state_unit (root b)] ++ match txs b with [] => [] | _ => [receipts_unit b] end)).
  { rewrite <- En1. simpl. unfold emit_ne, receipts_unit. destruct (txs b); reflexivity. }
  unfold crash, connect_units.
  destruct k as [|k].
  - simpl. destruct (restart_inv f7 n I) as (r & R1 & R2 & R3 & R4 & R5). exists r. rewrite R3 in *. auto.
  - destruct k as [|k].
    + simpl firstn. change (replay (dur n) [state_unit (root b)]) with (dur na).
      destruct (restart_inv f7 na Ia) as (r & R1 & R2 & R3 & R4 & R5). exists r. rewrite R3 in *. simpl in *. auto.
    + destruct (txs b) as [|t0 tl] eqn:Et.
      * (* no receipts unit: second unit is the tip transaction *)
        simpl app. replace (firstn (S (S k)) [state_unit (root b); connect_unit b]) with [state_unit (root b); connect_unit b]
          by (destruct k; reflexivity).
        change ([state_unit (root b); connect_unit b]) with ([state_unit (root b)] ++ [] ++ [connect_unit b]).
        unfold connect_units in Hd. rewrite Et in Hd. rewrite <- Hd.
        destruct (restart_inv f7 n' I') as (r & R1 & R2 & R3 & R4 & R5). exists r. rewrite R3 in *. rewrite Hb' in *. auto.
      * destruct k as [|k].
        -- simpl app. simpl firstn. simpl app in D1. rewrite <- D1.
           change (dur n1) with (dur (set_sdb n1 (sdb_root n))).
           destruct (restart_inv f7 _ I1) as (r & R1 & R2 & R3 & R4 & R5). exists r. rewrite R3 in *. simpl in *.
           rewrite Fb in *. auto.
        -- simpl app. replace (firstn (S (S (S k))) [state_unit (root b); receipts_unit b; connect_unit b])
             with [state_unit (root b); receipts_unit b; connect_unit b] by (destruct k; reflexivity).
           unfold connect_units in Hd. rewrite Et in Hd. simpl app in Hd. rewrite <- Hd.
           destruct (restart_inv f7 n' I') as (r & R1 & R2 & R3 & R4 & R5). exists r. rewrite R3 in *. rewrite Hb' in *. auto.
Qed.

End Crash.

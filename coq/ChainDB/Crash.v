(** C06: crash points.  A crash keeps the durable store of the write-unit prefix and loses the
    volatile state; [restart] rebuilds the node. *)
From Coq Require Import NArith List Bool Lia PeanoNat.
From Verif Require Import ChainDB.Model ChainDB.Basics ChainDB.Inv ChainDB.Reorg ChainDB.AddBlock.
Import ListNotations.
Open Scope N_scope.

Section Crash.
Variable apply : sroot -> block -> option sroot.
Variable spent : sroot -> txid -> bool.
Hypothesis apply_fresh : forall r b r', apply r b = Some r' ->
  NoDup (txs b) /\ forall t, In t (txs b) -> spent r t = false.
Hypothesis apply_spent : forall r b r' t, apply r b = Some r' ->
  spent r' t = spent r t || mem t (txs b).
Variable U : block -> Prop.
Hypothesis U_inj : forall a b, U a -> U b -> hash_field a = hash_field b -> a = b.
Variable g : block.
Notation Inv := (Inv apply spent U g).

(** Restarting on the durable store of any state satisfying the invariant (no reorg marker)
    yields a node with the same best block that satisfies the invariant, whose state root is
    the best block's root and is available. *)
Theorem restart_inv f7 n :
  Inv n ->
  exists n', restart f7 (dur n) = Some (StartOk n') /\ Inv n' /\ best n' = best n /\ dur n' = dur n /\
             has_state_marker (dur n') (root (best n')) = true.
Proof.
  intros I. unfold restart. rewrite (i_latest _ _ _ _ _ I).
  pose proof (i_best _ _ _ _ _ I) as Hb. unfold mainb in Hb. rewrite Hb.
  unfold get_marker. rewrite (i_nomarker _ _ _ _ _ I).
  exists (mkNode (dur n) (best n) (root (best n)) [] [] 0 [] [] (root (best n))).
  split; [reflexivity|]. split; [|split; [reflexivity|split; [reflexivity|]]].
  - pose proof I as I0. destruct I0. constructor; simpl; auto. contradiction.
  - simpl. eapply (i_state _ _ _ _ _ I (no (best n))); eauto. lia.
Qed.

(** Write units of connecting one main-chain block, oldest first. *)
Definition connect_units (b : block) : list wunit :=
  [state_unit (root b)] ++ (match txs b with [] => [] | _ => [receipts_unit b] end) ++ [connect_unit b].

Lemma connect_main_units n b n' : connect_main apply n b = Some n' ->
  jlog n' = rev (connect_units b) ++ jlog n /\ dur n' = replay (dur n) (connect_units b).
Proof.
  unfold connect_main, execute_block. destruct (pmem n =? sdb_root n); [|discriminate]. destruct (exec_ok apply (sdb_root n) b); [|discriminate].
  intros H. inversion H; subst; clear H. unfold connect_units, emit_ne, receipts_unit.
  destruct (txs b); simpl; auto.
Qed.

(** Crash after any prefix of the write units of a main-chain connection: the node restarts
    on the old tip (before the tip transaction) or on the new tip, and the invariant holds. *)
Theorem crash_connect_inv f7 n b n' k :
  Inv n -> U b -> prev b = hash_field (best n) -> no b = no (best n) + 1 ->
  connect_main apply n b = Some n' ->
  exists r, restart f7 (crash k (dur n) (connect_units b)) = Some (StartOk r) /\ Inv r /\
            (best r = best n \/ best r = b) /\
            has_state_marker (dur r) (root (best r)) = true.
Proof.
  intros I Ub Hp Hn Hc.
  destruct (connect_main_inv apply spent apply_fresh apply_spent U U_inj g _ _ _ I Ub Hp Hn Hc) as (I' & Hb' & _).
  destruct (connect_main_units _ _ _ Hc) as (_ & Hd).
  (* the intermediate states after the state commit and after the receipts *)
  unfold connect_main in Hc. destruct (execute_block apply n b) as [n1|] eqn:Ex; [|discriminate].
  destruct (execute_block_frame _ _ _ _ Ex) as (Hok & Fb & Fs & Fo & Fbad & Flib & Ff & Fm & Fr).
  unfold execute_block in Ex. rewrite Hok, (i_params _ _ _ _ _ I), N.eqb_refl in Ex. cbn [andb] in Ex.
  inversion Ex as [En1]; clear Ex.
  set (na := emit n (state_unit (root b))).
  assert (Ia : Inv na).
  { eapply (inv_frame apply spent U g n); simpl; eauto.
    all: try (intros k0 H1 H2; apply state_unit_frame; auto; fail).
    all: try (intros r Hr; rewrite state_unit_marker, Hr; apply orb_true_r). }
  assert (I1 : Inv (set_state n1 (sdb_root n))).
  { eapply (inv_frame apply spent U g n); simpl; eauto.
    all: try (intros r H; rewrite Fm, H; apply orb_true_r).
    all: try (intros i m H; rewrite Fr, H; apply orb_true_r).
    all: try (symmetry; apply (i_params _ _ _ _ _ I)). }
  assert (D1 : dur n1 = replay (dur n) ([state_unit (root b)] ++ match txs b with [] => [] | _ => [receipts_unit b] end)).
  { rewrite <- En1. simpl. unfold emit_ne, receipts_unit. destruct (txs b); reflexivity. }
  unfold crash, connect_units.
  destruct k as [|k].
  - simpl. destruct (restart_inv f7 n I) as (r & R1 & R2 & R3 & R4 & R5). exists r. rewrite R3 in *. auto.
  - destruct k as [|k].
    + simpl firstn. change (replay (dur n) [state_unit (root b)]) with (dur na).
      destruct (restart_inv f7 na Ia) as (r & R1 & R2 & R3 & R4 & R5). exists r. rewrite R3 in *. simpl in *. auto.
    + destruct (txs b) as [|t0 tl] eqn:Et.
      * (* no receipts unit: second unit is the tip transaction *)
        simpl app. replace (firstn (S (S k)) [state_unit (root b); connect_unit b]) with [state_unit (root b); connect_unit b]
          by (destruct k; reflexivity).
        change ([state_unit (root b); connect_unit b]) with ([state_unit (root b)] ++ [] ++ [connect_unit b]).
        unfold connect_units in Hd. rewrite Et in Hd. rewrite <- Hd.
        destruct (restart_inv f7 n' I') as (r & R1 & R2 & R3 & R4 & R5). exists r. rewrite R3 in *. rewrite Hb' in *. auto.
      * destruct k as [|k].
        -- simpl app. simpl firstn. simpl app in D1. rewrite <- D1.
           change (dur n1) with (dur (set_state n1 (sdb_root n))).
           destruct (restart_inv f7 _ I1) as (r & R1 & R2 & R3 & R4 & R5). exists r. rewrite R3 in *. simpl in *.
           rewrite Fb in *. auto.
        -- simpl app. replace (firstn (S (S (S k))) [state_unit (root b); receipts_unit b; connect_unit b])
             with [state_unit (root b); receipts_unit b; connect_unit b] by (destruct k; reflexivity).
           unfold connect_units in Hd. rewrite Et in Hd. simpl app in Hd. rewrite <- Hd.
           destruct (restart_inv f7 n' I') as (r & R1 & R2 & R3 & R4 & R5). exists r. rewrite R3 in *. rewrite Hb' in *. auto.
Qed.

End Crash.

Lemma firstn_In_l {A} k (l : list A) x : In x (firstn k l) -> In x l.
Proof. revert k. induction l as [|a l IH]; intros k H; destruct k; simpl in *; auto; try contradiction. destruct H; eauto. Qed.

(** ** Crash points of longer operations *)
Section Crash2.
Variable apply : sroot -> block -> option sroot.
Variable spent : sroot -> txid -> bool.
Hypothesis apply_fresh : forall r b r', apply r b = Some r' ->
  NoDup (txs b) /\ forall t, In t (txs b) -> spent r t = false.
Hypothesis apply_spent : forall r b r' t, apply r b = Some r' ->
  spent r' t = spent r t || mem t (txs b).
Variable U : block -> Prop.
Hypothesis U_inj : forall a b, U a -> U b -> hash_field a = hash_field b -> a = b.
Variable g : block.
Notation Inv := (Inv apply spent U g).

(** a store that differs from a consistent one only by additional state markers, receipts and
    additional (never replaced) blocks *)
Definition frame_of (n : node) (d' : store) : Prop :=
  (forall k, (forall r, k <> KStateMarker r) -> (forall i m, k <> KReceipts i m) -> (forall id, k <> KBlock id) ->
             d' k = dur n k) /\
  (forall id x, get_block (dur n) id = Some x -> get_block d' id = Some x) /\
  (forall id x, d' (KBlock id) = Some (VBlock x) -> U x /\ hash_field x = id) /\
  (forall r, has_state_marker (dur n) r = true -> has_state_marker d' r = true) /\
  (forall i m, has_receipts (dur n) i m = true -> has_receipts d' i m = true).

Lemma frame_of_refl n : Inv n -> frame_of n (dur n).
Proof.
  intros I. split; [auto|]. split; [auto|]. split; [apply (i_univ _ _ _ _ _ I)|]. split; auto.
Qed.

Theorem restart_frame f7 n d' :
  Inv n -> frame_of n d' ->
  exists r, restart f7 d' = Some (StartOk r) /\ Inv r /\ best r = best n /\ dur r = d' /\
            has_state_marker (dur r) (root (best r)) = true.
Proof.
  intros I (Hf & GB & HU & Hm & Hr).
  set (n' := mkNode d' (best n) (root (best n)) [] [] 0 [] [] (root (best n))).
  assert (I' : Inv n').
  { eapply (inv_frame2 apply spent U g n n'); simpl; auto.
    - symmetry. apply (i_sdb _ _ _ _ _ I).
    - contradiction.
    - rewrite (i_params _ _ _ _ _ I). symmetry. apply (i_sdb _ _ _ _ _ I). }
  unfold restart.
  assert (E1 : get_latest d' = Some (no (best n))).
  { unfold get_latest. rewrite Hf by (intros; discriminate). apply (i_latest _ _ _ _ _ I). }
  rewrite E1.
  pose proof (i_best _ _ _ _ _ I') as Hb. simpl in Hb. unfold mainb in Hb. rewrite Hb.
  unfold get_marker. rewrite Hf by (intros; discriminate). rewrite (i_nomarker _ _ _ _ _ I).
  exists n'. split; [reflexivity|]. split; [exact I'|]. split; [reflexivity|]. split; [reflexivity|].
  simpl. eapply (i_state _ _ _ _ _ I' (no (best n))); simpl; eauto. lia.
Qed.

(** prefixes of state-commit / receipts / side-store units keep the frame *)
Definition benign_unit (u : wunit) : Prop :=
  (exists r, u = state_unit r) \/ (exists b, u = receipts_unit b) \/ (exists b, U b /\ u = store_unit b).

Lemma frame_of_step n d' u : Inv n -> frame_of n d' -> benign_unit u ->
  (forall b, u = store_unit b -> forall x, get_block d' (hash_field b) = Some x -> x = b) ->
  frame_of n (apply_unit d' u).
Proof.
  intros I (Hf & GB & HU & Hm & Hr) Hu Hsame.
  destruct Hu as [(r & ->)|[(b & ->)|(b & Ub & ->)]].
  - split; [|split; [|split; [|split]]].
    + intros k H1 H2 H3. rewrite state_unit_frame by auto. auto.
    + intros id x Hx. rewrite (get_block_ext d' (apply_unit d' (state_unit r))); auto;
        try (apply state_unit_frame; intros; discriminate).
    + intros id x. rewrite state_unit_frame by (intros; discriminate). auto.
    + intros r0 H. rewrite state_unit_marker. rewrite (Hm _ H). apply orb_true_r.
    + intros i m H. unfold has_receipts. rewrite state_unit_frame by (intros; discriminate). apply Hr. exact H.
  - split; [|split; [|split; [|split]]].
    + intros k H1 H2 H3. rewrite receipts_unit_frame by auto. auto.
    + intros id x Hx. rewrite (get_block_ext d' (apply_unit d' (receipts_unit b))); auto;
        try (apply receipts_unit_frame; intros; discriminate).
    + intros id x. rewrite receipts_unit_frame by (intros; discriminate). auto.
    + intros r0 H. unfold has_state_marker. rewrite receipts_unit_frame by (intros; discriminate). apply Hm. exact H.
    + intros i m H. rewrite receipts_unit_has. rewrite (Hr _ _ H). apply orb_true_r.
  - assert (F : forall k, (forall id, k <> KBlock id) -> apply_unit d' (store_unit b) k = d' k).
    { intros k Hk. rewrite store_unit_reads. destruct (dkey_eqb (KBlock (hash_field b)) k) eqn:E; auto.
      apply dkey_eqb_spec in E. exfalso. eapply Hk; eauto. }
    split; [|split; [|split; [|split]]].
    + intros k H1 H2 H3. rewrite F by auto. auto.
    + intros id x Hx. apply get_block_store_mono; auto. 
    + intros id x. rewrite store_unit_reads. simpl. destruct (hash_field b =? id) eqn:E.
      * intros H; inversion H; subst. apply N.eqb_eq in E. auto.
      * apply HU.
    + intros r0 H. unfold has_state_marker. rewrite F by (intros; discriminate). apply Hm. exact H.
    + intros i m H. unfold has_receipts. rewrite F by (intros; discriminate). apply Hr. exact H.
Qed.

Lemma frame_same_block n d' b x : Inv n -> frame_of n d' -> U b -> get_block d' (hash_field b) = Some x -> x = b.
Proof.
  intros I (_ & _ & HU & _) Ub Hx. unfold get_block in Hx.
  destruct (d' (KBlock (hash_field b))) as [[]|] eqn:E; try discriminate.
  destruct (hash_field b0 =? hash_field b) eqn:E2; [|discriminate]. inversion Hx; subst.
  destruct (HU _ _ E) as (Ux & Hh). apply U_inj; auto.
Qed.

Lemma frame_of_replay n us : Inv n -> Forall benign_unit us -> forall d', frame_of n d' -> frame_of n (replay d' us).
Proof.
  intros I Hus. induction Hus as [|u us Hu _ IH]; intros d' F; simpl; auto.
  apply IH. apply frame_of_step; auto.
  intros b -> x Hx. destruct Hu as [(r & E)|[(b' & E)|(b' & Ub & E)]]; try discriminate.
  - unfold receipts_unit, store_unit in E. destruct (txs b'); inversion E.
  - inversion E; subst. eapply frame_same_block; eauto.
Qed.

(** crash_recover_inv / crash_best_legit / state_available for every crash point of a sequence of
    state commits, receipt writes and side-branch stores — the write units of an orphan-resolution
    run on a side branch and of the rollback/rollforward part of a reorganisation (everything up
    to the reorg marker): the node restarts on the old tip and the invariant holds. *)
Theorem crash_benign_prefix_inv f7 n us k :
  Inv n -> Forall benign_unit us ->
  exists r, restart f7 (crash k (dur n) us) = Some (StartOk r) /\ Inv r /\ best r = best n /\
            has_state_marker (dur r) (root (best r)) = true.
Proof.
  intros I Hus. unfold crash.
  assert (Hpre : Forall benign_unit (firstn k us)).
  { apply Forall_forall. intros u Hu. eapply Forall_forall in Hus; eauto. eapply firstn_In_l; eauto. }
  destruct (restart_frame f7 n _ I (frame_of_replay n _ I Hpre _ (frame_of_refl n I))) as (r & R1 & R2 & R3 & _ & R5).
  exists r. auto.
Qed.

End Crash2.

Section Crash3.
Variable apply : sroot -> block -> option sroot.
Variable spent : sroot -> txid -> bool.
Hypothesis apply_fresh : forall r b r', apply r b = Some r' ->
  NoDup (txs b) /\ forall t, In t (txs b) -> spent r t = false.
Hypothesis apply_spent : forall r b r' t, apply r b = Some r' ->
  spent r' t = spent r t || mem t (txs b).
Variable U : block -> Prop.
Hypothesis U_inj : forall a b, U a -> U b -> hash_field a = hash_field b -> a = b.
Variable g : block.
Notation Inv := (Inv apply spent U g).

(** a run of main-chain connections (the starting block and the parked descendants it pulls in) *)
Fixpoint connect_seq (n : node) (bs : list block) : option node :=
  match bs with
  | [] => Some n
  | b :: r => match connect_main apply n b with Some n1 => connect_seq n1 r | None => None end
  end.

Theorem crash_main_run_inv f7 bs : forall n n' k,
  Inv n -> linked (best n) bs -> (forall b, In b bs -> U b) -> connect_seq n bs = Some n' ->
  exists r, restart f7 (crash k (dur n) (concat (map connect_units bs))) = Some (StartOk r) /\ Inv r /\
            (best r = best n \/ In (best r) bs) /\ has_state_marker (dur r) (root (best r)) = true.
Proof.
  induction bs as [|b rest IH]; intros n n' k I Hl HU Hc.
  - simpl. unfold crash. rewrite firstn_nil. simpl.
    destruct (restart_inv apply spent U g f7 n I) as (r & R1 & R2 & R3 & R4 & R5). exists r. auto.
  - simpl in Hc. destruct (connect_main apply n b) as [n1|] eqn:Ec; [|discriminate].
    destruct Hl as (Hp & Hn & Hl').
    assert (Ub : U b) by (apply HU; left; reflexivity).
    destruct (connect_main_inv apply spent apply_fresh apply_spent U U_inj g _ _ _ I Ub Hp Hn Ec) as (I1 & B1 & _).
    destruct (connect_main_units apply _ _ _ Ec) as (_ & D1).
    cbn [concat map].
    destruct (Nat.le_gt_cases k (length (connect_units b))) as [Hle|Hgt].
    + unfold crash. rewrite firstn_app. replace (k - length (connect_units b))%nat with 0%nat by lia.
      simpl firstn at 2. rewrite app_nil_r.
      destruct (crash_connect_inv apply spent apply_fresh apply_spent U U_inj g f7 n b n1 k I Ub Hp Hn Ec)
        as (r & R1 & R2 & R3 & R4).
      exists r. unfold crash in R1. split; [exact R1|]. split; [exact R2|]. split; [|exact R4].
      destruct R3 as [->| ->]; [left; reflexivity|right; left; reflexivity].
    + unfold crash. rewrite firstn_app, firstn_all2 by lia. rewrite replay_app, <- D1.
      rewrite <- B1 in Hl'.
      destruct (IH n1 n' (k - length (connect_units b))%nat I1 Hl' ltac:(intros; apply HU; right; auto) Hc)
        as (r & R1 & R2 & R3 & R4).
      exists r. unfold crash in R1. split; [exact R1|]. split; [exact R2|]. split; [|exact R4].
      destruct R3 as [E|E]; [right; left; congruence|right; right; exact E].
Qed.

End Crash3.

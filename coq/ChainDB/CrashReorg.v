(** C06: crash points of a reorganisation after the reorg marker has been written.  The recovery
    (RecoverChainMapping + recoverReorg) recomputes and re-applies exactly the write units of
    swapChain; re-applying a sequence of writes on top of one of its own prefixes gives the same
    store, so the restarted node ends in the crash-free final state. *)
From Coq Require Import NArith List Bool Lia PeanoNat.
From Verif Require Import ChainDB.Model ChainDB.Basics ChainDB.Inv ChainDB.Reorg ChainDB.AddBlock ChainDB.Fork ChainDB.Crash.
Import ListNotations.
Open Scope N_scope.

Definition all_ops (us : list wunit) : list op := concat (map u_ops us).

Lemma apply_ops_app d a b : apply_ops d (a ++ b) = apply_ops (apply_ops d a) b.
Proof. unfold apply_ops. apply fold_left_app. Qed.
Lemma replay_all_ops us : forall d, replay d us = apply_ops d (all_ops us).
Proof.
  induction us as [|u us IH]; intros d; simpl; auto.
  unfold all_ops. simpl. rewrite apply_ops_app. fold (all_ops us). rewrite <- IH. reflexivity.
Qed.
Lemma replay_lookup d us k :
  replay d us k = match lookup_ops (all_ops us) k with Some v => v | None => d k end.
Proof. rewrite replay_all_ops. apply apply_ops_lookup. Qed.
Lemma all_ops_app a b : all_ops (a ++ b) = all_ops a ++ all_ops b.
Proof. unfold all_ops. rewrite map_app, concat_app. reflexivity. Qed.

Lemma replay_prefix_idem d us j k : replay (replay d (firstn j us)) us k = replay d us k.
Proof.
  assert (E : all_ops us = all_ops (firstn j us) ++ all_ops (skipn j us)).
  { rewrite <- all_ops_app, firstn_skipn. reflexivity. }
  rewrite (replay_lookup (replay d (firstn j us))), (replay_lookup d us), E, lookup_ops_app.
  destruct (lookup_ops (all_ops (skipn j us)) k); auto.
  rewrite replay_lookup. destruct (lookup_ops (all_ops (firstn j us)) k); auto.
Qed.
Lemma replay_ext d d' us : (forall k, d k = d' k) -> forall k, replay d us k = replay d' us k.
Proof. intros H k. rewrite !replay_lookup. destruct (lookup_ops (all_ops us) k); auto. Qed.

(** ** the write units of swapChain *)
Definition ne (u : wunit) : list wunit := match u_ops u with [] => [] | _ => [u] end.
Definition swap_mid (news olds : list block) : list wunit :=
  ne (del_receipts_unit olds) ++ concat (map (fun b => ne (txmap_unit b)) (rev news))
  ++ ne (txdel_unit (old_only_txs olds news)).
Definition swap_units (m : marker) (top : block) (news olds : list block) : list wunit :=
  (marker_write_unit m :: swap_mid news olds) ++ [heights_unit (rev news) top; marker_delete_unit].

Lemma emit_ne_replay n u : dur (emit_ne n u) = replay (dur n) (ne u).
Proof. unfold emit_ne, ne. destruct (u_ops u); reflexivity. Qed.
Lemma fold_emit_ne_replay (f : block -> wunit) L : forall n,
  dur (fold_left (fun n b => emit_ne n (f b)) L n) = replay (dur n) (concat (map (fun b => ne (f b)) L)).
Proof.
  induction L as [|b L IH]; intros n; simpl; auto.
  rewrite IH, emit_ne_replay, replay_app. reflexivity.
Qed.

Lemma swap_chain_dur n m top news olds :
  dur (swap_chain n m top news olds false) = replay (dur n) (swap_units m top news olds).
Proof.
  unfold swap_chain, swap_units, swap_mid. simpl dur.
  destruct (fold_tell_fields (old_only_txs olds news)
             (emit_ne (fold_left (fun n b => emit_ne n (txmap_unit b)) (rev news)
                        (emit_ne (emit n (marker_write_unit m)) (del_receipts_unit olds)))
                      (txdel_unit (old_only_txs olds news)))) as (D0 & _).
  rewrite D0, emit_ne_replay, fold_emit_ne_replay, emit_ne_replay. simpl dur.
  change (marker_write_unit m :: ?x) with ([marker_write_unit m] ++ x).
  rewrite !replay_app. reflexivity.
Qed.


Lemma emit_ne_jlog n u : jlog (emit_ne n u) = rev (ne u) ++ jlog n.
Proof. unfold emit_ne, ne. destruct (u_ops u); reflexivity. Qed.
Lemma fold_emit_ne_jlog (f : block -> wunit) L : forall n,
  jlog (fold_left (fun n b => emit_ne n (f b)) L n) = rev (concat (map (fun b => ne (f b)) L)) ++ jlog n.
Proof.
  induction L as [|b L IH]; intros n; simpl; auto.
  rewrite IH, emit_ne_jlog, rev_app_distr, <- app_assoc. reflexivity.
Qed.
Lemma fold_tell_jlog L : forall n, jlog (fold_left (fun n t => tell n (EvMemPoolPut t)) L n) = jlog n.
Proof. induction L as [|t L IH]; intros n; simpl; auto. rewrite IH. reflexivity. Qed.
Lemma swap_chain_jlog n m top news olds :
  jlog (swap_chain n m top news olds false) = rev (swap_units m top news olds) ++ jlog n.
Proof.
  unfold swap_chain, swap_units, swap_mid. simpl jlog.
  rewrite fold_tell_jlog, emit_ne_jlog, fold_emit_ne_jlog, emit_ne_jlog. simpl jlog.
  rewrite !rev_app_distr. simpl. rewrite !rev_app_distr. rewrite <- !app_assoc. simpl. reflexivity.
Qed.
Lemma rollforward_reco_jlog L : forall n n4 ok, rollforward_reco n L = (n4, ok) -> jlog n4 = jlog n.
Proof.
  induction L as [|b L IH]; intros n n4 ok H; simpl in H.
  - inversion H; subst. reflexivity.
  - unfold execute_block_reco in H. destruct (has_state_marker (dur n) (root b)).
    + rewrite (IH _ _ _ H). reflexivity.
    + inversion H; subst. reflexivity.
Qed.

Definition rt_key (k : dkey) : Prop := match k with KReceipts _ _ | KTx _ => True | _ => False end.

Lemma ne_ops u o : In o (all_ops (ne u)) -> In o (u_ops u).
Proof. unfold ne, all_ops. destruct (u_ops u) eqn:E; simpl; auto. rewrite E, app_nil_r. auto. Qed.

Lemma all_ops_concat_in {A} (g : A -> list wunit) L o :
  In o (all_ops (concat (map g L))) -> exists b, In b L /\ In o (all_ops (g b)).
Proof.
  induction L as [|b L IH]; simpl; intros H; [contradiction|].
  rewrite all_ops_app in H. apply in_app_or in H. destruct H as [H|H]; eauto.
  destruct (IH H) as (b' & Hb & Ho). eauto.
Qed.

Lemma swap_mid_keys news olds o : In o (all_ops (swap_mid news olds)) -> rt_key (fst o).
Proof.
  unfold swap_mid. rewrite !all_ops_app. intros H.
  apply in_app_or in H. destruct H as [H|H].
  - apply ne_ops in H. simpl in H. apply in_map_iff in H. destruct H as (b & <- & _). simpl. exact I.
  - apply in_app_or in H. destruct H as [H|H].
    + apply all_ops_concat_in in H. destruct H as (b & _ & H).
      apply ne_ops in H. simpl in H. destruct (tx_ops_keys _ _ _ _ H) as (t & j & -> & _). simpl. exact I.
    + apply ne_ops in H. simpl in H. apply in_map_iff in H. destruct H as (t & <- & _). simpl. exact I.
Qed.

Lemma prefix_ops_in (us : list wunit) j o : In o (all_ops (firstn j us)) -> In o (all_ops us).
Proof.
  unfold all_ops. rewrite !in_concat. intros (l & Hl & Ho). exists l. split; auto.
  apply in_map_iff in Hl. destruct Hl as (u & <- & Hu). apply in_map. eapply firstn_In_l; eauto.
Qed.

(** a store reached after the marker write and a prefix of the receipts/tx-index swaps *)
Lemma mid_prefix_reads d m news olds j k : ~ rt_key k ->
  replay d (marker_write_unit m :: firstn j (swap_mid news olds)) k =
  if dkey_eqb KMarker k then Some (VMarker m) else d k.
Proof.
  intros Hk. change (marker_write_unit m :: ?x) with ([marker_write_unit m] ++ x).
  rewrite replay_app, replay_lookup. rewrite lookup_ops_none.
  - simpl. unfold apply_unit, apply_ops. simpl. unfold upd. reflexivity.
  - intros o Ho E. apply prefix_ops_in in Ho. apply swap_mid_keys in Ho. rewrite E in Ho. contradiction.
Qed.

(** ** gatherReco recomputes the lists of gather *)
Lemma gather_down_ext fuel : forall d d' s x, (forall id, d' (KBlock id) = d (KBlock id)) ->
  gather_down fuel d' s x = gather_down fuel d s x.
Proof.
  induction fuel as [|f IH]; intros d d' s x H; simpl; auto.
  destruct (s <? no x); auto. rewrite (get_block_ext d d') by auto.
  destruct (get_block d (prev x)); auto. rewrite (IH d d') by auto. reflexivity.
Qed.

Lemma gather_down_unfold f d s cur :
  gather_down (S f) d s cur =
  if s <? no cur then
    match get_block d (prev cur) with
    | Some p => match gather_down f d s p with Some l => Some (cur :: l) | None => None end
    | None => None
    end
  else Some [].
Proof. reflexivity. Qed.

Lemma gather_down_path below : forall d cur f,
  dlinked cur below -> last below cur = f ->
  (forall y, In y below -> get_block d (hash_field y) = Some y) ->
  (forall c, In c (removelast (cur :: below)) -> no f < no c) ->
  gather_down (S (N.to_nat (no cur))) d (no f) cur = Some (removelast (cur :: below)).
Proof.
  induction below as [|y r IH]; intros d cur f Hd Hl Hst Hno.
  - simpl in Hl. subst f. rewrite gather_down_unfold, N.ltb_irrefl. reflexivity.
  - destruct Hd as (Hp & Hn & Hd').
    assert (Hrl : removelast (cur :: y :: r) = cur :: removelast (y :: r)) by reflexivity.
    assert (Hlt : no f <? no cur = true) by (apply N.ltb_lt; apply Hno; rewrite Hrl; left; reflexivity).
    assert (Efuel : N.to_nat (no cur) = S (N.to_nat (no y))) by lia.
    rewrite Efuel, gather_down_unfold, Hlt, Hp, (Hst y) by (left; reflexivity).
    assert (Hl' : last r y = f).
    { simpl in Hl. destruct r as [|z r']; auto. rewrite <- Hl. apply last_default. discriminate. }
    rewrite (IH d y f Hd' Hl').
    + rewrite Hrl. reflexivity.
    + intros z Hz. apply Hst. right. exact Hz.
    + intros c Hc. apply Hno. rewrite Hrl. right. exact Hc.
Qed.

(** main-chain blocks of heights lo+cnt-1 down to lo *)
Fixpoint mdesc (d : store) (lo : N) (cnt : nat) : list block :=
  match cnt with
  | O => []
  | S c => match mainb d (lo + N.of_nat c) with Some m => m :: mdesc d lo c | None => [] end
  end.

Lemma mdesc_snoc d : forall c lo m,
  (forall i, (i <= c)%nat -> exists x, mainb d (lo + N.of_nat i) = Some x) ->
  mainb d lo = Some m -> mdesc d lo (S c) = mdesc d (lo + 1) c ++ [m].
Proof.
  induction c as [|c IH]; intros lo m Htot Hm.
  - simpl. rewrite N.add_0_r, Hm. reflexivity.
  - cbn [mdesc]. destruct (Htot (S c) ltac:(lia)) as (x & Hx). rewrite Hx.
    replace (lo + 1 + N.of_nat c) with (lo + N.of_nat (S c)) by lia. rewrite Hx.
    specialize (IH lo m ltac:(intros i Hi; apply Htot; lia) Hm). cbn [mdesc] in IH.
    rewrite IH. reflexivity.
Qed.

Lemma gather_olds_exact fuel : forall d bestno cur news olds st news' olds',
  (forall k, k <= bestno -> exists x, mainb d k = Some x) ->
  gather fuel d bestno cur news olds = Some (st, news', olds') ->
  olds = mdesc d (no cur + 1) (N.to_nat (bestno - no cur)) ->
  olds' = mdesc d (no st + 1) (N.to_nat (bestno - no st)).
Proof.
  induction fuel as [|f IH]; intros d bestno cur news olds st news' olds' Htot G Ho; [discriminate|].
  rewrite gather_unfold in G.
  destruct (no cur <=? bestno) eqn:Ele.
  - apply N.leb_le in Ele. destruct (get_block_by_no d (no cur)) as [m|] eqn:Em; [|discriminate].
    destruct (hash_field cur =? hash_field m).
    + destruct (bestno =? no cur); [discriminate|]. destruct news; [discriminate|]. destruct olds; [discriminate|].
      inversion G; subst. exact Ho.
    + destruct (no cur =? 0) eqn:E0; [discriminate|]. apply N.eqb_neq in E0.
      destruct (get_block d (prev cur)) as [p|]; [|discriminate].
      destruct (no cur - 1 =? no p) eqn:En; [|discriminate]. apply N.eqb_eq in En.
      eapply IH; eauto. subst olds.
      replace (no p + 1) with (no cur) by lia.
      replace (N.to_nat (bestno - no p)) with (S (N.to_nat (bestno - no cur))) by lia.
      symmetry. apply mdesc_snoc; auto.
      intros i Hi. apply Htot. lia.
  - apply N.leb_gt in Ele.
    destruct (no cur =? 0) eqn:E0; [discriminate|]. apply N.eqb_neq in E0.
    destruct (get_block d (prev cur)) as [p|]; [|discriminate].
    destruct (no cur - 1 =? no p) eqn:En; [|discriminate]. apply N.eqb_eq in En.
    eapply IH; eauto. subst olds.
    replace (N.to_nat (bestno - no cur)) with 0%nat by lia.
    replace (N.to_nat (bestno - no p)) with 0%nat by lia. reflexivity.
Qed.

Lemma rollforward_reco_ok L : forall n,
  (forall x, In x L -> has_state_marker (dur n) (root x) = true) ->
  exists n4, rollforward_reco n L = (n4, true) /\ dur n4 = dur n /\ best n4 = best n /\ orphans n4 = orphans n /\
             sdb_root n4 = end_root (sdb_root n) L.
Proof.
  induction L as [|b L IH]; intros n H; simpl.
  - exists n. auto.
  - unfold execute_block_reco. rewrite (H b) by (left; reflexivity).
    destruct (IH (set_sdb n (root b))) as (n4 & R & D & B & O & S0).
    + intros x Hx. simpl. apply H. right. exact Hx.
    + exists n4. rewrite R. simpl in *. auto.
Qed.

Lemma end_root_snoc L : forall r x, end_root r (L ++ [x]) = root x.
Proof. induction L as [|b L IH]; intros r x; simpl; auto. Qed.



(** re-applying a write sequence heals every store that agrees with the original one outside the
    keys the sequence writes *)
Lemma replay_agree c d us : (forall k, lookup_ops (all_ops us) k = None -> c k = d k) ->
  forall k, replay c us k = replay d us k.
Proof.
  intros H k. rewrite !replay_lookup. destruct (lookup_ops (all_ops us) k) eqn:E; auto.
Qed.

Definition su_key (k : dkey) : Prop := match k with KBlock _ | KStateMarker _ => False | _ => True end.
Lemma swap_units_keys m top news olds o : In o (all_ops (swap_units m top news olds)) -> su_key (fst o).
Proof.
  unfold swap_units. rewrite all_ops_app. intros H. apply in_app_or in H. destruct H as [H|H].
  - change (marker_write_unit m :: swap_mid news olds) with ([marker_write_unit m] ++ swap_mid news olds) in H.
    rewrite all_ops_app in H. apply in_app_or in H. destruct H as [H|H].
    + unfold all_ops in H. simpl in H. destruct H as [<-|[]]. simpl. exact I.
    + apply swap_mid_keys in H. destruct (fst o); simpl in *; auto.
  - unfold all_ops in H. cbn [map concat u_ops heights_unit marker_delete_unit] in H. rewrite app_nil_r in H.
    apply in_app_or in H. destruct H as [H|H].
    + apply in_app_or in H. destruct H as [H|H].
      * apply in_map_iff in H. destruct H as (b & <- & _). simpl. exact I.
      * destruct H as [<-|[]]. simpl. exact I.
    + destruct H as [<-|[]]. simpl. exact I.
Qed.
Lemma swap_units_lookup_none m top news olds k : ~ su_key k -> lookup_ops (all_ops (swap_units m top news olds)) k = None.
Proof.
  intros H. apply lookup_ops_none. intros o Ho E. apply swap_units_keys in Ho. rewrite E in Ho. contradiction.
Qed.


Lemma lookup_ops_in_some ops k v : In (k, v) ops -> lookup_ops ops k <> None.
Proof.
  induction ops as [|o l IH]; simpl; [contradiction|]. intros [->|H].
  - destruct (lookup_ops l k); [discriminate|]. simpl. rewrite dkey_eqb_refl. discriminate.
  - destruct (lookup_ops l k) eqn:E; [discriminate|]. exfalso. apply (IH H). reflexivity.
Qed.
Lemma lookup_ops_some_key ops k v : lookup_ops ops k = Some v -> exists v', In (k, v') ops.
Proof. intros H. exists v. apply lookup_ops_some_in. exact H. Qed.

(** ** RecoverChainMapping *)
Definition hop (b : block) : op := (KHeight (no b), Some (VHash (hash_field b))).

Lemma old_heights_unfold f d s cur :
  old_heights (S f) d s cur =
  if s <? no cur then
    match get_block d (prev cur) with
    | Some p => if no cur =? no p + 1 then
                  match old_heights f d s p with
                  | Some l => Some ((KHeight (no cur), Some (VHash (hash_field cur))) :: l)
                  | None => None
                  end
                else None
    | None => None
    end
  else Some [].
Proof. reflexivity. Qed.

Lemma old_heights_ext fuel : forall d d' s x, (forall id, d' (KBlock id) = d (KBlock id)) ->
  old_heights fuel d' s x = old_heights fuel d s x.
Proof.
  induction fuel as [|f IH]; intros d d' s x H; simpl; auto.
  destruct (s <? no x); auto. rewrite (get_block_ext d d') by auto.
  destruct (get_block d (prev x)); auto. destruct (no x =? no b + 1); auto. rewrite (IH d d') by auto. reflexivity.
Qed.

Lemma del_heights_lookup cnt : forall from h, N.of_nat cnt <= from ->
  lookup_ops (del_heights cnt from) (KHeight h) =
  if (from - N.of_nat cnt <? h) && (h <=? from) then Some None else None.
Proof.
  induction cnt as [|c IH]; intros from h Hle.
  - simpl. replace (from - 0) with from by lia.
    destruct (from <? h) eqn:E1; destruct (h <=? from) eqn:E2; auto.
    apply N.ltb_lt in E1. apply N.leb_le in E2. lia.
  - cbn [del_heights lookup_ops fst snd dkey_eqb]. rewrite IH by lia.
    replace (from - 1 - N.of_nat c) with (from - N.of_nat (S c)) by lia.
    destruct (from =? h) eqn:E0.
    + apply N.eqb_eq in E0. subst h.
      assert (E1 : (from - N.of_nat (S c) <? from) = true) by (apply N.ltb_lt; lia).
      assert (E2 : from <=? from = true) by (apply N.leb_le; lia).
      assert (E3 : from <=? from - 1 = false) by (apply N.leb_gt; lia).
      rewrite E1, E2, E3, andb_false_r. reflexivity.
    + apply N.eqb_neq in E0.
      destruct (from - N.of_nat (S c) <? h) eqn:E1; simpl; auto.
      destruct (h <=? from - 1) eqn:E2; destruct (h <=? from) eqn:E3; auto;
        apply N.leb_le in E2 || apply N.leb_gt in E2; apply N.leb_le in E3 || apply N.leb_gt in E3; lia.
Qed.
Lemma del_heights_other cnt from k : (forall h, k <> KHeight h) -> lookup_ops (del_heights cnt from) k = None.
Proof.
  intros H. apply lookup_ops_none. intros o Ho E. revert from Ho. induction cnt as [|c IH]; intros from Ho; simpl in Ho; [contradiction|].
  destruct Ho as [<-|Ho]; [simpl in E; eapply H; eauto|eapply IH; eauto].
Qed.

Lemma heights_unit_reads d L top p k : linked p L ->
  apply_unit d (heights_unit L top) k =
  match k with
  | KLatest => Some (VNo (no top))
  | KHeight h => match find (fun c => no c =? h) L with Some c => Some (VHash (hash_field c)) | None => d k end
  | _ => d k
  end.
Proof.
  intros Hl. unfold apply_unit, heights_unit. cbn [u_ops]. rewrite apply_ops_lookup, lookup_ops_app.
  cbn [lookup_ops fst snd].
  destruct k as [|h| | | | |]; cbn [dkey_eqb]; auto; try (rewrite heights_lookup_other by (intros; discriminate); reflexivity).
  rewrite (heights_lookup L p h Hl). destruct (find (fun c => no c =? h) L); reflexivity.
Qed.

Lemma Fnone_find (L : list block) k : (forall c, In c L -> no c <> k) -> find (fun c => no c =? k) L = None.
Proof.
  intros H. destruct (find (fun c => no c =? k) L) as [c|] eqn:E; auto.
  apply find_some in E. destruct E as (Hin & E). apply N.eqb_eq in E. exfalso. eapply H; eauto.
Qed.


(** write units of rollforward *)
Definition rf_units (L : list block) : list wunit :=
  concat (map (fun b => state_unit (root b) :: ne (receipts_unit b)) L).

Lemma rollforward_units apply L : forall n0 n2, rollforward apply n0 L = (n2, true) ->
  dur n2 = replay (dur n0) (rf_units L).
Proof.
  induction L as [|b L IH]; intros n0 n2 H; simpl in H.
  - inversion H; subst. reflexivity.
  - destruct (execute_block apply n0 b) as [n1|] eqn:Ex; [|discriminate].
    rewrite (IH _ _ H). unfold rf_units. cbn [map concat]. 
    change (state_unit (root b) :: ne (receipts_unit b)) with ([state_unit (root b)] ++ ne (receipts_unit b)).
    rewrite <- app_assoc, !replay_app. f_equal.
    unfold execute_block in Ex. destruct (pmem n0 =? sdb_root n0); [|discriminate]. destruct (exec_ok apply (sdb_root n0) b); [|discriminate].
    inversion Ex; subst; clear Ex. simpl dur. rewrite emit_ne_replay. reflexivity.
Qed.

Section Reco.
Variable apply : sroot -> block -> option sroot.
Variable spent : sroot -> txid -> bool.
Hypothesis apply_fresh : forall r b r', apply r b = Some r' ->
  NoDup (txs b) /\ forall t, In t (txs b) -> spent r t = false.
Hypothesis apply_spent : forall r b r' t, apply r b = Some r' ->
  spent r' t = spent r t || mem t (txs b).
Variable U : block -> Prop.
Hypothesis U_inj : forall a b, U a -> U b -> hash_field a = hash_field b -> a = b.
Variable g : block.
Notation Inv := (Inv apply spent U g).

(** main-chain walk of gatherReco *)
Lemma gd_main n s : Inv n -> forall c x, s + N.of_nat c <= no (best n) -> mainb (dur n) (s + N.of_nat c) = Some x ->
  gather_down (S (N.to_nat (s + N.of_nat c))) (dur n) s x = Some (mdesc (dur n) (s + 1) c).
Proof.
  intros I. induction c as [|c IH]; intros x Hle Hx.
  - rewrite gather_down_unfold. rewrite (i_no _ _ _ _ _ I _ _ Hle Hx).
    replace (s + N.of_nat 0) with s by lia. rewrite N.ltb_irrefl. reflexivity.
  - rewrite gather_down_unfold. rewrite (i_no _ _ _ _ _ I _ _ Hle Hx).
    assert (Hlt : s <? s + N.of_nat (S c) = true) by (apply N.ltb_lt; lia). rewrite Hlt.
    destruct (i_path _ _ _ _ _ I (s + N.of_nat c)) as (p & b & P1 & P2 & P3 & P4); [lia|].
    replace (s + N.of_nat c + 1) with (s + N.of_nat (S c)) in P2 by lia. rewrite Hx in P2. inversion P2; subst b.
    rewrite P3, (inv_main_stored apply spent U g n _ _ I P1).
    replace (N.to_nat (s + N.of_nat (S c))) with (S (N.to_nat (s + N.of_nat c))) by lia.
    rewrite (IH p ltac:(lia) P1). cbn [mdesc].
    replace (s + 1 + N.of_nat c) with (s + N.of_nat (S c)) by lia. rewrite Hx. reflexivity.
Qed.

Variable n : node.
Hypothesis I : Inv n.
Variables top st : block.
Variables news olds : list block.
Hypothesis Ut : U top.
Hypothesis Htop : get_block (dur n) (hash_field top) = Some top.
Hypothesis Hlt : no (best n) < no top.
Hypothesis G : gather (S (N.to_nat (no top))) (dur n) (no (best n)) top [] [] = Some (st, news, olds).
Variable n2 : node.
Hypothesis RF : rollforward apply (set_state n (root st)) (rev news) = (n2, true).

Let m := mkMarker (hash_field st) (no st) (hash_field (best n)) (no (best n)) (hash_field top) (no top).
Let nF := swap_chain n2 m top news olds false.
Let SU := swap_units m top news olds.

Lemma reco_facts :
  mainb (dur n) (no st) = Some st /\ no st < no (best n) /\ news <> [] /\ hd st news = top /\
  linked st (rev news) /\ (forall c, In c news -> get_block (dur n) (hash_field c) = Some c) /\
  olds = mdesc (dur n) (no st + 1) (N.to_nat (no (best n) - no st)) /\
  Inv nF /\ best nF = top /\
  (forall k, (forall r, k <> KStateMarker r) -> (forall i j, k <> KReceipts i j) -> dur n2 k = dur n k) /\
  (forall x, In x (rev news) -> has_state_marker (dur n2) (root x) = true).
Proof.
  assert (ACC : acc_ok (dur n) (no (best n)) top top [] []).
  { unfold acc_ok. repeat split; simpl; auto; try contradiction.
    all: try (intros (k & H1 & H2 & _); lia).
    all: try (intros H; exfalso; apply H; reflexivity). }
  destruct (gather_spec U U_inj (dur n) (no (best n)) (fun id x H => inv_stored_U apply spent U g n id x I H)
              (fun k x H => inv_main_stored apply spent U g n k x I H) _ _ _ _ _ _ _ _ ACC G)
    as (Gst & Glt & Gne & Ghd & Glink & Gstored & Gdiff & Golds).
  destruct (rollforward_frame apply _ _ _ _ RF) as (Fb & Fo & Fbad & Flib & Ff & Fm & Fr & Fok).
  destruct (Fok eq_refl) as (Hv & Hs & Hc). simpl in Fb, Fo, Ff, Fm, Fr, Hv, Hs, Hc.
  split; [exact Gst|]. split; [exact Glt|]. split; [exact Gne|]. split; [exact Ghd|]. split; [exact Glink|].
  split; [exact Gstored|]. split.
  { eapply (gather_olds_exact _ (dur n) (no (best n)) top [] [] st news olds); eauto.
    - apply (main_total _ _ _ _ _ I).
    - replace (N.to_nat (no (best n) - no top)) with 0%nat by lia. reflexivity. }
  split.
  { unfold nF. eapply (swap_inv apply spent apply_fresh apply_spent U g n n2); eauto.
    eapply rollforward_pmem; [exact RF|reflexivity]. }
  split.
  { unfold nF. destruct (swap_chain_reads n2 m top news olds st Glink) as (Rb & _). exact Rb. }
  split; [exact Ff|]. intros x Hx. apply Hc. exact Hx.
Qed.

(** the tail of Recover on a store that agrees with a prefix of the swap units *)
Lemma recover_tail_ok n1 P j :
  best n1 = best n -> orphans n1 = [] -> P = firstn j SU ->
  (forall k, dur n1 k = replay (dur n2) P k) ->
  (forall k, ~ rt_key k -> k <> KMarker -> dur n1 k = dur n2 k) ->
  exists r, recover_tail true n1 m = StartOk r /\ (forall k, dur r k = dur nF k) /\ best r = top /\ Inv r.
Proof.
  intros Hb Ho HP Hc Hnr.
  destruct reco_facts as (Gst & Glt & Gne & Ghd & Glink & Gstored & Eolds & IF & BF & Ff & Hmk).
  assert (KB : forall id, dur n1 (KBlock id) = dur n (KBlock id)).
  { intros id. rewrite Hnr by (simpl; auto; discriminate). apply Ff; intros; discriminate. }
  assert (GBc : forall id, get_block (dur n1) id = get_block (dur n) id) by (intros; apply get_block_ext; auto).
  pose proof (i_best _ _ _ _ _ I) as Hob. pose proof (inv_main_stored apply spent U g n _ _ I Hob) as Hobs.
  pose proof (inv_main_stored apply spent U g n _ _ I Gst) as Hsts.
  unfold recover_tail. simpl dur. simpl best. rewrite Hb. simpl m_best. rewrite N.eqb_refl. simpl negb. cbv iota.
  simpl m_top. simpl m_start. rewrite !GBc, Htop, Hsts, Hobs.
  assert (E1 : no top <=? no (best n) = false) by (apply N.leb_gt; lia).
  assert (E2 : no (best n) <=? no st = false) by (apply N.leb_gt; lia).
  assert (E3 : no top <=? no st = false) by (apply N.leb_gt; lia).
  rewrite E1, E2, E3. simpl orb. cbv iota.
  rewrite !(gather_down_ext _ (dur n) (dur n1)) by exact KB.
  (* old blocks *)
  assert (Go : gather_down (S (N.to_nat (no (best n)))) (dur n) (no st) (best n) = Some olds).
  { rewrite Eolds. set (c := N.to_nat (no (best n) - no st)).
    assert (Ec : no (best n) = no st + N.of_nat c) by (unfold c; lia).
    rewrite Ec at 1. apply (gd_main n (no st) I c); [lia|]. rewrite <- Ec. exact Hob. }
  rewrite Go.
  (* new blocks *)
  destruct news as [|tp news'] eqn:En; [contradiction|]. simpl in Ghd. subst tp.
  assert (Gn : gather_down (S (N.to_nat (no top))) (dur n) (no st) top = Some (top :: news')).
  { simpl in Glink.
    assert (Hd : dlinked top (rev (rev news') ++ [st])) by (eapply linked_dlinked; eauto).
    rewrite rev_involutive in Hd.
    rewrite (gather_down_path (news' ++ [st]) (dur n) top st Hd).
    - change (top :: news' ++ [st]) with ((top :: news') ++ [st]). rewrite removelast_last. reflexivity.
    - apply last_last.
    - intros y Hy. apply in_app_or in Hy. destruct Hy as [Hy|[<-|[]]]; auto. apply Gstored. right. exact Hy.
    - change (top :: news' ++ [st]) with ((top :: news') ++ [st]). rewrite removelast_last.
      intros c Hc'. eapply linked_no_gt; [exact Glink|]. apply in_or_app.
      destruct Hc' as [<-|Hc']; [right; left; reflexivity|left; rewrite <- in_rev; exact Hc']. }
  rewrite Gn.
  (* rollforward by markers *)
  destruct (rollforward_reco_ok (rev (top :: news')) (set_state (set_state n1 (root (best n))) (root st)))
    as (n4 & R4 & D4 & B4 & O4 & S4).
  { intros x Hx. simpl. unfold has_state_marker. rewrite Hnr by (simpl; auto; discriminate). apply Hmk. exact Hx. }
  rewrite R4. simpl in D4, B4, O4, S4.
  assert (Eh : hash_field (best n4) =? hash_field top = false).
  { apply N.eqb_neq. rewrite B4, Hb. intro E.
    destruct (inv_stored_U apply spent U g n _ _ I Hobs) as (Uo & _).
    assert (best n = top) by (apply U_inj; auto). rewrite H in Hlt. lia. }
  rewrite Eh. eexists. split; [reflexivity|].
  assert (Dr : forall k, dur (swap_chain n4 m top (top :: news') olds false) k = dur nF k).
  { intros k. unfold nF. rewrite !swap_chain_dur. rewrite D4.
    rewrite (replay_ext (dur n1) (replay (dur n2) P)) by exact Hc.
    rewrite HP. unfold SU. apply replay_prefix_idem. }
  split; [exact Dr|].
  destruct (swap_chain_reads n4 m top (top :: news') olds st Glink) as (Rb & Rs & Ro & _).
  split; [exact Rb|].
  set (r := swap_chain n4 m top (top :: news') olds false) in *.
  assert (A1 : best r = best nF) by (rewrite Rb; symmetry; exact BF).
  assert (A2 : sdb_root r = sdb_root nF).
  { rewrite Rs, S4. rewrite (i_sdb _ _ _ _ _ IF), BF. simpl. apply end_root_snoc. }
  assert (A3 : forall o, In o (orphans r) -> U o) by (rewrite Ro, O4, Ho; contradiction).
  assert (A4 : forall k, (forall r0, k <> KStateMarker r0) -> (forall i0 m0, k <> KReceipts i0 m0) ->
                         (forall id, k <> KBlock id) -> dur r k = dur nF k) by (intros; apply Dr).
  assert (A5 : forall id x, get_block (dur nF) id = Some x -> get_block (dur r) id = Some x).
  { intros id x Hx. rewrite <- Hx. apply get_block_ext. apply Dr. }
  assert (A6 : forall id x, dur r (KBlock id) = Some (VBlock x) -> U x /\ hash_field x = id).
  { intros id x. rewrite Dr. apply (i_univ _ _ _ _ _ IF). }
  assert (A7 : forall r0, has_state_marker (dur nF) r0 = true -> has_state_marker (dur r) r0 = true).
  { intros r0. unfold has_state_marker. rewrite Dr. auto. }
  assert (A8 : forall i0 j0, has_receipts (dur nF) i0 j0 = true -> has_receipts (dur r) i0 j0 = true).
  { intros i0 j0. unfold has_receipts. rewrite Dr. auto. }
  assert (A9 : pmem (reload r) = pmem nF).
  { change (pmem (reload r)) with (sdb_root r). rewrite A2. symmetry. apply (i_params _ _ _ _ _ IF). }
  exact (inv_frame2 apply spent U g nF (reload r) IF A1 A2 A3 A4 A5 A6 A7 A8 A9).
Qed.

(** the tail of Recover on ANY store that agrees with the store before the swap on every key the
    swap units do not write (whatever garbage the keys they do write hold) *)
Lemma recover_tail_gen n1 :
  best n1 = best n -> orphans n1 = [] ->
  (forall k, lookup_ops (all_ops SU) k = None -> dur n1 k = dur n2 k) ->
  exists r, recover_tail true n1 m = StartOk r /\ (forall k, dur r k = dur nF k) /\ best r = top /\ Inv r /\
            jlog r = rev SU ++ jlog n1.
Proof.
  intros Hb Ho Hagree.
  assert (Hnr : forall k, ~ su_key k -> dur n1 k = dur n2 k).
  { intros k Hk. apply Hagree. apply swap_units_lookup_none. exact Hk. }
  destruct reco_facts as (Gst & Glt & Gne & Ghd & Glink & Gstored & Eolds & IF & BF & Ff & Hmk).
  assert (KB : forall id, dur n1 (KBlock id) = dur n (KBlock id)).
  { intros id. rewrite Hnr by (simpl; auto). apply Ff; intros; discriminate. }
  assert (GBc : forall id, get_block (dur n1) id = get_block (dur n) id) by (intros; apply get_block_ext; auto).
  pose proof (i_best _ _ _ _ _ I) as Hob. pose proof (inv_main_stored apply spent U g n _ _ I Hob) as Hobs.
  pose proof (inv_main_stored apply spent U g n _ _ I Gst) as Hsts.
  unfold recover_tail. simpl dur. simpl best. rewrite Hb. simpl m_best. rewrite N.eqb_refl. simpl negb. cbv iota.
  simpl m_top. simpl m_start. rewrite !GBc, Htop, Hsts, Hobs.
  assert (E1 : no top <=? no (best n) = false) by (apply N.leb_gt; lia).
  assert (E2 : no (best n) <=? no st = false) by (apply N.leb_gt; lia).
  assert (E3 : no top <=? no st = false) by (apply N.leb_gt; lia).
  rewrite E1, E2, E3. simpl orb. cbv iota.
  rewrite !(gather_down_ext _ (dur n) (dur n1)) by exact KB.
  (* old blocks *)
  assert (Go : gather_down (S (N.to_nat (no (best n)))) (dur n) (no st) (best n) = Some olds).
  { rewrite Eolds. set (c := N.to_nat (no (best n) - no st)).
    assert (Ec : no (best n) = no st + N.of_nat c) by (unfold c; lia).
    rewrite Ec at 1. apply (gd_main n (no st) I c); [lia|]. rewrite <- Ec. exact Hob. }
  rewrite Go.
  (* new blocks *)
  destruct news as [|tp news'] eqn:En; [contradiction|]. simpl in Ghd. subst tp.
  assert (Gn : gather_down (S (N.to_nat (no top))) (dur n) (no st) top = Some (top :: news')).
  { simpl in Glink.
    assert (Hd : dlinked top (rev (rev news') ++ [st])) by (eapply linked_dlinked; eauto).
    rewrite rev_involutive in Hd.
    rewrite (gather_down_path (news' ++ [st]) (dur n) top st Hd).
    - change (top :: news' ++ [st]) with ((top :: news') ++ [st]). rewrite removelast_last. reflexivity.
    - apply last_last.
    - intros y Hy. apply in_app_or in Hy. destruct Hy as [Hy|[<-|[]]]; auto. apply Gstored. right. exact Hy.
    - change (top :: news' ++ [st]) with ((top :: news') ++ [st]). rewrite removelast_last.
      intros c Hc'. eapply linked_no_gt; [exact Glink|]. apply in_or_app.
      destruct Hc' as [<-|Hc']; [right; left; reflexivity|left; rewrite <- in_rev; exact Hc']. }
  rewrite Gn.
  (* rollforward by markers *)
  destruct (rollforward_reco_ok (rev (top :: news')) (set_state (set_state n1 (root (best n))) (root st)))
    as (n4 & R4 & D4 & B4 & O4 & S4).
  { intros x Hx. simpl. unfold has_state_marker. rewrite Hnr by (simpl; auto). apply Hmk. exact Hx. }
  rewrite R4. simpl in D4, B4, O4, S4.
  assert (Eh : hash_field (best n4) =? hash_field top = false).
  { apply N.eqb_neq. rewrite B4, Hb. intro E.
    destruct (inv_stored_U apply spent U g n _ _ I Hobs) as (Uo & _).
    assert (best n = top) by (apply U_inj; auto). rewrite H in Hlt. lia. }
  rewrite Eh. eexists. split; [reflexivity|].
  assert (Dr : forall k, dur (swap_chain n4 m top (top :: news') olds false) k = dur nF k).
  { intros k. unfold nF. rewrite !swap_chain_dur. rewrite D4.
    apply replay_agree. exact Hagree. }
  split; [exact Dr|].
  destruct (swap_chain_reads n4 m top (top :: news') olds st Glink) as (Rb & Rs & Ro & _).
  split; [exact Rb|].
  assert (JL : jlog (swap_chain n4 m top (top :: news') olds false) = rev SU ++ jlog n1).
  { unfold SU. rewrite swap_chain_jlog. f_equal. rewrite (rollforward_reco_jlog _ _ _ _ R4). reflexivity. }
  split; [|exact JL].
  set (r := swap_chain n4 m top (top :: news') olds false) in *.
  assert (A1 : best r = best nF) by (rewrite Rb; symmetry; exact BF).
  assert (A2 : sdb_root r = sdb_root nF).
  { rewrite Rs, S4. rewrite (i_sdb _ _ _ _ _ IF), BF. simpl. apply end_root_snoc. }
  assert (A3 : forall o, In o (orphans r) -> U o) by (rewrite Ro, O4, Ho; contradiction).
  assert (A4 : forall k, (forall r0, k <> KStateMarker r0) -> (forall i0 m0, k <> KReceipts i0 m0) ->
                         (forall id, k <> KBlock id) -> dur r k = dur nF k) by (intros; apply Dr).
  assert (A5 : forall id x, get_block (dur nF) id = Some x -> get_block (dur r) id = Some x).
  { intros id x Hx. rewrite <- Hx. apply get_block_ext. apply Dr. }
  assert (A6 : forall id x, dur r (KBlock id) = Some (VBlock x) -> U x /\ hash_field x = id).
  { intros id x. rewrite Dr. apply (i_univ _ _ _ _ _ IF). }
  assert (A7 : forall r0, has_state_marker (dur nF) r0 = true -> has_state_marker (dur r) r0 = true).
  { intros r0. unfold has_state_marker. rewrite Dr. auto. }
  assert (A8 : forall i0 j0, has_receipts (dur nF) i0 j0 = true -> has_receipts (dur r) i0 j0 = true).
  { intros i0 j0. unfold has_receipts. rewrite Dr. auto. }
  assert (A9 : pmem (reload r) = pmem nF).
  { change (pmem (reload r)) with (sdb_root r). rewrite A2. symmetry. apply (i_params _ _ _ _ _ IF). }
  exact (inv_frame2 apply spent U g nF (reload r) IF A1 A2 A3 A4 A5 A6 A7 A8 A9).
Qed.

Lemma firstn_swap_units j : (j <= length (swap_mid news olds))%nat ->
  firstn (Datatypes.S j) SU = marker_write_unit m :: firstn j (swap_mid news olds).
Proof.
  intros H. unfold SU, swap_units. simpl. f_equal. rewrite firstn_app.
  replace (j - length (swap_mid news olds))%nat with 0%nat by lia. simpl. apply app_nil_r.
Qed.

(** crash after the marker write and any prefix of deleteOldReceipts / swapTxMapping (the height
    index still describes the old branch): the marker-driven recovery redoes the swap and the
    node ends in exactly the crash-free final store, on the new tip. *)
Theorem crash_swap_mid_inv j : (j <= length (swap_mid news olds))%nat ->
  exists r, restart true (crash (Datatypes.S j) (dur n2) SU) = Some (StartOk r) /\ Inv r /\ best r = top /\
            (forall k, dur r k = dur nF k) /\ has_state_marker (dur r) (root (best r)) = true.
Proof.
  intros Hj. unfold crash. rewrite (firstn_swap_units j Hj).
  destruct reco_facts as (Gst & Glt & Gne & Ghd & Glink & Gstored & Eolds & IF & BF & Ff & Hmk).
  set (c := replay (dur n2) (marker_write_unit m :: firstn j (swap_mid news olds))).
  assert (Rd : forall k, ~ rt_key k -> c k = if dkey_eqb KMarker k then Some (VMarker m) else dur n2 k).
  { intros k Hk. apply mid_prefix_reads. exact Hk. }
  assert (RL : get_latest c = Some (no (best n))).
  { unfold get_latest. rewrite Rd by (simpl; auto). simpl. rewrite Ff by (intros; discriminate). apply (i_latest _ _ _ _ _ I). }
  assert (KB : forall id, c (KBlock id) = dur n (KBlock id)).
  { intros id. rewrite Rd by (simpl; auto). simpl. apply Ff; intros; discriminate. }
  assert (KH : forall k, c (KHeight k) = dur n (KHeight k)).
  { intros k. rewrite Rd by (simpl; auto). simpl. apply Ff; intros; discriminate. }
  assert (RB : get_block_by_no c (no (best n)) = Some (best n)).
  { pose proof (i_best _ _ _ _ _ I) as Hb. unfold mainb in Hb. rewrite <- Hb.
    unfold get_block_by_no, get_hash_by_no. rewrite KH. destruct (dur n (KHeight (no (best n)))) as [[]|]; auto.
    apply get_block_ext. apply KB. }
  assert (RM : get_marker c = Some m).
  { unfold get_marker. rewrite Rd by (simpl; auto). simpl. reflexivity. }
  unfold restart. rewrite RL, RB, RM. unfold recover_chain_mapping. simpl best. simpl m_best at 1. rewrite N.eqb_refl.
  destruct (recover_tail_ok (mkNode c (best n) (root (best n)) [] [] 0 [] [] (root (best n)))
              (firstn (Datatypes.S j) SU) (Datatypes.S j) eq_refl eq_refl eq_refl) as (r & R1 & R2 & R3 & R4).
  - intros k. rewrite (firstn_swap_units j Hj). reflexivity.
  - intros k Hk1 Hk2. simpl. rewrite Rd by exact Hk1. rewrite dkey_eqb_neq by (intro E; apply Hk2; auto). reflexivity.
  - exists r. rewrite R1. split; [reflexivity|]. split; [exact R4|]. split; [exact R3|]. split; [exact R2|].
    eapply (i_state _ _ _ _ _ R4 (no (best r))); eauto. lia. apply (i_best _ _ _ _ _ R4).
Qed.

(** crash after the last unit (or no crash): the crash-free final state *)
Theorem crash_swap_done_inv j : (length SU <= j)%nat ->
  exists r, restart true (crash j (dur n2) SU) = Some (StartOk r) /\ Inv r /\ best r = top /\
            (forall k, dur r k = dur nF k) /\ has_state_marker (dur r) (root (best r)) = true.
Proof.
  intros Hj. unfold crash. rewrite firstn_all2 by exact Hj.
  destruct reco_facts as (_ & _ & _ & _ & _ & _ & _ & IF & BF & _).
  destruct (restart_inv apply spent U g true nF IF) as (r & R1 & R2 & R3 & R4 & R5).
  exists r. unfold SU. rewrite <- swap_chain_dur. fold nF. split; [exact R1|]. split; [exact R2|].
  split; [congruence|]. split; [intros; rewrite R4; reflexivity|exact R5].
Qed.

Lemma old_heights_main n0 s : Inv n0 -> forall c x, s + N.of_nat c <= no (best n0) ->
  mainb (dur n0) (s + N.of_nat c) = Some x ->
  old_heights (Datatypes.S (N.to_nat (s + N.of_nat c))) (dur n0) s x = Some (map hop (mdesc (dur n0) (s + 1) c)).
Proof.
  intros I0. induction c as [|c IH]; intros x Hle Hx.
  - rewrite old_heights_unfold. rewrite (i_no _ _ _ _ _ I0 _ _ Hle Hx).
    replace (s + N.of_nat 0) with s by lia. rewrite N.ltb_irrefl. reflexivity.
  - rewrite old_heights_unfold. pose proof (i_no _ _ _ _ _ I0 _ _ Hle Hx) as Hnx. rewrite Hnx.
    assert (Hlt' : s <? s + N.of_nat (Datatypes.S c) = true) by (apply N.ltb_lt; lia). rewrite Hlt'.
    destruct (i_path _ _ _ _ _ I0 (s + N.of_nat c)) as (p & b & P1 & P2 & P3 & P4); [lia|].
    replace (s + N.of_nat c + 1) with (s + N.of_nat (Datatypes.S c)) in P2 by lia. rewrite Hx in P2. inversion P2; subst b.
    rewrite P3, (inv_main_stored apply spent U g n0 _ _ I0 P1).
    rewrite (i_no _ _ _ _ _ I0 (s + N.of_nat c) p ltac:(lia) P1).
    assert (En : s + N.of_nat (Datatypes.S c) =? s + N.of_nat c + 1 = true) by (apply N.eqb_eq; lia). rewrite En.
    replace (N.to_nat (s + N.of_nat (Datatypes.S c))) with (Datatypes.S (N.to_nat (s + N.of_nat c))) by lia.
    rewrite (IH p ltac:(lia) P1). cbn [mdesc].
    replace (s + 1 + N.of_nat c) with (s + N.of_nat (Datatypes.S c)) by lia. rewrite Hx.
    cbn [map]. unfold hop at 2. rewrite Hnx. reflexivity.
Qed.

Lemma main_height n0 h x : Inv n0 -> mainb (dur n0) h = Some x -> dur n0 (KHeight h) = Some (VHash (hash_field x)).
Proof.
  intros I0 Hx. unfold mainb, get_block_by_no, get_hash_by_no in Hx.
  destruct (dur n0 (KHeight h)) as [[| id | | | |]|] eqn:E; try discriminate.
  destruct (inv_stored_U apply spent U g n0 _ _ I0 Hx) as (_ & ->). reflexivity.
Qed.

Lemma hop_mdesc_lookup n0 : Inv n0 -> forall c lo h, lo + N.of_nat c <= no (best n0) + 1 ->
  lookup_ops (map hop (mdesc (dur n0) lo c)) (KHeight h) =
  if (lo <=? h) && (h <? lo + N.of_nat c) then Some (dur n0 (KHeight h)) else None.
Proof.
  intros I0. induction c as [|c IH]; intros lo h Hle.
  - simpl. replace (lo + 0) with lo by lia.
    destruct (lo <=? h) eqn:E1; destruct (h <? lo) eqn:E2; auto.
    apply N.leb_le in E1. apply N.ltb_lt in E2. lia.
  - cbn [mdesc]. destruct (main_total _ _ _ _ _ I0 (lo + N.of_nat c) ltac:(lia)) as (x & Hx). rewrite Hx.
    cbn [map lookup_ops]. rewrite IH by lia. unfold hop at 1. cbn [fst snd dkey_eqb].
    rewrite (i_no _ _ _ _ _ I0 (lo + N.of_nat c) x ltac:(lia) Hx).
    destruct (lo <=? h) eqn:E1; cbn [andb].
    + destruct (h <? lo + N.of_nat c) eqn:E2.
      * assert (E3 : h <? lo + N.of_nat (Datatypes.S c) = true) by (apply N.ltb_lt; apply N.ltb_lt in E2; lia).
        rewrite E3. reflexivity.
      * destruct (lo + N.of_nat c =? h) eqn:E4.
        -- apply N.eqb_eq in E4. subst h.
           assert (E3 : lo + N.of_nat c <? lo + N.of_nat (Datatypes.S c) = true) by (apply N.ltb_lt; lia).
           rewrite E3. rewrite (main_height n0 _ _ I0 Hx). reflexivity.
        -- assert (E3 : h <? lo + N.of_nat (Datatypes.S c) = false).
           { apply N.ltb_ge. apply N.ltb_ge in E2. apply N.eqb_neq in E4. lia. }
           rewrite E3. reflexivity.
    + destruct (lo + N.of_nat c =? h) eqn:E4; auto.
      apply N.eqb_eq in E4. apply N.leb_gt in E1. lia.
Qed.
Lemma hop_lookup_other l k : (forall h, k <> KHeight h) -> lookup_ops (map hop l) k = None.
Proof.
  intros H. apply lookup_ops_none. intros o Ho E. apply in_map_iff in Ho. destruct Ho as (b & <- & _).
  simpl in E. eapply H; eauto.
Qed.

Lemma del_heights_in cnt : forall from k o, N.of_nat cnt <= from -> In (k, o) (del_heights cnt from) ->
  exists h, k = KHeight h /\ from - N.of_nat cnt < h /\ h <= from.
Proof.
  induction cnt as [|cc IHc]; intros from k o Hle Hin; simpl in Hin; [contradiction|].
  destruct Hin as [Hin|Hin].
  - inversion Hin; subst. exists from. repeat split; lia.
  - destruct (IHc (from - 1) k o ltac:(lia) Hin) as (h & -> & A & B). exists h. repeat split; lia.
Qed.

Lemma mdesc_range n0 : Inv n0 -> forall c1 lo x, lo + N.of_nat c1 <= no (best n0) + 1 ->
  In x (mdesc (dur n0) lo c1) -> lo <= no x /\ no x < lo + N.of_nat c1.
Proof.
  intros I0. induction c1 as [|c1 IHc]; intros lo x Hle Hin; simpl in Hin; [contradiction|].
  destruct (mainb (dur n0) (lo + N.of_nat c1)) as [mm|] eqn:Em; [|contradiction].
  destruct Hin as [<-|Hin].
  - rewrite (i_no _ _ _ _ _ I0 (lo + N.of_nat c1) mm ltac:(lia) Em). lia.
  - destruct (IHc lo x ltac:(lia) Hin). lia.
Qed.

Lemma reco_nonmain : forall c mm, In c news -> no c <= no (best n) -> mainb (dur n) (no c) = Some mm ->
  hash_field c <> hash_field mm.
Proof.
  assert (ACC : acc_ok (dur n) (no (best n)) top top [] []).
  { unfold acc_ok. repeat split; simpl; auto; try contradiction.
    all: try (intros (k & H1 & H2 & _); lia).
    all: try (intros H; exfalso; apply H; reflexivity). }
  destruct (gather_spec U U_inj (dur n) (no (best n)) (fun id x H => inv_stored_U apply spent U g n id x I H)
              (fun k x H => inv_main_stored apply spent U g n k x I H) _ _ _ _ _ _ _ _ ACC G)
    as (_ & _ & _ & _ & _ & _ & Gdiff & _). exact Gdiff.
Qed.

(** every height above the branch root up to the new tip is written by the swap units *)
Lemma su_writes_heights h : no st < h -> h <= no top -> lookup_ops (all_ops SU) (KHeight h) <> None.
Proof.
  intros H1 H2. destruct reco_facts as (Gst & Glt & Gne & Ghd & Glink & _).
  assert (Ftop : exists it, nth_error (rev news) it = Some top /\ length (rev news) = Datatypes.S it).
  { destruct news as [|c news']; [contradiction|]. simpl in Ghd. subst c.
    exists (length (rev news')). simpl. split.
    - rewrite nth_error_app2 by lia. rewrite Nat.sub_diag. reflexivity.
    - rewrite app_length. simpl. lia. }
  destruct Ftop as (it & Hit & Hlen).
  pose proof (linked_nth _ _ _ _ Glink Hit) as Htn.
  set (i := N.to_nat (h - no st - 1)).
  assert (Hi : (i < length (rev news))%nat) by (unfold i; lia).
  destruct (nth_error (rev news) i) as [x|] eqn:Ex; [|apply nth_error_None in Ex; lia].
  pose proof (linked_nth _ _ _ _ Glink Ex) as Hx.
  apply (lookup_ops_in_some _ _ (Some (VHash (hash_field x)))).
  unfold SU, swap_units. rewrite all_ops_app. apply in_or_app. right.
  unfold all_ops. cbn [map concat u_ops heights_unit]. apply in_or_app. left. apply in_or_app. left.
  apply in_map_iff. exists x. split; [|eapply nth_error_In; eauto].
  f_equal. f_equal. unfold i in Hx. lia.
Qed.
Lemma su_writes_latest : lookup_ops (all_ops SU) KLatest <> None.
Proof.
  apply (lookup_ops_in_some _ _ (Some (VNo (no top)))).
  unfold SU, swap_units. rewrite all_ops_app. apply in_or_app. right.
  unfold all_ops. cbn [map concat u_ops heights_unit]. apply in_or_app. left. apply in_or_app. right. left. reflexivity.
Qed.

(** RecoverChainMapping from any loaded best block other than the old tip *)
Lemma rcm_ok c b0 :
  (forall k, lookup_ops (all_ops SU) k = None -> c k = dur n2 k) ->
  hash_field b0 <> hash_field (best n) ->
  exists n1, recover_chain_mapping (mkNode c b0 (root b0) [] [] 0 [] [] (root b0)) m = Some n1 /\
             best n1 = best n /\ orphans n1 = [] /\
             (forall k, lookup_ops (all_ops SU) k = None -> dur n1 k = dur n2 k) /\
             dur n1 KMarker = c KMarker /\
             dur n1 KLatest = Some (VNo (no (best n))) /\
             dur n1 (KHeight (no (best n))) = Some (VHash (hash_field (best n))) /\
             exists u, jlog n1 = [u] /\ dur n1 = apply_unit c u /\ u_kind u = UBulk.
Proof.
  intros R1 Hne.
  destruct reco_facts as (Gst & Glt & Gne & Ghd & Glink & Gstored & Eolds & IF & BF & Ff & Hmk).
  assert (KB : forall id, c (KBlock id) = dur n (KBlock id)).
  { intros id. rewrite R1 by (apply swap_units_lookup_none; simpl; auto). apply Ff; intros; discriminate. }
  pose proof (i_best _ _ _ _ _ I) as Hob. pose proof (inv_main_stored apply spent U g n _ _ I Hob) as Hobs.
  unfold recover_chain_mapping. simpl best. simpl dur. simpl m_best.
  assert (Eh : hash_field b0 =? hash_field (best n) = false) by (apply N.eqb_neq; exact Hne).
  rewrite Eh. rewrite (get_block_ext (dur n) c) by apply KB. rewrite Hobs.
  simpl m_start_no. rewrite (old_heights_ext _ (dur n) c) by apply KB.
  set (cnt := N.to_nat (no (best n) - no st)).
  assert (Ec : no (best n) = no st + N.of_nat cnt) by (unfold cnt; lia).
  assert (OH : old_heights (Datatypes.S (N.to_nat (no (best n)))) (dur n) (no st) (best n) = Some (map hop olds)).
  { rewrite Eolds. fold cnt. rewrite Ec at 1. apply (old_heights_main n (no st) I cnt); [lia|]. rewrite <- Ec. exact Hob. }
  rewrite OH. simpl m_top_no. simpl m_best_no.
  eexists. split; [reflexivity|]. split; [reflexivity|]. split; [reflexivity|].
  assert (Hu : forall k, lookup_ops (all_ops SU) k = None ->
             lookup_ops (del_heights (N.to_nat (no top - no (best n))) (no top) ++ map hop olds ++ [(KLatest, Some (VNo (no (best n))))]) k = None).
  { intros k Hk. destruct (lookup_ops (del_heights (N.to_nat (no top - no (best n))) (no top) ++ map hop olds ++ [(KLatest, Some (VNo (no (best n))))]) k) eqn:E; auto.
    exfalso. apply lookup_ops_some_in in E. apply in_app_or in E. destruct E as [E|E].
    - (* a deleted height *)
      destruct (del_heights_in (N.to_nat (no top - no (best n))) (no top) k o ltac:(lia) E) as (h & -> & H1 & H2).
      apply (su_writes_heights h); auto. lia.
    - apply in_app_or in E. destruct E as [E|[E|[]]].
      + apply in_map_iff in E. destruct E as (x & Ex & Hx). unfold hop in Ex. inversion Ex; subst k o.
        rewrite Eolds in Hx.
        fold cnt in Hx. destruct (mdesc_range n I cnt (no st + 1) x ltac:(lia) Hx) as (Hr1 & Hr2).
        apply (su_writes_heights (no x)); auto; lia.
      + inversion E as [[Ek Eo]]. rewrite <- Ek in Hk. apply su_writes_latest. exact Hk. }
  split; [|split; [|split; [|split]]].
  - intros k Hk. simpl. unfold apply_unit. rewrite apply_ops_lookup. cbn [u_ops]. rewrite (Hu k Hk). apply R1. exact Hk.
  - simpl. unfold apply_unit. rewrite apply_ops_lookup. cbn [u_ops].
    rewrite !lookup_ops_app. cbn [lookup_ops fst snd dkey_eqb].
    rewrite hop_lookup_other, del_heights_other by (intros; discriminate). reflexivity.
  - simpl. unfold apply_unit. rewrite apply_ops_lookup. cbn [u_ops].
    rewrite !lookup_ops_app. cbn [lookup_ops fst snd dkey_eqb]. reflexivity.
  - simpl. unfold apply_unit. rewrite apply_ops_lookup. cbn [u_ops].
    rewrite !lookup_ops_app. cbn [lookup_ops fst snd dkey_eqb].
    rewrite Eolds. fold cnt. rewrite (hop_mdesc_lookup n I cnt (no st + 1) (no (best n))) by lia.
    assert (E1 : (no st + 1 <=? no (best n)) && (no (best n) <? no st + 1 + N.of_nat cnt) = true).
    { apply andb_true_iff. split; [apply N.leb_le|apply N.ltb_lt]; lia. }
    rewrite E1. rewrite (main_height n _ _ I Hob). reflexivity.
  - eexists. split; [reflexivity|]. split; reflexivity.
Qed.


(** ** every store the swap / its recovery can leave behind is recoverable *)
(** [Rec c]: [c] agrees with the store before the swap on every key the swap units do not write,
    still holds the marker, and its tip pointer is loadable: Latest is the old height and the
    height index there names the old tip or a block of the new branch, or Latest is the new
    height and the height index there names the new tip. *)
Definition Rec (c : store) : Prop :=
  (forall k, lookup_ops (all_ops SU) k = None -> c k = dur n2 k) /\
  c KMarker = Some (VMarker m) /\
  ((c KLatest = Some (VNo (no (best n))) /\
    (c (KHeight (no (best n))) = Some (VHash (hash_field (best n))) \/
     exists nb, In nb news /\ no nb = no (best n) /\ c (KHeight (no (best n))) = Some (VHash (hash_field nb)))) \/
   (c KLatest = Some (VNo (no top)) /\ c (KHeight (no top)) = Some (VHash (hash_field top)))).

Theorem restart_rec c : Rec c ->
  exists r, restart true c = Some (StartOk r) /\ Inv r /\ best r = top /\ (forall k, dur r k = dur nF k) /\
            has_state_marker (dur r) (root (best r)) = true.
Proof.
  intros (R1 & R2 & R3).
  destruct reco_facts as (Gst & Glt & Gne & Ghd & Glink & Gstored & Eolds & IF & BF & Ff & Hmk).
  assert (KB : forall id, c (KBlock id) = dur n (KBlock id)).
  { intros id. rewrite R1 by (apply swap_units_lookup_none; simpl; auto). apply Ff; intros; discriminate. }
  assert (GBc : forall id, get_block c id = get_block (dur n) id) by (intros; apply get_block_ext; auto).
  pose proof (i_best _ _ _ _ _ I) as Hob. pose proof (inv_main_stored apply spent U g n _ _ I Hob) as Hobs.
  assert (RM : get_marker c = Some m) by (unfold get_marker; rewrite R2; reflexivity).
  assert (Tail : forall n1, best n1 = best n -> orphans n1 = [] ->
            (forall k, lookup_ops (all_ops SU) k = None -> dur n1 k = dur n2 k) ->
            exists r, recover_tail true n1 m = StartOk r /\ Inv r /\ best r = top /\ (forall k, dur r k = dur nF k) /\
                      has_state_marker (dur r) (root (best r)) = true).
  { intros n1 Hb Ho Ha. destruct (recover_tail_gen n1 Hb Ho Ha) as (r & T1 & T2 & T3 & T4 & _).
    exists r. split; [exact T1|]. split; [exact T4|]. split; [exact T3|]. split; [exact T2|].
    eapply (i_state _ _ _ _ _ T4 (no (best r))); eauto. lia. apply (i_best _ _ _ _ _ T4). }
  assert (ViaRcm : forall b0, get_block (dur n) (hash_field b0) = Some b0 -> hash_field b0 <> hash_field (best n) ->
            forall L0, c KLatest = Some (VNo L0) -> c (KHeight L0) = Some (VHash (hash_field b0)) ->
            exists r, restart true c = Some (StartOk r) /\ Inv r /\ best r = top /\ (forall k, dur r k = dur nF k) /\
                      has_state_marker (dur r) (root (best r)) = true).
  { intros b0 Sb0 Hne L0 HL HH.
    unfold restart, get_latest. rewrite HL. unfold get_block_by_no, get_hash_by_no. rewrite HH, GBc, Sb0, RM.
    destruct (rcm_ok c b0 R1 Hne) as (n1 & E1 & B1 & O1 & A1 & _). rewrite E1.
    destruct (Tail n1 B1 O1 A1) as (r & T). exists r. destruct T as (T1 & T). rewrite T1. auto. }
  destruct R3 as [(HL & [HH|(nb & Hnb & Hno & HH)])|(HL & HH)].
  - (* the old tip is loaded: no RecoverChainMapping *)
    unfold restart, get_latest. rewrite HL. unfold get_block_by_no, get_hash_by_no. rewrite HH, GBc, Hobs, RM.
    unfold recover_chain_mapping. simpl best. simpl m_best. rewrite N.eqb_refl.
    destruct (Tail (mkNode c (best n) (root (best n)) [] [] 0 [] [] (root (best n))) eq_refl eq_refl R1) as (r & T1 & T).
    exists r. rewrite T1. auto.
  - apply (ViaRcm nb (Gstored nb Hnb)) with (L0 := no (best n)); auto.
    apply (reco_nonmain nb (best n) Hnb); [lia|]. rewrite Hno. exact Hob.
  - apply (ViaRcm top Htop) with (L0 := no top); auto.
    intro E. destruct (inv_stored_U apply spent U g n _ _ I Hobs) as (Uo & _).
    assert (top = best n) by (apply U_inj; auto). rewrite H in Hlt. lia.
Qed.


(** *** closure of [Rec] *)
Lemma rec_base : Rec (apply_unit (dur n2) (marker_write_unit m)).
Proof.
  destruct reco_facts as (Gst & Glt & Gne & Ghd & Glink & Gstored & Eolds & IF & BF & Ff & Hmk).
  pose proof (i_best _ _ _ _ _ I) as Hob.
  assert (Rd : forall k, apply_unit (dur n2) (marker_write_unit m) k = if dkey_eqb KMarker k then Some (VMarker m) else dur n2 k).
  { intros k. unfold apply_unit. rewrite apply_ops_lookup. cbn [marker_write_unit u_ops lookup_ops fst snd].
    destruct (dkey_eqb KMarker k); reflexivity. }
  split; [|split].
  - intros k Hk. rewrite Rd. destruct (dkey_eqb KMarker k) eqn:E; auto.
    apply dkey_eqb_spec in E. subst k. exfalso.
    apply (lookup_ops_in_some (all_ops SU) KMarker (Some (VMarker m))); auto.
    unfold SU, swap_units. rewrite all_ops_app. apply in_or_app. left. unfold all_ops. simpl. left. reflexivity.
  - rewrite Rd. reflexivity.
  - left. rewrite !Rd. simpl. rewrite !Ff by (intros; discriminate). split.
    + pose proof (i_latest _ _ _ _ _ I) as HL. unfold get_latest in HL. destruct (dur n KLatest) as [[]|]; try discriminate. inversion HL; subst. reflexivity.
    + left. apply (main_height n _ _ I Hob).
Qed.

Lemma rec_apply_rt c P : Rec c -> (forall o, In o P -> In o (all_ops SU) /\ rt_key (fst o)) -> Rec (apply_ops c P).
Proof.
  intros (R1 & R2 & R3) HP.
  assert (Hnone : forall k, ~ rt_key k -> lookup_ops P k = None).
  { intros k Hk. apply lookup_ops_none. intros o Ho E. destruct (HP o Ho) as (_ & H). rewrite E in H. contradiction. }
  split; [|split].
  - intros k Hk. rewrite apply_ops_lookup. destruct (lookup_ops P k) eqn:E; auto.
    exfalso. apply lookup_ops_some_in in E. destruct (HP _ E) as (H & _).
    apply (lookup_ops_in_some _ _ _ H). exact Hk.
  - rewrite apply_ops_lookup, Hnone by (simpl; auto). exact R2.
  - rewrite !apply_ops_lookup, !Hnone by (simpl; auto). exact R3.
Qed.

Lemma rec_apply_heights c j : Rec c -> Rec (apply_ops c (firstn j (u_ops (heights_unit (rev news) top)))).
Proof.
  intros (R1 & R2 & R3).
  destruct reco_facts as (Gst & Glt & Gne & Ghd & Glink & _).
  set (hops := map hop (rev news)).
  assert (EU : u_ops (heights_unit (rev news) top) = hops ++ [(KLatest, Some (VNo (no top)))]) by reflexivity.
  assert (Ftop : exists it, nth_error (rev news) it = Some top).
  { destruct news as [|c0 news']; [contradiction|]. simpl in Ghd. subst c0.
    exists (length (rev news')). simpl. rewrite nth_error_app2 by lia. rewrite Nat.sub_diag. reflexivity. }
  destruct Ftop as (it & Hit).
  set (P := firstn j (u_ops (heights_unit (rev news) top))).
  assert (HPin : forall o, In o P -> In o (hops ++ [(KLatest, Some (VNo (no top)))])).
  { intros o Ho. unfold P in Ho. rewrite EU in Ho. eapply firstn_In_l; eauto. }
  assert (HPsu : forall o, In o P -> In o (all_ops SU)).
  { intros o Ho. apply HPin in Ho. unfold SU, swap_units. rewrite all_ops_app. apply in_or_app. right.
    unfold all_ops. cbn [map concat u_ops heights_unit]. apply in_or_app. left. exact Ho. }
  assert (Hother : forall k, (forall h, k <> KHeight h) -> k <> KLatest -> lookup_ops P k = None).
  { intros k H1 H2. apply lookup_ops_none. intros o Ho E. apply HPin in Ho. apply in_app_or in Ho.
    destruct Ho as [Ho|[<-|[]]].
    - apply in_map_iff in Ho. destruct Ho as (x & <- & _). simpl in E. eapply H1; eauto.
    - simpl in E. auto. }
  assert (Hheight : forall h v, lookup_ops P (KHeight h) = Some v ->
             exists x, In x (rev news) /\ no x = h /\ v = Some (VHash (hash_field x))).
  { intros h v E. apply lookup_ops_some_in in E. apply HPin in E. apply in_app_or in E.
    destruct E as [E|[E|[]]]; [|discriminate].
    apply in_map_iff in E. destruct E as (x & Ex & Hx). unfold hop in Ex. inversion Ex; subst. eauto. }
  split; [|split].
  - intros k Hk. rewrite apply_ops_lookup. destruct (lookup_ops P k) eqn:E; auto.
    exfalso. apply lookup_ops_some_in in E. apply (lookup_ops_in_some _ _ _ (HPsu _ E)). exact Hk.
  - rewrite apply_ops_lookup, Hother by (intros; discriminate). exact R2.
  - (* the tip pointer *)
    destruct (lookup_ops P KLatest) as [vl|] eqn:EL.
    + (* the whole bulk has been applied *)
      right.
      assert (Hfull : P = hops ++ [(KLatest, Some (VNo (no top)))]).
      { unfold P. rewrite EU. apply lookup_ops_some_in in EL. unfold P in EL. rewrite EU in EL.
        destruct (Nat.le_gt_cases (length (hops ++ [(KLatest, Some (VNo (no top)))])) j) as [Hj|Hj].
        - apply firstn_all2. exact Hj.
        - exfalso. rewrite app_length in Hj. simpl in Hj.
          rewrite firstn_app in EL. replace (j - length hops)%nat with 0%nat in EL by lia. simpl in EL. rewrite app_nil_r in EL.
          apply firstn_In_l in EL. apply in_map_iff in EL. destruct EL as (x & Ex & _). discriminate. }
      rewrite !apply_ops_lookup. rewrite Hfull, !lookup_ops_app. cbn [lookup_ops fst snd dkey_eqb]. split; [reflexivity|].
      change hops with (map (fun b : block => (KHeight (no b), Some (VHash (hash_field b)))) (rev news)).
      rewrite (heights_lookup (rev news) st (no top) Glink), (find_linked _ _ _ _ Glink Hit). reflexivity.
    + destruct R3 as [(HL & HH)|(HL & HH)].
      * left. rewrite !apply_ops_lookup, EL. split; [exact HL|].
        destruct (lookup_ops P (KHeight (no (best n)))) as [v|] eqn:EH; [|exact HH].
        destruct (Hheight _ _ EH) as (x & Hx & Hno & ->). right. exists x. split; [apply in_rev; exact Hx|]. auto.
      * right. rewrite !apply_ops_lookup, EL. split; [exact HL|].
        destruct (lookup_ops P (KHeight (no top))) as [v|] eqn:EH; [|exact HH].
        destruct (Hheight _ _ EH) as (x & Hx & Hno & ->).
        destruct (In_nth_error _ _ Hx) as (ix & Hix).
        assert (ix = it) by (eapply linked_no_inj; eauto). subst ix. rewrite Hit in Hix. inversion Hix; subst. reflexivity.
Qed.


Lemma rec_apply_mw c : Rec c -> Rec (apply_unit c (marker_write_unit m)).
Proof.
  intros (R1 & R2 & R3).
  assert (Rd : forall k, apply_unit c (marker_write_unit m) k = if dkey_eqb KMarker k then Some (VMarker m) else c k).
  { intros k. unfold apply_unit. rewrite apply_ops_lookup. cbn [marker_write_unit u_ops lookup_ops fst snd].
    destruct (dkey_eqb KMarker k); reflexivity. }
  split; [|split].
  - intros k Hk. rewrite Rd. destruct (dkey_eqb KMarker k) eqn:E; auto.
    apply dkey_eqb_spec in E. subst k. exfalso.
    apply (lookup_ops_in_some (all_ops SU) KMarker (Some (VMarker m))); auto.
    unfold SU, swap_units. rewrite all_ops_app. apply in_or_app. left. unfold all_ops. simpl. left. reflexivity.
  - rewrite Rd. reflexivity.
  - rewrite !Rd. simpl. exact R3.
Qed.

Lemma su_length : length SU = Datatypes.S (Datatypes.S (Datatypes.S (length (swap_mid news olds)))).
Proof. unfold SU, swap_units. rewrite app_length. simpl. lia. Qed.

(** [Rec] is closed under every proper prefix of the swap units *)
Lemma rec_prefix_su c k : Rec c -> (k < length SU)%nat -> Rec (replay c (firstn k SU)).
Proof.
  intros R Hk. rewrite su_length in Hk.
  destruct k as [|k']; [exact R|].
  set (mid := swap_mid news olds) in *.
  destruct (Nat.le_gt_cases k' (length mid)) as [H1|H1].
  - rewrite (firstn_swap_units k' H1). fold mid.
    change (marker_write_unit m :: firstn k' mid) with ([marker_write_unit m] ++ firstn k' mid).
    rewrite replay_app. simpl replay at 2. rewrite replay_all_ops.
    apply rec_apply_rt; [apply rec_apply_mw; exact R|].
    intros o Ho. apply prefix_ops_in in Ho. split.
    + unfold SU, swap_units. rewrite all_ops_app. apply in_or_app. left.
      change (marker_write_unit m :: swap_mid news olds) with ([marker_write_unit m] ++ swap_mid news olds).
      rewrite all_ops_app. apply in_or_app. right. exact Ho.
    + apply (swap_mid_keys _ _ _ Ho).
  - assert (k' = Datatypes.S (length mid)) by lia. subst k'.
    assert (EP : firstn (Datatypes.S (Datatypes.S (length mid))) SU =
                 (marker_write_unit m :: mid) ++ [heights_unit (rev news) top]).
    { unfold SU, swap_units. fold mid. rewrite firstn_app.
      assert (E : (Datatypes.S (Datatypes.S (length mid)) - length (marker_write_unit m :: mid) = 1)%nat) by (cbn [length]; lia).
      rewrite E. rewrite firstn_all2 by (cbn [length]; lia). reflexivity. }
    rewrite EP, replay_app. cbn [replay fold_left].
    assert (R' : Rec (replay c (marker_write_unit m :: mid))).
    { change (marker_write_unit m :: mid) with ([marker_write_unit m] ++ mid).
      rewrite replay_app. simpl replay at 2. rewrite replay_all_ops.
      apply rec_apply_rt; [apply rec_apply_mw; exact R|].
      intros o Ho. split.
      - unfold SU, swap_units. rewrite all_ops_app. apply in_or_app. left.
        change (marker_write_unit m :: swap_mid news olds) with ([marker_write_unit m] ++ swap_mid news olds).
        rewrite all_ops_app. apply in_or_app. right. exact Ho.
      - apply (swap_mid_keys _ _ _ Ho). }
    unfold apply_unit.
    rewrite <- (firstn_all (u_ops (heights_unit (rev news) top))).
    apply rec_apply_heights. exact R'.
Qed.

(** restart on a store that is pointwise the crash-free final store *)
Lemma restart_final c : (forall k, c k = dur nF k) ->
  exists r, restart true c = Some (StartOk r) /\ Inv r /\ best r = top /\ (forall k, dur r k = dur nF k) /\
            has_state_marker (dur r) (root (best r)) = true.
Proof.
  intros Hc. destruct reco_facts as (_ & _ & _ & _ & _ & _ & _ & IF & BF & _).
  assert (F : frame_of U nF c).
  { split; [intros; apply Hc|]. split.
    - intros id x Hx. rewrite <- Hx. apply get_block_ext. apply Hc.
    - split; [intros id x; rewrite Hc; apply (i_univ _ _ _ _ _ IF)|]. split.
      + intros r0. unfold has_state_marker. rewrite Hc. auto.
      + intros i0 j0. unfold has_receipts. rewrite Hc. auto. }
  destruct (restart_frame apply spent U g true nF c IF F) as (r & R1 & R2 & R3 & R4 & R5).
  exists r. split; [exact R1|]. split; [exact R2|]. split; [congruence|]. split; [|exact R5].
  intros k. rewrite R4. apply Hc.
Qed.

Theorem restart_rec_units c : Rec c ->
  exists r U0, restart true c = Some (StartOk r) /\ Inv r /\ best r = top /\ (forall k, dur r k = dur nF k) /\
    jlog r = rev SU ++ rev U0 /\
    (U0 = [] \/ exists u, U0 = [u] /\ u_kind u = UBulk /\ Rec (apply_unit c u)).
Proof.
  intros (R1 & R2 & R3).
  destruct reco_facts as (Gst & Glt & Gne & Ghd & Glink & Gstored & Eolds & IF & BF & Ff & Hmk).
  assert (KB : forall id, c (KBlock id) = dur n (KBlock id)).
  { intros id. rewrite R1 by (apply swap_units_lookup_none; simpl; auto). apply Ff; intros; discriminate. }
  assert (GBc : forall id, get_block c id = get_block (dur n) id) by (intros; apply get_block_ext; auto).
  pose proof (i_best _ _ _ _ _ I) as Hob. pose proof (inv_main_stored apply spent U g n _ _ I Hob) as Hobs.
  assert (RM : get_marker c = Some m) by (unfold get_marker; rewrite R2; reflexivity).
  assert (ViaRcm : forall b0, get_block (dur n) (hash_field b0) = Some b0 -> hash_field b0 <> hash_field (best n) ->
            forall L0, c KLatest = Some (VNo L0) -> c (KHeight L0) = Some (VHash (hash_field b0)) ->
            exists r U0, restart true c = Some (StartOk r) /\ Inv r /\ best r = top /\ (forall k, dur r k = dur nF k) /\
              jlog r = rev SU ++ rev U0 /\
              (U0 = [] \/ exists u, U0 = [u] /\ u_kind u = UBulk /\ Rec (apply_unit c u))).
  { intros b0 Sb0 Hne L0 HL HH.
    unfold restart, get_latest. rewrite HL. unfold get_block_by_no, get_hash_by_no. rewrite HH, GBc, Sb0, RM.
    destruct (rcm_ok c b0 R1 Hne) as (n1 & E1 & B1 & O1 & A1 & M1 & L1 & H1 & u & J1 & D1 & K1). rewrite E1.
    destruct (recover_tail_gen n1 B1 O1 A1) as (r & T1 & T2 & T3 & T4 & T5).
    exists r, [u]. rewrite T1. split; [reflexivity|]. split; [exact T4|]. split; [exact T3|]. split; [exact T2|].
    split; [rewrite T5, J1; reflexivity|]. right. exists u. split; [reflexivity|]. split; [exact K1|].
    rewrite <- D1. split; [exact A1|]. split; [rewrite M1; exact R2|]. left. split; [exact L1|]. left. exact H1. }
  destruct R3 as [(HL & [HH|(nb & Hnb & Hno & HH)])|(HL & HH)].
  - unfold restart, get_latest. rewrite HL. unfold get_block_by_no, get_hash_by_no. rewrite HH, GBc, Hobs, RM.
    unfold recover_chain_mapping. simpl best. simpl m_best. rewrite N.eqb_refl.
    destruct (recover_tail_gen (mkNode c (best n) (root (best n)) [] [] 0 [] [] (root (best n))) eq_refl eq_refl R1) as (r & T1 & T2 & T3 & T4 & T5).
    exists r, []. rewrite T1. split; [reflexivity|]. split; [exact T4|]. split; [exact T3|]. split; [exact T2|].
    split; [rewrite T5; reflexivity|]. left. reflexivity.
  - apply (ViaRcm nb (Gstored nb Hnb)) with (L0 := no (best n)); auto.
    apply (reco_nonmain nb (best n) Hnb); [lia|]. rewrite Hno. exact Hob.
  - apply (ViaRcm top Htop) with (L0 := no top); auto.
    intro E. destruct (inv_stored_U apply spent U g n _ _ I Hobs) as (Uo & _).
    assert (top = best n) by (apply U_inj; auto). rewrite H in Hlt. lia.
Qed.

Definition restart_units (c : store) : list wunit :=
  match restart true c with Some (StartOk r) => rev (jlog r) | _ => [] end.

(** Crash DURING the recovery (bulks and transactions atomic): after any prefix of the write units
    that the recovery itself issues (the RecoverChainMapping bulk, then the redone swap units), a
    further restart again ends in the crash-free final store: recovery is idempotent. *)
Theorem crash_during_recovery c k : Rec c ->
  exists r', restart true (replay c (firstn k (restart_units c))) = Some (StartOk r') /\ Inv r' /\ best r' = top /\
             (forall key, dur r' key = dur nF key).
Proof.
  intros R. destruct (restart_rec_units c R) as (r & U0 & E & _ & _ & _ & J & HU).
  unfold restart_units. rewrite E, J, rev_app_distr, !rev_involutive.
  assert (Main : forall c0 k0, Rec c0 ->
            exists r', restart true (replay c0 (firstn k0 SU)) = Some (StartOk r') /\ Inv r' /\ best r' = top /\
                       (forall key, dur r' key = dur nF key)).
  { intros c0 k0 R0. destruct (Nat.le_gt_cases (length SU) k0) as [Hge|Hlt0].
    - rewrite firstn_all2 by exact Hge.
      destruct (restart_final (replay c0 SU)) as (r' & A & B & C & D & _).
      + intros key. unfold nF. rewrite swap_chain_dur. apply replay_agree. destruct R0 as (R01 & _). exact R01.
      + exists r'. auto.
    - destruct (restart_rec _ (rec_prefix_su c0 k0 R0 Hlt0)) as (r' & A & B & C & D & _). exists r'. auto. }
  destruct HU as [->|(u & -> & _ & Ru)].
  - simpl app. apply Main. exact R.
  - destruct k as [|k'].
    + simpl. destruct (restart_rec c R) as (r' & A & B & C & D & _). exists r'. auto.
    + simpl firstn. simpl replay. apply Main. exact Ru.
Qed.


Lemma rec_ext c c' : (forall k, c k = c' k) -> Rec c -> Rec c'.
Proof.
  intros H (R1 & R2 & R3). split; [|split].
  - intros k Hk. rewrite <- H. apply R1. exact Hk.
  - rewrite <- H. exact R2.
  - rewrite <- !H. exact R3.
Qed.

(** every first crash point after the marker write and before the marker delete is in [Rec] *)
Lemma rec_first_crash j : (1 <= j)%nat -> (j < length SU)%nat -> Rec (crash j (dur n2) SU).
Proof.
  intros H1 H2. unfold crash.
  apply (rec_ext (replay (apply_unit (dur n2) (marker_write_unit m)) (firstn j SU))).
  - intros k. destruct j as [|j']; [lia|].
    unfold SU, swap_units. simpl firstn. simpl replay.
    apply replay_ext. intros k0. unfold apply_unit. rewrite !apply_ops_lookup.
    cbn [marker_write_unit u_ops lookup_ops fst snd]. destruct (dkey_eqb KMarker k0); reflexivity.
  - apply rec_prefix_su; [apply rec_base|exact H2].
Qed.

(** Two crashes: one during the swap (after the marker), one during the recovery from it. *)
Theorem crash_twice j k : (1 <= j)%nat -> (j < length SU)%nat ->
  exists r', restart true (replay (crash j (dur n2) SU) (firstn k (restart_units (crash j (dur n2) SU)))) = Some (StartOk r') /\
             Inv r' /\ best r' = top /\ (forall key, dur r' key = dur nF key).
Proof. intros H1 H2. apply crash_during_recovery. apply rec_first_crash; auto. Qed.

(** partial flush: a crash after ANY prefix of the individual operations of deleteOldReceipts /
    swapTxMapping (in particular inside the bulk that deletes the abandoned tx index entries) ... *)
Theorem crash_partial_flush_mid j :
  exists r, restart true (apply_ops (apply_unit (dur n2) (marker_write_unit m)) (firstn j (all_ops (swap_mid news olds)))) = Some (StartOk r) /\
            Inv r /\ best r = top /\ (forall k, dur r k = dur nF k).
Proof.
  destruct (restart_rec (apply_ops (apply_unit (dur n2) (marker_write_unit m)) (firstn j (all_ops (swap_mid news olds)))))
    as (r & A & B & C & D & _).
  - apply rec_apply_rt; [apply rec_base|]. intros o Ho. apply firstn_In_l in Ho. split.
    + unfold SU, swap_units. rewrite all_ops_app. apply in_or_app. left.
      change (marker_write_unit m :: swap_mid news olds) with ([marker_write_unit m] ++ swap_mid news olds).
      rewrite all_ops_app. apply in_or_app. right. exact Ho.
    + apply (swap_mid_keys _ _ _ Ho).
  - exists r. auto.
Qed.

(** ... and after any prefix of the operations INSIDE the bulk of swapChainMapping (some heights
    already point at the new branch, Latest possibly not yet): recoverable because the marker
    outlives the bulk. *)
Theorem crash_partial_flush_heights j :
  exists r, restart true (apply_ops (replay (dur n2) (marker_write_unit m :: swap_mid news olds))
                            (firstn j (u_ops (heights_unit (rev news) top)))) = Some (StartOk r) /\
            Inv r /\ best r = top /\ (forall k, dur r k = dur nF k).
Proof.
  destruct (restart_rec (apply_ops (replay (dur n2) (marker_write_unit m :: swap_mid news olds))
                            (firstn j (u_ops (heights_unit (rev news) top))))) as (r & A & B & C & D & _).
  - apply rec_apply_heights.
    change (marker_write_unit m :: swap_mid news olds) with ([marker_write_unit m] ++ swap_mid news olds).
    rewrite replay_app. simpl replay at 2. rewrite replay_all_ops.
    apply rec_apply_rt; [apply rec_base|]. intros o Ho. split.
    + unfold SU, swap_units. rewrite all_ops_app. apply in_or_app. left.
      change (marker_write_unit m :: swap_mid news olds) with ([marker_write_unit m] ++ swap_mid news olds).
      rewrite all_ops_app. apply in_or_app. right. exact Ho.
    + apply (swap_mid_keys _ _ _ Ho).
  - exists r. auto.
Qed.

(** crash after the height-index bulk of swapChainMapping and before the marker is deleted:
    RecoverChainMapping restores the height index of the old branch, then the swap is redone. *)
Theorem crash_swap_heights_inv :
  exists r, restart true (crash (Datatypes.S (Datatypes.S (length (swap_mid news olds)))) (dur n2) SU) = Some (StartOk r) /\
            Inv r /\ best r = top /\ (forall k, dur r k = dur nF k) /\
            has_state_marker (dur r) (root (best r)) = true.
Proof.
  destruct reco_facts as (Gst & Glt & Gne & Ghd & Glink & Gstored & Eolds & IF & BF & Ff & Hmk).
  set (mid := swap_mid news olds).
  assert (EP : firstn (Datatypes.S (Datatypes.S (length mid))) SU =
               (marker_write_unit m :: mid) ++ [heights_unit (rev news) top]).
  { unfold SU, swap_units. fold mid. rewrite firstn_app.
    assert (E : (Datatypes.S (Datatypes.S (length mid)) - length (marker_write_unit m :: mid) = 1)%nat) by (cbn [length]; lia).
    rewrite E. rewrite firstn_all2 by (cbn [length]; lia). reflexivity. }
  unfold crash. fold mid. rewrite EP, replay_app.
  set (c2 := replay (dur n2) (marker_write_unit m :: mid)).
  cbn [replay fold_left]. fold (replay c2 []). 
  set (c3 := apply_unit c2 (heights_unit (rev news) top)).
  assert (Rc2 : forall k, ~ rt_key k -> c2 k = if dkey_eqb KMarker k then Some (VMarker m) else dur n2 k).
  { intros k Hk. unfold c2. rewrite <- (firstn_all mid). apply mid_prefix_reads. exact Hk. }
  assert (Rc3 : forall k, c3 k = match k with
      | KLatest => Some (VNo (no top))
      | KHeight h => match find (fun c => no c =? h) (rev news) with Some c => Some (VHash (hash_field c)) | None => c2 k end
      | _ => c2 k end).
  { intros k. unfold c3. apply (heights_unit_reads c2 (rev news) top st k Glink). }
  assert (KB2 : forall id, c2 (KBlock id) = dur n (KBlock id)).
  { intros id. rewrite Rc2 by (simpl; auto). simpl. apply Ff; intros; discriminate. }
  assert (KH2 : forall h, c2 (KHeight h) = dur n (KHeight h)).
  { intros h. rewrite Rc2 by (simpl; auto). simpl. apply Ff; intros; discriminate. }
  assert (KB3 : forall id, c3 (KBlock id) = dur n (KBlock id)) by (intros; rewrite Rc3; apply KB2).
  (* top is the last new block *)
  assert (Ftop : exists it, nth_error (rev news) it = Some top).
  { destruct news as [|c news']; [contradiction|]. simpl in Ghd. subst c.
    exists (length (rev news')). simpl. rewrite nth_error_app2 by lia. rewrite Nat.sub_diag. reflexivity. }
  destruct Ftop as (it & Hit).
  pose proof (i_best _ _ _ _ _ I) as Hob. pose proof (inv_main_stored apply spent U g n _ _ I Hob) as Hobs.
  assert (RL : get_latest c3 = Some (no top)) by (unfold get_latest; rewrite Rc3; reflexivity).
  assert (RB : get_block_by_no c3 (no top) = Some top).
  { unfold get_block_by_no, get_hash_by_no. rewrite Rc3, (find_linked _ _ _ _ Glink Hit).
    rewrite (get_block_ext (dur n) c3) by apply KB3. exact Htop. }
  assert (RM : get_marker c3 = Some m).
  { unfold get_marker. rewrite Rc3, Rc2 by (simpl; auto). reflexivity. }
  unfold restart. rewrite RL, RB, RM. unfold recover_chain_mapping. simpl best. simpl dur.
  assert (Eh : hash_field top =? m_best m = false).
  { apply N.eqb_neq. simpl. intro E. destruct (inv_stored_U apply spent U g n _ _ I Hobs) as (Uo & _).
    assert (top = best n) by (apply U_inj; auto). rewrite H in Hlt. lia. }
  rewrite Eh. simpl m_best. rewrite (get_block_ext (dur n) c3) by apply KB3. rewrite Hobs.
  simpl m_start_no. rewrite (old_heights_ext _ (dur n) c3) by apply KB3.
  set (cnt := N.to_nat (no (best n) - no st)).
  assert (Ec : no (best n) = no st + N.of_nat cnt) by (unfold cnt; lia).
  assert (OH : old_heights (Datatypes.S (N.to_nat (no (best n)))) (dur n) (no st) (best n) = Some (map hop olds)).
  { rewrite Eolds. fold cnt. rewrite Ec at 1. apply (old_heights_main n (no st) I cnt); [lia|]. rewrite <- Ec. exact Hob. }
  rewrite OH. simpl m_top_no. simpl m_best_no.
  set (u := mkUnit SChain UBulk (del_heights (N.to_nat (no top - no (best n))) (no top) ++ map hop olds ++ [(KLatest, Some (VNo (no (best n))))])).
  set (n0 := mkNode c3 top (root top) [] [] 0 [] [] (root top)).
  (* the store after RecoverChainMapping is the store before the height bulk *)
  assert (Dn1 : forall k, dur (set_best (emit n0 u) (best n)) k = c2 k).
  { intros k. simpl. unfold apply_unit. rewrite apply_ops_lookup. unfold u. cbn [u_ops].
    rewrite !lookup_ops_app. cbn [lookup_ops fst snd].
    destruct k as [|h|id|t|i0 j0| |r0]; cbn [dkey_eqb].
    - rewrite Rc2 by (simpl; auto). simpl. rewrite Ff by (intros; discriminate).
      pose proof (i_latest _ _ _ _ _ I) as HL. unfold get_latest in HL.
      destruct (dur n KLatest) as [[]|]; try discriminate. inversion HL; subst. reflexivity.
    - rewrite Eolds. fold cnt. rewrite (hop_mdesc_lookup n I cnt (no st + 1) h) by lia.
      destruct ((no st + 1 <=? h) && (h <? no st + 1 + N.of_nat cnt)) eqn:E1.
      + rewrite KH2. reflexivity.
      + rewrite del_heights_lookup by lia.
        destruct ((no top - N.of_nat (N.to_nat (no top - no (best n))) <? h) && (h <=? no top)) eqn:E2.
        * apply andb_true_iff in E2. destruct E2 as (E2a & E2b). apply N.ltb_lt in E2a. apply N.leb_le in E2b.
          rewrite KH2. symmetry. apply (i_above _ _ _ _ _ I). lia.
        * rewrite Rc3. rewrite Fnone_find; auto.
          intros c Hc. pose proof (linked_no_gt _ _ _ Glink Hc) as G1.
          destruct (In_nth_error _ _ Hc) as (ic & Hic).
          pose proof (linked_nth _ _ _ _ Glink Hic) as G2. pose proof (linked_nth _ _ _ _ Glink Hit) as G3.
          assert (ic <= it)%nat.
          { assert (ic < length (rev news))%nat by (apply nth_error_Some; congruence).
            destruct news as [|c0 news']; [contradiction|]. simpl in Ghd. subst c0.
            simpl in H, Hit. rewrite app_length in H. simpl in H.
            assert (it = length (rev news')).
            { assert (it < length (rev news' ++ [top]))%nat by (apply nth_error_Some; congruence).
              rewrite app_length in H0. simpl in H0.
              destruct (Nat.eq_dec it (length (rev news'))); auto.
              rewrite nth_error_app1 in Hit by lia.
              exfalso. apply nth_error_In in Hit.
              assert (In top (rev news' ++ [top])) by (apply in_or_app; right; left; reflexivity).
              pose proof (linked_no_inj st (rev news' ++ [top]) it (length (rev news')) top top Glink) as HI.
              rewrite nth_error_app1 in HI by lia. 
              assert (nth_error (rev news') it = Some top).
              { destruct (In_nth_error _ _ Hit) as (q & Hq). clear HI. 
                pose proof (linked_no_inj st (rev news' ++ [top]) q (length (rev news')) top top Glink) as HI2.
                assert (q < length (rev news'))%nat by (apply nth_error_Some; congruence).
                rewrite nth_error_app1 in HI2 by lia. rewrite nth_error_app2 in HI2 by lia.
                rewrite Nat.sub_diag in HI2. specialize (HI2 Hq eq_refl eq_refl). lia. }
              rewrite nth_error_app2 in HI by lia. rewrite Nat.sub_diag in HI. specialize (HI H2 eq_refl eq_refl). lia. }
            lia. }
          apply andb_false_iff in E1. apply andb_false_iff in E2. intro Eq.
          destruct E1 as [E1|E1]; [apply N.leb_gt in E1|apply N.ltb_ge in E1];
            destruct E2 as [E2|E2]; [apply N.ltb_ge in E2|apply N.leb_gt in E2|apply N.ltb_ge in E2|apply N.leb_gt in E2]; lia.
    - rewrite hop_lookup_other, del_heights_other by (intros; discriminate). rewrite Rc3. reflexivity.
    - rewrite hop_lookup_other, del_heights_other by (intros; discriminate). rewrite Rc3. reflexivity.
    - rewrite hop_lookup_other, del_heights_other by (intros; discriminate). rewrite Rc3. reflexivity.
    - rewrite hop_lookup_other, del_heights_other by (intros; discriminate). rewrite Rc3. reflexivity.
    - rewrite hop_lookup_other, del_heights_other by (intros; discriminate). rewrite Rc3. reflexivity. }
  destruct (recover_tail_ok (set_best (emit n0 u) (best n)) (firstn (Datatypes.S (length mid)) SU) (Datatypes.S (length mid))
              eq_refl eq_refl eq_refl) as (r & R1 & R2 & R3 & R4).
  - intros k. rewrite Dn1. unfold c2. rewrite (firstn_swap_units (length mid)) by (fold mid; lia).
    fold mid. rewrite firstn_all. reflexivity.
  - intros k Hk1 Hk2. rewrite Dn1, Rc2 by exact Hk1. rewrite dkey_eqb_neq by (intro E; apply Hk2; auto). reflexivity.
  - exists r. rewrite R1. split; [reflexivity|]. split; [exact R4|]. split; [exact R3|]. split; [exact R2|].
    eapply (i_state _ _ _ _ _ R4 (no (best r))); eauto. lia. apply (i_best _ _ _ _ _ R4).
Qed.

Lemma rf_units_benign L : Forall (benign_unit U) (rf_units L).
Proof.
  unfold rf_units. induction L as [|b L IH]; simpl; [constructor|].
  constructor; [left; eauto|]. apply Forall_app. split; auto.
  unfold ne. destruct (u_ops (receipts_unit b)); constructor; [right; left; eauto|constructor].
Qed.

(** crash_reorg_inv / crash_best_legit / state_available for EVERY prefix of the write units of a
    reorganisation of any depth (state commits and receipts of the rolled-forward blocks, marker
    write, deleteOldReceipts, swapTxMapping, swapChainMapping bulk, marker delete): the restarted
    node satisfies the invariant on the old tip (crash before the marker) or on the new tip (crash
    after it, where it holds exactly the crash-free final store), and the state of its best block
    is available. *)
Theorem crash_reorg_inv k :
  exists r, restart true (crash k (dur n) (rf_units (rev news) ++ SU)) = Some (StartOk r) /\ Inv r /\
            ((best r = best n /\ (k <= length (rf_units (rev news)))%nat) \/
             (best r = top /\ (length (rf_units (rev news)) < k)%nat /\ forall key, dur r key = dur nF key)) /\
            has_state_marker (dur r) (root (best r)) = true.
Proof.
  pose proof (rollforward_units apply _ _ _ RF) as D2. simpl in D2.
  set (RFU := rf_units (rev news)) in *.
  destruct (Nat.le_gt_cases k (length RFU)) as [Hle|Hgt].
  - unfold crash. rewrite firstn_app. replace (k - length RFU)%nat with 0%nat by lia. simpl firstn at 2. rewrite app_nil_r.
    destruct (crash_benign_prefix_inv apply spent U U_inj g true n RFU k I (rf_units_benign _)) as (r & R1 & R2 & R3 & R4).
    exists r. unfold crash in R1. split; [exact R1|]. split; [exact R2|]. split; [left; split; [exact R3|exact Hle]|exact R4].
  - unfold crash. rewrite firstn_app, firstn_all2 by lia. rewrite replay_app, <- D2.
    set (j := (k - length RFU)%nat). assert (Hj : (0 < j)%nat) by (unfold j; lia).
    assert (Hlen : length SU = Datatypes.S (Datatypes.S (Datatypes.S (length (swap_mid news olds))))).
    { unfold SU, swap_units. rewrite app_length. simpl. lia. }
    destruct j as [|j'] eqn:Ej; [lia|].
    destruct (Nat.le_gt_cases j' (length (swap_mid news olds))) as [H1|H1].
    + destruct (crash_swap_mid_inv j' H1) as (r & R1 & R2 & R3 & R4 & R5).
      exists r. unfold crash in R1. split; [exact R1|]. split; [exact R2|]. split; [right; split; [exact R3|split; [lia|exact R4]]|exact R5].
    + destruct (Nat.eq_dec j' (Datatypes.S (length (swap_mid news olds)))) as [->|Hne].
      * destruct crash_swap_heights_inv as (r & R1 & R2 & R3 & R4 & R5).
        exists r. unfold crash in R1. split; [exact R1|]. split; [exact R2|]. split; [right; split; [exact R3|split; [lia|exact R4]]|exact R5].
      * destruct (crash_swap_done_inv (Datatypes.S j') ltac:(lia)) as (r & R1 & R2 & R3 & R4 & R5).
        exists r. unfold crash in R1. split; [exact R1|]. split; [exact R2|]. split; [right; split; [exact R3|split; [lia|exact R4]]|exact R5].
Qed.

End Reco.

(** ** crash_replay_converges *)
Section Converge.
Variable apply : sroot -> block -> option sroot.
Variable spent : sroot -> txid -> bool.
Hypothesis apply_fresh : forall r b r', apply r b = Some r' ->
  NoDup (txs b) /\ forall t, In t (txs b) -> spent r t = false.
Hypothesis apply_spent : forall r b r' t, apply r b = Some r' ->
  spent r' t = spent r t || mem t (txs b).
Variable U : block -> Prop.
Hypothesis U_inj : forall a b, U a -> U b -> hash_field a = hash_field b -> a = b.
Variable g : block.
Notation Inv := (Inv apply spent U g).

(** Main-chain connection: after a crash at ANY write-unit boundary, feeding the block again
    reaches exactly the crash-free durable state (or the restart already holds it). *)
Theorem crash_replay_converges_connect f7 n b n' k :
  Inv n -> U b -> prev b = hash_field (best n) -> no b = no (best n) + 1 ->
  connect_main apply n b = Some n' ->
  exists r, restart f7 (crash k (dur n) (connect_units b)) = Some (StartOk r) /\
    ((best r = b /\ forall key, dur r key = dur n' key) \/
     (best r = best n /\ exists r', connect_main apply r b = Some r' /\ best r' = b /\
                                     forall key, dur r' key = dur n' key)).
Proof.
  intros I Ub Hp Hn Hc.
  destruct (connect_main_inv apply spent apply_fresh apply_spent U U_inj g _ _ _ I Ub Hp Hn Hc) as (I' & Hb' & _).
  destruct (connect_main_units apply _ _ _ Hc) as (_ & Hd).
  set (A := [state_unit (root b)] ++ match txs b with [] => [] | _ => [receipts_unit b] end).
  assert (EU : connect_units b = A ++ [connect_unit b]) by (unfold connect_units, A; rewrite app_assoc; reflexivity).
  assert (BA : Forall (benign_unit U) A).
  { unfold A. constructor; [left; eauto|]. destruct (txs b); constructor; [right; left; eauto|constructor]. }
  destruct (Nat.le_gt_cases k (length A)) as [Hle|Hgt].
  - unfold crash. rewrite EU, firstn_app. replace (k - length A)%nat with 0%nat by lia. simpl firstn at 2. rewrite app_nil_r.
    assert (BP : Forall (benign_unit U) (firstn k A)).
    { apply Forall_forall. intros u Hu. eapply Forall_forall in BA; eauto. eapply firstn_In_l; eauto. }
    destruct (restart_frame apply spent U g f7 n _ I (frame_of_replay apply spent U U_inj g n _ I BP _ (frame_of_refl apply spent U g n I)))
      as (r & R1 & R2 & R3 & R4 & _).
    exists r. split; [exact R1|]. right. split; [exact R3|].
    assert (Es : sdb_root r = sdb_root n) by (rewrite (i_sdb _ _ _ _ _ R2), R3; symmetry; apply (i_sdb _ _ _ _ _ I)).
    assert (Ep : pmem r =? sdb_root n = true) by (rewrite (i_params _ _ _ _ _ R2), Es; apply N.eqb_refl).
    unfold connect_main, execute_block in Hc |- *. rewrite Es, Ep.
    destruct (pmem n =? sdb_root n); [|discriminate]. destruct (exec_ok apply (sdb_root n) b); [|discriminate].
    cbn [andb].
    eexists. split; [reflexivity|]. split; [reflexivity|].
    intros key. inversion Hc; subst n'; clear Hc. simpl dur. rewrite !emit_ne_replay. simpl dur. rewrite R4.
    change (apply_unit (replay (apply_unit ?d (state_unit (root b))) (ne (receipts_unit b))) (connect_unit b))
      with (replay (replay (replay d [state_unit (root b)]) (ne (receipts_unit b))) [connect_unit b]).
    rewrite <- !replay_app.
    assert (EA : [state_unit (root b)] ++ ne (receipts_unit b) = A).
    { unfold A, ne, receipts_unit. destruct (txs b); reflexivity. }
    assert (EX : [state_unit (root b)] ++ ne (receipts_unit b) ++ [connect_unit b] = A ++ [connect_unit b]).
    { rewrite app_assoc, EA. reflexivity. }
    rewrite EX, replay_app.
    assert (EF : firstn k A = firstn k (A ++ [connect_unit b])).
    { rewrite firstn_app. replace (k - length A)%nat with 0%nat by lia. simpl. rewrite app_nil_r. reflexivity. }
    rewrite EF. apply replay_prefix_idem.
  - unfold crash. rewrite firstn_all2 by (rewrite EU, app_length; change (length [connect_unit b]) with 1%nat; lia). rewrite <- Hd.
    destruct (restart_inv apply spent U g f7 n' I') as (r & R1 & R2 & R3 & R4 & _).
    exists r. split; [exact R1|]. left. split; [congruence|]. intros; rewrite R4; reflexivity.
Qed.

End Converge.

(** the store after a successful reorg is the replay of exactly these units *)
Lemma reorg_units_exact apply n top st news olds n2 :
  gather (S (N.to_nat (no top))) (dur n) (no (best n)) top [] [] = Some (st, news, olds) ->
  (no st <? lib n) = false ->
  rollforward apply (set_state n (root st)) (rev news) = (n2, true) ->
  let m := mkMarker (hash_field st) (no st) (hash_field (best n)) (no (best n)) (hash_field top) (no top) in
  reorg apply true n top = (swap_chain n2 m top news olds false, false) /\
  dur (swap_chain n2 m top news olds false) = replay (dur n) (rf_units (rev news) ++ swap_units m top news olds).
Proof.
  intros G El RF m. split.
  - unfold reorg. rewrite G, El, RF. reflexivity.
  - rewrite swap_chain_dur, (rollforward_units apply _ _ _ RF), replay_app. reflexivity.
Qed.

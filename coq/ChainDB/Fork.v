(** C07 fork choice over the ChainDB model: gather is complete for an available branch, a
    reorganisation to a longer, fully stored, valid branch forking at or above the LIB succeeds
    and installs it (best_is_longest_available, step form). *)
From Coq Require Import NArith List Bool Lia PeanoNat.
From Verif Require Import ChainDB.Model ChainDB.Basics ChainDB.Inv ChainDB.Reorg ChainDB.AddBlock.
Import ListNotations.
Open Scope N_scope.

(** descending parent-linked path: [cur], then its ancestors, parent first *)
Fixpoint dlinked (cur : block) (below : list block) : Prop :=
  match below with
  | [] => True
  | y :: r => prev cur = hash_field y /\ no cur = no y + 1 /\ dlinked y r
  end.

Lemma dlinked_snoc c M b f : dlinked c (M ++ [b]) -> prev b = hash_field f -> no b = no f + 1 ->
  dlinked c (M ++ [b] ++ [f]).
Proof.
  revert c. induction M as [|y M IH]; intros c H H1 H2; simpl in *.
  - destruct H as (A & B & _). auto.
  - destruct H as (A & B & C). auto.
Qed.

Lemma linked_dlinked L : forall f top L', linked f L -> L = L' ++ [top] -> dlinked top (rev L' ++ [f]).
Proof.
  induction L as [|b L2 IH]; intros f top L' Hl E.
  - destruct L'; discriminate.
  - destruct Hl as (H1 & H2 & H3). destruct L' as [|b' L2'].
    + simpl in E. inversion E; subst; simpl; auto.
    + simpl in E. inversion E; subst b'. subst L2. simpl.
      rewrite <- app_assoc. apply dlinked_snoc; auto; try (eapply IH; eauto).
Qed.

Lemma last_default {A} (l : list A) a b : l <> [] -> last l a = last l b.
Proof.
  induction l as [|x l IH]; intros H; [contradiction|]. simpl. destruct l; auto. apply IH. discriminate.
Qed.

Lemma gather_unfold f d bestno cur news olds :
  gather (S f) d bestno cur news olds =
  (if no cur <=? bestno then
     match get_block_by_no d (no cur) with
     | None => None
     | Some m =>
         if hash_field cur =? hash_field m then
           if bestno =? no cur then None
           else match news, olds with
                | [], _ | _, [] => None
                | _, _ => Some (cur, news, olds)
                end
         else (if no cur =? 0 then None
               else match get_block d (prev cur) with
                    | None => None
                    | Some p => if no cur - 1 =? no p then gather f d bestno p (news ++ [cur]) (olds ++ [m]) else None
                    end)
     end
   else (if no cur =? 0 then None
         else match get_block d (prev cur) with
              | None => None
              | Some p => if no cur - 1 =? no p then gather f d bestno p (news ++ [cur]) olds else None
              end)).
Proof. reflexivity. Qed.

Section GatherComplete.
Variable U : block -> Prop.
Hypothesis U_inj : forall a b, U a -> U b -> hash_field a = hash_field b -> a = b.
Variable d : store.
Variable bestno : N.
Hypothesis stored_U : forall id x, get_block d id = Some x -> U x /\ hash_field x = id.
Hypothesis main_no : forall k x, k <= bestno -> mainb d k = Some x -> no x = k.
Hypothesis main_tot : forall k, k <= bestno -> exists x, mainb d k = Some x.

Lemma acc_step top cur news olds p olds2 :
  acc_ok d bestno top cur news olds -> no cur <> 0 ->
  get_block d (prev cur) = Some p -> no cur - 1 = no p ->
  (forall x, In x olds2 <-> exists k, no cur - 1 < k /\ k <= bestno /\ mainb d k = Some x) ->
  (no cur <= bestno -> forall m, mainb d (no cur) = Some m -> hash_field cur <> hash_field m) ->
  acc_ok d bestno top p (news ++ [cur]) olds2.
Proof.
  intros (Acur & Alink & Astored & Adiff & Aolds & Atop0 & Atop1) E0 Ep En Holds2 Hdiff.
  destruct (stored_U _ _ Ep) as (Up & Hp).
  unfold acc_ok. repeat split.
  - rewrite Hp. exact Ep.
  - rewrite rev_app_distr. simpl. repeat split; auto. lia.
  - intros c Hc. apply in_app_or in Hc. destruct Hc as [Hc|[<-|[]]]; auto.
  - intros c m Hc. apply in_app_or in Hc. destruct Hc as [Hc|[<-|[]]]; eauto.
  - intros Hx. apply Holds2 in Hx. destruct Hx as (k & H1 & H2 & H3). exists k. repeat split; auto. lia.
  - intros (k & H1 & H2 & H3). apply Holds2. exists k. repeat split; auto. lia.
  - intros Hnil. destruct news; discriminate.
  - intros _. destruct news as [|c news]; simpl.
    + apply Atop0. reflexivity.
    + apply (Atop1 ltac:(discriminate)).
Qed.

(** gather finds exactly the branch [f; ...; top] when [f] is its fork point with the main chain *)
Lemma gather_exact below : forall top cur news olds f,
  acc_ok d bestno top cur news olds ->
  dlinked cur below -> last below cur = f ->
  (forall y, In y below -> get_block d (hash_field y) = Some y) ->
  mainb d (no f) = Some f -> no f < bestno -> bestno < no top ->
  (forall c m, In c (removelast (cur :: below)) -> no c <= bestno -> mainb d (no c) = Some m ->
               hash_field c <> hash_field m) ->
  exists olds', gather (S (N.to_nat (no cur))) d bestno cur news olds =
                Some (f, news ++ removelast (cur :: below), olds').
Proof.
  induction below as [|y r IH]; intros top cur news olds f A Hd Hlast Hst Hf Hflt Htop Hnm.
  - simpl in Hlast. subst f. rewrite gather_unfold.
    assert (E1 : no cur <=? bestno = true) by (apply N.leb_le; lia). rewrite E1.
    unfold mainb in Hf. rewrite Hf, N.eqb_refl.
    assert (E2 : bestno =? no cur = false) by (apply N.eqb_neq; lia). rewrite E2.
    destruct A as (Acur & Alink & Astored & Adiff & Aolds & Atop0 & Atop1).
    destruct news as [|c news].
    { specialize (Atop0 eq_refl). subst cur. exfalso. lia. }
    destruct olds as [|o olds].
    { exfalso. destruct (main_tot bestno ltac:(lia)) as (x & Hx).
      assert (In x []) by (apply Aolds; exists bestno; repeat split; auto; lia). contradiction. }
    exists (o :: olds). simpl. rewrite app_nil_r. reflexivity.
  - destruct Hd as (Hp & Hn & Hd'). 
    assert (Hy : get_block d (hash_field y) = Some y) by (apply Hst; left; auto).
    assert (E0 : no cur =? 0 = false) by (apply N.eqb_neq; lia).
    assert (En : no cur - 1 =? no y = true) by (apply N.eqb_eq; lia).
    assert (Efuel : N.to_nat (no cur) = S (N.to_nat (no y))) by lia.
    rewrite Efuel, gather_unfold, E0, Hp, Hy, En.
    assert (Hrl : removelast (cur :: y :: r) = cur :: removelast (y :: r)) by reflexivity.
    assert (Hnm' : forall c m, In c (removelast (y :: r)) -> no c <= bestno -> mainb d (no c) = Some m ->
                          hash_field c <> hash_field m).
    { intros c m Hc. apply Hnm. rewrite Hrl. right. exact Hc. }
    assert (Hcur : no cur <= bestno -> forall m, mainb d (no cur) = Some m -> hash_field cur <> hash_field m).
    { intros Hle m Hm. apply (Hnm cur m); auto. rewrite Hrl. left. reflexivity. }
    assert (Hlast' : last r y = f).
    { simpl in Hlast. destruct r as [|z r']; auto. rewrite <- Hlast. apply last_default. discriminate. }
    assert (Hst' : forall z, In z r -> get_block d (hash_field z) = Some z) by (intros; apply Hst; right; auto).
    destruct (no cur <=? bestno) eqn:Ele.
    + apply N.leb_le in Ele. destruct (main_tot _ Ele) as (m & Hm).
      unfold mainb in Hm. rewrite Hm. fold (mainb d (no cur)) in Hm.
      assert (Eh : hash_field cur =? hash_field m = false) by (apply N.eqb_neq; apply Hcur; auto).
      rewrite Eh.
      assert (A' : acc_ok d bestno top y (news ++ [cur]) (olds ++ [m])).
      { eapply acc_step; eauto; try lia.
        - rewrite Hp. exact Hy.
        - destruct A as (_ & _ & _ & _ & Aolds & _). intros x. split.
          + intros Hx. apply in_app_or in Hx. destruct Hx as [Hx|[<-|[]]].
            * apply Aolds in Hx. destruct Hx as (k & H1 & H2 & H3). exists k. repeat split; auto. lia.
            * exists (no cur). repeat split; auto. lia.
          + intros (k & H1 & H2 & H3). apply in_or_app.
            destruct (N.eq_dec k (no cur)) as [->|Hne].
            * right. left. congruence.
            * left. apply Aolds. exists k. repeat split; auto. lia. }
      destruct (IH top y (news ++ [cur]) (olds ++ [m]) f A' Hd' Hlast' Hst' Hf Hflt Htop Hnm') as (olds' & G).
      exists olds'. rewrite G, Hrl, <- app_assoc. reflexivity.
    + apply N.leb_gt in Ele.
      assert (A' : acc_ok d bestno top y (news ++ [cur]) olds).
      { eapply acc_step; eauto; try lia.
        - rewrite Hp. exact Hy.
        - destruct A as (_ & _ & _ & _ & Aolds & _). intros x. rewrite Aolds.
          split; intros (k & H1 & H2 & H3); exists k; repeat split; auto; lia. }
      destruct (IH top y (news ++ [cur]) olds f A' Hd' Hlast' Hst' Hf Hflt Htop Hnm') as (olds' & G).
      exists olds'. rewrite G, Hrl, <- app_assoc. reflexivity.
Qed.

End GatherComplete.

Section Switch.
Variable apply : sroot -> block -> option sroot.
Variable orphan_cap : nat.
Variable spent : sroot -> txid -> bool.
Hypothesis apply_fresh : forall r b r', apply r b = Some r' ->
  NoDup (txs b) /\ forall t, In t (txs b) -> spent r t = false.
Hypothesis apply_spent : forall r b r' t, apply r b = Some r' ->
  spent r' t = spent r t || mem t (txs b).
Variable U : block -> Prop.
Hypothesis U_inj : forall a b, U a -> U b -> hash_field a = hash_field b -> a = b.
Variable g : block.
Notation Inv := (Inv apply spent U g).

Lemma rollforward_ok L : forall n, valid_chain apply (sdb_root n) L -> pmem n = sdb_root n ->
  exists n2, rollforward apply n L = (n2, true).
Proof.
  induction L as [|b L IH]; intros n H Hp; simpl.
  - eauto.
  - destruct H as (H1 & H2).
    assert (Eok : exec_ok apply (sdb_root n) b = true) by (unfold exec_ok; rewrite H1; apply N.eqb_refl).
    destruct (execute_block apply n b) as [n1|] eqn:Ex.
    2:{ unfold execute_block in Ex. rewrite Eok, Hp, N.eqb_refl in Ex. discriminate. }
    destruct (execute_block_frame _ _ _ _ Ex) as (_ & _ & Fs & _).
    destruct (execute_block_pmem' _ _ _ _ Ex) as (_ & Fp).
    apply IH; auto. rewrite Fs. exact H2.
Qed.

Lemma inv_stored_U n id x : Inv n -> get_block (dur n) id = Some x -> U x /\ hash_field x = id.
Proof. intros I H. destruct (get_block_univ _ _ _ _ _ _ _ I H) as (A & B & _). auto. Qed.
Lemma inv_main_stored n k x : Inv n -> mainb (dur n) k = Some x -> get_block (dur n) (hash_field x) = Some x.
Proof.
  intros I Hx. unfold mainb, get_block_by_no in Hx. destruct (get_hash_by_no (dur n) k); [|discriminate].
  destruct (inv_stored_U _ _ _ I Hx) as (_ & <-). exact Hx.
Qed.

(** best_is_longest_available, step form: a reorganisation towards the tip of a branch that is
    fully stored, parent-linked and consecutively numbered from its fork point [f] with the main
    chain, executable from [f]'s state, strictly longer than the main chain and forking at or
    above the LIB (and strictly below the tip) SUCCEEDS: the best block becomes that tip, the
    state becomes its state, and the invariant holds. *)
Theorem reorg_switches n f L L' top :
  Inv n ->
  mainb (dur n) (no f) = Some f -> no f < no (best n) -> lib n <= no f ->
  linked f L -> L = L' ++ [top] ->
  (forall c, In c L -> get_block (dur n) (hash_field c) = Some c) ->
  (forall c m, In c L -> no c <= no (best n) -> mainb (dur n) (no c) = Some m -> hash_field c <> hash_field m) ->
  valid_chain apply (root f) L -> no (best n) < no top ->
  exists n', reorg apply true n top = (n', false) /\ best n' = top /\ sdb_root n' = root top /\ Inv n' /\
             bad n' = bad n /\ lib n' = lib n.
Proof.
  intros I Hf Hflt Hlib Hl EL Hst Hnm Hv Htop.
  assert (Htin : In top L) by (subst L; apply in_or_app; right; left; reflexivity).
  assert (Ht : get_block (dur n) (hash_field top) = Some top) by (apply Hst; auto).
  destruct (inv_stored_U _ _ _ I Ht) as (Ut & _).
  assert (Hd : dlinked top (rev L' ++ [f])) by (eapply linked_dlinked; eauto).
  assert (ACC : acc_ok (dur n) (no (best n)) top top [] []).
  { unfold acc_ok. repeat split; simpl; auto; try contradiction.
    all: try (intros (k & H1 & H2 & _); lia).
    all: try (intros H; exfalso; apply H; reflexivity). }
  destruct (gather_exact U (dur n) (no (best n)) (fun id x H => inv_stored_U n id x I H)
              (main_total _ _ _ _ _ I)
              (rev L' ++ [f]) top top [] [] f ACC Hd) as (olds & G).
  - apply last_last.
  - intros y Hy. apply in_app_or in Hy. destruct Hy as [Hy|[<-|[]]].
    + apply Hst. subst L. apply in_or_app. left. apply in_rev. exact Hy.
    + eapply inv_main_stored; eauto.
  - exact Hf.
  - exact Hflt.
  - exact Htop.
  - intros c m Hc. apply Hnm.
    change (top :: rev L' ++ [f]) with ((top :: rev L') ++ [f]) in Hc. rewrite removelast_last in Hc.
    subst L. destruct Hc as [<-|Hc]; auto. apply in_or_app. left. apply in_rev. exact Hc.
  - change (top :: rev L' ++ [f]) with ((top :: rev L') ++ [f]) in G. rewrite removelast_last in G.
    simpl app in G.
    assert (Enews : top :: rev L' = rev L) by (subst L; rewrite rev_unit; reflexivity).
    rewrite Enews in G.
    unfold reorg. rewrite G.
    assert (El : no f <? lib n = false) by (apply N.ltb_ge; lia). rewrite El.
    rewrite rev_involutive.
    destruct (rollforward_ok L (set_state n (root f)) Hv eq_refl) as (n2 & RF). rewrite RF.
    pose proof (reorg_inv apply spent apply_fresh apply_spent U U_inj g n top) as RI.
    unfold reorg in RI. rewrite G, El, rev_involutive, RF in RI.
    destruct (RI _ _ I Ut Ht Htop eq_refl) as (I' & Hb' & Hl').
    eexists. split; [reflexivity|].
    assert (Hl2 : linked f (rev (rev L))) by (rewrite rev_involutive; exact Hl).
    match goal with |- context [swap_chain n2 ?m top (rev L) olds false] =>
      destruct (swap_chain_reads n2 m top (rev L) olds f Hl2) as (Rb & _) end.
    split; [exact Rb|]. split; [rewrite (i_sdb _ _ _ _ _ I'), Rb; reflexivity|].
    split; [exact I'|]. split; assumption.
Qed.

End Switch.

(** The chain-database invariant (C05) and its preservation by the simple steps:
    state commit, receipts, main-chain connection, side-branch store, orphan parking. *)
From Coq Require Import NArith List Bool Lia PeanoNat.
From Verif Require Import ChainDB.Model ChainDB.Basics.
Import ListNotations.
Open Scope N_scope.

Section Inv.
Variable apply : sroot -> block -> option sroot.
Variable f7_fixed : bool.
Variable orphan_cap : nat.
(** Replay protection in abstract form (what C04 proves of the ledger: nonces only grow):
    [spent r t] = transaction [t] can no longer be executed on state [r]. *)
Variable spent : sroot -> txid -> bool.
Hypothesis apply_fresh : forall r b r', apply r b = Some r' ->
  NoDup (txs b) /\ forall t, In t (txs b) -> spent r t = false.
Hypothesis apply_spent : forall r b r' t, apply r b = Some r' ->
  spent r' t = spent r t || mem t (txs b).
(** The blocks that can arrive: identifiers are honest digests and digests do not collide on
    them (finding F8 is the code trusting [hash_field] without this). *)
Variable U : block -> Prop.
Hypothesis U_inj : forall a b, U a -> U b -> hash_field a = hash_field b -> a = b.
Variable g : block.   (* genesis *)

Definition mainb (d : store) (k : N) : option block := get_block_by_no d k.

Record Inv (n : node) : Prop := {
  i_latest : get_latest (dur n) = Some (no (best n));
  i_best : mainb (dur n) (no (best n)) = Some (best n);
  i_gen : mainb (dur n) 0 = Some g /\ no g = 0;
  i_no : forall k b, k <= no (best n) -> mainb (dur n) k = Some b -> no b = k;
  i_path : forall k, k < no (best n) -> exists p b,
      mainb (dur n) k = Some p /\ mainb (dur n) (k + 1) = Some b /\
      prev b = hash_field p /\ apply (root p) b = Some (root b);
  i_above : forall k, no (best n) < k -> dur n (KHeight k) = None;
  i_sdb : sdb_root n = root (best n);
  i_state : forall k b, k <= no (best n) -> mainb (dur n) k = Some b ->
      has_state_marker (dur n) (root b) = true;
  i_rcpt : forall k b, k <= no (best n) -> mainb (dur n) k = Some b -> txs b <> [] ->
      has_receipts (dur n) (hash_field b) (no b) = true;
  i_tx : forall k b i t, k <= no (best n) -> mainb (dur n) k = Some b ->
      nth_error (txs b) i = Some t -> dur n (KTx t) = Some (VTxIdx (hash_field b) i);
  i_txsound : forall t id i, dur n (KTx t) = Some (VTxIdx id i) ->
      exists b, get_block (dur n) id = Some b /\ nth_error (txs b) i = Some t;
  i_spent : forall j k bj bk t, j <= k -> k <= no (best n) ->
      mainb (dur n) j = Some bj -> mainb (dur n) k = Some bk -> In t (txs bj) ->
      spent (root bk) t = true;
  i_nomarker : dur n KMarker = None;
  i_univ : forall id b, dur n (KBlock id) = Some (VBlock b) -> U b /\ hash_field b = id;
  i_orph : forall o, In o (orphans n) -> U o;
  (* at rest the in-memory system parameters are those stored in the current state *)
  i_params : pmem n = sdb_root n
}.

(** ** Reads after each kind of unit *)

Lemma get_block_univ n id b : Inv n -> get_block (dur n) id = Some b -> U b /\ hash_field b = id /\ dur n (KBlock id) = Some (VBlock b).
Proof.
  intros I H. unfold get_block in H. destruct (dur n (KBlock id)) as [[]|] eqn:E; try discriminate.
  destruct (hash_field b0 =? id) eqn:E2; try discriminate. inversion H; subst.
  destruct (i_univ _ I _ _ E). auto.
Qed.

Definition same_on (P : dkey -> Prop) (d d' : store) := forall k, P k -> d' k = d k.

Lemma state_unit_frame d r k : (forall r', k <> KStateMarker r') -> apply_unit d (state_unit r) k = d k.
Proof.
  intros H. unfold apply_unit. rewrite apply_ops_lookup. simpl.
  destruct k; simpl; auto. exfalso. eapply H; eauto.
Qed.
Lemma state_unit_marker d r r' :
  has_state_marker (apply_unit d (state_unit r)) r' = (r =? r') || has_state_marker d r'.
Proof.
  unfold has_state_marker, apply_unit. rewrite apply_ops_lookup. simpl.
  destruct (r =? r'); auto.
Qed.

Lemma receipts_unit_frame d b k : (forall i m, k <> KReceipts i m) -> apply_unit d (receipts_unit b) k = d k.
Proof.
  intros H. unfold apply_unit, receipts_unit. rewrite apply_ops_lookup. simpl.
  destruct (txs b); simpl; auto.
  destruct k; simpl; auto. exfalso. eapply H; eauto.
Qed.
Lemma receipts_unit_has d b id m :
  has_receipts (apply_unit d (receipts_unit b)) id m =
  (match txs b with [] => false | _ => (hash_field b =? id) && (no b =? m) end) || has_receipts d id m.
Proof.
  unfold has_receipts, apply_unit, receipts_unit. rewrite apply_ops_lookup.
  destruct (txs b); simpl; auto.
  destruct ((hash_field b =? id) && (no b =? m)); auto.
Qed.

Lemma emit_ne_dur n u : dur (emit_ne n u) = apply_unit (dur n) u.
Proof.
  unfold emit_ne. destruct (u_ops u) eqn:E; simpl; auto.
  unfold apply_unit. rewrite E. reflexivity.
Qed.

Lemma emit_ne_fields n u : best (emit_ne n u) = best n /\ sdb_root (emit_ne n u) = sdb_root n /\
  orphans (emit_ne n u) = orphans n /\ bad (emit_ne n u) = bad n /\ lib (emit_ne n u) = lib n /\ evs (emit_ne n u) = evs n.
Proof. unfold emit_ne. destruct (u_ops u); simpl; auto 10. Qed.

(** reads that ignore a change of the store outside their key class *)
Lemma get_block_ext d d' id : d' (KBlock id) = d (KBlock id) -> get_block d' id = get_block d id.
Proof. unfold get_block. intros ->. reflexivity. Qed.
Lemma get_hash_ext d d' k : d' (KHeight k) = d (KHeight k) -> get_hash_by_no d' k = get_hash_by_no d k.
Proof. unfold get_hash_by_no. intros ->. reflexivity. Qed.
Lemma mainb_ext d d' k : d' (KHeight k) = d (KHeight k) -> (forall id, d' (KBlock id) = d (KBlock id)) ->
  mainb d' k = mainb d k.
Proof.
  intros H1 H2. unfold mainb, get_block_by_no. rewrite (get_hash_ext _ _ _ H1).
  destruct (get_hash_by_no d k); auto. apply get_block_ext. auto.
Qed.

(** A step that only adds state markers and receipts keeps the invariant. *)
Lemma inv_frame n n' :
  Inv n ->
  best n' = best n -> sdb_root n' = sdb_root n -> orphans n' = orphans n ->
  (forall k, (forall r, k <> KStateMarker r) -> (forall i m, k <> KReceipts i m) -> dur n' k = dur n k) ->
  (forall r, has_state_marker (dur n) r = true -> has_state_marker (dur n') r = true) ->
  (forall i m, has_receipts (dur n) i m = true -> has_receipts (dur n') i m = true) ->
  pmem n' = pmem n ->
  Inv n'.
Proof.
  intros I Hb Hs Ho Hf Hm Hr Hp.
  assert (Hk : forall id, dur n' (KBlock id) = dur n (KBlock id)) by (intros; apply Hf; intros; discriminate).
  assert (Hh : forall k, dur n' (KHeight k) = dur n (KHeight k)) by (intros; apply Hf; intros; discriminate).
  assert (Ht : forall t, dur n' (KTx t) = dur n (KTx t)) by (intros; apply Hf; intros; discriminate).
  assert (Hmb : forall k, mainb (dur n') k = mainb (dur n) k) by (intros; apply mainb_ext; auto).
  destruct I. constructor; rewrite ?Hb, ?Hs, ?Ho, ?Hp; auto.
  - unfold get_latest. rewrite Hf by (intros; discriminate). auto.
  - rewrite Hmb. auto.
  - rewrite Hmb. auto.
  - intros k b. rewrite Hmb. auto.
  - intros k Hk'. destruct (i_path0 k Hk') as (p & b & ?). exists p, b. rewrite !Hmb. auto.
  - intros k Hk'. rewrite Hh. auto.
  - intros k b Hk'. rewrite Hmb. intros. eauto.
  - intros k b Hk'. rewrite Hmb. intros. eauto.
  - intros k b i t Hk'. rewrite Hmb, Ht. eauto.
  - intros t id i. rewrite Ht. intros H. destruct (i_txsound0 _ _ _ H) as (b & Hg & Hn).
    exists b. split; auto. rewrite (get_block_ext (dur n) (dur n')); auto.
  - intros j k bj bk t. rewrite !Hmb. eauto.
  - rewrite Hf by (intros; discriminate). auto.
  - intros id b. rewrite Hk. auto.
Qed.

(** executeBlock: state commit + receipts; invariant kept, state root moved *)
Lemma execute_block_frame n b n' :
  execute_block apply n b = Some n' ->
  exec_ok apply (sdb_root n) b = true /\
  best n' = best n /\ sdb_root n' = root b /\ orphans n' = orphans n /\ bad n' = bad n /\ lib n' = lib n /\
  (forall k, (forall r, k <> KStateMarker r) -> (forall i m, k <> KReceipts i m) -> dur n' k = dur n k) /\
  (forall r, has_state_marker (dur n') r = (root b =? r) || has_state_marker (dur n) r) /\
  (forall i m, has_receipts (dur n') i m =
     (match txs b with [] => false | _ => (hash_field b =? i) && (no b =? m) end) || has_receipts (dur n) i m).
Proof.
  unfold execute_block. destruct (pmem n =? sdb_root n); [|discriminate].
  destruct (exec_ok apply (sdb_root n) b) eqn:E; try discriminate.
  intros H. inversion H; subst; clear H. simpl.
  rewrite !emit_ne_dur. simpl.
  match goal with |- context [emit_ne ?n ?u] => destruct (emit_ne_fields n u) as (F1 & F2 & F3 & F4 & F5 & F6) end.
  rewrite F1, F2, F3, F4, F5. simpl.
  do 6 (split; [reflexivity|]).
  split; [|split].
  - intros k H1 H2. rewrite receipts_unit_frame by auto. rewrite state_unit_frame by auto. reflexivity.
  - intros r. unfold has_state_marker. rewrite receipts_unit_frame by (intros; discriminate).
    apply state_unit_marker.
  - intros i m. rewrite receipts_unit_has. f_equal.
Qed.

Lemma execute_block_pmem n b n' :
  execute_block apply n b = Some n' -> pmem n = sdb_root n /\ pmem n' = root b.
Proof.
  unfold execute_block. destruct (pmem n =? sdb_root n) eqn:E; [|discriminate].
  destruct (exec_ok apply (sdb_root n) b); [|discriminate].
  intros H. inversion H; subst; clear H. simpl.
  match goal with |- context [emit_ne ?n ?u] => destruct (emit_ne_fields n u) as (F1 & F2 & F3 & F4 & F5 & F6) end.
  split; [apply N.eqb_eq; exact E|].
  unfold emit_ne. destruct (u_ops (receipts_unit b)); reflexivity.
Qed.

(** connectToChain's transaction *)
Lemma connect_unit_reads d b : NoDup (txs b) ->
  let d' := apply_unit d (connect_unit b) in
  d' KLatest = Some (VNo (no b)) /\
  (forall k, d' (KHeight k) = if no b =? k then Some (VHash (hash_field b)) else d (KHeight k)) /\
  (forall id, d' (KBlock id) = if hash_field b =? id then Some (VBlock b) else d (KBlock id)) /\
  (forall i t, nth_error (txs b) i = Some t -> d' (KTx t) = Some (VTxIdx (hash_field b) i)) /\
  (forall t, ~ In t (txs b) -> d' (KTx t) = d (KTx t)) /\
  (forall i m, d' (KReceipts i m) = d (KReceipts i m)) /\
  d' KMarker = d KMarker /\
  (forall r, d' (KStateMarker r) = d (KStateMarker r)).
Proof.
  intros Hnd d'. subst d'. unfold apply_unit, connect_unit. simpl u_ops.
  repeat split; intros; rewrite apply_ops_lookup; simpl lookup_ops.
  - rewrite lookup_tx_ops_other by (intros; discriminate). simpl. reflexivity.
  - rewrite lookup_tx_ops_other by (intros; discriminate). simpl. destruct (no b =? k); reflexivity.
  - rewrite lookup_tx_ops_other by (intros; discriminate). simpl. destruct (hash_field b =? id); reflexivity.
  - rewrite (lookup_tx_ops_in _ _ 0%nat i t Hnd H). reflexivity.
  - rewrite lookup_tx_ops_notin by auto. simpl. reflexivity.
  - rewrite lookup_tx_ops_other by (intros; discriminate). simpl. reflexivity.
  - rewrite lookup_tx_ops_other by (intros; discriminate). simpl. reflexivity.
  - rewrite lookup_tx_ops_other by (intros; discriminate). simpl. reflexivity.
Qed.

Lemma main_total n : Inv n -> forall k, k <= no (best n) -> exists b, mainb (dur n) k = Some b.
Proof.
  intros I k Hk. destruct (N.eq_dec k (no (best n))) as [->|Hne].
  - exists (best n). apply (i_best _ I).
  - destruct (i_path _ I k) as (p & b & H1 & _); [lia|]. eauto.
Qed.

Lemma best_hash n : Inv n -> get_hash_by_no (dur n) (no (best n)) = Some (hash_field (best n)).
Proof.
  intros I. pose proof (i_best _ I) as H. unfold mainb, get_block_by_no in H.
  destruct (get_hash_by_no (dur n) (no (best n))) as [h|] eqn:E; try discriminate.
  destruct (get_block_univ _ _ _ I H) as (_ & -> & _). reflexivity.
Qed.

(** spent is monotone along the main chain, so a transaction of a main-chain block is
    spent at the tip *)
Lemma spent_at_best n k b t : Inv n -> k <= no (best n) -> mainb (dur n) k = Some b -> In t (txs b) ->
  spent (root (best n)) t = true.
Proof. intros I Hk Hm Hin. eapply (i_spent _ I k (no (best n))); eauto. lia. apply (i_best _ I). Qed.

(** chainProcessor.execute on a child of the tip *)
Lemma connect_main_inv n b n' :
  Inv n -> U b -> prev b = hash_field (best n) -> no b = no (best n) + 1 ->
  connect_main apply n b = Some n' ->
  Inv n' /\ best n' = b /\ orphans n' = orphans n /\ bad n' = bad n /\ lib n' = lib n /\
  (forall id x, get_block (dur n) id = Some x -> get_block (dur n') id = Some x) /\
  get_block (dur n') (hash_field b) = Some b.
Proof.
  intros I Ub Hprev Hno Hc. unfold connect_main in Hc.
  destruct (execute_block apply n b) as [n1|] eqn:Ex; try discriminate.
  inversion Hc; subst n'; clear Hc.
  destruct (execute_block_frame _ _ _ Ex) as (Hok & Fb & Fs & Fo & Fbad & Flib & Ff & Fm & Fr).
  destruct (execute_block_pmem _ _ _ Ex) as (_ & Fp).
  unfold exec_ok in Hok. rewrite (i_sdb _ I) in Hok.
  destruct (apply (root (best n)) b) as [r'|] eqn:Eap; try discriminate.
  apply N.eqb_eq in Hok. subst r'.
  destruct (apply_fresh _ _ _ Eap) as (Hnd & Hfresh).
  destruct (connect_unit_reads (dur n1) b Hnd) as (RL & RH & RB & RT & RT' & RR & RM & RS).
  set (d1 := dur n1) in *. set (d2 := apply_unit d1 (connect_unit b)) in *.
  assert (Imain1 : forall k, mainb d1 k = mainb (dur n) k).
  { intros k. apply mainb_ext; intros; apply Ff; intros; discriminate. }
  assert (GB1 : forall id, get_block d1 id = get_block (dur n) id).
  { intros. apply get_block_ext. apply Ff; intros; discriminate. }
  assert (GB : forall id x, get_block d1 id = Some x -> get_block d2 id = Some x).
  { intros id x Hg. unfold get_block. rewrite RB.
    destruct (hash_field b =? id) eqn:E.
    - apply N.eqb_eq in E. rewrite GB1 in Hg.
      destruct (get_block_univ _ _ _ I Hg) as (Ux & Hx & _).
      assert (x = b) by (apply U_inj; auto; congruence). subst x. rewrite E. rewrite N.eqb_refl. reflexivity.
    - exact Hg. }
  assert (GBb : get_block d2 (hash_field b) = Some b).
  { unfold get_block. rewrite RB. rewrite !N.eqb_refl. reflexivity. }
  assert (Mold : forall k x, k <= no (best n) -> mainb (dur n) k = Some x -> mainb d2 k = Some x).
  { intros k x Hk Hm. rewrite <- Imain1 in Hm. unfold mainb, get_block_by_no, get_hash_by_no in *.
    rewrite RH. destruct (no b =? k) eqn:E; [apply N.eqb_eq in E; lia|].
    destruct (d1 (KHeight k)) as [[]|]; try discriminate. apply GB. exact Hm. }
  assert (Mnew : mainb d2 (no b) = Some b).
  { unfold mainb, get_block_by_no, get_hash_by_no. rewrite RH, N.eqb_refl. exact GBb. }
  assert (Mchar : forall k x, k <= no b -> mainb d2 k = Some x ->
            (k = no b /\ x = b) \/ (k <= no (best n) /\ mainb (dur n) k = Some x)).
  { intros k x Hk Hm. destruct (N.eq_dec k (no b)) as [->|Hne].
    - left. rewrite Mnew in Hm. inversion Hm. auto.
    - right. assert (Hk' : k <= no (best n)) by lia. split; auto.
      destruct (main_total _ I k Hk') as (y & Hy). rewrite (Mold _ _ Hk' Hy) in Hm. congruence. }
  split; [|repeat split; simpl; auto; try congruence].
  2:{ intros id x Hg. apply GB. rewrite GB1. exact Hg. }
  constructor; simpl; fold d1; fold d2.
  - unfold get_latest. rewrite RL. reflexivity.
  - exact Mnew.
  - destruct (i_gen _ I) as (Hg0 & Hg1). split; auto. apply Mold; auto. lia.
  - intros k x Hk Hm. destruct (Mchar _ _ Hk Hm) as [(-> & ->)|(Hk' & Hm')]; auto.
    apply (i_no _ I _ _ Hk' Hm').
  - intros k Hk. destruct (N.eq_dec k (no (best n))) as [->|Hne].
    + exists (best n), b. rewrite <- Hno. repeat split; auto.
      apply Mold; [lia|apply (i_best _ I)].
    + destruct (i_path _ I k) as (p & x & H1 & H2 & H3 & H4); [lia|].
      exists p, x. repeat split; auto; apply Mold; auto; lia.
  - intros k Hk. rewrite RH. destruct (no b =? k) eqn:E; [apply N.eqb_eq in E; lia|].
    unfold d1. rewrite Ff by (intros; discriminate). apply (i_above _ I). lia.
  - rewrite Fs. reflexivity.
  - intros k x Hk Hm. unfold has_state_marker. rewrite RS. fold (has_state_marker d1 (root x)).
    unfold d1. rewrite Fm.
    destruct (Mchar _ _ Hk Hm) as [(-> & ->)|(Hk' & Hm')].
    + rewrite N.eqb_refl. reflexivity.
    + rewrite (i_state _ I _ _ Hk' Hm'). apply orb_true_r.
  - intros k x Hk Hm Htx. unfold has_receipts. rewrite RR. fold (has_receipts d1 (hash_field x) (no x)).
    unfold d1. rewrite Fr.
    destruct (Mchar _ _ Hk Hm) as [(-> & ->)|(Hk' & Hm')].
    + destruct (txs b); [contradiction|]. rewrite !N.eqb_refl. reflexivity.
    + rewrite (i_rcpt _ I _ _ Hk' Hm' Htx). apply orb_true_r.
  - intros k x i t Hk Hm Hn.
    destruct (Mchar _ _ Hk Hm) as [(-> & ->)|(Hk' & Hm')].
    + apply RT. exact Hn.
    + rewrite RT'.
      * unfold d1. rewrite Ff by (intros; discriminate). apply (i_tx _ I _ _ _ _ Hk' Hm' Hn).
      * intro Hin. apply nth_error_In in Hn.
        specialize (Hfresh t Hin). rewrite (spent_at_best _ _ _ _ I Hk' Hm' Hn) in Hfresh. discriminate.
  - intros t id i Ht.
    destruct (in_dec N.eq_dec t (txs b)) as [Hin|Hnin].
    + destruct (In_nth_error _ _ Hin) as (j & Hj). rewrite (RT _ _ Hj) in Ht. inversion Ht; subst.
      exists b. split; auto.
    + rewrite RT' in Ht by auto. unfold d1 in Ht. rewrite Ff in Ht by (intros; discriminate).
      destruct (i_txsound _ I _ _ _ Ht) as (x & Hx & Hn). exists x. split; auto.
      apply GB. rewrite GB1. exact Hx.
  - intros j k bj bk t Hjk Hk Hmj Hmk Hin.
    destruct (Mchar _ _ Hk Hmk) as [(-> & ->)|(Hk' & Hmk')].
    + rewrite (apply_spent _ _ _ t Eap).
      destruct (Mchar j bj ltac:(lia) Hmj) as [(_ & ->)|(Hj' & Hmj')].
      * apply mem_In in Hin. rewrite Hin. apply orb_true_r.
      * rewrite (spent_at_best _ _ _ _ I Hj' Hmj' Hin). reflexivity.
    + destruct (Mchar j bj ltac:(lia) Hmj) as [(-> & ->)|(Hj' & Hmj')]; [lia|].
      apply (i_spent _ I j k bj bk t); auto.
  - rewrite RM. unfold d1. rewrite Ff by (intros; discriminate). apply (i_nomarker _ I).
  - intros id x. rewrite RB. destruct (hash_field b =? id) eqn:E.
    + intros H. inversion H; subst. apply N.eqb_eq in E. auto.
    + unfold d1. rewrite Ff by (intros; discriminate). apply (i_univ _ I).
  - rewrite Fo. apply (i_orph _ I).
  - rewrite Fp, Fs. reflexivity.
Qed.

(** A step that only stores further blocks (never changing a stored one), state markers and
    receipts keeps the invariant. *)
Lemma inv_frame2 n n' :
  Inv n ->
  best n' = best n -> sdb_root n' = sdb_root n -> (forall o, In o (orphans n') -> U o) ->
  (forall k, (forall r, k <> KStateMarker r) -> (forall i m, k <> KReceipts i m) -> (forall id, k <> KBlock id) ->
             dur n' k = dur n k) ->
  (forall id x, get_block (dur n) id = Some x -> get_block (dur n') id = Some x) ->
  (forall id x, dur n' (KBlock id) = Some (VBlock x) -> U x /\ hash_field x = id) ->
  (forall r, has_state_marker (dur n) r = true -> has_state_marker (dur n') r = true) ->
  (forall i m, has_receipts (dur n) i m = true -> has_receipts (dur n') i m = true) ->
  pmem n' = pmem n ->
  Inv n'.
Proof.
  intros I Hb Hs Ho Hf GB HU Hm Hr Hp.
  assert (Hh : forall k, dur n' (KHeight k) = dur n (KHeight k)) by (intros; apply Hf; intros; discriminate).
  assert (Ht : forall t, dur n' (KTx t) = dur n (KTx t)) by (intros; apply Hf; intros; discriminate).
  assert (Mold : forall k x, mainb (dur n) k = Some x -> mainb (dur n') k = Some x).
  { intros k x. unfold mainb, get_block_by_no, get_hash_by_no. rewrite Hh.
    destruct (dur n (KHeight k)) as [[]|]; try discriminate. apply GB. }
  assert (Mchar : forall k x, k <= no (best n) -> mainb (dur n') k = Some x -> mainb (dur n) k = Some x).
  { intros k x Hk Hx. destruct (main_total _ I k Hk) as (y & Hy). rewrite (Mold _ _ Hy) in Hx. congruence. }
  constructor; rewrite ?Hb, ?Hs; auto.
  - unfold get_latest. rewrite Hf by (intros; discriminate). apply (i_latest _ I).
  - apply Mold. apply (i_best _ I).
  - destruct (i_gen _ I). split; auto.
  - intros k b Hk Hx. apply (i_no _ I k b Hk). auto.
  - intros k Hk'. destruct (i_path _ I k Hk') as (p & b & H1 & H2 & H3). exists p, b. auto.
  - intros k Hk'. rewrite Hh. apply (i_above _ I). auto.
  - apply (i_sdb _ I).
  - intros k b Hk' Hx. apply Hm. eapply (i_state _ I); eauto.
  - intros k b Hk' Hx Htx. apply Hr. eapply (i_rcpt _ I); eauto.
  - intros k b i t Hk' Hx Hn. rewrite Ht. eapply (i_tx _ I); eauto.
  - intros t id i. rewrite Ht. intros H. destruct (i_txsound _ I _ _ _ H) as (b & Hg & Hn).
    exists b. split; auto.
  - intros j k bj bk t Hjk Hk Hj Hk2 Hin. eapply (i_spent _ I j k); eauto. apply Mchar; auto. lia.
  - rewrite Hf by (intros; discriminate). apply (i_nomarker _ I).
  - rewrite Hp. apply (i_params _ I).
Qed.

Lemma store_unit_reads d b k :
  apply_unit d (store_unit b) k = if dkey_eqb (KBlock (hash_field b)) k then Some (VBlock b) else d k.
Proof.
  unfold apply_unit, store_unit. rewrite apply_ops_lookup. cbn [u_ops lookup_ops fst snd].
  destruct (dkey_eqb (KBlock (hash_field b)) k); reflexivity.
Qed.

Lemma get_block_store_mono d b : (forall x, get_block d (hash_field b) = Some x -> x = b) ->
  forall id x, get_block d id = Some x -> get_block (apply_unit d (store_unit b)) id = Some x.
Proof.
  intros Hsame id x Hg. unfold get_block. rewrite store_unit_reads. simpl.
  destruct (hash_field b =? id) eqn:E; auto.
  apply N.eqb_eq in E. subst id. rewrite (Hsame _ Hg). rewrite N.eqb_refl. reflexivity.
Qed.

Lemma store_side_inv n b : Inv n -> U b ->
  Inv (store_side n b) /\ best (store_side n b) = best n /\ orphans (store_side n b) = orphans n /\
  sdb_root (store_side n b) = sdb_root n /\ bad (store_side n b) = bad n /\ lib (store_side n b) = lib n /\
  (forall id x, get_block (dur n) id = Some x -> get_block (dur (store_side n b)) id = Some x) /\
  get_block (dur (store_side n b)) (hash_field b) = Some b /\
  (forall k, (forall id, k <> KBlock id) -> dur (store_side n b) k = dur n k).
Proof.
  intros I Ub.
  assert (Hsame : forall x, get_block (dur n) (hash_field b) = Some x -> x = b).
  { intros x Hx. destruct (get_block_univ _ _ _ I Hx) as (Ux & Hh & _). apply U_inj; auto. }
  assert (F : forall k, (forall id, k <> KBlock id) -> dur (store_side n b) k = dur n k).
  { intros k Hk. simpl. rewrite store_unit_reads.
    destruct (dkey_eqb (KBlock (hash_field b)) k) eqn:E; auto.
    apply dkey_eqb_spec in E. exfalso. eapply Hk; eauto. }
  split; [|repeat split; auto].
  - eapply inv_frame2; eauto.
    + simpl. apply (i_orph _ I).
    + simpl. apply get_block_store_mono. auto.
    + simpl. intros id x. rewrite store_unit_reads. simpl.
      destruct (hash_field b =? id) eqn:E.
      * intros H; inversion H; subst. apply N.eqb_eq in E. auto.
      * apply (i_univ _ I).
  - simpl. apply get_block_store_mono. auto.
  - simpl. unfold get_block. rewrite store_unit_reads. rewrite dkey_eqb_refl, N.eqb_refl. reflexivity.
Qed.

Lemma inv_set_orphans n l : Inv n -> (forall o, In o l -> U o) -> Inv (set_orphans n l).
Proof. intros I H. destruct I. constructor; simpl; auto. Qed.
Lemma inv_tell n e : Inv n -> Inv (tell n e).
Proof. intros I. destruct I. constructor; simpl; auto. Qed.
Lemma inv_set_bad n l : Inv n -> Inv (set_bad n l).
Proof. intros I. destruct I. constructor; simpl; auto. Qed.
Lemma inv_set_lib n l : Inv n -> Inv (set_lib n l).
Proof. intros I. destruct I. constructor; simpl; auto. Qed.

Lemma find_orphan_In l p o : find_orphan l p = Some o -> In o l /\ prev o = p.
Proof.
  unfold find_orphan. intros H. apply find_some in H. destruct H as (H1 & H2).
  apply N.eqb_eq in H2. auto.
Qed.
Lemma remove_orphan_In l p o : In o (remove_orphan l p) -> In o l.
Proof. unfold remove_orphan. intros H. apply filter_In in H. tauto. Qed.

Lemma add_orphan_In l b o : In o (add_orphan orphan_cap l b) -> In o l \/ o = b.
Proof.
  unfold add_orphan. destruct (find_orphan l (prev b)); auto.
  intros H. apply in_app_or in H. destruct H as [H|[H|[]]]; auto.
  left. destruct (Nat.eqb (length l) orphan_cap); auto.
  destruct l; simpl in *; auto.
Qed.

(** chainProcessor.run: the starting block and every parked descendant it pulls in *)
Lemma run_chain_inv fuel : forall main n b last n' ok last',
  Inv n -> U b ->
  (main = true -> prev b = hash_field (best n) /\ no b = no (best n) + 1) ->
  run_chain apply fuel main n b last = (n', ok, last') ->
  Inv n' /\ bad n' = bad n /\ lib n' = lib n /\
  (main = false -> best n' = best n) /\
  (forall id x, get_block (dur n) id = Some x -> get_block (dur n') id = Some x) /\
  (ok = true -> U last' /\ get_block (dur n') (hash_field last') = Some last').
Proof.
  induction fuel as [|f IH]; intros main n b last n' ok last' I Ub Hm Hr; simpl in Hr.
  - inversion Hr; subst. split; [exact I|]. repeat split; auto; try (intros; discriminate).
  - destruct main.
    + destruct (Hm eq_refl) as (Hp & Hn).
      destruct (connect_main apply n b) as [n1|] eqn:Ec.
      2:{ inversion Hr; subst. split; [exact I|]. repeat split; auto; try (intros; discriminate). }
      destruct (connect_main_inv _ _ _ I Ub Hp Hn Ec) as (I1 & B1 & O1 & Bad1 & L1 & GB1 & GBb).
      unfold resolve_orphan in Hr.
      destruct (find_orphan (orphans n1) (hash_field b)) as [o|] eqn:Ef.
      2:{ inversion Hr; subst. split; [exact I1|]. repeat split; auto; try congruence; try (intros; discriminate). }
      destruct (no b + 1 =? no o) eqn:En.
      2:{ inversion Hr; subst. split; [exact I1|]. repeat split; auto; try congruence; try (intros; discriminate). }
      apply N.eqb_eq in En. destruct (find_orphan_In _ _ _ Ef) as (Hin & Hpo).
      assert (I2 : Inv (set_orphans n1 (remove_orphan (orphans n1) (hash_field b)))).
      { apply inv_set_orphans; auto. intros x Hx. apply (i_orph _ I1). eapply remove_orphan_In; eauto. }
      destruct (IH true _ _ _ _ _ _ I2 (i_orph _ I1 _ Hin)
                  ltac:(intros _; simpl; rewrite B1; split; [exact Hpo | lia]) Hr)
        as (I' & Bad' & L' & _ & GB' & Hl).
      simpl in *. split; [exact I'|]. repeat split; auto; try congruence; try (intros; discriminate).
      * apply Hl; auto.
      * apply Hl; auto.
    + destruct (store_side_inv n b I Ub) as (I1 & B1 & O1 & S1 & Bad1 & L1 & GB1 & GBb & _).
      unfold resolve_orphan in Hr.
      destruct (find_orphan (orphans (store_side n b)) (hash_field b)) as [o|] eqn:Ef.
      2:{ inversion Hr; subst. split; [exact I1|]. repeat split; auto; try congruence; try (intros; discriminate). }
      destruct (no b + 1 =? no o) eqn:En.
      2:{ inversion Hr; subst. split; [exact I1|]. repeat split; auto; try congruence; try (intros; discriminate). }
      destruct (find_orphan_In _ _ _ Ef) as (Hin & Hpo).
      assert (I2 : Inv (set_orphans (store_side n b) (remove_orphan (orphans (store_side n b)) (hash_field b)))).
      { apply inv_set_orphans; auto. intros x Hx. apply (i_orph _ I1). eapply remove_orphan_In; eauto. }
      destruct (IH false _ _ _ _ _ _ I2 (i_orph _ I1 _ Hin) ltac:(intros; discriminate) Hr)
        as (I' & Bad' & L' & Hb' & GB' & Hl).
      simpl in *. split; [exact I'|]. repeat split; auto; try congruence.
      * apply Hl; auto.
      * apply Hl; auto.
Qed.

End Inv.

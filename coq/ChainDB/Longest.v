(** C07 best_is_longest_available as an invariant over arrival histories, under the hypothesis
    that excludes the known finding C07:orphan-chain-invalid-tail-blocks-reorg: an arrival that
    pulls parked orphans in does not end in an error. *)
From Coq Require Import NArith List Bool Lia PeanoNat.
From Verif Require Import ChainDB.Model ChainDB.Basics ChainDB.Inv ChainDB.Reorg ChainDB.AddBlock ChainDB.Fork ChainDB.Trace.
Import ListNotations.
Open Scope N_scope.

Section Longest.
Variable apply : sroot -> block -> option sroot.
Variable orphan_cap : nat.
Variable f27 : bool.
Variable spent : sroot -> txid -> bool.
Hypothesis apply_fresh : forall r b r', apply r b = Some r' ->
  NoDup (txs b) /\ forall t, In t (txs b) -> spent r t = false.
Hypothesis apply_spent : forall r b r' t, apply r b = Some r' ->
  spent r' t = spent r t || mem t (txs b).
Variable U : block -> Prop.
Hypothesis U_inj : forall a b, U a -> U b -> hash_field a = hash_field b -> a = b.
Variable g : block.
Notation Inv := (Inv apply spent U g).
Notation avail := (avail apply).
Notation Longest := (Longest apply).

Definition stored (n : node) (x : block) : Prop := get_block (dur n) (hash_field x) = Some x.

(** structural facts about the block store *)
Record Struct (n : node) : Prop := {
  s_parent : forall x, stored n x -> x = g \/ exists p, stored n p /\ hash_field p = prev x;
  s_tip : forall x, stored n x -> prev x = hash_field (best n) -> no x <> no (best n) + 1
}.

Lemma stored_U n x : Inv n -> stored n x -> U x.
Proof. intros I H. destruct (inv_stored_U apply spent U g n _ _ I H). auto. Qed.
Lemma stored_eq n x y : Inv n -> stored n x -> stored n y -> hash_field x = hash_field y -> x = y.
Proof. intros I Hx Hy E. apply U_inj; eauto using stored_U. Qed.
Lemma main_stored n k x : Inv n -> mainb (dur n) k = Some x -> stored n x.
Proof. intros. eapply inv_main_stored; eauto. Qed.

(** the parent (in a stored linked chain) of a main-chain block is the main-chain block below it *)
Lemma parent_of_main n c q : Inv n -> no c <= no (best n) -> mainb (dur n) (no c) = Some c ->
  stored n q -> prev c = hash_field q -> no c = no q + 1 ->
  mainb (dur n) (no q) = Some q.
Proof.
  intros I Hle Hc Hq Hp Hn.
  destruct (i_path _ _ _ _ _ I (no q)) as (p & b & P1 & P2 & P3 & P4); [lia|].
  replace (no q + 1) with (no c) in P2 by lia. rewrite Hc in P2. inversion P2; subst b.
  assert (p = q) by (eapply stored_eq; eauto using main_stored; congruence).
  subst p. exact P1.
Qed.

Definition nonmain (n : node) (L : list block) : Prop :=
  forall c m, In c L -> no c <= no (best n) -> mainb (dur n) (no c) = Some m -> hash_field c <> hash_field m.

(** in a stored linked chain above a main block, once a block is off the main chain all later ones are *)
Lemma linked_nonmain n : Inv n -> forall L p, stored n p -> linked p L -> (forall c, In c L -> stored n c) ->
  (no p <= no (best n) -> mainb (dur n) (no p) <> Some p) -> nonmain n L.
Proof.
  intros I. induction L as [|c L IH]; intros p Hp Hl Hst Hnm; [intros c m []|].
  destruct Hl as (H1 & H2 & H3).
  assert (Hc : no c <= no (best n) -> mainb (dur n) (no c) <> Some c).
  { intros Hle Hm. apply Hnm; [lia|]. eapply parent_of_main; eauto; try (apply Hst; left; reflexivity). }
  intros x m [<-|Hx] Hle Hm.
  - intro E. apply (Hc Hle). rewrite Hm. f_equal. symmetry. eapply stored_eq; eauto using main_stored. apply Hst; left; reflexivity.
  - eapply (IH c); eauto. apply Hst; left; reflexivity. intros; apply Hst; right; auto.
Qed.

Lemma valid_chain_app r L1 L2 : valid_chain apply r (L1 ++ L2) <-> valid_chain apply r L1 /\ valid_chain apply (end_root r L1) L2.
Proof.
  revert r. induction L1 as [|b L1 IH]; intros r; simpl.
  - tauto.
  - rewrite IH. tauto.
Qed.
Lemma linked_app p L1 L2 : linked p (L1 ++ L2) <-> linked p L1 /\ linked (last L1 p) L2.
Proof.
  revert p. induction L1 as [|b L1 IH]; intros p.
  - simpl. tauto.
  - change (linked p ((b :: L1) ++ L2)) with (prev b = hash_field p /\ no b = no p + 1 /\ linked b (L1 ++ L2)).
    rewrite IH. destruct L1 as [|x l].
    + simpl. tauto.
    + assert (E : last (b :: x :: l) p = last (x :: l) b).
      { change (last (b :: x :: l) p) with (last (x :: l) p). apply last_default. discriminate. }
      rewrite E.
      change (linked p (b :: x :: l)) with (prev b = hash_field p /\ no b = no p + 1 /\ linked b (x :: l)). tauto.
Qed.
Lemma end_root_last_block r L x : end_root r (L ++ [x]) = root x.
Proof. revert r. induction L as [|b L IH]; intros r; simpl; auto. Qed.

(** normal form of an availability witness: either the tip is on the main chain, or the
    witness starts at the fork point (no block of the branch is on the main chain) which lies
    strictly below the tip of the main chain *)
Lemma avail_normal n t : Inv n -> Struct n -> avail n t ->
  (no t <= no (best n)) \/
  exists f L L', mainb (dur n) (no f) = Some f /\ no f < no (best n) /\ lib n <= no f /\
    linked f L /\ L = L' ++ [t] /\ (forall c, In c L -> stored n c) /\ nonmain n L /\
    valid_chain apply (root f) L.
Proof.
  intros I S (f & L & L' & Hf & Hfle & Hlib & Hl & EL & Hst & Hv).
  revert f L' Hf Hfle Hlib Hl EL Hst Hv.
  induction L as [|c L IH]; intros f L' Hf Hfle Hlib Hl EL Hst Hv.
  - destruct L'; discriminate.
  - destruct Hl as (H1 & H2 & H3). destruct Hv as (V1 & V2).
    assert (Sc : stored n c) by (apply Hst; left; reflexivity).
    destruct (N.le_gt_cases (no c) (no (best n))) as [Hle|Hgt].
    + destruct (main_total _ _ _ _ _ I (no c) Hle) as (m & Hm).
      destruct (N.eq_dec (hash_field c) (hash_field m)) as [E|NE].
      * (* c is on the main chain: move the fork point up *)
        assert (c = m) by (eapply stored_eq; eauto using main_stored). subst m.
        destruct L as [|c2 L2].
        -- left. destruct L' as [|? [|? ?]]; try discriminate. simpl in EL. inversion EL; subst. exact Hle.
        -- destruct L' as [|x L'']; [discriminate|]. simpl in EL. inversion EL; subst x.
           eapply (IH c L''); eauto; try lia.
           intros; apply Hst; right; auto.
      * right. exists f, (c :: L), L'.
        assert (Hflt : no f < no (best n)).
        { destruct (N.eq_dec (no f) (no (best n))) as [Ef|]; [|lia]. exfalso.
          assert (f = best n).
          { rewrite Ef in Hf. rewrite (i_best _ _ _ _ _ I) in Hf. inversion Hf. reflexivity. }
          subst f. apply (s_tip _ S c Sc H1). exact H2. }
        split; [exact Hf|]. split; [exact Hflt|]. split; [exact Hlib|]. split; [simpl; auto|]. split; [exact EL|].
        split; [exact Hst|]. split; [|simpl; auto].
        intros x m' [<-|Hx] Hxle Hm'.
        -- rewrite Hm in Hm'. inversion Hm'; subst m'. exact NE.
        -- eapply (linked_nonmain n I L c Sc H3); eauto.
           ++ intros; apply Hst; right; auto.
           ++ intros _ Hcm. rewrite Hm in Hcm. inversion Hcm; subst m. apply NE. reflexivity.
    + right. exists f, (c :: L), L'.
      assert (Hflt : no f < no (best n)).
      { destruct (N.eq_dec (no f) (no (best n))) as [Ef|]; [|lia]. exfalso.
        assert (f = best n).
        { rewrite Ef in Hf. rewrite (i_best _ _ _ _ _ I) in Hf. inversion Hf. reflexivity. }
        subst f. apply (s_tip _ S c Sc H1). exact H2. }
      split; [exact Hf|]. split; [exact Hflt|]. split; [exact Hlib|]. split; [simpl; auto|]. split; [exact EL|].
      split; [exact Hst|]. split; [|simpl; auto].
      intros x m Hx Hxle Hm.
      pose proof (linked_no_gt f (c :: L) x (conj H1 (conj H2 H3)) Hx).
      destruct Hx as [<-|Hx]; [lia|].
      pose proof (linked_no_gt c L x H3 Hx). lia.
Qed.

(** ** what one step adds to the block store *)
Definition fresh (n : node) (x : block) : Prop := get_block (dur n) (hash_field x) = None.

Lemma store_side_added n b id x : get_block (dur (store_side n b)) id = Some x ->
  get_block (dur n) id = Some x \/ x = b.
Proof.
  unfold get_block. simpl. rewrite store_unit_reads. simpl.
  destruct (hash_field b =? id) eqn:E; auto.
  destruct (hash_field b =? id); intros H; inversion H; auto.
Qed.

Lemma connect_main_added n b n' id x : connect_main apply n b = Some n' ->
  get_block (dur n') id = Some x -> get_block (dur n) id = Some x \/ x = b.
Proof.
  intros Hc. unfold connect_main in Hc. destruct (execute_block apply n b) as [n1|] eqn:Ex; [|discriminate].
  inversion Hc; subst n'; clear Hc.
  destruct (execute_block_frame _ _ _ _ Ex) as (Hok & _ & _ & _ & _ & _ & Ff & _).
  unfold exec_ok in Hok. destruct (apply (sdb_root n) b) as [r'|] eqn:Eap; [|discriminate].
  destruct (apply_fresh _ _ _ Eap) as (Hnd & _).
  destruct (connect_unit_reads (dur n1) b Hnd) as (_ & _ & RB & _).
  unfold get_block. simpl. rewrite RB.
  destruct (hash_field b =? id) eqn:E.
  - rewrite E. intros H; inversion H; auto.
  - rewrite Ff by (intros; discriminate). auto.
Qed.

Lemma fresh_dec n x : {fresh n x} + {exists y, get_block (dur n) (hash_field x) = Some y}.
Proof. unfold fresh. destruct (get_block (dur n) (hash_field x)); eauto. Qed.

Lemma not_fresh_stored n x : Inv n -> U x -> ~ fresh n x -> stored n x.
Proof.
  intros I Ux H. unfold fresh in H. destruct (get_block (dur n) (hash_field x)) as [y|] eqn:E; [|contradiction H; reflexivity].
  destruct (inv_stored_U apply spent U g n _ _ I E) as (Uy & Hy).
  assert (y = x) by (apply U_inj; auto). subst y. exact E.
Qed.

(** a stored child of a fresh block is fresh *)
Lemma child_of_fresh n n' c x : Inv n -> Struct n -> Inv n' -> no g = 0 ->
  (forall y, stored n y -> stored n' y) ->
  stored n' c -> fresh n c -> stored n' x -> prev x = hash_field c -> no x = no c + 1 -> fresh n x.
Proof.
  intros I S I' Hg Hmono Sc Fc Sx Hp Hn.
  destruct (fresh_dec n x) as [F|(y & Hy)]; auto. exfalso.
  assert (Sxn : stored n x).
  { apply not_fresh_stored; eauto using stored_U. unfold fresh. rewrite Hy. discriminate. }
  destruct (s_parent _ S x Sxn) as [->|(p & Sp & Hph)].
  - lia.
  - assert (p = c) by (eapply (stored_eq n'); eauto; congruence). subst p.
    unfold fresh in Fc. unfold stored in Sp. congruence.
Qed.

Lemma linked_all_fresh n n' : Inv n -> Struct n -> Inv n' -> no g = 0 ->
  (forall y, stored n y -> stored n' y) ->
  forall L c, linked c L -> stored n' c -> fresh n c -> (forall x, In x L -> stored n' x) ->
  forall x, In x L -> fresh n x.
Proof.
  intros I S I' Hg Hmono. induction L as [|y L IH]; intros c Hl Sc Fc Hst x Hx; [contradiction|].
  destruct Hl as (H1 & H2 & H3).
  assert (Fy : fresh n y) by (eapply (child_of_fresh n n' c y); eauto; apply Hst; left; reflexivity).
  destruct Hx as [<-|Hx]; auto.
  eapply (IH y); eauto. apply Hst; left; reflexivity. intros; apply Hst; right; auto.
Qed.

(** in a stored linked chain whose tip is old, every block is old *)
Lemma old_tip_all_old n n' : Inv n -> Struct n -> Inv n' -> no g = 0 ->
  (forall y, stored n y -> stored n' y) ->
  forall L L' f t, linked f L -> L = L' ++ [t] -> (forall x, In x L -> stored n' x) -> stored n t ->
  forall x, In x L -> stored n x.
Proof.
  intros I S I' Hg Hmono L L' f t Hl EL Hst St x Hx.
  destruct (fresh_dec n x) as [F|(y & Hy)].
  - exfalso. (* then the tip, a descendant of x, would be fresh *)
    apply in_split in Hx. destruct Hx as (L1 & L2 & E).
    rewrite E in Hl, Hst. rewrite E in EL. clear E.
    apply linked_app in Hl. destruct Hl as (_ & Hl2). simpl in Hl2. destruct Hl2 as (_ & _ & Hl2).
    assert (Ft : fresh n t).
    { revert Hl2 EL Hst. destruct L2 as [|z L2'] using rev_ind; intros Hl2 EL Hst.
      - assert (x = t) by (apply app_inj_tail in EL; tauto).
        subst x. exact F.
      - clear IHL2'.
        assert (z = t).
        { rewrite app_comm_cons, app_assoc in EL. apply app_inj_tail in EL. tauto. }
        subst z.
        eapply (linked_all_fresh n n' I S I' Hg Hmono (L2' ++ [t]) x Hl2); eauto.
        + apply Hst. apply in_or_app. right. left. reflexivity.
        + intros w Hw. apply Hst. apply in_or_app. right. right. exact Hw.
        + apply in_or_app. right. left. reflexivity. }
    unfold fresh in Ft. unfold stored in St. congruence.
  - apply not_fresh_stored; auto.
    + eapply stored_U; eauto.
    + unfold fresh. rewrite Hy. discriminate.
Qed.

(** ** Struct is preserved by the two storing steps *)
Lemma struct_store_side n b : Inv n -> Struct n -> U b ->
  (exists p, stored n p /\ hash_field p = prev b) ->
  (prev b = hash_field (best n) -> no b <> no (best n) + 1) ->
  Struct (store_side n b).
Proof.
  intros I S Ub (p & Sp & Hp) Htip.
  destruct (store_side_inv apply spent U U_inj g n b I Ub) as (I1 & B1 & _ & _ & _ & _ & GB & GBb & _).
  constructor.
  - intros x Sx. destruct (store_side_added n b _ _ Sx) as [Sxn| ->].
    + destruct (s_parent _ S x Sxn) as [->|(q & Sq & Hq)]; auto. right. exists q. split; auto. apply GB. exact Sq.
    + right. exists p. split; auto. apply GB. exact Sp.
  - rewrite B1. intros x Sx. destruct (store_side_added n b _ _ Sx) as [Sxn| ->]; auto.
    apply (s_tip _ S x Sxn).
Qed.

Lemma struct_connect_main n b n1 : Inv n -> Struct n -> U b -> fresh n b -> no g = 0 ->
  prev b = hash_field (best n) -> no b = no (best n) + 1 ->
  connect_main apply n b = Some n1 -> Struct n1.
Proof.
  intros I S Ub Fb Hg Hp Hn Hc.
  destruct (connect_main_inv apply spent apply_fresh apply_spent U U_inj g _ _ _ I Ub Hp Hn Hc) as (I1 & B1 & _ & _ & _ & GB & GBb).
  pose proof (main_stored n _ _ I (i_best _ _ _ _ _ I)) as Sbest.
  constructor.
  - intros x Sx. destruct (connect_main_added n b n1 _ _ Hc Sx) as [Sxn| ->].
    + destruct (s_parent _ S x Sxn) as [->|(q & Sq & Hq)]; auto. right. exists q. split; auto. apply GB. exact Sq.
    + right. exists (best n). split; auto. apply GB. exact Sbest.
  - rewrite B1. intros x Sx Hpx. destruct (connect_main_added n b n1 _ _ Hc Sx) as [Sxn| ->].
    + destruct (s_parent _ S x Sxn) as [->|(q & Sq & Hq)]; [lia|].
      exfalso. assert (q = b).
      { eapply (stored_eq n1); eauto. apply GB. exact Sq. congruence. }
      subst q. unfold fresh in Fb. unfold stored in Sq. congruence.
    + lia.
Qed.

Lemma struct_set_orphans n l : Struct n -> Struct (set_orphans n l).
Proof. intros S. destruct S. constructor; auto. Qed.

(** a parked child of a fresh block is fresh *)
Lemma orphan_child_fresh n n1 b o : Inv n -> Struct n -> Inv n1 -> no g = 0 -> U b -> U o ->
  fresh n b -> stored n1 b ->
  (forall y, stored n y -> stored n1 y) ->
  (forall id x, get_block (dur n1) id = Some x -> get_block (dur n) id = Some x \/ x = b) ->
  prev o = hash_field b -> no o = no b + 1 -> fresh n1 o.
Proof.
  intros I S I1 Hg Ub Uo Fb Sb Hmono Hadd Hp Hn.
  destruct (fresh_dec n1 o) as [F|(y & Hy)]; auto. exfalso.
  assert (So1 : stored n1 o).
  { apply not_fresh_stored; auto. unfold fresh. rewrite Hy. discriminate. }
  destruct (Hadd _ _ So1) as [Son|E].
  - destruct (s_parent _ S o Son) as [->|(q & Sq & Hq)]; [lia|].
    assert (q = b) by (eapply (stored_eq n1); eauto; congruence). subst q.
    unfold fresh in Fb. unfold stored in Sq. congruence.
  - subst o. lia.
Qed.

Lemma fresh_mono n n1 x : (forall id y, get_block (dur n) id = Some y -> get_block (dur n1) id = Some y) ->
  fresh n1 x -> fresh n x.
Proof.
  intros GB F. unfold fresh in *. destruct (get_block (dur n) (hash_field x)) as [y|] eqn:E; auto.
  rewrite (GB _ _ E) in F. discriminate.
Qed.

(** ** orphan-resolution runs: which blocks they add *)
Lemma run_side_fresh fuel : forall n b lst0 n' last',
  Inv n -> Struct n -> no g = 0 -> U b -> fresh n b ->
  (exists p, stored n p /\ hash_field p = prev b) ->
  (prev b = hash_field (best n) -> no b <> no (best n) + 1) ->
  run_chain apply fuel false n b lst0 = (n', true, last') ->
  Struct n' /\ stored n' b /\ fresh n last' /\
  (forall x, stored n' x -> fresh n x ->
     no b <= no x /\ no x <= no last' /\
     exists P, linked x P /\ last P x = last' /\ forall c, In c P -> stored n' c) /\
  (find_orphan (orphans n) (hash_field b) = None -> forall x, stored n' x -> fresh n x -> x = b).
Proof.
  induction fuel as [|f IH]; intros n b lst0 n' last' I S Hg Ub Fb Hpar Htip Hr; simpl in Hr; [discriminate|].
  destruct (store_side_inv apply spent U U_inj g n b I Ub) as (I1 & B1 & O1 & _ & _ & _ & GB1 & GBb & _).
  pose proof (struct_store_side n b I S Ub Hpar Htip) as S1.
  set (n1 := store_side n b) in *.
  assert (Add1 : forall x, stored n1 x -> stored n x \/ x = b) by (intros x Hx; apply (store_side_added n b _ _ Hx)).
  unfold resolve_orphan in Hr.
  destruct (find_orphan (orphans n1) (hash_field b)) as [o|] eqn:Ef.
  - destruct (no b + 1 =? no o) eqn:En; [|discriminate]. apply N.eqb_eq in En.
    destruct (find_orphan_In _ _ _ Ef) as (Hin & Hpo).
    assert (Uo : U o) by (apply (i_orph _ _ _ _ _ I1); exact Hin).
    set (n2 := set_orphans n1 (remove_orphan (orphans n1) (hash_field b))) in *.
    assert (I2 : Inv n2).
    { apply inv_set_orphans; auto. intros x Hx. apply (i_orph _ _ _ _ _ I1). eapply remove_orphan_In; eauto. }
    assert (S2 : Struct n2) by (apply struct_set_orphans; exact S1).
    assert (Fo : fresh n2 o).
    { change (fresh n1 o).
      apply (orphan_child_fresh n n1 b o I S I1 Hg Ub Uo Fb GBb); auto; try lia.
      - intros y Hy. apply GB1. exact Hy.
      - intros id x Hx. apply (store_side_added n b _ _ Hx). }
    assert (Tip2 : prev o = hash_field (best n2) -> no o <> no (best n2) + 1).
    { intros E. exfalso. simpl in E. try rewrite B1 in E.
      pose proof (main_stored n _ _ I (i_best _ _ _ _ _ I)) as Sbest.
      assert (best n = b).
      { eapply (stored_eq n1); eauto. apply GB1. exact Sbest. congruence. }
      unfold fresh in Fb. rewrite <- H in Fb. unfold stored in Sbest. congruence. }
    destruct (IH n2 o b n' last' I2 S2 Hg Uo Fo ltac:(exists b; split; [exact GBb|auto]) Tip2 Hr)
      as (S' & So & Fl2 & Hfr & _).
    assert (Fl : fresh n last') by (apply (fresh_mono n n2); [exact GB1|exact Fl2]).
    destruct (run_chain_inv apply spent apply_fresh apply_spent U U_inj g f false n2 o b n' true last' I2 Uo ltac:(intros; discriminate) Hr)
      as (I' & _ & _ & _ & GB' & _).
    assert (Sb' : stored n' b) by (apply GB'; exact GBb).
    destruct (Hfr o So Fo) as (_ & Hol & (Po & Pl & Plast & Pst)).
    split; [exact S'|]. split; [exact Sb'|]. split; [exact Fl|]. split.
    + intros x Sx Fx.
      destruct (fresh_dec n2 x) as [F2|(y & Hy)].
      * destruct (Hfr x Sx F2) as (A & B & C). split; [lia|]. split; auto.
      * assert (Sx1 : stored n1 x).
        { apply not_fresh_stored; eauto using stored_U. unfold fresh. change (dur n1) with (dur n2). rewrite Hy. discriminate. }
        destruct (Add1 x Sx1) as [Sxn| ->].
        -- unfold fresh in Fx. unfold stored in Sxn. congruence.
        -- split; [lia|]. split; [lia|].
           exists (o :: Po). split; [simpl; auto|]. split.
           ++ simpl. destruct Po; auto. rewrite <- Plast. apply last_default. discriminate.
           ++ intros c [<-|Hc]; auto.
    + intros Hnone. exfalso. rewrite <- O1 in Hnone. fold n1 in Hnone. congruence.
  - inversion Hr; subst n' last'; clear Hr.
    split; [exact S1|]. split; [exact GBb|]. split; [exact Fb|]. split.
    + intros x Sx Fx. destruct (Add1 x Sx) as [Sxn| ->].
      * unfold fresh in Fx. unfold stored in Sxn. congruence.
      * split; [lia|]. split; [lia|]. exists []. simpl. split; [exact Logic.I|]. split; [reflexivity|]. intros c [].
    + intros _ x Sx Fx. destruct (Add1 x Sx) as [Sxn| ->]; auto.
      unfold fresh in Fx. unfold stored in Sxn. congruence.
Qed.

Lemma run_main_fresh fuel : forall n b lst0 n' ok last',
  Inv n -> Struct n -> no g = 0 -> U b -> fresh n b ->
  prev b = hash_field (best n) -> no b = no (best n) + 1 ->
  run_chain apply fuel true n b lst0 = (n', ok, last') ->
  Struct n' /\
  forall x, stored n' x -> fresh n x -> mainb (dur n') (no x) = Some x /\ no x <= no (best n').
Proof.
  induction fuel as [|f IH]; intros n b lst0 n' ok last' I S Hg Ub Fb Hp Hn Hr; simpl in Hr.
  - inversion Hr; subst. split; auto. intros x Sx Fx. unfold fresh in Fx. unfold stored in Sx. congruence.
  - destruct (connect_main apply n b) as [n1|] eqn:Ec.
    2:{ inversion Hr; subst. split; auto. intros x Sx Fx. unfold fresh in Fx. unfold stored in Sx. congruence. }
    destruct (connect_main_inv apply spent apply_fresh apply_spent U U_inj g _ _ _ I Ub Hp Hn Ec) as (I1 & B1 & O1 & _ & _ & GB1 & GBb).
    pose proof (struct_connect_main n b n1 I S Ub Fb Hg Hp Hn Ec) as S1.
    assert (Add1 : forall x, stored n1 x -> stored n x \/ x = b) by (intros x Hx; apply (connect_main_added n b n1 _ _ Ec Hx)).
    assert (Base : forall x, stored n1 x -> fresh n x -> mainb (dur n1) (no x) = Some x /\ no x <= no (best n1)).
    { intros x Sx Fx. destruct (Add1 x Sx) as [Sxn| ->].
      - unfold fresh in Fx. unfold stored in Sxn. congruence.
      - split; [|rewrite B1; lia]. pose proof (i_best _ _ _ _ _ I1) as Hbb. rewrite B1 in Hbb. exact Hbb. }
    unfold resolve_orphan in Hr.
    destruct (find_orphan (orphans n1) (hash_field b)) as [o|] eqn:Ef.
    2:{ inversion Hr; subst. split; auto. }
    destruct (no b + 1 =? no o) eqn:En.
    2:{ inversion Hr; subst. split; auto. }
    apply N.eqb_eq in En. destruct (find_orphan_In _ _ _ Ef) as (Hin & Hpo).
    assert (Uo : U o) by (apply (i_orph _ _ _ _ _ I1); exact Hin).
    set (n2 := set_orphans n1 (remove_orphan (orphans n1) (hash_field b))) in *.
    assert (I2 : Inv n2).
    { apply inv_set_orphans; auto. intros x Hx. apply (i_orph _ _ _ _ _ I1). eapply remove_orphan_In; eauto. }
    assert (S2 : Struct n2) by (apply struct_set_orphans; exact S1).
    assert (Fo : fresh n2 o).
    { change (fresh n1 o).
      apply (orphan_child_fresh n n1 b o I S I1 Hg Ub Uo Fb GBb); auto; try lia.
      - intros y Hy. apply GB1. exact Hy.
      - intros id x Hx. apply (connect_main_added n b n1 _ _ Ec Hx). }
    assert (Hp2 : prev o = hash_field (best n2)) by (simpl; rewrite B1; exact Hpo).
    assert (Hn2 : no o = no (best n2) + 1) by (simpl; rewrite B1; lia).
    destruct (IH n2 o b n' ok last' I2 S2 Hg Uo Fo Hp2 Hn2 Hr) as (S' & Hfr).
    pose proof (run_chain_ext apply spent apply_fresh apply_spent U U_inj g f true n2 o b n' ok last' I2 Uo ltac:(intros _; split; assumption) Hr)
      as (E1 & E2 & _).
    destruct (run_chain_inv apply spent apply_fresh apply_spent U U_inj g f true n2 o b n' ok last' I2 Uo ltac:(intros _; split; assumption) Hr)
      as (I' & _).
    split; [exact S'|].
    intros x Sx Fx. destruct (fresh_dec n2 x) as [F2|(y & Hy)].
    + apply Hfr; auto.
    + assert (Sx1 : stored n1 x).
      { apply not_fresh_stored; eauto using stored_U. unfold fresh. change (dur n1) with (dur n2). rewrite Hy. discriminate. }
      destruct (Base x Sx1 Fx) as (M1 & L1).
      split.
      * rewrite E2; [exact M1|]. exact L1.
      * simpl in L1. destruct E1 as [E1|E1]; [rewrite E1|]; simpl in *; lia.
Qed.

Lemma height_above_none n k : Inv n -> no (best n) < k -> mainb (dur n) k = None.
Proof. intros I H. unfold mainb, get_block_by_no, get_hash_by_no. rewrite (i_above _ _ _ _ _ I _ H). reflexivity. Qed.

(** the heights a main-chain run adds hold fresh blocks *)
Lemma run_main_above fuel : forall n b lst0 n' ok last',
  Inv n -> Struct n -> no g = 0 -> U b -> fresh n b ->
  prev b = hash_field (best n) -> no b = no (best n) + 1 ->
  run_chain apply fuel true n b lst0 = (n', ok, last') ->
  forall k x, no (best n) < k -> mainb (dur n') k = Some x -> fresh n x.
Proof.
  induction fuel as [|f IH]; intros n b lst0 n' ok last' I S Hg Ub Fb Hp Hn Hr k x Hk Hx; simpl in Hr.
  - inversion Hr; subst. rewrite (height_above_none _ _ I Hk) in Hx. discriminate.
  - destruct (connect_main apply n b) as [n1|] eqn:Ec.
    2:{ inversion Hr; subst. rewrite (height_above_none _ _ I Hk) in Hx. discriminate. }
    destruct (connect_main_inv apply spent apply_fresh apply_spent U U_inj g _ _ _ I Ub Hp Hn Ec) as (I1 & B1 & O1 & _ & _ & GB1 & GBb).
    pose proof (struct_connect_main n b n1 I S Ub Fb Hg Hp Hn Ec) as S1.
    assert (Base : forall k x, no (best n) < k -> mainb (dur n1) k = Some x -> fresh n x).
    { intros k0 x0 Hk0 Hx0. destruct (N.eq_dec k0 (no b)) as [->|Hne].
      - pose proof (i_best _ _ _ _ _ I1) as Hbb. rewrite B1 in Hbb. rewrite Hbb in Hx0. inversion Hx0; subst. exact Fb.
      - rewrite (height_above_none n1 k0 I1) in Hx0; [discriminate|]. rewrite B1. lia. }
    unfold resolve_orphan in Hr.
    destruct (find_orphan (orphans n1) (hash_field b)) as [o|] eqn:Ef.
    2:{ inversion Hr; subst. eapply Base; eauto. }
    destruct (no b + 1 =? no o) eqn:En.
    2:{ inversion Hr; subst. eapply Base; eauto. }
    apply N.eqb_eq in En. destruct (find_orphan_In _ _ _ Ef) as (Hin & Hpo).
    assert (Uo : U o) by (apply (i_orph _ _ _ _ _ I1); exact Hin).
    set (n2 := set_orphans n1 (remove_orphan (orphans n1) (hash_field b))) in *.
    assert (I2 : Inv n2).
    { apply inv_set_orphans; auto. intros y Hy. apply (i_orph _ _ _ _ _ I1). eapply remove_orphan_In; eauto. }
    assert (S2 : Struct n2) by (apply struct_set_orphans; exact S1).
    assert (Fo : fresh n2 o).
    { change (fresh n1 o).
      apply (orphan_child_fresh n n1 b o I S I1 Hg Ub Uo Fb GBb); auto; try lia.
      - intros y Hy. apply GB1. exact Hy.
      - intros id y Hy. apply (connect_main_added n b n1 _ _ Ec Hy). }
    assert (Hp2 : prev o = hash_field (best n2)) by (simpl; rewrite B1; exact Hpo).
    assert (Hn2 : no o = no (best n2) + 1) by (simpl; rewrite B1; lia).
    pose proof (run_chain_ext apply spent apply_fresh apply_spent U U_inj g f true n2 o b n' ok last' I2 Uo ltac:(intros _; split; assumption) Hr)
      as (_ & E2 & _).
    destruct (N.le_gt_cases k (no (best n2))) as [Hle|Hgt].
    + rewrite E2 in Hx by exact Hle. eapply Base; eauto.
    + apply (fresh_mono n n2); [exact GB1|]. eapply (IH n2 o b n' ok last'); eauto.
Qed.

(** ** helpers about gather / reorg *)
Lemma gather_of_branch n f L L' top : Inv n ->
  mainb (dur n) (no f) = Some f -> no f < no (best n) ->
  linked f L -> L = L' ++ [top] -> (forall c, In c L -> stored n c) -> nonmain n L ->
  no (best n) < no top ->
  exists olds, gather (S (N.to_nat (no top))) (dur n) (no (best n)) top [] [] = Some (f, rev L, olds).
Proof.
  intros I Hf Hflt Hl EL Hst Hnm Htop.
  assert (Hd : dlinked top (rev L' ++ [f])) by (eapply linked_dlinked; eauto).
  assert (ACC : acc_ok (dur n) (no (best n)) top top [] []).
  { unfold acc_ok. repeat split; simpl; auto; try contradiction.
    all: try (apply Hst; subst L; apply in_or_app; right; left; reflexivity).
    all: try (intros (k & H1 & H2 & _); lia).
    all: try (intros H; exfalso; apply H; reflexivity). }
  destruct (gather_exact U (dur n) (no (best n)) (fun id x H => inv_stored_U apply spent U g n id x I H)
              (main_total _ _ _ _ _ I)
              (rev L' ++ [f]) top top [] [] f ACC Hd) as (olds & G).
  - apply last_last.
  - intros y Hy. apply in_app_or in Hy. destruct Hy as [Hy|[<-|[]]].
    + apply Hst. subst L. apply in_or_app. left. apply in_rev. exact Hy.
    + eapply main_stored; eauto.
  - exact Hf.
  - exact Hflt.
  - exact Htop.
  - intros c m Hc. apply Hnm.
    change (top :: rev L' ++ [f]) with ((top :: rev L') ++ [f]) in Hc. rewrite removelast_last in Hc.
    subst L. destruct Hc as [<-|Hc]; [apply in_or_app; right; left; reflexivity|]. apply in_or_app. left. apply in_rev. exact Hc.
  - change (top :: rev L' ++ [f]) with ((top :: rev L') ++ [f]) in G. rewrite removelast_last in G.
    simpl app in G. exists olds. rewrite G. subst L. rewrite rev_unit. reflexivity.
Qed.

(** outcome of reorg: either the chain DB is untouched apart from state markers / receipts
    (gather error, LIB veto, failed rollforward), or the gathered branch has been installed *)
Lemma reorg_cases n top n' err :
  Inv n -> U top -> stored n top -> no (best n) < no top ->
  reorg apply true n top = (n', err) ->
  (best n' = best n /\ lib n' = lib n /\ orphans n' = orphans n /\ sdb_root n' = sdb_root n /\
   (forall k, (forall r, k <> KStateMarker r) -> (forall i m, k <> KReceipts i m) -> dur n' k = dur n k) /\
   (err = false -> exists st news olds,
        gather (S (N.to_nat (no top))) (dur n) (no (best n)) top [] [] = Some (st, news, olds) /\ no st < lib n)) \/
  (err = false /\ best n' = top /\ lib n' = lib n /\ orphans n' = orphans n /\
   (forall id, dur n' (KBlock id) = dur n (KBlock id)) /\
   exists st news, mainb (dur n) (no st) = Some st /\ lib n <= no st /\ no st < no (best n) /\
     linked st (rev news) /\ valid_chain apply (root st) (rev news) /\
     (forall c, In c news -> stored n c) /\
     (forall k, k <= no st -> mainb (dur n') k = mainb (dur n) k) /\
     (forall x, In x news <-> exists k, no st < k /\ k <= no top /\ mainb (dur n') k = Some x)).
Proof.
  intros I Ut Hst Hlt R. unfold reorg in R.
  destruct (gather (S (N.to_nat (no top))) (dur n) (no (best n)) top [] []) as [[[st news] olds]|] eqn:G.
  2:{ inversion R; subst. left. repeat split; auto. intros; discriminate. }
  assert (ACC : acc_ok (dur n) (no (best n)) top top [] []).
  { unfold acc_ok. repeat split; simpl; auto; try contradiction.
    all: try (intros (k & H1 & H2 & _); lia).
    all: try (intros H; exfalso; apply H; reflexivity). }
  destruct (gather_spec U U_inj (dur n) (no (best n)) (fun id x H => inv_stored_U apply spent U g n id x I H)
              (fun k x H => inv_main_stored apply spent U g n k x I H) _ _ _ _ _ _ _ _ ACC G)
    as (Gst & Glt & Gne & Ghd & Glink & Gstored & Gdiff & Golds).
  destruct (no st <? lib n) eqn:El.
  { inversion R; subst. left. repeat split; auto. intros _. exists st, news, olds. split; auto. apply N.ltb_lt. exact El. }
  apply N.ltb_ge in El.
  destruct (rollforward apply (set_state n (root st)) (rev news)) as [n2 ok] eqn:RF.
  destruct (rollforward_frame apply _ _ _ _ RF) as (Fb & Fo & Fbad & Flib & Ff & Fm & Fr & Fok).
  simpl in Fb, Fo, Fbad, Flib, Ff, Fm, Fr.
  destruct ok.
  - inversion R; subst n' err; clear R. right.
    destruct (Fok eq_refl) as (Hv & _ & _). simpl in Hv.
    match goal with |- context [swap_chain n2 ?m top news olds false] =>
      destruct (swap_main n n2 m top news olds st Ff Gne Ghd Glink Gstored) as (Mold & Mnews);
      destruct (swap_chain_reads n2 m top news olds st Glink) as (Rb & _ & Ro & _ & Rlib & _ & _ & _ & RB & _) end.
    split; [reflexivity|]. split; [exact Rb|]. split; [rewrite Rlib; exact Flib|]. split; [rewrite Ro; exact Fo|].
    split; [intros id; rewrite RB; apply Ff; intros; discriminate|].
    exists st, news. repeat split; auto.
    + apply Mnews.
    + apply Mnews.
  - inversion R; subst n' err; clear R. left. simpl. repeat split; auto.
    + symmetry. apply (i_sdb _ _ _ _ _ I).
    + intros; discriminate.
Qed.

(** ** the invariant step *)
Lemma longest_frame n n' :
  (forall id, dur n' (KBlock id) = dur n (KBlock id)) -> (forall k, dur n' (KHeight k) = dur n (KHeight k)) ->
  best n' = best n -> lib n' = lib n -> Longest n -> Longest n'.
Proof.
  intros HB HH Hb Hl HL t (f & L & L' & Hf & Hfle & Hlib & Hlk & EL & Hst & Hv).
  rewrite Hb. apply HL. exists f, L, L'.
  assert (GBe : forall id, get_block (dur n') id = get_block (dur n) id) by (intros; apply get_block_ext; auto).
  assert (Me : forall k, mainb (dur n') k = mainb (dur n) k) by (intros; apply mainb_ext; auto).
  rewrite Me in Hf. rewrite Hb in Hfle. rewrite Hl in Hlib.
  repeat split; auto. intros c Hc. rewrite <- GBe. apply Hst. exact Hc.
Qed.
Lemma struct_frame n n' :
  (forall id, dur n' (KBlock id) = dur n (KBlock id)) -> best n' = best n -> Struct n -> Struct n'.
Proof.
  intros HB Hb S.
  assert (GBe : forall x, stored n' x <-> stored n x).
  { intros x. unfold stored. rewrite (get_block_ext (dur n) (dur n')) by auto. tauto. }
  constructor.
  - intros x Sx. apply GBe in Sx. destruct (s_parent _ S x Sx) as [->|(p & Sp & Hp)]; auto.
    right. exists p. split; auto. apply GBe. exact Sp.
  - rewrite Hb. intros x Sx. apply GBe in Sx. apply (s_tip _ S x Sx).
Qed.

(** a witness in the new state whose tip is an old block and whose fork point lies on the old
    main chain is a witness in the old state *)
Lemma old_witness n n1 t : Inv n -> Struct n -> Inv n1 -> no g = 0 -> Longest n ->
  (forall y, stored n y -> stored n1 y) ->
  (forall k, k <= no (best n) -> mainb (dur n1) k = mainb (dur n) k) -> lib n1 = lib n ->
  forall f L L', mainb (dur n1) (no f) = Some f -> no f <= no (best n) -> lib n1 <= no f ->
    linked f L -> L = L' ++ [t] -> (forall c, In c L -> stored n1 c) -> valid_chain apply (root f) L ->
    stored n t -> no t <= no (best n).
Proof.
  intros I S I1 Hg HL Hmono HM Hlib f L L' Hf Hfle Hl Hlk EL Hst Hv St.
  apply HL. exists f, L, L'. rewrite HM in Hf by exact Hfle. rewrite Hlib in Hl.
  repeat split; auto.
  eapply (old_tip_all_old n n1 I S I1 Hg Hmono L L' f t); eauto.
Qed.

Lemma in_last_app {A} (L' : list A) t : In t (L' ++ [t]).
Proof. apply in_or_app. right. left. reflexivity. Qed.

Theorem longest_step n b :
  Inv n -> Struct n -> Longest n -> no g = 0 -> U b -> (f27 = true \/ no b <> 0) ->
  (snd (add_block apply true f27 orphan_cap n b) = RErr -> find_orphan (orphans n) (hash_field b) = None) ->
  Struct (fst (add_block apply true f27 orphan_cap n b)) /\ Longest (fst (add_block apply true f27 orphan_cap n b)).
Proof.
  intros I S HL Hg Ub Hn0 Hgood. unfold add_block in *.
  destruct (mem (hash_field b) (bad n)); [split; assumption|].
  destruct (get_block (dur n) (hash_field b)) as [bb|] eqn:Efresh; [split; assumption|].
  assert (Fb : fresh n b) by exact Efresh.
  assert (Core : Struct (fst (fst (add_block_internal apply true f27 orphan_cap n b))) /\
                 Longest (fst (fst (add_block_internal apply true f27 orphan_cap n b)))).
  { unfold add_block_internal in *.
    destruct (get_block (dur n) (prev b)) as [p|] eqn:Ep.
    2:{ simpl. split.
        - destruct S. constructor; auto.
        - eapply (longest_frame n); eauto. }
    destruct (inv_stored_U apply spent U g n _ _ I Ep) as (Up & Hph).
    assert (Sp : stored n p) by (unfold stored; rewrite Hph; exact Ep).
    destruct (is_main_chain f27 n b) as [main|] eqn:Em; [|split; assumption].
    destruct (run_chain apply (Datatypes.S (length (orphans n))) main n b b) as [[n1 ok] last] eqn:RC.
    destruct main.
    - (* main-chain run *)
      destruct (is_main_chain_true apply f27 spent U g n b I Em Hn0) as (Hp & Hn).
      destruct (run_main_fresh _ _ _ _ _ _ _ I S Hg Ub Fb Hp Hn RC) as (S1 & Hfr).
      pose proof (run_main_above _ _ _ _ _ _ _ I S Hg Ub Fb Hp Hn RC) as Habove.
      destruct (run_chain_inv apply spent apply_fresh apply_spent U U_inj g _ true _ _ _ _ _ _ I Ub ltac:(intros _; split; assumption) RC)
        as (I1 & _ & L1 & _ & GB1 & _).
      pose proof (run_chain_ext apply spent apply_fresh apply_spent U U_inj g _ true _ _ _ _ _ _ I Ub ltac:(intros _; split; assumption) RC)
        as (E1 & E2 & _ & El).
      assert (Hble : no (best n) <= no (best n1)) by (destruct E1 as [->|]; lia).
      assert (HL1 : Longest n1).
      { intros t (f & L & L' & Hf & Hfle & Hlib & Hlk & EL & Hst & Hv).
        assert (St1 : stored n1 t) by (apply Hst; rewrite EL; apply in_last_app).
        destruct (fresh_dec n t) as [Ft|(y & Hy)].
        - apply Hfr; auto.
        - assert (St : stored n t).
          { apply not_fresh_stored; eauto using stored_U. unfold fresh. rewrite Hy. discriminate. }
          destruct (N.le_gt_cases (no f) (no (best n))) as [Hle|Hgt].
          + pose proof (old_witness n n1 t I S I1 Hg HL (fun y Hy0 => GB1 _ _ Hy0) E2 El f L L' Hf Hle Hlib Hlk EL Hst Hv St). lia.
          + exfalso. pose proof (Habove _ _ Hgt Hf) as Ff.
            assert (Hall : forall x, In x L -> stored n x).
            { eapply (old_tip_all_old n n1 I S I1 Hg (fun y Hy0 => GB1 _ _ Hy0) L L' f t); eauto. }
            destruct L as [|c1 L2]; [destruct L'; discriminate|].
            destruct Hlk as (H1 & H2 & _).
            assert (Sc1 : stored n c1) by (apply Hall; left; reflexivity).
            destruct (s_parent _ S c1 Sc1) as [->|(q & Sq & Hq)]; [lia|].
            assert (q = f).
            { eapply (stored_eq n1); eauto. apply GB1. exact Sq. eapply main_stored; eauto. congruence. }
            subst q. unfold fresh in Ff. unfold stored in Sq. congruence. }
      destruct ok; simpl; auto.
    - (* side-branch run *)
      assert (Htip : prev b = hash_field (best n) -> no b <> no (best n) + 1).
      { intros E. unfold is_main_chain in Em. rewrite (best_hash _ _ _ _ _ I) in Em.
        destruct ((f27 || (0 <? no b)) && negb (no b =? no (best n) + 1)) eqn:E2.
        - apply andb_true_iff in E2. destruct E2 as (_ & E2). apply negb_true_iff in E2. apply N.eqb_neq in E2. exact E2.
        - inversion Em as [E3]. apply N.eqb_neq in E3. contradiction. }
      destruct ok.
      2:{ (* the run stopped with an error: impossible unless an orphan was parked on b *)
          exfalso. simpl in Hgood. specialize (Hgood eq_refl).
          simpl in RC. unfold resolve_orphan in RC. simpl orphans in RC. rewrite Hgood in RC. inversion RC. }
      destruct (run_side_fresh _ _ _ _ _ _ I S Hg Ub Fb (ex_intro _ p (conj Sp Hph)) Htip RC) as (S1 & Sb1 & Flast & Hfr & Honly).
      destruct (run_chain_inv apply spent apply_fresh apply_spent U U_inj g _ false _ _ _ _ _ _ I Ub ltac:(intros; discriminate) RC)
        as (I1 & _ & L1 & Hb1 & GB1 & Hlast).
      specialize (Hb1 eq_refl). destruct (Hlast eq_refl) as (Ul & Sl).
      pose proof (run_chain_ext apply spent apply_fresh apply_spent U U_inj g _ false _ _ _ _ _ _ I Ub ltac:(intros; discriminate) RC)
        as (_ & E2 & _ & El).
      (* every available tip after the run is below the old best or fresh *)
      assert (P1 : forall t, avail n1 t -> no t <= no (best n) \/ (stored n1 t /\ fresh n t)).
      { intros t (f & L & L' & Hf & Hfle & Hlib & Hlk & EL & Hst & Hv).
        assert (St1 : stored n1 t) by (apply Hst; rewrite EL; apply in_last_app).
        destruct (fresh_dec n t) as [Ft|(y & Hy)]; [right; auto|]. left.
        assert (St : stored n t).
        { apply not_fresh_stored; eauto using stored_U. unfold fresh. rewrite Hy. discriminate. }
        rewrite Hb1 in Hfle.
        eapply (old_witness n n1 t I S I1 Hg HL (fun y Hy0 => GB1 _ _ Hy0) E2 El f L L'); eauto. }
      simpl negb. rewrite andb_true_l.
      destruct (no (best n1) <? no last) eqn:Elt.
      2:{ apply N.ltb_ge in Elt. simpl. split; [exact S1|].
          intros t Ha. destruct (P1 t Ha) as [H|(St & Ft)]; [rewrite Hb1; exact H|].
          destruct (Hfr t St Ft) as (_ & H & _). lia. }
      apply N.ltb_lt in Elt.
      assert (Elt' : no (best n) < no last) by (rewrite <- Hb1; exact Elt).
      destruct (reorg apply true n1 last) as [n2 err] eqn:R.
      destruct (reorg_cases n1 last n2 err I1 Ul Sl Elt R)
        as [(Rb & Rl & Ro & Rs & Rf & Rveto)|(Rerr & Rb & Rl & Ro & RB & st & news & Gst & Glib & Gstlt & Glink & Gv & Gstored & Mold & Mnews)].
      + (* the chain DB is unchanged *)
        assert (HB : forall id, dur n2 (KBlock id) = dur n1 (KBlock id)) by (intros; apply Rf; intros; discriminate).
        assert (HH : forall k, dur n2 (KHeight k) = dur n1 (KHeight k)) by (intros; apply Rf; intros; discriminate).
        assert (HL1 : Longest n1).
        { intros t Ha. destruct (P1 t Ha) as [H|(St & Ft)]; [rewrite Hb1; exact H|].
          destruct (N.le_gt_cases (no t) (no (best n1))) as [Hle|Hgt]; auto. exfalso.
          destruct (avail_normal n1 t I1 S1 Ha) as [H|(f & L & L' & Hf & Hflt & Hlib & Hlk & EL & Hst & Hnm & Hv)]; [lia|].
          destruct err.
          - (* an error: then no orphan had been parked on b, the run is just b *)
            simpl in Hgood. specialize (Hgood eq_refl).
            assert (t = b) by (apply Honly; auto). subst t.
            simpl in RC. unfold resolve_orphan in RC. simpl orphans in RC. rewrite Hgood in RC. inversion RC; subst n1 last.
            destruct (reorg_switches apply spent apply_fresh apply_spent U U_inj g (store_side n b) f L L' b I1 Hf Hflt Hlib Hlk EL Hst Hnm Hv Hgt)
              as (n3 & R3 & Hb3 & _).
            rewrite R3 in R. inversion R.
          - (* no error and no switch: the LIB veto; but the branch forks at f >= LIB *)
            destruct (Rveto eq_refl) as (st & news & olds & G & Hveto).
            destruct (Hfr t St Ft) as (_ & Htl & P & Pl & Plast & Pst).
            assert (Ebranch : exists Lx, L ++ P = Lx ++ [last]).
            { destruct P as [|z P0] using rev_ind.
              - simpl in Plast. subst last. exists L'. rewrite app_nil_r. exact EL.
              - rewrite last_last in Plast. subst z. exists (L ++ P0). rewrite app_assoc. reflexivity. }
            destruct Ebranch as (Lx & ELx).
            assert (Hlk2 : linked f (L ++ P)).
            { apply linked_app. split; auto. rewrite EL, last_last. exact Pl. }
            destruct (gather_of_branch n1 f (L ++ P) Lx last I1 Hf Hflt Hlk2 ELx) as (olds2 & G2).
            + intros c Hc. apply in_app_or in Hc. destruct Hc; auto.
            + intros c m0 Hc Hle. apply in_app_or in Hc. destruct Hc as [Hc|Hc]; [apply Hnm; auto|].
              pose proof (linked_no_gt _ _ _ Pl Hc). lia.
            + exact Elt.
            + rewrite G2 in G. inversion G; subst st. lia. }
        assert (S2 : Struct n2) by (eapply struct_frame; eauto).
        assert (HL2 : Longest n2) by (eapply longest_frame; eauto).
        destruct err; simpl; auto.
      + (* the branch has been installed: best = last *)
        subst err. simpl.
        assert (GBe : forall x, stored n2 x <-> stored n1 x).
        { intros x. unfold stored. rewrite (get_block_ext (dur n1) (dur n2)) by auto. tauto. }
        split.
        * constructor.
          -- intros x Sx. apply GBe in Sx. destruct (s_parent _ S1 x Sx) as [->|(q & Sq & Hq)]; auto.
             right. exists q. split; auto. apply GBe. exact Sq.
          -- rewrite Rb. intros x Sx Hpx. apply GBe in Sx.
             destruct (fresh_dec n x) as [Fx|(y & Hy)].
             ++ destruct (Hfr x Sx Fx) as (_ & H & _). lia.
             ++ assert (Sxn : stored n x).
                { apply not_fresh_stored; eauto using stored_U. unfold fresh. rewrite Hy. discriminate. }
                destruct (s_parent _ S x Sxn) as [->|(q & Sq & Hq)]; [lia|]. exfalso.
                assert (q = last) by (eapply (stored_eq n1); eauto; [apply GB1; exact Sq|congruence]).
                subst q. unfold fresh in Flast. unfold stored in Sq. congruence.
        * intros t (f & L & L' & Hf & Hfle & Hlib & Hlk & EL & Hst & Hv).
          rewrite Rb in *.
          assert (Conc : avail n1 t -> no t <= no last).
          { intros Ha. destruct (P1 t Ha) as [H|(St & Ft)]; [lia|].
            destruct (Hfr t St Ft) as (_ & H & _). exact H. }
          assert (Hst1 : forall c, In c L -> stored n1 c) by (intros c Hc; apply GBe; apply Hst; exact Hc).
          destruct (N.le_gt_cases (no f) (no st)) as [Hle|Hgt].
          -- apply Conc. exists f, L, L'. rewrite Mold in Hf by exact Hle. rewrite Rl in Hlib.
             repeat split; auto. lia.
          -- assert (Hfin : In f (rev news)).
             { rewrite <- in_rev. apply Mnews. exists (no f). auto. }
             apply in_split in Hfin. destruct Hfin as (A & B & EAB).
             rewrite EAB in Glink, Gv.
             apply linked_app in Glink. destruct Glink as (GlA & GlB).
             apply valid_chain_app in Gv. destruct Gv as (GvA & GvB).
             apply Conc. exists st, ((A ++ [f]) ++ L), ((A ++ [f]) ++ L').
             split; [exact Gst|]. split; [lia|]. split; [exact Glib|]. split.
             ++ apply linked_app. split.
                ** apply linked_app. split; auto. simpl in GlB. simpl. tauto.
                ** rewrite last_last. exact Hlk.
             ++ split; [rewrite EL, app_assoc; reflexivity|]. split.
                ** intros c Hc. apply in_app_or in Hc. destruct Hc as [Hc|Hc]; [|apply Hst1; exact Hc].
                   apply Gstored. rewrite in_rev, EAB. apply in_app_or in Hc. apply in_or_app.
                   destruct Hc as [Hc|[<-|[]]]; [left; auto|right; left; reflexivity].
                ** apply valid_chain_app. split.
                   --- apply valid_chain_app. split; auto. simpl in GvB. simpl. tauto.
                   --- rewrite end_root_last_block. exact Hv. }
  destruct (add_block_internal apply true f27 orphan_cap n b) as [[n1 r] c].
  simpl in Core. destruct Core as (C1 & C2).
  destruct r; simpl; auto. destruct c; simpl; auto.
  split.
  - destruct C1. constructor; auto.
  - eapply (longest_frame n1); eauto.
Qed.

(** ** histories *)
Definition good_arrival (n : node) (lb : N * block) : Prop :=
  lib n <= fst lb /\ U (snd lb) /\ (f27 = true \/ no (snd lb) <> 0) /\
  (snd (add_block apply true f27 orphan_cap (set_lib n (fst lb)) (snd lb)) = RErr ->
   find_orphan (orphans n) (hash_field (snd lb)) = None).

(** every arrival reports a LIB at least as high as before (monotone input stream), delivers a
    block of U, and - the hypothesis that excludes the known finding - an arrival that pulls parked
    orphans in does not end in an error *)
Fixpoint good_history (n : node) (l : list (N * block)) : Prop :=
  match l with
  | [] => True
  | lb :: r => good_arrival n lb /\ good_history (arrive apply true f27 orphan_cap n lb) r
  end.

Lemma longest_set_lib n l : lib n <= l -> Longest n -> Longest (set_lib n l).
Proof.
  intros Hl HL t (f & L & L' & Hf & Hfle & Hlib & Hlk & EL & Hst & Hv).
  apply (HL t). exists f, L, L'. simpl in *. repeat split; auto. lia.
Qed.
Lemma struct_set_lib n l : Struct n -> Struct (set_lib n l).
Proof. intros S. destruct S. constructor; auto. Qed.

Theorem longest_history l : forall n,
  Inv n -> Struct n -> Longest n -> no g = 0 -> good_history n l ->
  Inv (history apply true f27 orphan_cap n l) /\ Struct (history apply true f27 orphan_cap n l) /\
  Longest (history apply true f27 orphan_cap n l).
Proof.
  induction l as [|lb r IH]; intros n I S HL Hg Hgood; simpl; auto.
  destruct Hgood as ((Hl & Ub & Hn0 & Herr) & Hrest).
  apply IH; auto.
  - unfold arrive. apply (add_block_inv apply orphan_cap f27 spent apply_fresh apply_spent U U_inj g); auto.
    apply inv_set_lib. exact I.
  - unfold arrive. apply longest_step; auto.
    + apply inv_set_lib. exact I.
    + apply struct_set_lib. exact S.
    + apply longest_set_lib; auto.
  - unfold arrive. apply longest_step; auto.
    + apply inv_set_lib. exact I.
    + apply struct_set_lib. exact S.
    + apply longest_set_lib; auto.
Qed.

Lemma init_blocks id x : txs g = [] -> get_block (dur (init_node g)) id = Some x -> x = g.
Proof.
  intros Htx. unfold get_block, init_node. simpl dur. unfold replay. simpl fold_left.
  unfold apply_unit. rewrite !apply_ops_lookup. unfold connect_unit. rewrite Htx.
  cbn [u_ops tx_ops lookup_ops state_unit fst snd dkey_eqb].
  destruct (hash_field g =? id); [|discriminate].
  destruct (hash_field g =? id); intros H; inversion H; reflexivity.
Qed.

Theorem longest_init : no g = 0 -> txs g = [] -> Struct (init_node g) /\ Longest (init_node g).
Proof.
  intros Hg Htx. split.
  - constructor.
    + intros x Sx. left. eapply init_blocks; eauto.
    + intros x Sx _. assert (x = g) by (eapply init_blocks; eauto). subst x. simpl. lia.
  - intros t (f & L & L' & Hf & Hfle & Hlib & Hlk & EL & Hst & Hv).
    destruct L as [|c L2]; [destruct L'; discriminate|].
    destruct Hlk as (_ & H2 & _).
    assert (c = g) by (eapply init_blocks; eauto; apply Hst; left; reflexivity).
    subst c. lia.
Qed.

End Longest.

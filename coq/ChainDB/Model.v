(** ChainDB model: executable Gallina mirror of
      /repo/chain/chainhandle.go  (addBlock, addBlockInternal, chainProcessor, executeBlock,
                                   connectToChain, resolveOrphan, getTx, getReceipts)
      /repo/chain/chaindb.go      (connectToChain, addTxsOfBlock, swapChainMapping, getBlock, ...)
      /repo/chain/reorg.go        (needReorg, gather, rollback, rollforward, swapChain, ...)
      /repo/chain/orphanpool.go   (addOrphan first-wins, capacity, removeOldest)
      /repo/chain/recover.go      (Recover, recoverNormal, recoverReorg, RecoverChainMapping)
      /repo/state/chain.go        (SetRoot / UpdateRoot: the volatile state root)
    No proofs in this file.

    Conventions.
    * A block is filed under [hash_field] exactly as the code does ([Block.BlockHash()] returns the
      sender supplied field when it is set, finding F8); [digest] is the abstract header digest.
    * Block execution is a Section function [apply : sroot -> block -> option sroot]: the root
      obtained by validating ([ValidateBlock]) and executing the block's transactions on a state
      root, [None] when validation/execution fails.  The header root check of [ValidatePost] is
      explicit in the model ([exec_ok]).
    * The LIB is an input ([lib] field, set by the environment before each arrival).
    * Every durable mutation is a WRITE UNIT (one committed DB transaction, one flushed bulk or a
      single set) appended to the ghost journal [jlog]; the durable store of the node is always
      the replay of the journal, so that C06 can cut the sequence anywhere.
    * [fix F7] marks the one place where the model follows the repaired code
      (fixes/F7_reorg_restore_state.diff); [f7_fixed = false] gives the behaviour of the
      unrepaired code. *)
From Coq Require Import NArith List Bool.
Import ListNotations.
Open Scope N_scope.

Definition bid := N.
Definition txid := N.
Definition sroot := N.

Record block := mkBlock {
  hash_field : bid;   (* identifier the block is filed under (Block.Hash) *)
  digest : bid;       (* calculateBlockHash() *)
  prev : bid;
  no : N;             (* header BlockNo: chosen by the sender *)
  txs : list txid;
  root : sroot        (* header BlocksRootHash *)
}.

Record marker := mkMarker {
  m_start : bid; m_start_no : N;
  m_best : bid; m_best_no : N;
  m_top : bid; m_top_no : N
}.

Inductive dkey :=
| KLatest | KHeight (n : N) | KBlock (id : bid) | KTx (t : txid)
| KReceipts (id : bid) (n : N) | KMarker | KStateMarker (r : sroot).

Inductive dval :=
| VNo (n : N) | VHash (id : bid) | VBlock (b : block) | VTxIdx (id : bid) (i : nat)
| VUnit | VMarker (m : marker).

Definition dkey_eqb (a b : dkey) : bool :=
  match a, b with
  | KLatest, KLatest => true
  | KHeight n, KHeight m => n =? m
  | KBlock i, KBlock j => i =? j
  | KTx i, KTx j => i =? j
  | KReceipts i n, KReceipts j m => (i =? j) && (n =? m)
  | KMarker, KMarker => true
  | KStateMarker r, KStateMarker s => r =? s
  | _, _ => false
  end.

Definition store := dkey -> option dval.
Definition empty_store : store := fun _ => None.

Definition op := (dkey * option dval)%type.      (* Some v = Set, None = Delete *)
Inductive ukind := USet | UTx | UBulk.
Inductive ustore := SChain | SState.
Record wunit := mkUnit { u_store : ustore; u_kind : ukind; u_ops : list op }.

Definition upd (d : store) (k : dkey) (v : option dval) : store :=
  fun k' => if dkey_eqb k k' then v else d k'.
Definition apply_ops (d : store) (ops : list op) : store :=
  fold_left (fun d o => upd d (fst o) (snd o)) ops d.
Definition apply_unit (d : store) (u : wunit) : store := apply_ops d (u_ops u).
Definition replay (d : store) (us : list wunit) : store := fold_left apply_unit us d.

Inductive event :=
| EvMemPoolDel (b : bid) | EvMemPoolPut (t : txid) | EvSyncStart (n : N).

Inductive result := RCached | RKnown | ROrphan | ROk | RErr.

Record node := mkNode {
  dur : store;
  best : block;          (* cdb.bestBlock; cdb.latest = no best *)
  sdb_root : sroot;      (* ChainStateDB root (volatile) *)
  orphans : list block;  (* orphan pool, insertion order, keyed by prev *)
  bad : list bid;        (* errBlocks *)
  lib : N;               (* last irreversible block number reported by consensus *)
  jlog : list wunit;     (* ghost: journal, most recent first *)
  evs : list event;      (* ghost: emitted messages, most recent first *)
  pmem : sroot           (* in-memory system parameters (contract/system: gas price, staking minimum,
                            name price, BP count), volatile: "the parameters stored in the state of
                            root [pmem]" *)
}.

Definition set_dur n d := mkNode d (best n) (sdb_root n) (orphans n) (bad n) (lib n) (jlog n) (evs n) (pmem n).
Definition set_best n b := mkNode (dur n) b (sdb_root n) (orphans n) (bad n) (lib n) (jlog n) (evs n) (pmem n).
Definition set_sdb n r := mkNode (dur n) (best n) r (orphans n) (bad n) (lib n) (jlog n) (evs n) (pmem n).
Definition set_orphans n o := mkNode (dur n) (best n) (sdb_root n) o (bad n) (lib n) (jlog n) (evs n) (pmem n).
Definition set_bad n l := mkNode (dur n) (best n) (sdb_root n) (orphans n) l (lib n) (jlog n) (evs n) (pmem n).
Definition set_lib n l := mkNode (dur n) (best n) (sdb_root n) (orphans n) (bad n) l (jlog n) (evs n) (pmem n).
Definition set_pmem n r := mkNode (dur n) (best n) (sdb_root n) (orphans n) (bad n) (lib n) (jlog n) (evs n) r.
(* the state root moves and the in-memory parameters follow it: a connected block commits the
   parameters it staged (consensus Update -> system.CommitParams(true)), a rollback reloads them
   from the state (ChainService.reloadSystemParams) *)
Definition set_state n r := set_pmem (set_sdb n r) r.
(* ChainService.reloadSystemParams / InitSystemParams at start: read from the current state root *)
Definition reload n := set_pmem n (sdb_root n).
Definition emit (n : node) (u : wunit) : node :=
  mkNode (apply_unit (dur n) u) (best n) (sdb_root n) (orphans n) (bad n) (lib n) (u :: jlog n) (evs n) (pmem n).
(* a unit with no operation is not a write (the journaling store drops it as well) *)
Definition emit_ne (n : node) (u : wunit) : node :=
  match u_ops u with [] => n | _ => emit n u end.
Definition tell (n : node) (e : event) : node :=
  mkNode (dur n) (best n) (sdb_root n) (orphans n) (bad n) (lib n) (jlog n) (e :: evs n) (pmem n).

(** ** Reads (chaindb.go) *)
Definition get_block (d : store) (id : bid) : option block :=
  match d (KBlock id) with
  | Some (VBlock b) => if hash_field b =? id then Some b else None
  | _ => None
  end.
Definition get_hash_by_no (d : store) (n : N) : option bid :=
  match d (KHeight n) with Some (VHash h) => Some h | _ => None end.
Definition get_block_by_no (d : store) (n : N) : option block :=
  match get_hash_by_no d n with Some h => get_block d h | None => None end.
Definition get_latest (d : store) : option N :=
  match d KLatest with Some (VNo n) => Some n | _ => None end.
Definition has_receipts (d : store) (id : bid) (n : N) : bool :=
  match d (KReceipts id n) with Some _ => true | None => false end.
Definition has_state_marker (d : store) (r : sroot) : bool :=
  match d (KStateMarker r) with Some _ => true | None => false end.
Definition get_marker (d : store) : option marker :=
  match d KMarker with Some (VMarker m) => Some m | _ => None end.

(** chainhandle.go:getTx — raw index entry, then the main-chain check *)
Inductive txstatus := TxAbsent | TxSide (id : bid) (i : nat) | TxMain (id : bid) (i : nat) | TxPanic.
Definition get_tx_raw (d : store) (t : txid) : option (block * nat) :=
  match d (KTx t) with
  | Some (VTxIdx id i) =>
      match get_block d id with
      | Some b => if Nat.ltb i (length (txs b)) then Some (b, i) else None
      | None => None
      end
  | _ => None
  end.
Definition get_tx (d : store) (t : txid) : txstatus :=
  match get_tx_raw d t with
  | None => TxAbsent
  | Some (b, i) =>
      match get_block_by_no d (no b) with
      | Some m => if hash_field m =? hash_field b then TxMain (hash_field b) i else TxSide (hash_field b) i
      | None => TxPanic     (* the code dereferences a nil block here; unreachable under Inv *)
      end
  end.
(** chainhandle.go:getReceipts(blockHash): block known, on the main chain, receipts stored *)
Definition get_receipts (d : store) (id : bid) : bool :=
  match get_block d id with
  | Some b =>
      match get_block_by_no d (no b) with
      | Some m => (hash_field m =? hash_field b) && has_receipts d (hash_field b) (no b)
      | None => false
      end
  | None => false
  end.

(** chainhandle.go:findAncestor (used by the syncer): the first listed hash that names a stored block
    which is on the main chain at its number *)
Definition on_main (d : store) (h : bid) : bool :=
  match get_block d h with
  | Some b => match get_hash_by_no d (no b) with Some h' => h' =? hash_field b | None => false end
  | None => false
  end.
Definition find_ancestor (d : store) (hs : list bid) : option block :=
  match find (on_main d) hs with Some h => get_block d h | None => None end.

(** ** Write units *)
Fixpoint tx_ops (id : bid) (i : nat) (l : list txid) : list op :=
  match l with
  | [] => []
  | t :: l' => (KTx t, Some (VTxIdx id i)) :: tx_ops id (S i) l'
  end.
(* chainProcessor.connectToChain: one DB transaction *)
Definition connect_unit (b : block) : wunit :=
  mkUnit SChain UTx ((KBlock (hash_field b), Some (VBlock b))
                     :: (KLatest, Some (VNo (no b)))
                     :: (KHeight (no b), Some (VHash (hash_field b)))
                     :: tx_ops (hash_field b) 0 (txs b)).
(* chainProcessor.addBlock (side branch): one DB transaction *)
Definition store_unit (b : block) : wunit :=
  mkUnit SChain UTx [(KBlock (hash_field b), Some (VBlock b))].
(* BlockState.Commit: one bulk on the state store, the marker of the root is part of it *)
Definition state_unit (r : sroot) : wunit :=
  mkUnit SState UBulk [(KStateMarker r, Some VUnit)].
(* writeReceiptsAndOperations: one DB transaction, only when there are receipts *)
Definition receipts_unit (b : block) : wunit :=
  mkUnit SChain UTx (match txs b with [] => [] | _ => [(KReceipts (hash_field b) (no b), Some VUnit)] end).
Definition marker_write_unit (m : marker) : wunit := mkUnit SChain UTx [(KMarker, Some (VMarker m))].
Definition marker_delete_unit : wunit := mkUnit SChain UTx [(KMarker, None)].
Definition del_receipts_unit (olds : list block) : wunit :=
  mkUnit SChain UTx (map (fun b => (KReceipts (hash_field b) (no b), None)) olds).
Definition txmap_unit (b : block) : wunit := mkUnit SChain UTx (tx_ops (hash_field b) 0 (txs b)).
Definition txdel_unit (ts : list txid) : wunit := mkUnit SChain UBulk (map (fun t => (KTx t, None)) ts).
(* chaindb.go:swapChainMapping: one bulk; [news] oldest first *)
Definition heights_unit (news : list block) (top : block) : wunit :=
  mkUnit SChain UBulk (map (fun b => (KHeight (no b), Some (VHash (hash_field b)))) news
                       ++ [(KLatest, Some (VNo (no top)))]).

Definition mem (x : N) (l : list N) : bool := existsb (N.eqb x) l.
(* first occurrence order, duplicates dropped *)
Fixpoint dedup (l : list N) : list N :=
  match l with
  | [] => []
  | x :: l' => if mem x l' then dedup l' else x :: dedup l'
  end.

(** errBlocks: lru.Cache of dfltErrBlocks = 128 entries; Add moves an existing key to the front and
    evicts the oldest entry beyond the capacity; Contains does not touch recency. *)
Definition bad_cap : nat := 128.
Definition bad_add (id : bid) (l : list bid) : list bid :=
  if mem id l then id :: filter (fun x => negb (x =? id)) l else firstn bad_cap (id :: l).

Section WithApply.
Variable apply : sroot -> block -> option sroot.
Variable f7_fixed : bool.
Variable f27_fixed : bool.    (* fixes/F27_blockno_zero.diff: isMainChain no longer skips the height test for number 0 *)
Variable orphan_cap : nat.   (* OrphanPool.maxCnt *)

(** executeBlock of one block on the current state root (main-chain connection and
    rollforward).  Failure leaves the node untouched. *)
Definition exec_ok (r : sroot) (b : block) : bool :=
  match apply r b with Some r' => r' =? root b | None => false end.

(** The block is executed with the in-memory system parameters.  When they are the ones of the
    state the block is executed on ([pmem n = sdb_root n], clause [i_params] of the invariant) the
    outcome is [apply]; with stale parameters the node computes something else than the producer
    of the block did: the model takes the worst case, the block is rejected (state root mismatch). *)
Definition execute_block (n : node) (b : block) : option node :=
  if (pmem n =? sdb_root n) && exec_ok (sdb_root n) b then
    let n1 := emit n (state_unit (root b)) in          (* BlockState.Commit *)
    let n2 := set_state n1 (root b) in                 (* sdb.UpdateRoot; cs.Update: CommitParams(true) *)
    let n3 := emit_ne n2 (receipts_unit b) in          (* writeReceiptsAndOperations *)
    Some (tell n3 (EvMemPoolDel (hash_field b)))       (* notifyEvents *)
  else None.

(** chainProcessor.execute: executeBlock + connectToChain *)
Definition connect_main (n : node) (b : block) : option node :=
  match execute_block n b with
  | Some n1 => Some (set_best (emit n1 (connect_unit b)) b)
  | None => None
  end.

Definition store_side (n : node) (b : block) : node := emit n (store_unit b).

(** chaindb.go:isMainChain *)
Definition is_main_chain (n : node) (b : block) : option bool :=
  let bestno := no (best n) in
  if (f27_fixed || (0 <? no b)) && negb (no b =? bestno + 1) then Some false
  else match get_hash_by_no (dur n) bestno with
       | Some h => Some (prev b =? h)
       | None => None
       end.

(** orphanpool.go *)
Definition find_orphan (l : list block) (p : bid) : option block :=
  find (fun o => prev o =? p) l.
Definition remove_orphan (l : list block) (p : bid) : list block :=
  filter (fun o => negb (prev o =? p)) l.
Definition add_orphan (l : list block) (b : block) : list block :=
  match find_orphan l (prev b) with
  | Some _ => l                                        (* first wins *)
  | None =>
      let l' := if Nat.eqb (length l) orphan_cap then tl l else l in   (* removeOldest *)
      l' ++ [b]
  end.

(** chainhandle.go:resolveOrphan *)
Inductive resolved := ResNone | ResBadNo | ResSome (o : block).
Definition resolve_orphan (n : node) (b : block) : resolved :=
  match find_orphan (orphans n) (hash_field b) with
  | None => ResNone
  | Some o => if no b + 1 =? no o then ResSome o else ResBadNo
  end.

(** chainProcessor.run for a block received from the network: apply, then keep connecting
    parked children.  [main] is decided once, for the starting block.  Returns the node,
    success flag and the last block applied. *)
Fixpoint run_chain (fuel : nat) (main : bool) (n : node) (b : block) (last : block)
  : node * bool * block :=
  match fuel with
  | O => (n, false, last)
  | S f =>
      let r := if main then connect_main n b else Some (store_side n b) in
      match r with
      | None => (n, false, last)
      | Some n1 =>
          match resolve_orphan n1 b with
          | ResNone => (n1, true, b)
          | ResBadNo => (n1, false, b)
          | ResSome o => run_chain f main (set_orphans n1 (remove_orphan (orphans n1) (hash_field b))) o b
          end
      end
  end.

(** ** Reorganisation (reorg.go) *)

(** gather: walk the branch downwards from [cur]; [news]/[olds] accumulate newest first, as the
    code's slices do.  Returns (branch root, new blocks newest first, old blocks newest first). *)
Fixpoint gather (fuel : nat) (d : store) (bestno : N) (cur : block) (news olds : list block)
  : option (block * list block * list block) :=
  match fuel with
  | O => None
  | S f =>
      let step (olds' : list block) :=
        if no cur =? 0 then None                               (* ErrNotExistBranchRoot *)
        else match get_block d (prev cur) with
             | None => None
             | Some p => if no cur - 1 =? no p
                         then gather f d bestno p (news ++ [cur]) olds'
                         else None                              (* errMsgInvalidOldBlock *)
             end in
      if no cur <=? bestno then
        match get_block_by_no d (no cur) with
        | None => None                                          (* errMsgNoBlock *)
        | Some m =>
            if hash_field cur =? hash_field m then
              if bestno =? no cur then None                     (* ErrInvalidBranchRoot *)
              else match news, olds with
                   | [], _ | _, [] => None                      (* ErrGatherChain *)
                   | _, _ => Some (cur, news, olds)
                   end
            else step (olds ++ [m])
        end
      else step olds
  end.

Fixpoint rollforward (n : node) (news_oldest_first : list block) : node * bool :=
  match news_oldest_first with
  | [] => (n, true)
  | b :: l =>
      match execute_block n b with
      | Some n1 => rollforward n1 l
      | None => (n, false)
      end
  end.

Definition new_txs (news : list block) : list txid := concat (map txs news).
Definition old_only_txs (olds news : list block) : list txid :=
  filter (fun t => negb (mem t (new_txs news))) (dedup (concat (map txs olds))).

(** swapChain; [news]/[olds] newest first *)
Definition swap_chain (n : node) (m : marker) (top : block) (news olds : list block)
  (already_swapped : bool) : node :=
  let n1 := emit n (marker_write_unit m) in
  let n2 := emit_ne n1 (del_receipts_unit olds) in
  let n3 := fold_left (fun n b => emit_ne n (txmap_unit b)) (rev news) n2 in
  let ret := old_only_txs olds news in
  let n4 := emit_ne n3 (txdel_unit ret) in
  let n5 := fold_left (fun n t => tell n (EvMemPoolPut t)) ret n4 in
  let n6 := if already_swapped then n5
            else set_best (emit n5 (heights_unit (rev news) top)) top in
  emit n6 marker_delete_unit.

(** ChainService.reorg (not in recovery).  Result: node, error flag (true = an error is
    returned to addBlockInternal, i.e. ErrReorg), *)
Definition reorg (n : node) (top : block) : node * bool :=
  let bestno := no (best n) in
  match gather (S (N.to_nat (no top))) (dur n) bestno top [] [] with
  | None => (n, true)
  | Some (brstart, news, olds) =>
      if no brstart <? lib n then (n, false)              (* ErrorConsensus: swallowed *)
      else
        let m := mkMarker (hash_field brstart) (no brstart)
                          (hash_field (best n)) (no (best n))
                          (hash_field top) (no top) in
        let n1 := set_state n (root brstart) in             (* rollback; reloadSystemParams (F41) *)
        match rollforward n1 (rev news) with
        | (n2, false) =>
            (* F7: the unrepaired code leaves the state root inside the new branch *)
            ((if f7_fixed then set_state n2 (root (best n)) else n2), true)
        (* the final reloadSystemParams is the identity here: every block rolled forward has
           committed its own parameters ([reorg_pmem] in Params.v); it matters in [recover_tail] *)
        | (n2, true) => (swap_chain n2 m top news olds false, false)
        end
  end.

(** addBlockInternal + addBlock *)
Definition add_block_internal (n : node) (b : block) : node * result * bool (* cache *) :=
  match get_block (dur n) (prev b) with
  | None =>                                                    (* isOrphan *)
      (tell (set_orphans n (add_orphan (orphans n) b)) (EvSyncStart (no b)), ROrphan, false)
  | Some _ =>
      match is_main_chain n b with
      | None => (n, RErr, true)
      | Some main =>
          match run_chain (S (length (orphans n))) main n b b with
          | (n1, false, _) => (n1, RErr, true)
          | (n1, true, last) =>
              if negb main && (no (best n1) <? no last) then       (* reorganize / needReorg *)
                match reorg n1 last with
                | (n2, true) => (n2, RErr, true)
                | (n2, false) => (n2, ROk, true)
                end
              else (n1, ROk, true)
          end
      end
  end.

Definition add_block (n : node) (b : block) : node * result :=
  if mem (hash_field b) (bad n) then (n, RCached)
  else match get_block (dur n) (hash_field b) with
       | Some _ => (n, RKnown)                                   (* IsConnectedBlock *)
       | None =>
           match add_block_internal n b with
           | (n1, RErr, true) => (set_bad n1 (bad_add (hash_field b) (bad n1)), RErr)
           | (n1, r, _) => (n1, r)
           end
       end.

(** *** pre-checks of addBlockInternal and blocks produced by the node itself *)
(** VerifyTimestamp / VerifySign are consensus oracles: the environment decides their outcome for
    each delivery.  A timestamp failure is transient and is NOT negatively cached, a signature
    failure is. *)
Inductive precheck := PreOk | PreTimestamp | PreSign.

(** a block handed over by the local block factory together with its executed block state
    (usedBState != nil): rejected as stale unless it extends the current best block; never parked;
    no orphan resolution (chainProcessor.run for isByBP); the block state is only committed
    (commitOnly) after ValidatePost, which the model expresses by [exec_ok] on the current root *)
Definition add_own_block_internal (n : node) (b : block) : node * result * bool :=
  match is_main_chain n b with
  | None => (n, RErr, true)
  | Some main =>
      let r := if main then connect_main n b else Some (store_side n b) in
      match r with
      | None => (n, RErr, true)
      | Some n1 =>
          if negb main && (no (best n1) <? no b) then
            match reorg n1 b with
            | (n2, true) => (n2, RErr, true)
            | (n2, false) => (n2, ROk, true)
            end
          else (n1, ROk, true)
      end
  end.

Definition add_block_gen (own : bool) (pre : precheck) (n : node) (b : block) : node * result :=
  if mem (hash_field b) (bad n) then (n, RCached)
  else match get_block (dur n) (hash_field b) with
       | Some _ => (n, RKnown)
       | None =>
           match pre with
           | PreTimestamp => (n, RErr)                                   (* errBlockTimestamp, cache = false *)
           | _ =>
               if own && negb (prev b =? hash_field (best n)) then (n, RErr)   (* errBlockStale, cache = false *)
               else match pre with
                    | PreSign => (set_bad n (bad_add (hash_field b) (bad n)), RErr)
                    | _ =>
                        if own then
                          match add_own_block_internal n b with
                          | (n1, RErr, true) => (set_bad n1 (bad_add (hash_field b) (bad n1)), RErr)
                          | (n1, r, _) => (n1, r)
                          end
                        else add_block n b
                    end
           end
       end.

(** *** consensus configuration: a consensus with a write-ahead log (raftv2: HasWAL() = true)
    The consensus writes the body of a block it agreed on into the chain DB (ChainDB.WriteRaftEntry,
    one DB transaction; the raft log entries of that transaction are not modelled) BEFORE it hands
    the block to the chain service.  chainProcessor.connectToChain then skips the body for the blocks
    that came through the block factory together with their block state
    ([cp.isByBP && cp.HasWAL()]); every other block (network, sync, a raft follower's commit with
    bstate = nil) is connected WITH its body, WAL or not. *)
Definition connect_unit_nobody (b : block) : wunit :=
  mkUnit SChain UTx ((KLatest, Some (VNo (no b)))
                     :: (KHeight (no b), Some (VHash (hash_field b)))
                     :: tx_ops (hash_field b) 0 (txs b)).
Definition connect_main_cfg (skip_body : bool) (n : node) (b : block) : option node :=
  match execute_block n b with
  | Some n1 => Some (set_best (emit n1 (if skip_body then connect_unit_nobody b else connect_unit b)) b)
  | None => None
  end.
Definition wal_write (n : node) (b : block) : node := store_side n b.
(** raftv2 BlockFactory.IsConnectedBlock: the block of that height on the main chain has this hash *)
Definition is_connected_wal (n : node) (b : block) : bool :=
  match get_block_by_no (dur n) (no b) with
  | Some x => hash_field x =? hash_field b
  | None => false
  end.
Definition add_own_block_internal_cfg (has_wal : bool) (n : node) (b : block) : node * result * bool :=
  match is_main_chain n b with
  | None => (n, RErr, true)
  | Some main =>
      let r := if main then connect_main_cfg has_wal n b else Some (store_side n b) in
      match r with
      | None => (n, RErr, true)
      | Some n1 =>
          if negb main && (no (best n1) <? no b) then
            match reorg n1 b with
            | (n2, true) => (n2, RErr, true)
            | (n2, false) => (n2, ROk, true)
            end
          else (n1, ROk, true)
      end
  end.
(** one delivery under a consensus configuration: [has_wal] is the configuration, [walpre] says
    that the consensus pre-wrote the body of this block ([own -> walpre] is the contract of the WAL
    consensus), [own]/[pre] as in [add_block_gen] *)
Definition add_block_cfg (has_wal walpre own : bool) (pre : precheck) (n0 : node) (b : block) : node * result :=
  let n := if has_wal && walpre then wal_write n0 b else n0 in
  if mem (hash_field b) (bad n) then (n, RCached)
  else if (if has_wal then is_connected_wal n b
           else match get_block (dur n) (hash_field b) with Some _ => true | None => false end)
  then (n, RKnown)
  else match pre with
       | PreTimestamp => (n, RErr)
       | _ =>
           if own && negb (prev b =? hash_field (best n)) then (n, RErr)
           else match pre with
                | PreSign => (set_bad n (bad_add (hash_field b) (bad n)), RErr)
                | _ =>
                    match (if own then add_own_block_internal_cfg has_wal n b else add_block_internal n b) with
                    | (n1, RErr, true) => (set_bad n1 (bad_add (hash_field b) (bad n1)), RErr)
                    | (n1, r, _) => (n1, r)
                    end
                end
       end.

(** An arrival: the environment first reports the current LIB. *)
Definition arrive (n : node) (lb : N * block) : node :=
  fst (add_block (set_lib n (fst lb)) (snd lb)).
Definition history (n : node) (l : list (N * block)) : node := fold_left arrive l n.

(** ** Start-up (chainservice.go NewChainService/Core.init, recover.go) *)

(** genesis: addGenesisBlock (one transaction) after SetGenesis committed the state *)
Definition init_node (g : block) : node :=
  let d := replay empty_store [state_unit (root g); connect_unit g] in
  mkNode d g (root g) [] [] 0 [] [] (root g).

(** gatherReco: blocks from [top] down to (excluding) height [startno], newest first *)
Fixpoint gather_down (fuel : nat) (d : store) (startno : N) (cur : block) : option (list block) :=
  match fuel with
  | O => None
  | S f =>
      if startno <? no cur then
        match get_block d (prev cur) with
        | Some p => match gather_down f d startno p with
                    | Some l => Some (cur :: l)
                    | None => None
                    end
        | None => None
        end
      else Some []
  end.

(** RecoverChainMapping: one bulk restoring the height index of the old branch *)
Fixpoint old_heights (fuel : nat) (d : store) (startno : N) (cur : block) : option (list op) :=
  match fuel with
  | O => None
  | S f =>
      if startno <? no cur then
        match get_block d (prev cur) with
        | Some p =>
            if no cur =? no p + 1 then
              match old_heights f d startno p with
              | Some l => Some ((KHeight (no cur), Some (VHash (hash_field cur))) :: l)
              | None => None
              end
            else None                                           (* ErrInvalidPrevHash *)
        | None => None
        end
      else Some []
  end.
Fixpoint del_heights (cnt : nat) (from : N) : list op :=      (* from, from-1, ... *)
  match cnt with
  | O => []
  | S c => (KHeight from, None) :: del_heights c (from - 1)
  end.

Inductive start_result := StartOk (n : node) | StartErr (n : node).

(** executeBlockReco *)
Definition execute_block_reco (n : node) (b : block) : option node :=
  if has_state_marker (dur n) (root b) then Some (set_sdb n (root b)) else None.
Fixpoint rollforward_reco (n : node) (news_oldest_first : list block) : node * bool :=
  match news_oldest_first with
  | [] => (n, true)
  | b :: l => match execute_block_reco n b with
              | Some n1 => rollforward_reco n1 l
              | None => (n, false)
              end
  end.

(** Recover with a reorg marker (recoverReorg -> reorg(top, marker)): [n1] is the node after
    loadChainData and RecoverChainMapping. *)
Definition recover_tail (n1 : node) (m : marker) : start_result :=
  (* sdb.Init at the (restored) best block; Recover *)
  let n2 := set_state n1 (root (best n1)) in             (* sdb.Init; InitSystemParams from that state *)
  if negb (hash_field (best n2) =? m_best m) then StartErr n2   (* ErrRecoInvalidBest *)
  else
  match get_block (dur n2) (m_top m), get_block (dur n2) (m_start m), get_block (dur n2) (m_best m) with
  | Some top, Some st, Some ob =>
      if (no top <=? no ob) || (no ob <=? no st) || (no top <=? no st) then StartErr n2
      else
      match gather_down (S (N.to_nat (no ob))) (dur n2) (no st) ob,
            gather_down (S (N.to_nat (no top))) (dur n2) (no st) top with
      | Some olds, Some news =>
          let n3 := set_state n2 (root st) in               (* rollback; reloadSystemParams (F41) *)
          (* executeBlockReco only moves the state root: no transaction is executed, nothing is
             staged, the in-memory parameters stay those of the branch root ... *)
          match rollforward_reco n3 (rev news) with
          | (n4, false) => StartErr (if f7_fixed then set_state n4 (root ob) else n4)
          | (n4, true) =>
              (* ... until the reloadSystemParams at the end of ChainService.reorg *)
              StartOk (reload (swap_chain n4 m top news olds (hash_field (best n4) =? hash_field top)))
          end
      | _, _ => StartErr n2
      end
  | _, _, _ => StartErr n2
  end.

(** RecoverChainMapping: restore the height index of the old branch when the swap had been flushed *)
Definition recover_chain_mapping (n0 : node) (m : marker) : option node :=
  if hash_field (best n0) =? m_best m then Some n0
  else match get_block (dur n0) (m_best m) with
       | None => None
       | Some ob =>
           match old_heights (S (N.to_nat (no ob))) (dur n0) (m_start_no m) ob with
           | None => None
           | Some hs =>
               let u := mkUnit SChain UBulk
                          (del_heights (N.to_nat (m_top_no m - m_best_no m)) (m_top_no m)
                           ++ hs ++ [(KLatest, Some (VNo (m_best_no m)))]) in
               Some (set_best (emit n0 u) ob)
           end
       end.

(** loadChainData; cdb.recover; sdb.Init(best); Recover.  The journal of the restarted node
    starts empty; volatile state (orphans, errBlocks, LIB) is lost. *)
Definition restart (d : store) : option start_result :=
  match get_latest d with
  | None => None
  | Some latest =>
    match get_block_by_no d latest with
    | None => None                                             (* ErrorLoadBestBlock *)
    | Some b0 =>
      let n0 := mkNode d b0 (root b0) [] [] 0 [] [] (root b0) in
      match get_marker d with
      | None => Some (StartOk n0)                              (* recoverNormal: root = best root by Init *)
      | Some m =>
        match recover_chain_mapping n0 m with
        | None => None
        | Some n1 => Some (recover_tail n1 m)
        end
      end
    end
  end.

(** crash after the first [k] write units of an operation that produced [us] from store [d] *)
Definition crash (k : nat) (d : store) (us : list wunit) : store := replay d (firstn k us).

(** units written by an operation, oldest first *)
Definition units_since (n0 n1 : node) : list wunit :=
  rev (firstn (length (jlog n1) - length (jlog n0)) (jlog n1)).

End WithApply.

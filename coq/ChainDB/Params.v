(** The in-memory system parameters ([pmem]) across a restart.

    A restart without reorg marker initialises them from the state of the best block.  A restart
    WITH a reorg marker redoes the reorganisation: RecoverChainMapping, rollback to the branch
    root (parameters reloaded there), then executeBlockReco for every block of the new branch,
    which only moves the state root.  [recovery_before_reload]: just before the last step of
    ChainService.reorg (reloadSystemParams) the parameters in memory are those of the branch
    root named by the marker while the state root is already the one of the new tip; the final
    reload is what re-establishes clause [i_params] of the invariant.  Without it the node
    rejects every further block ([Wal.stale_params_reject]) as soon as the two differ. *)
From Coq Require Import NArith List Bool Lia PeanoNat.
From Verif Require Import ChainDB.Model ChainDB.Basics ChainDB.Inv ChainDB.Reorg ChainDB.AddBlock ChainDB.Fork ChainDB.Crash ChainDB.CrashReorg.
Import ListNotations.
Open Scope N_scope.

Section Params.

Lemma rollforward_reco_pmem L : forall n n4 ok, rollforward_reco n L = (n4, ok) -> pmem n4 = pmem n.
Proof.
  induction L as [|b L IH]; intros n n4 ok H; simpl in H.
  - inversion H; subst. reflexivity.
  - unfold execute_block_reco in H. destruct (has_state_marker (dur n) (root b)).
    + rewrite (IH _ _ _ H). reflexivity.
    + inversion H; subst. reflexivity.
Qed.
Lemma rollforward_reco_sdb_dur L : forall n n4 ok, rollforward_reco n L = (n4, ok) -> dur n4 = dur n.
Proof.
  induction L as [|b L IH]; intros n n4 ok H; simpl in H.
  - inversion H; subst. reflexivity.
  - unfold execute_block_reco in H. destruct (has_state_marker (dur n) (root b)).
    + rewrite (IH _ _ _ H). reflexivity.
    + inversion H; subst. reflexivity.
Qed.

(** shape of a successful marker recovery *)
Lemma recover_tail_shape f7 n1 m r :
  recover_tail f7 n1 m = StartOk r ->
  exists r0 st0, get_block (dur n1) (m_start m) = Some st0 /\ r = reload r0 /\ pmem r0 = root st0.
Proof.
  unfold recover_tail. cbn [dur best set_state set_pmem set_sdb].
  destruct (negb (hash_field (best n1) =? m_best m)); [discriminate|].
  destruct (get_block (dur n1) (m_top m)) as [top|]; [|discriminate].
  destruct (get_block (dur n1) (m_start m)) as [st0|]; [|discriminate].
  destruct (get_block (dur n1) (m_best m)) as [ob|]; [|discriminate].
  destruct ((no top <=? no ob) || (no ob <=? no st0) || (no top <=? no st0)); [discriminate|].
  destruct (gather_down (S (N.to_nat (no ob))) (dur n1) (no st0) ob) as [olds|]; [|discriminate].
  destruct (gather_down (S (N.to_nat (no top))) (dur n1) (no st0) top) as [news|]; [|discriminate].
  match goal with |- context [rollforward_reco ?x ?l] => destruct (rollforward_reco x l) as [n4 ok] eqn:R end.
  destruct ok; [|discriminate].
  intros H. inversion H; subst r; clear H.
  eexists. exists st0. split; [reflexivity|]. split; [reflexivity|].
  rewrite swap_chain_pmem, (rollforward_reco_pmem _ _ _ _ R). reflexivity.
Qed.

Lemma old_heights_other fuel : forall d s cur l k, old_heights fuel d s cur = Some l ->
  (forall h, k <> KHeight h) -> lookup_ops l k = None.
Proof.
  induction fuel as [|f IH]; intros d s cur l k H Hk; [discriminate|].
  rewrite old_heights_unfold in H. destruct (s <? no cur).
  - destruct (get_block d (prev cur)) as [p|]; [|discriminate].
    destruct (no cur =? no p + 1); [|discriminate].
    destruct (old_heights f d s p) as [l'|] eqn:E; [|discriminate].
    inversion H; subst l; clear H. cbn [lookup_ops fst snd].
    rewrite (IH _ _ _ _ _ E Hk). rewrite dkey_eqb_neq; [reflexivity|]. intro E'. symmetry in E'. eapply Hk; eauto.
  - inversion H; subst. reflexivity.
Qed.

Lemma rcm_blocks n0 m n1 : recover_chain_mapping n0 m = Some n1 ->
  forall id, dur n1 (KBlock id) = dur n0 (KBlock id).
Proof.
  unfold recover_chain_mapping. destruct (hash_field (best n0) =? m_best m).
  - intros H; inversion H; subst. reflexivity.
  - destruct (get_block (dur n0) (m_best m)) as [ob|]; [|discriminate].
    destruct (old_heights (S (N.to_nat (no ob))) (dur n0) (m_start_no m) ob) as [hs|] eqn:E; [|discriminate].
    intros H; inversion H; subst n1; clear H. intros id.
    cbn [dur set_best emit]. unfold apply_unit. cbn [u_ops]. rewrite apply_ops_lookup.
    rewrite !lookup_ops_app. cbn [lookup_ops fst snd dkey_eqb].
    rewrite (old_heights_other _ _ _ _ _ _ E) by (intros; discriminate).
    rewrite del_heights_other by (intros; discriminate). reflexivity.
Qed.

(** Whenever a restart goes through the marker recovery, the node it returns is [reload r0] where
    [r0] carries the parameters of the marker's branch root and already the final state root. *)
Theorem recovery_before_reload f7 d m r :
  get_marker d = Some m -> restart f7 d = Some (StartOk r) ->
  exists r0 st0, get_block d (m_start m) = Some st0 /\ r = reload r0 /\
                 pmem r0 = root st0 /\ sdb_root r0 = sdb_root r /\ pmem r = sdb_root r.
Proof.
  intros Hm H. unfold restart in H.
  destruct (get_latest d) as [latest|]; [|discriminate].
  destruct (get_block_by_no d latest) as [b0|]; [|discriminate].
  rewrite Hm in H.
  match type of H with context [recover_chain_mapping ?x m] => destruct (recover_chain_mapping x m) as [n1|] eqn:RC end;
    [|discriminate].
  inversion H as [H1]; clear H.
  destruct (recover_tail_shape _ _ _ _ H1) as (r0 & st0 & G & -> & P).
  exists r0, st0. split.
  - rewrite <- G. symmetry. apply get_block_ext. apply (rcm_blocks _ _ _ RC).
  - repeat split; auto.
Qed.

End Params.

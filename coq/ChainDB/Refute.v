(** Concrete witnesses: the hypotheses of the C05 theorems are satisfiable by a non-trivial
    state; the unrepaired reorg (F7) and BlockNo 0 refute the unrestricted statement. *)
From Coq Require Import NArith List Bool Lia.
From Verif Require Import ChainDB.Model ChainDB.Basics ChainDB.Inv ChainDB.Reorg ChainDB.AddBlock.
Import ListNotations.
Open Scope N_scope.

Definition wg  := mkBlock 1 1 0 0 [] 10.
Definition wA1 := mkBlock 2 2 1 1 [] 11.
Definition wB1 := mkBlock 3 3 1 1 [] 12.
Definition wB2 := mkBlock 4 4 3 2 [] 99.     (* claims root 99, executes to 13: invalid *)
Definition wA2 := mkBlock 6 6 2 2 [] 15.     (* valid child of A1 *)
Definition wX  := mkBlock 5 5 2 0 [] 14.     (* child of A1 carrying BlockNo 0 *)

Definition wapply (r : sroot) (b : block) : option sroot :=
  match txs b with
  | _ :: _ => None
  | [] =>
      if (r =? 10) && (digest b =? 2) then Some 11
      else if (r =? 10) && (digest b =? 3) then Some 12
      else if (r =? 12) && (digest b =? 4) then Some 13
      else if (r =? 11) && (digest b =? 5) then Some 14
      else if (r =? 11) && (digest b =? 6) then Some 15
      else None
  end.
Definition wspent (r : sroot) (t : txid) : bool := false.
Definition wU (b : block) : Prop := In b [wg; wA1; wB1; wB2; wA2; wX].

Lemma wapply_fresh : forall r b r', wapply r b = Some r' ->
  NoDup (txs b) /\ forall t, In t (txs b) -> wspent r t = false.
Proof. intros r b r'. unfold wapply. destruct (txs b); [|discriminate]. intros _. split; [constructor|contradiction]. Qed.
Lemma wapply_spent : forall r b r' t, wapply r b = Some r' -> wspent r' t = wspent r t || mem t (txs b).
Proof. intros r b r' t. unfold wapply. destruct (txs b); [|discriminate]. reflexivity. Qed.
Lemma wU_inj : forall a b, wU a -> wU b -> hash_field a = hash_field b -> a = b.
Proof.
  unfold wU. intros a b Ha Hb.
  repeat (destruct Ha as [<-|Ha]; [|]); try contradiction;
    repeat (destruct Hb as [<-|Hb]; [|]); try contradiction; simpl; intros E; try reflexivity; discriminate.
Qed.

(** the node after G, A1 (main), B1 (side branch) *)
Definition wn : node := history wapply true false 100 (init_node wg) [(0, wA1); (0, wB1)].

Example wn_inv : Inv wapply wspent wU wg wn.
Proof.
  apply (history_inv wapply 100 false wspent wapply_fresh wapply_spent wU wU_inj wg).
  - apply inv_init; try reflexivity. left. reflexivity.
  - intros x [<-|[<-|[]]]; simpl; split; try (right; discriminate); unfold wU; simpl; auto.
Qed.
Example wn_nontrivial : no (best wn) = 1 /\ get_block (dur wn) 3 = Some wB1.
Proof. vm_compute. auto. Qed.

(** With the repaired reorg the invalid B2 leaves the invariant intact and A2 is accepted. *)
Example fixed_accepts_A2 :
  let n1 := fst (add_block wapply true false 100 wn wB2) in
  snd (add_block wapply true false 100 n1 wA2) = ROk /\ hash_field (best (fst (add_block wapply true false 100 n1 wA2))) = 6.
Proof. vm_compute. auto. Qed.

(** F7: on the unrepaired code the same arrival breaks the invariant (state root = root of B1
    while the best block is A1), and the valid A2 is then rejected. *)
Theorem add_block_inv_refuted :
  exists (apply : sroot -> block -> option sroot) (spent : sroot -> txid -> bool) (U : block -> Prop) (g : block) (n : node) (b : block),
    (forall r b r', apply r b = Some r' -> NoDup (txs b) /\ forall t, In t (txs b) -> spent r t = false) /\
    (forall r b r' t, apply r b = Some r' -> spent r' t = spent r t || mem t (txs b)) /\
    (forall a b, U a -> U b -> hash_field a = hash_field b -> a = b) /\
    Inv apply spent U g n /\ U b /\ no b <> 0 /\
    ~ Inv apply spent U g (fst (add_block apply false false 100 n b)).
Proof.
  exists wapply, wspent, wU, wg, wn, wB2.
  split; [exact wapply_fresh|]. split; [exact wapply_spent|]. split; [exact wU_inj|].
  split; [exact wn_inv|]. split; [unfold wU; simpl; auto|]. split; [discriminate|].
  intros I. pose proof (i_sdb _ _ _ _ _ I) as H. vm_compute in H. discriminate.
Qed.
Example unfixed_rejects_A2 :
  let n1 := fst (add_block wapply false false 100 wn wB2) in snd (add_block wapply false false 100 n1 wA2) = RErr.
Proof. vm_compute. reflexivity. Qed.

(** BlockNo 0: without the hypothesis [no b <> 0] the invariant fails even on the repaired
    code (isMainChain skips the height test for number 0). *)
Theorem add_block_inv_no0_refuted :
  exists (apply : sroot -> block -> option sroot) (spent : sroot -> txid -> bool) (U : block -> Prop) (g : block) (n : node) (b : block),
    (forall r b r', apply r b = Some r' -> NoDup (txs b) /\ forall t, In t (txs b) -> spent r t = false) /\
    (forall r b r' t, apply r b = Some r' -> spent r' t = spent r t || mem t (txs b)) /\
    (forall a b, U a -> U b -> hash_field a = hash_field b -> a = b) /\
    Inv apply spent U g n /\ U b /\ no b = 0 /\
    ~ Inv apply spent U g (fst (add_block apply true false 100 n b)).
Proof.
  exists wapply, wspent, wU, wg, wn, wX.
  split; [exact wapply_fresh|]. split; [exact wapply_spent|]. split; [exact wU_inj|].
  split; [exact wn_inv|]. split; [unfold wU; simpl; auto 10|]. split; [reflexivity|].
  intros I. pose proof (i_above _ _ _ _ _ I 1) as H.
  assert (E : no (best (fst (add_block wapply true false 100 wn wX))) = 0) by (vm_compute; reflexivity).
  rewrite E in H. specialize (H ltac:(lia)). vm_compute in H. discriminate.
Qed.

(** best_is_longest_available is false of the code: an orphan-resolution run whose parked tail is
    invalid (arrivals A1, B3(bad), B2, B1) leaves the node on the shorter chain although
    G-B1-B2 is stored, valid and longer (known finding C07:orphan-chain-invalid-tail-blocks-reorg). *)
From Coq Require Import NArith List Bool Lia.
From Verif Require Import ChainDB.Model ChainDB.Basics ChainDB.Inv ChainDB.Reorg ChainDB.AddBlock ChainDB.Fork ChainDB.Trace.
Import ListNotations.
Open Scope N_scope.

Definition xg  := mkBlock 1 1 0 0 [] 10.
Definition xA1 := mkBlock 2 2 1 1 [] 11.
Definition xB1 := mkBlock 3 3 1 1 [] 12.
Definition xB2 := mkBlock 7 7 3 2 [] 13.
Definition xB3 := mkBlock 8 8 7 3 [] 77.      (* does not execute to its header root *)

Definition xapply (r : sroot) (b : block) : option sroot :=
  match txs b with
  | _ :: _ => None
  | [] =>
      if (r =? 10) && (digest b =? 2) then Some 11
      else if (r =? 10) && (digest b =? 3) then Some 12
      else if (r =? 12) && (digest b =? 7) then Some 13
      else None
  end.
Definition xspent (r : sroot) (t : txid) : bool := false.
Definition xU (b : block) : Prop := In b [xg; xA1; xB1; xB2; xB3].

Lemma xapply_fresh : forall r b r', xapply r b = Some r' ->
  NoDup (txs b) /\ forall t, In t (txs b) -> xspent r t = false.
Proof. intros r b r'. unfold xapply. destruct (txs b); [|discriminate]. intros _. split; [constructor|contradiction]. Qed.
Lemma xapply_spent : forall r b r' t, xapply r b = Some r' -> xspent r' t = xspent r t || mem t (txs b).
Proof. intros r b r' t. unfold xapply. destruct (txs b); [|discriminate]. reflexivity. Qed.
Lemma xU_inj : forall a b, xU a -> xU b -> hash_field a = hash_field b -> a = b.
Proof.
  unfold xU. intros a b Ha Hb.
  repeat (destruct Ha as [<-|Ha]; [|]); try contradiction;
    repeat (destruct Hb as [<-|Hb]; [|]); try contradiction; simpl; intros E; try reflexivity; discriminate.
Qed.

Definition xhist : list (N * block) := [(0, xA1); (0, xB3); (0, xB2); (0, xB1)].
Definition xn : node := history xapply true true 100 (init_node xg) xhist.

Example xn_inv : Inv xapply xspent xU xg xn.
Proof.
  apply (history_inv xapply 100 true xspent xapply_fresh xapply_spent xU xU_inj xg).
  - apply inv_init; try reflexivity. left. reflexivity.
  - intros x [<-|[<-|[<-|[<-|[]]]]]; simpl; split; try discriminate; try (right; discriminate); unfold xU; simpl; auto 10.
Qed.

(** Full statement refuted: a reachable state (all arriving blocks honest-id, numbered > 0,
    LIB 0) in which a stored, fully valid branch is strictly longer than the main chain. *)
Theorem best_is_longest_available_refuted :
  exists (apply : sroot -> block -> option sroot) (spent : sroot -> txid -> bool) (U : block -> Prop) (g : block)
         (l : list (N * block)),
    (forall r b r', apply r b = Some r' -> NoDup (txs b) /\ forall t, In t (txs b) -> spent r t = false) /\
    (forall r b r' t, apply r b = Some r' -> spent r' t = spent r t || mem t (txs b)) /\
    (forall a b, U a -> U b -> hash_field a = hash_field b -> a = b) /\
    Inv apply spent U g (init_node g) /\ (forall x, In x l -> U (snd x) /\ no (snd x) <> 0) /\
    ~ Longest apply (history apply true true 100 (init_node g) l).
Proof.
  exists xapply, xspent, xU, xg, xhist.
  split; [exact xapply_fresh|]. split; [exact xapply_spent|]. split; [exact xU_inj|].
  split; [apply inv_init; try reflexivity; left; reflexivity|].
  split.
  { intros x [<-|[<-|[<-|[<-|[]]]]]; simpl; split; try discriminate; try (right; discriminate); unfold xU; simpl; auto 10. }
  intros HL. set (nn := history xapply true true 100 (init_node xg) xhist) in *.
  assert (A : avail xapply nn xB2).
  { exists xg, [xB1; xB2], [xB1].
    split; [vm_compute; reflexivity|]. split; [vm_compute; discriminate|]. split; [vm_compute; discriminate|].
    split; [vm_compute; auto|]. split; [reflexivity|]. split.
    - intros c [<-|[<-|[]]]; vm_compute; reflexivity.
    - vm_compute. auto. }
  specialize (HL _ A). vm_compute in HL. apply HL. reflexivity.
Qed.

(** crash_replay_converges is false for a crash during a reorganisation before the reorg marker:
    G-A1 main, B1 side, B2 arrives (reorg to B2).  Crash right after B2 was stored: the node
    restarts consistently on A1 with the longer branch stored; re-delivering B2 is answered
    "already connected" and the node stays on A1 (known finding
    C06:crash-before-reorg-marker-replay-does-not-reorganise). *)
Definition xm : node := history xapply true true 100 (init_node xg) [(0, xA1); (0, xB1)].
Example xm_inv : Inv xapply xspent xU xg xm.
Proof.
  apply (history_inv xapply 100 true xspent xapply_fresh xapply_spent xU xU_inj xg).
  - apply inv_init; try reflexivity. left. reflexivity.
  - intros x [<-|[<-|[]]]; simpl; split; try discriminate; try (right; discriminate); unfold xU; simpl; auto 10.
Qed.

Theorem crash_replay_converges_refuted :
  exists (apply : sroot -> block -> option sroot) (spent : sroot -> txid -> bool) (U : block -> Prop) (g : block)
         (n : node) (b : block) (k : nat),
    (forall r b r', apply r b = Some r' -> NoDup (txs b) /\ forall t, In t (txs b) -> spent r t = false) /\
    (forall r b r' t, apply r b = Some r' -> spent r' t = spent r t || mem t (txs b)) /\
    (forall a b, U a -> U b -> hash_field a = hash_field b -> a = b) /\
    Inv apply spent U g n /\ U b /\ no b <> 0 /\
    let n' := fst (add_block apply true true 100 n b) in
    hash_field (best n') = hash_field b /\
    match restart true (crash k (dur n) (units_since n n')) with
    | Some (StartOk r) =>
        snd (add_block apply true true 100 r b) = RKnown /\
        hash_field (best (fst (add_block apply true true 100 r b))) <> hash_field (best n')
    | _ => False
    end.
Proof.
  exists xapply, xspent, xU, xg, xm, xB2, 1%nat.
  split; [exact xapply_fresh|]. split; [exact xapply_spent|]. split; [exact xU_inj|].
  split; [exact xm_inv|]. split; [unfold xU; simpl; auto 10|]. split; [discriminate|].
  vm_compute. split; [reflexivity|]. split; [reflexivity|discriminate].
Qed.

(** The hypothesis of the invariant theorem (good_history) is satisfiable by a history with a side
    branch and a reorganisation; the refutation witness above violates it (its third arrival pulls
    the parked B3 in and ends in an error). *)
From Verif Require Import ChainDB.Longest.
Example good_history_example :
  good_history xapply 100 true xU (init_node xg) [(0, xA1); (0, xB1); (0, xB2)] /\
  hash_field (best (history xapply true true 100 (init_node xg) [(0, xA1); (0, xB1); (0, xB2)])) = 7.
Proof.
  split; [|vm_compute; reflexivity].
  simpl. unfold good_arrival. simpl fst. simpl snd.
  split; [split; [vm_compute; discriminate|split; [unfold xU; simpl; auto 10|split; [left; reflexivity|vm_compute; intros; discriminate]]]|].
  split; [split; [vm_compute; discriminate|split; [unfold xU; simpl; auto 10|split; [left; reflexivity|vm_compute; intros; discriminate]]]|].
  split; [split; [vm_compute; discriminate|split; [unfold xU; simpl; auto 10|split; [left; reflexivity|vm_compute; intros; discriminate]]]|].
  exact I.
Qed.

(** Partial flush INSIDE the bulk of RecoverChainMapping is not recoverable: the bulk first deletes
    the height entries of the new branch (from the top down) and writes Latest last; if only a
    prefix reaches the disk, Latest still names the new height whose mapping is gone and
    loadChainData fails (ErrorLoadBestBlock).  Witness: G-A1, side B1, B2 (reorg), crash after the
    height bulk of swapChainMapping, restart, crash after the first operation of the recovery bulk. *)
Theorem recover_chain_mapping_partial_flush_refuted :
  exists (apply : sroot -> block -> option sroot) (n : node) (b : block),
    let n' := fst (add_block apply true true 100 n b) in
    let us := units_since n n' in
    let c3 := crash (length us - 1) (dur n) us in
    match restart true c3 with
    | Some (StartOk r) =>
        hash_field (best r) = hash_field b /\
        match rev (jlog r) with
        | u :: _ => u_kind u = UBulk /\ restart true (apply_ops c3 (firstn 1 (u_ops u))) = None
        | [] => False
        end
    | _ => False
    end.
Proof.
  exists xapply, xm, xB2. vm_compute. split; [reflexivity|]. split; reflexivity.
Qed.

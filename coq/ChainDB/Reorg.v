(** Reorganisation: gather, rollforward, swapChain keep the C05 invariant. *)
From Coq Require Import NArith List Bool Lia PeanoNat.
From Verif Require Import ChainDB.Model ChainDB.Basics ChainDB.Inv.
Import ListNotations.
Open Scope N_scope.

(** parent-linked, consecutively numbered list of blocks (oldest first) above [p] *)
Fixpoint linked (p : block) (l : list block) : Prop :=
  match l with
  | [] => True
  | b :: l' => prev b = hash_field p /\ no b = no p + 1 /\ linked b l'
  end.

Lemma linked_nth p l : forall i c, linked p l -> nth_error l i = Some c -> no c = no p + 1 + N.of_nat i.
Proof.
  revert p. induction l as [|b l IH]; intros p i c H Hn.
  - destruct i; discriminate.
  - destruct H as (H1 & H2 & H3). destruct i; simpl in Hn.
    + inversion Hn; subst. lia.
    + rewrite (IH _ _ _ H3 Hn). lia.
Qed.
Lemma linked_no_gt p l c : linked p l -> In c l -> no p < no c.
Proof. intros H Hin. destruct (In_nth_error _ _ Hin) as (i & Hi). rewrite (linked_nth _ _ _ _ H Hi). lia. Qed.
Lemma linked_no_inj p l i j ci cj : linked p l -> nth_error l i = Some ci -> nth_error l j = Some cj ->
  no ci = no cj -> i = j.
Proof. intros H Hi Hj E. rewrite (linked_nth _ _ _ _ H Hi), (linked_nth _ _ _ _ H Hj) in E. lia. Qed.
Lemma linked_succ p l i a b : linked p l -> nth_error l i = Some a -> nth_error l (S i) = Some b ->
  prev b = hash_field a.
Proof.
  revert p i. induction l as [|x l IH]; intros p i H Ha Hb; [destruct i; discriminate|].
  destruct H as (H1 & H2 & H3). destruct i; simpl in *.
  - inversion Ha; subst. destruct l; try discriminate. inversion Hb; subst. apply H3.
  - eapply IH; eauto.
Qed.
Lemma linked_first p l b : linked p l -> nth_error l 0 = Some b -> prev b = hash_field p.
Proof. destruct l; simpl; intros H E; inversion E; subst. apply H. Qed.

Lemma nodup_app_intro (l1 l2 : list N) : NoDup l1 -> NoDup l2 -> (forall x, In x l1 -> In x l2 -> False) -> NoDup (l1 ++ l2).
Proof.
  induction l1 as [|a l1 IH]; simpl; intros H1 H2 H; auto.
  inversion H1; subst. constructor.
  - intro Hin. apply in_app_or in Hin. destruct Hin; auto. eapply H; eauto.
  - apply IH; auto. intros x Hx. apply H. auto.
Qed.

Lemma existsb_ext_eq (t : N) l : existsb (fun t0 => dkey_eqb (KTx t0) (KTx t)) l = existsb (N.eqb t) l.
Proof. induction l as [|a l IH]; [reflexivity|]. cbn [existsb]. rewrite IH. cbn [dkey_eqb]. rewrite (N.eqb_sym a t). reflexivity. Qed.

Section Reorg.
Variable apply : sroot -> block -> option sroot.
Variable f7_fixed : bool.
Variable orphan_cap : nat.
Variable spent : sroot -> txid -> bool.
Hypothesis apply_fresh : forall r b r', apply r b = Some r' ->
  NoDup (txs b) /\ forall t, In t (txs b) -> spent r t = false.
Hypothesis apply_spent : forall r b r' t, apply r b = Some r' ->
  spent r' t = spent r t || mem t (txs b).
Variable U : block -> Prop.
Hypothesis U_inj : forall a b, U a -> U b -> hash_field a = hash_field b -> a = b.
Variable g : block.
Notation Inv := (Inv apply spent U g).

(** executable chain of blocks: each executes on its predecessor's root to its own header root *)
Fixpoint valid_chain (r : sroot) (l : list block) : Prop :=
  match l with
  | [] => True
  | b :: l' => apply r b = Some (root b) /\ valid_chain (root b) l'
  end.

Fixpoint end_root (r : sroot) (l : list block) : sroot :=
  match l with [] => r | b :: l' => end_root (root b) l' end.

Lemma valid_chain_spent l : forall r t, valid_chain r l ->
  spent (end_root r l) t = spent r t || mem t (concat (map txs l)).
Proof.
  induction l as [|b l IH]; intros r t H; simpl.
  - rewrite orb_false_r. reflexivity.
  - destruct H as (H1 & H2). rewrite (IH _ t H2). rewrite (apply_spent _ _ _ t H1).
    unfold mem. rewrite existsb_app. rewrite orb_assoc. reflexivity.
Qed.

Lemma valid_chain_fresh l : forall r, valid_chain r l ->
  NoDup (concat (map txs l)) /\ forall t, In t (concat (map txs l)) -> spent r t = false.
Proof.
  induction l as [|b l IH]; intros r H; simpl.
  - split; [constructor|contradiction].
  - destruct H as (H1 & H2). destruct (IH _ H2) as (Hnd & Hf).
    destruct (apply_fresh _ _ _ H1) as (Hndb & Hfb).
    split.
    + apply nodup_app_intro; auto. intros t Hb Hl.
      specialize (Hf t Hl). rewrite (apply_spent _ _ _ t H1) in Hf.
      apply mem_In in Hb. rewrite Hb, orb_true_r in Hf. discriminate.
    + intros t Hin. apply in_app_or in Hin. destruct Hin as [Hin|Hin]; auto.
      specialize (Hf t Hin). rewrite (apply_spent _ _ _ t H1) in Hf.
      apply orb_false_iff in Hf. tauto.
Qed.

(** ** gather *)
Section Gather.
Variable d : store.
Variable bestno : N.
Hypothesis stored_U : forall id x, get_block d id = Some x -> U x /\ hash_field x = id.
Hypothesis main_no : forall k x, k <= bestno -> mainb d k = Some x -> no x = k.
Hypothesis main_stored : forall k x, mainb d k = Some x -> get_block d (hash_field x) = Some x.

Definition acc_ok (top cur : block) (news olds : list block) : Prop :=
  get_block d (hash_field cur) = Some cur /\
  linked cur (rev news) /\
  (forall c, In c news -> get_block d (hash_field c) = Some c) /\
  (forall c m, In c news -> no c <= bestno -> mainb d (no c) = Some m -> hash_field c <> hash_field m) /\
  (forall x, In x olds <-> exists k, no cur < k /\ k <= bestno /\ mainb d k = Some x) /\
  (news = [] -> cur = top) /\ (news <> [] -> hd cur news = top).

Lemma gather_spec fuel : forall top cur news olds st news' olds',
  acc_ok top cur news olds ->
  gather fuel d bestno cur news olds = Some (st, news', olds') ->
  mainb d (no st) = Some st /\ no st < bestno /\
  news' <> [] /\ hd st news' = top /\
  linked st (rev news') /\
  (forall c, In c news' -> get_block d (hash_field c) = Some c) /\
  (forall c m, In c news' -> no c <= bestno -> mainb d (no c) = Some m -> hash_field c <> hash_field m) /\
  (forall x, In x olds' <-> exists k, no st < k /\ k <= bestno /\ mainb d k = Some x).
Proof.
  induction fuel as [|f IH]; intros top cur news olds st news' olds' A G; simpl in G; [discriminate|].
  destruct A as (Acur & Alink & Astored & Adiff & Aolds & Atop0 & Atop1).
  (* the common "step" *)
  assert (STEP : forall olds2,
    (forall x, In x olds2 <-> exists k, no cur - 1 < k /\ k <= bestno /\ mainb d k = Some x) ->
    (no cur <= bestno -> forall m, mainb d (no cur) = Some m -> hash_field cur <> hash_field m) ->
    (if no cur =? 0 then None
     else match get_block d (prev cur) with
          | None => None
          | Some p => if no cur - 1 =? no p then gather f d bestno p (news ++ [cur]) olds2 else None
          end) = Some (st, news', olds') ->
    mainb d (no st) = Some st /\ no st < bestno /\ news' <> [] /\ hd st news' = top /\
    linked st (rev news') /\
    (forall c, In c news' -> get_block d (hash_field c) = Some c) /\
    (forall c m, In c news' -> no c <= bestno -> mainb d (no c) = Some m -> hash_field c <> hash_field m) /\
    (forall x, In x olds' <-> exists k, no st < k /\ k <= bestno /\ mainb d k = Some x)).
  { intros olds2 Holds2 Hdiff S.
    destruct (no cur =? 0) eqn:E0; [discriminate|]. apply N.eqb_neq in E0.
    destruct (get_block d (prev cur)) as [p|] eqn:Ep; [|discriminate].
    destruct (no cur - 1 =? no p) eqn:En; [|discriminate]. apply N.eqb_eq in En.
    destruct (stored_U _ _ Ep) as (Up & Hp).
    eapply IH; [|exact S].
    unfold acc_ok. repeat split.
    - rewrite Hp. exact Ep.
    - rewrite rev_app_distr. simpl. repeat split; auto. lia.
    - intros c Hc. apply in_app_or in Hc. destruct Hc as [Hc|[<-|[]]]; auto.
    - intros c m Hc. apply in_app_or in Hc. destruct Hc as [Hc|[<-|[]]]; eauto.
    - intros Hx. apply Holds2 in Hx. destruct Hx as (k & H1 & H2 & H3). exists k. repeat split; auto. lia.
    - intros (k & H1 & H2 & H3). apply Holds2. exists k. repeat split; auto. lia.
    - intros Hnil. destruct news; discriminate.
    - intros _. destruct news as [|c news]; simpl.
      + apply Atop0. reflexivity.
      + apply (Atop1 ltac:(discriminate)). }
  destruct (no cur <=? bestno) eqn:Ele.
  - apply N.leb_le in Ele.
    fold (mainb d (no cur)) in G.
    destruct (mainb d (no cur)) as [m|] eqn:Em; [|discriminate].
    destruct (hash_field cur =? hash_field m) eqn:Eh.
    + apply N.eqb_eq in Eh.
      destruct (bestno =? no cur) eqn:Eb; [discriminate|]. apply N.eqb_neq in Eb.
      assert (cur = m).
      { destruct (stored_U _ _ Acur) as (Uc & _).
        destruct (stored_U _ _ (main_stored _ _ Em)) as (Um & _). apply U_inj; auto. }
      subst m.
      destruct news as [|c news]; [discriminate|].
      destruct olds as [|o olds]; [discriminate|].
      inversion G; subst. repeat split; auto; try lia; try discriminate.
      * apply Atop1. discriminate.
      * apply Aolds.
      * apply Aolds.
    + apply N.eqb_neq in Eh. eapply STEP; [| |exact G].
      * intros x. split.
        -- intros Hx. apply in_app_or in Hx. destruct Hx as [Hx|[<-|[]]].
           ++ apply Aolds in Hx. destruct Hx as (k & H1 & H2 & H3). exists k. repeat split; auto. lia.
           ++ exists (no cur). repeat split; auto.
              assert (no cur <> 0) by (intro E; rewrite E in G; simpl in G; discriminate). lia.
        -- intros (k & H1 & H2 & H3). apply in_or_app.
           destruct (N.eq_dec k (no cur)) as [->|Hne].
           ++ right. left. congruence.
           ++ left. apply Aolds. exists k. repeat split; auto. lia.
      * intros _ m' Hm'. congruence.
  - apply N.leb_gt in Ele. eapply STEP; [| |exact G].
    + intros x. rewrite Aolds. split; intros (k & H1 & H2 & H3); exists k; repeat split; auto; lia.
    + intros. lia.
Qed.

End Gather.

(** ** rollforward *)
Lemma rollforward_frame L : forall n n2 ok, rollforward apply n L = (n2, ok) ->
  best n2 = best n /\ orphans n2 = orphans n /\ bad n2 = bad n /\ lib n2 = lib n /\
  (forall k, (forall r, k <> KStateMarker r) -> (forall i m, k <> KReceipts i m) -> dur n2 k = dur n k) /\
  (forall r, has_state_marker (dur n) r = true -> has_state_marker (dur n2) r = true) /\
  (forall i m, has_receipts (dur n) i m = true -> has_receipts (dur n2) i m = true) /\
  (ok = true -> valid_chain (sdb_root n) L /\ sdb_root n2 = end_root (sdb_root n) L /\
     forall c, In c L -> has_state_marker (dur n2) (root c) = true /\
                         (txs c <> [] -> has_receipts (dur n2) (hash_field c) (no c) = true)).
Proof.
  induction L as [|b L IH]; intros n n2 ok H; simpl in H.
  - inversion H; subst. repeat split; auto; contradiction.
  - destruct (execute_block apply n b) as [n1|] eqn:Ex.
    + destruct (execute_block_frame _ _ _ _ Ex) as (Hok & Fb & Fs & Fo & Fbad & Flib & Ff & Fm & Fr).
      destruct (IH _ _ _ H) as (Hb & Ho & Hbad & Hlib & Hf & Hm & Hr & Hok').
      split; [congruence|]. split; [congruence|]. split; [congruence|]. split; [congruence|].
      split; [|split; [|split]].
      * intros k H1 H2. rewrite Hf, Ff; auto.
      * intros r Hr0. apply Hm. rewrite Fm, Hr0. apply orb_true_r.
      * intros i m Hr0. apply Hr. rewrite Fr, Hr0. apply orb_true_r.
      * intros Eok. destruct (Hok' Eok) as (Hv & Hs & Hc). rewrite Fs in Hv, Hs.
        unfold exec_ok in Hok. destruct (apply (sdb_root n) b) as [r'|] eqn:Eap; [|discriminate].
        apply N.eqb_eq in Hok. subst r'.
        simpl. split; [split; auto|]. split; auto.
        intros c [<-|Hin]; auto. split.
        -- apply Hm. rewrite Fm, N.eqb_refl. reflexivity.
        -- intros Ht. apply Hr. rewrite Fr. destruct (txs b); [contradiction|]. rewrite !N.eqb_refl. reflexivity.
    + inversion H; subst. repeat split; auto; intros; discriminate.
Qed.

(** ** swapChain *)
Lemma fold_emit_ne_dur (f : block -> wunit) L : forall n,
  let n' := fold_left (fun n b => emit_ne n (f b)) L n in
  dur n' = fold_left (fun d b => apply_unit d (f b)) L (dur n) /\
  best n' = best n /\ sdb_root n' = sdb_root n /\ orphans n' = orphans n /\ bad n' = bad n /\ lib n' = lib n.
Proof.
  induction L as [|b L IH]; intros n; simpl; auto 10.
  destruct (IH (emit_ne n (f b))) as (H1 & H2 & H3 & H4 & H5 & H6).
  destruct (emit_ne_fields n (f b)) as (F1 & F2 & F3 & F4 & F5 & F6).
  rewrite H1, H2, H3, H4, H5, H6, emit_ne_dur. auto 10.
Qed.
Lemma fold_tell_fields L : forall n,
  let n' := fold_left (fun n t => tell n (EvMemPoolPut t)) L n in
  dur n' = dur n /\ best n' = best n /\ sdb_root n' = sdb_root n /\ orphans n' = orphans n /\ bad n' = bad n /\ lib n' = lib n.
Proof. induction L as [|t L IH]; intros n; simpl; auto 10. apply (IH (tell n (EvMemPoolPut t))). Qed.

(** the in-memory parameters are not touched by writes and messages *)
Lemma emit_ne_pmem n u : pmem (emit_ne n u) = pmem n.
Proof. unfold emit_ne. destruct (u_ops u); reflexivity. Qed.
Lemma fold_emit_ne_pmem (f : block -> wunit) L : forall n,
  pmem (fold_left (fun n b => emit_ne n (f b)) L n) = pmem n.
Proof. induction L as [|b L IH]; intros n; simpl; auto. rewrite IH. apply emit_ne_pmem. Qed.
Lemma fold_tell_pmem L : forall n, pmem (fold_left (fun n t => tell n (EvMemPoolPut t)) L n) = pmem n.
Proof. induction L as [|t L IH]; intros n; simpl; auto. rewrite IH. reflexivity. Qed.
Lemma swap_chain_pmem n m top news olds sw : pmem (swap_chain n m top news olds sw) = pmem n.
Proof.
  unfold swap_chain. destruct sw; cbn [pmem emit set_best];
    rewrite fold_tell_pmem, emit_ne_pmem, fold_emit_ne_pmem, emit_ne_pmem; reflexivity.
Qed.
Lemma execute_block_pmem' n b n' :
  execute_block apply n b = Some n' -> pmem n = sdb_root n /\ pmem n' = sdb_root n'.
Proof.
  intros Ex. destruct (execute_block_pmem _ _ _ _ Ex) as (H1 & H2).
  destruct (execute_block_frame _ _ _ _ Ex) as (_ & _ & Fs & _). split; congruence.
Qed.
Lemma rollforward_pmem L : forall n n2 ok, rollforward apply n L = (n2, ok) ->
  pmem n = sdb_root n -> pmem n2 = sdb_root n2.
Proof.
  induction L as [|b L IH]; intros n n2 ok H Hp; simpl in H.
  - inversion H; subst. exact Hp.
  - destruct (execute_block apply n b) as [n1|] eqn:Ex.
    + eapply IH; eauto. apply (execute_block_pmem' _ _ _ Ex).
    + inversion H; subst. exact Hp.
Qed.

Lemma txmaps_other L : forall d k, (forall t, k <> KTx t) ->
  fold_left (fun d b => apply_unit d (txmap_unit b)) L d k = d k.
Proof.
  induction L as [|b L IH]; intros d k H; simpl; auto.
  rewrite IH by auto. unfold apply_unit, txmap_unit. simpl u_ops. rewrite apply_ops_lookup.
  rewrite lookup_tx_ops_other by auto. reflexivity.
Qed.
Lemma txmaps_notin L : forall d t, ~ In t (concat (map txs L)) ->
  fold_left (fun d b => apply_unit d (txmap_unit b)) L d (KTx t) = d (KTx t).
Proof.
  induction L as [|b L IH]; intros d t H; simpl in *; auto.
  rewrite IH by (intro; apply H; apply in_or_app; auto).
  unfold apply_unit, txmap_unit. simpl u_ops. rewrite apply_ops_lookup.
  rewrite lookup_tx_ops_notin; auto. intro; apply H; apply in_or_app; auto.
Qed.
Lemma nodup_app_l (l1 l2 : list N) : NoDup (l1 ++ l2) -> NoDup l1 /\ NoDup l2 /\ forall x, In x l1 -> ~ In x l2.
Proof.
  induction l1 as [|a l1 IH]; simpl; intros H.
  - repeat split; auto. constructor.
  - inversion H; subst. destruct (IH H3) as (H4 & H5 & H6). repeat split; auto.
    + constructor; auto. intro; apply H2; apply in_or_app; auto.
    + intros x [<-|Hx]; auto. intro; apply H2; apply in_or_app; auto.
Qed.
Lemma txmaps_in L : forall d j c i t, NoDup (concat (map txs L)) ->
  nth_error L j = Some c -> nth_error (txs c) i = Some t ->
  fold_left (fun d b => apply_unit d (txmap_unit b)) L d (KTx t) = Some (VTxIdx (hash_field c) i).
Proof.
  induction L as [|b L IH]; intros d j c i t Hnd Hj Hi; [destruct j; discriminate|].
  simpl in Hnd. destruct (nodup_app_l _ _ Hnd) as (Hb & Hl & Hdis).
  destruct j; simpl in *.
  - inversion Hj; subst. rewrite txmaps_notin by (apply Hdis; eapply nth_error_In; eauto).
    unfold apply_unit, txmap_unit. simpl u_ops. rewrite apply_ops_lookup.
    rewrite (lookup_tx_ops_in _ _ 0%nat i t Hb Hi). reflexivity.
  - eapply IH; eauto.
Qed.

Lemma heights_lookup L : forall p k, linked p L ->
  lookup_ops (map (fun b => (KHeight (no b), Some (VHash (hash_field b)))) L) (KHeight k) =
  match find (fun c => no c =? k) L with Some c => Some (Some (VHash (hash_field c))) | None => None end.
Proof.
  induction L as [|c L IH]; intros p k H; simpl; auto.
  destruct H as (H1 & H2 & H3). rewrite (IH _ k H3).
  destruct (find (fun c0 => no c0 =? k) L) as [c'|] eqn:Ef.
  - apply find_some in Ef. destruct Ef as (Hin & E). apply N.eqb_eq in E.
    pose proof (linked_no_gt _ _ _ H3 Hin). destruct (no c =? k) eqn:E2; auto. apply N.eqb_eq in E2. lia.
  - destruct (no c =? k); reflexivity.
Qed.
Lemma heights_lookup_other L k : (forall n, k <> KHeight n) ->
  lookup_ops (map (fun b => (KHeight (no b), Some (VHash (hash_field b)))) L) k = None.
Proof.
  intros H. apply lookup_ops_none. intros o Ho. apply in_map_iff in Ho. destruct Ho as (b & <- & _).
  simpl. intro E. eapply H; eauto.
Qed.

Lemma del_receipts_lookup olds k :
  lookup_ops (map (fun b => (KReceipts (hash_field b) (no b), None)) olds) k =
  if existsb (fun b => dkey_eqb (KReceipts (hash_field b) (no b)) k) olds then Some None else None.
Proof.
  induction olds as [|b l IH]; [reflexivity|]. cbn [map lookup_ops existsb fst snd]. rewrite IH.
  destruct (existsb (fun b0 => dkey_eqb (KReceipts (hash_field b0) (no b0)) k) l);
    destruct (dkey_eqb (KReceipts (hash_field b) (no b)) k); reflexivity.
Qed.
Lemma txdel_lookup ts k :
  lookup_ops (map (fun t => (KTx t, None)) ts) k =
  if existsb (fun t => dkey_eqb (KTx t) k) ts then Some None else None.
Proof.
  induction ts as [|b l IH]; [reflexivity|]. cbn [map lookup_ops existsb fst snd]. rewrite IH.
  destruct (existsb (fun t => dkey_eqb (KTx t) k) l); destruct (dkey_eqb (KTx b) k); reflexivity.
Qed.

Lemma existsb_false_all {A} (f : A -> bool) l : (forall x, In x l -> f x = false) -> existsb f l = false.
Proof. induction l as [|a l IH]; simpl; intros H; auto. rewrite H, IH; auto. Qed.

(** reads of the store after swapChain, by key class, relative to the store before it *)
Lemma swap_chain_reads n m top news olds st :
  linked st (rev news) ->
  let n' := swap_chain n m top news olds false in
  let L := rev news in
  let ret := old_only_txs olds news in
  best n' = top /\ sdb_root n' = sdb_root n /\ orphans n' = orphans n /\ bad n' = bad n /\ lib n' = lib n /\
  dur n' KMarker = None /\
  dur n' KLatest = Some (VNo (no top)) /\
  (forall k, dur n' (KHeight k) = match find (fun c => no c =? k) L with
                                  | Some c => Some (VHash (hash_field c))
                                  | None => dur n (KHeight k) end) /\
  (forall id, dur n' (KBlock id) = dur n (KBlock id)) /\
  (forall r, dur n' (KStateMarker r) = dur n (KStateMarker r)) /\
  (forall i k, dur n' (KReceipts i k) =
     if existsb (fun b => dkey_eqb (KReceipts (hash_field b) (no b)) (KReceipts i k)) olds then None
     else dur n (KReceipts i k)) /\
  (forall t, dur n' (KTx t) =
     if mem t ret then None
     else fold_left (fun d b => apply_unit d (txmap_unit b)) L
            (apply_unit (apply_unit (dur n) (marker_write_unit m)) (del_receipts_unit olds)) (KTx t)).
Proof.
  intros Hl n' L ret. subst n'. unfold swap_chain. fold L. fold ret.
  set (n1 := emit n (marker_write_unit m)).
  set (n2 := emit_ne n1 (del_receipts_unit olds)).
  set (n3 := fold_left (fun n b => emit_ne n (txmap_unit b)) L n2).
  set (n4 := emit_ne n3 (txdel_unit ret)).
  set (n5 := fold_left (fun n t => tell n (EvMemPoolPut t)) ret n4).
  destruct (emit_ne_fields n1 (del_receipts_unit olds)) as (A1 & A2 & A3 & A4 & A5 & _).
  destruct (fold_emit_ne_dur txmap_unit L n2) as (B0 & B1 & B2 & B3 & B4 & B5).
  destruct (emit_ne_fields n3 (txdel_unit ret)) as (C1 & C2 & C3 & C4 & C5 & _).
  destruct (fold_tell_fields ret n4) as (D0 & D1 & D2 & D3 & D4 & D5).
  fold n2 in A1, A2, A3, A4, A5. fold n3 in B0, B1, B2, B3, B4, B5. fold n4 in C1, C2, C3, C4, C5.
  fold n5 in D0, D1, D2, D3, D4, D5.
  assert (E2 : dur n2 = apply_unit (apply_unit (dur n) (marker_write_unit m)) (del_receipts_unit olds)).
  { unfold n2. rewrite emit_ne_dur. reflexivity. }
  assert (E4 : dur n5 = apply_unit (fold_left (fun d b => apply_unit d (txmap_unit b)) L (dur n2)) (txdel_unit ret)).
  { rewrite D0. unfold n4. rewrite emit_ne_dur, B0. reflexivity. }
  simpl best. simpl sdb_root. simpl orphans. simpl bad. simpl lib. simpl dur.
  split; [reflexivity|]. split; [rewrite D2, C2, B2, A2; reflexivity|].
  split; [rewrite D3, C3, B3, A3; reflexivity|]. split; [rewrite D4, C4, B4, A4; reflexivity|].
  split; [rewrite D5, C5, B5, A5; reflexivity|].
  rewrite E4, E2.
  assert (HU : forall k, apply_unit (apply_unit (apply_unit
                 (fold_left (fun d b => apply_unit d (txmap_unit b)) L
                    (apply_unit (apply_unit (dur n) (marker_write_unit m)) (del_receipts_unit olds)))
                 (txdel_unit ret)) (heights_unit L top)) marker_delete_unit k =
          if dkey_eqb KMarker k then None else
          match lookup_ops (u_ops (heights_unit L top)) k with Some v => v | None =>
          match lookup_ops (u_ops (txdel_unit ret)) k with Some v => v | None =>
            fold_left (fun d b => apply_unit d (txmap_unit b)) L
                    (apply_unit (apply_unit (dur n) (marker_write_unit m)) (del_receipts_unit olds)) k end end).
  { intros k. unfold apply_unit at 1. rewrite apply_ops_lookup. cbn [marker_delete_unit u_ops lookup_ops fst snd].
    destruct (dkey_eqb KMarker k); auto.
    unfold apply_unit at 1. rewrite apply_ops_lookup.
    destruct (lookup_ops (u_ops (heights_unit L top)) k); auto.
    unfold apply_unit at 1. rewrite apply_ops_lookup. reflexivity. }
  assert (HB : forall k, (forall t, k <> KTx t) ->
            fold_left (fun d b => apply_unit d (txmap_unit b)) L
                    (apply_unit (apply_unit (dur n) (marker_write_unit m)) (del_receipts_unit olds)) k =
            match lookup_ops (u_ops (del_receipts_unit olds)) k with Some v => v | None =>
              if dkey_eqb KMarker k then Some (VMarker m) else dur n k end).
  { intros k Hk. rewrite txmaps_other by auto. unfold apply_unit at 1. rewrite apply_ops_lookup.
    destruct (lookup_ops (u_ops (del_receipts_unit olds)) k); auto. }
  assert (HH : forall k, lookup_ops (u_ops (heights_unit L top)) k =
            match k with
            | KLatest => Some (Some (VNo (no top)))
            | KHeight h => match find (fun c => no c =? h) L with Some c => Some (Some (VHash (hash_field c))) | None => None end
            | _ => None end).
  { intros k. unfold heights_unit. cbn [u_ops]. rewrite lookup_ops_app. cbn [lookup_ops fst snd].
    destruct k as [|h| | | | |]; cbn [dkey_eqb]; auto; try (apply heights_lookup_other; intros; discriminate).
    apply (heights_lookup L st h Hl). }
  assert (HD : forall k, (forall t, k <> KTx t) -> lookup_ops (u_ops (txdel_unit ret)) k = None).
  { intros k Hk. unfold txdel_unit. cbn [u_ops]. rewrite txdel_lookup.
    rewrite existsb_false_all; auto. intros t _. apply dkey_eqb_neq. intro E. eapply Hk; eauto. }
  assert (HR : forall k, (forall i j, k <> KReceipts i j) -> lookup_ops (u_ops (del_receipts_unit olds)) k = None).
  { intros k Hk. unfold del_receipts_unit. cbn [u_ops]. rewrite del_receipts_lookup.
    rewrite existsb_false_all; auto. intros t _. apply dkey_eqb_neq. intro E. eapply Hk; eauto. }
  repeat split; intros; rewrite HU; cbn [dkey_eqb]; auto.
  - rewrite HH. reflexivity.
  - rewrite HH. destruct (find (fun c => no c =? k) L); auto.
    rewrite HD by (intros; discriminate). rewrite HB by (intros; discriminate).
    rewrite HR by (intros; discriminate). reflexivity.
  - rewrite HH, HD by (intros; discriminate). rewrite HB by (intros; discriminate).
    rewrite HR by (intros; discriminate). reflexivity.
  - rewrite HH, HD by (intros; discriminate). rewrite HB by (intros; discriminate).
    rewrite HR by (intros; discriminate). reflexivity.
  - rewrite HH, HD by (intros; discriminate). rewrite HB by (intros; discriminate).
    unfold del_receipts_unit. cbn [u_ops]. rewrite del_receipts_lookup.
    destruct (existsb _ olds); reflexivity.
  - rewrite HH. unfold txdel_unit at 1. cbn [u_ops]. rewrite txdel_lookup.
    assert (Em : existsb (fun t0 => dkey_eqb (KTx t0) (KTx t)) ret = mem t ret).
    { unfold mem. apply existsb_ext_eq. }
    rewrite Em. destruct (mem t ret); reflexivity.
Qed.

Lemma valid_chain_prefix L : forall r j c, valid_chain r L -> nth_error L j = Some c ->
  valid_chain r (firstn (S j) L) /\ end_root r (firstn (S j) L) = root c.
Proof.
  induction L as [|b L IH]; intros r j c H Hn; [destruct j; discriminate|].
  destruct H as (H1 & H2). destruct j; simpl in Hn.
  - inversion Hn; subst. simpl. destruct L; simpl; auto.
  - destruct (IH _ _ _ H2 Hn) as (H3 & H4). simpl firstn. simpl. auto.
Qed.
Lemma valid_chain_step L : forall r i a b, valid_chain r L -> nth_error L i = Some a -> nth_error L (S i) = Some b ->
  apply (root a) b = Some (root b).
Proof.
  induction L as [|x L IH]; intros r i a b H Ha Hb; [destruct i; discriminate|].
  destruct H as (H1 & H2). destruct i; simpl in *.
  - inversion Ha; subst. destruct L; [discriminate|]. inversion Hb; subst. apply H2.
  - eapply IH; eauto.
Qed.
Lemma in_concat_firstn (L : list block) j t : In t (concat (map txs (firstn j L))) -> In t (concat (map txs L)).
Proof.
  revert j. induction L as [|b L IH]; intros j H; destruct j; simpl in *; auto; try contradiction.
  apply in_app_or in H. apply in_or_app. destruct H; eauto.
Qed.
Lemma in_concat_nth (L : list block) i c t : nth_error L i = Some c -> In t (txs c) -> forall j, (i < j)%nat ->
  In t (concat (map txs (firstn j L))).
Proof.
  revert i. induction L as [|b L IH]; intros i Hn Hin j Hj; [destruct i; discriminate|].
  destruct j; [lia|]. simpl. apply in_or_app. destruct i; simpl in Hn.
  - inversion Hn; subst. auto.
  - right. eapply IH; eauto. lia.
Qed.

(** spent along an executable chain *)
Lemma chain_spent_from_root L r j c t : valid_chain r L -> nth_error L j = Some c -> spent r t = true ->
  spent (root c) t = true.
Proof.
  intros H Hn Hs. destruct (valid_chain_prefix _ _ _ _ H Hn) as (H1 & H2).
  rewrite <- H2, (valid_chain_spent _ _ t H1), Hs. reflexivity.
Qed.
Lemma chain_spent_from_member L r i j ci cj t : valid_chain r L -> nth_error L i = Some ci -> nth_error L j = Some cj ->
  (i <= j)%nat -> In t (txs ci) -> spent (root cj) t = true.
Proof.
  intros H Hi Hj Hle Hin. destruct (valid_chain_prefix _ _ _ _ H Hj) as (H1 & H2).
  rewrite <- H2, (valid_chain_spent _ _ t H1).
  assert (In t (concat (map txs (firstn (S j) L)))) by (apply (in_concat_nth L i ci t Hi Hin (S j)); lia).
  apply mem_In in H0. rewrite H0. apply orb_true_r.
Qed.

Lemma find_linked p L i c : linked p L -> nth_error L i = Some c -> find (fun c' => no c' =? no c) L = Some c.
Proof.
  intros Hl Hn. destruct (find (fun c' => no c' =? no c) L) as [c'|] eqn:Ef.
  - apply find_some in Ef. destruct Ef as (Hin & E). apply N.eqb_eq in E.
    destruct (In_nth_error _ _ Hin) as (j & Hj).
    assert (j = i) by (eapply linked_no_inj; eauto). subst j. congruence.
  - exfalso. apply nth_error_In in Hn. pose proof (find_none _ _ Ef _ Hn) as E. simpl in E.
    rewrite N.eqb_refl in E. discriminate.
Qed.

Lemma swap_inv n0 n2 m top news olds st :
  Inv n0 ->
  best n2 = best n0 -> orphans n2 = orphans n0 ->
  (forall k, (forall r, k <> KStateMarker r) -> (forall i j, k <> KReceipts i j) -> dur n2 k = dur n0 k) ->
  (forall r, has_state_marker (dur n0) r = true -> has_state_marker (dur n2) r = true) ->
  (forall i j, has_receipts (dur n0) i j = true -> has_receipts (dur n2) i j = true) ->
  valid_chain (root st) (rev news) -> sdb_root n2 = end_root (root st) (rev news) ->
  (forall c, In c (rev news) -> has_state_marker (dur n2) (root c) = true /\
                               (txs c <> [] -> has_receipts (dur n2) (hash_field c) (no c) = true)) ->
  mainb (dur n0) (no st) = Some st -> no st < no (best n0) -> news <> [] -> hd st news = top ->
  linked st (rev news) -> (forall c, In c news -> get_block (dur n0) (hash_field c) = Some c) ->
  (forall c mm, In c news -> no c <= no (best n0) -> mainb (dur n0) (no c) = Some mm -> hash_field c <> hash_field mm) ->
  (forall x, In x olds <-> exists k, no st < k /\ k <= no (best n0) /\ mainb (dur n0) k = Some x) ->
  no (best n0) < no top ->
  pmem n2 = sdb_root n2 ->
  Inv (swap_chain n2 m top news olds false).
Proof.
  intros I Hb Ho Hf Hsm Hrc Hv Hsdb Hnew Hst Hstlt Hne Hhd Hl Hstored Hdiff Holds Htop Hpm.
  destruct (swap_chain_reads n2 m top news olds st Hl)
    as (Rb & Rs & Ro & Rbad & Rlib & RM & RL & RH & RB & RS & RR & RT).
  set (nF := swap_chain n2 m top news olds false) in *.
  set (L := rev news) in *.
  set (dF := dur nF) in *.
  (* top is the last block of L *)
  assert (Ftop : exists it, nth_error L it = Some top /\ length L = S it).
  { destruct news as [|c news']; [contradiction|]. simpl in Hhd. subst c.
    exists (length (rev news')). unfold L. simpl. split.
    - rewrite nth_error_app2 by lia. rewrite Nat.sub_diag. reflexivity.
    - rewrite app_length. simpl. lia. }
  destruct Ftop as (it & Hit & Hlen).
  assert (Fno : forall i c, nth_error L i = Some c -> no c = no st + 1 + N.of_nat i) by (intros; eapply linked_nth; eauto).
  assert (Ftopno : no top = no st + 1 + N.of_nat it) by (apply Fno; auto).
  assert (Fidx : forall i c, nth_error L i = Some c -> (i <= it)%nat).
  { intros i c Hi. assert (i < length L)%nat by (apply nth_error_Some; congruence). lia. }
  assert (FinL : forall c, In c L <-> In c news) by (intros; unfold L; rewrite <- in_rev; tauto).
  assert (GBF : forall id, get_block dF id = get_block (dur n0) id).
  { intros id. apply get_block_ext. rewrite RB. apply Hf; intros; discriminate. }
  assert (HHF : forall k, get_hash_by_no dF k = match find (fun c => no c =? k) L with
                                                | Some c => Some (hash_field c) | None => get_hash_by_no (dur n0) k end).
  { intros k. unfold get_hash_by_no. rewrite RH. destruct (find (fun c => no c =? k) L); auto.
    rewrite Hf by (intros; discriminate). reflexivity. }
  assert (Mnew : forall i c, nth_error L i = Some c -> mainb dF (no c) = Some c).
  { intros i c Hi. unfold mainb, get_block_by_no. rewrite HHF, (find_linked _ _ _ _ Hl Hi).
    rewrite GBF. apply Hstored. apply FinL. eapply nth_error_In; eauto. }
  assert (Fnone : forall k, (forall c, In c L -> no c <> k) -> find (fun c => no c =? k) L = None).
  { intros k H. destruct (find (fun c => no c =? k) L) as [c|] eqn:E; auto.
    apply find_some in E. destruct E as (Hin & E). apply N.eqb_eq in E. exfalso. eapply H; eauto. }
  assert (Mold : forall k, k <= no st -> mainb dF k = mainb (dur n0) k).
  { intros k Hk. unfold mainb, get_block_by_no. rewrite HHF, Fnone.
    - destruct (get_hash_by_no (dur n0) k); auto.
    - intros c Hc. pose proof (linked_no_gt _ _ _ Hl Hc). lia. }
  assert (Mchar : forall k x, k <= no top -> mainb dF k = Some x ->
            (k <= no st /\ mainb (dur n0) k = Some x) \/ (exists i, nth_error L i = Some x /\ no x = k)).
  { intros k x Hk Hx. destruct (N.le_gt_cases k (no st)) as [Hle|Hgt].
    - left. split; auto. rewrite <- Mold; auto.
    - right. set (i := N.to_nat (k - no st - 1)).
      assert (Hi : (i < length L)%nat) by (unfold i; lia).
      destruct (nth_error L i) as [c|] eqn:Ec; [|apply nth_error_None in Ec; lia].
      assert (no c = k) by (rewrite (Fno _ _ Ec); unfold i; lia).
      exists i. rewrite <- H in Hx. rewrite (Mnew _ _ Ec) in Hx. inversion Hx; subst. auto. }
  assert (Istd : forall k x, mainb (dur n0) k = Some x -> get_block (dur n0) (hash_field x) = Some x).
  { intros k x Hx. unfold mainb, get_block_by_no in Hx. destruct (get_hash_by_no (dur n0) k); [|discriminate].
    destruct (get_block_univ _ _ _ _ _ _ _ I Hx) as (_ & <- & _). exact Hx. }
  destruct (valid_chain_fresh _ _ Hv) as (Hnd & Hfresh).
  assert (Spre : forall k x t, k <= no st -> mainb (dur n0) k = Some x -> In t (txs x) -> spent (root st) t = true).
  { intros k x t Hk Hx Hin. eapply (i_spent _ _ _ _ _ I k (no st)); eauto; lia. }
  assert (Pre_notnew : forall k x t, k <= no st -> mainb (dur n0) k = Some x -> In t (txs x) -> ~ In t (concat (map txs L))).
  { intros k x t Hk Hx Hin Hc. specialize (Hfresh t Hc). rewrite (Spre _ _ _ Hk Hx Hin) in Hfresh. discriminate. }
  assert (Pre_notold : forall k x t, k <= no st -> mainb (dur n0) k = Some x -> In t (txs x) ->
            forall o, In o olds -> ~ In t (txs o)).
  { intros k x t Hk Hx Hin o Hoo Hto. apply Holds in Hoo. destruct Hoo as (ko & H1 & H2 & H3).
    destruct (i_path _ _ _ _ _ I (ko - 1)) as (p & b & P1 & P2 & P3 & P4); [lia|].
    replace (ko - 1 + 1) with ko in P2 by lia. rewrite H3 in P2. inversion P2; subst b.
    destruct (apply_fresh _ _ _ P4) as (_ & Hf').
    assert (spent (root p) t = true) by (eapply (i_spent _ _ _ _ _ I k (ko - 1)); eauto; lia).
    rewrite (Hf' t Hto) in H. discriminate. }
  assert (Newtx : forall i c j t, nth_error L i = Some c -> nth_error (txs c) j = Some t ->
            dF (KTx t) = Some (VTxIdx (hash_field c) j)).
  { intros i c j t Hi Hj. rewrite RT.
    assert (Hin : In t (concat (map txs L))).
    { apply in_concat. exists (txs c). split; [apply in_map; eapply nth_error_In; eauto|eapply nth_error_In; eauto]. }
    assert (Em : mem t (old_only_txs olds news) = false).
    { apply mem_false. unfold old_only_txs. intro H. apply filter_In in H. destruct H as (_ & H).
      unfold new_txs in H. apply negb_true_iff in H. apply mem_false in H. apply H.
      apply in_concat in Hin. destruct Hin as (l & Hl1 & Hl2). apply in_map_iff in Hl1. destruct Hl1 as (b & <- & Hb').
      apply in_concat. exists (txs b). split; auto. apply in_map. apply FinL. auto. }
    rewrite Em. fold L. eapply txmaps_in; eauto. }
  assert (Oldtx : forall t, ~ In t (concat (map txs L)) -> (forall o, In o olds -> ~ In t (txs o)) ->
            dF (KTx t) = (dur n0) (KTx t)).
  { intros t H1 H2. rewrite RT.
    assert (Em : mem t (old_only_txs olds news) = false).
    { apply mem_false. unfold old_only_txs. intro H. apply filter_In in H. destruct H as (H & _).
      apply (proj1 (dedup_In _ _)) in H. apply in_concat in H. destruct H as (l & Hl1 & Hl2).
      apply in_map_iff in Hl1. destruct Hl1 as (o & <- & Hoo'). eapply H2; eauto. }
    rewrite Em. fold L. rewrite txmaps_notin by auto.
    unfold apply_unit. rewrite !apply_ops_lookup. cbn [del_receipts_unit u_ops].
    rewrite del_receipts_lookup, existsb_false_all by (intros; reflexivity).
    cbn [marker_write_unit u_ops lookup_ops fst snd dkey_eqb]. apply Hf; intros; discriminate. }
  constructor; fold dF; rewrite ?Rb.
  - unfold get_latest. rewrite RL. reflexivity.
  - apply (Mnew _ _ Hit).
  - destruct (i_gen _ _ _ _ _ I) as (G0 & G1). split; auto. rewrite Mold by lia. exact G0.
  - intros k x Hk Hx. destruct (Mchar _ _ Hk Hx) as [(Hle & Hx')|(i & Hi & Hn)]; auto.
    apply (i_no _ _ _ _ _ I k x); auto. lia.
  - intros k Hk. destruct (N.lt_ge_cases k (no st)) as [Hlt|Hge].
    + destruct (i_path _ _ _ _ _ I k) as (p & b & P1 & P2 & P3 & P4); [lia|].
      exists p, b. rewrite !Mold by lia. auto.
    + set (i := N.to_nat (k - no st)).
      assert (Hi : (i < length L)%nat) by (unfold i; lia).
      destruct (nth_error L i) as [b|] eqn:Eb; [|apply nth_error_None in Eb; lia].
      assert (Hnb : no b = k + 1) by (rewrite (Fno _ _ Eb); unfold i; lia).
      destruct i as [|i'] eqn:Ei.
      * assert (k = no st) by (unfold i in Ei; lia). subst k.
        exists st, b. rewrite Mold by lia. rewrite <- Hnb, (Mnew _ _ Eb). repeat split; auto.
        -- eapply linked_first; eauto.
        -- destruct L as [|x L']; [discriminate|]. simpl in Eb. inversion Eb; subst. apply Hv.
      * assert (Hi' : (i' < length L)%nat) by lia.
        destruct (nth_error L i') as [a|] eqn:Ea; [|apply nth_error_None in Ea; lia].
        assert (Hna : no a = k) by (rewrite (Fno _ _ Ea); unfold i in Ei; lia).
        exists a, b. rewrite <- Hna at 1. rewrite (Mnew _ _ Ea). rewrite <- Hnb, (Mnew _ _ Eb). repeat split; auto.
        -- eapply linked_succ; eauto.
        -- eapply valid_chain_step; eauto.
  - intros k Hk. rewrite RH, Fnone.
    + rewrite Hf by (intros; discriminate). apply (i_above _ _ _ _ _ I). lia.
    + intros c Hc. destruct (In_nth_error _ _ Hc) as (i & Hi). pose proof (Fidx _ _ Hi). rewrite (Fno _ _ Hi). lia.
  - rewrite Rs, Hsdb. destruct (valid_chain_prefix _ _ _ _ Hv Hit) as (_ & E).
    rewrite <- E. f_equal. rewrite <- Hlen. symmetry. apply firstn_all.
  - intros k x Hk Hx. unfold has_state_marker. rewrite RS. fold (has_state_marker (dur n2) (root x)).
    destruct (Mchar _ _ Hk Hx) as [(Hle & Hx')|(i & Hi & Hn)].
    + apply Hsm. eapply (i_state _ _ _ _ _ I); eauto. lia.
    + apply Hnew. eapply nth_error_In; eauto.
  - intros k x Hk Hx Htx. unfold has_receipts. rewrite RR.
    assert (Hex : existsb (fun b => dkey_eqb (KReceipts (hash_field b) (no b)) (KReceipts (hash_field x) (no x))) olds = false).
    { apply existsb_false_all. intros o Hoo. apply dkey_eqb_neq. intro E. inversion E as [[E1 E2]].
      pose proof Hoo as Ho'. apply Holds in Ho'. destruct Ho' as (ko & K1 & K2 & K3).
      pose proof (i_no _ _ _ _ _ I _ _ K2 K3) as Hko.
      destruct (Mchar _ _ Hk Hx) as [(Hle & Hx')|(i & Hi & Hn)].
      - pose proof (i_no _ _ _ _ _ I k x ltac:(lia) Hx'). lia.
      - apply (Hdiff x o); auto.
        + apply FinL. eapply nth_error_In; eauto.
        + lia.
        + rewrite <- E2, Hko. exact K3. }
    rewrite Hex. fold (has_receipts (dur n2) (hash_field x) (no x)).
    destruct (Mchar _ _ Hk Hx) as [(Hle & Hx')|(i & Hi & Hn)].
    + apply Hrc. eapply (i_rcpt _ _ _ _ _ I); eauto. lia.
    + apply Hnew; auto. eapply nth_error_In; eauto.
  - intros k x i t Hk Hx Hn.
    destruct (Mchar _ _ Hk Hx) as [(Hle & Hx')|(j & Hj & Hnj)].
    + rewrite Oldtx.
      * eapply (i_tx _ _ _ _ _ I); eauto. lia.
      * eapply Pre_notnew; eauto. eapply nth_error_In; eauto.
      * eapply Pre_notold; eauto. eapply nth_error_In; eauto.
    + eapply Newtx; eauto.
  - intros t id i Ht. rewrite RT in Ht.
    destruct (mem t (old_only_txs olds news)); [discriminate|]. fold L in Ht.
    destruct (in_dec N.eq_dec t (concat (map txs L))) as [Hin|Hnin].
    + apply in_concat in Hin. destruct Hin as (l & Hl1 & Hl2). apply in_map_iff in Hl1. destruct Hl1 as (c & <- & Hc).
      destruct (In_nth_error _ _ Hc) as (j & Hj). destruct (In_nth_error _ _ Hl2) as (i' & Hi').
      rewrite (txmaps_in _ _ _ _ _ _ Hnd Hj Hi') in Ht. inversion Ht; subst.
      exists c. split; auto. rewrite GBF. apply Hstored. apply FinL. auto.
    + rewrite txmaps_notin in Ht by auto.
      unfold apply_unit in Ht. rewrite !apply_ops_lookup in Ht. cbn [del_receipts_unit u_ops] in Ht.
      rewrite del_receipts_lookup, existsb_false_all in Ht by (intros; reflexivity).
      cbn [marker_write_unit u_ops lookup_ops fst snd dkey_eqb] in Ht. rewrite Hf in Ht by (intros; discriminate).
      destruct (i_txsound _ _ _ _ _ I _ _ _ Ht) as (b & B1 & B2). exists b. split; auto. rewrite GBF. exact B1.
  - intros j k bj bk t Hjk Hk Hmj Hmk Hin.
    destruct (Mchar _ _ Hk Hmk) as [(Hle & Hk')|(ik & Hik & Hnk)].
    + destruct (Mchar j bj ltac:(lia) Hmj) as [(Hlej & Hj')|(ij & Hij & Hnj)].
      * eapply (i_spent _ _ _ _ _ I j k); eauto. lia.
      * pose proof (Fno _ _ Hij). lia.
    + destruct (Mchar j bj ltac:(lia) Hmj) as [(Hlej & Hj')|(ij & Hij & Hnj)].
      * eapply chain_spent_from_root; eauto.
      * eapply (chain_spent_from_member L (root st) ij ik); eauto.
        pose proof (Fno _ _ Hij). pose proof (Fno _ _ Hik). lia.
  - exact RM.
  - intros id x. rewrite RB, Hf by (intros; discriminate). apply (i_univ _ _ _ _ _ I).
  - rewrite Ro, Ho. apply (i_orph _ _ _ _ _ I).
  - rewrite Rs. unfold nF. rewrite swap_chain_pmem. exact Hpm.
Qed.

End Reorg.

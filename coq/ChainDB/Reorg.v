(** Reorganisation: gather, rollforward, swapChain keep the C05 invariant. *)
From Coq Require Import NArith List Bool Lia PeanoNat.
From Verif Require Import ChainDB.Model ChainDB.Basics ChainDB.Inv.
Import ListNotations.
Open Scope N_scope.

(** parent-linked, consecutively numbered list of blocks (oldest first) above [p] *)
Fixpoint linked (p : block) (l : list block) : Prop :=
  match l with
  | [] => True
  | b :: l' => prev b = hash_field p /\ no b = no p + 1 /\ linked b l'
  end.

Lemma linked_nth p l : forall i c, linked p l -> nth_error l i = Some c -> no c = no p + 1 + N.of_nat i.
Proof.
  revert p. induction l as [|b l IH]; intros p i c H Hn.
  - destruct i; discriminate.
  - destruct H as (H1 & H2 & H3). destruct i; simpl in Hn.
    + inversion Hn; subst. lia.
    + rewrite (IH _ _ _ H3 Hn). lia.
Qed.
Lemma linked_no_gt p l c : linked p l -> In c l -> no p < no c.
Proof. intros H Hin. destruct (In_nth_error _ _ Hin) as (i & Hi). rewrite (linked_nth _ _ _ _ H Hi). lia. Qed.
Lemma linked_no_inj p l i j ci cj : linked p l -> nth_error l i = Some ci -> nth_error l j = Some cj ->
  no ci = no cj -> i = j.
Proof. intros H Hi Hj E. rewrite (linked_nth _ _ _ _ H Hi), (linked_nth _ _ _ _ H Hj) in E. lia. Qed.
Lemma linked_succ p l i a b : linked p l -> nth_error l i = Some a -> nth_error l (S i) = Some b ->
  prev b = hash_field a.
Proof.
  revert p i. induction l as [|x l IH]; intros p i H Ha Hb; [destruct i; discriminate|].
  destruct H as (H1 & H2 & H3). destruct i; simpl in *.
  - inversion Ha; subst. destruct l; try discriminate. inversion Hb; subst. apply H3.
  - eapply IH; eauto.
Qed.
Lemma linked_first p l b : linked p l -> nth_error l 0 = Some b -> prev b = hash_field p.
Proof. destruct l; simpl; intros H E; inversion E; subst. apply H. Qed.

Lemma nodup_app_intro (l1 l2 : list N) : NoDup l1 -> NoDup l2 -> (forall x, In x l1 -> In x l2 -> False) -> NoDup (l1 ++ l2).
Proof.
  induction l1 as [|a l1 IH]; simpl; intros H1 H2 H; auto.
  inversion H1; subst. constructor.
  - intro Hin. apply in_app_or in Hin. destruct Hin; auto. eapply H; eauto.
  - apply IH; auto. intros x Hx. apply H. auto.
Qed.

Section Reorg.
Variable apply : sroot -> block -> option sroot.
Variable f7_fixed : bool.
Variable orphan_cap : nat.
Variable spent : sroot -> txid -> bool.
Hypothesis apply_fresh : forall r b r', apply r b = Some r' ->
  NoDup (txs b) /\ forall t, In t (txs b) -> spent r t = false.
Hypothesis apply_spent : forall r b r' t, apply r b = Some r' ->
  spent r' t = spent r t || mem t (txs b).
Variable U : block -> Prop.
Hypothesis U_inj : forall a b, U a -> U b -> hash_field a = hash_field b -> a = b.
Variable g : block.
Notation Inv := (Inv apply spent U g).

(** executable chain of blocks: each executes on its predecessor's root to its own header root *)
Fixpoint valid_chain (r : sroot) (l : list block) : Prop :=
  match l with
  | [] => True
  | b :: l' => apply r b = Some (root b) /\ valid_chain (root b) l'
  end.

Fixpoint end_root (r : sroot) (l : list block) : sroot :=
  match l with [] => r | b :: l' => end_root (root b) l' end.

Lemma valid_chain_spent l : forall r t, valid_chain r l ->
  spent (end_root r l) t = spent r t || mem t (concat (map txs l)).
Proof.
  induction l as [|b l IH]; intros r t H; simpl.
  - rewrite orb_false_r. reflexivity.
  - destruct H as (H1 & H2). rewrite (IH _ t H2). rewrite (apply_spent _ _ _ t H1).
    unfold mem. rewrite existsb_app. rewrite orb_assoc. reflexivity.
Qed.

Lemma valid_chain_fresh l : forall r, valid_chain r l ->
  NoDup (concat (map txs l)) /\ forall t, In t (concat (map txs l)) -> spent r t = false.
Proof.
  induction l as [|b l IH]; intros r H; simpl.
  - split; [constructor|contradiction].
  - destruct H as (H1 & H2). destruct (IH _ H2) as (Hnd & Hf).
    destruct (apply_fresh _ _ _ H1) as (Hndb & Hfb).
    split.
    + apply nodup_app_intro; auto. intros t Hb Hl.
      specialize (Hf t Hl). rewrite (apply_spent _ _ _ t H1) in Hf.
      apply mem_In in Hb. rewrite Hb, orb_true_r in Hf. discriminate.
    + intros t Hin. apply in_app_or in Hin. destruct Hin as [Hin|Hin]; auto.
      specialize (Hf t Hin). rewrite (apply_spent _ _ _ t H1) in Hf.
      apply orb_false_iff in Hf. tauto.
Qed.

(** ** gather *)
Section Gather.
Variable d : store.
Variable bestno : N.
Hypothesis stored_U : forall id x, get_block d id = Some x -> U x /\ hash_field x = id.
Hypothesis main_no : forall k x, k <= bestno -> mainb d k = Some x -> no x = k.
Hypothesis main_stored : forall k x, mainb d k = Some x -> get_block d (hash_field x) = Some x.

Definition acc_ok (top cur : block) (news olds : list block) : Prop :=
  get_block d (hash_field cur) = Some cur /\
  linked cur (rev news) /\
  (forall c, In c news -> get_block d (hash_field c) = Some c) /\
  (forall c m, In c news -> no c <= bestno -> mainb d (no c) = Some m -> hash_field c <> hash_field m) /\
  (forall x, In x olds <-> exists k, no cur < k /\ k <= bestno /\ mainb d k = Some x) /\
  (news = [] -> cur = top) /\ (news <> [] -> hd cur news = top).

Lemma gather_spec fuel : forall top cur news olds st news' olds',
  acc_ok top cur news olds ->
  gather fuel d bestno cur news olds = Some (st, news', olds') ->
  mainb d (no st) = Some st /\ no st < bestno /\
  news' <> [] /\ hd st news' = top /\
  linked st (rev news') /\
  (forall c, In c news' -> get_block d (hash_field c) = Some c) /\
  (forall c m, In c news' -> no c <= bestno -> mainb d (no c) = Some m -> hash_field c <> hash_field m) /\
  (forall x, In x olds' <-> exists k, no st < k /\ k <= bestno /\ mainb d k = Some x).
Proof.
  induction fuel as [|f IH]; intros top cur news olds st news' olds' A G; simpl in G; [discriminate|].
  destruct A as (Acur & Alink & Astored & Adiff & Aolds & Atop0 & Atop1).
  (* the common "step" *)
  assert (STEP : forall olds2,
    (forall x, In x olds2 <-> exists k, no cur - 1 < k /\ k <= bestno /\ mainb d k = Some x) ->
    (no cur <= bestno -> forall m, mainb d (no cur) = Some m -> hash_field cur <> hash_field m) ->
    (if no cur =? 0 then None
     else match get_block d (prev cur) with
          | None => None
          | Some p => if no cur - 1 =? no p then gather f d bestno p (news ++ [cur]) olds2 else None
          end) = Some (st, news', olds') ->
    mainb d (no st) = Some st /\ no st < bestno /\ news' <> [] /\ hd st news' = top /\
    linked st (rev news') /\
    (forall c, In c news' -> get_block d (hash_field c) = Some c) /\
    (forall c m, In c news' -> no c <= bestno -> mainb d (no c) = Some m -> hash_field c <> hash_field m) /\
    (forall x, In x olds' <-> exists k, no st < k /\ k <= bestno /\ mainb d k = Some x)).
  { intros olds2 Holds2 Hdiff S.
    destruct (no cur =? 0) eqn:E0; [discriminate|]. apply N.eqb_neq in E0.
    destruct (get_block d (prev cur)) as [p|] eqn:Ep; [|discriminate].
    destruct (no cur - 1 =? no p) eqn:En; [|discriminate]. apply N.eqb_eq in En.
    destruct (stored_U _ _ Ep) as (Up & Hp).
    eapply IH; [|exact S].
    unfold acc_ok. repeat split.
    - rewrite Hp. exact Ep.
    - rewrite rev_app_distr. simpl. repeat split; auto. lia.
    - intros c Hc. apply in_app_or in Hc. destruct Hc as [Hc|[<-|[]]]; auto.
    - intros c m Hc. apply in_app_or in Hc. destruct Hc as [Hc|[<-|[]]]; eauto.
    - intros Hx. apply Holds2 in Hx. destruct Hx as (k & H1 & H2 & H3). exists k. repeat split; auto. lia.
    - intros (k & H1 & H2 & H3). apply Holds2. exists k. repeat split; auto. lia.
    - intros Hnil. destruct news; discriminate.
    - intros _. destruct news as [|c news]; simpl.
      + apply Atop0. reflexivity.
      + apply (Atop1 ltac:(discriminate)). }
  destruct (no cur <=? bestno) eqn:Ele.
  - apply N.leb_le in Ele.
    fold (mainb d (no cur)) in G.
    destruct (mainb d (no cur)) as [m|] eqn:Em; [|discriminate].
    destruct (hash_field cur =? hash_field m) eqn:Eh.
    + apply N.eqb_eq in Eh.
      destruct (bestno =? no cur) eqn:Eb; [discriminate|]. apply N.eqb_neq in Eb.
      assert (cur = m).
      { destruct (stored_U _ _ Acur) as (Uc & _).
        destruct (stored_U _ _ (main_stored _ _ Em)) as (Um & _). apply U_inj; auto. }
      subst m.
      destruct news as [|c news]; [discriminate|].
      destruct olds as [|o olds]; [discriminate|].
      inversion G; subst. repeat split; auto; try lia; try discriminate.
      * apply Atop1. discriminate.
      * apply Aolds.
      * apply Aolds.
    + apply N.eqb_neq in Eh. eapply STEP; [| |exact G].
      * intros x. split.
        -- intros Hx. apply in_app_or in Hx. destruct Hx as [Hx|[<-|[]]].
           ++ apply Aolds in Hx. destruct Hx as (k & H1 & H2 & H3). exists k. repeat split; auto. lia.
           ++ exists (no cur). repeat split; auto.
              assert (no cur <> 0) by (intro E; rewrite E in G; simpl in G; discriminate). lia.
        -- intros (k & H1 & H2 & H3). apply in_or_app.
           destruct (N.eq_dec k (no cur)) as [->|Hne].
           ++ right. left. congruence.
           ++ left. apply Aolds. exists k. repeat split; auto. lia.
      * intros _ m' Hm'. congruence.
  - apply N.leb_gt in Ele. eapply STEP; [| |exact G].
    + intros x. rewrite Aolds. split; intros (k & H1 & H2 & H3); exists k; repeat split; auto; lia.
    + intros. lia.
Qed.

End Gather.

End Reorg.

(** What one arrival does to the main chain: either it extends it (no MemPoolPut), or it
    reorganises it at a branch root at or above the LIB towards a strictly longer branch and
    hands back exactly txs(old) \ txs(new).  Basis of the C07 theorems no_displace,
    below_lib_never_displaces, returned_txs. *)
From Coq Require Import NArith List Bool Lia PeanoNat.
From Verif Require Import ChainDB.Model ChainDB.Basics ChainDB.Inv ChainDB.Reorg ChainDB.AddBlock ChainDB.Fork.
Import ListNotations.
Open Scope N_scope.

Definition puts_of (l : list event) : list txid :=
  concat (map (fun e => match e with EvMemPoolPut t => [t] | _ => [] end) l).
Lemma puts_of_app a b : puts_of (a ++ b) = puts_of a ++ puts_of b.
Proof. unfold puts_of. rewrite map_app, concat_app. reflexivity. Qed.

Definition Ext (n n' : node) : Prop :=
  (best n' = best n \/ no (best n) < no (best n')) /\
  (forall k, k <= no (best n) -> mainb (dur n') k = mainb (dur n) k) /\
  (exists new, evs n' = new ++ evs n /\ puts_of new = []) /\ lib n' = lib n.

Lemma Ext_refl n : Ext n n.
Proof. repeat split; auto. exists []. auto. Qed.
Lemma Ext_trans a b c : Ext a b -> Ext b c -> Ext a c.
Proof.
  intros (A1 & A2 & (na & A3 & A4) & A5) (B1 & B2 & (nb & B3 & B4) & B5).
  assert (Hle : no (best a) <= no (best b)) by (destruct A1 as [->|]; lia).
  repeat split.
  - destruct A1 as [E|L1]; destruct B1 as [E2|L2].
    + left. congruence.
    + right. rewrite <- E. exact L2.
    + right. rewrite E2. exact L1.
    + right. lia.
  - intros k Hk. rewrite B2 by lia. apply A2. exact Hk.
  - exists (nb ++ na). rewrite B3, A3, app_assoc. split; auto. rewrite puts_of_app, A4, B4. reflexivity.
  - congruence.
Qed.
Lemma Ext_same_fields n n' : best n' = best n -> dur n' = dur n -> lib n' = lib n ->
  (exists new, evs n' = new ++ evs n /\ puts_of new = []) -> Ext n n'.
Proof. intros Hb Hd Hl He. repeat split; auto. intros. rewrite Hd. reflexivity. Qed.

Definition Reorged (n n' : node) : Prop :=
  exists st news olds,
    no st < no (best n) /\ lib n <= no st /\ no (best n) < no (best n') /\
    (forall k, k <= no st -> mainb (dur n') k = mainb (dur n) k) /\
    (forall x, In x olds <-> exists k, no st < k /\ k <= no (best n) /\ mainb (dur n) k = Some x) /\
    (forall x, In x news <-> exists k, no st < k /\ k <= no (best n') /\ mainb (dur n') k = Some x) /\
    (exists new, evs n' = new ++ evs n /\ forall t, In t (puts_of new) <-> In t (old_only_txs olds news)) /\
    lib n' = lib n.

(** ** events *)
Lemma execute_block_evs apply n b n' : execute_block apply n b = Some n' ->
  evs n' = EvMemPoolDel (hash_field b) :: evs n.
Proof.
  unfold execute_block. destruct (pmem n =? sdb_root n); [|discriminate]. destruct (exec_ok apply (sdb_root n) b); [|discriminate].
  intros H. inversion H; subst; clear H. simpl.
  match goal with |- context [emit_ne ?x ?u] => destruct (emit_ne_fields x u) as (_ & _ & _ & _ & _ & F) end.
  rewrite F. reflexivity.
Qed.
Lemma rollforward_evs apply L : forall n n2 ok, rollforward apply n L = (n2, ok) ->
  exists new, evs n2 = new ++ evs n /\ puts_of new = [].
Proof.
  induction L as [|b L IH]; intros n n2 ok H; simpl in H.
  - inversion H; subst. exists []. auto.
  - destruct (execute_block apply n b) as [n1|] eqn:Ex.
    + destruct (IH _ _ _ H) as (new & E & P). exists (new ++ [EvMemPoolDel (hash_field b)]).
      rewrite E, (execute_block_evs _ _ _ _ Ex), <- app_assoc. split; auto.
      rewrite puts_of_app, P. reflexivity.
    + inversion H; subst. exists []. auto.
Qed.
Lemma fold_emit_ne_evs (f : block -> wunit) L : forall n,
  evs (fold_left (fun n b => emit_ne n (f b)) L n) = evs n.
Proof.
  induction L as [|b L IH]; intros n; simpl; auto. rewrite IH.
  destruct (emit_ne_fields n (f b)) as (_ & _ & _ & _ & _ & F). exact F.
Qed.
Lemma fold_tell_evs L : forall n,
  evs (fold_left (fun n t => tell n (EvMemPoolPut t)) L n) = rev (map EvMemPoolPut L) ++ evs n.
Proof.
  induction L as [|t L IH]; intros n; simpl; auto. rewrite IH. simpl. rewrite <- app_assoc. reflexivity.
Qed.
Lemma puts_of_map_put L : puts_of (map EvMemPoolPut L) = L.
Proof. induction L as [|t L IH]; simpl; auto. unfold puts_of in *. simpl. rewrite IH. reflexivity. Qed.
Lemma puts_of_rev_in l t : In t (puts_of (rev l)) <-> In t (puts_of l).
Proof.
  unfold puts_of. rewrite map_rev. rewrite !in_concat. split; intros (x & H1 & H2); exists x; split; auto.
  - apply in_rev. exact H1.
  - apply in_rev in H1. exact H1.
Qed.

Lemma swap_chain_evs n m top news olds :
  exists new, evs (swap_chain n m top news olds false) = new ++ evs n /\
              forall t, In t (puts_of new) <-> In t (old_only_txs olds news).
Proof.
  unfold swap_chain. simpl evs.
  set (ret := old_only_txs olds news).
  rewrite fold_tell_evs.
  match goal with |- context [emit_ne ?x (txdel_unit ret)] => destruct (emit_ne_fields x (txdel_unit ret)) as (_ & _ & _ & _ & _ & F) end.
  rewrite F, fold_emit_ne_evs.
  match goal with |- context [emit_ne ?x (del_receipts_unit olds)] => destruct (emit_ne_fields x (del_receipts_unit olds)) as (_ & _ & _ & _ & _ & F2) end.
  rewrite F2. simpl evs.
  exists (rev (map EvMemPoolPut ret)). split; auto.
  intros t. rewrite puts_of_rev_in, puts_of_map_put. tauto.
Qed.

(** main chain after swapChain: unchanged up to the branch root, the new blocks above it *)
Lemma swap_main n0 n2 m top news olds st :
  (forall k, (forall r, k <> KStateMarker r) -> (forall i j, k <> KReceipts i j) -> dur n2 k = dur n0 k) ->
  news <> [] -> hd st news = top -> linked st (rev news) ->
  (forall c, In c news -> get_block (dur n0) (hash_field c) = Some c) ->
  let nF := swap_chain n2 m top news olds false in
  (forall k, k <= no st -> mainb (dur nF) k = mainb (dur n0) k) /\
  (forall x, In x news <-> exists k, no st < k /\ k <= no top /\ mainb (dur nF) k = Some x).
Proof.
  intros Hf Hne Hhd Hl Hstored nF.
  destruct (swap_chain_reads n2 m top news olds st Hl)
    as (Rb & Rs & Ro & Rbad & Rlib & RM & RL & RH & RB & RS & RR & RT).
  fold nF in Rb, Rs, Ro, Rbad, Rlib, RM, RL, RH, RB, RS, RR, RT.
  set (L := rev news) in *. set (dF := dur nF) in *.
  assert (Ftop : exists it, nth_error L it = Some top /\ length L = S it).
  { destruct news as [|c news']; [contradiction|]. simpl in Hhd. subst c.
    exists (length (rev news')). unfold L. simpl. split.
    - rewrite nth_error_app2 by lia. rewrite Nat.sub_diag. reflexivity.
    - rewrite app_length. simpl. lia. }
  destruct Ftop as (it & Hit & Hlen).
  assert (Fno : forall i c, nth_error L i = Some c -> no c = no st + 1 + N.of_nat i) by (intros; eapply linked_nth; eauto).
  assert (Ftopno : no top = no st + 1 + N.of_nat it) by (apply Fno; auto).
  assert (Fidx : forall i c, nth_error L i = Some c -> (i <= it)%nat).
  { intros i c Hi. assert (i < length L)%nat by (apply nth_error_Some; congruence). lia. }
  assert (FinL : forall c, In c L <-> In c news) by (intros; unfold L; rewrite <- in_rev; tauto).
  assert (GBF : forall id, get_block dF id = get_block (dur n0) id).
  { intros id. apply get_block_ext. unfold dF. rewrite RB. apply Hf; intros; discriminate. }
  assert (HHF : forall k, get_hash_by_no dF k = match find (fun c => no c =? k) L with
                                                | Some c => Some (hash_field c) | None => get_hash_by_no (dur n0) k end).
  { intros k. unfold get_hash_by_no, dF. rewrite RH. destruct (find (fun c => no c =? k) L); auto.
    rewrite Hf by (intros; discriminate). reflexivity. }
  assert (Mnew : forall i c, nth_error L i = Some c -> mainb dF (no c) = Some c).
  { intros i c Hi. unfold mainb, get_block_by_no. rewrite HHF, (find_linked _ _ _ _ Hl Hi).
    rewrite GBF. apply Hstored. apply FinL. eapply nth_error_In; eauto. }
  assert (Fnone : forall k, (forall c, In c L -> no c <> k) -> find (fun c => no c =? k) L = None).
  { intros k H. destruct (find (fun c => no c =? k) L) as [c|] eqn:E; auto.
    apply find_some in E. destruct E as (Hin & E). apply N.eqb_eq in E. exfalso. eapply H; eauto. }
  split.
  - intros k Hk. unfold mainb, get_block_by_no. rewrite HHF, Fnone.
    + destruct (get_hash_by_no (dur n0) k); auto.
    + intros c Hc. pose proof (linked_no_gt _ _ _ Hl Hc). lia.
  - intros x. split.
    + intros Hx. apply FinL in Hx. destruct (In_nth_error _ _ Hx) as (i & Hi).
      exists (no x). pose proof (Fno _ _ Hi). pose proof (Fidx _ _ Hi). repeat split; try lia. eapply Mnew; eauto.
    + intros (k & H1 & H2 & H3). apply FinL.
      set (i := N.to_nat (k - no st - 1)).
      assert (Hi : (i < length L)%nat) by (unfold i; lia).
      destruct (nth_error L i) as [c|] eqn:Ec; [|apply nth_error_None in Ec; lia].
      assert (no c = k) by (rewrite (Fno _ _ Ec); unfold i; lia).
      rewrite <- H in H3. rewrite (Mnew _ _ Ec) in H3. inversion H3; subst. eapply nth_error_In; eauto.
Qed.

Section Trace.
Variable apply : sroot -> block -> option sroot.
Variable orphan_cap : nat.
Variable f27 : bool.
Variable spent : sroot -> txid -> bool.
Hypothesis apply_fresh : forall r b r', apply r b = Some r' ->
  NoDup (txs b) /\ forall t, In t (txs b) -> spent r t = false.
Hypothesis apply_spent : forall r b r' t, apply r b = Some r' ->
  spent r' t = spent r t || mem t (txs b).
Variable U : block -> Prop.
Hypothesis U_inj : forall a b, U a -> U b -> hash_field a = hash_field b -> a = b.
Variable g : block.
Notation Inv := (Inv apply spent U g).

Lemma mainb_mono n d' :
  Inv n -> (forall k, k <= no (best n) -> d' (KHeight k) = dur n (KHeight k)) ->
  (forall id x, get_block (dur n) id = Some x -> get_block d' id = Some x) ->
  forall k, k <= no (best n) -> mainb d' k = mainb (dur n) k.
Proof.
  intros I Hh GB k Hk. destruct (main_total _ _ _ _ _ I k Hk) as (x & Hx). rewrite Hx.
  unfold mainb, get_block_by_no, get_hash_by_no in *. rewrite Hh by auto.
  destruct (dur n (KHeight k)) as [[]|]; try discriminate. apply GB. exact Hx.
Qed.

Lemma connect_main_ext n b n' :
  Inv n -> U b -> prev b = hash_field (best n) -> no b = no (best n) + 1 ->
  connect_main apply n b = Some n' -> Ext n n'.
Proof.
  intros I Ub Hp Hn Hc.
  destruct (connect_main_inv apply spent apply_fresh apply_spent U U_inj g _ _ _ I Ub Hp Hn Hc)
    as (I' & Hb' & _ & _ & Hl' & GB & _).
  unfold connect_main in Hc. destruct (execute_block apply n b) as [n1|] eqn:Ex; [|discriminate].
  inversion Hc; subst n'; clear Hc.
  destruct (execute_block_frame _ _ _ _ Ex) as (Hok & Fb & Fs & Fo & Fbad & Flib & Ff & Fm & Fr).
  unfold exec_ok in Hok. destruct (apply (sdb_root n) b) as [r'|] eqn:Eap; [|discriminate].
  destruct (apply_fresh _ _ _ Eap) as (Hnd & _).
  destruct (connect_unit_reads (dur n1) b Hnd) as (_ & RH & _).
  repeat split.
  - right. simpl. lia.
  - apply (mainb_mono n _ I); auto. intros k Hk. simpl. rewrite RH.
    destruct (no b =? k) eqn:E; [apply N.eqb_eq in E; lia|]. apply Ff; intros; discriminate.
  - exists [EvMemPoolDel (hash_field b)]. simpl. rewrite (execute_block_evs _ _ _ _ Ex). auto.
  - simpl. exact Flib.
Qed.

Lemma store_side_ext n b : Inv n -> U b -> Ext n (store_side n b).
Proof.
  intros I Ub. destruct (store_side_inv apply spent U U_inj g n b I Ub) as (_ & Hb & _ & _ & _ & Hl & GB & _ & Hf).
  repeat split; auto.
  - apply (mainb_mono n _ I); auto; try (intros k Hk; apply Hf; intros; discriminate).
  - exists []. auto.
Qed.

Lemma run_chain_ext fuel : forall main n b last n' ok last',
  Inv n -> U b ->
  (main = true -> prev b = hash_field (best n) /\ no b = no (best n) + 1) ->
  run_chain apply fuel main n b last = (n', ok, last') -> Ext n n'.
Proof.
  induction fuel as [|f IH]; intros main n b last n' ok last' I Ub Hm Hr; simpl in Hr.
  - inversion Hr; subst. apply Ext_refl.
  - destruct main.
    + destruct (Hm eq_refl) as (Hp & Hn).
      destruct (connect_main apply n b) as [n1|] eqn:Ec.
      2:{ inversion Hr; subst. apply Ext_refl. }
      pose proof (connect_main_ext _ _ _ I Ub Hp Hn Ec) as E1.
      destruct (connect_main_inv apply spent apply_fresh apply_spent U U_inj g _ _ _ I Ub Hp Hn Ec) as (I1 & B1 & O1 & _).
      unfold resolve_orphan in Hr.
      destruct (find_orphan (orphans n1) (hash_field b)) as [o|] eqn:Ef.
      2:{ inversion Hr; subst. exact E1. }
      destruct (no b + 1 =? no o) eqn:En.
      2:{ inversion Hr; subst. exact E1. }
      apply N.eqb_eq in En. destruct (find_orphan_In _ _ _ Ef) as (Hin & Hpo).
      assert (I2 : Inv (set_orphans n1 (remove_orphan (orphans n1) (hash_field b)))).
      { apply inv_set_orphans; auto. intros x Hx. apply (i_orph _ _ _ _ _ I1). eapply remove_orphan_In; eauto. }
      eapply Ext_trans; [exact E1|].
      eapply Ext_trans; [|eapply (IH true _ _ _ _ _ _ I2 (i_orph _ _ _ _ _ I1 _ Hin)); [|exact Hr]].
      * apply Ext_same_fields; auto. exists []. auto.
      * intros _. simpl. rewrite B1. split; [exact Hpo|lia].
    + pose proof (store_side_ext n b I Ub) as E1.
      destruct (store_side_inv apply spent U U_inj g n b I Ub) as (I1 & _).
      unfold resolve_orphan in Hr.
      destruct (find_orphan (orphans (store_side n b)) (hash_field b)) as [o|] eqn:Ef.
      2:{ inversion Hr; subst. exact E1. }
      destruct (no b + 1 =? no o) eqn:En.
      2:{ inversion Hr; subst. exact E1. }
      destruct (find_orphan_In _ _ _ Ef) as (Hin & Hpo).
      assert (I2 : Inv (set_orphans (store_side n b) (remove_orphan (orphans (store_side n b)) (hash_field b)))).
      { apply inv_set_orphans; auto. intros x Hx. apply (i_orph _ _ _ _ _ I1). eapply remove_orphan_In; eauto. }
      eapply Ext_trans; [exact E1|].
      eapply Ext_trans; [|eapply (IH false _ _ _ _ _ _ I2 (i_orph _ _ _ _ _ I1 _ Hin)); [|exact Hr]].
      * apply Ext_same_fields; auto. exists []. auto.
      * intros; discriminate.
Qed.

Lemma reorg_trace n top n' err :
  Inv n -> U top -> get_block (dur n) (hash_field top) = Some top -> no (best n) < no top ->
  reorg apply true n top = (n', err) -> Ext n n' \/ Reorged n n'.
Proof.
  intros I Ut Hst Hlt R. unfold reorg in R.
  destruct (gather (S (N.to_nat (no top))) (dur n) (no (best n)) top [] []) as [[[st news] olds]|] eqn:G.
  2:{ inversion R; subst. left. apply Ext_refl. }
  assert (ACC : acc_ok (dur n) (no (best n)) top top [] []).
  { unfold acc_ok. repeat split; simpl; auto; try contradiction.
    all: try (intros (k & H1 & H2 & _); lia).
    all: try (intros H; exfalso; apply H; reflexivity). }
  destruct (gather_spec U U_inj (dur n) (no (best n)) (fun id x H => inv_stored_U apply spent U g n id x I H)
              (fun k x H => inv_main_stored apply spent U g n k x I H) _ _ _ _ _ _ _ _ ACC G)
    as (Gst & Glt & Gne & Ghd & Glink & Gstored & Gdiff & Golds).
  destruct (no st <? lib n) eqn:El.
  { inversion R; subst. left. apply Ext_refl. }
  apply N.ltb_ge in El.
  destruct (rollforward apply (set_state n (root st)) (rev news)) as [n2 ok] eqn:RF.
  destruct (rollforward_frame apply _ _ _ _ RF) as (Fb & Fo & Fbad & Flib & Ff & Fm & Fr & Fok).
  destruct (rollforward_evs apply _ _ _ _ RF) as (new2 & Ev2 & Pu2).
  simpl in Fb, Fo, Fbad, Flib, Ff, Fm, Fr, Ev2.
  assert (GB2 : forall id x, get_block (dur n) id = Some x -> get_block (dur n2) id = Some x).
  { intros id x Hx. rewrite <- Hx. apply get_block_ext. apply Ff; intros; discriminate. }
  destruct ok.
  - inversion R; subst n' err; clear R. right.
    match goal with |- Reorged n (swap_chain n2 ?m top news olds false) =>
      destruct (swap_main n n2 m top news olds st Ff Gne Ghd Glink Gstored) as (Mold & Mnews);
      destruct (swap_chain_reads n2 m top news olds st Glink) as (Rb & _ & _ & _ & Rlib & _);
      destruct (swap_chain_evs n2 m top news olds) as (new3 & Ev3 & Pu3) end.
    exists st, news, olds. rewrite Rb.
    split; [exact Glt|]. split; [exact El|]. split; [exact Hlt|]. split; [exact Mold|].
    split; [exact Golds|]. split; [exact Mnews|]. split.
    + exists (new3 ++ new2). rewrite Ev3, Ev2, app_assoc. split; auto.
      intros t. rewrite puts_of_app, in_app_iff, Pu2, Pu3. simpl. tauto.
    + rewrite Rlib. exact Flib.
  - inversion R; subst n' err; clear R. left. repeat split; simpl; auto.
    + apply (mainb_mono n _ I); auto. intros k Hk. apply Ff; intros; discriminate.
    + exists new2. auto.
Qed.

(** One arrival either extends the main chain or (after storing side blocks) reorganises it. *)
Theorem add_block_trace n b :
  Inv n -> U b -> (f27 = true \/ no b <> 0) ->
  let n' := fst (add_block apply true f27 orphan_cap n b) in
  Ext n n' \/ (exists n1, Inv n1 /\ Ext n n1 /\ best n1 = best n /\ Reorged n1 n').
Proof.
  intros I Ub Hn0 n'. subst n'. unfold add_block.
  destruct (mem (hash_field b) (bad n)); [left; apply Ext_refl|].
  destruct (get_block (dur n) (hash_field b)); [left; apply Ext_refl|].
  assert (Hint : let m := fst (fst (add_block_internal apply true f27 orphan_cap n b)) in
                 Ext n m \/ (exists n1, Inv n1 /\ Ext n n1 /\ best n1 = best n /\ Reorged n1 m)).
  { unfold add_block_internal.
    destruct (get_block (dur n) (prev b)) as [p|] eqn:Ep.
    - destruct (is_main_chain f27 n b) as [main|] eqn:Em; [|left; apply Ext_refl].
      destruct (run_chain apply (S (length (orphans n))) main n b b) as [[n1 ok] last] eqn:RC.
      assert (Hm : main = true -> prev b = hash_field (best n) /\ no b = no (best n) + 1).
      { intros ->. eapply is_main_chain_true; eauto. }
      destruct (run_chain_inv apply spent apply_fresh apply_spent U U_inj g _ _ _ _ _ _ _ _ I Ub Hm RC)
        as (I1 & Bad1 & L1 & Hb1 & GB1 & Hl1).
      pose proof (run_chain_ext _ _ _ _ _ _ _ _ I Ub Hm RC) as E1.
      destruct ok; [|left; exact E1].
      destruct (negb main && (no (best n1) <? no last)) eqn:Er; [|left; exact E1].
      apply andb_true_iff in Er. destruct Er as (Em1 & E2). apply N.ltb_lt in E2.
      apply negb_true_iff in Em1. subst main.
      destruct (Hl1 eq_refl) as (Ul & Gl).
      destruct (reorg apply true n1 last) as [n2 e] eqn:R.
      destruct (reorg_trace _ _ _ _ I1 Ul Gl E2 R) as [E|Rg].
      + left. destruct e; simpl; eapply Ext_trans; eauto.
      + right. exists n1. destruct e; simpl; auto.
    - simpl. left. apply Ext_same_fields; auto. exists [EvSyncStart (no b)]. auto. }
  destruct (add_block_internal apply true f27 orphan_cap n b) as [[n1 r] c].
  simpl in Hint.
  assert (Hbad : forall l, Ext n n1 \/ (exists n0, Inv n0 /\ Ext n n0 /\ best n0 = best n /\ Reorged n0 n1) ->
            Ext n (set_bad n1 l) \/ (exists n0, Inv n0 /\ Ext n n0 /\ best n0 = best n /\ Reorged n0 (set_bad n1 l))).
  { intros l [E|(n0 & A & B & C & D)]; [left; exact E|right; exists n0; split; [exact A|split; [exact B|split; [exact C|exact D]]]]. }
  destruct r; simpl; auto. destruct c; simpl; auto.
Qed.

End Trace.

Definition confirmed (n : node) (t : txid) : Prop :=
  exists k b, k <= no (best n) /\ mainb (dur n) k = Some b /\ In t (txs b).

Section Final.
Variable apply : sroot -> block -> option sroot.
Variable orphan_cap : nat.
Variable f27 : bool.
Variable spent : sroot -> txid -> bool.
Hypothesis apply_fresh : forall r b r', apply r b = Some r' ->
  NoDup (txs b) /\ forall t, In t (txs b) -> spent r t = false.
Hypothesis apply_spent : forall r b r' t, apply r b = Some r' ->
  spent r' t = spent r t || mem t (txs b).
Variable U : block -> Prop.
Hypothesis U_inj : forall a b, U a -> U b -> hash_field a = hash_field b -> a = b.
Variable g : block.
Notation Inv := (Inv apply spent U g).

Lemma Ext_confirmed n n' t : Ext n n' -> confirmed n t -> confirmed n' t.
Proof.
  intros (A1 & A2 & _) (k & b & Hk & Hb & Hin). exists k, b. repeat split; auto.
  - destruct A1 as [->|]; lia.
  - rewrite A2; auto.
Qed.

Lemma reorged_puts n n' : Inv n -> Reorged n n' ->
  exists new, evs n' = new ++ evs n /\
    forall t, In t (puts_of new) <-> (confirmed n t /\ ~ confirmed n' t).
Proof.
  intros I (st & news & olds & Hst & Hlib & Hlt & Hpre & Holds & Hnews & (new & Ev & Pu) & _).
  exists new. split; auto. intros t. rewrite Pu. unfold old_only_txs. rewrite filter_In. split.
  - intros (Hin & Hnn). apply (proj1 (dedup_In _ _)) in Hin. apply in_concat in Hin.
    destruct Hin as (l & Hl1 & Hl2). apply in_map_iff in Hl1. destruct Hl1 as (o & <- & Ho).
    pose proof Ho as Ho'. apply Holds in Ho'. destruct Ho' as (ko & K1 & K2 & K3).
    split; [exists ko, o; auto|].
    intros (k' & x & Hk' & Hx & Hinx).
    destruct (N.le_gt_cases k' (no st)) as [Hle|Hgt].
    + rewrite Hpre in Hx by auto.
      destruct (i_path _ _ _ _ _ I (ko - 1)) as (p & b & P1 & P2 & P3 & P4); [lia|].
      replace (ko - 1 + 1) with ko in P2 by lia. rewrite K3 in P2. inversion P2; subst b.
      destruct (apply_fresh _ _ _ P4) as (_ & Hf').
      assert (spent (root p) t = true) by (eapply (i_spent _ _ _ _ _ I k' (ko - 1)); eauto; lia).
      rewrite (Hf' t Hl2) in H. discriminate.
    + apply negb_true_iff in Hnn. apply mem_false in Hnn. apply Hnn. unfold new_txs.
      apply in_concat. exists (txs x). split; auto. apply in_map. apply Hnews. exists k'. auto.
  - intros ((k & x & Hk & Hx & Hin) & Hnc).
    destruct (N.le_gt_cases k (no st)) as [Hle|Hgt].
    + exfalso. apply Hnc. exists k, x. repeat split; auto; try lia. rewrite Hpre; auto.
    + split.
      * apply dedup_In. apply in_concat. exists (txs x). split; auto. apply in_map. apply Holds. exists k. auto.
      * apply negb_true_iff. apply mem_false. intro Hc. apply Hnc. unfold new_txs in Hc.
        apply in_concat in Hc. destruct Hc as (l & Hl1 & Hl2). apply in_map_iff in Hl1. destruct Hl1 as (c & <- & Hc).
        apply Hnews in Hc. destruct Hc as (k'' & _ & K2 & K3). exists k'', c. auto.
Qed.

(** no_displace_equal_or_shorter: an arrival changes the best block only to a strictly higher
    one (an equal or shorter branch never displaces the incumbent; ties keep it). *)
Theorem no_displace_equal_or_shorter n b :
  Inv n -> U b -> (f27 = true \/ no b <> 0) ->
  let n' := fst (add_block apply true f27 orphan_cap n b) in
  best n' = best n \/ no (best n) < no (best n').
Proof.
  intros I Ub Hn0 n'. subst n'. destruct (add_block_trace apply orphan_cap f27 spent apply_fresh apply_spent U U_inj g n b I Ub Hn0)
    as [(A & _)|(n1 & I1 & E1 & Hb1 & (st & news & olds & _ & _ & Hlt & _))]; auto.
  right. rewrite <- Hb1. exact Hlt.
Qed.

(** below_lib_never_displaces: no arrival changes the main chain at or below the LIB. *)
Theorem below_lib_never_displaces n b :
  Inv n -> U b -> (f27 = true \/ no b <> 0) ->
  let n' := fst (add_block apply true f27 orphan_cap n b) in
  forall k, k <= lib n -> k <= no (best n) -> mainb (dur n') k = mainb (dur n) k.
Proof.
  intros I Ub Hn0 n' k Hk Hkb. subst n'. destruct (add_block_trace apply orphan_cap f27 spent apply_fresh apply_spent U U_inj g n b I Ub Hn0)
    as [(_ & A & _)|(n1 & I1 & (_ & E1 & _ & El) & Hb1 & (st & news & olds & _ & Hlib & _ & Hpre & _))]; auto.
  rewrite Hpre by lia. apply E1. exact Hkb.
Qed.

(** returned_txs: the MemPoolPut messages of an arrival are exactly the transactions that were
    confirmed (on the main chain) before it and are not confirmed after it, i.e.
    txs(old branch) \ txs(new branch); none unless the main chain is reorganised. *)
Theorem returned_txs n b :
  Inv n -> U b -> (f27 = true \/ no b <> 0) ->
  let n' := fst (add_block apply true f27 orphan_cap n b) in
  exists new, evs n' = new ++ evs n /\
    forall t, In t (puts_of new) <-> (confirmed n t /\ ~ confirmed n' t).
Proof.
  intros I Ub Hn0 n'. subst n'. destruct (add_block_trace apply orphan_cap f27 spent apply_fresh apply_spent U U_inj g n b I Ub Hn0)
    as [E|(n1 & I1 & E1 & Hb1 & Rg)].
  - pose proof E as (_ & _ & (new & Ev & Pu) & _). exists new. split; auto. intros t. rewrite Pu. simpl. split; [contradiction|].
    intros (C & NC). apply NC. eapply Ext_confirmed; eauto.
  - destruct (reorged_puts n1 _ I1 Rg) as (new3 & Ev3 & Pu3).
    pose proof E1 as (_ & E1m & (new1 & Ev1 & Pu1) & _).
    exists (new3 ++ new1). rewrite Ev3, Ev1, app_assoc. split; auto.
    intros t. rewrite puts_of_app, in_app_iff, Pu1, Pu3. simpl.
    assert (Hc : confirmed n1 t <-> confirmed n t).
    { split.
      - intros (k & x & Hk & Hx & Hin). exists k, x. rewrite Hb1 in Hk. repeat split; auto. rewrite <- E1m; auto.
      - apply Ext_confirmed. exact E1. }
    tauto.
Qed.

End Final.

(** ** best_is_longest_available *)
Section Longest.
Variable apply : sroot -> block -> option sroot.
Variable orphan_cap : nat.
Variable f27 : bool.
Variable spent : sroot -> txid -> bool.
Hypothesis apply_fresh : forall r b r', apply r b = Some r' ->
  NoDup (txs b) /\ forall t, In t (txs b) -> spent r t = false.
Hypothesis apply_spent : forall r b r' t, apply r b = Some r' ->
  spent r' t = spent r t || mem t (txs b).
Variable U : block -> Prop.
Hypothesis U_inj : forall a b, U a -> U b -> hash_field a = hash_field b -> a = b.
Variable g : block.
Notation Inv := (Inv apply spent U g).

(** [t] is the tip of a branch that is fully stored, parent-linked and consecutively numbered
    from a main-chain block [f] at or above the LIB, and executable from [f]'s state. *)
Definition avail (n : node) (t : block) : Prop :=
  exists f L L', mainb (dur n) (no f) = Some f /\ no f <= no (best n) /\ lib n <= no f /\
    linked f L /\ L = L' ++ [t] /\
    (forall c, In c L -> get_block (dur n) (hash_field c) = Some c) /\
    valid_chain apply (root f) L.
Definition Longest (n : node) : Prop := forall t, avail n t -> no t <= no (best n).

(** Step form (in-order delivery of the tip): when the arriving block completes a branch that
    is longer than the main chain, fully stored, valid, forking (at its fork point [f]) at or
    above the LIB and strictly below the tip, and no parked orphan is waiting for it, the node
    switches to it and its state becomes that branch's state. *)
Theorem best_is_longest_available_partial n b f L :
  Inv n -> U b -> (f27 = true \/ no b <> 0) ->
  mem (hash_field b) (bad n) = false -> get_block (dur n) (hash_field b) = None ->
  find_orphan (orphans n) (hash_field b) = None ->
  mainb (dur n) (no f) = Some f -> no f < no (best n) -> lib n <= no f ->
  linked f (L ++ [b]) ->
  (forall c, In c L -> get_block (dur n) (hash_field c) = Some c) ->
  (forall c m, In c L -> no c <= no (best n) -> mainb (dur n) (no c) = Some m -> hash_field c <> hash_field m) ->
  valid_chain apply (root f) (L ++ [b]) -> no (best n) < no b ->
  let r := add_block apply true f27 orphan_cap n b in
  snd r = ROk /\ best (fst r) = b /\ sdb_root (fst r) = root b /\ Inv (fst r).
Proof.
  intros I Ub Hn0 Hbad Hns Horph Hf Hflt Hlib Hl Hst Hnm Hv Htop r. subst r.
  destruct (store_side_inv apply spent U U_inj g n b I Ub) as (I1 & B1 & O1 & S1 & Bad1 & L1 & GB1 & GBb & F1).
  pose proof (store_side_ext apply spent U U_inj g n b I Ub) as (_ & M1 & _).
  (* the parent of b is stored *)
  assert (Hpar : exists p, get_block (dur n) (prev b) = Some p /\ hash_field p = prev b /\
                           (no p = no (best n) -> hash_field p <> hash_field (best n))).
  { destruct L as [|c L0] using rev_ind.
    - simpl in Hl. destruct Hl as (Hp & Hn & _). exists f. rewrite Hp. split; [|split; auto].
      + eapply inv_main_stored; eauto.
      + intros E. lia.
    - clear IHL0. rewrite <- app_assoc in Hl. simpl in Hl.
      assert (Hc : In c (L0 ++ [c])) by (apply in_or_app; right; left; reflexivity).
      assert (Hpb : prev b = hash_field c).
      { clear - Hl. revert f Hl. induction L0 as [|x L0 IH]; intros f Hl; simpl in Hl.
        - apply Hl.
        - destruct Hl as (_ & _ & Hl). eapply IH; eauto. }
      exists c. rewrite Hpb. split; [apply Hst; auto|split; auto].
      intros E. apply (Hnm c (best n)); auto; try lia. rewrite E. apply (i_best _ _ _ _ _ I). }
  destruct Hpar as (p & Hp & Hph & Hpne).
  assert (Hnb : no b = no p + 1).
  { destruct L as [|c L0] using rev_ind.
    - simpl in Hl. destruct Hl as (Hpp & Hn & _).
      assert (p = f). { destruct (inv_stored_U _ _ _ _ _ _ _ I Hp) as (Up & _).
        pose proof (inv_main_stored _ _ _ _ _ _ _ I Hf) as Hfs. destruct (inv_stored_U _ _ _ _ _ _ _ I Hfs) as (Uf & _).
        apply U_inj; auto. congruence. }
      subst p. exact Hn.
    - clear IHL0. rewrite <- app_assoc in Hl. simpl in Hl.
      assert (Hc : In c (L0 ++ [c])) by (apply in_or_app; right; left; reflexivity).
      assert (Hpb : prev b = hash_field c /\ no b = no c + 1).
      { clear - Hl. revert f Hl. induction L0 as [|x L0 IH]; intros f Hl; simpl in Hl.
        - split; apply Hl.
        - destruct Hl as (_ & _ & Hl). eapply IH; eauto. }
      destruct Hpb as (Hpb & Hnbc).
      assert (p = c). { destruct (inv_stored_U _ _ _ _ _ _ _ I Hp) as (Up & _).
        destruct (inv_stored_U _ _ _ _ _ _ _ I (Hst c Hc)) as (Uc & _). apply U_inj; auto. congruence. }
      subst p. exact Hnbc. }
  assert (Emain : is_main_chain f27 n b = Some false).
  { unfold is_main_chain. rewrite (best_hash _ _ _ _ _ I).
    destruct ((f27 || (0 <? no b)) && negb (no b =? no (best n) + 1)) eqn:E; auto.
    apply andb_false_iff in E. destruct E as [E|E].
    - apply orb_false_iff in E. destruct E as (_ & E). apply N.ltb_ge in E. lia.
    - apply negb_false_iff in E. apply N.eqb_eq in E.
      assert (prev b =? hash_field (best n) = false).
      { apply N.eqb_neq. rewrite <- Hph. apply Hpne. lia. }
      rewrite H. reflexivity. }
  unfold add_block. rewrite Hbad, Hns. unfold add_block_internal. rewrite Hp, Emain.
  simpl run_chain. unfold resolve_orphan. rewrite O1, Horph.
  assert (Eneed : negb false && (no (best (store_side n b)) <? no b) = true).
  { simpl. apply N.ltb_lt. exact Htop. }
  rewrite Eneed.
  assert (A1 : mainb (dur (store_side n b)) (no f) = Some f) by (rewrite M1 by lia; exact Hf).
  assert (A2 : no f < no (best (store_side n b))) by (rewrite B1; exact Hflt).
  assert (A3 : lib (store_side n b) <= no f) by (rewrite L1; exact Hlib).
  assert (A4 : forall c, In c (L ++ [b]) -> get_block (dur (store_side n b)) (hash_field c) = Some c).
  { intros c Hc. apply in_app_or in Hc. destruct Hc as [Hc|[<-|[]]]; auto. }
  assert (A5 : forall c m, In c (L ++ [b]) -> no c <= no (best (store_side n b)) ->
                 mainb (dur (store_side n b)) (no c) = Some m -> hash_field c <> hash_field m).
  { intros c m Hc Hle. rewrite B1 in Hle. rewrite M1 by exact Hle. apply in_app_or in Hc. destruct Hc as [Hc|[<-|[]]].
    - apply Hnm; auto.
    - lia. }
  assert (A6 : no (best (store_side n b)) < no b) by (rewrite B1; exact Htop).
  destruct (reorg_switches apply spent apply_fresh apply_spent U U_inj g (store_side n b) f (L ++ [b]) L b
              I1 A1 A2 A3 Hl eq_refl A4 A5 Hv A6) as (n' & R & Hb' & Hs' & I' & _).
  rewrite R. simpl. auto.
Qed.

End Longest.

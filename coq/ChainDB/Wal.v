(** Consensus configuration with a write-ahead log (raftv2) and the in-memory system parameters.

    - [add_block_cfg false] is [add_block_gen]: everything proved for the ordinary configuration
      carries over.
    - connecting a block WITHOUT its body is exactly connecting it with its body when the WAL has
      written the body first ([connect_skip_same], [wal_connect_inv]) ...
    - ... and destroys the invariant for a block whose body is not in the store
      ([connect_skip_unstored_breaks_inv]): the skip-body flag must stay restricted to the blocks
      that went through the WAL.
    - the next valid child of the best block is accepted by a node that satisfies the invariant
      ([next_block_accepted]); a node whose in-memory parameters are not those of its state
      rejects every block ([stale_params_reject]). *)
From Coq Require Import NArith List Bool Lia PeanoNat.
From Verif Require Import ChainDB.Model ChainDB.Basics ChainDB.Inv ChainDB.Reorg ChainDB.AddBlock.
Import ListNotations.
Open Scope N_scope.

Section Wal.
Variable apply : sroot -> block -> option sroot.
Variable f7 f27 : bool.
Variable orphan_cap : nat.
Variable spent : sroot -> txid -> bool.
Hypothesis apply_fresh : forall r b r', apply r b = Some r' ->
  NoDup (txs b) /\ forall t, In t (txs b) -> spent r t = false.
Hypothesis apply_spent : forall r b r' t, apply r b = Some r' ->
  spent r' t = spent r t || mem t (txs b).
Variable U : block -> Prop.
Hypothesis U_inj : forall a b, U a -> U b -> hash_field a = hash_field b -> a = b.
Variable g : block.
Notation Inv := (Inv apply spent U g).

Lemma add_own_cfg_nowal n b :
  add_own_block_internal_cfg apply f7 f27 false n b = add_own_block_internal apply f7 f27 n b.
Proof. reflexivity. Qed.

Theorem add_block_cfg_nowal walpre own pre n b :
  add_block_cfg apply f7 f27 orphan_cap false walpre own pre n b = add_block_gen apply f7 f27 orphan_cap own pre n b.
Proof.
  unfold add_block_cfg, add_block_gen. cbn [andb].
  destruct (mem (hash_field b) (bad n)) eqn:Eb; [reflexivity|].
  destruct (get_block (dur n) (hash_field b)) eqn:Eg; [reflexivity|].
  destruct pre; try reflexivity.
  - destruct (own && negb (prev b =? hash_field (best n))); [reflexivity|].
    destruct own; [reflexivity|]. unfold add_block. rewrite Eb, Eg. reflexivity.
Qed.

(** reads after the body-less connection transaction *)
Lemma connect_unit_nobody_reads d b k :
  apply_unit d (connect_unit_nobody b) k =
  match k with
  | KBlock _ => d k
  | _ => apply_unit d (connect_unit b) k
  end.
Proof.
  unfold apply_unit, connect_unit_nobody, connect_unit. cbn [u_ops].
  rewrite !apply_ops_lookup. cbn [lookup_ops fst snd].
  destruct (lookup_ops (tx_ops (hash_field b) 0 (txs b)) k) eqn:E.
  - destruct k; try reflexivity. rewrite lookup_tx_ops_other in E by (intros; discriminate). discriminate.
  - destruct k; cbn [dkey_eqb]; try reflexivity.
    destruct (no b =? n); reflexivity.
Qed.

(** With the body already in the store, skipping it changes nothing. *)
Theorem connect_skip_same n b n2 :
  dur n (KBlock (hash_field b)) = Some (VBlock b) ->
  connect_main_cfg apply true n b = Some n2 ->
  exists n1, connect_main apply n b = Some n1 /\ (forall k, dur n2 k = dur n1 k) /\
             best n2 = best n1 /\ sdb_root n2 = sdb_root n1 /\ orphans n2 = orphans n1 /\
             bad n2 = bad n1 /\ lib n2 = lib n1 /\ pmem n2 = pmem n1.
Proof.
  intros Hb Hc. unfold connect_main_cfg in Hc. unfold connect_main.
  destruct (execute_block apply n b) as [n1|] eqn:Ex; [|discriminate].
  inversion Hc; subst n2; clear Hc.
  eexists. split; [reflexivity|]. cbn [dur best sdb_root orphans bad lib pmem set_best emit].
  split; [|repeat split].
  intros k. rewrite connect_unit_nobody_reads. destruct k; try reflexivity.
  unfold apply_unit, connect_unit. cbn [u_ops]. rewrite apply_ops_lookup. cbn [lookup_ops fst snd].
  rewrite lookup_tx_ops_other by (intros; discriminate). cbn [dkey_eqb].
  destruct (hash_field b =? id) eqn:E; [|reflexivity].
  apply N.eqb_eq in E. subst id.
  destruct (execute_block_frame _ _ _ _ Ex) as (_ & _ & _ & _ & _ & _ & Ff & _).
  rewrite Ff by (intros; discriminate). exact Hb.
Qed.

(** A store equal at every key carries the invariant over. *)
Lemma inv_same_store n n' :
  Inv n -> (forall k, dur n' k = dur n k) -> best n' = best n -> sdb_root n' = sdb_root n ->
  orphans n' = orphans n -> pmem n' = pmem n -> Inv n'.
Proof.
  intros I Hd Hb Hs Ho Hp. eapply (inv_frame apply spent U g n n'); eauto.
  - intros r. unfold has_state_marker. rewrite Hd. auto.
  - intros i m. unfold has_receipts. rewrite Hd. auto.
Qed.

(** A block delivered through the WAL (body pre-written, then connected on commit), on the raft
    leader (with its block state: body skipped) and on a follower (body written again): the
    invariant holds and the block is the new best block. *)
Theorem wal_connect_inv own n b n' :
  Inv n -> U b -> prev b = hash_field (best n) -> no b = no (best n) + 1 ->
  connect_main_cfg apply own (wal_write n b) b = Some n' ->
  Inv n' /\ best n' = b /\ get_block (dur n') (hash_field b) = Some b.
Proof.
  intros I Ub Hp Hn Hc. unfold wal_write in Hc.
  destruct (store_side_inv apply spent U U_inj g n b I Ub) as (I1 & B1 & O1 & S1 & _ & _ & _ & GBb & _).
  set (n1 := store_side n b) in *.
  assert (Hp1 : prev b = hash_field (best n1)) by (rewrite B1; exact Hp).
  assert (Hn1 : no b = no (best n1) + 1) by (rewrite B1; exact Hn).
  destruct own.
  - destruct (get_block_univ apply spent U g _ _ _ I1 GBb) as (_ & _ & Hk).
    destruct (connect_skip_same n1 b n' Hk Hc) as (n2 & C2 & Hd & Hb & Hs & Ho & _ & _ & Hpm).
    destruct (connect_main_inv apply spent apply_fresh apply_spent U U_inj g _ _ _ I1 Ub Hp1 Hn1 C2)
      as (I2 & B2 & _ & _ & _ & _ & G2).
    split; [eapply inv_same_store; eauto|]. split; [congruence|].
    rewrite <- G2. apply get_block_ext. apply Hd.
  - destruct (connect_main_inv apply spent apply_fresh apply_spent U U_inj g _ _ _ I1 Ub Hp1 Hn1 Hc)
      as (I2 & B2 & _ & _ & _ & _ & G2). auto.
Qed.

(** Skipping the body of a block that is NOT in the store (what a WAL node would do with a block
    received from the network if the skip-body flag were [HasWAL()] alone) breaks the invariant:
    the height index and the best-block pointer name a block that cannot be loaded. *)
Theorem connect_skip_unstored_breaks_inv n b n' :
  get_block (dur n) (hash_field b) = None ->
  connect_main_cfg apply true n b = Some n' ->
  ~ Inv n'.
Proof.
  intros Hg Hc I'. unfold connect_main_cfg in Hc.
  destruct (execute_block apply n b) as [n1|] eqn:Ex; [|discriminate].
  inversion Hc; subst n'; clear Hc.
  pose proof (i_best _ _ _ _ _ I') as Hb. cbn [best set_best dur emit] in Hb.
  unfold mainb, get_block_by_no in Hb.
  destruct (get_hash_by_no (apply_unit (dur n1) (connect_unit_nobody b)) (no b)) as [h|] eqn:Eh; [|discriminate].
  assert (h = hash_field b).
  { unfold get_hash_by_no in Eh. rewrite connect_unit_nobody_reads in Eh.
    unfold apply_unit, connect_unit in Eh. cbn [u_ops] in Eh. rewrite apply_ops_lookup in Eh.
    cbn [lookup_ops fst snd] in Eh. rewrite lookup_tx_ops_other in Eh by (intros; discriminate).
    cbn [dkey_eqb] in Eh. rewrite N.eqb_refl in Eh. inversion Eh. reflexivity. }
  subst h.
  assert (E : get_block (apply_unit (dur n1) (connect_unit_nobody b)) (hash_field b) = get_block (dur n) (hash_field b)).
  { apply get_block_ext. rewrite connect_unit_nobody_reads.
    destruct (execute_block_frame _ _ _ _ Ex) as (_ & _ & _ & _ & _ & _ & Ff & _).
    apply Ff; intros; discriminate. }
  rewrite E, Hg in Hb. discriminate.
Qed.

(** ** in-memory system parameters *)

Theorem params_coherent n : Inv n -> pmem n = root (best n).
Proof. intros I. rewrite (i_params _ _ _ _ _ I). apply (i_sdb _ _ _ _ _ I). Qed.

(** a node whose in-memory parameters are not those of its state root rejects every block *)
Theorem stale_params_reject n b : pmem n <> sdb_root n -> connect_main apply n b = None.
Proof.
  intros H. unfold connect_main, execute_block.
  destruct (pmem n =? sdb_root n) eqn:E; [apply N.eqb_eq in E; contradiction|reflexivity].
Qed.

(** The next valid block: a valid child of the best block that the node has not seen (not stored,
    not in the errored-block cache, no parked child waiting for it) is ACCEPTED and becomes the
    best block, its state the current state, its parameters the parameters in force. *)
Theorem next_block_accepted n b :
  Inv n -> U b -> prev b = hash_field (best n) -> no b = no (best n) + 1 ->
  apply (root (best n)) b = Some (root b) ->
  mem (hash_field b) (bad n) = false -> get_block (dur n) (hash_field b) = None ->
  find_orphan (orphans n) (hash_field b) = None ->
  exists n', add_block apply f7 f27 orphan_cap n b = (n', ROk) /\ best n' = b /\ sdb_root n' = root b /\
             pmem n' = root b /\ Inv n'.
Proof.
  intros I Ub Hp Hn Hap Hbad Hg Ho.
  unfold add_block. rewrite Hbad, Hg. unfold add_block_internal.
  assert (Gp : get_block (dur n) (prev b) = Some (best n)).
  { rewrite Hp. pose proof (i_best _ _ _ _ _ I) as Hb. unfold mainb, get_block_by_no in Hb.
    rewrite (best_hash apply spent U g n I) in Hb. exact Hb. }
  rewrite Gp.
  assert (Em : is_main_chain f27 n b = Some true).
  { unfold is_main_chain. rewrite Hn, N.eqb_refl. cbn [negb]. rewrite andb_false_r.
    rewrite (best_hash apply spent U g n I), Hp, N.eqb_refl. reflexivity. }
  rewrite Em. cbn [run_chain].
  destruct (connect_main apply n b) as [n1|] eqn:Ec.
  2:{ exfalso. unfold connect_main, execute_block in Ec.
      rewrite (i_params _ _ _ _ _ I), N.eqb_refl in Ec. unfold exec_ok in Ec.
      rewrite (i_sdb _ _ _ _ _ I), Hap, N.eqb_refl in Ec. discriminate. }
  destruct (connect_main_inv apply spent apply_fresh apply_spent U U_inj g _ _ _ I Ub Hp Hn Ec)
    as (I1 & B1 & O1 & _ & _ & _ & _).
  unfold resolve_orphan. rewrite O1, Ho. cbn [negb andb].
  exists n1. split; [reflexivity|]. split; [exact B1|].
  split; [rewrite (i_sdb _ _ _ _ _ I1), B1; reflexivity|].
  split; [rewrite (i_params _ _ _ _ _ I1), (i_sdb _ _ _ _ _ I1), B1; reflexivity|exact I1].
Qed.

End Wal.

(** The cached identifier of a block (types/blockchain.go): Block.BlockHash() returns the Hash
    field when it is non-empty, otherwise computes the digest of the header AND STORES IT in
    the field; the header mutators (SetConfirms, Sign / setPubKey, SetBlocksRootHash,
    SetChainID) change the header and leave the field alone.  [invalidate = true] is the
    variant in which every mutator clears the field (proposed repair).  No proofs here. *)
From Coq Require Import NArith ZArith List Bool.
From Verif Require Import Common.Bytes Codec.Fields Codec.Digest.
Import ListNotations.

Record cblock := mk_cblock { cb_hash : bytes; cb_header : header }.

Inductive bop :=
| AskId                                   (* BlockHash() / BlockID() / ID(): e.g. a log line *)
| Mutate (f : header -> header).          (* SetConfirms, Sign, setPubKey, SetBlocksRootHash, SetChainID *)

Section Cache.
  Variable H : bytes -> bytes.
  Variable invalidate : bool.

  Definition ask_id (b : cblock) : bytes * cblock :=
    match cb_hash b with
    | [] => let d := block_hash H (cb_header b) in (d, mk_cblock d (cb_header b))
    | h => (h, b)
    end.

  Definition apply_op (b : cblock) (o : bop) : cblock :=
    match o with
    | AskId => snd (ask_id b)
    | Mutate f => mk_cblock (if invalidate then [] else cb_hash b) (f (cb_header b))
    end.

  Definition apply_ops (b : cblock) (ops : list bop) : cblock := fold_left apply_op ops b.

  (** The identifier everybody uses for the finished block. *)
  Definition final_id (b : cblock) (ops : list bop) : bytes := fst (ask_id (apply_ops b ops)).
  Definition final_header (b : cblock) (ops : list bop) : header := cb_header (apply_ops b ops).
End Cache.

Definition is_mutate (o : bop) : bool := match o with Mutate _ => true | AskId => false end.

(** The identifier of a produced block is the hash of its FINAL header — if nobody asked for
    the identifier before the last header mutator ran (or if mutators clear the cache). *)
From Coq Require Import NArith ZArith List Bool Lia.
From Coq Require Import String.
From Verif Require Import Common.Bytes Codec.Fields Codec.Digest Codec.DigestProofs Codec.BlockCache.
Import ListNotations.

Section Proofs.
  Variable H : bytes -> bytes.
  Hypothesis H_nonempty : forall x, H x <> [].

  Lemma ask_id_consistent : forall (inv : bool) b,
    cb_hash b = [] \/ cb_hash b = block_hash H (cb_header b) ->
    fst (ask_id H b) = block_hash H (cb_header b) /\
    (let b' := snd (ask_id H b) in cb_hash b' = block_hash H (cb_header b') /\ cb_header b' = cb_header b) /\ True.
  Proof.
    intros inv b [E|E]; unfold ask_id.
    - rewrite E. simpl. repeat split; reflexivity.
    - destruct (cb_hash b) as [|x l] eqn:Eh.
      + exfalso. symmetry in E. exact (H_nonempty _ E).
      + simpl. rewrite Eh. repeat split; auto.
  Qed.

  (** Invariant "the cache is empty or right" is kept by AskId always, and by Mutate when the
      cache is empty or mutators invalidate. *)
  Definition consistent (b : cblock) : Prop := cb_hash b = [] \/ cb_hash b = block_hash H (cb_header b).

  (** With invalidating mutators: any order of operations. *)
  Theorem block_id_of_final_header_invalidating : forall ops b,
    consistent b -> final_id H true b ops = block_hash H (final_header H true b ops).
  Proof.
    intros ops b C. unfold final_id, final_header.
    assert (G : consistent (apply_ops H true b ops)).
    { revert b C. induction ops as [|o r IH]; intros b C; [exact C|]. simpl. apply IH.
      destruct o as [|f]; simpl.
      - destruct (ask_id_consistent true b C) as (_ & (E & _) & _). right. exact E.
      - left. reflexivity. }
    destruct (ask_id_consistent true _ G) as (E & _). exact E.
  Qed.

  Lemma asks_keep : forall asks b1,
    forallb (fun o => negb (is_mutate o)) asks = true -> consistent b1 ->
    consistent (fold_left (apply_op H false) asks b1) /\ cb_header (fold_left (apply_op H false) asks b1) = cb_header b1.
  Proof.
    induction asks as [|o r IH]; intros b1 Fa C1; [split; [exact C1 | reflexivity]|].
    simpl in Fa. apply andb_true_iff in Fa as [Fo Fr]. destruct o; [|discriminate]. simpl.
    destruct (ask_id_consistent false b1 C1) as (_ & (E1 & E2) & _).
    destruct (IH (snd (ask_id H b1)) Fr (or_intror E1)) as [G1 G2]. split; [exact G1 | congruence].
  Qed.

  Lemma muts_keep_empty : forall muts b,
    forallb is_mutate muts = true -> cb_hash b = [] -> cb_hash (fold_left (apply_op H false) muts b) = [].
  Proof.
    induction muts as [|o r IH]; intros b Fm Eb; [exact Eb|]. simpl in Fm. apply andb_true_iff in Fm as [Fo Fr].
    destruct o; [discriminate|]. simpl. apply IH; auto.
  Qed.

  (** The code as it is: true when every request for the identifier comes after the last
      mutator (the cache is still empty when the header is finished). *)
  Theorem block_id_of_final_header : forall muts asks h,
    forallb is_mutate muts = true -> forallb (fun o => negb (is_mutate o)) asks = true ->
    final_id H false (mk_cblock [] h) (muts ++ asks) = block_hash H (final_header H false (mk_cblock [] h) (muts ++ asks)).
  Proof.
    intros muts asks h Fm Fa. unfold final_id, final_header, apply_ops. rewrite fold_left_app.
    pose proof (muts_keep_empty muts (mk_cblock [] h) Fm eq_refl) as E.
    destruct (asks_keep asks _ Fa (or_introl E)) as [G1 G2].
    destruct (ask_id_consistent false _ G1) as (E' & _). exact E'.
  Qed.
End Proofs.

(** The code as it is, with ONE early request (a log line) before the factory finishes the
    header: the identifier stays the hash of the unfinished header, whatever the hash. *)
Definition set_confirms (n : N) (h : header) : header :=
  mk_header (h_chain_id h) (h_prev h) (h_block_no h) (h_timestamp h) (h_blocks_root h) (h_txs_root h)
            (h_receipts_root h) n (h_pub_key h) (h_coinbase h) (h_sign h) (h_consensus h).

Theorem early_id_is_stale_refuted : forall (H : bytes -> bytes) h n,
  H (block_digest_input h) <> [] ->
  final_id H false (mk_cblock [] h) [AskId; Mutate (set_confirms n)] = block_hash H h.
Proof.
  intros H h n NE. unfold final_id, apply_ops. cbn [fold_left apply_op].
  assert (A : ask_id H (mk_cblock [] h) = (block_hash H h, mk_cblock (block_hash H h) h)) by reflexivity.
  rewrite A. cbn [snd cb_hash cb_header]. unfold ask_id. cbn [cb_hash].
  destruct (block_hash H h) eqn:E; [contradiction|]. reflexivity.
Qed.

(** ... so it does not commit to the fields set afterwards (here Confirms), unless the hash collides. *)
Theorem early_id_misses_confirms : forall (H : bytes -> bytes) h n,
  H (block_digest_input h) <> [] -> h_confirms h <> n -> (n < 2 ^ 64)%N -> header_wf h ->
  final_id H false (mk_cblock [] h) [AskId; Mutate (set_confirms n)] <>
  block_hash H (final_header H false (mk_cblock [] h) [AskId; Mutate (set_confirms n)]) \/ collision H.
Proof.
  intros H h n NE D Bn W. rewrite early_id_is_stale_refuted by assumption.
  unfold final_header, apply_ops. cbn [fold_left apply_op].
  assert (A : ask_id H (mk_cblock [] h) = (block_hash H h, mk_cblock (block_hash H h) h)) by reflexivity.
  rewrite A. cbn [snd cb_hash cb_header].
  apply (block_hash_single_field H "Confirms"%string h (set_confirms n h)).
  - simpl. intuition.
  - exact W.
  - intros f I. pose proof (W f I) as Wf. simpl in I.
    repeat (destruct I as [<-|I]; [first [exact Wf | exact Bn]|]). contradiction.
  - intros g Ng. unfold hget, set_confirms.
    repeat match goal with |- context [String.eqb g ?s] =>
      let E := fresh in destruct (String.eqb g s) eqn:E;
        [try reflexivity; apply String.eqb_eq in E; contradiction|] end.
    reflexivity.
  - simpl. intro E. injection E as E. contradiction.
Qed.

(** Model of the event bloom filters: state/block.go BlockState.AddReceipt (a receipt with
    events gets Bloom = the 256 bitset bytes of a filter holding each event's contract address
    and event name; the block's filter is the union, Receipts.MergeBloom) and
    types/receipt.go Receipt.BloomFilter / Receipts.BloomFilter (true when the filter may
    contain the contract address OR the event name).
    The k = 3 bit positions of a key (murmur hashing inside willf/bloom) are opaque: [single k]
    is the filter holding just [k]; the correspondence takes it from the implementation.
    No proofs here. *)
From Coq Require Import NArith List Bool.
From Verif Require Import Common.Bytes Codec.Receipt.
Import ListNotations.
Open Scope N_scope.

Fixpoint bytes_or (a b : bytes) : bytes :=
  match a, b with
  | x :: a', y :: b' => N.lor x y :: bytes_or a' b'
  | _, _ => []
  end.

Fixpoint bytes_and (a b : bytes) : bytes :=
  match a, b with
  | x :: a', y :: b' => N.land x y :: bytes_and a' b'
  | _, _ => []
  end.

Definition bloom_len : nat := 256.
Definition zero_bloom : bytes := repeat 0 bloom_len.

Section Bloom.
  Variable single : bytes -> bytes.

  Definition bloom_of (keys : list bytes) : bytes :=
    fold_right (fun k acc => bytes_or (single k) acc) zero_bloom keys.

  (** BloomFilter.Test: every bit of the key is set. *)
  Definition bloom_test (bl : bytes) (k : bytes) : bool := bytes_eqb (bytes_and (single k) bl) (single k).

  Definition event_keys (e : event) : list bytes := [ev_addr e; ev_name e].

  (** AddReceipt: Bloom stays empty for a receipt without events. *)
  Definition receipt_bloom (es : list event) : bytes :=
    match es with
    | [] => []
    | _ => bloom_of (concat (map event_keys es))
    end.

  (** Receipts.MergeBloom over the receipts that have events; None = no bloom for the block. *)
  Fixpoint block_bloom (rs : list (list event)) : option bytes :=
    match rs with
    | [] => None
    | [] :: r => block_bloom r
    | es :: r => Some (bytes_or (receipt_bloom es) (match block_bloom r with Some b => b | None => zero_bloom end))
    end.

  (** Receipt.BloomFilter(fi): false for an empty Bloom, else Test(address) || Test(name). *)
  Definition receipt_bloom_filter (bl : bytes) (addr name : bytes) : bool :=
    match bl with
    | [] => false
    | _ => bloom_test bl addr || bloom_test bl name
    end.

  Definition receipts_bloom_filter (bl : option bytes) (addr name : bytes) : bool :=
    match bl with
    | None => false
    | Some b => bloom_test b addr || bloom_test b name
    end.
End Bloom.

(** Correspondence: the single-key filters observed on the implementation. *)
Fixpoint lookup_single (tbl : list (bytes * bytes)) (k : bytes) : bytes :=
  match tbl with
  | [] => zero_bloom
  | (k', v) :: r => if bytes_eqb k' k then v else lookup_single r k
  end.

Definition ev_of (p : bytes * bytes) : event := mk_event (fst p) (snd p) [] Z0 [] [] 0 Z0.

(** (single-key table, receipts as lists of (address, name), observed receipt blooms, observed
    block bloom, probes (address, name, receipt answers, block answer)). *)
Definition bloom_case_ok
  (c : list (bytes * bytes) * list (list (bytes * bytes)) * list bytes * option bytes *
       list (bytes * bytes * list bool * bool)) : bool :=
  let '(tbl, rs, rblooms, bbloom, probes) := c in
  let single := lookup_single tbl in
  let ess := map (map ev_of) rs in
  list_eqb bytes_eqb (map (receipt_bloom single) ess) rblooms &&
  opt_bytes_eqb (block_bloom single ess) bbloom &&
  forallb (fun p : bytes * bytes * list bool * bool =>
             let '(addr, name, ras, ba) := p in
             list_eqb Bool.eqb (map (fun bl => receipt_bloom_filter single bl addr name) rblooms) ras &&
             Bool.eqb (receipts_bloom_filter single bbloom addr name) ba) probes.

(** No false negatives: every event's address and name is found in its receipt's filter and
    in the block's filter, for every choice of the bit positions. *)
From Coq Require Import NArith List Bool Lia.
From Verif Require Import Common.Bytes Codec.Receipt Codec.Bloom.
Import ListNotations.
Open Scope N_scope.

Lemma land_lor_absorb_l : forall x y, N.land x (N.lor x y) = x.
Proof.
  intros x y. apply N.bits_inj. intro n. rewrite N.land_spec, N.lor_spec.
  destruct (N.testbit x n); reflexivity.
Qed.

Lemma land_lor_mono : forall x y z, N.land x y = x -> N.land x (N.lor z y) = x.
Proof.
  intros x y z E. apply N.bits_inj. intro n. rewrite N.land_spec, N.lor_spec.
  apply (f_equal (fun v => N.testbit v n)) in E. rewrite N.land_spec in E.
  destruct (N.testbit x n), (N.testbit y n), (N.testbit z n); simpl in *; congruence.
Qed.

Lemma bytes_or_length : forall a b, length a = length b -> length (bytes_or a b) = length a.
Proof. induction a as [|x a IH]; intros [|y b] L; simpl in *; try discriminate; auto. Qed.

Lemma bytes_and_or_absorb : forall a b, length a = length b -> bytes_and a (bytes_or a b) = a.
Proof.
  induction a as [|x a IH]; intros [|y b] L; simpl in *; try discriminate; auto.
  rewrite land_lor_absorb_l, IH; auto.
Qed.

Lemma bytes_and_or_mono : forall a b c,
  length a = length b -> length c = length b -> bytes_and a b = a -> bytes_and a (bytes_or c b) = a.
Proof.
  induction a as [|x a IH]; intros [|y b] [|z c] L1 L2 E; simpl in *; try discriminate; auto.
  injection E as E1 E2. rewrite land_lor_mono by assumption. rewrite IH; auto.
Qed.

Lemma zero_bloom_length : length zero_bloom = bloom_len.
Proof. reflexivity. Qed.

Section BloomProofs.
  Variable single : bytes -> bytes.
  Hypothesis single_len : forall k, length (single k) = bloom_len.

  Lemma bloom_of_length : forall keys, length (bloom_of single keys) = bloom_len.
  Proof.
    induction keys as [|k r IH]; [apply zero_bloom_length|].
    change (bloom_of single (k :: r)) with (bytes_or (single k) (bloom_of single r)).
    rewrite bytes_or_length; [apply single_len | rewrite single_len, IH; reflexivity].
  Qed.

  Theorem bloom_no_false_negative : forall keys k, In k keys -> bloom_test single (bloom_of single keys) k = true.
  Proof.
    induction keys as [|k' r IH]; intros k I; [contradiction|]. unfold bloom_test.
    change (bloom_of single (k' :: r)) with (bytes_or (single k') (bloom_of single r)). apply bytes_eqb_eq.
    destruct I as [->|I].
    - apply bytes_and_or_absorb. rewrite single_len, bloom_of_length. reflexivity.
    - apply bytes_and_or_mono.
      + rewrite single_len, bloom_of_length. reflexivity.
      + rewrite single_len, bloom_of_length. reflexivity.
      + apply bytes_eqb_eq. apply IH. assumption.
  Qed.

  Lemma receipt_bloom_length : forall es, es <> [] -> length (receipt_bloom single es) = bloom_len.
  Proof. intros [|e es] N; [contradiction|]. apply bloom_of_length. Qed.

  (** Every event of a receipt is found through the receipt's filter. *)
  Theorem receipt_event_found : forall es e,
    In e es -> receipt_bloom_filter single (receipt_bloom single es) (ev_addr e) (ev_name e) = true.
  Proof.
    intros es e I. destruct es as [|e0 es0]; [contradiction|].
    unfold receipt_bloom_filter.
    assert (L : length (receipt_bloom single (e0 :: es0)) = bloom_len) by (apply receipt_bloom_length; discriminate).
    destruct (receipt_bloom single (e0 :: es0)) as [|b bl] eqn:E; [discriminate L|]. rewrite <- E.
    apply orb_true_iff. left. unfold receipt_bloom. apply bloom_no_false_negative.
    apply in_concat. exists (event_keys e). split; [apply in_map; assumption | left; reflexivity].
  Qed.

  Lemma receipt_addr_test : forall es1 e1, In e1 es1 -> bloom_test single (receipt_bloom single es1) (ev_addr e1) = true.
  Proof.
    intros es1 e1 I1. destruct es1 as [|x xs]; [contradiction|]. unfold receipt_bloom. apply bloom_no_false_negative.
    apply in_concat. exists (event_keys e1). split; [apply in_map; assumption | left; reflexivity].
  Qed.

  Local Opaque receipt_bloom.

  Lemma block_bloom_length : forall rs b, block_bloom single rs = Some b -> length b = bloom_len.
  Proof.
    induction rs as [|es r IH]; intros b E; cbn [block_bloom] in E; [discriminate|].
    destruct es as [|e es']; [apply IH; assumption|]. injection E as <-.
    rewrite bytes_or_length.
    - apply receipt_bloom_length. discriminate.
    - rewrite receipt_bloom_length by discriminate.
      destruct (block_bloom single r) as [b'|] eqn:Eb; [symmetry; apply IH; reflexivity | symmetry; apply zero_bloom_length].
  Qed.

  (** ... and through the block's filter. *)
  Theorem block_event_found : forall rs es e,
    In es rs -> In e es ->
    receipts_bloom_filter single (block_bloom single rs) (ev_addr e) (ev_name e) = true.
  Proof.
    induction rs as [|es0 r IH]; intros es e Irs Ie; [contradiction|].
    pose proof receipt_addr_test as T.
    cbn [block_bloom]. destruct es0 as [|e0 es0'].
    - destruct Irs as [<-|Irs]; [contradiction|]. apply (IH es e); assumption.
    - cbn [receipts_bloom_filter]. apply orb_true_iff. left.
      set (rest := match block_bloom single r with Some b => b | None => zero_bloom end).
      assert (Lr : length rest = bloom_len).
      { subst rest. destruct (block_bloom single r) eqn:Eb; [eapply block_bloom_length; eauto | apply zero_bloom_length]. }
      assert (L0 : length (receipt_bloom single (e0 :: es0')) = bloom_len) by (apply receipt_bloom_length; discriminate).
      unfold bloom_test. apply bytes_eqb_eq.
      destruct Irs as [<-|Irs].
      + (* in the first receipt *)
        specialize (T _ _ Ie). unfold bloom_test in T. apply bytes_eqb_eq in T.
        assert (C : forall a b, length a = length b -> bytes_or a b = bytes_or b a).
        { clear. induction a as [|x a IHa]; intros [|y b] L; simpl in *; try discriminate; auto. rewrite N.lor_comm, IHa; auto. }
        rewrite C by congruence. apply bytes_and_or_mono; try (rewrite single_len; congruence); congruence.
      + (* in a later receipt *)
        specialize (IH es e Irs Ie). unfold receipts_bloom_filter in IH.
        destruct (block_bloom single r) as [b|] eqn:Eb; [|discriminate]. subst rest.
        (* IH gives address or name; we need the address test: redo with T on the tail *)
        clear IH.
        assert (TA : bloom_test single b (ev_addr e) = true).
        { clear L0 Lr. revert b Eb. induction r as [|es1 r1 IHr]; intros b Eb; [contradiction|].
          cbn [block_bloom] in Eb. destruct es1 as [|e1 es1'].
          - destruct Irs as [<-|Irs']; [contradiction|]. apply IHr; assumption.
          - injection Eb as <-.
            set (rest1 := match block_bloom single r1 with Some b1 => b1 | None => zero_bloom end).
            assert (Lr1 : length rest1 = bloom_len).
            { subst rest1. destruct (block_bloom single r1) eqn:Eb1; [eapply block_bloom_length; eauto | apply zero_bloom_length]. }
            assert (L1 : length (receipt_bloom single (e1 :: es1')) = bloom_len) by (apply receipt_bloom_length; discriminate).
            unfold bloom_test. apply bytes_eqb_eq.
            destruct Irs as [<-|Irs'].
            + pose proof (T _ _ Ie) as T1. unfold bloom_test in T1. apply bytes_eqb_eq in T1.
              assert (C : forall a b, length a = length b -> bytes_or a b = bytes_or b a).
              { clear. induction a as [|x a IHa]; intros [|y b] L; simpl in *; try discriminate; auto. rewrite N.lor_comm, IHa; auto. }
              rewrite C by congruence. apply bytes_and_or_mono; try (rewrite single_len; congruence); congruence.
            + destruct (block_bloom single r1) as [b1|] eqn:Eb1.
              * subst rest1. specialize (IHr Irs' b1 eq_refl). unfold bloom_test in IHr. apply bytes_eqb_eq in IHr.
                apply bytes_and_or_mono; try (rewrite single_len; congruence); try congruence.
              * exfalso. clear -Irs' Ie Eb1. induction r1 as [|x r1 IHr1]; [contradiction|].
                cbn [block_bloom] in Eb1. destruct x; [|discriminate]. destruct Irs' as [<-|I]; [contradiction|]. apply IHr1; assumption. }
        unfold bloom_test in TA. apply bytes_eqb_eq in TA.
        apply bytes_and_or_mono; try (rewrite single_len; congruence); try congruence.
  Qed.
End BloomProofs.

Example bloom_example :
  let single := fun k : bytes => match k with [1] => 1 :: repeat 0 255 | _ => 2 :: repeat 0 255 end in
  bloom_test single (bloom_of single [[1]; [7]]) [1] = true /\ bloom_test single (bloom_of single [[7]]) [1] = false.
Proof. vm_compute. split; reflexivity. Qed.

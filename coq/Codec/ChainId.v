(** Model of types/genesis.go: ChainID.Bytes / ChainID.Read / Equals, ChainIdVersion,
    DecodeChainIdVersion, ChainIdEqualWithoutVersion and types/blockchain.go:MakeChainId.
    Strings are byte lists.  [cid_version] is the uint32 bit pattern of the Go int32
    (the code itself converts with uint32(v) / int32(...)).  No proofs here. *)
From Coq Require Import NArith List Bool.
From Verif Require Import Common.Bytes.
Import ListNotations.
Open Scope N_scope.

Record chain_id := mk_chain_id {
  cid_version : N;      (* int32, as uint32 bit pattern, < 2^32 *)
  cid_public : bool;
  cid_main : bool;
  cid_magic : bytes;
  cid_consensus : bytes
}.

Definition slash : N := 47.

Definition bool_byte (b : bool) : N := if b then 1 else 0.

(** ChainIdVersion(v): 4-byte little-endian. *)
Definition chain_id_version (v : N) : bytes := le_bytes 4 v.

(** ChainID.Bytes(): version, publicnet, mainnet (binary.Write of a bool = one byte 0/1),
    then fmt.Sprintf("%s/%s", Magic, Consensus) with no length prefix. *)
Definition chain_id_bytes (c : chain_id) : bytes :=
  chain_id_version (cid_version c) ++ [bool_byte (cid_public c)] ++ [bool_byte (cid_main c)]
  ++ cid_magic c ++ [slash] ++ cid_consensus c.

(** strings.Split(s, "/"): k separators give k+1 parts (possibly empty). *)
Fixpoint split_on (sep : N) (l : bytes) : list bytes :=
  match l with
  | [] => [[]]
  | b :: r =>
      if b =? sep then [] :: split_on sep r
      else match split_on sep r with
           | [] => [[b]]            (* unreachable: split_on never returns [] *)
           | p :: ps => (b :: p) :: ps
           end
  end.

(** ChainID.Read(data): binary.Read int32 (needs 4 bytes), bool (1 byte, non-zero = true),
    bool, then exactly two '/'-separated parts.  None = any of the four error returns. *)
Definition chain_id_read (data : bytes) : option chain_id :=
  match data with
  | v0 :: v1 :: v2 :: v3 :: p :: m :: rest =>
      match split_on slash rest with
      | [magic; consensus] =>
          Some (mk_chain_id (le_decode [v0; v1; v2; v3]) (negb (p =? 0)) (negb (m =? 0)) magic consensus)
      | _ => None
      end
  | _ => None
  end.

(** ChainID.Equals (non-nil receivers). *)
Definition chain_id_eqb (a b : chain_id) : bool :=
  (cid_version a =? cid_version b) && Bool.eqb (cid_public a) (cid_public b)
  && Bool.eqb (cid_main a) (cid_main b) && bytes_eqb (cid_magic a) (cid_magic b)
  && bytes_eqb (cid_consensus a) (cid_consensus b).

(** DecodeChainIdVersion: None models the Go return value -1 for inputs shorter than 4. *)
Definition decode_chain_id_version (cid : bytes) : option N :=
  match cid with
  | v0 :: v1 :: v2 :: v3 :: _ => Some (le_decode [v0; v1; v2; v3])
  | _ => None
  end.

Definition chain_id_equal_without_version (a b : bytes) : bool :=
  if (Nat.ltb (length a) 4) || (Nat.ltb (length b) 4) then false
  else bytes_eqb (skipn 4 a) (skipn 4 b).

(** MakeChainId(cid, v): replaces the first four bytes by the version (the Go code panics
    for len(cid) < 4: cid[:4]); None = panic. *)
Definition make_chain_id (cid : bytes) (v : N) : option bytes :=
  if Nat.ltb (length cid) 4 then None
  else Some (chain_id_version v ++ skipn 4 cid).

Definition no_slash (s : bytes) : Prop := ~ In slash s.
Definition no_slashb (s : bytes) : bool := negb (existsb (fun b => b =? slash) s).

Definition chain_id_wf (c : chain_id) : Prop :=
  cid_version c < 2 ^ 32 /\ no_slash (cid_magic c) /\ no_slash (cid_consensus c).

(** Correspondence case: (version, public, main, magic, consensus), Bytes() observed,
    Read(Bytes()) observed as option of the five fields. *)
Definition chain_id_case_ok
  (c : (N * bool * bool * bytes * bytes) * bytes * option (N * bool * bool * bytes * bytes)) : bool :=
  let '((v, p, m, mg, cs), enc, dec) := c in
  let cid := mk_chain_id v p m mg cs in
  bytes_eqb (chain_id_bytes cid) enc &&
  match chain_id_read enc, dec with
  | None, None => true
  | Some d, Some (v', p', m', mg', cs') => chain_id_eqb d (mk_chain_id v' p' m' mg' cs')
  | _, _ => false
  end.

(** Read on arbitrary bytes: observed option of the five fields. *)
Definition chain_id_read_case_ok (c : bytes * option (N * bool * bool * bytes * bytes)) : bool :=
  let '(data, dec) := c in
  match chain_id_read data, dec with
  | None, None => true
  | Some d, Some (v', p', m', mg', cs') => chain_id_eqb d (mk_chain_id v' p' m' mg' cs')
  | _, _ => false
  end.

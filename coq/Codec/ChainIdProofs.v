(** Chain id codec: round trip when magic and consensus contain no '/', F6 otherwise. *)
From Coq Require Import NArith List Bool Lia.
From Verif Require Import Common.Bytes Codec.ChainId.
Import ListNotations.
Open Scope N_scope.

Lemma split_on_no_sep : forall sep s, ~ In sep s -> split_on sep s = [s].
Proof.
  induction s as [|b r IH]; intro NI; simpl; auto.
  destruct (b =? sep) eqn:E.
  - apply N.eqb_eq in E. exfalso. apply NI. left. assumption.
  - rewrite IH; auto. intro; apply NI; right; assumption.
Qed.

Lemma split_on_app : forall sep a b, ~ In sep a -> split_on sep (a ++ sep :: b) = a :: split_on sep b.
Proof.
  induction a as [|x a IH]; intros b NI; simpl.
  - rewrite N.eqb_refl. reflexivity.
  - destruct (x =? sep) eqn:E.
    + apply N.eqb_eq in E. exfalso. apply NI. left. assumption.
    + rewrite IH; auto. intro; apply NI; right; assumption.
Qed.

Lemma bool_byte_decode : forall b, negb (bool_byte b =? 0) = b.
Proof. destruct b; reflexivity. Qed.

Local Opaque le_decode.
Theorem chain_id_roundtrip : forall c, chain_id_wf c -> chain_id_read (chain_id_bytes c) = Some c.
Proof.
  intros [v p m mg cs] (Hv & Hm & Hc). simpl in *.
  unfold chain_id_bytes, chain_id_version. cbn [cid_version cid_public cid_main cid_magic cid_consensus].
  pose proof (le_decode_le_bytes 4 v Hv) as D.
  cbn [le_bytes] in *. cbn [app]. unfold chain_id_read.
  rewrite split_on_app by assumption. rewrite split_on_no_sep by assumption.
  rewrite D, !bool_byte_decode. reflexivity.
Qed.
Local Transparent le_decode.

(** F6: a magic containing '/' is written by Bytes() but cannot be read back. *)
Definition cid_slash : chain_id := mk_chain_id 3 true false [97; 47; 97] [100; 112; 111; 115].

Theorem chain_id_slash_refuted :
  exists c, cid_version c < 2 ^ 32 /\ chain_id_read (chain_id_bytes c) <> Some c.
Proof. exists cid_slash. split; [reflexivity | discriminate]. Qed.

(** More precisely: with k >= 1 separators in magic/consensus Read always fails. *)
Theorem chain_id_slash_read_fails : forall c,
  In slash (cid_magic c) \/ In slash (cid_consensus c) -> chain_id_read (chain_id_bytes c) = None \/
  exists c', chain_id_read (chain_id_bytes c) = Some c' /\ c' <> c.
Proof.
  intros c H. destruct (chain_id_read (chain_id_bytes c)) as [c'|] eqn:E; [right | left; reflexivity].
  exists c'. split; [reflexivity|]. intro; subst c'.
  (* a successful read returns parts without separator *)
  unfold chain_id_read in E.
  destruct (chain_id_bytes c) as [|v0 [|v1 [|v2 [|v3 [|p [|m rest]]]]]]; try discriminate.
  destruct (split_on slash rest) as [|mg [|cs [|? ?]]] eqn:S; try discriminate.
  injection E as E'.
  assert (P : forall s parts, split_on slash s = parts -> Forall (fun x => ~ In slash x) parts).
  { clear. induction s as [|b r IH]; intros parts S; simpl in S; subst.
    - repeat constructor. intros [].
    - destruct (b =? slash) eqn:Eb.
      + constructor; [intros []| apply IH; reflexivity].
      + specialize (IH _ eq_refl). destruct (split_on slash r) as [|q qs].
        * repeat constructor. intros [Hb|[]]. subst. rewrite N.eqb_refl in Eb. discriminate.
        * inversion IH; subst. constructor; auto. intros [Hb|Hb]; [subst; rewrite N.eqb_refl in Eb; discriminate | auto]. }
  specialize (P _ _ S). inversion P as [|? ? P1 P']; subst. inversion P' as [|? ? P2 ?]; subst.
  simpl in H. destruct H; contradiction.
Qed.

Lemma chain_id_eqb_eq : forall a b, chain_id_eqb a b = true <-> a = b.
Proof.
  intros [v p m mg cs] [v' p' m' mg' cs']. unfold chain_id_eqb. simpl.
  rewrite !andb_true_iff, N.eqb_eq, !eqb_true_iff, !bytes_eqb_eq. split.
  - intros ((((-> & ->) & ->) & ->) & ->). reflexivity.
  - intro E. inversion E. repeat split; reflexivity.
Qed.

(** Two well-formed chain ids with the same encoding are equal. *)
Theorem chain_id_bytes_injective : forall a b,
  chain_id_wf a -> chain_id_wf b -> chain_id_bytes a = chain_id_bytes b -> a = b.
Proof.
  intros a b Wa Wb E. apply chain_id_roundtrip in Wa. apply chain_id_roundtrip in Wb.
  rewrite E in Wa. congruence.
Qed.

(** MakeChainId only replaces the version prefix. *)
Theorem make_chain_id_spec : forall cid v out,
  make_chain_id cid v = Some out ->
  decode_chain_id_version out = Some (v mod 2 ^ 32) /\ chain_id_equal_without_version cid out = true.
Proof.
  intros cid v out M. unfold make_chain_id in M.
  destruct (Nat.ltb (length cid) 4) eqn:L; [discriminate|]. inversion M; subst. clear M.
  apply PeanoNat.Nat.ltb_ge in L. unfold chain_id_version.
  pose proof (le_decode_le_bytes_mod 4 v) as D. cbn [le_bytes] in *. split.
  - cbn [app decode_chain_id_version]. rewrite D. reflexivity.
  - unfold chain_id_equal_without_version.
    replace (Nat.ltb (length cid) 4) with false by (symmetry; apply PeanoNat.Nat.ltb_ge; assumption).
    cbn [app length]. simpl. apply bytes_eqb_refl.
Qed.

Example chain_id_wf_ex : chain_id_wf (mk_chain_id 3 true false [97; 97] [100; 112; 111; 115]).
Proof. repeat split; try (simpl; lia); intros H; simpl in H; intuition discriminate. Qed.

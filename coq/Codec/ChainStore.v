(** Model of the encoding-relevant part of chain/chaindb.go:
    writeReceiptsAndOperations / getReceipts (the receipt list of a block is stored in the
      format selected by hardForkConfig.IsV2Fork(blockNo) of the WRITING node and decoded with
      the switch of the READING node's configuration), getReceipt (index test `idx > len`),
    WriteHardfork / Hardfork (the configuration is stored as a JSON object "Vn" -> height and
      read back through HardforkDbConfig.FixDbConfig, which adds the keys that are missing with
      the heights of the current configuration).
    Blocks and transactions are stored as protobuf, which is opaque here: their round trip
    through the real DB is a direct predicate of the store engine.  No proofs here. *)
From Coq Require Import NArith ZArith List Bool.
From Verif Require Import Common.Bytes Codec.Receipt Codec.Hardfork.
Import ListNotations.
Open Scope N_scope.

(** IsV2Fork(blockNo) of a configuration. *)
Definition v2_at (c : hf_config) (no : N) : bool := is_vfork c 0 no.

Definition put_receipts (c : hf_config) (no : N) (bloom : option bytes) (rs : list receipt) : option bytes :=
  marshal_receipts (v2_at c no) bloom rs.

Definition get_receipts (c : hf_config) (no : N) (data : bytes) : option (option bytes * list receipt) :=
  unmarshal_receipts (v2_at c no) data.

(** getReceipt(blockHash, blockNo, idx): `if idx < 0 || idx > int32(len(receipts))` then error,
    else receipts[idx] — which indexes out of range for idx = len. *)
Inductive get_receipt_result := GROk (r : receipt) | GRErr | GRPanic.

Definition get_receipt (rs : list receipt) (idx : Z) : get_receipt_result :=
  if (idx <? 0)%Z || (Z.of_nat (length rs) <? idx)%Z then GRErr
  else match nth_error rs (Z.to_nat idx) with
       | Some r => GROk r
       | None => GRPanic
       end.

(** The same with the bound test the index expression needs (proposed repair). *)
Definition get_receipt_fixed (rs : list receipt) (idx : Z) : get_receipt_result :=
  if (idx <? 0)%Z || (Z.of_nat (length rs) <=? idx)%Z then GRErr
  else match nth_error rs (Z.to_nat idx) with
       | Some r => GROk r
       | None => GRPanic
       end.

(** WriteHardfork: {"V2": c0, "V3": c1, ...}. *)
Fixpoint number_from (k : N) (c : hf_config) : hf_db :=
  match c with
  | [] => []
  | x :: r => (k, x) :: number_from (k + 1) r
  end.
Definition write_hardfork (c : hf_config) : hf_db := number_from 2 c.

(** FixDbConfig(hConfig): every field name of the configuration that is not a key of the
    stored map is added with the configuration's height; existing keys keep their value
    ([db_get] returns the first binding, so appending does exactly that). *)
Definition fix_db (db : hf_db) (c : hf_config) : hf_db := db ++ number_from 2 c.

(** ChainDB.Hardfork(cfg) after a restart, then CheckCompatibility at the best block. *)
Definition restart_compatible (stored : hf_db) (c : hf_config) (best : N) : bool :=
  check_compatibility c (fix_db stored c) best.

(** Correspondence cases. *)
Definition db_receipts_case_ok
  (x : hf_config * hf_config * N * option bytes * list receipt * option (option bytes * list receipt)) : bool :=
  let '(cw, cr, no, bloom, rs, dec) := x in
  match put_receipts cw no bloom rs with
  | Some data => opt_receipts_eqb (get_receipts cr no data) dec
  | None => match dec with None => true | Some _ => false end
  end.

Definition db_heights_eqb (a b : list N) : bool := bytes_eqb a b.

(** (stored map, config of the restarted node, best, observed heights V2.. of Hardfork(cfg), observed compatibility). *)
Definition hardfork_restart_case_ok (x : hf_db * hf_config * N * list N * bool) : bool :=
  let '(stored, c, best, heights, ok) := x in
  db_heights_eqb (db_heights (length c) (fix_db stored c)) heights &&
  Bool.eqb (restart_compatible stored c best) ok.

Definition get_receipt_class (r : get_receipt_result) : N :=
  match r with GROk _ => 0 | GRErr => 1 | GRPanic => 2 end.

(** Receipts and the hardfork configuration through the chain DB across a restart. *)
From Coq Require Import NArith ZArith List Bool Lia.
From Verif Require Import Common.Bytes Codec.Receipt Codec.ReceiptProofs Codec.Hardfork Codec.HardforkProofs
  Codec.ChainStore.
Import ListNotations.
Open Scope N_scope.

(** Same V2 bit at the block's height: what was written is read back. *)
Theorem db_receipts_roundtrip : forall cw cr no bloom rs data,
  v2_at cw no = v2_at cr no ->
  Forall receipt_wf rs -> bloom_wf bloom -> N.of_nat (length rs) < 2 ^ 32 ->
  put_receipts cw no bloom rs = Some data ->
  get_receipts cr no data = Some (bloom, map (receipt_view (v2_at cw no) false) rs).
Proof.
  intros cw cr no bloom rs data E W Wb L P. unfold put_receipts, get_receipts in *.
  rewrite <- E. apply receipts_roundtrip; assumption.
Qed.

(** A configuration accepted by CheckCompatibility at [h] has the same V2 switch as the stored
    one at every height up to [h]. *)
Lemma compat_same_v2_bit : forall c db h no,
  check_compatibility c db h = true -> no <= h ->
  v2_at c no = v2_at (db_heights (length c) db) no.
Proof.
  intros c db h no C L. unfold check_compatibility in C.
  apply andb_true_iff in C as [C _]. apply andb_true_iff in C as [_ C].
  apply forallb_combine_Forall2 in C; [|rewrite db_heights_length; reflexivity].
  unfold v2_at, is_vfork, is_fork.
  destruct C as [|x y r1 r2 A F]; [reflexivity|]. cbn [nth].
  unfold agree_upto in A.
  destruct (x <=? no) eqn:E1; destruct (y <=? no) eqn:E2; auto.
  - apply N.leb_le in E1. apply N.leb_gt in E2. lia.
  - apply N.leb_gt in E1. apply N.leb_le in E2. lia.
Qed.

(** Receipts written by a node whose configuration is the stored one are read back by a
    restarted node whose (possibly edited) configuration passes CheckCompatibility at a best
    block not below the block in question. *)
Theorem db_receipts_restart_roundtrip : forall c db best no bloom rs data,
  check_compatibility c db best = true -> no <= best ->
  Forall receipt_wf rs -> bloom_wf bloom -> N.of_nat (length rs) < 2 ^ 32 ->
  put_receipts (db_heights (length c) db) no bloom rs = Some data ->
  get_receipts c no data = Some (bloom, map (receipt_view (v2_at c no) false) rs).
Proof.
  intros c db best no bloom rs data C L W Wb Ln P.
  pose proof (compat_same_v2_bit c db best no C L) as E.
  rewrite E. apply (db_receipts_roundtrip (db_heights (length c) db) c); auto.
Qed.

(** Without the compatibility check: a V2 height moved across the block makes the reader use
    the other format. *)
Theorem db_receipts_version_mismatch_refuted :
  exists cw cr no rs data,
    Forall receipt_wf rs /\ put_receipts cw no None rs = Some data /\
    get_receipts cr no data <> Some (None, map (receipt_view (v2_at cw no) false) rs).
Proof.
  exists [10; 20; 30; 40], [16; 20; 30; 40], 15, [receipt_f17]. eexists.
  split; [constructor; [apply receipt_f17_wf | constructor]|].
  split; [vm_compute; reflexivity|]. vm_compute. discriminate.
Qed.

(** getReceipt: fine below the length, an error above it, an index-out-of-range panic AT it. *)
Theorem get_receipt_spec : forall rs idx,
  ((0 <= idx < Z.of_nat (length rs))%Z -> exists r, get_receipt rs idx = GROk r /\ nth_error rs (Z.to_nat idx) = Some r) /\
  ((idx < 0 \/ Z.of_nat (length rs) < idx)%Z -> get_receipt rs idx = GRErr).
Proof.
  intros rs idx. unfold get_receipt. split.
  - intros [L H].
    replace (idx <? 0)%Z with false by (symmetry; apply Z.ltb_ge; lia).
    replace (Z.of_nat (length rs) <? idx)%Z with false by (symmetry; apply Z.ltb_ge; lia). simpl.
    destruct (nth_error rs (Z.to_nat idx)) as [r|] eqn:E; [eauto|].
    apply nth_error_None in E. lia.
  - intros [H|H].
    + replace (idx <? 0)%Z with true by (symmetry; apply Z.ltb_lt; lia). reflexivity.
    + replace (Z.of_nat (length rs) <? idx)%Z with true by (symmetry; apply Z.ltb_lt; lia). rewrite orb_true_r. reflexivity.
Qed.

Theorem get_receipt_total_refuted : forall rs, get_receipt rs (Z.of_nat (length rs)) = GRPanic.
Proof.
  intro rs. unfold get_receipt.
  replace (Z.of_nat (length rs) <? 0)%Z with false by (symmetry; apply Z.ltb_ge; lia).
  rewrite Z.ltb_irrefl. simpl. rewrite Nat2Z.id.
  destruct (nth_error rs (length rs)) eqn:E; [|reflexivity].
  assert (nth_error rs (length rs) <> None) by congruence. apply nth_error_Some in H. lia.
Qed.

Theorem get_receipt_fixed_total : forall rs idx, get_receipt_fixed rs idx <> GRPanic.
Proof.
  intros rs idx. unfold get_receipt_fixed.
  destruct (idx <? 0)%Z eqn:E1; [discriminate|]. destruct (Z.of_nat (length rs) <=? idx)%Z eqn:E2; [discriminate|].
  simpl. apply Z.ltb_ge in E1. apply Z.leb_gt in E2.
  destruct (nth_error rs (Z.to_nat idx)) eqn:E; [discriminate|]. apply nth_error_None in E. lia.
Qed.

(** Hardfork configuration written and read back by the same binary. *)
Lemma db_get_number_from : forall c k e i,
  (i < length c)%nat -> db_get (number_from k c ++ e) (N.of_nat i + k) = nth i c 0.
Proof.
  induction c as [|x r IH]; intros k e i L; simpl in L; [lia|].
  cbn [number_from app db_get]. destruct i as [|i].
  - simpl. rewrite N.eqb_refl. reflexivity.
  - replace (k =? N.of_nat (S i) + k) with false by (symmetry; apply N.eqb_neq; lia).
    replace (N.of_nat (S i) + k) with (N.of_nat i + (k + 1)) by lia.
    cbn [nth]. apply IH. lia.
Qed.

Lemma db_heights_number_from : forall c e, db_heights (length c) (number_from 2 c ++ e) = c.
Proof.
  intros c e. unfold db_heights. apply nth_ext with (d := 0) (d' := 0).
  - rewrite map_length, seq_length. reflexivity.
  - intros i L. rewrite map_length, seq_length in L.
    rewrite (nth_indep _ 0 (db_get (number_from 2 c ++ e) (N.of_nat 0 + 2))) by (rewrite map_length, seq_length; assumption).
    rewrite (map_nth (fun i => db_get (number_from 2 c ++ e) (N.of_nat i + 2)) (seq 0 (length c)) 0%nat i).
    rewrite seq_nth by assumption. simpl plus. apply db_get_number_from. assumption.
Qed.

Lemma compat_pairs_refl : forall h c, forallb (compat_pair h) (combine c c) = true.
Proof.
  intros h c. induction c as [|x r IH]; [reflexivity|]. simpl. rewrite IH.
  unfold compat_pair. simpl. rewrite N.eqb_refl. simpl. rewrite andb_false_r. reflexivity.
Qed.

Lemma check_older_number_from : forall c k m h, k + N.of_nat (length c) <= m + 1 -> check_older m h (number_from k c) = true.
Proof.
  induction c as [|x r IH]; intros k m h L; [reflexivity|]. cbn [number_from check_older forallb fst snd].
  cbn [length] in L.
  replace (m <? k) with false by (symmetry; apply N.ltb_ge; lia). simpl.
  apply (IH (k + 1) m h). lia.
Qed.

(** A validated configuration is compatible with what it wrote itself, at every height. *)
Theorem write_read_hardfork_compatible : forall c best,
  validate c = true -> restart_compatible (write_hardfork c) c best = true.
Proof.
  intros c best V. unfold restart_compatible, check_compatibility, fix_db, write_hardfork.
  rewrite V. rewrite db_heights_number_from. rewrite compat_pairs_refl. simpl.
  unfold check_older. rewrite forallb_app.
  pose proof (check_older_number_from c 2 (N.of_nat (length c) + 1) best ltac:(lia)) as P.
  unfold check_older in P. rewrite P. reflexivity.
Qed.

(** FixDbConfig keeps the stored heights and adopts the configuration's for missing keys. *)
Theorem fix_db_keeps_stored : forall db c k x, In (k, x) db -> NoDup (map fst db) -> db_get (fix_db db c) k = x.
Proof.
  intros db c k x. unfold fix_db. induction db as [|[k' x'] r IH]; intros I ND; [contradiction|].
  cbn [app db_get]. simpl in ND. inversion ND as [|? ? NI ND']; subst.
  destruct I as [E|I].
  - inversion E; subst. rewrite N.eqb_refl. reflexivity.
  - destruct (k' =? k) eqn:Ek.
    + apply N.eqb_eq in Ek. subst. exfalso. apply NI. apply (in_map fst) in I. exact I.
    + apply IH; assumption.
Qed.

Theorem fix_db_adds_missing : forall db c i,
  ~ In (N.of_nat i + 2) (map fst db) -> (i < length c)%nat -> db_get (fix_db db c) (N.of_nat i + 2) = nth i c 0.
Proof.
  intros db c i. unfold fix_db. induction db as [|[k' x'] r IH]; intros NI L.
  - simpl. rewrite <- (app_nil_r (number_from 2 c)). apply db_get_number_from. assumption.
  - cbn [app db_get]. simpl in NI.
    replace (k' =? N.of_nat i + 2) with false by (symmetry; apply N.eqb_neq; intuition).
    apply IH; [intuition | assumption].
Qed.

Example restart_examples :
  restart_compatible (write_hardfork mainnet_cfg) mainnet_cfg 200000000 = true /\
  (* a binary that knows V5 reading a DB written before V5 existed *)
  restart_compatible [(2, 10); (3, 20); (4, 30)] [10; 20; 30; 50] 45 = true /\
  restart_compatible [(2, 10); (3, 20); (4, 30); (5, 40)] [10; 20; 30; 50] 45 = false.
Proof. vm_compute. repeat split; reflexivity. Qed.

(** Model of the four digest inputs:
    types/blockchain.go writeBlockHeader (block identifier, 12 fields),
    writeBlockHeaderOmitSign / bytesForDigest (signed digest, 11 fields),
    Tx.CalculateTxHash (transaction identifier, 10 fields) and
    account/key/sign.go CalculateHashWithoutSign (signed digest, 9 fields).
    The encoders are defined over explicit field-name lists; Properties/C19.v proves that the
    lists extracted from the Go source on every run (coq/Gen/FieldLists.v) are these lists. *)
From Coq Require Import NArith ZArith List String.
From Verif Require Import Common.Bytes Codec.Fields.
Import ListNotations.
Open Scope string_scope.
Open Scope list_scope.

Record header := mk_header {
  h_chain_id : bytes; h_prev : bytes; h_block_no : N; h_timestamp : Z;
  h_blocks_root : bytes; h_txs_root : bytes; h_receipts_root : bytes; h_confirms : N;
  h_pub_key : bytes; h_coinbase : bytes; h_sign : bytes; h_consensus : bytes
}.

Definition hget (f : string) (h : header) : fval :=
  if String.eqb f "ChainID" then VBytes (h_chain_id h)
  else if String.eqb f "PrevBlockHash" then VBytes (h_prev h)
  else if String.eqb f "BlockNo" then VU64 (h_block_no h)
  else if String.eqb f "Timestamp" then VI64 (h_timestamp h)
  else if String.eqb f "BlocksRootHash" then VBytes (h_blocks_root h)
  else if String.eqb f "TxsRootHash" then VBytes (h_txs_root h)
  else if String.eqb f "ReceiptsRootHash" then VBytes (h_receipts_root h)
  else if String.eqb f "Confirms" then VU64 (h_confirms h)
  else if String.eqb f "PubKey" then VBytes (h_pub_key h)
  else if String.eqb f "CoinbaseAccount" then VBytes (h_coinbase h)
  else if String.eqb f "Sign" then VBytes (h_sign h)
  else if String.eqb f "Consensus" then VBytes (h_consensus h)
  else VBytes [].

(** The protobuf message fields, in declaration order. *)
Definition header_struct_fields : list string :=
  ["ChainID"; "PrevBlockHash"; "BlockNo"; "Timestamp"; "BlocksRootHash"; "TxsRootHash";
   "ReceiptsRootHash"; "Confirms"; "PubKey"; "CoinbaseAccount"; "Sign"; "Consensus"].

(** writeBlockHeader: every field, in this order. *)
Definition header_digest_fields : list string :=
  ["ChainID"; "PrevBlockHash"; "BlockNo"; "Timestamp"; "BlocksRootHash"; "TxsRootHash";
   "ReceiptsRootHash"; "Confirms"; "PubKey"; "CoinbaseAccount"; "Sign"; "Consensus"].

(** writeBlockHeaderOmitSign. *)
Definition header_sign_fields : list string :=
  ["ChainID"; "PrevBlockHash"; "BlockNo"; "Timestamp"; "BlocksRootHash"; "TxsRootHash";
   "ReceiptsRootHash"; "Confirms"; "PubKey"; "CoinbaseAccount"; "Consensus"].

Definition block_digest_input (h : header) : bytes := encode_fields header hget header_digest_fields h.
Definition sign_digest_input (h : header) : bytes := encode_fields header hget header_sign_fields h.

Definition header_wf (h : header) : Prop := rec_wf header hget header_struct_fields h.

Record txbody := mk_txbody {
  t_nonce : N; t_account : bytes; t_recipient : bytes; t_amount : bytes; t_payload : bytes;
  t_gas_limit : N; t_gas_price : bytes; t_type : Z; t_chain_id_hash : bytes; t_sign : bytes
}.

Definition tget (f : string) (t : txbody) : fval :=
  if String.eqb f "Nonce" then VU64 (t_nonce t)
  else if String.eqb f "Account" then VBytes (t_account t)
  else if String.eqb f "Recipient" then VBytes (t_recipient t)
  else if String.eqb f "Amount" then VBytes (t_amount t)
  else if String.eqb f "Payload" then VBytes (t_payload t)
  else if String.eqb f "GasLimit" then VU64 (t_gas_limit t)
  else if String.eqb f "GasPrice" then VBytes (t_gas_price t)
  else if String.eqb f "Type" then VI32 (t_type t)
  else if String.eqb f "ChainIdHash" then VBytes (t_chain_id_hash t)
  else if String.eqb f "Sign" then VBytes (t_sign t)
  else VBytes [].

Definition tx_struct_fields : list string :=
  ["Nonce"; "Account"; "Recipient"; "Amount"; "Payload"; "GasLimit"; "GasPrice"; "Type";
   "ChainIdHash"; "Sign"].
Definition tx_hash_fields : list string := tx_struct_fields.
Definition tx_sign_fields : list string :=
  ["Nonce"; "Account"; "Recipient"; "Amount"; "Payload"; "GasLimit"; "GasPrice"; "Type";
   "ChainIdHash"].

Definition tx_hash_input (t : txbody) : bytes := encode_fields txbody tget tx_hash_fields t.
Definition tx_sign_input (t : txbody) : bytes := encode_fields txbody tget tx_sign_fields t.

Definition tx_wf (t : txbody) : Prop := rec_wf txbody tget tx_struct_fields t.

Section Hashed.
  Variable H : bytes -> bytes.
  Definition block_hash (h : header) : bytes := H (block_digest_input h).
  Definition block_sign_digest (h : header) : bytes := H (sign_digest_input h).  (* libp2p Sign hashes msg *)
  Definition tx_hash (t : txbody) : bytes := H (tx_hash_input t).
  Definition tx_sign_digest (t : txbody) : bytes := H (tx_sign_input t).
End Hashed.

(** Explicit forms (proved equal to the definitions above in DigestProofs.v). *)
Definition block_digest_input_explicit (h : header) : bytes :=
  h_chain_id h ++ h_prev h ++ le_bytes 8 (h_block_no h) ++ le_bytes 8 (i_bits 8 (h_timestamp h))
  ++ h_blocks_root h ++ h_txs_root h ++ h_receipts_root h ++ le_bytes 8 (h_confirms h)
  ++ h_pub_key h ++ h_coinbase h ++ h_sign h ++ h_consensus h.

Definition tx_hash_input_explicit (t : txbody) : bytes :=
  le_bytes 8 (t_nonce t) ++ t_account t ++ t_recipient t ++ t_amount t ++ t_payload t
  ++ le_bytes 8 (t_gas_limit t) ++ t_gas_price t ++ le_bytes 4 (i_bits 4 (t_type t))
  ++ t_chain_id_hash t ++ t_sign t.

(** Correspondence cases: the observed preimages. *)
Definition header_case_ok (c : header * bytes * bytes) : bool :=
  let '(h, full, nosign) := c in
  bytes_eqb (block_digest_input h) full && bytes_eqb (sign_digest_input h) nosign.

(** Binding theorems for the four digest inputs (C19) and the signature-coverage lemma cited
    by C09. *)
From Coq Require Import NArith ZArith List String Lia.
From Verif Require Import Common.Bytes Codec.Fields Codec.Digest.
Import ListNotations.
Open Scope string_scope.
Open Scope list_scope.

Lemma bytes_eq_dec : forall a b : bytes, {a = b} + {a <> b}.
Proof. apply list_eq_dec. apply N.eq_dec. Qed.

Lemma hash_distinct_or_collision : forall (H : bytes -> bytes) x y,
  x <> y -> H x <> H y \/ collision H.
Proof.
  intros H x y N. destruct (bytes_eq_dec (H x) (H y)) as [E|E]; [right | left; assumption].
  exists x, y. split; assumption.
Qed.

Lemma enc_fval_length_kind : forall v1 v2,
  kind_of v1 = kind_of v2 -> kind_of v1 <> KBytes -> List.length (enc_fval v1) = List.length (enc_fval v2).
Proof.
  intros [b1|n1|z1|z1] [b2|n2|z2|z2] K NB; simpl in *; try discriminate; try congruence;
    rewrite !le_bytes_length; reflexivity.
Qed.

Lemma enc_fval_inj : forall v1 v2,
  kind_of v1 = kind_of v2 -> fval_wf v1 -> fval_wf v2 -> enc_fval v1 = enc_fval v2 -> v1 = v2.
Proof.
  intros [b1|n1|z1|z1] [b2|n2|z2|z2] K W1 W2 E; simpl in *; try discriminate.
  - congruence.
  - f_equal. apply (le_bytes_inj 8); auto.
  - f_equal. apply (i_bits_inj 8); auto. apply (le_bytes_inj 8); auto; apply i_bits_bound.
  - f_equal. apply (i_bits_inj 4); auto. apply (le_bytes_inj 4); auto; apply i_bits_bound.
Qed.

Section GenericProofs.
  Variable R : Type.
  Variable get : string -> R -> fval.
  Hypothesis kind_stable : forall f r1 r2, kind_of (get f r1) = kind_of (get f r2).

  Lemma encode_fields_cons : forall f fs r,
    encode_fields R get (f :: fs) r = enc_fval (get f r) ++ encode_fields R get fs r.
  Proof. reflexivity. Qed.

  (** A field that is not written does not influence the bytes. *)
  Lemma encode_fields_independent : forall fs f r1 r2,
    ~ In f fs -> agree_except R get f r1 r2 -> encode_fields R get fs r1 = encode_fields R get fs r2.
  Proof.
    induction fs as [|a fs IH]; intros f r1 r2 NI A; [reflexivity|].
    rewrite !encode_fields_cons. rewrite (A a).
    - f_equal. apply (IH f); auto. intro; apply NI; right; assumption.
    - intro E; apply NI; left; assumption.
  Qed.

  (** Changing exactly one written field changes the bytes. *)
  Theorem single_field_change_changes_input : forall fs f r1 r2,
    NoDup fs -> In f fs -> rec_wf R get fs r1 -> rec_wf R get fs r2 ->
    agree_except R get f r1 r2 -> get f r1 <> get f r2 ->
    encode_fields R get fs r1 <> encode_fields R get fs r2.
  Proof.
    induction fs as [|a fs IH]; intros f r1 r2 ND I W1 W2 A D E; [contradiction|].
    inversion ND as [|? ? NIa ND']; subst.
    rewrite !encode_fields_cons in E.
    destruct (string_dec a f) as [->|Naf].
    - rewrite (encode_fields_independent fs f r1 r2 NIa A) in E.
      apply app_inv_tail in E. apply D.
      apply enc_fval_inj; [apply kind_stable | apply W1; left; reflexivity | apply W2; left; reflexivity | exact E].
    - destruct I as [I|I]; [contradiction|].
      rewrite (A a Naf) in E. apply app_inv_head in E.
      apply (IH f r1 r2); auto; intros g Hg; [apply W1 | apply W2]; right; assumption.
  Qed.

  (** Records whose variable-length fields have pairwise equal lengths and whose encodings
      coincide agree on every written field (no length prefixes are written, so without the
      length hypothesis this is false: see [header_input_not_injective_refuted]). *)
  Theorem encode_fields_injective_equal_lengths : forall fs r1 r2,
    rec_wf R get fs r1 -> rec_wf R get fs r2 ->
    (forall f, In f fs -> List.length (enc_fval (get f r1)) = List.length (enc_fval (get f r2))) ->
    encode_fields R get fs r1 = encode_fields R get fs r2 ->
    forall f, In f fs -> get f r1 = get f r2.
  Proof.
    induction fs as [|a fs IH]; intros r1 r2 W1 W2 L E f I; [contradiction|].
    rewrite !encode_fields_cons in E.
    apply app_eq_length_inv in E; [|apply L; left; reflexivity].
    destruct E as [Ea Er]. destruct I as [<-|I].
    - apply enc_fval_inj; [apply kind_stable | apply W1; left; reflexivity | apply W2; left; reflexivity | exact Ea].
    - apply (IH r1 r2); auto; intros g Hg; try (apply L; right; assumption);
        [apply W1 | apply W2]; right; assumption.
  Qed.
End GenericProofs.

(** * Instances *)

Lemma hget_kind_stable : forall f h1 h2, kind_of (hget f h1) = kind_of (hget f h2).
Proof.
  intros f h1 h2. unfold hget.
  repeat match goal with |- context [String.eqb f ?s] => destruct (String.eqb f s); [reflexivity|] end.
  reflexivity.
Qed.

Lemma tget_kind_stable : forall f t1 t2, kind_of (tget f t1) = kind_of (tget f t2).
Proof.
  intros f t1 t2. unfold tget.
  repeat match goal with |- context [String.eqb f ?s] => destruct (String.eqb f s); [reflexivity|] end.
  reflexivity.
Qed.

Lemma block_digest_input_explicit_eq : forall h, block_digest_input h = block_digest_input_explicit h.
Proof. intro h. unfold block_digest_input, block_digest_input_explicit, encode_fields. simpl. rewrite app_nil_r. reflexivity. Qed.

Lemma tx_hash_input_explicit_eq : forall t, tx_hash_input t = tx_hash_input_explicit t.
Proof. intro t. unfold tx_hash_input, tx_hash_input_explicit, encode_fields. simpl. rewrite app_nil_r. reflexivity. Qed.

Ltac nodup_strings := repeat (constructor; [simpl; intuition discriminate|]); constructor.

Lemma header_digest_fields_nodup : NoDup header_digest_fields. Proof. nodup_strings. Qed.
Lemma header_sign_fields_nodup : NoDup header_sign_fields. Proof. nodup_strings. Qed.
Lemma tx_hash_fields_nodup : NoDup tx_hash_fields. Proof. nodup_strings. Qed.
Lemma tx_sign_fields_nodup : NoDup tx_sign_fields. Proof. nodup_strings. Qed.

(** The identifier input contains every field of the message. *)
Lemma header_digest_fields_complete : header_digest_fields = header_struct_fields.
Proof. reflexivity. Qed.
Lemma tx_hash_fields_complete : tx_hash_fields = tx_struct_fields.
Proof. reflexivity. Qed.

(** The signed input is the identifier input minus exactly "Sign". *)
Lemma header_sign_fields_spec :
  header_sign_fields = filter (fun f => negb (String.eqb f "Sign")) header_digest_fields.
Proof. reflexivity. Qed.
Lemma tx_sign_fields_spec :
  tx_sign_fields = filter (fun f => negb (String.eqb f "Sign")) tx_hash_fields.
Proof. reflexivity. Qed.

Lemma wf_sub : forall (R : Type) (get : string -> R -> fval) fs fs' r,
  incl fs' fs -> rec_wf R get fs r -> rec_wf R get fs' r.
Proof. intros R get fs fs' r I W f Hf. apply W. apply I. assumption. Qed.

Lemma header_sign_incl : incl header_sign_fields header_struct_fields.
Proof. intros f Hf. simpl in *. intuition. Qed.
Lemma tx_sign_incl : incl tx_sign_fields tx_struct_fields.
Proof. intros f Hf. simpl in *. intuition. Qed.

Theorem block_input_single_field : forall f h1 h2,
  In f header_struct_fields -> header_wf h1 -> header_wf h2 ->
  agree_except header hget f h1 h2 -> hget f h1 <> hget f h2 ->
  block_digest_input h1 <> block_digest_input h2.
Proof.
  intros. apply (single_field_change_changes_input header hget hget_kind_stable _ f); auto.
  apply header_digest_fields_nodup.
Qed.

Theorem block_hash_single_field : forall (H : bytes -> bytes) f h1 h2,
  In f header_struct_fields -> header_wf h1 -> header_wf h2 ->
  agree_except header hget f h1 h2 -> hget f h1 <> hget f h2 ->
  block_hash H h1 <> block_hash H h2 \/ collision H.
Proof. intros. apply hash_distinct_or_collision. eapply block_input_single_field; eauto. Qed.

(** C09 clause "the signature covers the complete header": every field other than Sign. *)
Theorem sign_digest_covers_all_but_sign : forall f h1 h2,
  In f header_struct_fields -> f <> "Sign" -> header_wf h1 -> header_wf h2 ->
  agree_except header hget f h1 h2 -> hget f h1 <> hget f h2 ->
  sign_digest_input h1 <> sign_digest_input h2.
Proof.
  intros f h1 h2 I NS W1 W2 A D.
  apply (single_field_change_changes_input header hget hget_kind_stable _ f); auto.
  - apply header_sign_fields_nodup.
  - simpl in I. simpl. intuition.
  - eapply wf_sub; [apply header_sign_incl | exact W1].
  - eapply wf_sub; [apply header_sign_incl | exact W2].
Qed.

(** ... and only Sign is left out. *)
Theorem sign_input_omits_only_sign :
  (forall h1 h2, agree_except header hget "Sign" h1 h2 -> sign_digest_input h1 = sign_digest_input h2) /\
  (forall f, In f header_struct_fields -> f <> "Sign" -> In f header_sign_fields).
Proof.
  split.
  - intros h1 h2 A. apply (encode_fields_independent header hget _ "Sign"); auto.
    simpl. intuition discriminate.
  - intros f I NS. simpl in *. intuition.
Qed.

Theorem sign_digest_single_field : forall (H : bytes -> bytes) f h1 h2,
  In f header_struct_fields -> f <> "Sign" -> header_wf h1 -> header_wf h2 ->
  agree_except header hget f h1 h2 -> hget f h1 <> hget f h2 ->
  block_sign_digest H h1 <> block_sign_digest H h2 \/ collision H.
Proof. intros. apply hash_distinct_or_collision. eapply sign_digest_covers_all_but_sign; eauto. Qed.

Theorem tx_input_single_field : forall f t1 t2,
  In f tx_struct_fields -> tx_wf t1 -> tx_wf t2 ->
  agree_except txbody tget f t1 t2 -> tget f t1 <> tget f t2 ->
  tx_hash_input t1 <> tx_hash_input t2.
Proof.
  intros. apply (single_field_change_changes_input txbody tget tget_kind_stable _ f); auto.
  apply tx_hash_fields_nodup.
Qed.

Theorem tx_hash_single_field : forall (H : bytes -> bytes) f t1 t2,
  In f tx_struct_fields -> tx_wf t1 -> tx_wf t2 ->
  agree_except txbody tget f t1 t2 -> tget f t1 <> tget f t2 ->
  tx_hash H t1 <> tx_hash H t2 \/ collision H.
Proof. intros. apply hash_distinct_or_collision. eapply tx_input_single_field; eauto. Qed.

Theorem tx_sign_covers_all_but_sign : forall f t1 t2,
  In f tx_struct_fields -> f <> "Sign" -> tx_wf t1 -> tx_wf t2 ->
  agree_except txbody tget f t1 t2 -> tget f t1 <> tget f t2 ->
  tx_sign_input t1 <> tx_sign_input t2.
Proof.
  intros f t1 t2 I NS W1 W2 A D.
  apply (single_field_change_changes_input txbody tget tget_kind_stable _ f); auto.
  - apply tx_sign_fields_nodup.
  - simpl in I. simpl. intuition.
  - eapply wf_sub; [apply tx_sign_incl | exact W1].
  - eapply wf_sub; [apply tx_sign_incl | exact W2].
Qed.

Theorem tx_sign_input_omits_only_sign :
  (forall t1 t2, agree_except txbody tget "Sign" t1 t2 -> tx_sign_input t1 = tx_sign_input t2) /\
  (forall f, In f tx_struct_fields -> f <> "Sign" -> In f tx_sign_fields).
Proof.
  split.
  - intros t1 t2 A. apply (encode_fields_independent txbody tget _ "Sign"); auto.
    simpl. intuition discriminate.
  - intros f I NS. simpl in *. intuition.
Qed.

(** Headers (transactions) whose byte fields have pairwise equal lengths and equal digest
    inputs are equal field by field. *)
Theorem block_input_injective_equal_lengths : forall h1 h2,
  header_wf h1 -> header_wf h2 ->
  (forall f, In f header_struct_fields -> List.length (enc_fval (hget f h1)) = List.length (enc_fval (hget f h2))) ->
  block_digest_input h1 = block_digest_input h2 ->
  forall f, In f header_struct_fields -> hget f h1 = hget f h2.
Proof. intros h1 h2 W1 W2 L E. apply (encode_fields_injective_equal_lengths header hget hget_kind_stable _ h1 h2 W1 W2 L E). Qed.

Theorem tx_input_injective_equal_lengths : forall t1 t2,
  tx_wf t1 -> tx_wf t2 ->
  (forall f, In f tx_struct_fields -> List.length (enc_fval (tget f t1)) = List.length (enc_fval (tget f t2))) ->
  tx_hash_input t1 = tx_hash_input t2 ->
  forall f, In f tx_struct_fields -> tget f t1 = tget f t2.
Proof. intros t1 t2 W1 W2 L E. apply (encode_fields_injective_equal_lengths txbody tget tget_kind_stable _ t1 t2 W1 W2 L E). Qed.

(** Without the length hypothesis the raw concatenation is not injective: a byte can move
    between two adjacent variable-length fields (two fields change at once, so this does
    not contradict single-field binding). *)
Definition hdr0 : header := mk_header [1;0;0;0] [] 7 1700000000 [] [] [] 3 [8;1] [9] [5] [].
Definition hdr0_shift : header := mk_header [1;0;0;0] [] 7 1700000000 [] [] [] 3 [8] [1;9] [5] [].

Theorem header_input_not_injective_refuted :
  exists h1 h2, h1 <> h2 /\ block_digest_input h1 = block_digest_input h2.
Proof. exists hdr0, hdr0_shift. split; [discriminate | reflexivity]. Qed.

Definition tx0 : txbody := mk_txbody 1 [3;1] [2] [100] [] 0 [] 0 [7] [9;9].
Definition tx0_shift : txbody := mk_txbody 1 [3] [1;2] [100] [] 0 [] 0 [7] [9;9].

Theorem tx_input_not_injective_refuted :
  exists t1 t2, t1 <> t2 /\ tx_hash_input t1 = tx_hash_input t2.
Proof. exists tx0, tx0_shift. split; [discriminate | reflexivity]. Qed.

(** Satisfiability of the hypotheses. *)
Lemma hdr0_wf : header_wf hdr0.
Proof.
  intros f I. simpl in I.
  repeat (destruct I as [<-|I]; [simpl; unfold i_range; simpl; try lia; exact Logic.I|]). contradiction.
Qed.

Definition hdr0_confirms : header := mk_header [1;0;0;0] [] 7 1700000000 [] [] [] 4 [8;1] [9] [5] [].

Example single_field_example :
  In "Confirms" header_struct_fields /\ agree_except header hget "Confirms" hdr0 hdr0_confirms /\
  hget "Confirms" hdr0 <> hget "Confirms" hdr0_confirms /\
  block_digest_input hdr0 <> block_digest_input hdr0_confirms.
Proof.
  split; [simpl; intuition|]. split; [|split; [discriminate | discriminate]].
  intros g Ng. unfold hget.
  repeat match goal with |- context [String.eqb g ?s] =>
    let E := fresh in destruct (String.eqb g s) eqn:E;
      [try reflexivity; apply String.eqb_eq in E; contradiction|] end.
  reflexivity.
Qed.

(** Field values and the two writers the digest code uses:
    binary.Write(w, binary.LittleEndian, x) for []byte (raw, no length prefix), uint64,
    int64, int32 (fixed-width little-endian) and hash.Write(bytes).
    A digest input is the concatenation of the encodings of a list of named fields.
    No proofs here. *)
From Coq Require Import NArith ZArith List String.
From Verif Require Import Common.Bytes.
Import ListNotations.
Open Scope N_scope.

Inductive fval :=
| VBytes (b : bytes)     (* []byte, written raw *)
| VU64 (n : N)           (* uint64 *)
| VI64 (z : Z)           (* int64 *)
| VI32 (z : Z).          (* int32 (TxType) *)

Inductive fkind := KBytes | KU64 | KI64 | KI32.

Definition kind_of (v : fval) : fkind :=
  match v with VBytes _ => KBytes | VU64 _ => KU64 | VI64 _ => KI64 | VI32 _ => KI32 end.

Definition enc_fval (v : fval) : bytes :=
  match v with
  | VBytes b => b
  | VU64 n => le_bytes 8 n
  | VI64 z => le_bytes 8 (i_bits 8 z)
  | VI32 z => le_bytes 4 (i_bits 4 z)
  end.

(** Values representable in the Go type. *)
Definition fval_wf (v : fval) : Prop :=
  match v with
  | VBytes _ => True
  | VU64 n => n < 2 ^ 64
  | VI64 z => i_range 8 z
  | VI32 z => i_range 4 z
  end.

Section Generic.
  Variable R : Type.
  Variable get : string -> R -> fval.

  Definition encode_fields (fs : list string) (r : R) : bytes :=
    List.concat (map (fun f => enc_fval (get f r)) fs).

  Definition agree_except (f : string) (r1 r2 : R) : Prop :=
    forall g, g <> f -> get g r1 = get g r2.

  Definition rec_wf (fs : list string) (r : R) : Prop :=
    forall f, In f fs -> fval_wf (get f r).
End Generic.

Definition collision (H : bytes -> bytes) : Prop := exists x y, x <> y /\ H x = H y.

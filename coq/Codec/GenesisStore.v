(** Model of what chain/chaindb.go stores for the genesis block and reads back at start-up:
    addGenesisBlock: the genesis block (header ChainID = ChainID.Bytes(), Timestamp) under
      block number 0; dbkey.Genesis() = Genesis.Bytes() (gob of the Genesis value with Balance
      removed: chain id, timestamp, BPs, enterprise BPs); dbkey.GenesisBalance() =
      totalBalance.Bytes() (big.Int.Bytes: minimal big-endian) when totalBalance is non-nil.
    GetGenesisInfo: gob-decodes the Genesis value, then OVERWRITES its ID by ChainID.Read of
      the genesis block header's chain id when that Read succeeds, and sets totalBalance from
      the stored bytes when they are non-empty.
    gob is opaque: the stored Genesis value is modelled by the triple it carries.
    No proofs here. *)
From Coq Require Import NArith ZArith List Bool.
From Verif Require Import Common.Bytes Codec.ChainId.
Import ListNotations.
Open Scope N_scope.

Record genesis_info := mk_genesis_info {
  g_id : chain_id;
  g_timestamp : Z;
  g_bps : list bytes;          (* BPs and EnterpriseBPs, as the strings they are *)
  g_total : option N           (* totalBalance: nil or a non-negative big.Int *)
}.

Record genesis_store := mk_genesis_store {
  gs_gob : chain_id * Z * list bytes;   (* dbkey.Genesis() *)
  gs_block_cid : bytes;                  (* header.ChainID of block 0 *)
  gs_block_ts : Z;                       (* header.Timestamp of block 0 *)
  gs_balance : option bytes              (* dbkey.GenesisBalance(); None = key never set *)
}.

(** big.Int.Bytes(): minimal big-endian, the empty slice for 0. *)
Definition big_len (n : N) : nat := if n =? 0 then O else N.to_nat (N.log2 n / 8 + 1).
Definition big_bytes (n : N) : bytes := be_bytes (big_len n) n.

Definition add_genesis (g : genesis_info) : genesis_store :=
  mk_genesis_store (g_id g, g_timestamp g, g_bps g) (chain_id_bytes (g_id g)) (g_timestamp g)
                   (match g_total g with Some n => Some (big_bytes n) | None => None end).

Definition get_genesis (s : genesis_store) : genesis_info :=
  let '(gid, ts, bps) := gs_gob s in
  let id := match gs_block_cid s with
            | [] => gid
            | raw => match chain_id_read raw with Some c => c | None => gid end
            end in
  let total := match gs_balance s with
               | Some (b :: r) => Some (be_decode (b :: r))
               | _ => None                       (* len(v) == 0: totalBalance stays nil *)
               end in
  mk_genesis_info id ts bps total.

Definition opt_N_eqb (a b : option N) : bool :=
  match a, b with Some x, Some y => x =? y | None, None => true | _, _ => false end.

Fixpoint bytes_list_eqb (a b : list bytes) : bool :=
  match a, b with
  | [], [] => true
  | x :: a', y :: b' => bytes_eqb x y && bytes_list_eqb a' b'
  | _, _ => false
  end.

Definition genesis_info_eqb (a b : genesis_info) : bool :=
  chain_id_eqb (g_id a) (g_id b) && Z.eqb (g_timestamp a) (g_timestamp b) &&
  bytes_list_eqb (g_bps a) (g_bps b) && opt_N_eqb (g_total a) (g_total b).

(** Correspondence case: genesis written, observed (block chain id, stored balance bytes or
    None), genesis read back after re-opening the database. *)
Definition genesis_case_ok (c : genesis_info * (bytes * option bytes) * genesis_info) : bool :=
  let '(g, (cid, bal), back) := c in
  let s := add_genesis g in
  bytes_eqb (gs_block_cid s) cid &&
  match gs_balance s, bal with
  | Some x, Some y => bytes_eqb x y
  | None, None => true
  | Some [], None => true      (* an empty value and a missing key read the same *)
  | _, _ => false
  end && genesis_info_eqb (get_genesis s) back.

(** Genesis info written at genesis is read back at start-up: chain id (for EVERY magic /
    consensus, because a chain id that ChainID.Read cannot parse falls back to the gob copy),
    timestamp, producers, and a positive total balance. *)
From Coq Require Import NArith ZArith List Bool Lia.
From Verif Require Import Common.Bytes Codec.ChainId Codec.ChainIdProofs Codec.GenesisStore.
Import ListNotations.
Open Scope N_scope.

Lemma split_on_parts : forall sep s, split_on sep s <> [].
Proof.
  induction s as [|b r IH]; simpl; [discriminate|].
  destruct (b =? sep); [discriminate|]. destruct (split_on sep r); [contradiction|discriminate].
Qed.

Lemma split_on_one : forall sep b q, split_on sep b = [q] -> q = b.
Proof.
  intros sep. induction b as [|y b IH]; intros q S; simpl in S.
  - injection S as <-. reflexivity.
  - destruct (y =? sep) eqn:E.
    + exfalso. injection S as _ S. exact (split_on_parts sep b S).
    + destruct (split_on sep b) as [|p' ps] eqn:Eb; [exact (False_ind _ (split_on_parts sep b Eb))|].
      injection S as <- ->. rewrite (IH p' eq_refl). reflexivity.
Qed.

Lemma split_on_sep_not_one : forall sep l m r, split_on sep (l ++ sep :: m) <> [r].
Proof.
  intros sep. induction l as [|z l IH]; intros m r S; simpl in S.
  - rewrite N.eqb_refl in S. injection S as _ S. exact (split_on_parts sep m S).
  - destruct (z =? sep); [injection S as _ S; exact (split_on_parts sep _ S)|].
    destruct (split_on sep (l ++ sep :: m)) as [|p' ps] eqn:El; [exact (split_on_parts sep _ El)|].
    injection S as _ ->. exact (IH m p' El).
Qed.

(** If splitting [a ++ sep :: b] gives exactly two parts, they are [a] and [b] (so neither
    contains the separator). *)
Lemma split_on_two : forall sep a b p q,
  split_on sep (a ++ sep :: b) = [p; q] -> p = a /\ q = b.
Proof.
  intros sep. induction a as [|x a IH]; intros b p q S; simpl in S.
  - rewrite N.eqb_refl in S. injection S as <- S. split; [reflexivity | apply (split_on_one sep); assumption].
  - destruct (x =? sep) eqn:E.
    + injection S as <- S. exfalso. exact (split_on_sep_not_one sep a b q S).
    + destruct (split_on sep (a ++ sep :: b)) as [|p' ps] eqn:Ea; [exact (False_ind _ (split_on_parts sep _ Ea))|].
      injection S as <- ->. destruct (IH b p' q Ea) as [-> ->]. auto.
Qed.

(** Whatever ChainID.Read returns on the output of ChainID.Bytes is the chain id written. *)
Local Opaque le_decode.
Theorem chain_id_read_bytes_sound : forall c c',
  cid_version c < 2 ^ 32 -> chain_id_read (chain_id_bytes c) = Some c' -> c' = c.
Proof.
  intros [v p m mg cs] c' Hv R. simpl in Hv.
  unfold chain_id_bytes, chain_id_version in R. cbn [cid_version cid_public cid_main cid_magic cid_consensus] in R.
  pose proof (le_decode_le_bytes 4 v Hv) as D.
  remember (le_decode (le_bytes 4 v)) as dv eqn:Edv.
  cbn [le_bytes] in R, Edv. cbn [app] in R. unfold chain_id_read in R.
  destruct (split_on slash (mg ++ slash :: cs)) as [|p1 [|p2 [|? ?]]] eqn:S; cbv beta iota in R; try discriminate R.
  apply split_on_two in S as [-> ->]. injection R as <-.
  rewrite <- Edv, D, !bool_byte_decode. reflexivity.
Qed.
Local Transparent le_decode.

Lemma big_bytes_decode : forall n, be_decode (big_bytes n) = n.
Proof.
  intro n. unfold big_bytes, big_len. destruct (n =? 0) eqn:E.
  - apply N.eqb_eq in E. subst. reflexivity.
  - apply N.eqb_neq in E. apply be_decode_be_bytes.
    rewrite Nnat.N2Nat.id.
    assert (Hn : 0 < n) by lia.
    destruct (N.log2_spec n Hn) as [_ Hlt].
    eapply N.lt_le_trans; [exact Hlt|].
    change 256 with (2 ^ 8). rewrite <- N.pow_mul_r.
    apply N.pow_le_mono_r; [discriminate|].
    pose proof (N.div_mod (N.log2 n) 8 ltac:(discriminate)) as DM.
    pose proof (N.mod_lt (N.log2 n) 8 ltac:(discriminate)). lia.
Qed.

Lemma big_bytes_nonempty : forall n, n <> 0 -> big_bytes n <> [].
Proof.
  intros n Hn E. apply (f_equal (@length N)) in E. unfold big_bytes in E. rewrite be_bytes_length in E.
  unfold big_len in E. replace (n =? 0) with false in E by (symmetry; apply N.eqb_neq; assumption).
  cbn [length] in E. assert (P : N.to_nat (N.log2 n / 8 + 1) <> O).
  { rewrite N.add_1_r, Nnat.N2Nat.inj_succ. discriminate. }
  congruence.
Qed.

Theorem genesis_info_roundtrip : forall g,
  cid_version (g_id g) < 2 ^ 32 -> g_total g <> Some 0 ->
  get_genesis (add_genesis g) = g.
Proof.
  intros [id ts bps total] Hv Ht. cbn [g_id g_total] in *.
  unfold add_genesis, get_genesis. cbn [g_id g_timestamp g_bps g_total gs_gob gs_block_cid gs_balance].
  f_equal.
  - destruct (chain_id_bytes id) as [|b r] eqn:Eb; [reflexivity|]. rewrite <- Eb.
    destruct (chain_id_read (chain_id_bytes id)) as [c'|] eqn:R; [|reflexivity].
    apply chain_id_read_bytes_sound in R; assumption.
  - destruct total as [n|]; [|reflexivity].
    assert (Hn : n <> 0) by congruence.
    pose proof (big_bytes_nonempty n Hn) as NE. pose proof (big_bytes_decode n) as D.
    destruct (big_bytes n) as [|b r]; [contradiction|]. rewrite D. reflexivity.
Qed.

(** A total balance of 0 is stored as the empty value and reads back as "no total balance". *)
Theorem genesis_zero_total_reads_absent : forall id ts bps,
  g_total (get_genesis (add_genesis (mk_genesis_info id ts bps (Some 0)))) = None.
Proof. reflexivity. Qed.

(** F6 is harmless here: a chain id with '/' in its magic is still read back (gob copy). *)
Example genesis_roundtrip_slash :
  let g := mk_genesis_info cid_slash 1700000000%Z [[98; 112]] (Some 1000) in get_genesis (add_genesis g) = g.
Proof. vm_compute. reflexivity. Qed.

(** Model of config/hardfork_gen.go (HardforkConfig.Version / IsVnFork / validate /
    CheckCompatibility) and config/hardfork.go (isFork, checkOlderNode).
    A configuration is the list of fork heights in struct-field order (V2, V3, ...);
    the stored configuration (HardforkDbConfig, a Go map "Vn" -> height) is an association
    list version number -> height, a missing key reads as 0 exactly as the Go map does.
    No proofs here. *)
From Coq Require Import NArith List Bool.
Import ListNotations.
Open Scope N_scope.

Definition hf_config := list N.

Definition is_fork (fork_no cur : N) : bool := fork_no <=? cur.

(** Version(h): scan the fields from the last one down; the first whose height is <= h
    decides (field index i gives version i + 2); 0 if none. *)
Fixpoint version_scan (c_rev : list N) (v : N) (h : N) : N :=
  match c_rev with
  | [] => 0
  | x :: r => if x <=? h then v else version_scan r (v - 1) h
  end.

Definition version (c : hf_config) (h : N) : N :=
  version_scan (rev c) (N.of_nat (length c) + 1) h.

(** IsV<k+2>Fork(h). *)
Definition is_vfork (c : hf_config) (k : nat) (h : N) : bool := is_fork (nth k c 0) h.

(** validate(): heights non-decreasing in field order (prev starts at 0). *)
Fixpoint validate_from (prev : N) (c : hf_config) : bool :=
  match c with
  | [] => true
  | x :: r => if x <? prev then false else validate_from x r
  end.
Definition validate (c : hf_config) : bool := validate_from 0 c.

Definition hf_db := list (N * N).

Fixpoint db_get (db : hf_db) (v : N) : N :=
  match db with
  | [] => 0
  | (k, x) :: r => if k =? v then x else db_get r v
  end.

Definition db_heights (n : nat) (db : hf_db) : hf_config :=
  map (fun i => db_get db (N.of_nat i + 2)) (seq 0 n).

(** checkOlderNode(maxVer, latest, dbCfg): a stored fork of a version this binary does not
    know that is already active is an error. *)
Definition check_older (max_ver h : N) (db : hf_db) : bool :=
  forallb (fun kv => negb ((max_ver <? fst kv) && is_fork (snd kv) h)) db.

Definition compat_pair (h : N) (p : N * N) : bool :=
  negb ((is_fork (fst p) h || is_fork (snd p) h) && negb (fst p =? snd p)).

(** CheckCompatibility(dbCfg, h) = nil. *)
Definition check_compatibility (c : hf_config) (db : hf_db) (h : N) : bool :=
  validate c &&
  forallb (compat_pair h) (combine c (db_heights (length c) db)) &&
  check_older (N.of_nat (length c) + 1) h db.

(** Correspondence cases. *)
Definition version_case_ok (x : hf_config * N * N * list bool) : bool :=
  let '(c, h, v, forks) := x in
  (version c h =? v) &&
  forallb (fun k => Bool.eqb (is_vfork c k h) (nth k forks false)) (seq 0 (length c)).

Definition compat_case_ok (x : hf_config * hf_db * N * bool) : bool :=
  let '(c, db, h, ok) := x in Bool.eqb (check_compatibility c db h) ok.

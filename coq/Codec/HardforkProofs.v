(** Hardfork versions: monotone in the height; a configuration accepted by
    CheckCompatibility against the stored one assigns the same version to every height up to
    the checked one (stable across restarts). *)
From Coq Require Import NArith List Bool Lia.
From Verif Require Import Codec.Hardfork.
Import ListNotations.
Open Scope N_scope.

Lemma version_scan_le : forall r v h, version_scan r v h <= v.
Proof.
  induction r as [|x r IH]; intros v h; simpl; [lia|].
  destruct (x <=? h); [lia|]. specialize (IH (v - 1) h). lia.
Qed.

Lemma version_scan_monotone : forall r v h1 h2, h1 <= h2 -> version_scan r v h1 <= version_scan r v h2.
Proof.
  induction r as [|x r IH]; intros v h1 h2 L; simpl; [lia|].
  destruct (x <=? h1) eqn:E1; destruct (x <=? h2) eqn:E2.
  - lia.
  - apply N.leb_le in E1. apply N.leb_gt in E2. lia.
  - pose proof (version_scan_le r (v - 1) h1). lia.
  - apply IH. assumption.
Qed.

Theorem version_monotone : forall c h1 h2, h1 <= h2 -> version c h1 <= version c h2.
Proof. intros. unfold version. apply version_scan_monotone. assumption. Qed.

Theorem version_range : forall c h, version c h = 0 \/ 2 <= version c h <= N.of_nat (length c) + 1.
Proof.
  intros c h. unfold version. rewrite <- (rev_length c).
  generalize (rev c). intro r. 
  assert (G : forall r v, v = N.of_nat (length r) + 1 -> version_scan r v h = 0 \/ 2 <= version_scan r v h <= v).
  { clear. induction r as [|x r IH]; intros v Hv; simpl; [left; reflexivity|].
    destruct (x <=? h).
    - right. simpl length in Hv. lia.
    - destruct (IH (v - 1)) as [Z|B]; [simpl length in Hv; lia | left; assumption | right; lia]. }
  apply G. reflexivity.
Qed.

(** Pointwise agreement below [h] gives equal versions below [h]. *)
Definition agree_upto (h x y : N) : Prop := (x <= h \/ y <= h) -> x = y.

Lemma version_scan_agree : forall h r1 r2 v h',
  Forall2 (agree_upto h) r1 r2 -> h' <= h -> version_scan r1 v h' = version_scan r2 v h'.
Proof.
  intros h r1 r2 v h' F. revert v. induction F as [|x y r1 r2 A F IH]; intros v L; simpl; [reflexivity|].
  destruct (x <=? h') eqn:E1; destruct (y <=? h') eqn:E2; auto.
  - apply N.leb_le in E1. apply N.leb_gt in E2. unfold agree_upto in A. lia.
  - apply N.leb_gt in E1. apply N.leb_le in E2. unfold agree_upto in A. lia.
Qed.

Lemma compat_pair_agree : forall h p, compat_pair h p = true -> agree_upto h (fst p) (snd p).
Proof.
  intros h [x y]. unfold compat_pair, agree_upto, is_fork. simpl. intros C D.
  destruct (x =? y) eqn:E; [apply N.eqb_eq; assumption|].
  rewrite andb_true_r in C. apply negb_true_iff in C. apply orb_false_iff in C as [C1 C2].
  apply N.leb_gt in C1. apply N.leb_gt in C2. lia.
Qed.

Lemma forallb_combine_Forall2 : forall h (a b : list N),
  length a = length b -> forallb (compat_pair h) (combine a b) = true -> Forall2 (agree_upto h) a b.
Proof.
  intros h a. induction a as [|x a IH]; intros [|y b] L F; simpl in *; try discriminate; constructor.
  - apply andb_true_iff in F as [F1 _]. apply (compat_pair_agree h (x, y)). assumption.
  - apply andb_true_iff in F as [_ F2]. apply IH; auto.
Qed.

Lemma Forall2_rev : forall (A B : Type) (R : A -> B -> Prop) l1 l2, Forall2 R l1 l2 -> Forall2 R (rev l1) (rev l2).
Proof.
  intros A B R l1 l2 F. induction F; simpl; [constructor|].
  apply Forall2_app; auto.
Qed.

Lemma db_heights_length : forall n db, length (db_heights n db) = n.
Proof. intros. unfold db_heights. rewrite map_length, seq_length. reflexivity. Qed.

Theorem compat_implies_same_versions : forall c db h,
  check_compatibility c db h = true ->
  forall h', h' <= h -> version c h' = version (db_heights (length c) db) h'.
Proof.
  intros c db h C h' L. unfold check_compatibility in C.
  apply andb_true_iff in C as [C _]. apply andb_true_iff in C as [_ C].
  apply forallb_combine_Forall2 in C; [|rewrite db_heights_length; reflexivity].
  unfold version. rewrite db_heights_length.
  apply (version_scan_agree h); auto. apply Forall2_rev. assumption.
Qed.

(** For a validated configuration, Version and the IsVnFork predicates agree. *)
Lemma validate_from_lb : forall r x, validate_from x r = true ->
  forall j, (j < length r)%nat -> x <= nth j r 0.
Proof.
  induction r as [|y r IH]; intros x V j B; simpl in B; [lia|].
  simpl in V. destruct (y <? x) eqn:E; [discriminate|]. apply N.ltb_ge in E.
  destruct j; simpl; [assumption|]. specialize (IH y V j ltac:(lia)). lia.
Qed.

Lemma validate_from_sorted : forall c p, validate_from p c = true ->
  forall i j, (i <= j < length c)%nat -> nth i c 0 <= nth j c 0.
Proof.
  induction c as [|x r IH]; intros p V i j B; simpl in B; [lia|].
  simpl in V. destruct (x <? p) eqn:E; [discriminate|].
  destruct i as [|i]; destruct j as [|j]; simpl; try lia.
  - apply validate_from_lb; auto. lia.
  - apply (IH x); auto. lia.
Qed.

Lemma version_scan_spec : forall r v h k,
  (k < length r)%nat -> v = N.of_nat (length r) + 1 ->
  (forall i j, (i <= j < length r)%nat -> nth j r 0 <= nth i r 0) ->   (* r is non-increasing *)
  (N.of_nat (length r - k) + 1 <= version_scan r v h <-> nth k r 0 <= h).
Proof.
  induction r as [|x r IH]; intros v h k Bk Hv S; simpl in Bk; [lia|].
  cbn [version_scan]. destruct (x <=? h) eqn:E.
  - apply N.leb_le in E. split; intro.
    + specialize (S 0%nat k ltac:(simpl; lia)). simpl nth at 2 in S. lia.
    + cbn [length] in *. lia.
  - apply N.leb_gt in E. destruct k as [|k].
    + simpl nth. split; intro G; [|lia].
      pose proof (version_scan_le r (v - 1) h). cbn [length] in *. lia.
    + cbn [nth]. cbn [length] in *.
      assert (S' : forall i j, (i <= j < length r)%nat -> nth j r 0 <= nth i r 0).
      { intros i j B. apply (S (Datatypes.S i) (Datatypes.S j)). simpl. lia. }
      specialize (IH (v - 1) h k ltac:(lia) ltac:(lia) S').
      replace (Datatypes.S (length r) - Datatypes.S k)%nat with (length r - k)%nat by lia. exact IH.
Qed.

Theorem version_fork_consistent : forall c h k,
  validate c = true -> (k < length c)%nat ->
  (N.of_nat k + 2 <= version c h <-> is_vfork c k h = true).
Proof.
  intros c h k V Bk. unfold is_vfork, is_fork, version. rewrite N.leb_le.
  pose proof (validate_from_sorted c 0 V) as S.
  assert (Bk' : (length c - 1 - k < length (rev c))%nat) by (rewrite rev_length; lia).
  pose proof (version_scan_spec (rev c) (N.of_nat (length c) + 1) h (length c - 1 - k) Bk') as P.
  rewrite rev_length in P. specialize (P eq_refl).
  assert (Srev : forall i j, (i <= j < length c)%nat -> nth j (rev c) 0 <= nth i (rev c) 0).
  { intros i j B. rewrite !rev_nth by lia. apply S. lia. }
  specialize (P Srev).
  rewrite rev_nth in P by lia.
  replace (length c - Datatypes.S (length c - 1 - k))%nat with k in P by lia.
  replace (length c - (length c - 1 - k))%nat with (Datatypes.S k) in P by lia.
  rewrite <- P. lia.
Qed.

Example mainnet_cfg : hf_config := [19611555; 111499715; 173677571; 196150000].
Example version_examples :
  version mainnet_cfg 0 = 0 /\ version mainnet_cfg 19611555 = 2 /\ version mainnet_cfg 173677570 = 3 /\
  version mainnet_cfg 200000000 = 5 /\ validate mainnet_cfg = true /\
  check_compatibility mainnet_cfg [(2, 19611555); (3, 111499715); (4, 173677571); (5, 196150000)] 200000000 = true /\
  check_compatibility mainnet_cfg [(2, 19611555); (3, 111499715); (4, 173677571); (5, 190000000)] 180000000 = true /\
  check_compatibility mainnet_cfg [(2, 19611555); (3, 111499715); (4, 173677571); (5, 190000000)] 195000000 = false /\
  (* a missing key reads as height 0, i.e. an active fork *)
  check_compatibility mainnet_cfg [(2, 19611555); (3, 111499715); (4, 173677571)] 180000000 = false.
Proof. vm_compute. repeat split; reflexivity. Qed.

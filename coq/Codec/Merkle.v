(** Model of internal/merkle/merkle.go:CalculateMerkleTree / CalculateMerkleRoot.

    The Go code lays the leaf hashes out in an array of leafCount = 2^k >= n slots (unused
    slots nil), then fills the branch levels pair by pair: both children nil -> nil; right
    child nil -> the left child is copied into the right slot (odd node duplicated); node =
    H(left ++ right).  Because the nil slots always form a suffix of a level, a level is
    represented here by the list of its non-nil nodes, [pair_up] computes the next level and
    the root is reached when one node is left.  ([merkle_tree_array] below is the literal
    array algorithm; both are compared with the Go code on every run, and
    MerkleArray.v:merkle_root_array_eq proves they return the same root for every hash
    function and every entry list.)
    No proofs here. *)
From Coq Require Import NArith List.
From Verif Require Import Common.Bytes.
Import ListNotations.
Open Scope N_scope.

Definition nil_hash : bytes := repeat 0 32.

Section Merkle.
  Variable H : bytes -> bytes.

  Fixpoint pair_up (l : list bytes) : list bytes :=
    match l with
    | [] => []
    | [a] => [H (a ++ a)]
    | a :: b :: r => H (a ++ b) :: pair_up r
    end.

  Fixpoint root_fuel (fuel : nat) (l : list bytes) : bytes :=
    match l with
    | [] => nil_hash
    | [a] => a
    | _ => match fuel with
           | O => nil_hash
           | S f => root_fuel f (pair_up l)
           end
    end.

  Definition merkle_root (leaves : list bytes) : bytes := root_fuel (length leaves) leaves.

  (** * The literal array algorithm *)

  (** getLeafCount: note the Go expression `num&num - 1` parses as `(num&num) - 1`, so the
      shortcut fires only for num = 1; the loop gives the least power of two >= num. *)
  Fixpoint leaf_count_from (fuel : nat) (x num : nat) : nat :=
    match fuel with
    | O => x
    | S f => if Nat.ltb x num then leaf_count_from f (2 * x) num else x
    end.
  Definition leaf_count (num : nat) : nat := leaf_count_from num 1 num.

  (** One branch level over option slots. *)
  Fixpoint level_up (l : list (option bytes)) : list (option bytes) :=
    match l with
    | Some a :: Some b :: r => Some (H (a ++ b)) :: level_up r
    | Some a :: None :: r => Some (H (a ++ a)) :: level_up r
    | None :: _ :: r => None :: level_up r
    | _ => []
    end.

  Fixpoint levels (fuel : nat) (l : list (option bytes)) : list (option bytes) :=
    match fuel with
    | O => l
    | S f => match l with
             | _ :: _ :: _ => l ++ levels f (level_up l)
             | _ => l
             end
    end.

  (** merkles[0 .. totalCount-1] for a non-empty entry list (without the in-place copy of the
      duplicated child, which does not influence any branch value). *)
  Definition merkle_tree_array (leaves : list bytes) : list (option bytes) :=
    match leaves with
    | [] => [Some nil_hash]
    | _ => let lc := leaf_count (length leaves) in
           levels lc (map Some leaves ++ repeat None (lc - length leaves))
    end.

  Definition merkle_root_array (leaves : list bytes) : option bytes :=
    last (merkle_tree_array leaves) None.
End Merkle.

(** Correspondence case: leaves, root observed. *)
Definition merkle_case_ok (H : bytes -> bytes) (c : list bytes * bytes) : bool :=
  let '(leaves, root) := c in
  bytes_eqb (merkle_root H leaves) root &&
  match merkle_root_array H leaves with Some r => bytes_eqb r root | None => false end.

(** The literal array algorithm of merkle.go ([merkle_tree_array]) and the level-list model
    ([merkle_root]) compute the same root, for every hash function and every entry list. *)
From Coq Require Import NArith List Lia PeanoNat.
From Verif Require Import Common.Bytes Codec.Merkle Codec.MerkleProofs.
Import ListNotations.
Open Scope nat_scope.

Inductive pow2 : nat -> Prop :=
| pow2_1 : pow2 1
| pow2_double : forall p, pow2 p -> pow2 (2 * p).

Lemma pow2_pos : forall p, pow2 p -> 1 <= p.
Proof. induction 1; lia. Qed.

Section Array.
  Variable H : bytes -> bytes.

  Definition somes (xs : list bytes) (k : nat) : list (option bytes) := map Some xs ++ repeat None k.

  Lemma somes_length : forall xs k, length (somes xs k) = length xs + k.
  Proof. intros. unfold somes. rewrite app_length, map_length, repeat_length. reflexivity. Qed.

  Lemma level_up_nones : forall k, level_up H (repeat None (2 * k)) = repeat None k.
  Proof.
    induction k as [|k IH]; [reflexivity|].
    replace (2 * S k) with (S (S (2 * k))) by lia. cbn [repeat level_up]. rewrite IH. reflexivity.
  Qed.

  (** One level: the non-nil prefix is paired up, the nil suffix halves. *)
  Lemma level_up_somes : forall xs k t,
    length xs + k = 2 * t ->
    exists k', level_up H (somes xs k) = somes (pair_up H xs) k' /\ length (pair_up H xs) + k' = t.
  Proof.
    intro xs. induction xs as [|a|a b r IH] using list_ind2; intros k t E.
    - assert (Ek : k = 2 * t) by (cbn [length] in E; lia). subst k. exists t. unfold somes. cbn [map app pair_up].
      rewrite level_up_nones. split; [reflexivity | cbn [length]; lia].
    - cbn [length] in E. destruct k as [|k]; [lia|]. assert (Ek : k = 2 * (t - 1)) by lia. subst k.
      exists (t - 1). unfold somes. cbn [map app repeat level_up pair_up].
      rewrite level_up_nones. split; [reflexivity | cbn [length]; lia].
    - cbn [length] in E. destruct (IH k (t - 1)) as [k' [El Ek]]; [lia|].
      exists k'. unfold somes in *. cbn [map app level_up pair_up]. rewrite El. split; [reflexivity | cbn [length]; lia].
  Qed.

  Lemma last_app_nonempty : forall (A : Type) (l m : list A) d, m <> [] -> last (l ++ m) d = last m d.
  Proof.
    intros A l m d N. induction l as [|x l IH]; [reflexivity|].
    simpl. destruct (l ++ m) eqn:E; [|exact IH].
    apply app_eq_nil in E. destruct E; contradiction.
  Qed.

  Lemma levels_nonempty : forall fuel l, l <> [] -> levels H fuel l <> [].
  Proof.
    intros fuel l N. destruct fuel; simpl; [assumption|].
    destruct l as [|x [|y r]]; try assumption. discriminate.
  Qed.

  (** Invariant of the levels: total width [p] a power of two, more than half of it non-nil
      (or width 1). *)
  Lemma levels_last : forall p, pow2 p -> forall fuel xs k f',
    length xs + k = p -> 1 <= length xs -> p < 2 * length xs \/ p = 1 -> p <= fuel -> length xs <= f' ->
    last (levels H fuel (somes xs k)) None = Some (root_fuel H f' xs).
  Proof.
    induction 1 as [|p Hp IH]; intros fuel xs k f' E L1 Half F F'.
    - (* width 1 *)
      destruct xs as [|a [|b r]]; simpl in E, L1; try lia.
      assert (k = 0) by lia. subst k. unfold somes. simpl.
      destruct fuel; simpl; destruct f'; reflexivity.
    - pose proof (pow2_pos p Hp) as Pp.
      destruct Half as [Half|Half]; [|lia].
      destruct xs as [|a [|b r]]; [simpl in L1; lia | simpl in Half; lia |].
      destruct fuel as [|f]; [lia|].
      destruct (level_up_somes (a :: b :: r) k p E) as [k' [El Ek]].
      remember (a :: b :: r) as xs eqn:Exs.
      assert (Shape : exists o1 o2 rest, somes xs k = o1 :: o2 :: rest).
      { subst xs. unfold somes. simpl. eauto. }
      destruct Shape as (o1 & o2 & rest & Sh).
      cbn [levels]. rewrite Sh. rewrite <- Sh.
      rewrite last_app_nonempty.
      2:{ apply levels_nonempty. rewrite El. unfold somes. subst xs. simpl. discriminate. }
      rewrite El.
      pose proof (pair_up_length_bound' H xs) as PB.
      assert (Lp : 1 <= length (pair_up H xs)) by (subst xs; simpl; lia).
      assert (Hx : length xs = S (S (length r))) by (subst xs; reflexivity).
      destruct f' as [|f'']; [lia|].
      rewrite (IH f (pair_up H xs) k' f''); try lia.
      + subst xs. reflexivity.
      + (* more than half of the next level is non-nil, or it has width 1 *)
        destruct (Nat.eq_dec p 1) as [->|Np]; [right; reflexivity | left].
        (* 2 * |pair_up xs| >= |xs| and 2p < 2|xs| *)
        assert (length xs <= 2 * length (pair_up H xs)).
        { clear - H. induction xs using list_ind2; simpl in *; lia. }
        lia.
  Qed.

  Lemma leaf_count_from_spec : forall fuel x num,
    pow2 x -> x < 2 * num -> num - x <= fuel ->
    let r := leaf_count_from fuel x num in pow2 r /\ num <= r /\ r < 2 * num.
  Proof.
    induction fuel as [|f IH]; intros x num Px B F; simpl.
    - repeat split; auto; lia.
    - destruct (Nat.ltb x num) eqn:E.
      + apply Nat.ltb_lt in E. apply IH; [constructor; assumption | lia | pose proof (pow2_pos x Px); lia].
      + apply Nat.ltb_ge in E. repeat split; auto.
  Qed.

  Theorem merkle_root_array_eq : forall leaves,
    merkle_root_array H leaves = Some (merkle_root H leaves).
  Proof.
    intros leaves. unfold merkle_root_array, merkle_tree_array, merkle_root.
    destruct leaves as [|a r]; [reflexivity|].
    remember (a :: r) as xs eqn:Exs.
    assert (L1 : 1 <= length xs) by (subst xs; simpl; lia).
    destruct (leaf_count_from_spec (length xs) 1 (length xs) pow2_1 ltac:(lia) ltac:(lia)) as (Pp & Ge & Lt).
    fold (leaf_count (length xs)) in *.
    change (map Some xs ++ repeat None (leaf_count (length xs) - length xs))
      with (somes xs (leaf_count (length xs) - length xs)).
    apply (levels_last (leaf_count (length xs)) Pp); try lia.
  Qed.
End Array.

(** Merkle root: binding for lists of equal length (or a collision), and F5: the length is
    not bound, for every hash function. *)
From Coq Require Import NArith List Lia PeanoNat.
From Verif Require Import Common.Bytes Codec.Fields Codec.DigestProofs Codec.Merkle.
Import ListNotations.
Open Scope nat_scope.

Lemma list_ind2 : forall (A : Type) (P : list A -> Prop),
  P [] -> (forall a, P [a]) -> (forall a b r, P r -> P (a :: b :: r)) -> forall l, P l.
Proof.
  intros A P P0 P1 P2. fix IH 1. intros [|a [|b r]]; [exact P0 | apply P1 | apply P2; apply IH].
Qed.

Section MerkleProofs.
  Variable H : bytes -> bytes.
  Variable hlen : nat.
  Hypothesis H_len : forall x, length (H x) = hlen.

  Definition all_len (l : list bytes) : Prop := Forall (fun x => length x = hlen) l.

  Lemma pair_up_all_len : forall l, all_len (pair_up H l).
  Proof.
    intro l. induction l using list_ind2; simpl; repeat constructor; auto.
  Qed.

  Lemma pair_up_length_bound : forall l, 2 * length (pair_up H l) <= length l + 1.
  Proof. intro l. induction l using list_ind2; simpl in *; lia. Qed.

  Lemma pair_up_length_eq : forall l1 l2, length l1 = length l2 -> length (pair_up H l1) = length (pair_up H l2).
  Proof.
    intro l1. induction l1 as [|a|a b r IH] using list_ind2; intros [|a' [|b' r']] L; simpl in *; try discriminate; auto.
    f_equal. apply IH. lia.
  Qed.

  Lemma hash_pair_inj : forall a b a' b',
    length a = length a' -> H (a ++ b) = H (a' ++ b') -> (a = a' /\ b = b') \/ collision H.
  Proof.
    intros a b a' b' L E. destruct (bytes_eq_dec (a ++ b) (a' ++ b')) as [E'|N].
    - left. apply app_eq_length_inv; assumption.
    - right. exists (a ++ b), (a' ++ b'). split; assumption.
  Qed.

  Lemma pair_up_inj : forall l1 l2,
    all_len l1 -> all_len l2 -> length l1 = length l2 -> pair_up H l1 = pair_up H l2 ->
    l1 = l2 \/ collision H.
  Proof.
    intro l1. induction l1 as [|a|a b r IH] using list_ind2; intros [|a' [|b' r']] A1 A2 L E;
      simpl in *; try discriminate; auto.
    - inversion A1 as [|? ? La _]; inversion A2 as [|? ? La' _]; subst.
      injection E as E. destruct (hash_pair_inj a a a' a') as [[-> _]|C]; auto; congruence.
    - inversion A1 as [|? ? La A1']; inversion A2 as [|? ? La' A2']; subst.
      inversion A1' as [|? ? Lb A1'']; inversion A2' as [|? ? Lb' A2'']; subst.
      injection E as E Er.
      destruct (hash_pair_inj a b a' b') as [[-> ->]|C]; auto; [congruence|].
      destruct (IH r') as [->|C]; auto; lia.
  Qed.

  Lemma root_fuel_binding : forall fuel l1 l2,
    length l1 <= fuel -> length l1 = length l2 -> all_len l1 -> all_len l2 ->
    root_fuel H fuel l1 = root_fuel H fuel l2 -> l1 = l2 \/ collision H.
  Proof.
    induction fuel as [|f IH]; intros l1 l2 B L A1 A2 E.
    - destruct l1; [destruct l2; [auto | discriminate] | simpl in B; lia].
    - destruct l1 as [|a [|b r]]; destruct l2 as [|a' [|b' r']]; simpl in L; try discriminate; auto.
      + simpl in E. subst. auto.
      + cbn [root_fuel] in E.
        pose proof (pair_up_length_bound (a :: b :: r)) as PB.
        destruct (IH (pair_up H (a :: b :: r)) (pair_up H (a' :: b' :: r'))) as [E'|C]; auto.
        * simpl in B, PB |- *. simpl in PB. lia.
        * apply pair_up_length_eq. simpl. assumption.
        * apply pair_up_all_len.
        * apply pair_up_all_len.
        * apply pair_up_inj; auto.
  Qed.

  (** Two lists of the same length with the same root are equal, or the hash collides. *)
  Theorem merkle_binding_same_length : forall l1 l2,
    all_len l1 -> all_len l2 -> length l1 = length l2 ->
    merkle_root H l1 = merkle_root H l2 -> l1 = l2 \/ collision H.
  Proof.
    intros l1 l2 A1 A2 L E. unfold merkle_root in E. rewrite <- L in E.
    apply (root_fuel_binding (length l1)); auto.
  Qed.
End MerkleProofs.

(** F5: an odd level duplicates its last node, so [a;b;c] and [a;b;c;c] have the same root,
    whatever the hash function: the root does not commit to the number of entries. *)
Theorem merkle_odd_duplication : forall (H : bytes -> bytes) a b c,
  merkle_root H [a; b; c] = merkle_root H [a; b; c; c].
Proof. reflexivity. Qed.

Theorem merkle_length_not_bound_refuted : forall (H : bytes -> bytes),
  exists l1 l2, l1 <> l2 /\ Forall (fun x => length x = 32) l1 /\ Forall (fun x => length x = 32) l2 /\
                merkle_root H l1 = merkle_root H l2.
Proof.
  intro H. exists [repeat 1%N 32; repeat 2%N 32; repeat 3%N 32],
                  [repeat 1%N 32; repeat 2%N 32; repeat 3%N 32; repeat 3%N 32].
  split; [discriminate|]. split; [repeat constructor|]. split; [repeat constructor|]. reflexivity.
Qed.

(** More generally every list of odd length >= 3 has the same root as the list extended by
    its last element. *)
Lemma pair_up_dup_last : forall (H : bytes -> bytes) l x,
  Nat.even (length l) = true -> pair_up H (l ++ [x]) = pair_up H (l ++ [x; x]).
Proof.
  intros H l. induction l using list_ind2; intros x E; simpl in *; try discriminate; auto.
  f_equal. apply IHl. assumption.
Qed.

Lemma pair_up_length_bound' : forall (H : bytes -> bytes) l, 2 * length (pair_up H l) <= length l + 1.
Proof. intros H l. induction l using list_ind2; simpl in *; lia. Qed.

Lemma root_fuel_enough : forall (H : bytes -> bytes) f1 f2 l,
  length l <= f1 -> length l <= f2 -> root_fuel H f1 l = root_fuel H f2 l.
Proof.
  intro H. induction f1 as [|f1 IH]; intros f2 l B1 B2.
  - destruct l; [destruct f2; reflexivity | simpl in B1; lia].
  - destruct l as [|a [|b r]]; [destruct f2; reflexivity | destruct f2; reflexivity |].
    destruct f2; [simpl in B2; lia|]. cbn [root_fuel].
    pose proof (pair_up_length_bound' H (a :: b :: r)) as PB. simpl in B1, B2, PB.
    apply IH; simpl; lia.
Qed.

Theorem merkle_odd_extension : forall (H : bytes -> bytes) l x,
  Nat.even (length l) = true -> l <> [] ->
  merkle_root H (l ++ [x]) = merkle_root H (l ++ [x; x]).
Proof.
  intros H l x E NE. unfold merkle_root.
  rewrite (root_fuel_enough H _ (S (length (l ++ [x; x]))) (l ++ [x])) by (rewrite !app_length; simpl; lia).
  rewrite (root_fuel_enough H _ (S (length (l ++ [x; x]))) (l ++ [x; x])) by lia.
  destruct l as [|a [|b r]]; [contradiction | discriminate |].
  remember (length ((a :: b :: r) ++ [x; x])) as n.
  change ((a :: b :: r) ++ [x]) with (a :: b :: (r ++ [x])).
  change ((a :: b :: r) ++ [x; x]) with (a :: b :: (r ++ [x; x])).
  cbn [root_fuel].
  change (a :: b :: r ++ [x]) with ((a :: b :: r) ++ [x]).
  change (a :: b :: r ++ [x; x]) with ((a :: b :: r) ++ [x; x]).
  rewrite (pair_up_dup_last H (a :: b :: r) x E). reflexivity.
Qed.

(** The literal array algorithm and [merkle_root] build the same hash expression: checked by
    computation with a structure-revealing "hash" (bracketing) for every size 0..40. *)
Definition bracket_hash (x : bytes) : bytes := [1000%N] ++ x ++ [1001%N].

Example array_algorithm_agrees_upto_40 :
  forallb (fun n =>
    let l := map (fun i => [N.of_nat i]) (seq 0 n) in
    match merkle_root_array bracket_hash l with
    | Some r => bytes_eqb r (merkle_root bracket_hash l)
    | None => false
    end) (seq 0 41) = true.
Proof. vm_compute. reflexivity. Qed.

Example merkle_binding_hyps_satisfiable :
  all_len 2 [[1%N; 2%N]; [3%N; 4%N]] /\ (forall x : bytes, length ((fun _ => [0%N; 0%N]) x) = 2).
Proof. split; [repeat constructor | reflexivity]. Qed.

(** Model of types/receipt.go: the receipt store formats (marshalStoreBinary /
    marshalStoreBinaryV2, unmarshalStoreBinary(V2)), the merkle leaf formats
    (MarshalMerkleBinary(V2), Event.MarshalMerkleBinary = marshalCommonBinary), the event
    store format, Receipts.MarshalBinary / UnmarshalBinary (bloom flag) and
    Receipts.MerkleRoot.

    Encoders are transcriptions of the Go writers.  Decoders return [None] where the Go code
    would index or slice out of range (it has no length checks: such input panics).
    [marshal_body v2 im] / [unmarshal_body v2 im]: [v2] selects the format version,
    [im = true] the merkle form.  Go has decoders only for the store forms ([im = false]);
    the [im = true] parser exists only in the model, to state that the merkle leaf input
    determines every field it is meant to commit to.
    Strings (Status aside) are byte lists; EventIdx / TxIndex are Z (int32).
    Memory-only fields (Receipt.BlockNo, BlockHash, TxIndex, From, To) are in no format and
    are not part of the record.  No proofs here. *)
From Coq Require Import String.
From Coq Require Import NArith ZArith List Bool.
From Verif Require Import Common.Bytes Codec.ChainId Codec.Merkle.
Import ListNotations.
Open Scope N_scope.

Inductive rstatus := RSuccess | RCreated | RError | RRecreated | ROther.

Definition status_byte (s : rstatus) : option N :=
  match s with RSuccess => Some 0 | RCreated => Some 1 | RError => Some 2 | RRecreated => Some 3 | ROther => None end.

(** Unknown status bytes leave Status = "" in Go, which is [ROther]. *)
Definition status_of_byte (b : N) : rstatus :=
  if b =? 0 then RSuccess else if b =? 1 then RCreated else if b =? 2 then RError
  else if b =? 3 then RRecreated else ROther.

Record event := mk_event {
  ev_addr : bytes; ev_name : bytes; ev_args : bytes; ev_idx : Z;
  ev_txhash : bytes; ev_blockhash : bytes; ev_blockno : N; ev_txindex : Z
}.

Record receipt := mk_receipt {
  r_addr : bytes; r_status : rstatus; r_ret : bytes; r_txhash : bytes; r_fee : bytes;
  r_cumfee : bytes; r_bloom : bytes; r_events : list event; r_gas : N; r_feedeleg : bool
}.

(** Field lists tied to the Go source in Properties/C19.v. *)
Definition receipt_v1_fields : list String.string :=
  ["ContractAddress"; "Status"; "Ret"; "TxHash"; "FeeUsed"; "CumulativeFeeUsed"; "Bloom"; "Events"]%string.
Definition receipt_v2_fields : list String.string :=
  ["ContractAddress"; "Status"; "Ret"; "TxHash"; "FeeUsed"; "CumulativeFeeUsed"; "GasUsed"; "FeeDelegation";
   "Bloom"; "Events"]%string.
Definition receipt_memory_fields : list String.string := ["BlockNo"; "BlockHash"; "TxIndex"; "From"; "To"]%string.
Definition event_merkle_fields : list String.string :=
  ["ContractAddress"; "EventName"; "JsonArgs"; "TxHash"; "EventIdx"]%string.
Definition event_store_fields : list String.string :=
  ["ContractAddress"; "EventName"; "JsonArgs"; "EventIdx"]%string.
Definition event_memory_fields : list String.string := ["BlockHash"; "BlockNo"; "TxIndex"]%string.

(** uint32(len(x)), little-endian. *)
Definition len32 (b : bytes) : bytes := le_bytes 4 (blen b).

Definition i32_of_bits (n : N) : Z :=
  if n <? 2147483648 then Z.of_N n else (Z.of_N n - 4294967296)%Z.

(** * Encoders *)

Definition bloom_part (b : bytes) : bytes :=
  match b with [] => [0] | _ => 1 :: b end.

Definition marshal_body (v2 im : bool) (r : receipt) : option bytes :=
  match status_byte (r_status r) with
  | None => None
  | Some sb =>
      Some (r_addr r ++ [sb]
            ++ (if negb im || negb (sb =? 2) then len32 (r_ret r) ++ r_ret r else [])
            ++ r_txhash r
            ++ len32 (r_fee r) ++ r_fee r
            ++ len32 (r_cumfee r) ++ r_cumfee r
            ++ (if v2 then le_bytes 8 (r_gas r) ++ [bool_byte (r_feedeleg r)] else [])
            ++ bloom_part (r_bloom r)
            ++ le_bytes 4 (N.of_nat (length (r_events r))))
  end.

(** Event.marshalStoreBinary(r) ([im = false]) and Event.marshalCommonBinary ([im = true]). *)
Definition marshal_event (im : bool) (raddr : bytes) (e : event) : bytes :=
  (if im then ev_addr e else if bytes_eqb raddr (ev_addr e) then [0] else ev_addr e)
  ++ len32 (ev_name e) ++ ev_name e
  ++ len32 (ev_args e) ++ ev_args e
  ++ (if im then ev_txhash e else [])
  ++ le_bytes 4 (i_bits 4 (ev_idx e)).

Definition marshal_receipt (v2 im : bool) (r : receipt) : option bytes :=
  match marshal_body v2 im r with
  | None => None
  | Some b => Some (b ++ concat (map (marshal_event im (r_addr r)) (r_events r)))
  end.

(** marshalStoreBinary / marshalStoreBinaryV2 and MarshalMerkleBinary / ...V2. *)
Definition marshal_store (v2 : bool) := marshal_receipt v2 false.
Definition marshal_merkle (v2 : bool) := marshal_receipt v2 true.

(** * Decoders *)

Definition d_take (n : N) (data : bytes) : option (bytes * bytes) :=
  if n <=? blen data then Some (take n data, drop n data) else None.

Definition d_byte (data : bytes) : option (N * bytes) :=
  match data with b :: r => Some (b, r) | [] => None end.

Definition d_u32 (data : bytes) : option (N * bytes) :=
  match d_take 4 data with Some (b, r) => Some (le_decode b, r) | None => None end.

Definition d_u64 (data : bytes) : option (N * bytes) :=
  match d_take 8 data with Some (b, r) => Some (le_decode b, r) | None => None end.

(** uint32 length followed by that many bytes. *)
Definition d_lp (data : bytes) : option (bytes * bytes) :=
  match d_u32 data with Some (l, r) => d_take l r | None => None end.

Notation "'do' p <- e ; k" := (match e with Some p => k | None => None end)
  (at level 200, p pattern, e at level 100, k at level 200, only parsing).

Definition unmarshal_event (im : bool) (raddr : bytes) (data : bytes) : option (event * bytes) :=
  do (addr, d1) <- (if im then d_take 33 data
                   else match data with
                        | [] => None
                        | b :: r => if b =? 0 then Some (raddr, r) else d_take 33 data
                        end);
  do (name, d2) <- d_lp d1;
  do (args, d3) <- d_lp d2;
  do (txh, d4) <- (if im then d_take 32 d3 else Some ([], d3));
  do (idx, d5) <- d_u32 d4;
  Some (mk_event addr name args (i32_of_bits idx) txh [] 0 0%Z, d5).

Fixpoint unmarshal_events (fuel : nat) (im : bool) (raddr : bytes) (count : N) (data : bytes)
  : option (list event * bytes) :=
  if count =? 0 then Some ([], data)
  else match fuel with
       | O => None
       | S f =>
           do (e, d1) <- unmarshal_event im raddr data;
           do (es, d2) <- unmarshal_events f im raddr (count - 1) d1;
           Some (e :: es, d2)
       end.

(** unmarshalBody / unmarshalBodyV2 (for [im = false]); returns the receipt without events,
    the event count and the remaining data.  After the bloom the Go code executes
    `pos += l` with the stale l = len(CumulativeFeeUsed): modelled as written. *)
Definition unmarshal_body (v2 im : bool) (data : bytes) : option (receipt * N * bytes) :=
  do (addr, d1) <- d_take 33 data;
  do (sb, d2) <- d_byte d1;
  do (ret, d3) <- (if negb im || negb (sb =? 2) then d_lp d2 else Some ([], d2));
  do (txh, d4) <- d_take 32 d3;
  do (fee, d5) <- d_lp d4;
  do (cum, d6) <- d_lp d5;
  do (gasfd, d7) <- (if v2 then
                       do (g, e1) <- d_u64 d6;
                       do (fd, e2) <- d_byte e1;
                       Some ((g, fd =? 1), e2)
                     else Some ((0, false), d6));
  do (bc, d8) <- d_byte d7;
  do (bloom, d9) <- (if bc =? 1 then d_take 256 d8 else Some ([], d8));
  do (skipped, d10) <- d_take (blen cum) d9;
  do (cnt, d11) <- d_u32 d10;
  Some (mk_receipt addr (status_of_byte sb) ret txh fee cum bloom [] (fst gasfd) (snd gasfd), cnt, d11).

Definition with_events (r : receipt) (es : list event) : receipt :=
  mk_receipt (r_addr r) (r_status r) (r_ret r) (r_txhash r) (r_fee r) (r_cumfee r) (r_bloom r) es
             (r_gas r) (r_feedeleg r).

Definition unmarshal_receipt (v2 im : bool) (data : bytes) : option (receipt * bytes) :=
  do (r0, cnt, d1) <- unmarshal_body v2 im data;
  do (es, d2) <- unmarshal_events (length d1) im (r_addr r0) cnt d1;
  Some (with_events r0 es, d2).

(** unmarshalStoreBinary / unmarshalStoreBinaryV2. *)
Definition unmarshal_store (v2 : bool) := unmarshal_receipt v2 false.

(** * What a format retains *)

Definition event_view (im : bool) (e : event) : event :=
  mk_event (ev_addr e) (ev_name e) (ev_args e) (ev_idx e) (if im then ev_txhash e else []) [] 0 0%Z.

Definition receipt_view (v2 im : bool) (r : receipt) : receipt :=
  mk_receipt (r_addr r) (r_status r)
             (if im then match r_status r with RError => [] | _ => r_ret r end else r_ret r)
             (r_txhash r) (r_fee r) (r_cumfee r) (r_bloom r) (map (event_view im) (r_events r))
             (if v2 then r_gas r else 0) (if v2 then r_feedeleg r else false).

(** * Well-formedness (the stated predicate of the round-trip theorems) *)

Definition event_wf (raddr : bytes) (e : event) : Prop :=
  (ev_addr e = raddr \/ (blen (ev_addr e) = 33 /\ hd 0 (ev_addr e) <> 0)) /\
  blen (ev_name e) < 2 ^ 32 /\ blen (ev_args e) < 2 ^ 32 /\ i_range 4 (ev_idx e).

(** Merkle form: every event address is written raw, so all must be 33 bytes. *)
Definition event_wf_merkle (e : event) : Prop :=
  blen (ev_addr e) = 33 /\ blen (ev_txhash e) = 32 /\
  blen (ev_name e) < 2 ^ 32 /\ blen (ev_args e) < 2 ^ 32 /\ i_range 4 (ev_idx e).

Definition receipt_wf_common (r : receipt) : Prop :=
  blen (r_addr r) = 33 /\ r_status r <> ROther /\ blen (r_ret r) < 2 ^ 32 /\ blen (r_txhash r) = 32 /\
  blen (r_fee r) < 2 ^ 32 /\ r_cumfee r = [] /\ (r_bloom r = [] \/ blen (r_bloom r) = 256) /\
  r_gas r < 2 ^ 64 /\ N.of_nat (length (r_events r)) < 2 ^ 32.

Definition receipt_wf (r : receipt) : Prop :=
  receipt_wf_common r /\ Forall (event_wf (r_addr r)) (r_events r).

Definition receipt_wf_merkle (r : receipt) : Prop :=
  receipt_wf_common r /\ Forall event_wf_merkle (r_events r).

(** * Receipts (the per-block list) *)

Fixpoint marshal_all (v2 : bool) (rs : list receipt) : option bytes :=
  match rs with
  | [] => Some []
  | r :: rest =>
      do b <- marshal_store v2 r;
      do bs <- marshal_all v2 rest;
      Some (b ++ bs)
  end.

(** Receipts.MarshalBinary: bloom flag (+ the 256 bitset bytes = GobEncode()[24:]), count,
    receipts in the store form of the block's version. *)
Definition marshal_receipts (v2 : bool) (bloom : option bytes) (rs : list receipt) : option bytes :=
  do bs <- marshal_all v2 rs;
  Some ((match bloom with Some b => 1 :: b | None => [0] end)
        ++ le_bytes 4 (N.of_nat (length rs)) ++ bs).

Fixpoint unmarshal_all (fuel : nat) (v2 : bool) (count : N) (data : bytes) : option (list receipt) :=
  if count =? 0 then Some []
  else match fuel with
       | O => None
       | S f =>
           do (r, d1) <- unmarshal_store v2 data;
           do rs <- unmarshal_all f v2 (count - 1) d1;
           Some (r :: rs)
       end.

(** Receipts.UnmarshalBinary (trailing bytes are ignored by the Go code). *)
Definition unmarshal_receipts (v2 : bool) (data : bytes) : option (option bytes * list receipt) :=
  do (cb, d1) <- d_byte data;
  do (bloom, d2) <- (if cb =? 1 then do (b, e) <- d_take 256 d1; Some (Some b, e) else Some (None, d1));
  do (cnt, d3) <- d_u32 d2;
  do rs <- unmarshal_all (length d3) v2 cnt d3;
  Some (bloom, rs).

(** bloom.BloomFilter.GobEncode: m, k (big-endian uint64), bitset length, then the words. *)
Definition bloom_gob_header : bytes := be_bytes 8 2048 ++ be_bytes 8 3 ++ be_bytes 8 2048.

Section Root.
  Variable H : bytes -> bytes.

  (** ReceiptMerkle.GetHash: on a marshal error the Go code hashes the nil slice. *)
  Definition receipt_leaf (v2 : bool) (r : receipt) : bytes :=
    H (match marshal_merkle v2 r with Some b => b | None => [] end).

  Definition bloom_leaf (b : bytes) : bytes := H (bloom_gob_header ++ b).

  Definition receipts_leaves (v2 : bool) (bloom : option bytes) (rs : list receipt) : list bytes :=
    map (receipt_leaf v2) rs ++ match bloom with Some b => [bloom_leaf b] | None => [] end.

  (** Receipts.MerkleRoot. *)
  Definition receipts_root (v2 : bool) (bloom : option bytes) (rs : list receipt) : bytes :=
    merkle_root H (receipts_leaves v2 bloom rs).
End Root.

(** * Correspondence cases *)

Definition opt_bytes_eqb (a b : option bytes) : bool :=
  match a, b with Some x, Some y => bytes_eqb x y | None, None => true | _, _ => false end.

Definition rstatus_eqb (a b : rstatus) : bool :=
  match a, b with
  | RSuccess, RSuccess | RCreated, RCreated | RError, RError | RRecreated, RRecreated | ROther, ROther => true
  | _, _ => false
  end.

Definition event_eqb (a b : event) : bool :=
  bytes_eqb (ev_addr a) (ev_addr b) && bytes_eqb (ev_name a) (ev_name b) && bytes_eqb (ev_args a) (ev_args b)
  && Z.eqb (ev_idx a) (ev_idx b) && bytes_eqb (ev_txhash a) (ev_txhash b)
  && bytes_eqb (ev_blockhash a) (ev_blockhash b) && (ev_blockno a =? ev_blockno b) && Z.eqb (ev_txindex a) (ev_txindex b).

Fixpoint list_eqb {A : Type} (eqb : A -> A -> bool) (a b : list A) : bool :=
  match a, b with
  | [], [] => true
  | x :: a', y :: b' => eqb x y && list_eqb eqb a' b'
  | _, _ => false
  end.

Definition receipt_eqb (a b : receipt) : bool :=
  bytes_eqb (r_addr a) (r_addr b) && rstatus_eqb (r_status a) (r_status b) && bytes_eqb (r_ret a) (r_ret b)
  && bytes_eqb (r_txhash a) (r_txhash b) && bytes_eqb (r_fee a) (r_fee b) && bytes_eqb (r_cumfee a) (r_cumfee b)
  && bytes_eqb (r_bloom a) (r_bloom b) && list_eqb event_eqb (r_events a) (r_events b)
  && (r_gas a =? r_gas b) && Bool.eqb (r_feedeleg a) (r_feedeleg b).

Definition verif_tail : bytes := [222; 173; 190].

(** One decode observation: [Some r] = Go returned r and exactly the appended tail as
    remaining data; [None] = Go panicked (or returned other remaining data). *)
Definition decode_ok (v2 : bool) (enc : option bytes) (obs : option receipt) : bool :=
  match enc with
  | None => true
  | Some b =>
      match unmarshal_store v2 (b ++ verif_tail), obs with
      | Some (r, rest), Some r' => receipt_eqb r r' && bytes_eqb rest verif_tail
      | None, None => true
      | Some (r, rest), None => negb (bytes_eqb rest verif_tail)
      | None, Some _ => false
      end
  end.

(** (receipt, (store V1, store V2, merkle V1, merkle V2), (decoded V1, decoded V2)). *)
Definition receipt_case_ok
  (c : receipt * (option bytes * option bytes * option bytes * option bytes) * (option receipt * option receipt)) : bool :=
  let '(r, (s1, s2, m1, m2), (d1, d2)) := c in
  opt_bytes_eqb (marshal_store false r) s1 && opt_bytes_eqb (marshal_store true r) s2 &&
  opt_bytes_eqb (marshal_merkle false r) m1 && opt_bytes_eqb (marshal_merkle true r) m2 &&
  decode_ok false s1 d1 && decode_ok true s2 d2.

Definition opt_receipts_eqb (a b : option (option bytes * list receipt)) : bool :=
  match a, b with
  | Some (ba, ra), Some (bb, rb) => opt_bytes_eqb ba bb && list_eqb receipt_eqb ra rb
  | None, None => true
  | _, _ => false
  end.

(** (v2, bloom, receipts, MarshalBinary observed, UnmarshalBinary observed, MerkleRoot observed). *)
Definition receipts_case_ok (H : bytes -> bytes)
  (c : bool * option bytes * list receipt * option bytes * option (option bytes * list receipt) * bytes) : bool :=
  let '(v2, bloom, rs, enc, dec, root) := c in
  opt_bytes_eqb (marshal_receipts v2 bloom rs) enc &&
  match enc with
  | Some b => opt_receipts_eqb (unmarshal_receipts v2 b) dec
  | None => true
  end &&
  bytes_eqb (receipts_root H v2 bloom rs) root.

(** A store decoder on arbitrary bytes: [Some (r, rest)] = Go returned r and rest, [None] = Go
    panicked (index / slice out of range) or found an absurd event count. *)
Definition decode_raw_ok (c : bool * bytes * option (receipt * bytes)) : bool :=
  let '(v2, data, obs) := c in
  match unmarshal_store v2 data, obs with
  | Some (r, rest), Some (r', rest') => receipt_eqb r r' && bytes_eqb rest rest'
  | None, None => true
  | _, _ => false
  end.

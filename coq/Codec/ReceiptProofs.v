(** Receipt formats: store round trips (V1, V2), the merkle leaf input determines every field
    of its format version, F17 (V1 has no GasUsed / FeeDelegation), receipt list round trip
    with and without bloom. *)
From Coq Require Import NArith ZArith List Bool Lia.
From Verif Require Import Common.Bytes Codec.Fields Codec.DigestProofs Codec.ChainId Codec.Merkle Codec.MerkleProofs Codec.Receipt.
Import ListNotations.
Open Scope N_scope.

(** * Primitive decoders on [x ++ rest] *)

Lemma d_take_app : forall n x rest, blen x = n -> d_take n (x ++ rest) = Some (x, rest).
Proof.
  intros n x rest E. unfold d_take. rewrite blen_app.
  replace (n <=? blen x + blen rest) with true by (symmetry; apply N.leb_le; lia).
  rewrite take_app_exact, drop_app_exact by assumption. reflexivity.
Qed.

Lemma d_take_0 : forall d, d_take 0 d = Some ([], d).
Proof. intro d. apply (d_take_app 0 [] d). reflexivity. Qed.

Lemma d_u32_app : forall n rest, n < 2 ^ 32 -> d_u32 (le_bytes 4 n ++ rest) = Some (n, rest).
Proof.
  intros n rest B. unfold d_u32. rewrite d_take_app by apply blen_le_bytes.
  rewrite (le_decode_le_bytes 4 n B). reflexivity.
Qed.

Lemma d_u64_app : forall n rest, n < 2 ^ 64 -> d_u64 (le_bytes 8 n ++ rest) = Some (n, rest).
Proof.
  intros n rest B. unfold d_u64. rewrite d_take_app by apply blen_le_bytes.
  rewrite (le_decode_le_bytes 8 n B). reflexivity.
Qed.

Lemma d_lp_app : forall x rest, blen x < 2 ^ 32 -> d_lp (len32 x ++ x ++ rest) = Some (x, rest).
Proof.
  intros x rest B. unfold d_lp, len32. rewrite d_u32_app by assumption.
  apply d_take_app. reflexivity.
Qed.

Lemma d_lp_nil : forall rest, d_lp (len32 [] ++ rest) = Some ([], rest).
Proof. intro rest. apply (d_lp_app [] rest). reflexivity. Qed.

Lemma bool_byte_eqb1 : forall b, (bool_byte b =? 1) = b.
Proof. destruct b; reflexivity. Qed.

Lemma i32_roundtrip : forall z, i_range 4 z -> i32_of_bits (i_bits 4 z) = z.
Proof.
  intros z R. unfold i_range in R. unfold i32_of_bits, i_bits.
  change (2 ^ (8 * Z.of_nat 4))%Z with 4294967296%Z in *.
  destruct (Z_lt_dec z 0) as [Neg|Pos].
  - assert (E : (z mod 4294967296 = z + 4294967296)%Z).
    { symmetry. apply (Z.mod_unique _ _ (-1)%Z); lia. }
    rewrite E. replace (Z.to_N (z + 4294967296) <? 2147483648) with false.
    + rewrite Z2N.id by lia. lia.
    + symmetry. apply N.ltb_ge. apply N2Z.inj_le. rewrite Z2N.id by lia. simpl. lia.
  - rewrite Z.mod_small by lia.
    replace (Z.to_N z <? 2147483648) with true.
    + apply Z2N.id. lia.
    + symmetry. apply N.ltb_lt. apply N2Z.inj_lt. rewrite Z2N.id by lia. simpl. lia.
Qed.

(** * Events *)

Local Opaque le_bytes len32.

Lemma marshal_event_length : forall im raddr e, (4 <= length (marshal_event im raddr e))%nat.
Proof.
  intros. unfold marshal_event. rewrite !app_length, le_bytes_length. lia.
Qed.

Lemma unmarshal_event_app : forall (im : bool) raddr (e : event) rest,
  (if im then event_wf_merkle e else event_wf raddr e) ->
  unmarshal_event im raddr (marshal_event im raddr e ++ rest) = Some (event_view im e, rest).
Proof.
  intros im raddr [addr name args idx txh bh bn ti] rest W.
  unfold marshal_event, unmarshal_event, event_view. cbn [ev_addr ev_name ev_args ev_idx ev_txhash].
  destruct im.
  - destruct W as (La & Lt & Ln & Lg & Ri). cbn [ev_addr ev_name ev_args ev_idx ev_txhash] in *.
    rewrite <- !app_assoc.
    rewrite d_take_app by assumption. rewrite d_lp_app by assumption. rewrite d_lp_app by assumption.
    rewrite d_take_app by assumption. rewrite d_u32_app by apply i_bits_bound.
    rewrite i32_roundtrip by assumption. reflexivity.
  - destruct W as (Ha & Ln & Lg & Ri). cbn [ev_addr ev_name ev_args ev_idx ev_txhash] in *.
    rewrite app_nil_l. rewrite <- !app_assoc.
    destruct (bytes_eqb raddr addr) eqn:E.
    + apply bytes_eqb_eq in E. subst addr. cbn [app]. rewrite N.eqb_refl.
      rewrite d_lp_app by assumption. rewrite d_lp_app by assumption.
      rewrite d_u32_app by apply i_bits_bound. rewrite i32_roundtrip by assumption. reflexivity.
    + destruct Ha as [Ha|[La Hh]]; [subst; rewrite bytes_eqb_refl in E; discriminate|].
      destruct addr as [|b addr']; [discriminate La|]. simpl in Hh.
      cbn [app]. replace (b =? 0) with false by (symmetry; apply N.eqb_neq; assumption).
      change (b :: addr' ++ ?x) with ((b :: addr') ++ x).
      rewrite d_take_app by assumption. rewrite d_lp_app by assumption. rewrite d_lp_app by assumption.
      rewrite d_u32_app by apply i_bits_bound. rewrite i32_roundtrip by assumption. reflexivity.
Qed.

Lemma concat_events_length : forall im raddr es,
  (length es <= length (concat (map (marshal_event im raddr) es)))%nat.
Proof.
  induction es as [|e es IH]; simpl; [lia|].
  rewrite app_length. pose proof (marshal_event_length im raddr e). lia.
Qed.

Lemma unmarshal_events_app : forall (im : bool) raddr (es : list event) fuel rest,
  Forall (fun e => if im then event_wf_merkle e else event_wf raddr e) es ->
  (length es <= fuel)%nat ->
  unmarshal_events fuel im raddr (N.of_nat (length es))
                   (concat (map (marshal_event im raddr) es) ++ rest)
  = Some (map (event_view im) es, rest).
Proof.
  induction es as [|e es IH]; intros fuel rest W B.
  - simpl. destruct fuel; reflexivity.
  - inversion W as [|? ? We Wes]; subst.
    destruct fuel as [|f]; [simpl in B; lia|].
    cbn [unmarshal_events]. cbn [length].
    replace (N.of_nat (S (length es)) =? 0) with false by (symmetry; apply N.eqb_neq; lia).
    cbn [map concat]. rewrite <- app_assoc. rewrite unmarshal_event_app by assumption.
    replace (N.of_nat (S (length es)) - 1) with (N.of_nat (length es)) by lia.
    rewrite IH; auto. simpl in B. lia.
Qed.

(** * Receipt body *)

Lemma status_roundtrip : forall s sb, status_byte s = Some sb -> status_of_byte sb = s /\ sb < 4.
Proof. intros [] sb E; inversion E; subst; split; reflexivity. Qed.

Lemma unmarshal_body_app : forall v2 im r b rest,
  receipt_wf_common r -> marshal_body v2 im r = Some b ->
  unmarshal_body v2 im (b ++ rest) =
  Some (receipt_view v2 im (with_events r []), N.of_nat (length (r_events r)), rest).
Proof.
  intros v2 im [addr st ret txh fee cum bloom evs gas fd] b rest W M.
  destruct W as (La & Hs & Lr & Lt & Lf & Hc & Hb & Hg & Hn).
  cbn [r_addr r_status r_ret r_txhash r_fee r_cumfee r_bloom r_events r_gas r_feedeleg] in *.
  subst cum. unfold marshal_body in M. cbn [r_addr r_status r_ret r_txhash r_fee r_cumfee r_bloom r_events r_gas r_feedeleg] in M.
  destruct (status_byte st) as [sb|] eqn:Es; [|discriminate].
  destruct (status_roundtrip _ _ Es) as [Hst Hsb].
  injection M as <-.
  unfold unmarshal_body. rewrite <- !app_assoc.
  rewrite d_take_app by assumption. cbn [app d_byte].
  set (c := negb im || negb (sb =? 2)).
  assert (Hret : (if c then ret else []) = (if im then match st with RError => [] | _ => ret end else ret)).
  { subst c. destruct im; [|reflexivity]. destruct st; inversion Es; subst; reflexivity. }
  destruct c.
  - rewrite <- !app_assoc. rewrite d_lp_app by assumption.
    rewrite d_take_app by assumption. rewrite d_lp_app by assumption.
    rewrite d_lp_nil.
    destruct v2.
    + rewrite <- !app_assoc. rewrite d_u64_app by assumption. cbn [app d_byte]. rewrite bool_byte_eqb1.
      destruct Hb as [->|Lb].
      * cbn [bloom_part app d_byte]. change (0 =? 1) with false. cbv iota.
        change (blen []) with 0. rewrite d_take_0. rewrite d_u32_app by assumption.
        unfold receipt_view, with_events. cbn. rewrite Hst, <- Hret. reflexivity.
      * destruct bloom as [|b0 bl]; [discriminate Lb|].
        cbn [bloom_part app d_byte]. change (1 =? 1) with true. cbv iota.
        change (b0 :: bl ++ ?x) with ((b0 :: bl) ++ x). rewrite d_take_app by assumption.
        change (blen []) with 0. rewrite d_take_0. rewrite d_u32_app by assumption.
        unfold receipt_view, with_events. cbn. rewrite Hst, <- Hret. reflexivity.
    + cbn [app]. destruct Hb as [->|Lb].
      * cbn [bloom_part app d_byte]. change (0 =? 1) with false. cbv iota.
        change (blen []) with 0. rewrite d_take_0. rewrite d_u32_app by assumption.
        unfold receipt_view, with_events. cbn. rewrite Hst, <- Hret. reflexivity.
      * destruct bloom as [|b0 bl]; [discriminate Lb|].
        cbn [bloom_part app d_byte]. change (1 =? 1) with true. cbv iota.
        change (b0 :: bl ++ ?x) with ((b0 :: bl) ++ x). rewrite d_take_app by assumption.
        change (blen []) with 0. rewrite d_take_0. rewrite d_u32_app by assumption.
        unfold receipt_view, with_events. cbn. rewrite Hst, <- Hret. reflexivity.
  - cbn [app]. rewrite <- !app_assoc.
    rewrite d_take_app by assumption. rewrite d_lp_app by assumption.
    rewrite d_lp_nil.
    destruct v2.
    + rewrite <- !app_assoc. rewrite d_u64_app by assumption. cbn [app d_byte]. rewrite bool_byte_eqb1.
      destruct Hb as [->|Lb].
      * cbn [bloom_part app d_byte]. change (0 =? 1) with false. cbv iota.
        change (blen []) with 0. rewrite d_take_0. rewrite d_u32_app by assumption.
        unfold receipt_view, with_events. cbn. rewrite Hst, <- Hret. reflexivity.
      * destruct bloom as [|b0 bl]; [discriminate Lb|].
        cbn [bloom_part app d_byte]. change (1 =? 1) with true. cbv iota.
        change (b0 :: bl ++ ?x) with ((b0 :: bl) ++ x). rewrite d_take_app by assumption.
        change (blen []) with 0. rewrite d_take_0. rewrite d_u32_app by assumption.
        unfold receipt_view, with_events. cbn. rewrite Hst, <- Hret. reflexivity.
    + cbn [app]. destruct Hb as [->|Lb].
      * cbn [bloom_part app d_byte]. change (0 =? 1) with false. cbv iota.
        change (blen []) with 0. rewrite d_take_0. rewrite d_u32_app by assumption.
        unfold receipt_view, with_events. cbn. rewrite Hst, <- Hret. reflexivity.
      * destruct bloom as [|b0 bl]; [discriminate Lb|].
        cbn [bloom_part app d_byte]. change (1 =? 1) with true. cbv iota.
        change (b0 :: bl ++ ?x) with ((b0 :: bl) ++ x). rewrite d_take_app by assumption.
        change (blen []) with 0. rewrite d_take_0. rewrite d_u32_app by assumption.
        unfold receipt_view, with_events. cbn. rewrite Hst, <- Hret. reflexivity.
Qed.

(** * Whole receipts *)

Lemma marshal_body_some : forall v2 im r, r_status r <> ROther -> exists b, marshal_body v2 im r = Some b.
Proof.
  intros v2 im r Hs. unfold marshal_body. destruct (r_status r); try contradiction; eexists; reflexivity.
Qed.

Lemma marshal_receipt_some : forall v2 im r, r_status r <> ROther -> exists b, marshal_receipt v2 im r = Some b.
Proof.
  intros v2 im r Hs. unfold marshal_receipt. destruct (marshal_body_some v2 im r Hs) as [b ->]. eexists; reflexivity.
Qed.

Theorem receipt_roundtrip_generic : forall v2 (im : bool) r b rest,
  receipt_wf_common r ->
  Forall (fun e => if im then event_wf_merkle e else event_wf (r_addr r) e) (r_events r) ->
  marshal_receipt v2 im r = Some b ->
  unmarshal_receipt v2 im (b ++ rest) = Some (receipt_view v2 im r, rest).
Proof.
  intros v2 im r b rest W We M. unfold marshal_receipt in M.
  destruct (marshal_body v2 im r) as [bb|] eqn:Eb; [|discriminate]. injection M as <-.
  unfold unmarshal_receipt. rewrite <- app_assoc.
  rewrite (unmarshal_body_app v2 im r bb _ W Eb).
  replace (r_addr (receipt_view v2 im (with_events r []))) with (r_addr r) by reflexivity.
  rewrite unmarshal_events_app; auto.
  rewrite app_length. pose proof (concat_events_length im (r_addr r) (r_events r)). lia.
Qed.

(** Store round trip, format version 2: everything the format stores is read back (the event
    fields TxHash/BlockHash/BlockNo/TxIndex are memory-only and re-derived by SetMemoryInfo). *)
Theorem receipt_store_roundtrip_v2 : forall r, receipt_wf r ->
  exists b, marshal_store true r = Some b /\
            forall rest, unmarshal_store true (b ++ rest) = Some (receipt_view true false r, rest).
Proof.
  intros r [W We]. destruct (marshal_receipt_some true false r) as [b M]; [apply W|].
  exists b. split; [exact M|]. intro rest. apply receipt_roundtrip_generic; assumption.
Qed.

(** Format version 1: the same, except that GasUsed and FeeDelegation are not stored. *)
Theorem receipt_store_roundtrip_v1 : forall r, receipt_wf r ->
  exists b, marshal_store false r = Some b /\
            forall rest, unmarshal_store false (b ++ rest) = Some (receipt_view false false r, rest).
Proof.
  intros r [W We]. destruct (marshal_receipt_some false false r) as [b M]; [apply W|].
  exists b. split; [exact M|]. intro rest. apply receipt_roundtrip_generic; assumption.
Qed.

Definition event_no_memory (e : event) : Prop :=
  ev_txhash e = [] /\ ev_blockhash e = [] /\ ev_blockno e = 0 /\ ev_txindex e = 0%Z.

Lemma receipt_view_v2_id : forall r, Forall event_no_memory (r_events r) -> receipt_view true false r = r.
Proof.
  intros [addr st ret txh fee cum bloom evs gas fd] F. unfold receipt_view. cbn in *. f_equal.
  induction F as [|e es (A & B & C & D) F IH]; [reflexivity|]. cbn [map]. rewrite IH. f_equal.
  destruct e; cbn in *; subst; reflexivity.
Qed.

Lemma receipt_view_v1_id : forall r,
  Forall event_no_memory (r_events r) -> r_gas r = 0 -> r_feedeleg r = false -> receipt_view false false r = r.
Proof.
  intros [addr st ret txh fee cum bloom evs gas fd] F G D. unfold receipt_view. cbn in *. subst. f_equal.
  induction F as [|e es (A & B & C & D) F IH]; [reflexivity|]. cbn [map]. rewrite IH. f_equal.
  destruct e; cbn in *; subst; reflexivity.
Qed.

(** decode (encode r) = r for a receipt as it is handed to the store. *)
Theorem receipt_store_roundtrip_v2_exact : forall r b,
  receipt_wf r -> Forall event_no_memory (r_events r) -> marshal_store true r = Some b ->
  unmarshal_store true b = Some (r, []).
Proof.
  intros r b W F M. destruct (receipt_store_roundtrip_v2 r W) as [b' [M' R]].
  rewrite M in M'. injection M' as <-. specialize (R []). rewrite app_nil_r in R.
  rewrite R, receipt_view_v2_id; auto.
Qed.

Theorem receipt_store_roundtrip_v1_exact : forall r b,
  receipt_wf r -> Forall event_no_memory (r_events r) -> r_gas r = 0 -> r_feedeleg r = false ->
  marshal_store false r = Some b -> unmarshal_store false b = Some (r, []).
Proof.
  intros r b W F G D M. destruct (receipt_store_roundtrip_v1 r W) as [b' [M' R]].
  rewrite M in M'. injection M' as <-. specialize (R []). rewrite app_nil_r in R.
  rewrite R, receipt_view_v1_id; auto.
Qed.

(** F17: the version-1 format drops FeeDelegation and GasUsed. *)
Definition addr33 : bytes := repeat 7 33.
Definition hash32 : bytes := repeat 9 32.
Definition receipt_f17 : receipt := mk_receipt addr33 RSuccess [123; 125] hash32 [1] [] [] [] 12345 true.

Lemma receipt_f17_wf : receipt_wf receipt_f17.
Proof.
  split; [|constructor]. unfold receipt_wf_common, receipt_f17. cbn.
  repeat split; try reflexivity; try discriminate. left; reflexivity.
Qed.

Theorem receipt_v1_drops_feedelegation_refuted :
  exists r b, receipt_wf r /\ Forall event_no_memory (r_events r) /\ marshal_store false r = Some b /\
              unmarshal_store false b <> Some (r, []).
Proof.
  exists receipt_f17. eexists. split; [apply receipt_f17_wf|]. split; [constructor|].
  split; [vm_compute; reflexivity|]. vm_compute. discriminate.
Qed.

(** Latent: a non-empty CumulativeFeeUsed (never set by the node) breaks the decoder, which
    skips len(CumulativeFeeUsed) extra bytes after the bloom flag. *)
Definition receipt_cumfee : receipt := mk_receipt addr33 RSuccess [] hash32 [1] [7; 8] [] [] 0 false.

Theorem receipt_store_cumfee_refuted :
  exists r b, blen (r_addr r) = 33 /\ blen (r_txhash r) = 32 /\ r_events r = [] /\
              marshal_store true r = Some b /\
              forall r' rest', unmarshal_store true (b ++ [222; 173; 190]) = Some (r', rest') -> rest' <> [222; 173; 190].
Proof.
  exists receipt_cumfee. eexists.
  split; [reflexivity|]. split; [reflexivity|]. split; [reflexivity|].
  split; [vm_compute; reflexivity|].
  intros r' rest' E. vm_compute in E. discriminate E.
Qed.

(** * The merkle leaf input determines every field of its format version *)

Theorem receipt_merkle_injective : forall v2 r1 r2 b,
  receipt_wf_merkle r1 -> receipt_wf_merkle r2 ->
  marshal_merkle v2 r1 = Some b -> marshal_merkle v2 r2 = Some b ->
  receipt_view v2 true r1 = receipt_view v2 true r2.
Proof.
  intros v2 r1 r2 b [W1 E1] [W2 E2] M1 M2.
  pose proof (receipt_roundtrip_generic v2 true r1 b [] W1 E1 M1) as R1.
  pose proof (receipt_roundtrip_generic v2 true r2 b [] W2 E2 M2) as R2.
  rewrite R1 in R2. congruence.
Qed.

(** Contrapositive: two receipts that differ in any field the format version commits to
    (status, contract address, tx hash, fee, events incl. their tx hash, bloom, Ret unless the
    status is ERROR, and in V2 GasUsed and FeeDelegation) have different leaf inputs. *)
Theorem receipt_merkle_covers : forall v2 r1 r2 b1 b2,
  receipt_wf_merkle r1 -> receipt_wf_merkle r2 ->
  marshal_merkle v2 r1 = Some b1 -> marshal_merkle v2 r2 = Some b2 ->
  receipt_view v2 true r1 <> receipt_view v2 true r2 -> b1 <> b2.
Proof.
  intros v2 r1 r2 b1 b2 W1 W2 M1 M2 N E. subst b2. apply N.
  eapply receipt_merkle_injective; eauto.
Qed.

(** F17 at the commitment level: two receipts differing only in FeeDelegation have the same
    version-1 leaf input (and different version-2 leaf inputs). *)
Definition receipt_f17_nodeleg : receipt := mk_receipt addr33 RSuccess [123; 125] hash32 [1] [] [] [] 12345 false.

Theorem receipt_merkle_v1_misses_feedelegation_refuted :
  exists r1 r2, receipt_wf_merkle r1 /\ receipt_wf_merkle r2 /\ r1 <> r2 /\
                marshal_merkle false r1 = marshal_merkle false r2 /\
                marshal_merkle true r1 <> marshal_merkle true r2.
Proof.
  exists receipt_f17, receipt_f17_nodeleg.
  assert (W : forall fd, receipt_wf_merkle (mk_receipt addr33 RSuccess [123; 125] hash32 [1] [] [] [] 12345 fd)).
  { intro fd. split; [|constructor]. unfold receipt_wf_common. cbn.
    repeat split; try reflexivity; try discriminate. left; reflexivity. }
  split; [apply W|]. split; [apply W|]. split; [discriminate|].
  split; [reflexivity|]. vm_compute. discriminate.
Qed.

(** * Receipt lists *)

Lemma marshal_store_nonempty : forall v2 r b, marshal_store v2 r = Some b -> (1 <= length b)%nat.
Proof.
  intros v2 r b M. unfold marshal_store, marshal_receipt in M.
  destruct (marshal_body v2 false r) as [bb|] eqn:E; [|discriminate]. injection M as <-.
  unfold marshal_body in E. destruct (status_byte (r_status r)); [|discriminate]. injection E as <-.
  rewrite !app_length. simpl. lia.
Qed.

Lemma marshal_all_length : forall v2 rs bs, marshal_all v2 rs = Some bs -> (length rs <= length bs)%nat.
Proof.
  induction rs as [|r rs IH]; intros bs M; simpl in *; [lia|].
  destruct (marshal_store v2 r) as [b|] eqn:E; [|discriminate].
  destruct (marshal_all v2 rs) as [bs'|] eqn:E'; [|discriminate]. injection M as <-.
  rewrite app_length. pose proof (marshal_store_nonempty _ _ _ E). specialize (IH _ eq_refl). lia.
Qed.

Lemma unmarshal_all_app : forall v2 rs bs fuel rest,
  Forall receipt_wf rs -> marshal_all v2 rs = Some bs -> (length rs <= fuel)%nat ->
  unmarshal_all fuel v2 (N.of_nat (length rs)) (bs ++ rest) = Some (map (receipt_view v2 false) rs).
Proof.
  induction rs as [|r rs IH]; intros bs fuel rest W M B.
  - simpl. destruct fuel; reflexivity.
  - inversion W as [|? ? Wr Wrs]; subst. simpl in M.
    destruct (marshal_store v2 r) as [b|] eqn:E; [|discriminate].
    destruct (marshal_all v2 rs) as [bs'|] eqn:E'; [|discriminate]. injection M as <-.
    destruct fuel as [|f]; [simpl in B; lia|].
    cbn [unmarshal_all length].
    replace (N.of_nat (S (length rs)) =? 0) with false by (symmetry; apply N.eqb_neq; lia).
    rewrite <- app_assoc. destruct Wr as [Wc We]. unfold unmarshal_store, marshal_store in *.
    rewrite (receipt_roundtrip_generic v2 false r b _ Wc We E).
    replace (N.of_nat (S (length rs)) - 1) with (N.of_nat (length rs)) by lia.
    rewrite (IH bs' f rest Wrs eq_refl) by (simpl in B; lia). reflexivity.
Qed.

Definition bloom_wf (bloom : option bytes) : Prop :=
  match bloom with None => True | Some b => blen b = 256 end.

(** Receipts.UnmarshalBinary (Receipts.MarshalBinary rs) returns the bloom and every receipt as
    stored by the block's format version, with and without bloom. *)
Theorem receipts_roundtrip : forall v2 bloom rs b,
  Forall receipt_wf rs -> bloom_wf bloom -> N.of_nat (length rs) < 2 ^ 32 ->
  marshal_receipts v2 bloom rs = Some b ->
  unmarshal_receipts v2 b = Some (bloom, map (receipt_view v2 false) rs).
Proof.
  intros v2 bloom rs b W Wb Ln M. unfold marshal_receipts in M.
  destruct (marshal_all v2 rs) as [bs|] eqn:E; [|discriminate]. injection M as <-.
  unfold unmarshal_receipts.
  pose proof (marshal_all_length _ _ _ E) as Lb.
  destruct bloom as [bl|].
  - cbn [app d_byte]. change (1 =? 1) with true. cbv iota. simpl in Wb.
    rewrite d_take_app by assumption. rewrite d_u32_app by assumption.
    rewrite <- (app_nil_r bs). rewrite (unmarshal_all_app v2 rs bs _ [] W E); [reflexivity|].
    rewrite app_nil_r. assumption.
  - cbn [app d_byte]. change (0 =? 1) with false. cbv iota.
    rewrite d_u32_app by assumption.
    rewrite <- (app_nil_r bs). rewrite (unmarshal_all_app v2 rs bs _ [] W E); [reflexivity|].
    rewrite app_nil_r. assumption.
Qed.

(** * The receipts root commits to the ordered list of leaf views (equal lengths, F5 aside) *)

Section RootBinding.
  Variable H : bytes -> bytes.
  Variable hlen : nat.
  Hypothesis H_len : forall x, length (H x) = hlen.

  Lemma leaves_all_len : forall v2 bloom rs,
    Forall (fun x => length x = hlen) (receipts_leaves H v2 bloom rs).
  Proof.
    intros. unfold receipts_leaves. apply Forall_app. split.
    - apply Forall_forall. intros x Hx. apply in_map_iff in Hx as [r [<- _]]. apply H_len.
    - destruct bloom; repeat constructor. apply H_len.
  Qed.

  Theorem receipts_root_binding : forall v2 rs1 rs2,
    Forall receipt_wf_merkle rs1 -> Forall receipt_wf_merkle rs2 -> length rs1 = length rs2 ->
    receipts_root H v2 None rs1 = receipts_root H v2 None rs2 ->
    map (receipt_view v2 true) rs1 = map (receipt_view v2 true) rs2 \/ Codec.Fields.collision H.
  Proof.
    intros v2 rs1 rs2 W1 W2 L E. unfold receipts_root in E.
    destruct (Codec.MerkleProofs.merkle_binding_same_length H hlen H_len _ _
                (leaves_all_len v2 None rs1) (leaves_all_len v2 None rs2)) as [El|C]; auto.
    { unfold receipts_leaves. rewrite !app_length, !map_length. simpl. lia. }
    unfold receipts_leaves in El. rewrite !app_nil_r in El. clear E.
    revert rs2 W2 L El. induction W1 as [|r1 rs1 Wr1 W1 IH]; intros [|r2 rs2] W2 L El; simpl in *; try discriminate; auto.
    inversion W2 as [|? ? Wr2 W2']; subst. injection El as Eh Et.
    destruct (IH rs2 W2' ltac:(lia) Et) as [Em|C]; [|right; exact C].
    unfold receipt_leaf in Eh.
    destruct (marshal_receipt_some v2 true r1) as [b1 M1]; [apply Wr1|].
    destruct (marshal_receipt_some v2 true r2) as [b2 M2]; [apply Wr2|].
    unfold marshal_merkle in Eh. rewrite M1, M2 in Eh.
    destruct (Codec.DigestProofs.bytes_eq_dec b1 b2) as [Eb|Nb].
    - left. subst b2. f_equal; auto. eapply receipt_merkle_injective; eauto.
    - right. exists b1, b2. split; assumption.
  Qed.
End RootBinding.

Example receipt_wf_example : receipt_wf receipt_f17 /\ receipt_wf_merkle receipt_f17.
Proof. split; [apply receipt_f17_wf|]. split; [apply receipt_f17_wf | constructor]. Qed.

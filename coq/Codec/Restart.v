(** The restart protocol of the hardfork configuration: chain/chainservice.go checkHardfork
    (read the stored map through ChainDB.Hardfork = FixDbConfig; first start: just write; else
    CheckCompatibility against the best block, and on success WRITE THE CONFIGURATION BACK),
    interleaved with chain growth under the running configuration.
    [writeback = false] is the protocol without the final WriteHardfork (kept to state why the
    write-back is needed).  The log records which configuration produced which heights.
    No proofs here. *)
From Coq Require Import NArith List Bool.
From Verif Require Import Codec.Hardfork Codec.ChainStore.
Import ListNotations.
Open Scope N_scope.

Inductive event :=
| Start (c : hf_config)     (* the node (re)starts with this configuration *)
| Grow (k : N).             (* the running node connects k more blocks *)

Record node := mk_node {
  n_stored : option hf_db;                   (* dbkey.HardFork(); None = never written *)
  n_best : N;
  n_run : option hf_config;                  (* configuration of the running node; None = not running (start refused) *)
  n_log : list (N * N * hf_config)           (* (lo, hi, c): heights lo..hi were produced under c *)
}.

Definition init_node : node := mk_node None 0 None [].

(** checkHardfork: new stored value and whether the start is accepted. *)
Definition check_hardfork (writeback : bool) (s : option hf_db) (best : N) (c : hf_config) : option hf_db * bool :=
  match s with
  | None => (Some (write_hardfork c), true)
  | Some d =>
      if check_compatibility c (fix_db d c) best
      then ((if writeback then Some (write_hardfork c) else s), true)
      else (s, false)
  end.

Definition step (writeback : bool) (nd : node) (e : event) : node :=
  match e with
  | Start c =>
      let '(s', ok) := check_hardfork writeback (n_stored nd) (n_best nd) c in
      mk_node s' (n_best nd) (if ok then Some c else None) (n_log nd)
  | Grow k =>
      match n_run nd with
      | Some c => if k =? 0 then nd
                  else mk_node (n_stored nd) (n_best nd + k) (n_run nd) ((n_best nd + 1, n_best nd + k, c) :: n_log nd)
      | None => nd
      end
  end.

Definition run (writeback : bool) (evs : list event) : node := fold_left (step writeback) evs init_node.

(** The version the running node reports for every produced height is the version the height
    was produced with. *)
Definition versions_stable (nd : node) : Prop :=
  forall c, n_run nd = Some c ->
  forall lo hi cs, In (lo, hi, cs) (n_log nd) -> forall h, lo <= h <= hi -> version c h = version cs h.

Definition event_len (n : nat) (e : event) : Prop :=
  match e with Start c => length c = n | Grow _ => True end.

(** Correspondence: events, then per event (accepted?, stored heights V2.. afterwards or [] ). *)
Fixpoint trace (writeback : bool) (nd : node) (evs : list event) : list (bool * list N * N) :=
  match evs with
  | [] => []
  | e :: r =>
      let nd' := step writeback nd e in
      let acc := match e with Start _ => match n_run nd' with Some _ => true | None => false end | Grow _ => true end in
      let hs := match n_stored nd' with Some d => db_heights 4 d | None => [] end in
      (acc, hs, n_best nd') :: trace writeback nd' r
  end.

Definition obs_eqb (a b : bool * list N * N) : bool :=
  let '(x1, h1, b1) := a in let '(x2, h2, b2) := b in Bool.eqb x1 x2 && Common.Bytes.bytes_eqb h1 h2 && (b1 =? b2).

Fixpoint obs_list_eqb (a b : list (bool * list N * N)) : bool :=
  match a, b with
  | [], [] => true
  | x :: a', y :: b' => obs_eqb x y && obs_list_eqb a' b'
  | _, _ => false
  end.

Definition restart_case_ok (c : list event * list (bool * list N * N)) : bool :=
  let '(evs, obs) := c in obs_list_eqb (trace true init_node evs) obs.

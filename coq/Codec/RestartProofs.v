(** Along any sequence of (accepted or refused) restarts interleaved with chain growth, the
    version of every produced height never changes — provided the accepted configuration is
    written back; without the write-back it is false. *)
From Coq Require Import NArith List Bool Lia.
From Verif Require Import Codec.Hardfork Codec.HardforkProofs Codec.ChainStore Codec.ChainStoreProofs Codec.Restart.
Import ListNotations.
Open Scope N_scope.

Section Stable.
  Variable n : nat.

  (** Invariant: [last] is the configuration of the last accepted start. *)
  Definition inv (nd : node) (last : option hf_config) : Prop :=
    n_stored nd = option_map write_hardfork last /\
    (forall c, last = Some c -> length c = n) /\
    (forall c, n_run nd = Some c -> last = Some c) /\
    (last = None -> n_log nd = []) /\
    (forall lo hi cs, In (lo, hi, cs) (n_log nd) -> hi <= n_best nd) /\
    (forall c, last = Some c -> forall lo hi cs, In (lo, hi, cs) (n_log nd) ->
               forall h, lo <= h <= hi -> version c h = version cs h).

  Lemma fix_db_complete_heights : forall c c', length c = length c' ->
    db_heights (length c') (fix_db (write_hardfork c) c') = c.
  Proof.
    intros c c' L. unfold fix_db, write_hardfork. rewrite <- L. apply db_heights_number_from.
  Qed.

  Lemma step_inv : forall nd last e,
    inv nd last -> event_len n e -> exists last', inv (step true nd e) last'.
  Proof.
    intros nd last e Inv0 El. pose proof Inv0 as (Hs & Hl & Hr & Hn & Hb & Hv). destruct e as [c|k]; simpl in El.
    - (* Start c *)
      unfold step, check_hardfork. rewrite Hs. destruct last as [cl|]; simpl.
      + destruct (check_compatibility c (fix_db (write_hardfork cl) c) (n_best nd)) eqn:C.
        * exists (Some c). repeat split; simpl; auto; try congruence.
          intros c0 E lo hi cs I h Hh. injection E as <-.
          specialize (Hb _ _ _ I).
          pose proof (compat_implies_same_versions c _ _ C h ltac:(lia)) as V.
          rewrite fix_db_complete_heights in V by (rewrite (Hl cl eq_refl); symmetry; assumption).
          rewrite V. apply (Hv cl eq_refl lo hi cs I h Hh).
        * exists (Some cl). repeat split; simpl; auto; try congruence.
      + exists (Some c). repeat split; simpl; auto; try congruence.
        intros c0 E lo hi cs I. rewrite (Hn eq_refl) in I. contradiction.
    - (* Grow k *)
      unfold step. destruct (n_run nd) as [cr|] eqn:Er.
      + destruct (k =? 0) eqn:Ek; [exists last; exact Inv0|].
        apply N.eqb_neq in Ek. pose proof (Hr cr eq_refl) as Elast.
        exists last. repeat split; simpl; auto.
        * intro E. congruence.
        * intros lo hi cs [E|I]; [injection E as <- <- <-; lia | specialize (Hb _ _ _ I); lia].
        * intros c0 E lo hi cs [E'|I] h Hh.
          -- injection E' as <- <- <-. congruence.
          -- apply (Hv c0 E lo hi cs I h Hh).
      + exists last. exact Inv0.
  Qed.

  Lemma run_inv : forall evs nd last,
    inv nd last -> Forall (event_len n) evs -> exists last', inv (fold_left (step true) evs nd) last'.
  Proof.
    induction evs as [|e r IH]; intros nd last I F; [exists last; assumption|].
    inversion F as [|? ? Fe Fr]; subst. destruct (step_inv nd last e I Fe) as [last' I'].
    simpl. apply (IH _ last' I' Fr).
  Qed.

  (** The statement of the property clause "the hardfork version assigned to a height is stable
      across restarts". *)
  Theorem restart_sequence_version_stable : forall evs,
    Forall (event_len n) evs -> versions_stable (run true evs).
  Proof.
    intros evs F.
    assert (I0 : inv init_node None).
    { unfold inv, init_node; simpl. repeat split; try congruence; try contradiction; auto. }
    destruct (run_inv evs init_node None I0 F) as [last (Hs & Hl & Hr & Hn & Hb & Hv)].
    intros c Rc lo hi cs I h Hh. apply (Hv c (Hr c Rc) lo hi cs I h Hh).
  Qed.
End Stable.

(** Without the write-back the stored configuration stays the one of the very first start:
    start with V5 = 40, restart at height 10 with V5 = 20 (accepted: neither reached), grow to
    30 (heights 20..30 are version 5), restart with V5 = 40: accepted, and height 25 is now
    reported as version 4. *)
Definition cfgA : hf_config := [0; 0; 0; 40].
Definition cfgB : hf_config := [0; 0; 0; 20].
Definition reschedule : list event := [Start cfgA; Grow 10; Start cfgB; Grow 20; Start cfgA].

Theorem restart_without_writeback_refuted :
  Forall (event_len 4) reschedule /\ ~ versions_stable (run false reschedule).
Proof.
  split; [repeat constructor|]. intro S.
  specialize (S cfgA eq_refl 11 30 cfgB). simpl in S.
  specialize (S (or_introl eq_refl) 25 ltac:(lia)). vm_compute in S. discriminate.
Qed.

(** With the write-back that last start is refused, and a start with the configuration the
    chain was produced with is accepted. *)
Example reschedule_with_writeback :
  n_run (run true reschedule) = None /\
  n_run (run true [Start cfgA; Grow 10; Start cfgB; Grow 20; Start cfgB]) = Some cfgB.
Proof. vm_compute. split; reflexivity. Qed.

(** Model of types/blockchain.go:CalculateTxsRootHash: the merkle root over the transactions'
    identifiers.  The Go code takes each leaf from the transaction's Hash *field*
    (MerkleEntry.GetHash is the protobuf getter); chain/chainhandle.go:executeTx ->
    tx.Validate compares that field with CalculateTxHash before the transaction is executed,
    so for an accepted block the leaves are the computed identifiers modelled here.
    No proofs here. *)
From Coq Require Import NArith List.
From Verif Require Import Common.Bytes Codec.Fields Codec.Digest Codec.Merkle.
Import ListNotations.

Section TxRoot.
  Variable H : bytes -> bytes.
  Definition txs_root (txs : list txbody) : bytes := merkle_root H (map (tx_hash H) txs).
End TxRoot.

Definition txroot_case_ok (H : bytes -> bytes) (c : list txbody * bytes) : bool :=
  let '(txs, root) := c in bytes_eqb (txs_root H txs) root.

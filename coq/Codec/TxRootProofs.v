(** The transaction root binds the ordered list of transaction identifier inputs (lists of
    equal length; see F5 for the length). *)
From Coq Require Import NArith List Lia.
From Verif Require Import Common.Bytes Codec.Fields Codec.Digest Codec.DigestProofs Codec.Merkle
  Codec.MerkleProofs Codec.TxRoot.
Import ListNotations.
Open Scope nat_scope.

Section TxRootProofs.
  Variable H : bytes -> bytes.
  Variable hlen : nat.
  Hypothesis H_len : forall x, length (H x) = hlen.

  Theorem txs_root_binding : forall txs1 txs2,
    length txs1 = length txs2 -> txs_root H txs1 = txs_root H txs2 ->
    map tx_hash_input txs1 = map tx_hash_input txs2 \/ collision H.
  Proof.
    intros txs1 txs2 L E. unfold txs_root in E.
    destruct (merkle_binding_same_length H hlen H_len (map (tx_hash H) txs1) (map (tx_hash H) txs2)) as [El|C]; auto.
    - apply Forall_forall. intros x Hx. apply in_map_iff in Hx as [t [<- _]]. apply H_len.
    - apply Forall_forall. intros x Hx. apply in_map_iff in Hx as [t [<- _]]. apply H_len.
    - rewrite !map_length. assumption.
    - clear E. revert txs2 L El. induction txs1 as [|t1 r1 IH]; intros [|t2 r2] L El; simpl in *; try discriminate; auto.
      injection El as Eh Et. destruct (IH r2 ltac:(lia) Et) as [Em|C]; [|right; exact C].
      unfold tx_hash in Eh.
      destruct (bytes_eq_dec (tx_hash_input t1) (tx_hash_input t2)) as [Eb|Nb].
      + left. f_equal; assumption.
      + right. exists (tx_hash_input t1), (tx_hash_input t2). split; assumption.
  Qed.
End TxRootProofs.

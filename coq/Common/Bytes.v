(** Byte strings as [list N] (every element intended < 256), fixed-width little/big-endian
    integer encoders, and the concatenation-cancellation lemmas used by the codec and
    framing models.  Small and stable: other developments may import it. *)
From Coq Require Import NArith ZArith PeanoNat List Lia Bool.
Import ListNotations.
Open Scope N_scope.

Definition bytes := list N.

Definition byte_ok (b : N) : Prop := b < 256.
Definition bytes_ok (l : bytes) : Prop := Forall byte_ok l.
Definition bytes_okb (l : bytes) : bool := forallb (fun b => b <? 256) l.

(** [w]-byte little-endian encoding of [n mod 256^w] (Go: binary.LittleEndian.PutUintXX). *)
Fixpoint le_bytes (w : nat) (n : N) : bytes :=
  match w with
  | O => []
  | S w' => (n mod 256) :: le_bytes w' (n / 256)
  end.

Fixpoint le_decode (l : bytes) : N :=
  match l with
  | [] => 0
  | b :: r => b + 256 * le_decode r
  end.

(** Big-endian (Go: binary.BigEndian). *)
Definition be_bytes (w : nat) (n : N) : bytes := rev (le_bytes w n).
Definition be_decode (l : bytes) : N := le_decode (rev l).

Fixpoint bytes_eqb (a b : bytes) : bool :=
  match a, b with
  | [], [] => true
  | x :: a', y :: b' => (x =? y) && bytes_eqb a' b'
  | _, _ => false
  end.

Definition take (n : N) (l : bytes) : bytes := firstn (N.to_nat n) l.
Definition drop (n : N) (l : bytes) : bytes := skipn (N.to_nat n) l.
Definition blen (l : bytes) : N := N.of_nat (length l).

(** * Lemmas *)

Lemma bytes_eqb_eq : forall a b, bytes_eqb a b = true <-> a = b.
Proof.
  induction a as [|x a IH]; destruct b as [|y b]; simpl; split; intro H; try congruence; auto.
  - apply andb_true_iff in H as [H1 H2]. apply N.eqb_eq in H1. apply IH in H2. congruence.
  - inversion H; subst. rewrite N.eqb_refl. simpl. apply IH. reflexivity.
Qed.

Lemma bytes_eqb_refl : forall a, bytes_eqb a a = true.
Proof. intro a. apply bytes_eqb_eq. reflexivity. Qed.

Lemma bytes_eqb_neq : forall a b, bytes_eqb a b = false <-> a <> b.
Proof.
  intros a b. split; intro H.
  - intro E. apply bytes_eqb_eq in E. congruence.
  - destruct (bytes_eqb a b) eqn:E; auto. apply bytes_eqb_eq in E. contradiction.
Qed.

Lemma bytes_okb_ok : forall l, bytes_okb l = true <-> bytes_ok l.
Proof.
  unfold bytes_okb, bytes_ok, byte_ok. intro l. rewrite forallb_forall, Forall_forall.
  split; intros H x Hx; specialize (H x Hx); [apply N.ltb_lt in H | apply N.ltb_lt]; auto.
Qed.

Lemma le_bytes_length : forall w n, length (le_bytes w n) = w.
Proof. induction w; simpl; intros; auto. Qed.

Lemma be_bytes_length : forall w n, length (be_bytes w n) = w.
Proof. intros. unfold be_bytes. rewrite rev_length. apply le_bytes_length. Qed.

Lemma le_bytes_ok : forall w n, bytes_ok (le_bytes w n).
Proof.
  induction w; simpl; intros; constructor.
  - unfold byte_ok. apply N.mod_lt. discriminate.
  - apply IHw.
Qed.

Lemma be_bytes_ok : forall w n, bytes_ok (be_bytes w n).
Proof. intros. unfold be_bytes, bytes_ok. apply Forall_rev. apply le_bytes_ok. Qed.

Lemma le_decode_le_bytes_mod : forall w n, le_decode (le_bytes w n) = n mod 256 ^ N.of_nat w.
Proof.
  induction w; intros n.
  - simpl. rewrite N.mod_1_r. reflexivity.
  - cbn [le_bytes le_decode]. rewrite IHw.
    rewrite Nnat.Nat2N.inj_succ, N.pow_succ_r'.
    rewrite N.mod_mul_r by (try discriminate; apply N.pow_nonzero; discriminate).
    reflexivity.
Qed.

Lemma le_decode_le_bytes : forall w n, n < 256 ^ N.of_nat w -> le_decode (le_bytes w n) = n.
Proof. intros. rewrite le_decode_le_bytes_mod. apply N.mod_small. assumption. Qed.

Lemma le_bytes_inj : forall w n m,
  n < 256 ^ N.of_nat w -> m < 256 ^ N.of_nat w -> le_bytes w n = le_bytes w m -> n = m.
Proof.
  intros w n m Hn Hm E. rewrite <- (le_decode_le_bytes w n Hn), <- (le_decode_le_bytes w m Hm).
  rewrite E. reflexivity.
Qed.

Lemma le_decode_bound : forall l, bytes_ok l -> le_decode l < 256 ^ blen l.
Proof.
  unfold blen. induction l as [|b r IH]; intro H.
  - simpl. lia.
  - inversion H as [|? ? Hb Hr]; subst. specialize (IH Hr). unfold byte_ok in Hb.
    cbn [le_decode length]. rewrite Nnat.Nat2N.inj_succ, N.pow_succ_r'. lia.
Qed.

Lemma le_bytes_le_decode : forall l, bytes_ok l -> le_bytes (length l) (le_decode l) = l.
Proof.
  induction l as [|b r IH]; intro H; cbn [le_bytes le_decode length]; auto.
  inversion H as [|? ? Hb Hr]; subst. unfold byte_ok in Hb.
  assert (E : b + 256 * le_decode r = le_decode r * 256 + b) by lia.
  rewrite E. f_equal.
  - rewrite N.add_comm, N.mod_add by discriminate. apply N.mod_small. assumption.
  - rewrite N.div_add_l by discriminate.
    rewrite (N.div_small b 256) by assumption. rewrite N.add_0_r. apply IH. assumption.
Qed.

Lemma be_decode_be_bytes : forall w n, n < 256 ^ N.of_nat w -> be_decode (be_bytes w n) = n.
Proof. intros. unfold be_decode, be_bytes. rewrite rev_involutive. apply le_decode_le_bytes. assumption. Qed.

Lemma be_bytes_inj : forall w n m,
  n < 256 ^ N.of_nat w -> m < 256 ^ N.of_nat w -> be_bytes w n = be_bytes w m -> n = m.
Proof.
  intros w n m Hn Hm E. unfold be_bytes in E.
  apply (f_equal (@rev N)) in E. rewrite !rev_involutive in E. eapply le_bytes_inj; eauto.
Qed.

Lemma be_bytes_be_decode : forall l, bytes_ok l -> be_bytes (length l) (be_decode l) = l.
Proof.
  intros l H. unfold be_bytes, be_decode. rewrite <- (rev_length l).
  rewrite le_bytes_le_decode by (apply Forall_rev; assumption). apply rev_involutive.
Qed.

(** Concatenation cancellation. *)

Lemma app_eq_length_inv : forall (A : Type) (a b x y : list A),
  length a = length b -> a ++ x = b ++ y -> a = b /\ x = y.
Proof.
  induction a as [|h a IH]; destruct b as [|k b]; simpl; intros x y L E; try discriminate; auto.
  inversion E; subst. destruct (IH b x y) as [-> ->]; auto.
Qed.

Lemma app_eq_length_inv_r : forall (A : Type) (a b x y : list A),
  length x = length y -> a ++ x = b ++ y -> a = b /\ x = y.
Proof.
  intros A a b x y L E.
  assert (La : length a = length b).
  { apply (f_equal (@length A)) in E. rewrite !app_length in E. lia. }
  apply app_eq_length_inv; assumption.
Qed.

(** A single variable-length field between an equal prefix and an equal suffix. *)
Lemma app_mid_cancel : forall (A : Type) (p s x y : list A),
  p ++ x ++ s = p ++ y ++ s -> x = y.
Proof. intros A p s x y E. apply app_inv_head in E. apply app_inv_tail in E. assumption. Qed.

Lemma app_mid_neq : forall (A : Type) (p s x y : list A),
  x <> y -> p ++ x ++ s <> p ++ y ++ s.
Proof. intros A p s x y N E. apply N. eapply app_mid_cancel; eauto. Qed.

Lemma firstn_app_exact : forall (A : Type) (a b : list A), firstn (length a) (a ++ b) = a.
Proof. intros. rewrite firstn_app, Nat.sub_diag, firstn_all. simpl. apply app_nil_r. Qed.

Lemma skipn_app_exact : forall (A : Type) (a b : list A), skipn (length a) (a ++ b) = b.
Proof. intros. rewrite skipn_app, Nat.sub_diag, skipn_all. reflexivity. Qed.

Lemma take_app_exact : forall n a b, blen a = n -> take n (a ++ b) = a.
Proof. unfold take, blen. intros n a b <-. rewrite Nnat.Nat2N.id. apply firstn_app_exact. Qed.

Lemma drop_app_exact : forall n a b, blen a = n -> drop n (a ++ b) = b.
Proof. unfold drop, blen. intros n a b <-. rewrite Nnat.Nat2N.id. apply skipn_app_exact. Qed.

Lemma take_length_le : forall n l, (length (take n l) <= N.to_nat n)%nat.
Proof. intros. unfold take. apply firstn_le_length. Qed.

Lemma take_drop : forall n l, take n l ++ drop n l = l.
Proof. intros. apply firstn_skipn. Qed.

Lemma blen_app : forall a b, blen (a ++ b) = blen a + blen b.
Proof. intros. unfold blen. rewrite app_length. lia. Qed.

Lemma blen_le_bytes : forall w n, blen (le_bytes w n) = N.of_nat w.
Proof. intros. unfold blen. rewrite le_bytes_length. reflexivity. Qed.

Lemma blen_be_bytes : forall w n, blen (be_bytes w n) = N.of_nat w.
Proof. intros. unfold blen. rewrite be_bytes_length. reflexivity. Qed.

(** Two's-complement bit pattern of a signed integer of [w] bytes (Go: uintNN(x)). *)
Definition i_bits (w : nat) (z : Z) : N := Z.to_N (z mod 2 ^ (8 * Z.of_nat w)).
Definition i_range (w : nat) (z : Z) : Prop :=
  (- 2 ^ (8 * Z.of_nat w) <= 2 * z < 2 ^ (8 * Z.of_nat w))%Z.

Lemma mod_centered_inj : forall m a b : Z,
  (0 < m -> - m <= 2 * a < m -> - m <= 2 * b < m -> a mod m = b mod m -> a = b)%Z.
Proof.
  intros m a b Hm Ha Hb E.
  pose proof (Z.div_mod a m ltac:(lia)) as Da. pose proof (Z.div_mod b m ltac:(lia)) as Db.
  rewrite E in Da.
  assert (a / m = b / m)%Z by nia. nia.
Qed.

Lemma i_bits_inj : forall w a b, i_range w a -> i_range w b -> i_bits w a = i_bits w b -> a = b.
Proof.
  unfold i_bits, i_range. intros w a b Ha Hb E.
  assert (Hm : (0 < 2 ^ (8 * Z.of_nat w))%Z) by (apply Z.pow_pos_nonneg; lia).
  apply (mod_centered_inj _ a b Hm Ha Hb).
  apply Z2N.inj in E; auto; apply Z.mod_pos_bound; assumption.
Qed.

Lemma i_bits_bound : forall w z, (i_bits w z < 256 ^ N.of_nat w)%N.
Proof.
  intros w z. unfold i_bits.
  assert (Hm : (0 < 2 ^ (8 * Z.of_nat w))%Z) by (apply Z.pow_pos_nonneg; lia).
  pose proof (Z.mod_pos_bound z _ Hm) as B.
  apply N2Z.inj_lt. rewrite Z2N.id by lia. rewrite N2Z.inj_pow. rewrite nat_N_Z.
  change (Z.of_N 256) with (2 ^ 8)%Z. rewrite <- Z.pow_mul_r by lia. lia.
Qed.

Example i_bits_ex : i_bits 8 (-1) = 18446744073709551615%N.
Proof. reflexivity. Qed.

(** Compact literal for generated case files: [hexb len 0xAABB..] is the [len]-byte
    big-endian string of the number (one numeral instead of [len] numerals). *)
Fixpoint n_bytes_le (fuel : nat) (n : N) : bytes :=
  match fuel with
  | O => []
  | S f => N.land n 255 :: n_bytes_le f (N.shiftr n 8)
  end.
Definition hexb (len : nat) (n : N) : bytes := rev (n_bytes_le len n).

Example hexb_ex : hexb 3 0x00ab01 = [0; 171; 1].
Proof. reflexivity. Qed.

(** Indices of the elements of [cases] on which [ok] is false (correspondence checks). *)
Fixpoint mismatches_from {A : Type} (ok : A -> bool) (cases : list A) (i : nat) : list nat :=
  match cases with
  | [] => []
  | c :: r => if ok c then mismatches_from ok r (S i) else i :: mismatches_from ok r (S i)
  end.

Example le_bytes_ex : le_bytes 4 305419896 = [120; 86; 52; 18].
Proof. reflexivity. Qed.
Example be_bytes_ex : be_bytes 4 305419896 = [18; 52; 86; 120].
Proof. reflexivity. Qed.
Example le_decode_ex : le_decode [120; 86; 52; 18] = 305419896.
Proof. reflexivity. Qed.

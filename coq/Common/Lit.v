(** Compact byte-string literal for generated case files: [pk len [i1; i2; ...]%uint63] packs
    seven bytes per primitive 63-bit integer (big-endian, the last word zero-padded) and keeps
    the first [len] bytes.  Primitive integer literals elaborate ~10x faster than [N] numerals
    or hexadecimal numerals, which dominate the evaluation time of byte-heavy cases. *)
From Coq Require Import NArith ZArith List Uint63.
From Verif Require Import Common.Bytes.
Import ListNotations.

Definition byte_of (x : int) : N := Z.to_N (Uint63.to_Z (x land 255)%uint63).

Definition w7 (x : int) : bytes :=
  [byte_of (x >> 48)%uint63; byte_of (x >> 40)%uint63; byte_of (x >> 32)%uint63; byte_of (x >> 24)%uint63;
   byte_of (x >> 16)%uint63; byte_of (x >> 8)%uint63; byte_of x].

Fixpoint pk_words (l : list int) : bytes :=
  match l with
  | [] => []
  | x :: r => w7 x ++ pk_words r
  end.

Definition pk (len : nat) (l : list int) : bytes := firstn len (pk_words l).

Example pk_ex : pk 9 [283686952306183; 2260595906707456]%uint63 = [1; 2; 3; 4; 5; 6; 7; 8; 8]%N.
Proof. vm_compute. reflexivity. Qed.

(** Executable SHA-256 over [list N] byte strings (FIPS 180-4) on primitive 63-bit integers,
    used only to *evaluate* the models on observed cases (identifiers and merkle roots are
    compared with the values the Go code computed).  No theorem depends on it: in the proofs
    the hash is a Section variable.  Checked against Go's sha256 on every run. *)
From Coq Require Import Uint63 ZArith NArith List.
From Verif Require Import Common.Bytes.
Import ListNotations.
Local Open Scope uint63_scope.

Definition mask32 : int := 4294967295.
Definition add32 (a b : int) : int := (a + b) land mask32.
Definition rotr (n x : int) : int := (x >> n) lor ((x << (32 - n)) land mask32).
Definition not32 (x : int) : int := x lxor mask32.
Definition ch (x y z : int) : int := (x land y) lxor ((not32 x) land z).
Definition maj (x y z : int) : int := ((x land y) lxor (x land z)) lxor (y land z).
Definition bsig0 (x : int) : int := ((rotr 2 x) lxor (rotr 13 x)) lxor (rotr 22 x).
Definition bsig1 (x : int) : int := ((rotr 6 x) lxor (rotr 11 x)) lxor (rotr 25 x).
Definition ssig0 (x : int) : int := ((rotr 7 x) lxor (rotr 18 x)) lxor (x >> 3).
Definition ssig1 (x : int) : int := ((rotr 17 x) lxor (rotr 19 x)) lxor (x >> 10).

Definition sha_k : list int :=
 [1116352408; 1899447441; 3049323471; 3921009573; 961987163; 1508970993; 2453635748; 2870763221;
  3624381080; 310598401; 607225278; 1426881987; 1925078388; 2162078206; 2614888103; 3248222580;
  3835390401; 4022224774; 264347078; 604807628; 770255983; 1249150122; 1555081692; 1996064986;
  2554220882; 2821834349; 2952996808; 3210313671; 3336571891; 3584528711; 113926993; 338241895;
  666307205; 773529912; 1294757372; 1396182291; 1695183700; 1986661051; 2177026350; 2456956037;
  2730485921; 2820302411; 3259730800; 3345764771; 3516065817; 3600352804; 4094571909; 275423344;
  430227734; 506948616; 659060556; 883997877; 958139571; 1322822218; 1537002063; 1747873779;
  1955562222; 2024104815; 2227730452; 2361852424; 2428436474; 2756734187; 3204031479; 3329325298].

Definition sha_state := (int * int * int * int * int * int * int * int)%type.

Definition sha_init : sha_state :=
  (1779033703, 3144134277, 1013904242, 2773480762, 1359893119, 2600822924, 528734635, 1541459225).

Definition sha_round (st : sha_state) (k w : int) : sha_state :=
  let '(a, b, c, d, e, f, g, h) := st in
  let t1 := add32 (add32 (add32 (add32 h (bsig1 e)) (ch e f g)) k) w in
  let t2 := add32 (bsig0 a) (maj a b c) in
  (add32 t1 t2, a, b, c, add32 d t1, e, f, g).

(** [w] is the sliding window W[t..t+15]. *)
Fixpoint sha_rounds (ks : list int) (w : list int) (st : sha_state) : sha_state :=
  match ks with
  | [] => st
  | k :: ks' =>
      match w with
      | w0 :: w1 :: w2 :: w3 :: w4 :: w5 :: w6 :: w7 :: w8 :: w9 :: w10 :: w11 :: w12 :: w13 :: w14 :: w15 :: _ =>
          let nw := add32 (add32 (add32 (ssig1 w14) w9) (ssig0 w1)) w0 in
          sha_rounds ks' [w1; w2; w3; w4; w5; w6; w7; w8; w9; w10; w11; w12; w13; w14; w15; nw]
                     (sha_round st k w0)
      | _ => st
      end
  end.

Definition byte_int (b : N) : int := Uint63.of_Z (Z.of_N b).

Fixpoint words_be (l : bytes) (n : nat) : list int :=
  match n with
  | O => []
  | S n' =>
      match l with
      | a :: b :: c :: d :: r =>
          ((((byte_int a << 8) lor byte_int b) << 8 lor byte_int c) << 8 lor byte_int d) :: words_be r n'
      | _ => []
      end
  end.

Definition sha_block (st : sha_state) (blk : bytes) : sha_state :=
  let '(a, b, c, d, e, f, g, h) := st in
  let '(a', b', c', d', e', f', g', h') := sha_rounds sha_k (words_be blk 16) st in
  (add32 a a', add32 b b', add32 c c', add32 d d', add32 e e', add32 f f', add32 g g', add32 h h').

Fixpoint sha_blocks (n : nat) (st : sha_state) (l : bytes) : sha_state :=
  match n with
  | O => st
  | S n' => sha_blocks n' (sha_block st (firstn 64 l)) (skipn 64 l)
  end.

Definition sha_pad (l : bytes) : bytes :=
  let len := blen l in
  let z := ((64 - ((len + 9) mod 64)) mod 64)%N in
  l ++ [128%N] ++ repeat 0%N (N.to_nat z) ++ be_bytes 8 (8 * len)%N.

Definition word_bytes (x : int) : bytes := be_bytes 4 (Z.to_N (Uint63.to_Z x)).

Definition sha256 (l : bytes) : bytes :=
  let p := sha_pad l in
  let '(a, b, c, d, e, f, g, h) := sha_blocks (Nat.div (length p) 64) sha_init p in
  word_bytes a ++ word_bytes b ++ word_bytes c ++ word_bytes d ++
  word_bytes e ++ word_bytes f ++ word_bytes g ++ word_bytes h.

(** sha256("") and sha256("abc"). *)
Example sha256_empty : sha256 [] =
  [227;176;196;66;152;252;28;20;154;251;244;200;153;111;185;36;39;174;65;228;100;155;147;76;164;149;153;27;120;82;184;85]%N.
Proof. vm_compute. reflexivity. Qed.
Example sha256_abc : sha256 [97;98;99]%N =
  [186;120;22;191;143;1;207;234;65;65;64;222;93;174;34;35;176;3;97;163;150;23;122;156;180;16;255;97;242;0;21;173]%N.
Proof. vm_compute. reflexivity. Qed.

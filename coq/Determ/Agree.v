(** Determ/Agree.v — producer / validator agreement for the governance-level executor.

    The block producer (consensus/chain GatherTXs) applies candidate transactions one after
    the other with the shared executor and DROPS those that fail; the validator
    (chain.executeBlock) applies exactly the transactions of the block and rejects the block
    if one fails.  Because a rejected transaction leaves the durable state unchanged — and,
    when it is refused by validation, the process-wide state too — the producer's final state
    is the validator's. *)
From Coq Require Import ZArith NArith List Bool Lia.
From Verif Require Import Gov.Model Gov.VprProofs.
Import ListNotations.
Open Scope Z_scope.

(** producer: returns the transactions it included and its final state *)
Fixpoint produce_block (c : cfg) (g : gstate) (cands : list tx) : list tx * gstate :=
  match cands with
  | [] => ([], g)
  | t :: r =>
    let '(e, g1) := step c g (OTx t) in
    let '(b, g2) := produce_block c g1 r in
    match e with EOk => (t :: b, g2) | _ => (b, g2) end
  end.

(** validator: every transaction of the block must succeed *)
Fixpoint exec_block (c : cfg) (g : gstate) (b : list tx) : option gstate :=
  match b with
  | [] => Some g
  | t :: r =>
    let '(e, g1) := step c g (OTx t) in
    match e with EOk => exec_block c g1 r | _ => None end
  end.

(** the transactions the producer skipped were refused by validation (not a panic, not the
    post-refresh balance failure of unstake) *)
Fixpoint skips_clean (c : cfg) (g : gstate) (cands : list tx) : Prop :=
  match cands with
  | [] => True
  | t :: r =>
    let '(e, g1) := step c g (OTx t) in
    (e <> EPanic /\ (forall who amt, t = TUnstake who amt -> e <> EInsufficient)) /\ skips_clean c g1 r
  end.

Theorem produce_validate_agree c : forall cands g b g',
  skips_clean c g cands -> produce_block c g cands = (b, g') -> exec_block c g b = Some g'.
Proof.
  induction cands as [|t r IH]; intros g b g'; cbn [skips_clean produce_block].
  - intros _ [= <- <-]. reflexivity.
  - destruct (step c g (OTx t)) as [e g1] eqn:S. intros [[Np Hu] Hs].
    destruct (produce_block c g1 r) as [b1 g2] eqn:P.
    destruct (err_eqb e EOk) eqn:E.
    + assert (e = EOk) by (destruct e; simpl in E; congruence). subst e.
      intros [= <- <-]. cbn [exec_block]. rewrite S. now apply IH.
    + assert (Ne : e <> EOk) by (intros ->; discriminate).
      assert (g1 = g).
      { unfold step in S. destruct (apply_tx c (g_no g) (g_d g) (g_m g) t) as [[e0 d1] m1] eqn:A.
        injection S as <- <-.
        pose proof (rejected_tx_memory_unchanged _ _ _ _ _ _ _ _ A Ne Np Hu) as ->.
        unfold apply_tx in A. destruct (exec_tx c (g_no g) (g_d g) (g_m g) t) as [[e1 d2] m2]. cbv beta iota in A.
        destruct g. destruct e1; inversion A; subst; simpl in *; congruence. }
      subst g1. intros H. assert (b1 = b /\ g2 = g') as [-> ->] by (destruct e; inversion H; auto; congruence).
      now apply IH.
Qed.

(** (e) repeated execution: [exec_block] is a Gallina function of (configuration, state,
    block).  This statement carries NO information beyond "the model has no hidden inputs";
    the content of C02 is in (a)-(d') and in the cross-process runs of checks/C02.py. *)
Theorem exec_block_is_a_function c g b : exec_block c g b = exec_block c g b.
Proof. reflexivity. Qed.

Definition agree_cfg : cfg := {| c_ver := 2; c_fixed := true; c_ids := [77%N; 99%N]; c_defaults := [(0%N, 3); (1%N, 10000); (2%N, 50); (3%N, 1)] |}.
Definition agree_g0 : gstate :=
  {| g_no := 1;
     g_d := {| d_bal := [(0%N, 50000); (1%N, 50000)]; d_sysbal := 0; d_stakes := []; d_total := 0; d_votes := []; d_results := [];
               d_vtotals := []; d_params := []; d_vpr := [] |};
     g_m := {| m_pcur := []; m_pnext := []; m_vpr := vpr_empty |} |}.

(** non-trivial instance: two of five candidates are skipped *)
Example agree_example :
  let cands := [TStake 0%N 20000; TStake 0%N 1 (* lock period *); TVoteBP 1%N [[1]%N] (* no stake *); TStake 1%N 10000; TVoteBP 0%N [[1]%N; [2]%N]] in
  let '(b, g') := produce_block agree_cfg agree_g0 cands in
  length b = 3%nat /\ exec_block agree_cfg agree_g0 b = Some g'.
Proof. vm_compute. split; reflexivity. Qed.

(** Determ/BlockState.v — producer / validator agreement at the level of chain.executeTx and
    chain.NewTxExecutor, with everything a dropped transaction must leave as it found it.

    state.BlockState (state/block.go) has two kinds of components:
    - [covered]: the account buffer and the contract storage caches — exactly what
      BlockState.Snapshot / Rollback save and restore (block.go:62-75);
    - NOT covered by Snapshot/Rollback: [bp] (BpReward), [rcpts] (receipts), [iops]
      (internalOps), [cc] (CCProposal), and the process-wide globals [mem]
      (system.votingPowerRank, system.systemParams).  (Also outside: consensus header,
      timeoutTx, code/ABI caches — not written by executeTx in the stub configuration.)
    NewTxExecutor (chainhandle.go:708-731) takes a snapshot, runs executeTx and rolls the covered
    part back when executeTx returns an error; the producer (consensus/chain GatherTXs) then
    drops the transaction (or ends the block on a contract timeout) and the validator never sees
    it.  So a dropped transaction must not have touched any uncovered component.

    [execute_tx] mirrors the ORDER of executeTx (chainhandle.go:958-1123): everything up to and
    including resetAccount / PutState is the oracle [core] (validation, contract.Execute or the
    governance executors); BpReward, internalOps and the receipt are written after the last
    error exit.  [execute_tx_mut] is the ordering of seeded/C02/patch.diff (BpReward credited
    right after the tx-type switch). *)
From Coq Require Import ZArith List Bool Lia.
Import ListNotations.
Open Scope Z_scope.

Section BS.
  Variables (C M R P T : Type).

  Record bstate := mk_bs { covered : C; bp : Z; rcpts : list R; iops : list nat; cc : option P; mem : M }.

  Inductive core_result :=
  (** executeTx returns an error: [late_fee] is the value of txFee at that point (0 when the
      transaction is refused before execution), [timeout] = *contract.VmTimeoutError *)
  | CoreReject (c : C) (m : M) (p : option P) (late_fee : Z) (timeout : bool)
  (** executeTx reaches its tail: fee, internal operations (if any), receipt *)
  | CoreDone (c : C) (m : M) (p : option P) (fee : Z) (io : option nat) (r : R).

  Variable core : C -> M -> option P -> T -> core_result.

  (** (failed?, timeout?, block state as executeTx leaves it) *)
  Definition execute_tx (bs : bstate) (t : T) : bool * bool * bstate :=
    match core (covered bs) (mem bs) (cc bs) t with
    | CoreReject c m p _ to => (true, to, mk_bs c (bp bs) (rcpts bs) (iops bs) p m)
    | CoreDone c m p fee io r =>
      (false, false, mk_bs c (bp bs + fee) (rcpts bs ++ [r]) (iops bs ++ match io with Some x => [x] | None => [] end) p m)
    end.

  (** the seeded ordering: the reward pot is credited before the error handling *)
  Definition execute_tx_mut (bs : bstate) (t : T) : bool * bool * bstate :=
    match core (covered bs) (mem bs) (cc bs) t with
    | CoreReject c m p late_fee to => (true, to, mk_bs c (bp bs + late_fee) (rcpts bs) (iops bs) p m)
    | CoreDone c m p fee io r =>
      (false, false, mk_bs c (bp bs + fee) (rcpts bs ++ [r]) (iops bs ++ match io with Some x => [x] | None => [] end) p m)
    end.

  Section Exec.
    Variable etx : bstate -> T -> bool * bool * bstate.

    (** NewTxExecutor: snapshot, executeTx, rollback of the covered part on error *)
    Definition tx_exec (bs : bstate) (t : T) : bool * bool * bstate :=
      let '(failed, to, bs') := etx bs t in
      if failed then (true, to, mk_bs (covered bs) (bp bs') (rcpts bs') (iops bs') (cc bs') (mem bs'))
      else (false, false, bs').

    (** GatherTXs: a failing transaction is dropped; a contract timeout ends the block *)
    Fixpoint produce (bs : bstate) (cands : list T) : list T * bstate :=
      match cands with
      | [] => ([], bs)
      | t :: r =>
        let '(failed, to, bs') := tx_exec bs t in
        if failed then (if to then ([], bs') else produce bs' r)
        else let '(b, bs'') := produce bs' r in (t :: b, bs'')
      end.

    (** blockExecutor.execute: every transaction of the block must succeed *)
    Fixpoint validate (bs : bstate) (b : list T) : option bstate :=
      match b with
      | [] => Some bs
      | t :: r => let '(failed, _, bs') := tx_exec bs t in if failed then None else validate bs' r
      end.

    (** what a dropped transaction must leave untouched, component by component *)
    Definition untouched (bs bs' : bstate) : Prop :=
      bp bs' = bp bs /\ rcpts bs' = rcpts bs /\ iops bs' = iops bs /\ cc bs' = cc bs /\ mem bs' = mem bs.

    Fixpoint skips_clean_b (bs : bstate) (cands : list T) : Prop :=
      match cands with
      | [] => True
      | t :: r =>
        let '(failed, to, bs') := tx_exec bs t in
        if failed then untouched bs bs' /\ (if to then True else skips_clean_b bs' r)
        else skips_clean_b bs' r
      end.

    Lemma untouched_eq bs bs' : covered bs' = covered bs -> untouched bs bs' -> bs' = bs.
    Proof. destruct bs, bs'; unfold untouched; simpl. intros E (E1 & E2 & E3 & E4 & E5). subst. reflexivity. Qed.

    Lemma tx_exec_failed_covered bs t to bs' : tx_exec bs t = (true, to, bs') -> covered bs' = covered bs.
    Proof.
      unfold tx_exec. destruct (etx bs t) as [[f to'] b]. destruct f; intros H; inversion H; reflexivity.
    Qed.

    (** (a) the block the producer builds is accepted by the validator with the producer's
        final block state — covered part, reward pot, receipts, internal ops, CCProposal, globals *)
    Theorem produce_validate_agree_b : forall cands bs b bs',
      skips_clean_b bs cands -> produce bs cands = (b, bs') -> validate bs b = Some bs'.
    Proof.
      induction cands as [|t r IH]; intros bs b bs'; cbn [skips_clean_b produce].
      - intros _ [= <- <-]. reflexivity.
      - destruct (tx_exec bs t) as [[failed to] bs1] eqn:E.
        destruct failed.
        + intros [U K].
          assert (bs1 = bs) by (apply untouched_eq; [eapply tx_exec_failed_covered; eauto | exact U]). subst bs1.
          destruct to.
          * intros [= <- <-]. reflexivity.
          * intros H. now apply IH.
        + intros K. destruct (produce bs1 r) as [b1 bs2] eqn:Pr. intros [= <- <-].
          cbn [validate]. rewrite E. now apply IH.
    Qed.

    (* ---------------------------------------------------------------- block-generation deadline *)
    (** [d]: how many more transactions may START before the block-generation deadline
        (GatherTXs's context, tx.go:140-158) has passed; [None] = it never does.  [Some 0] = the
        deadline has passed: checkBGTimeout, composed BEFORE the executor (tx.go:160), ends the
        loop without executing the next candidate. *)
    Fixpoint produce_d (d : option nat) (bs : bstate) (cands : list T) : list T * bstate :=
      match cands with
      | [] => ([], bs)
      | t :: r =>
        match d with
        | Some O => ([], bs)
        | _ =>
          let d' := option_map pred d in
          let '(failed, to, bs') := tx_exec bs t in
          if failed then (if to then ([], bs') else produce_d d' bs' r)
          else let '(b, bs'') := produce_d d' bs' r in (t :: b, bs'')
        end
      end.

    Fixpoint skips_clean_d (d : option nat) (bs : bstate) (cands : list T) : Prop :=
      match cands with
      | [] => True
      | t :: r =>
        match d with
        | Some O => True
        | _ =>
          let d' := option_map pred d in
          let '(failed, to, bs') := tx_exec bs t in
          if failed then untouched bs bs' /\ (if to then True else skips_clean_d d' bs' r)
          else skips_clean_d d' bs' r
        end
      end.

    (** (a) for EVERY position of the deadline: the block is accepted with the producer's state *)
    Theorem produce_validate_agree_deadline : forall cands d bs b bs',
      skips_clean_d d bs cands -> produce_d d bs cands = (b, bs') -> validate bs b = Some bs'.
    Proof.
      induction cands as [|t r IH]; intros d bs b bs'; cbn [skips_clean_d produce_d].
      - intros _ [= <- <-]. reflexivity.
      - assert (Step : forall d',
                  (let '(failed, to, bs1) := tx_exec bs t in
                   if failed then untouched bs bs1 /\ (if to then True else skips_clean_d d' bs1 r) else skips_clean_d d' bs1 r) ->
                  (let '(failed, to, bs1) := tx_exec bs t in
                   if failed then (if to then ([], bs1) else produce_d d' bs1 r)
                   else let '(b0, bs2) := produce_d d' bs1 r in (t :: b0, bs2)) = (b, bs') ->
                  validate bs b = Some bs').
        { intros d'. destruct (tx_exec bs t) as [[failed to] bs1] eqn:E. destruct failed.
          - intros [U K].
            assert (bs1 = bs) by (apply untouched_eq; [eapply tx_exec_failed_covered; eauto | exact U]). subst bs1.
            destruct to; [intros [= <- <-]; reflexivity | intros H; now apply (IH d')].
          - intros K. destruct (produce_d d' bs1 r) as [b1 bs2] eqn:Pr. intros [= <- <-].
            cbn [validate]. rewrite E. now apply (IH d'). }
        destruct d as [[|n]|].
        + intros _ [= <- <-]. reflexivity.
        + apply Step.
        + apply Step.
    Qed.

    (** the seeded order (seeded/C02-r2): the deadline is tested AFTER the transaction has run;
        a transaction during which the deadline passes stays in the block state but is not listed *)
    Fixpoint produce_d_mut (d : option nat) (bs : bstate) (cands : list T) : list T * bstate :=
      match cands with
      | [] => ([], bs)
      | t :: r =>
        let d' := option_map pred d in
        let '(failed, to, bs') := tx_exec bs t in
        match d with
        | Some O => ([], bs')
        | _ =>
          if failed then (if to then ([], bs') else produce_d_mut d' bs' r)
          else let '(b, bs'') := produce_d_mut d' bs' r in (t :: b, bs'')
        end
      end.
  End Exec.

  (** executeTx at HEAD writes BpReward, receipts and internalOps only on its non-failing exit *)
  Theorem execute_tx_failure_leaves_pot_and_receipts bs t to bs' :
    tx_exec execute_tx bs t = (true, to, bs') ->
    bp bs' = bp bs /\ rcpts bs' = rcpts bs /\ iops bs' = iops bs /\ covered bs' = covered bs.
  Proof.
    unfold tx_exec, execute_tx. destruct (core (covered bs) (mem bs) (cc bs) t); intros H; inversion H; subst; simpl; auto.
  Qed.

  (** hence for HEAD's ordering [skips_clean_b] only asks what the oracle may touch: CCProposal
      and the process-wide globals *)
  Fixpoint skips_clean_core (bs : bstate) (cands : list T) : Prop :=
    match cands with
    | [] => True
    | t :: r =>
      let '(failed, to, bs') := tx_exec execute_tx bs t in
      if failed then (cc bs' = cc bs /\ mem bs' = mem bs) /\ (if to then True else skips_clean_core bs' r)
      else skips_clean_core bs' r
    end.

  Lemma skips_clean_core_b : forall cands bs, skips_clean_core bs cands -> skips_clean_b execute_tx bs cands.
  Proof.
    induction cands as [|t r IH]; intros bs; cbn [skips_clean_core skips_clean_b]; auto.
    destruct (tx_exec execute_tx bs t) as [[failed to] bs1] eqn:E. destruct failed; [|apply IH].
    intros [[Hc Hm] K]. destruct (execute_tx_failure_leaves_pot_and_receipts _ _ _ _ E) as (A & B & D & _).
    split; [unfold untouched; auto|]. destruct to; auto.
  Qed.

  Theorem produce_validate_agree_head cands bs b bs' :
    skips_clean_core bs cands -> produce execute_tx bs cands = (b, bs') -> validate execute_tx bs b = Some bs'.
  Proof. intros K. apply produce_validate_agree_b. now apply skips_clean_core_b. Qed.
End BS.

(** The seeded ordering breaks it: a call that consumes a fee and then dies with a VM system
    error is dropped by the producer but its fee stays in the reward pot; the validator, which
    only executes the included transactions, computes a different pot (hence a different
    coinbase balance and state root). *)
Definition demo_core (c : Z) (m : unit) (p : option unit) (t : Z) : core_result Z unit Z unit :=
  if t <? 0 then CoreReject Z unit Z unit c m p 1000 false          (* VM system error after consuming 1000 *)
  else CoreDone Z unit Z unit (c + t) m p 5 None t.

Theorem bp_reward_before_error_handling_refuted :
  exists cands bs,
    let '(b, bs') := produce Z unit Z unit Z (execute_tx_mut Z unit Z unit Z demo_core) bs cands in
    exists bs'', validate Z unit Z unit Z (execute_tx_mut Z unit Z unit Z demo_core) bs b = Some bs'' /\ bp _ _ _ _ bs'' <> bp _ _ _ _ bs'.
Proof.
  exists [7; -1; 3], (mk_bs Z unit Z unit 0 0 [] [] None tt). vm_compute.
  eexists. split; [reflexivity|]. discriminate.
Qed.

(** with HEAD's ordering the same candidates agree *)
Example head_agrees :
  let bs := mk_bs Z unit Z unit 0 0 [] [] None tt in
  let '(b, bs') := produce Z unit Z unit Z (execute_tx Z unit Z unit Z demo_core) bs [7; -1; 3] in
  b = [7; 3] /\ validate Z unit Z unit Z (execute_tx Z unit Z unit Z demo_core) bs b = Some bs' /\ bp _ _ _ _ bs' = 10.
Proof. vm_compute. repeat split. Qed.

(** the deadline tested after the transaction: a transfer executed while the deadline passes is
    in the producer's state but not in its block *)
Theorem deadline_checked_after_tx_refuted :
  exists cands d bs,
    let '(b, bs') := produce_d_mut Z unit Z unit Z (execute_tx Z unit Z unit Z demo_core) d bs cands in
    exists bs'', validate Z unit Z unit Z (execute_tx Z unit Z unit Z demo_core) bs b = Some bs'' /\ bs'' <> bs'.
Proof.
  exists [7; 3; 5], (Some 1%nat), (mk_bs Z unit Z unit 0 0 [] [] None tt). vm_compute.
  eexists. split; [reflexivity|]. discriminate.
Qed.

Example deadline_head_agrees :
  let bs := mk_bs Z unit Z unit 0 0 [] [] None tt in
  forallb (fun d =>
    let '(b, bs') := produce_d Z unit Z unit Z (execute_tx Z unit Z unit Z demo_core) d bs [7; -1; 3; 5] in
    match validate Z unit Z unit Z (execute_tx Z unit Z unit Z demo_core) bs b with
    | Some bs'' => (covered _ _ _ _ bs'' =? covered _ _ _ _ bs') && (bp _ _ _ _ bs'' =? bp _ _ _ _ bs')
    | None => false
    end) [None; Some 0; Some 1; Some 2; Some 3; Some 4; Some 5]%nat = true.
Proof. vm_compute. reflexivity. Qed.

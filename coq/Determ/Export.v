(** Determ/Export.v — stateBuffer.export (state/statedb/statebuffer.go): the latest entry of
    every key is collected by ranging over the Go map [buffer.indexes] and the slice is
    sorted by key (sort.Slice with HashID.Compare == -1) before the trie update.  The
    iteration order of the map is the parameter [order]; the exported list does not depend
    on it and its keys are strictly ascending (the precondition of Trie.Update, C10). *)
From Coq Require Import ZArith NArith List Bool Permutation Sorted Lia.
From Verif Require Import Gov.Model Gov.VoteOrder Determ.Sorting.
Import ListNotations.

Definition key := list N.                      (* 32-byte HashID *)
Definition entry := (key * list N)%type.       (* (key, value hash) *)

(** bufs[i].KeyID().Compare(bufs[j].KeyID()) == -1 *)
Definition key_ltb (x y : entry) : bool := bytes_gt (fst y) (fst x).

(** [order]: the entries in the order the map iteration produced them *)
Definition export (order : list entry) : list entry := isort key_ltb order.

Lemma key_ltb_irrefl : irreflexive key_ltb.
Proof. intros x. apply bytes_gt_irrefl. Qed.
Lemma key_ltb_trans : transitive key_ltb.
Proof. intros x y z H1 H2. unfold key_ltb in *. eapply bytes_gt_trans; eauto. Qed.

Lemma nodup_keys_distinct (l : list entry) x y :
  NoDup (map fst l) -> In x l -> In y l -> x <> y -> fst x <> fst y.
Proof.
  induction l as [|e l IH]; simpl; intros ND Hx Hy Ne; [tauto|].
  inversion ND as [|? ? N0 ND']; subst.
  destruct Hx as [->|Hx], Hy as [->|Hy].
  - congruence.
  - intros E. apply N0. rewrite E. now apply in_map.
  - intros E. apply N0. rewrite <- E. now apply in_map.
  - now apply IH.
Qed.

Lemma key_ltb_total (l : list entry) : NoDup (map fst l) -> total_on key_ltb (fun e => In e l).
Proof.
  intros ND x y Hx Hy Ne. unfold key_ltb.
  assert (D : fst x <> fst y) by (eapply nodup_keys_distinct; eauto).
  destruct (bytes_gt_total (fst x) (fst y) D); auto.
Qed.

Lemma nodup_of_keys (l : list entry) : NoDup (map fst l) -> NoDup l.
Proof.
  induction l as [|e l IH]; simpl; intros ND; [constructor|].
  inversion ND as [|? ? N0 ND']; subst. constructor; auto. intros H. apply N0. now apply in_map.
Qed.

(** (b) the exported list does not depend on the map iteration order *)
Theorem export_order_independent (order1 order2 : list entry) :
  NoDup (map fst order1) -> Permutation order1 order2 -> export order1 = export order2.
Proof.
  intros ND P. unfold export.
  apply (sort_order_independent key_ltb (fun e => In e order1)); auto using key_ltb_irrefl, key_ltb_trans, key_ltb_total, nodup_of_keys.
  apply Forall_forall. auto.
Qed.

(** whatever sort.Slice does (it is not stable), its output is that list *)
Theorem export_is_any_go_sort (order out : list entry) :
  NoDup (map fst order) -> Permutation order out -> go_sorted key_ltb out -> out = export order.
Proof.
  intros ND P S. unfold export.
  apply (go_sort_is_isort key_ltb (fun e => In e order)); auto using key_ltb_irrefl, key_ltb_trans, key_ltb_total, nodup_of_keys.
  apply Forall_forall. auto.
Qed.

(** keys of the exported batch are strictly ascending (so duplicate free) *)
Theorem export_sorted_nodup (order : list entry) :
  NoDup (map fst order) -> strictly_sorted key_ltb (export order) /\ Permutation order (export order).
Proof.
  intros ND. split; [|apply isort_perm].
  apply (go_sorted_strict key_ltb (fun e => In e order)); auto using key_ltb_irrefl, key_ltb_trans, key_ltb_total.
  - apply Forall_forall. intros x Hx. eapply Permutation_in; [symmetry; apply isort_perm | exact Hx].
  - eapply Permutation_NoDup; [apply isort_perm | now apply nodup_of_keys].
  - apply isort_go_sorted; auto using key_ltb_irrefl, key_ltb_trans.
Qed.

Example export_example :
  export [([3;1]%N, [9]%N); ([1;2]%N, [8]%N); ([2]%N, [7]%N)] = export [([2]%N, [7]%N); ([3;1]%N, [9]%N); ([1;2]%N, [8]%N)].
Proof. reflexivity. Qed.

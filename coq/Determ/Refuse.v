(** Determ/Refuse.v — what discards the residue that an executed-but-not-connected block leaves in
    the process-wide governance state (system.votingPowerRank, systemParams "next" values).

    Discard paths at HEAD:
    - a block REFUSED by the validator (chain.executeBlock: [ex.execute()] fails, e.g. wrong state
      root or a failing transaction): [cs.Update(bestBlock)] = dpos.Status.Update on the block the
      status already stands on = its rollback branch: InitVPR(state of best) + CommitParams(false).
      COVERED: [refused_block_leaves_no_residue].
    - a reorganisation: Status.Update(branch root) takes the same rollback branch.  COVERED (same
      function [rollback_update]).
    - a block the PRODUCER built but could not connect: nothing is called.  NOT covered: known
      finding F12 ([VprProofs.exec_depends_on_memory_refuted]).
    The seeded variant (seeded/C02-r4) skips the reload when the status already stands on the
    target block, i.e. exactly in the first case: [refused_block_keeps_residue_seeded_refuted]. *)
From Coq Require Import ZArith NArith List Bool Lia.
From Verif Require Import Gov.Model Gov.VprProofs.
Import ListNotations.
Open Scope Z_scope.

(** Status.Update, rollback branch (status.go:95-122): the voting power rank is rebuilt from the
    state of the target block, pending parameter values are dropped (current ones are kept) *)
Definition rollback_update (d : durable) (m : memory) : memory :=
  {| m_pcur := m_pcur m; m_pnext := []; m_vpr := load_vpr (d_vpr d) |}.

(** the validator executes the transactions of block X on a block state of its own (the durable
    state of the node is not touched until commit) *)
Definition exec_txs (c : cfg) (g : gstate) (txs : list tx) : gstate :=
  fold_left (fun g t => snd (step c g (OTx t))) txs g.

(** ... refuses it, and calls cs.Update(bestBlock) *)
Definition refuse_block (c : cfg) (g : gstate) (xs : list tx) : gstate :=
  {| g_no := g_no g; g_d := g_d g; g_m := rollback_update (g_d g) (g_m (exec_txs c g xs)) |}.

(** seeded: the reload is skipped because the status already stands on the best block *)
Definition refuse_block_seeded (c : cfg) (g : gstate) (xs : list tx) : gstate :=
  {| g_no := g_no g; g_d := g_d g;
     g_m := {| m_pcur := m_pcur (g_m (exec_txs c g xs)); m_pnext := []; m_vpr := m_vpr (g_m (exec_txs c g xs)) |} |}.

(* ---------------------------------------------------------------- executing never changes the CURRENT parameters *)
Lemma sync_pcur c issue rmap ext d m :
  match sync c issue rmap ext d m with SyncOk _ m' => m_pcur m' = m_pcur m | SyncPanic m' => m_pcur m' = m_pcur m end.
Proof.
  unfold sync. destruct (vpr_apply _ _ _) as [v' disk']. destruct (is_ex issue); [|reflexivity].
  destruct (build_vote_list (c_fixed c) rmap) as [|[topc topa] l]; [reflexivity|].
  destruct (threshold _ topa) as [th|]; [|reflexivity].
  destruct th; [destruct (parse_dec topc)|]; reflexivity.
Qed.

Lemma vcmd_sub_pcur c who old rmap ext m r t m' : vcmd_sub c who old rmap ext m = Some (r, t, m') -> m_pcur m' = m_pcur m.
Proof. unfold vcmd_sub. destruct (rmap_sub _ _ rmap); [|discriminate]. intros [= _ _ <-]. destruct (c_ver c <? 2); reflexivity. Qed.

Lemma vcmd_add_pcur c who nv rmap ext m : m_pcur (snd (vcmd_add c who nv rmap ext m)) = m_pcur m.
Proof. unfold vcmd_add. cbn [snd]. destruct (c_ver c <? 2); reflexivity. Qed.

Lemma exec_vote_pcur c no d m who issue cands : m_pcur (snd (exec_vote c no d m who issue cands)) = m_pcur m.
Proof.
  unfold exec_vote.
  destruct (st_amount (get_stake d who) =? 0); [reflexivity|].
  destruct (_ && _); [reflexivity|]. destruct (_ && _); [reflexivity|].
  destruct (vcmd_sub c who (get_vote d issue who) (get_result d issue) (getZ issue (d_vtotals d)) m) as [[[r1 t1] m1]|] eqn:Sb; [|reflexivity].
  pose proof (vcmd_sub_pcur _ _ _ _ _ _ _ _ _ Sb) as P1.
  match goal with |- context [vcmd_add c who ?nv r1 t1 m1] =>
    pose proof (vcmd_add_pcur c who nv r1 t1 m1) as P2; destruct (vcmd_add c who nv r1 t1 m1) as [[r2 t2] m2] end.
  cbn [snd] in P2.
  match goal with |- context [sync c issue r2 t2 ?D m2] => pose proof (sync_pcur c issue r2 t2 D m2) as P3; destruct (sync c issue r2 t2 D m2) end;
    cbn [snd]; congruence.
Qed.

Lemma refresh_one_pcur c who staked issue acc : m_pcur (snd (refresh_one c who staked issue acc)) = m_pcur (snd acc).
Proof.
  destruct acc as [[e d] m]. unfold refresh_one. destruct e; try reflexivity.
  destruct (get_vote d issue who) as [old|]; [|reflexivity].
  destruct (vt_amount old <=? staked); [reflexivity|].
  destruct (vcmd_sub c who (Some old) (get_result d issue) (getZ issue (d_vtotals d)) m) as [[[r1 t1] m1]|] eqn:Sb; [|reflexivity].
  pose proof (vcmd_sub_pcur _ _ _ _ _ _ _ _ _ Sb) as P1.
  match goal with |- context [vcmd_add c who ?nv r1 t1 m1] =>
    pose proof (vcmd_add_pcur c who nv r1 t1 m1) as P2; destruct (vcmd_add c who nv r1 t1 m1) as [[r2 t2] m2] end.
  cbn [snd] in P2.
  match goal with |- context [sync c issue r2 t2 ?D m2] => pose proof (sync_pcur c issue r2 t2 D m2) as P3; destruct (sync c issue r2 t2 D m2) end;
    cbn [snd]; congruence.
Qed.

Lemma refresh_fold_pcur c who staked : forall l acc,
  m_pcur (snd (fold_left (fun acc issue => refresh_one c who staked issue acc) l acc)) = m_pcur (snd acc).
Proof. induction l as [|i l IH]; intros acc; cbn [fold_left]; auto. rewrite IH. apply refresh_one_pcur. Qed.

Lemma exec_tx_pcur c no d m t : m_pcur (snd (exec_tx c no d m t)) = m_pcur m.
Proof.
  destruct t as [who amt|who amt|who cands|who oi vals]; cbn [exec_tx].
  - unfold exec_stake. destruct (bal_of d who <? amt); [reflexivity|]. destruct (_ && _); [reflexivity|].
    destruct (_ <? staking_min c m); reflexivity.
  - unfold exec_unstake.
    destruct (st_amount (get_stake d who) =? 0); [reflexivity|].
    destruct (st_amount (get_stake d who) <? amt); [reflexivity|].
    destruct (no <? _); [reflexivity|]. destruct (_ && _); [reflexivity|].
    match goal with |- context [fold_left (fun acc issue => refresh_one c who ?st issue acc) catalog ?a] =>
      pose proof (refresh_fold_pcur c who st catalog a) as P;
      destruct (fold_left (fun acc issue => refresh_one c who st issue acc) catalog a) as [[e2 d2] m2] end.
    cbn [snd] in P. destruct e2; cbn [snd]; try exact P.
    cbn [d_sysbal set_total]. destruct (d_sysbal d2 <? _); cbn [snd]; exact P.
  - apply exec_vote_pcur.
  - destruct (c_ver c <? 2); [reflexivity|]. destruct (match vals with [] => true | _ :: _ => false end); [reflexivity|].
    destruct oi as [i|]; [|reflexivity]. destruct (1 <? Z.of_nat (length vals)); [reflexivity|].
    destruct (all_valid_cands i vals); [reflexivity|]. apply exec_vote_pcur.
Qed.

Lemma step_tx_pcur c g t : m_pcur (g_m (snd (step c g (OTx t)))) = m_pcur (g_m g).
Proof.
  unfold step, apply_tx. pose proof (exec_tx_pcur c (g_no g) (g_d g) (g_m g) t) as P.
  destruct (exec_tx c (g_no g) (g_d g) (g_m g) t) as [[e d'] m']. cbn [snd] in P. destruct e; cbn [snd g_m]; exact P.
Qed.

Lemma exec_txs_pcur c : forall xs g, m_pcur (g_m (exec_txs c g xs)) = m_pcur (g_m g).
Proof. unfold exec_txs. induction xs as [|t xs IH]; intros g; cbn [fold_left]; auto. rewrite IH. apply step_tx_pcur. Qed.

(** A block that was executed and then refused leaves NO residue: the node is in the state of a
    node on which only Update(best) ran — whatever the refused block contained. *)
Theorem refused_block_leaves_no_residue c g xs : refuse_block c g xs = refuse_block c g [].
Proof. unfold refuse_block, rollback_update. rewrite exec_txs_pcur. reflexivity. Qed.

(** so every following block executes on node A (which refused X) exactly as on a node that
    never saw X *)
Corollary valid_sibling_after_refused_block c g xs ys :
  exec_txs c (refuse_block c g xs) ys = exec_txs c (refuse_block c g []) ys.
Proof. now rewrite refused_block_leaves_no_residue. Qed.

(** seeded: the refused block's changes of the rank stay in memory and the valid sibling applies
    them a second time *)
Theorem refused_block_keeps_residue_seeded_refuted :
  exists c g xs ys,
    g_m g = reload c (g_d g) /\
    disk_total (d_vpr (g_d (exec_txs c (refuse_block_seeded c g xs) ys)))
    <> disk_total (d_vpr (g_d (exec_txs c (refuse_block_seeded c g []) ys))).
Proof.
  exists f12_cfg, f12_g1, [f12_vote], [f12_vote]. split; [exact f12_clean_boundary|].
  vm_compute. discriminate.
Qed.

Example refused_then_valid_example :
  g_d (exec_txs f12_cfg (refuse_block f12_cfg f12_g1 [f12_vote]) [f12_vote]) = g_d (exec_txs f12_cfg f12_g1 [f12_vote]).
Proof. vm_compute. reflexivity. Qed.

(** Determ/Shapes.v — the inventory of nondeterminism sources emitted by gen/gen_mapranges
    (coq/Gen/MapRanges.v) and the checker [sites_ok] that Properties/C02.v evaluates on it.

    A site is accepted only through a *shape* for which an order-independence lemma is proved
    here ([shape_ok_sound]): the boolean [shape_ok] cannot be extended without extending the
    inductive [justified], each constructor of which demands the lemma.

    Sites the translator cannot shape syntactically ([Unknown]) are looked up in the table
    [reviewed] (keyed by file, function and ranged expression — not by line), which records a
    manual reading of the loop body; that table is part of the trusted base and is listed in
    notes/g8-gov.md.  A site that is neither shaped nor reviewed — e.g. a new unsorted map
    iteration — stays [Unknown] and [sites_ok] is false.  Sites that ARE order dependent are
    not in the table: they are listed in [finding_sites] and reported as findings by
    checks/C02.py on every run. *)
From Coq Require Import String List NArith ZArith Bool Permutation Lia.
From Verif Require Import Gov.Model Determ.Sorting.
Import ListNotations.
Open Scope string_scope.

Inductive kind := KMapRange | KTimeNow | KRand | KSelect.
Inductive shape :=
| CollectThenSort | PerKeyIndependentWrite | DeleteOnly | LoggingOnly | ReadOnlyAggregate
| ProducerChoice | Unknown.

Record site := mk_site {
  s_file : string; s_line : N; s_func : string; s_kind : kind; s_shape : shape; s_operand : string }.

(* ------------------------------------------------------------------ the lemmas behind the shapes *)
Section PerKey.
  Context {K V : Type} (eqb : K -> K -> bool).
  Hypothesis eqb_eq : forall a b, eqb a b = true <-> a = b.

  (** a store addressed by key; a loop body that writes only the slot of the loop key *)
  Definition upd (k : K) (v : option V) (m : K -> option V) : K -> option V :=
    fun k' => if eqb k' k then v else m k'.
  Definition run_writes (l : list (K * option V)) (m : K -> option V) : K -> option V :=
    fold_left (fun m kv => upd (fst kv) (snd kv) m) l m.

  Lemma run_writes_notin l : forall m k, ~ In k (map fst l) -> run_writes l m k = m k.
  Proof.
    induction l as [|[k0 v0] l IH]; intros m k H; simpl; auto.
    unfold run_writes in *. simpl. rewrite IH by (intros H2; apply H; now right).
    unfold upd. simpl. destruct (eqb k k0) eqn:E; auto. apply eqb_eq in E. subst. exfalso. apply H. now left.
  Qed.

  Lemma run_writes_in l : forall m k v, NoDup (map fst l) -> In (k, v) l -> run_writes l m k = v.
  Proof.
    induction l as [|[k0 v0] l IH]; intros m k v ND H; [destruct H|].
    inversion ND as [|? ? N0 ND']; subst. unfold run_writes in *. simpl.
    destruct H as [[= -> ->]|H].
    - fold (run_writes l (upd k (v) m)). rewrite run_writes_notin by exact N0.
      unfold upd. destruct (eqb k k) eqn:E; auto. assert (eqb k k = true) by (now apply eqb_eq). congruence.
    - now apply IH.
  Qed.

  Lemma key_dec (a b : K) : {a = b} + {a <> b}.
  Proof.
    destruct (eqb a b) eqn:E; [left; now apply eqb_eq | right].
    intros H. apply eqb_eq in H. congruence.
  Qed.

  (** PerKeyIndependentWrite / DeleteOnly: the resulting store does not depend on the order in
      which the (distinct) keys of the map are visited *)
  Theorem per_key_writes_order_independent l1 l2 m :
    NoDup (map fst l1) -> Permutation l1 l2 -> forall k, run_writes l1 m k = run_writes l2 m k.
  Proof.
    intros ND P k.
    assert (ND2 : NoDup (map fst l2)) by (eapply Permutation_NoDup; [apply Permutation_map; exact P | exact ND]).
    destruct (in_dec key_dec k (map fst l1)) as [I|N].
    - apply in_map_iff in I. destruct I as ([k' v] & E & I). simpl in E. subst k'.
      rewrite (run_writes_in l1 m k v ND I).
      symmetry. apply run_writes_in; auto. eapply Permutation_in; eauto.
    - rewrite run_writes_notin by exact N. symmetry. apply run_writes_notin.
      intros H. apply N. eapply Permutation_in; [symmetry; apply Permutation_map; exact P | exact H].
  Qed.
End PerKey.

(** LoggingOnly: the loop does not touch the state *)
Theorem logging_only_no_effect {A S : Type} (l : list A) (s : S) : fold_left (fun s _ => s) l s = s.
Proof. induction l; simpl; auto. Qed.

(** ReadOnlyAggregate: a commutative-associative accumulation (sums) *)
Theorem aggregate_order_independent (l1 l2 : list Z) (z : Z) :
  Permutation l1 l2 -> fold_left Z.add l1 z = fold_left Z.add l2 z.
Proof.
  intros P. revert z. induction P; intros z; simpl; auto.
  - f_equal. lia.
  - now rewrite IHP1.
Qed.

(** each accepted shape carries its lemma *)
Inductive justified : shape -> Prop :=
| j_collect :
    (forall (A : Type) (ltb : A -> A -> bool) (P : A -> Prop),
       irreflexive ltb -> transitive ltb -> total_on ltb P ->
       forall l1 l2, Forall P l1 -> NoDup l1 -> Permutation l1 l2 -> isort ltb l1 = isort ltb l2) ->
    justified CollectThenSort
| j_perkey :
    (forall (K V : Type) (eqb : K -> K -> bool), (forall a b, eqb a b = true <-> a = b) ->
       forall (l1 l2 : list (K * option V)) m, NoDup (map fst l1) -> Permutation l1 l2 ->
       forall k, run_writes eqb l1 m k = run_writes eqb l2 m k) ->
    justified PerKeyIndependentWrite
| j_delete :
    (forall (K V : Type) (eqb : K -> K -> bool), (forall a b, eqb a b = true <-> a = b) ->
       forall (l1 l2 : list (K * option V)) m, NoDup (map fst l1) -> Permutation l1 l2 ->
       forall k, run_writes eqb l1 m k = run_writes eqb l2 m k) ->
    justified DeleteOnly
| j_logging :
    (forall (A S : Type) (l : list A) (s : S), fold_left (fun s _ => s) l s = s) ->
    justified LoggingOnly
| j_aggregate :
    (forall l1 l2 z, Permutation l1 l2 -> fold_left Z.add l1 z = fold_left Z.add l2 z) ->
    justified ReadOnlyAggregate.

Definition shape_ok (sh : shape) : bool :=
  match sh with
  | CollectThenSort | PerKeyIndependentWrite | DeleteOnly | LoggingOnly | ReadOnlyAggregate => true
  | ProducerChoice | Unknown => false
  end.

Theorem shape_ok_sound sh : shape_ok sh = true -> justified sh.
Proof.
  destruct sh; simpl; try discriminate; intros _.
  - apply j_collect. intros. eapply sort_order_independent; eauto.
  - apply j_perkey. intros. eapply per_key_writes_order_independent; eauto.
  - apply j_delete. intros. eapply per_key_writes_order_independent; eauto.
  - apply j_logging. intros. apply logging_only_no_effect.
  - apply j_aggregate. intros. now apply aggregate_order_independent.
Qed.

(* ------------------------------------------------------------------ manual readings *)
(** (file, function, ranged expression) -> shape established by reading the body.
    Every entry is explained in notes/g8-gov.md. *)
Definition reviewed : list (string * string * string * shape) := [
  (* elapsed-time metric only (types.AvgTxVerifyTime is never read) *)
  ("chain/signVerifier.go", "(*SignVerifier).RequestVerifyTxs$2", "time.Now()", LoggingOnly);
  (* per sqlite DB: rollback + close + delete the entry *)
  ("contract/statesql.go", "CloseDatabase", "database.DBs", PerKeyIndependentWrite);
  (* per sqlite DB: commit + PutState keyed by that DB's account *)
  ("contract/statesql.go", "SaveRecoveryPoint", "database.DBs", PerKeyIndependentWrite);
  (* per voter: powers[id], bucket(id) kept ordered by id, commutative total (Gov/VprProofs.v) *)
  ("contract/system/vprt.go", "(*vpr).apply", "v.changes", PerKeyIndependentWrite);
  (* per bucket: SetData(SystemVpr(i)) (Gov/VprProofs.write_rows_get) *)
  ("contract/system/vprt.go", "(*vpr).apply", "updRows", PerKeyIndependentWrite);
  (* per called contract: stage its state / PutState keyed by its account; the second range
     only writes the debug trace file *)
  ("contract/vm.go", "(*executor).commitCalledContract", "ctx.callState", PerKeyIndependentWrite);
  ("contract/vm.go", "(*executor).rollbackToSavepoint", "ctx.callState", PerKeyIndependentWrite);
  (* txn.Set(hash(value), value): content addressed *)
  ("state/statedb/statebuffer.go", "(*stateBuffer).stage", "buffer.indexes", PerKeyIndependentWrite);
  (* per account: update its own storage trie, put one entry keyed by the account id *)
  ("state/statedb/statedb.go", "(*StateDB).updateStorage", "states.Cache.storages", PerKeyIndependentWrite);
  ("state/statedb/statedb.go", "(*StateDB).Commit", "states.Cache.storages", PerKeyIndependentWrite);
  ("state/statedb/storage.go", "(*storageCache).Snapshot", "cache.storages", PerKeyIndependentWrite);
  ("state/statedb/storage.go", "(*storageCache).Rollback", "cache.storages", PerKeyIndependentWrite)
].

(** which of the producer's candidate transactions end up in its own block (time-out /
    quit race): covered by produce_validate_agree, not by an order-independence lemma *)
Definition producer_choice_sites : list (string * string) := [
  ("consensus/impl/dpos/blockfactory.go", "(*BlockFactory).checkBpTimeout")
].

(** order dependent today: reported as findings by checks/C02.py, never accepted here *)
Definition finding_sites : list (string * string * string) := [
  ("contract/vm.go", "toLuaTable", "C02:toLuaTable-map-order-before-v3")
].

Fixpoint lookup_reviewed (f fn op : string) (t : list (string * string * string * shape)) : shape :=
  match t with
  | [] => Unknown
  | (f', fn', op', sh) :: r => if (String.eqb f f' && String.eqb fn fn' && String.eqb op op')%bool then sh else lookup_reviewed f fn op r
  end.

Definition is_finding (s : site) : bool :=
  existsb (fun '(f, fn, _) => (String.eqb (s_file s) f && String.eqb (s_func s) fn)%bool) finding_sites.
Definition is_producer_choice (s : site) : bool :=
  existsb (fun '(f, fn) => (String.eqb (s_file s) f && String.eqb (s_func s) fn)%bool) producer_choice_sites.

Definition effective_shape (s : site) : shape :=
  match s_shape s with
  | Unknown => lookup_reviewed (s_file s) (s_func s) (s_operand s) reviewed
  | sh => sh
  end.

Definition site_ok (s : site) : bool :=
  is_finding s || is_producer_choice s || shape_ok (effective_shape s).

Definition sites_ok (l : list site) : bool := forallb site_ok l.
Definition sites_failing (l : list site) : list site := filter (fun s => negb (site_ok s)) l.
Definition sites_findings (l : list site) : list site := filter is_finding l.

Theorem sites_ok_sound l :
  sites_ok l = true ->
  forall s, In s l -> is_finding s = true \/ is_producer_choice s = true \/ justified (effective_shape s).
Proof.
  unfold sites_ok. rewrite forallb_forall. intros H s Hs. specialize (H s Hs).
  unfold site_ok in H. apply orb_true_iff in H. destruct H as [H|H].
  - apply orb_true_iff in H. tauto.
  - right. right. now apply shape_ok_sound.
Qed.

Example unknown_site_rejected :
  sites_ok [mk_site "contract/system/vote.go" 1 "newUnsortedLoop" KMapRange Unknown "someMap"] = false.
Proof. reflexivity. Qed.

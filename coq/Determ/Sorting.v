(** Determ/Sorting.v — what "collect from a Go map in arbitrary order, then sort" computes.

    [sorted_perm_unique]: for a strict total order, two sorted lists with the same elements
    are equal — so the result of sort.Sort/sort.Slice over a list collected from a map does
    not depend on the iteration order *provided the comparator is a strict total order on
    the elements present*.  (Go's sort package guarantees only that the result is a
    permutation of the input in which no element is Less than its predecessor.) *)
From Coq Require Import List Bool Permutation Sorted Lia Arith.
From Verif Require Import Gov.Model.
Import ListNotations.

Section Order.
  Context {A : Type} (ltb : A -> A -> bool).

  Definition irreflexive := forall x, ltb x x = false.
  Definition transitive := forall x y z, ltb x y = true -> ltb y z = true -> ltb x z = true.
  (** total on the elements of a given carrier *)
  Definition total_on (P : A -> Prop) := forall x y, P x -> P y -> x <> y -> ltb x y = true \/ ltb y x = true.

  (** what Go's sort guarantees: no element is Less than its predecessor *)
  Definition go_sorted (l : list A) : Prop := Sorted (fun x y => ltb y x = false) l.

  (** strictly ascending *)
  Definition strictly_sorted (l : list A) : Prop := StronglySorted (fun x y => ltb x y = true) l.

  Lemma strictly_sorted_perm_unique :
    irreflexive -> transitive ->
    forall l1 l2, strictly_sorted l1 -> strictly_sorted l2 -> Permutation l1 l2 -> l1 = l2.
  Proof.
    intros Hirr Htr. induction l1 as [|x l1 IH]; intros l2 S1 S2 P.
    - apply Permutation_nil in P. now subst.
    - destruct l2 as [|y l2]. { symmetry in P. apply Permutation_nil in P. discriminate. }
      inversion S1 as [|? ? S1' F1]; subst. inversion S2 as [|? ? S2' F2]; subst.
      assert (x = y) as ->.
      { assert (Hx : In x (y :: l2)) by (eapply Permutation_in; [exact P | now left]).
        assert (Hy : In y (x :: l1)) by (eapply Permutation_in; [symmetry; exact P | now left]).
        destruct Hx as [->|Hx]; [reflexivity|]. destruct Hy as [->|Hy]; [reflexivity|].
        rewrite Forall_forall in F1, F2.
        specialize (F1 _ Hy). specialize (F2 _ Hx).
        pose proof (Htr _ _ _ F1 F2) as C. rewrite Hirr in C. discriminate. }
      f_equal. apply IH; auto. eapply Permutation_cons_inv; eauto.
  Qed.

  (** with totality, Go-sortedness of a duplicate-free list is strict sortedness *)
  Lemma go_sorted_strict (P : A -> Prop) :
    irreflexive -> transitive -> total_on P ->
    forall l, Forall P l -> NoDup l -> go_sorted l -> strictly_sorted l.
  Proof.
    intros Hirr Htr Htot. induction l as [|x l IH]; intros FP ND S.
    - constructor.
    - inversion FP as [|? ? Px FP']; subst. inversion ND as [|? ? Nx ND']; subst.
      inversion S as [|? ? S' Hd]; subst.
      specialize (IH FP' ND' S').
      constructor; [exact IH|].
      destruct l as [|y l]; [constructor|].
      inversion Hd as [|? ? Hxy]; subst.
      inversion FP' as [|? ? Py FPl]; subst.
      assert (Lxy : ltb x y = true).
      { destruct (Htot x y Px Py) as [H|H]; auto.
        - intros ->. apply Nx. now left.
        - congruence. }
      constructor; [exact Lxy|].
      inversion IH as [|? ? _ Fy]; subst.
      rewrite Forall_forall in *. intros z Hz. eapply Htr; [exact Lxy|]. now apply Fy.
  Qed.

  Theorem sorted_perm_unique (P : A -> Prop) :
    irreflexive -> transitive -> total_on P ->
    forall l1 l2, Forall P l1 -> NoDup l1 ->
      go_sorted l1 -> go_sorted l2 -> Permutation l1 l2 -> l1 = l2.
  Proof.
    intros Hirr Htr Htot l1 l2 FP ND S1 S2 Pm.
    assert (FP2 : Forall P l2).
    { rewrite Forall_forall in *. intros x Hx. apply FP. eapply Permutation_in; [symmetry; exact Pm | exact Hx]. }
    assert (ND2 : NoDup l2) by (eapply Permutation_NoDup; eauto).
    apply strictly_sorted_perm_unique; auto; eapply go_sorted_strict; eauto.
  Qed.

  (* ---------------------------------------------------------------- insertion sort *)
  Lemma insert_sorted_perm x l : Permutation (x :: l) (insert_sorted ltb x l).
  Proof.
    induction l as [|y l IH]; simpl; [reflexivity|].
    destruct (ltb y x); [|reflexivity].
    etransitivity; [apply perm_swap|]. now constructor.
  Qed.

  Lemma isort_perm l : Permutation l (isort ltb l).
  Proof.
    induction l as [|x l IH]; simpl; [constructor|].
    etransitivity; [|apply insert_sorted_perm]. now constructor.
  Qed.

  Lemma insert_sorted_go_sorted x l :
    irreflexive -> transitive -> go_sorted l -> go_sorted (insert_sorted ltb x l).
  Proof.
    intros Hirr Htr. induction l as [|y l IH]; intros S; simpl.
    - repeat constructor.
    - destruct (ltb y x) eqn:E.
      + inversion S as [|? ? S' Hd]; subst. constructor; [now apply IH|].
        destruct l as [|z l]; simpl.
        * constructor. destruct (ltb x y) eqn:E2; auto.
          pose proof (Htr _ _ _ E E2) as C. rewrite Hirr in C. discriminate.
        * destruct (ltb z x) eqn:E3.
          -- inversion Hd; subst. now constructor.
          -- constructor. destruct (ltb x y) eqn:E2; auto.
             pose proof (Htr _ _ _ E E2) as C. rewrite Hirr in C. discriminate.
      + constructor; [exact S|]. constructor. exact E.
  Qed.

  Lemma isort_go_sorted l : irreflexive -> transitive -> go_sorted (isort ltb l).
  Proof.
    intros Hirr Htr. induction l as [|x l IH]; simpl; [constructor|].
    now apply insert_sorted_go_sorted.
  Qed.

  (** the result of "collect in any order, then sort" is the insertion sort of any listing *)
  Theorem sort_order_independent (P : A -> Prop) :
    irreflexive -> transitive -> total_on P ->
    forall l1 l2, Forall P l1 -> NoDup l1 -> Permutation l1 l2 -> isort ltb l1 = isort ltb l2.
  Proof.
    intros Hirr Htr Htot l1 l2 FP ND Pm.
    apply (sorted_perm_unique P); auto.
    - rewrite Forall_forall in *. intros x Hx. apply FP. eapply Permutation_in; [symmetry; apply isort_perm | exact Hx].
    - eapply Permutation_NoDup; [apply isort_perm | exact ND].
    - now apply isort_go_sorted.
    - now apply isort_go_sorted.
    - etransitivity; [symmetry; apply isort_perm|]. etransitivity; [exact Pm|]. apply isort_perm.
  Qed.

  (** and any output of Go's sort on any listing is that list *)
  Theorem go_sort_is_isort (P : A -> Prop) :
    irreflexive -> transitive -> total_on P ->
    forall l out, Forall P l -> NoDup l -> Permutation l out -> go_sorted out -> out = isort ltb l.
  Proof.
    intros Hirr Htr Htot l out FP ND Pm S.
    symmetry. apply (sorted_perm_unique P); auto.
    - rewrite Forall_forall in *. intros x Hx. apply FP. eapply Permutation_in; [symmetry; apply isort_perm | exact Hx].
    - eapply Permutation_NoDup; [apply isort_perm | exact ND].
    - now apply isort_go_sorted.
    - etransitivity; [symmetry; apply isort_perm | exact Pm].
  Qed.
End Order.

(** C09 model, chain-service level: the acceptance pipeline of a block received from the
    network, in the ORDER the code performs the checks.

    chain/chainhandle.go   addBlock (errBlocks cache, IsConnectedBlock), addBlockInternal
                           (VerifyTimestamp, ValidChildOf, VerifySign, isOrphan/handleOrphan,
                           newChainProcessor, run, reorganize), chainProcessor.run / execute /
                           addBlock / connectToChain, executeBlock (IsBlockValid, Update),
                           resolveOrphan
    chain/chaindb.go       isMainChain
    chain/orphanpool.go    addOrphan (one entry per parent, first wins, capacity, oldest evicted)
    chain/reorg.go         needReorg, gather, rollback, rollforward, swapChain (main chain only)
    consensus/impl/dpos/dpos.go  VerifyTimestamp (future test), VerifySign (bit), IsBlockValid
                           (Slot.v is_block_valid), Update (producer set := cluster_of block)

    A block is the tuple the property talks about: id (hash), parent id, signer (key in the
    header), timestamp, sig_ok (ECDSA oracle bit for "the signature verifies over the header
    with the key in the header"), header number, plus two bits abstracting what C09 does not
    look into: cid_ok (ValidChildOf: same chain id as the best block) and exec_ok (validation
    of the body + execution + state root, C01-C04).  No proofs here.

    Not modelled: the LIB part of DPoS.VerifyTimestamp / NeedReorganization (C08), blocks
    produced by the node itself (usedBState <> nil; C05 models that path), eviction from the
    errBlocks LRU (128 entries), raft's checkFork. *)
From Coq Require Import ZArith List Bool.
From Verif Require Import Dpos.Slot.
Import ListNotations.
Open Scope Z_scope.

Record block := { b_id : Z; b_parent : Z; b_signer : Z; b_ts : Z; b_sig : bool; b_no : Z;
                  b_cid : bool; b_exec : bool }.

(** result classes of ChainService.addBlock *)
Definition R_ok : Z := 0.          (* nil: connected (main chain or side branch) *)
Definition R_already : Z := 1.     (* nil: "block is already connected" *)
Definition R_parked : Z := 2.      (* nil: orphan pool *)
Definition R_cached : Z := 10.     (* ErrBlockCachedErrLRU *)
Definition R_future : Z := 11.     (* errBlockTimestamp, not cached *)
Definition R_chainid : Z := 12.    (* invalid chain id, not cached *)
Definition R_badsig : Z := 13.     (* bad block signature, cached *)
Definition R_invalid : Z := 14.    (* IsBlockValid failed while connecting, cached *)
Definition R_exec : Z := 15.       (* execution failed, cached *)
Definition R_orphan_no : Z := 16.  (* invalid orphan block no, cached *)
Definition R_reorg_gather : Z := 17. (* ErrReorg: gather failed *)
Definition R_reorg_fwd : Z := 18.  (* ErrReorg: a branch block failed in rollforward *)
Definition R_fuel : Z := 99.       (* unreachable (fuel = pool / store size) *)
Definition is_err (r : Z) : bool := 10 <=? r.

(** consensus calls made by the chain service, flattened: 1 id = VerifyTimestamp,
    5 id = VerifySign, 6 id u = IsBlockValid of block id with the producer set of u,
    3 id = Update, 2 no = NeedReorganization *)

Record node := { n_store : list block;   (* chain DB: every block cdb.getBlock finds (main + side) *)
                 n_main : list block;    (* main chain, best block first, genesis last *)
                 n_orph : list block;    (* orphan pool, oldest first, one per parent id *)
                 n_errs : list Z;        (* errBlocks *)
                 n_upd : Z }.            (* block of the last consensus Update *)

Definition find_id (l : list block) (i : Z) : option block := find (fun b => b_id b =? i) l.
Definition find_no (l : list block) (n : Z) : option block := find (fun b => b_no b =? n) l.
Definition find_child (l : list block) (pid : Z) : option block := find (fun b => b_parent b =? pid) l.
Definition remove_child (l : list block) (pid : Z) : list block := filter (fun b => negb (b_parent b =? pid)) l.
Definition has_id (l : list block) (i : Z) : bool := existsb (fun b => b_id b =? i) l.
Definition mem_z (i : Z) (l : list Z) : bool := existsb (Z.eqb i) l.
Fixpoint drop_until (i : Z) (l : list block) : list block :=
  match l with
  | [] => []
  | b :: tl => if b_id b =? i then l else drop_until i tl
  end.

Section Accept.
  Variable iv : Z.                       (* slot interval, ms *)
  Variable cluster_of : Z -> list Z.     (* producer set in force after Update(block id) *)
  Variable cap : nat.                    (* orphan pool capacity (>= 1) *)
  Variable genesis : block.
  (** source flag: reorg() also puts the consensus back on the best block when rollforward fails
      (fixes/F42_reorg_restore_consensus.diff, /repo commit 05cfcb8b; false for the code without that repair) *)
  Variable f42 : bool.

  Definition init : node :=
    {| n_store := [genesis]; n_main := [genesis]; n_orph := []; n_errs := []; n_upd := b_id genesis |}.
  Definition best (s : node) : block := hd genesis (n_main s).

  Definition with_upd (s : node) (u : Z) : node :=
    {| n_store := n_store s; n_main := n_main s; n_orph := n_orph s; n_errs := n_errs s; n_upd := u |}.
  Definition with_orph (s : node) (o : list block) : node :=
    {| n_store := n_store s; n_main := n_main s; n_orph := o; n_errs := n_errs s; n_upd := n_upd s |}.
  Definition with_main (s : node) (m : list block) : node :=
    {| n_store := n_store s; n_main := m; n_orph := n_orph s; n_errs := n_errs s; n_upd := n_upd s |}.
  Definition store_block (s : node) (b : block) : node :=
    {| n_store := b :: n_store s; n_main := n_main s; n_orph := n_orph s; n_errs := n_errs s; n_upd := n_upd s |}.
  Definition add_err (s : node) (i : Z) : node :=
    {| n_store := n_store s; n_main := n_main s; n_orph := n_orph s; n_errs := i :: n_errs s; n_upd := n_upd s |}.

  Definition valid_now (s : node) (b : block) : bool :=
    is_block_valid Z.eqb iv (cluster_of (n_upd s)) (b_signer b) (b_ts b).

  (** ChainService.executeBlock: IsBlockValid against the producer set in force, then
      validation + execution (bit); Update(block) on success, Update(best) on failure. *)
  Definition exec_block (s : node) (b : block) : node * Z * list Z :=
    if valid_now s b then
      if b_exec b then (with_upd s (b_id b), R_ok, [6; b_id b; n_upd s; 3; b_id b])
      else (with_upd s (b_id (best s)), R_exec, [6; b_id b; n_upd s; 3; b_id (best s)])
    else (s, R_invalid, [6; b_id b; n_upd s]).

  (** chainProcessor.run, block extends the best block: execute, connectToChain, then the
      parked child of the block just connected (resolveOrphan), and so on. *)
  Fixpoint run_main (fuel : nat) (s : node) (b : block) : node * Z * list Z :=
    let '(s1, r, c1) := exec_block s b in
    if is_err r then (s1, r, c1)
    else
      let s2 := with_main (store_block s1 b) (b :: n_main s1) in
      match find_child (n_orph s2) (b_id b) with
      | None => (s2, R_ok, c1)
      | Some o =>
          if b_no b + 1 =? b_no o then
            match fuel with
            | O => (s2, R_fuel, c1)
            | S f => let '(s3, r3, c3) := run_main f (with_orph s2 (remove_child (n_orph s2) (b_id b))) o in
                     (s3, r3, c1 ++ c3)
            end
          else (s2, R_orphan_no, c1)
      end.

  (** chainProcessor.run, side branch: the block is only stored (cdb.addBlock); result,
      and the last block stored. *)
  Fixpoint run_side (fuel : nat) (s : node) (b : block) : node * Z * block :=
    let s2 := store_block s b in
    match find_child (n_orph s2) (b_id b) with
    | None => (s2, R_ok, b)
    | Some o =>
        if b_no b + 1 =? b_no o then
          match fuel with
          | O => (s2, R_fuel, b)
          | S f => run_side f (with_orph s2 (remove_child (n_orph s2) (b_id b))) o
          end
        else (s2, R_orphan_no, b)
    end.

  (** reorganizer.gather: walk from the branch top towards the main chain; [news] top
      first.  None = one of the gather errors. *)
  Fixpoint gather (fuel : nat) (s : node) (br : block) (news olds : list block)
    : option (block * list block) :=
    let cur := b_no (best s) in
    let brno := b_no br in
    let step (olds' : list block) :=
      if brno <=? 0 then None
      else match find_id (n_store s) (b_parent br) with
           | None => None
           | Some p =>
               if brno - 1 =? b_no p then
                 match fuel with
                 | O => None
                 | S f => gather f s p (news ++ [br]) olds'
                 end
               else None
           end in
    if brno <=? cur then
      match find_no (n_main s) brno with
      | None => None
      | Some m =>
          if b_id br =? b_id m then
            if cur =? brno then None
            else match news, olds with
                 | [], _ => None
                 | _, [] => None
                 | _, _ => Some (br, news)
                 end
          else step (olds ++ [m])
      end
    else step olds.

  (** reorganizer.rollforward over the new branch, oldest block first. *)
  Fixpoint rollforward (s : node) (l : list block) : node * Z * list Z :=
    match l with
    | [] => (s, R_ok, [])
    | b :: tl =>
        let '(s1, r, c1) := exec_block s b in
        if is_err r then (s1, R_reorg_fwd, c1)
        else let '(s2, r2, c2) := rollforward s1 tl in (s2, r2, c1 ++ c2)
    end.

  Definition reorg (s : node) (top : block) : node * Z * list Z :=
    match gather (S (length (n_store s))) s top [] [] with
    | None => (s, R_reorg_gather, [])
    | Some (root, news) =>
        let s1 := with_upd s (b_id root) in            (* rollback: Update(branch root) *)
        let '(s2, r, c) := rollforward s1 (rev news) in
        let calls := [2; b_no root; 3; b_id root] ++ c in
        if is_err r then
          if f42 then (with_upd s2 (b_id (best s2)), r, calls ++ [3; b_id (best s2)]) else (s2, r, calls)
        else (with_main s2 (news ++ drop_until (b_id root) (n_main s2)), R_ok, calls)  (* swapChain *)
    end.

  (** OrphanPool.addOrphan *)
  Definition park (s : node) (b : block) : node :=
    match find_child (n_orph s) (b_parent b) with
    | Some _ => s
    | None =>
        let o := if Nat.eqb (length (n_orph s)) cap then tl (n_orph s) else n_orph s in
        with_orph s (o ++ [b])
    end.

  (** addBlockInternal; the boolean is needCache *)
  Definition add_internal (s : node) (b : block) (now : Z) : node * Z * list Z * bool :=
    let i := b_id b in
    if is_future (from_unix_ns iv (b_ts b)) (from_unix_ns iv now) then (s, R_future, [1; i], false)
    else if negb (b_cid b) then (s, R_chainid, [1; i], false)
    else if negb (b_sig b) then (s, R_badsig, [1; i; 5; i], true)
    else if negb (has_id (n_store s) (b_parent b)) then (park s b, R_parked, [1; i; 5; i], false)
    else
      let bst := best s in
      if (b_no b =? b_no bst + 1) && (b_parent b =? b_id bst) then
        let '(s1, r, c) := run_main (length (n_orph s)) s b in (s1, r, [1; i; 5; i] ++ c, true)
      else
        let '(s1, r, last) := run_side (length (n_orph s)) s b in
        if is_err r then (s1, r, [1; i; 5; i], true)
        else if b_no (best s1) <? b_no last then
          let '(s2, r2, c) := reorg s1 last in (s2, r2, [1; i; 5; i] ++ c, true)
        else (s1, R_ok, [1; i; 5; i], true).

  (** ChainService.addBlock *)
  Definition arrive (s : node) (b : block) (now : Z) : node * Z * list Z :=
    if mem_z (b_id b) (n_errs s) then (s, R_cached, [])
    else if has_id (n_store s) (b_id b) then (s, R_already, [])
    else
      let '(s1, r, c, cache) := add_internal s b now in
      if is_err r && cache then (add_err s1 (b_id b), r, c) else (s1, r, c).

  Inductive event := Arrive (b : block) (now : Z).

  Fixpoint run (evs : list event) (s : node) : node :=
    match evs with
    | [] => s
    | Arrive b now :: tl => run tl (fst (fst (arrive s b now)))
    end.
End Accept.

(* ---- evaluation helpers for the correspondence check ---- *)
(** observation after one arrival: result class, consensus calls, main chain ids (best
    first), ids of [all] that are stored / parked (pool order) / in errBlocks, last Update *)
Definition obs := (Z * list Z * list Z * list Z * list Z * list Z * Z)%type.

(** the error value of addBlock does not tell connected / already connected / parked apart
    (all nil), nor the two ways a reorganisation fails (both ErrReorg) *)
Definition norm_result (r : Z) : Z := if r <=? 2 then 0 else if r =? R_reorg_fwd then R_reorg_gather else r.

Definition observe (all : list Z) (s : node) (r : Z) (c : list Z) : obs :=
  (norm_result r, c, map b_id (n_main s),
   filter (fun i => has_id (n_store s) i) all,
   map b_id (n_orph s),
   filter (fun i => mem_z i (n_errs s)) all,
   n_upd s).

Fixpoint trace iv cl cap g f42 (all : list Z) (evs : list (block * Z)) (s : node) : list obs :=
  match evs with
  | [] => []
  | (b, now) :: tl =>
      let '(s1, r, c) := arrive iv cl cap g f42 s b now in
      observe all s1 r c :: trace iv cl cap g f42 all tl s1
  end.

Fixpoint assoc_cluster (m : list (Z * list Z)) (i : Z) : list Z :=
  match m with
  | [] => []
  | (k, v) :: tl => if k =? i then v else assoc_cluster tl i
  end.

Definition list_z_eqb (a b : list Z) : bool :=
  (Nat.eqb (length a) (length b)) && forallb (fun p => fst p =? snd p) (combine a b).
Definition obs_eqb' (a b : obs) : bool :=
  let '(r1, c1, m1, st1, o1, e1, u1) := a in
  let '(r2, c2, m2, st2, o2, e2, u2) := b in
  (r1 =? r2) && list_z_eqb c1 c2 && list_z_eqb m1 m2 && list_z_eqb st1 st2 && list_z_eqb o1 o2
  && list_z_eqb e1 e2 && (u1 =? u2).
(** 1 + index of the first arrival whose observation differs, or 0 *)
Fixpoint first_diff (a b : list obs) (i : Z) : Z :=
  match a, b with
  | [], [] => 0
  | x :: ta, y :: tb => if obs_eqb' x y then first_diff ta tb (i + 1) else i
  | _, _ => i
  end.
(** a scenario: interval, producer-set map, capacity, all ids, arrivals with clock, observed *)
Definition scen_diff (iv : Z) (cm : list (Z * list Z)) (cap : nat) (g : block) (f42 : bool) (all : list Z)
  (evs : list (block * Z)) (observed : list obs) : Z :=
  first_diff (trace iv (assoc_cluster cm) cap g f42 all evs (init g)) observed 1.

(** ---- the other consensus types anchored by C09: what THEIR VerifyTimestamp / VerifySign /
    IsBlockValid test (a triple of answers).
    consensus/impl/raftv2/blockfactory.go: VerifyTimestamp = true, VerifySign =
    block.VerifySign, IsBlockValid = the key in the header parses (block.BPID()).
    consensus/impl/sbp/sbp.go: all three accept every block. *)
Definition raft_checks (key_parses sig_ok : bool) : bool * bool * bool := (true, sig_ok, key_parses).
Definition sbp_checks (key_parses sig_ok : bool) : bool * bool * bool := (true, true, true).
Definition checks_accept (c : bool * bool * bool) : bool := let '(t, s, v) := c in t && s && v.
(* case: consensus (0 raft, 1 sbp), key_parses, sig_ok (real block.VerifySign), observed answers *)
Definition other_case_ok (c : (Z * bool * bool) * (bool * bool * bool)) : bool :=
  let '((k, kp, sg), (ot, os, ov)) := c in
  let '(t, s, v) := if k =? 0 then raft_checks kp sg else sbp_checks kp sg in
  Bool.eqb t ot && Bool.eqb s os && Bool.eqb v ov.

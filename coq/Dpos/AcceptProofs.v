(** Proofs about the chain-service acceptance pipeline (C09, coq/Dpos/Accept.v). *)
From Coq Require Import ZArith List Bool Lia.
From Verif Require Import Dpos.Slot Dpos.SlotProofs.
From Verif Require Import Dpos.Accept.
Import ListNotations.
Open Scope Z_scope.

(* ------------------------------------------------------------------ list helpers *)
Lemma find_some_in {A} (f : A -> bool) l x : find f l = Some x -> In x l /\ f x = true.
Proof. apply find_some. Qed.

Lemma Forall_filter {A} (P : A -> Prop) f (l : list A) : Forall P l -> Forall P (filter f l).
Proof.
  induction 1 as [|x l Hx _ IH]; cbn; [constructor|]. destruct (f x); [constructor|]; assumption.
Qed.

Lemma Forall_tl {A} (P : A -> Prop) (l : list A) : Forall P l -> Forall P (tl l).
Proof. destruct 1; [constructor|assumption]. Qed.

Lemma Forall_drop_until (P : block -> Prop) i l : Forall P l -> Forall P (drop_until i l).
Proof.
  induction 1 as [|x l Hx Hl IH]; cbn; [constructor|].
  destruct (b_id x =? i); [constructor; assumption|exact IH].
Qed.

Lemma is_err_ok : is_err R_ok = false. Proof. reflexivity. Qed.

Section Proofs.
  Variable iv : Z.
  Variable cluster_of : Z -> list Z.
  Variable cap : nat.
  Variable genesis : block.
  Variable f42 : bool.

  Notation exec_block := (exec_block iv cluster_of genesis).
  Notation run_main := (run_main iv cluster_of genesis).
  Notation rollforward := (rollforward iv cluster_of genesis).
  Notation reorg := (reorg iv cluster_of genesis f42).
  Notation add_internal := (add_internal iv cluster_of cap genesis f42).
  Notation arrive := (arrive iv cluster_of cap genesis f42).
  Notation run := (run iv cluster_of cap genesis f42).
  Notation best := (best genesis).
  Notation init := (init genesis).

  (** [Vet b]: b passed VerifyTimestamp, ValidChildOf and VerifySign at one of its arrivals
      (instantiated at the end). *)
  Variable Vet : block -> Prop.

  Definition ok_blk (b : block) : Prop := b = genesis \/ Vet b.
  Definition validated (b : block) : Prop :=
    exists ub, ok_blk ub /\ is_block_valid Z.eqb iv (cluster_of (b_id ub)) (b_signer b) (b_ts b) = true.
  Definition main_blk (b : block) : Prop := b = genesis \/ (Vet b /\ validated b).
  Definition upd_ok (s : node) : Prop := exists ub, ok_blk ub /\ n_upd s = b_id ub.

  Definition Inv (s : node) : Prop :=
    Forall Vet (n_orph s) /\ Forall ok_blk (n_store s) /\ Forall main_blk (n_main s) /\ upd_ok s.

  Lemma main_blk_ok b : main_blk b -> ok_blk b.
  Proof. intros [H|[H _]]; [left|right]; assumption. Qed.

  Lemma best_ok s : Forall main_blk (n_main s) -> ok_blk (best s).
  Proof.
    unfold Accept.best. destruct 1 as [|x l Hx _]; cbn; [left; reflexivity|apply main_blk_ok; exact Hx].
  Qed.

  Lemma inv_init : Inv init.
  Proof.
    unfold Inv, Accept.init; cbn. repeat split.
    - constructor.
    - constructor; [left; reflexivity|constructor].
    - constructor; [left; reflexivity|constructor].
    - exists genesis. split; [left; reflexivity|reflexivity].
  Qed.

  (* -------------------------------------------------------------- executeBlock *)
  Lemma exec_block_cases s b :
    (valid_now iv cluster_of s b = true /\ b_exec b = true /\
       exists c, exec_block s b = (with_upd s (b_id b), R_ok, c)) \/
    (valid_now iv cluster_of s b = true /\ b_exec b = false /\
       exists c, exec_block s b = (with_upd s (b_id (best s)), R_exec, c)) \/
    (valid_now iv cluster_of s b = false /\ exists c, exec_block s b = (s, R_invalid, c)).
  Proof.
    unfold Accept.exec_block. destruct (valid_now iv cluster_of s b) eqn:V, (b_exec b) eqn:E.
    - left. repeat split. eexists; reflexivity.
    - right; left. repeat split. eexists; reflexivity.
    - right; right. split; [reflexivity|]. eexists; reflexivity.
    - right; right. split; [reflexivity|]. eexists; reflexivity.
  Qed.

  Lemma exec_block_inv s b s1 r c :
    Inv s -> ok_blk b -> exec_block s b = (s1, r, c) ->
    Inv s1 /\ n_store s1 = n_store s /\ n_main s1 = n_main s /\ n_orph s1 = n_orph s /\
    (is_err r = false -> validated b /\ n_upd s1 = b_id b).
  Proof.
    intros (Ho & Hs & Hm & Hu) Hb E.
    destruct (exec_block_cases s b) as [(V & _ & c' & E')|[(V & _ & c' & E')|(V & c' & E')]];
      rewrite E' in E; inversion E; subst; clear E.
    - split; [|repeat split; try reflexivity].
      + repeat split; try assumption. exists b. split; [assumption|reflexivity].
      + destruct Hu as (ub & Hub & Eu). exists ub. split; [exact Hub|].
        unfold valid_now in V. rewrite Eu in V. exact V.
    - split; [|repeat split; try reflexivity; discriminate].
      repeat split; try assumption. exists (best s). split; [apply best_ok; assumption|reflexivity].
    - split; [|repeat split; try reflexivity; discriminate].
      repeat split; assumption.
  Qed.

  (* -------------------------------------------------------------- run, main chain *)
  Lemma run_main_inv fuel : forall s b s' r c,
    Inv s -> Vet b -> run_main fuel s b = (s', r, c) -> Inv s'.
  Proof.
    induction fuel as [|f IH]; intros s b s' r c HI Hb E; cbn [Accept.run_main] in E.
    - destruct (exec_block s b) as [[s1 r1] c1] eqn:EX.
      destruct (exec_block_inv s b s1 r1 c1 HI (or_intror Hb) EX) as (HI1 & Es & Em & Eo & Hv).
      destruct (is_err r1) eqn:ER; [inversion E; subst; exact HI1|].
      destruct (Hv eq_refl) as (Hval & Hupd).
      assert (HI2 : Inv (with_main (store_block s1 b) (b :: n_main s1))).
      { destruct HI1 as (Ho & Hs & Hm & Hu). repeat split; cbn.
        - exact Ho.
        - constructor; [right; exact Hb|exact Hs].
        - constructor; [right; split; assumption|exact Hm].
        - exact Hu. }
      cbn [n_orph n_store n_main n_errs n_upd with_main store_block with_orph] in E.
      destruct (find_child (n_orph s1) (b_id b)) as [o|] eqn:FC.
      + destruct (b_no b + 1 =? b_no o); inversion E; subst; exact HI2.
      + inversion E; subst; exact HI2.
    - destruct (exec_block s b) as [[s1 r1] c1] eqn:EX.
      destruct (exec_block_inv s b s1 r1 c1 HI (or_intror Hb) EX) as (HI1 & Es & Em & Eo & Hv).
      destruct (is_err r1) eqn:ER; [inversion E; subst; exact HI1|].
      destruct (Hv eq_refl) as (Hval & Hupd).
      assert (HI2 : Inv (with_main (store_block s1 b) (b :: n_main s1))).
      { destruct HI1 as (Ho & Hs & Hm & Hu). repeat split; cbn.
        - exact Ho.
        - constructor; [right; exact Hb|exact Hs].
        - constructor; [right; split; assumption|exact Hm].
        - exact Hu. }
      cbn [n_orph n_store n_main n_errs n_upd with_main store_block with_orph] in E.
      destruct (find_child (n_orph s1) (b_id b)) as [o|] eqn:FC.
      + destruct (b_no b + 1 =? b_no o).
        * set (s3 := with_orph _ _) in E.
          destruct (run_main f s3 o) as [[s4 r4] c4] eqn:ER4.
          inversion E; subst.
          eapply IH; [| |exact ER4]; subst s3.
          -- destruct HI2 as (Ho & Hs & Hm & Hu). repeat split; cbn in *; try assumption.
             apply Forall_filter. exact Ho.
          -- unfold find_child in FC. apply find_some_in in FC. destruct FC as [Hin _].
             destruct HI1 as (Ho & _). rewrite Forall_forall in Ho. apply Ho. exact Hin.
        * inversion E; subst; exact HI2.
      + inversion E; subst; exact HI2.
  Qed.

  (* -------------------------------------------------------------- run, side branch *)
  Lemma run_side_inv fuel : forall s b s' r last,
    Inv s -> Vet b -> run_side fuel s b = (s', r, last) -> Inv s' /\ Vet last.
  Proof.
    induction fuel as [|f IH]; intros s b s' r last HI Hb E; cbn [Accept.run_side] in E.
    - assert (HI2 : Inv (store_block s b)).
      { destruct HI as (Ho & Hs & Hm & Hu). split; [exact Ho|split; [|split; [exact Hm|exact Hu]]].
        cbn. constructor; [right; exact Hb|exact Hs]. }
      cbn [n_orph n_store n_main n_errs n_upd with_main store_block with_orph] in E. destruct (find_child (n_orph s) (b_id b)) as [o|].
      + destruct (b_no b + 1 =? b_no o); inversion E; subst; split; assumption.
      + inversion E; subst; split; assumption.
    - assert (HI2 : Inv (store_block s b)).
      { destruct HI as (Ho & Hs & Hm & Hu). split; [exact Ho|split; [|split; [exact Hm|exact Hu]]].
        cbn. constructor; [right; exact Hb|exact Hs]. }
      cbn [n_orph n_store n_main n_errs n_upd with_main store_block with_orph] in E. destruct (find_child (n_orph s) (b_id b)) as [o|] eqn:FC.
      + destruct (b_no b + 1 =? b_no o).
        * eapply IH; [| |exact E].
          -- destruct HI2 as (Ho & Hs & Hm & Hu). repeat split; cbn in *; try assumption.
             apply Forall_filter. exact Ho.
          -- unfold find_child in FC. apply find_some_in in FC. destruct FC as [Hin _].
             destruct HI as (Ho & _). rewrite Forall_forall in Ho. apply Ho. exact Hin.
        * inversion E; subst; split; assumption.
      + inversion E; subst; split; assumption.
  Qed.

  (* -------------------------------------------------------------- reorganisation *)
  Lemma gather_ok fuel : forall s br news olds root res,
    Forall ok_blk (n_store s) -> ok_blk br -> Forall ok_blk news ->
    gather genesis fuel s br news olds = Some (root, res) ->
    ok_blk root /\ Forall ok_blk res.
  Proof.
    induction fuel as [|f IH]; intros s br news olds root res Hs Hbr Hn E; cbn [gather] in E.
    - destruct (b_no br <=? b_no (best s)).
      + destruct (find_no (n_main s) (b_no br)) as [m|]; [|discriminate].
        destruct (b_id br =? b_id m).
        * destruct (b_no (best s) =? b_no br); [discriminate|].
          destruct news; [discriminate|]. destruct olds; [discriminate|].
          inversion E; subst. split; assumption.
        * destruct (b_no br <=? 0); [discriminate|].
          destruct (find_id (n_store s) (b_parent br)); [|discriminate].
          destruct (b_no br - 1 =? b_no b); discriminate.
      + destruct (b_no br <=? 0); [discriminate|].
        destruct (find_id (n_store s) (b_parent br)); [|discriminate].
        destruct (b_no br - 1 =? b_no b); discriminate.
    - assert (Hstep : forall olds',
        (if b_no br <=? 0 then None
         else match find_id (n_store s) (b_parent br) with
              | None => None
              | Some p => if b_no br - 1 =? b_no p then gather genesis f s p (news ++ [br]) olds' else None
              end) = Some (root, res) -> ok_blk root /\ Forall ok_blk res).
      { intros olds' E'. destruct (b_no br <=? 0); [discriminate|].
        destruct (find_id (n_store s) (b_parent br)) as [p|] eqn:FP; [|discriminate].
        destruct (b_no br - 1 =? b_no p); [|discriminate].
        eapply IH; [exact Hs| | |exact E'].
        - unfold find_id in FP. apply find_some_in in FP. destruct FP as [Hin _].
          rewrite Forall_forall in Hs. apply Hs. exact Hin.
        - apply Forall_app. split; [exact Hn|constructor; [exact Hbr|constructor]]. }
      destruct (b_no br <=? b_no (best s)).
      + destruct (find_no (n_main s) (b_no br)) as [m|]; [|discriminate].
        destruct (b_id br =? b_id m).
        * destruct (b_no (best s) =? b_no br); [discriminate|].
          destruct news; [discriminate|]. destruct olds; [discriminate|].
          inversion E; subst. split; assumption.
        * eapply Hstep; exact E.
      + eapply Hstep; exact E.
  Qed.

  Lemma rollforward_inv : forall l s s' r c,
    Inv s -> Forall ok_blk l -> rollforward s l = (s', r, c) ->
    Inv s' /\ n_store s' = n_store s /\ n_main s' = n_main s /\ n_orph s' = n_orph s /\
    (is_err r = false -> Forall validated l).
  Proof.
    induction l as [|b tl IH]; intros s s' r c HI Hl E; cbn [Accept.rollforward] in E.
    - inversion E; subst. split; [exact HI|]. repeat split; try reflexivity. intros _. constructor.
    - inversion Hl as [|? ? Hb Htl]; subst.
      destruct (exec_block s b) as [[s1 r1] c1] eqn:EX.
      destruct (exec_block_inv s b s1 r1 c1 HI Hb EX) as (HI1 & Es & Em & Eo & Hv).
      destruct (is_err r1) eqn:ER.
      + inversion E; subst. split; [exact HI1|]. repeat split; try assumption. cbn. discriminate.
      + destruct (rollforward s1 tl) as [[s2 r2] c2] eqn:ER2.
        destruct (IH s1 s2 r2 c2 HI1 Htl ER2) as (HI2 & Es2 & Em2 & Eo2 & Hv2).
        inversion E; subst.
        split; [exact HI2|]. repeat split; try congruence.
        intros Hr. constructor; [apply Hv; reflexivity|apply Hv2; exact Hr].
  Qed.

  Lemma validated_main_blk b : ok_blk b -> validated b -> main_blk b.
  Proof. intros [H|H] Hv; [left; exact H|right; split; assumption]. Qed.

  Lemma reorg_inv s top s' r c :
    Inv s -> ok_blk top -> reorg s top = (s', r, c) -> Inv s'.
  Proof.
    intros HI Htop E. unfold Accept.reorg in E.
    destruct (gather genesis (S (length (n_store s))) s top [] []) as [[root news]|] eqn:G;
      [|inversion E; subst; exact HI].
    destruct HI as (Ho & Hs & Hm & Hu).
    destruct (gather_ok _ _ _ _ _ _ _ Hs Htop (Forall_nil _) G) as (Hroot & Hnews).
    assert (HI1 : Inv (with_upd s (b_id root))).
    { repeat split; cbn; try assumption. exists root. split; [exact Hroot|reflexivity]. }
    destruct (rollforward (with_upd s (b_id root)) (rev news)) as [[s2 r2] c2] eqn:RF.
    assert (Hrev : Forall ok_blk (rev news)).
    { rewrite Forall_forall in *. intros x Hx. apply Hnews. apply in_rev. exact Hx. }
    destruct (rollforward_inv _ _ _ _ _ HI1 Hrev RF) as (HI2 & Es2 & Em2 & Eo2 & Hv2).
    destruct (is_err r2) eqn:ER.
    { destruct f42; inversion E; subst; [|exact HI2].
      destruct HI2 as (Ho2 & Hs2 & Hm2 & Hu2). repeat split; cbn; try assumption.
      exists (best s2). split; [apply best_ok; exact Hm2|reflexivity]. }
    inversion E; subst.
    destruct HI2 as (Ho2 & Hs2 & Hm2 & Hu2). repeat split; cbn; try assumption.
    apply Forall_app. split.
    - specialize (Hv2 eq_refl). rewrite Forall_forall in *. intros x Hx.
      apply validated_main_blk; [apply Hnews; exact Hx|apply Hv2; apply -> in_rev; exact Hx].
    - apply Forall_drop_until. exact Hm2.
  Qed.

  (* -------------------------------------------------------------- orphan pool *)
  Lemma park_inv s b : Inv s -> Vet b -> Inv (park cap s b).
  Proof.
    intros (Ho & Hs & Hm & Hu) Hb. unfold park.
    destruct (find_child (n_orph s) (b_parent b)); [repeat split; assumption|].
    repeat split; cbn; try assumption.
    apply Forall_app. split; [|constructor; [exact Hb|constructor]].
    destruct (Nat.eqb (length (n_orph s)) cap); [apply Forall_tl|]; exact Ho.
  Qed.

  (* -------------------------------------------------------------- addBlockInternal / addBlock *)
  Definition passes (b : block) (now : Z) : Prop :=
    is_future (from_unix_ns iv (b_ts b)) (from_unix_ns iv now) = false /\ b_cid b = true /\ b_sig b = true.

  Lemma add_internal_inv s b now s' r c cache :
    Inv s -> (passes b now -> Vet b) -> add_internal s b now = (s', r, c, cache) -> Inv s'.
  Proof.
    intros HI HV E. unfold Accept.add_internal in E.
    destruct (is_future (from_unix_ns iv (b_ts b)) (from_unix_ns iv now)) eqn:F; [inversion E; subst; exact HI|].
    destruct (b_cid b) eqn:C; cbn [negb] in E; [|inversion E; subst; exact HI].
    destruct (b_sig b) eqn:Sg; cbn [negb] in E; [|inversion E; subst; exact HI].
    assert (Hb : Vet b) by (apply HV; repeat split; assumption).
    destruct (has_id (n_store s) (b_parent b)); cbn [negb] in E.
    2:{ inversion E; subst. apply park_inv; assumption. }
    destruct ((b_no b =? b_no (best s) + 1) && (b_parent b =? b_id (best s))).
    - destruct (run_main (length (n_orph s)) s b) as [[s1 r1] c1] eqn:RM. inversion E; subst.
      eapply run_main_inv; eassumption.
    - destruct (run_side (length (n_orph s)) s b) as [[s1 r1] last] eqn:RS.
      destruct (run_side_inv _ _ _ _ _ _ HI Hb RS) as (HI1 & Hlast).
      destruct (is_err r1); [inversion E; subst; exact HI1|].
      destruct (b_no (best s1) <? b_no last); [|inversion E; subst; exact HI1].
      destruct (reorg s1 last) as [[s2 r2] c2] eqn:RO. inversion E; subst.
      eapply reorg_inv; [exact HI1|right; exact Hlast|exact RO].
  Qed.

  Lemma arrive_inv s b now s' r c :
    Inv s -> (passes b now -> Vet b) -> arrive s b now = (s', r, c) -> Inv s'.
  Proof.
    intros HI HV E. unfold Accept.arrive in E.
    destruct (mem_z (b_id b) (n_errs s)); [inversion E; subst; exact HI|].
    destruct (has_id (n_store s) (b_id b)); [inversion E; subst; exact HI|].
    destruct (add_internal s b now) as [[[s1 r1] c1] cache] eqn:AI.
    pose proof (add_internal_inv _ _ _ _ _ _ _ HI HV AI) as HI1.
    destruct (is_err r1 && cache); inversion E; subst; [|exact HI1].
    destruct HI1 as (Ho & Hs & Hm & Hu). repeat split; cbn; assumption.
  Qed.

  Lemma run_inv evs : forall s,
    Inv s -> (forall b now, In (Arrive b now) evs -> passes b now -> Vet b) -> Inv (run evs s).
  Proof.
    induction evs as [|[b now] tl IH]; intros s HI HV; cbn [Accept.run]; [exact HI|].
    destruct (arrive s b now) as [[s1 r] c] eqn:A. cbn [fst].
    apply IH.
    - eapply arrive_inv; [exact HI| |exact A]. apply HV. left; reflexivity.
    - intros b' now' Hin. apply HV. right; exact Hin.
  Qed.
End Proofs.

(* ------------------------------------------------------------------ the C09 statements *)
Section Legit.
  Variable iv : Z.
  Variable cluster_of : Z -> list Z.
  Variable cap : nat.
  Variable genesis : block.
  Variable f42 : bool.

  (** b passed VerifyTimestamp (not two or more slots ahead of the clock [now] of one of its
      arrivals), ValidChildOf and VerifySign. *)
  Definition vetted (evs : list event) (b : block) : Prop :=
    b_sig b = true /\ b_cid b = true /\
    exists now, In (Arrive b now) evs /\
                is_future (from_unix_ns iv (b_ts b)) (from_unix_ns iv now) = false.

  Lemma reachable_inv evs :
    Inv iv cluster_of genesis (vetted evs) (run iv cluster_of cap genesis f42 evs (init genesis)).
  Proof.
    apply run_inv; [apply inv_init|].
    intros b now Hin (F & C & Sg). repeat split; try assumption. exists now. split; assumption.
  Qed.

  (** Every block of the main chain, after ANY sequence of arrivals (any order, duplicates,
      children before parents, forged twins, re-deliveries of refused blocks): its signature
      verifies, it was not future at one of its arrivals, and its signer owns the slot of its
      timestamp in the producer set in force after a block [ub] that is the genesis block or
      was itself vetted. *)
  Theorem accepted_blocks_legitimate evs b :
    In b (n_main (run iv cluster_of cap genesis f42 evs (init genesis))) -> b <> genesis ->
    vetted evs b /\
    exists ub, (ub = genesis \/ vetted evs ub) /\
               is_block_valid Z.eqb iv (cluster_of (b_id ub)) (b_signer b) (b_ts b) = true.
  Proof.
    intros Hin Hne. destruct (reachable_inv evs) as (_ & _ & Hm & _).
    rewrite Forall_forall in Hm. destruct (Hm b Hin) as [H|[Hv Hval]]; [contradiction|].
    split; [exact Hv|exact Hval].
  Qed.

  (** Every block in the chain DB (main chain AND stored side branches) and every parked
      orphan passed the signature and clock tests: the orphan-pool invariant. *)
  Theorem stored_blocks_vetted evs b :
    In b (n_store (run iv cluster_of cap genesis f42 evs (init genesis))) -> b <> genesis -> vetted evs b.
  Proof.
    intros Hin Hne. destruct (reachable_inv evs) as (_ & Hs & _ & _).
    rewrite Forall_forall in Hs. destruct (Hs b Hin) as [H|H]; [contradiction|exact H].
  Qed.

  Theorem parked_blocks_vetted evs b :
    In b (n_orph (run iv cluster_of cap genesis f42 evs (init genesis))) -> vetted evs b.
  Proof.
    intros Hin. destruct (reachable_inv evs) as (Ho & _). rewrite Forall_forall in Ho. exact (Ho b Hin).
  Qed.

  (** With Slot.v: the signer of a main-chain block is the member stored at the index that owns
      the slot; in particular a member, and the only key valid for that timestamp. *)
  Theorem accepted_signer_owns_slot evs b :
    0 < iv -> (forall u, cluster_of u <> [] /\ Z.of_nat (length (cluster_of u)) <= index_nil) ->
    In b (n_main (run iv cluster_of cap genesis f42 evs (init genesis))) -> b <> genesis -> 0 <= b_ts b ->
    exists ub, (ub = genesis \/ vetted evs ub) /\
      let ids := cluster_of (b_id ub) in
      nth_error ids (Z.to_nat (Z.rem (next_index iv (ns_to_ms (b_ts b))) (Z.of_nat (length ids)))) = Some (b_signer b)
      /\ In (b_signer b) ids.
  Proof.
    intros Hiv Hcl Hin Hne Hts.
    destruct (accepted_blocks_legitimate evs b Hin Hne) as (_ & ub & Hub & Hv).
    exists ub. split; [exact Hub|]. cbv zeta. destruct (Hcl (b_id ub)) as [Hne' Hlen].
    assert (Hn : nth_error (cluster_of (b_id ub))
                  (Z.to_nat (Z.rem (next_index iv (ns_to_ms (b_ts b))) (Z.of_nat (length (cluster_of (b_id ub))))))
                 = Some (b_signer b)).
    { eapply (valid_signer_at_owner Z.eqb); try eassumption. intros x y. apply Z.eqb_eq. }
    split; [exact Hn|]. eapply nth_error_In. exact Hn.
  Qed.
End Legit.

(* ------------------------------------------------------------------ non-vacuity *)
(** 3 producers [10;20;30], 1 s slots.  Slot k is owned by index k mod 3.  Block 2 names the
    right producer but its signature does not verify; it arrives BEFORE its honest parent 1:
    refused at arrival, never parked, never connected; the honest chain 1-3 is connected. *)
Definition ex_g : block := Build_block 0 (-1) (-1) 0 true 0 true true.
Definition ex_b1 : block := Build_block 1 0 20 (4000 * 1000000) true 1 true true.
Definition ex_b2 : block := Build_block 2 1 30 (5000 * 1000000) false 2 true true.
Definition ex_b3 : block := Build_block 3 1 30 (5000 * 1000000 + 1) true 2 true true.
Definition ex_cl (_ : Z) : list Z := [10; 20; 30].
Definition ex_now : Z := 6000 * 1000000.

Example ex_forged_orphan_refused :
  let s := run 1000 ex_cl 3 ex_g false [Arrive ex_b2 ex_now; Arrive ex_b3 ex_now; Arrive ex_b1 ex_now; Arrive ex_b2 ex_now] (init ex_g) in
  map b_id (n_main s) = [3; 1; 0] /\ n_orph s = [] /\ n_errs s = [2] /\
  snd (fst (arrive 1000 ex_cl 3 ex_g false (init ex_g) ex_b2 ex_now)) = R_badsig.
Proof. vm_compute. repeat split. Qed.

(** the hypotheses of [accepted_blocks_legitimate] / [accepted_signer_owns_slot] are met by a
    state with a non-genesis main-chain block *)
Example ex_legit_nonvacuous :
  In ex_b3 (n_main (run 1000 ex_cl 3 ex_g false [Arrive ex_b3 ex_now; Arrive ex_b1 ex_now] (init ex_g))) /\ ex_b3 <> ex_g.
Proof. split; [vm_compute; left; reflexivity|discriminate]. Qed.

(* ================================================================== *)
(** Second part: WHICH producer set a main-chain block was validated against.  As long as no
    reorganisation has failed in rollforward, it is the set in force after the block's own
    parent; after a failed rollforward it need not be in the code before 05cfcb8b (f42 = false, refuted
    below: F42, fixed). *)
Section Parent.
  Variable iv : Z.
  Variable cluster_of : Z -> list Z.
  Variable cap : nat.
  Variable genesis : block.
  Variable f42 : bool.

  Notation exec_block := (exec_block iv cluster_of genesis).
  Notation run_main := (run_main iv cluster_of genesis).
  Notation rollforward := (rollforward iv cluster_of genesis).
  Notation reorg := (reorg iv cluster_of genesis f42).
  Notation add_internal := (add_internal iv cluster_of cap genesis f42).
  Notation arrive := (arrive iv cluster_of cap genesis f42).
  Notation run := (run iv cluster_of cap genesis f42).
  Notation best := (best genesis).
  Notation init := (init genesis).

  Definition valid_for (u : Z) (b : block) : Prop :=
    is_block_valid Z.eqb iv (cluster_of u) (b_signer b) (b_ts b) = true.

  (** every block of the list (best first) is a child of the next one and its signer owns its
      slot in the producer set in force after that parent *)
  Fixpoint linked (l : list block) : Prop :=
    match l with
    | b :: tl => match tl with
                 | p :: _ => b_parent b = b_id p /\ valid_for (b_id p) b /\ linked tl
                 | [] => True
                 end
    | [] => True
    end.

  Definition J (s : node) : Prop := linked (n_main s) /\ n_upd s = b_id (best s).

  Lemma linked_cons b l : linked l -> (l = [] \/ (b_parent b = b_id (hd genesis l) /\ valid_for (b_id (hd genesis l)) b)) ->
    linked (b :: l).
  Proof.
    intros Hl H. destruct l as [|p tl]; cbn; [exact I|].
    destruct H as [H|[H1 H2]]; [discriminate|]. cbn in H1, H2. repeat split; assumption.
  Qed.

  Lemma linked_tail b l : linked (b :: l) -> linked l.
  Proof. destruct l as [|p tl]; cbn; [intros; exact I|]. intros (_ & _ & H). exact H. Qed.

  Lemma linked_drop_until i l : linked l -> linked (drop_until i l).
  Proof.
    induction l as [|x l IH]; intros H; cbn [drop_until]; [exact I|].
    destruct (b_id x =? i); [exact H|]. apply IH. eapply linked_tail. exact H.
  Qed.

  Lemma drop_until_head i l m : In m l -> b_id m = i -> exists h t, drop_until i l = h :: t /\ b_id h = i.
  Proof.
    induction l as [|x l IH]; intros Hin E; [destruct Hin|]. cbn [drop_until].
    destruct (b_id x =? i) eqn:Ex.
    - exists x, l. split; [reflexivity|]. apply Z.eqb_eq. exact Ex.
    - destruct Hin as [->|Hin]; [rewrite E, Z.eqb_refl in Ex; discriminate|]. apply IH; assumption.
  Qed.

  (** oldest-first branch [fw] hanging below block id [u]: parent links and validity *)
  Fixpoint chain_fw (fw : list block) (u : Z) : Prop :=
    match fw with [] => True | x :: tl => b_parent x = u /\ chain_fw tl (b_id x) end.
  Fixpoint valid_fw (fw : list block) (u : Z) : Prop :=
    match fw with [] => True | x :: tl => valid_for u x /\ valid_fw tl (b_id x) end.
  Definition last_id (fw : list block) (u : Z) : Z := fold_left (fun _ x => b_id x) fw u.

  Lemma linked_rev_app : forall fw h t,
    chain_fw fw (b_id h) -> valid_fw fw (b_id h) -> linked (h :: t) -> linked (rev fw ++ h :: t).
  Proof.
    induction fw as [|x tl IH]; intros h t Hc Hv Hl; cbn [rev app]; [exact Hl|].
    rewrite <- app_assoc. cbn [app]. destruct Hc as [Hc1 Hc2]. destruct Hv as [Hv1 Hv2].
    apply IH; [exact Hc2|exact Hv2|]. cbn. repeat split; try assumption.
  Qed.

  (* ---- executeBlock / run *)
  Lemma exec_upd s b s1 r c : exec_block s b = (s1, r, c) ->
    n_main s1 = n_main s /\ n_store s1 = n_store s /\ n_orph s1 = n_orph s /\
    ((r = R_ok /\ valid_for (n_upd s) b /\ n_upd s1 = b_id b) \/
     (r = R_exec /\ n_upd s1 = b_id (best s)) \/ (r = R_invalid /\ s1 = s)).
  Proof.
    intros E.
    destruct (exec_block_cases iv cluster_of genesis s b) as [(V & _ & c' & E')|[(V & _ & c' & E')|(V & c' & E')]];
      rewrite E' in E; inversion E; subst; clear E; repeat split; cbn.
    - left. repeat split. exact V.
    - right; left. split; reflexivity.
    - right; right. split; reflexivity.
  Qed.

  Lemma connect_J s s1 b :
    J s -> b_parent b = b_id (best s) -> n_main s1 = n_main s -> valid_for (n_upd s) b -> n_upd s1 = b_id b ->
    J (with_main (store_block s1 b) (b :: n_main s1)).
  Proof.
    intros (Hl & Hu) Hp Em Hv Hu1. split; cbn; [|exact Hu1]. rewrite Em. apply linked_cons; [exact Hl|].
    destruct (n_main s) eqn:M; [left; reflexivity|right]. unfold Accept.best in Hp, Hu. rewrite M in *.
    cbn [hd] in *. split; [exact Hp|rewrite <- Hu; exact Hv].
  Qed.

  Lemma J_frame s s1 : J s -> n_main s1 = n_main s -> n_upd s1 = b_id (best s) -> J s1.
  Proof. intros (Hl & Hu) Em Eu. split; [rewrite Em; exact Hl|]. unfold Accept.best in *. rewrite Em. exact Eu. Qed.

  Lemma run_main_J fuel : forall s b s' r c,
    J s -> b_parent b = b_id (best s) -> run_main fuel s b = (s', r, c) -> J s'.
  Proof.
    induction fuel as [|f IH]; intros s b s' r c HJ Hp E; cbn [Accept.run_main] in E;
      destruct (exec_block s b) as [[s1 r1] c1] eqn:EX;
      destruct (exec_upd _ _ _ _ _ EX) as (Em & Es & Eo & [(-> & Hv & Hu1)|[(-> & Hu1)|(-> & ->)]]).
    - pose proof (connect_J s s1 b HJ Hp Em Hv Hu1) as HJ2.
      change (is_err R_ok) with false in E. cbv iota in E.
      cbn [n_orph n_store n_main n_errs n_upd with_main store_block with_orph] in E.
      destruct (find_child (n_orph s1) (b_id b)) as [o|];
        [destruct (b_no b + 1 =? b_no o)|]; inversion E; subst; exact HJ2.
    - change (is_err R_exec) with true in E. cbv iota in E. inversion E; subst.
      eapply J_frame; eassumption.
    - change (is_err R_invalid) with true in E. cbv iota in E. inversion E; subst. exact HJ.
    - pose proof (connect_J s s1 b HJ Hp Em Hv Hu1) as HJ2.
      change (is_err R_ok) with false in E. cbv iota in E.
      cbn [n_orph n_store n_main n_errs n_upd with_main store_block with_orph] in E.
      destruct (find_child (n_orph s1) (b_id b)) as [o|] eqn:FC; [|inversion E; subst; exact HJ2].
      destruct (b_no b + 1 =? b_no o); [|inversion E; subst; exact HJ2].
      set (s3 := with_orph _ _) in E.
      destruct (run_main f s3 o) as [[s4 r4] c4] eqn:ER4. inversion E; subst.
      eapply IH; [| |exact ER4]; subst s3.
      + destruct HJ2 as [H1 H2]. split; assumption.
      + cbn. unfold find_child in FC. apply find_some_in in FC. destruct FC as [_ Hpar].
        apply Z.eqb_eq. exact Hpar.
    - change (is_err R_exec) with true in E. cbv iota in E. inversion E; subst.
      eapply J_frame; eassumption.
    - change (is_err R_invalid) with true in E. cbv iota in E. inversion E; subst. exact HJ.
  Qed.

  Lemma run_side_frame fuel : forall s b s' r last,
    run_side fuel s b = (s', r, last) -> n_main s' = n_main s /\ n_upd s' = n_upd s.
  Proof.
    induction fuel as [|f IH]; intros s b s' r last E; cbn [Accept.run_side] in E;
      cbn [n_orph n_store n_main n_errs n_upd with_main store_block with_orph] in E;
      (destruct (find_child (n_orph s) (b_id b)) as [o|];
        [destruct (b_no b + 1 =? b_no o)|]; try (inversion E; subst; split; reflexivity)).
    apply IH in E. cbn in E. exact E.
  Qed.

  (* ---- reorganisation *)
  Lemma gather_chain fuel : forall s br news olds root res,
    chain_fw (rev news) (b_id br) ->
    gather genesis fuel s br news olds = Some (root, res) ->
    chain_fw (rev res) (b_id root) /\ (exists m, In m (n_main s) /\ b_id m = b_id root) /\ res <> [].
  Proof.
    induction fuel as [|f IH]; intros s br news olds root res Hc E; cbn [gather] in E.
    - destruct (b_no br <=? b_no (best s)).
      + destruct (find_no (n_main s) (b_no br)) as [m|] eqn:FN; [|discriminate].
        destruct (b_id br =? b_id m) eqn:EI.
        * destruct (b_no (best s) =? b_no br); [discriminate|].
          destruct news as [|n0 news]; [discriminate|]. destruct olds; [discriminate|].
          inversion E; subst. split; [exact Hc|]. split; [|discriminate].
          exists m. unfold find_no in FN. apply find_some_in in FN. split; [apply FN|].
          symmetry. apply Z.eqb_eq. exact EI.
        * destruct (b_no br <=? 0); [discriminate|].
          destruct (find_id (n_store s) (b_parent br)); [|discriminate].
          destruct (b_no br - 1 =? b_no b); discriminate.
      + destruct (b_no br <=? 0); [discriminate|].
        destruct (find_id (n_store s) (b_parent br)); [|discriminate].
        destruct (b_no br - 1 =? b_no b); discriminate.
    - assert (Hstep : forall olds',
        (if b_no br <=? 0 then None
         else match find_id (n_store s) (b_parent br) with
              | None => None
              | Some p => if b_no br - 1 =? b_no p then gather genesis f s p (news ++ [br]) olds' else None
              end) = Some (root, res) ->
        chain_fw (rev res) (b_id root) /\ (exists m, In m (n_main s) /\ b_id m = b_id root) /\ res <> []).
      { intros olds' E'. destruct (b_no br <=? 0); [discriminate|].
        destruct (find_id (n_store s) (b_parent br)) as [p|] eqn:FP; [|discriminate].
        destruct (b_no br - 1 =? b_no p); [|discriminate].
        eapply IH; [|exact E'].
        rewrite rev_app_distr. cbn. split; [|exact Hc].
        unfold find_id in FP. apply find_some_in in FP. destruct FP as [_ FP]. symmetry. apply Z.eqb_eq. exact FP. }
      destruct (b_no br <=? b_no (best s)).
      + destruct (find_no (n_main s) (b_no br)) as [m|] eqn:FN; [|discriminate].
        destruct (b_id br =? b_id m) eqn:EI.
        * destruct (b_no (best s) =? b_no br); [discriminate|].
          destruct news as [|n0 news]; [discriminate|]. destruct olds; [discriminate|].
          inversion E; subst. split; [exact Hc|]. split; [|discriminate].
          exists m. unfold find_no in FN. apply find_some_in in FN. split; [apply FN|].
          symmetry. apply Z.eqb_eq. exact EI.
        * eapply Hstep; exact E.
      + eapply Hstep; exact E.
  Qed.

  Lemma rollforward_valid : forall l s s' r c,
    rollforward s l = (s', r, c) ->
    n_main s' = n_main s /\ (r = R_ok \/ r = R_reorg_fwd) /\
    (r = R_ok -> valid_fw l (n_upd s) /\ n_upd s' = last_id l (n_upd s)).
  Proof.
    induction l as [|b tl IH]; intros s s' r c E; cbn [Accept.rollforward] in E.
    - inversion E; subst. repeat split; auto.
    - destruct (exec_block s b) as [[s1 r1] c1] eqn:EX.
      destruct (exec_upd _ _ _ _ _ EX) as (Em & Es & Eo & [(-> & Hv & Hu1)|[(-> & Hu1)|(-> & ->)]]);
        [change (is_err R_ok) with false in E|change (is_err R_exec) with true in E|change (is_err R_invalid) with true in E];
        cbv iota in E.
      + destruct (rollforward s1 tl) as [[s2 r2] c2] eqn:ER2.
        destruct (IH _ _ _ _ ER2) as (Em2 & Hr2 & Hv2). inversion E; subst.
        split; [congruence|]. split; [exact Hr2|]. intros Hr. destruct (Hv2 Hr) as [Hv3 Hu3].
        cbn [valid_fw last_id fold_left]. rewrite Hu1 in Hv3, Hu3. split; [split; assumption|exact Hu3].
      + inversion E; subst. split; [exact Em|]. split; [right; reflexivity|]. discriminate.
      + inversion E; subst. split; [reflexivity|]. split; [right; reflexivity|]. discriminate.
  Qed.

  Lemma last_id_rev_cons x l u : last_id (rev (x :: l)) u = b_id x.
  Proof. unfold last_id. cbn [rev]. rewrite fold_left_app. reflexivity. Qed.

  Lemma reorg_J s top s' r c :
    J s -> reorg s top = (s', r, c) -> f42 = true \/ r <> R_reorg_fwd -> J s'.
  Proof.
    intros (Hl & Hu) E Hr. unfold Accept.reorg in E.
    destruct (gather genesis (S (length (n_store s))) s top [] []) as [[root news]|] eqn:G;
      [|inversion E; subst; split; assumption].
    destruct (gather_chain _ s top [] [] root news I G) as (Hc & (m & Hm & Em) & Hne).
    destruct (rollforward (with_upd s (b_id root)) (rev news)) as [[s2 r2] c2] eqn:RF.
    destruct (rollforward_valid _ _ _ _ _ RF) as (Em2 & Hr2 & Hv2).
    cbn [n_main with_upd] in Em2.
    destruct Hr2 as [-> | ->];
      [change (is_err R_ok) with false in E|change (is_err R_reorg_fwd) with true in E]; cbv iota in E.
    2:{ destruct f42; inversion E; subst.
        - split; cbn [n_main n_upd with_upd]; [rewrite Em2; exact Hl|reflexivity].
        - destruct Hr as [Hr|Hr]; [discriminate|contradiction]. }
    inversion E; subst.
    destruct (Hv2 eq_refl) as [Hv Hu2]. cbn [n_upd with_upd] in Hv, Hu2.
    destruct (drop_until_head (b_id root) (n_main s) m Hm Em) as (h & t & Ed & Eh).
    split; cbn [n_main n_upd with_main].
    - rewrite Em2, Ed. rewrite <- (rev_involutive news). apply linked_rev_app.
      + rewrite Eh. exact Hc.
      + rewrite Eh. exact Hv.
      + rewrite <- Ed. apply linked_drop_until. exact Hl.
    - unfold Accept.best. cbn [n_main with_main]. destruct news as [|x news]; [contradiction|].
      cbn [app hd]. rewrite Hu2. apply last_id_rev_cons.
  Qed.

  Lemma add_internal_J s b now s' r c cache :
    J s -> add_internal s b now = (s', r, c, cache) -> f42 = true \/ r <> R_reorg_fwd -> J s'.
  Proof.
    intros HJ E Hr. unfold Accept.add_internal in E.
    destruct (is_future (from_unix_ns iv (b_ts b)) (from_unix_ns iv now)); [inversion E; subst; exact HJ|].
    destruct (negb (b_cid b)); [inversion E; subst; exact HJ|].
    destruct (negb (b_sig b)); [inversion E; subst; exact HJ|].
    destruct (negb (has_id (n_store s) (b_parent b))).
    { inversion E; subst. unfold park. destruct (find_child (n_orph s) (b_parent b)); exact HJ. }
    destruct ((b_no b =? b_no (best s) + 1) && (b_parent b =? b_id (best s))) eqn:C.
    - destruct (run_main (length (n_orph s)) s b) as [[s1 r1] c1] eqn:RM. inversion E; subst.
      eapply run_main_J; [exact HJ| |exact RM].
      apply andb_true_iff in C. destruct C as [_ C]. apply Z.eqb_eq. exact C.
    - destruct (run_side (length (n_orph s)) s b) as [[s1 r1] last] eqn:RS.
      destruct (run_side_frame _ _ _ _ _ _ RS) as (Em & Eu).
      assert (HJ1 : J s1).
      { destruct HJ as [H1 H2]. split; [rewrite Em; exact H1|]. unfold Accept.best. rewrite Em, Eu. exact H2. }
      destruct (is_err r1); [inversion E; subst; exact HJ1|].
      destruct (b_no (best s1) <? b_no last); [|inversion E; subst; exact HJ1].
      destruct (reorg s1 last) as [[s2 r2] c2] eqn:RO. inversion E; subst.
      eapply reorg_J; eassumption.
  Qed.

  Lemma arrive_J s b now s' r c :
    J s -> arrive s b now = (s', r, c) -> f42 = true \/ r <> R_reorg_fwd -> J s'.
  Proof.
    intros HJ E Hr. unfold Accept.arrive in E.
    destruct (mem_z (b_id b) (n_errs s)); [inversion E; subst; exact HJ|].
    destruct (has_id (n_store s) (b_id b)); [inversion E; subst; exact HJ|].
    destruct (add_internal s b now) as [[[s1 r1] c1] cache] eqn:AI.
    destruct (is_err r1 && cache); inversion E; subst;
      pose proof (add_internal_J _ _ _ _ _ _ _ HJ AI Hr) as HJ1; [|exact HJ1].
    destruct HJ1 as [H1 H2]. split; assumption.
  Qed.

  (** no arrival of the history ended in a reorganisation that failed in rollforward *)
  Fixpoint no_failed_rollforward (evs : list event) (s : node) : Prop :=
    match evs with
    | [] => True
    | Arrive b now :: tl =>
        snd (fst (arrive s b now)) <> R_reorg_fwd /\ no_failed_rollforward tl (fst (fst (arrive s b now)))
    end.

  Lemma run_J evs : forall s, J s -> f42 = true \/ no_failed_rollforward evs s -> J (run evs s).
  Proof.
    induction evs as [|[b now] tl IH]; intros s HJ H; cbn [Accept.run]; [exact HJ|].
    cbn [no_failed_rollforward] in H.
    destruct (arrive s b now) as [[s1 r] c] eqn:A. cbn [fst snd] in *.
    apply IH.
    - eapply arrive_J; [exact HJ|exact A|]. destruct H as [H|[H _]]; [left|right]; exact H.
    - destruct H as [H|[_ H]]; [left|right]; exact H.
  Qed.

  Lemma linked_at : forall l pre b p post,
    l = pre ++ b :: p :: post -> linked l -> b_parent b = b_id p /\ valid_for (b_id p) b.
  Proof.
    intros l pre. revert l. induction pre as [|x pre IH]; intros l b p post -> H.
    - cbn in H. destruct H as (H1 & H2 & _). split; assumption.
    - eapply IH; [reflexivity|]. eapply linked_tail. exact H.
  Qed.

  (** As long as no reorganisation failed in rollforward: every main-chain block is a child of
      the block below it and its signer owns its slot in the producer set in force after THAT
      parent (the "current" set of the property). *)
  Theorem connected_validated_against_parent_partial evs pre b p post :
    f42 = true \/ no_failed_rollforward evs init ->
    n_main (run evs init) = pre ++ b :: p :: post ->
    b_parent b = b_id p /\
    is_block_valid Z.eqb iv (cluster_of (b_id p)) (b_signer b) (b_ts b) = true.
  Proof.
    intros H E. assert (HJ : J (run evs init)).
    { apply run_J; [|exact H]. split; cbn; [exact I|reflexivity]. }
    destruct HJ as [Hl _]. exact (linked_at _ _ _ _ _ E Hl).
  Qed.

  (** general form kept for both values of the source flag *)
End Parent.

(** The code as it is (f42 = true: reorg() puts the consensus back on the best block when
    rollforward fails, /repo commit 05cfcb8b): for EVERY history each main-chain block is a
    child of the block below it and its signer owns its slot in the producer set in force
    after THAT parent. *)
Theorem connected_validated_against_parent iv cluster_of cap genesis evs pre b p post :
  n_main (run iv cluster_of cap genesis true evs (init genesis)) = pre ++ b :: p :: post ->
  b_parent b = b_id p /\
  is_block_valid Z.eqb iv (cluster_of (b_id p)) (b_signer b) (b_ts b) = true.
Proof.
  apply connected_validated_against_parent_partial. left. reflexivity.
Qed.

(** Without the repair (f42 = false, the code before 05cfcb8b) and without that hypothesis the
    statement is false of the faithful model (and was of the code: the corpus scenario
    stale-set-after-failed-reorg replayed it on the real ChainService; it is now a regression case).  Main
    chain g-1-2 under the set M = [10;20;30]; branch g-3-4-5 where block 3 elects N = [40;50;60]
    and block 5 is signed by a non-member: the reorganisation to 5 fails after Update(4); then
    block 6, child of 2, signed by the member of N owning its slot, is connected although its
    signer is not in the set in force after its parent 2. *)
Definition rf_g : block := Build_block 0 (-1) (-1) 0 true 0 true true.
Definition rf_cl (u : Z) : list Z := if (u =? 3) || (u =? 4) || (u =? 5) then [40; 50; 60] else [10; 20; 30].
Definition rf_ms (k : Z) : Z := ((k - 1) * 1000 + 5) * 1000000.
Definition rf_b1 := Build_block 1 0 20 (rf_ms 1) true 1 true true.
Definition rf_b2 := Build_block 2 1 30 (rf_ms 2) true 2 true true.
Definition rf_b3 := Build_block 3 0 30 (rf_ms 2 + 7) true 1 true true.
Definition rf_b4 := Build_block 4 3 40 (rf_ms 3) true 2 true true.
Definition rf_b5 := Build_block 5 4 99 (rf_ms 4) true 3 true true.
Definition rf_b6 := Build_block 6 2 40 (rf_ms 6) true 3 true true.
Definition rf_now : Z := rf_ms 9.
Definition rf_evs : list event :=
  [Arrive rf_b1 rf_now; Arrive rf_b2 rf_now; Arrive rf_b3 rf_now; Arrive rf_b4 rf_now; Arrive rf_b5 rf_now; Arrive rf_b6 rf_now].

Theorem connected_validated_against_parent_refuted :
  exists iv cluster_of cap genesis evs pre b p post,
    n_main (run iv cluster_of cap genesis false evs (init genesis)) = pre ++ b :: p :: post /\
    b_parent b = b_id p /\
    is_block_valid Z.eqb iv (cluster_of (b_id p)) (b_signer b) (b_ts b) = false /\
    ~ In (b_signer b) (cluster_of (b_id p)).
Proof.
  exists 1000, rf_cl, 3%nat, rf_g, rf_evs, [], rf_b6, rf_b2, [rf_b1; rf_g].
  split; [vm_compute; reflexivity|]. split; [reflexivity|]. split; [vm_compute; reflexivity|].
  vm_compute. intros [H|[H|[H|[]]]]; discriminate.
Qed.

Example ex_partial_nonvacuous :
  no_failed_rollforward 1000 rf_cl 3 rf_g false [Arrive rf_b1 rf_now; Arrive rf_b2 rf_now] (init rf_g) /\
  n_main (run 1000 rf_cl 3 rf_g false [Arrive rf_b1 rf_now; Arrive rf_b2 rf_now] (init rf_g)) = [] ++ rf_b2 :: rf_b1 :: [rf_g].
Proof. vm_compute. repeat split; discriminate. Qed.

(* ================================================================== *)
(** ---- other consensus types (raftv2, sbp): which clauses of C09 their consensus-level checks
    enforce.  The property is written for DPoS slots; for raft only the signature clause is
    checked by these functions (producer legitimacy comes from the raft log: only the leader's
    proposals are committed), for sbp (single block producer, development mode) none. *)
Theorem raft_accepts_iff_signature_and_key : forall key_parses sig_ok,
  checks_accept (raft_checks key_parses sig_ok) = true <-> sig_ok = true /\ key_parses = true.
Proof. intros [] []; cbn; split; intros H; try discriminate; try (destruct H; discriminate); auto. Qed.

(** a correctly signed block of a non-member, in a slot it does not own, two slots ahead of the
    clock, passes all three raft checks: the membership, slot and clock clauses are refuted *)
Theorem raft_producer_slot_clock_clauses_refuted :
  exists iv ids signer ts now,
    is_block_valid Z.eqb iv ids signer ts = false /\ ~ In signer ids /\
    is_future (from_unix_ns iv ts) (from_unix_ns iv now) = true /\
    checks_accept (raft_checks true true) = true.
Proof.
  exists 1000, [10; 20; 30], 99, (9000 * 1000000), (5000 * 1000000).
  split; [vm_compute; reflexivity|]. split; [intros [H|[H|[H|[]]]]; discriminate|].
  split; vm_compute; reflexivity.
Qed.

(** sbp accepts a block whose signature does not verify and whose key does not even parse *)
Theorem sbp_all_clauses_refuted : checks_accept (sbp_checks false false) = true.
Proof. reflexivity. Qed.

(* ================================================================== *)
(* ------------------------------------------------------------------ corollaries and model sanity *)
Section Corollaries.
  Variable iv : Z.
  Variable cluster_of : Z -> list Z.
  Variable cap : nat.
  Variable genesis : block.
  Variable f42 : bool.
  Notation run := (run iv cluster_of cap genesis f42).
  Notation arrive := (arrive iv cluster_of cap genesis f42).
  Notation init := (init genesis).

  (** A block whose signature does not verify is never connected, stored or even parked,
      whatever arrives in whatever order. *)
  Theorem forged_block_never_kept evs b :
    b_sig b = false -> b <> genesis ->
    let s := run evs init in ~ In b (n_main s) /\ ~ In b (n_store s) /\ ~ In b (n_orph s).
  Proof.
    intros Hs Hg. cbv zeta. repeat split; intros Hin.
    - destruct (accepted_blocks_legitimate iv cluster_of cap genesis f42 evs b Hin Hg) as ((H & _) & _). congruence.
    - destruct (stored_blocks_vetted iv cluster_of cap genesis f42 evs b Hin Hg) as (H & _). congruence.
    - destruct (parked_blocks_vetted iv cluster_of cap genesis f42 evs b Hin) as (H & _). congruence.
  Qed.

  (** A block that has only ever arrived while two or more slots ahead of the clock is not kept. *)
  Theorem always_future_block_never_kept evs b :
    (forall now, In (Arrive b now) evs -> is_future (from_unix_ns iv (b_ts b)) (from_unix_ns iv now) = true) ->
    b <> genesis ->
    let s := run evs init in ~ In b (n_main s) /\ ~ In b (n_store s) /\ ~ In b (n_orph s).
  Proof.
    intros Hf Hg. cbv zeta.
    assert (Hno : ~ vetted iv evs b).
    { intros (_ & _ & now & Hin & Hnf). rewrite (Hf now Hin) in Hnf. discriminate. }
    repeat split; intros Hin; apply Hno.
    - apply (accepted_blocks_legitimate iv cluster_of cap genesis f42 evs b Hin Hg).
    - apply (stored_blocks_vetted iv cluster_of cap genesis f42 evs b Hin Hg).
    - apply (parked_blocks_vetted iv cluster_of cap genesis f42 evs b Hin).
  Qed.

  (** An arrival two or more slots ahead of the clock, or with a foreign chain id, leaves the
      node untouched (in particular the block is not remembered as errored: it is accepted when
      it comes again in time); a bad signature only adds the block to errBlocks. *)
  Theorem future_arrival_leaves_node_unchanged s b now :
    is_future (from_unix_ns iv (b_ts b)) (from_unix_ns iv now) = true \/ b_cid b = false ->
    fst (fst (arrive s b now)) = s.
  Proof.
    intros H. unfold Accept.arrive, Accept.add_internal.
    destruct (mem_z (b_id b) (n_errs s)); [reflexivity|].
    destruct (has_id (n_store s) (b_id b)); [reflexivity|].
    destruct (is_future (from_unix_ns iv (b_ts b)) (from_unix_ns iv now)); [reflexivity|].
    destruct H as [H|H]; [discriminate|]. rewrite H. reflexivity.
  Qed.

  Theorem bad_signature_arrival_only_cached s b now :
    b_sig b = false ->
    let s' := fst (fst (arrive s b now)) in
    n_main s' = n_main s /\ n_store s' = n_store s /\ n_orph s' = n_orph s /\ n_upd s' = n_upd s.
  Proof.
    intros H. cbv zeta. unfold Accept.arrive, Accept.add_internal.
    destruct (mem_z (b_id b) (n_errs s)); [repeat split|].
    destruct (has_id (n_store s) (b_id b)); [repeat split|].
    destruct (is_future (from_unix_ns iv (b_ts b)) (from_unix_ns iv now)); [repeat split|].
    destruct (negb (b_cid b)); [repeat split|]. rewrite H. cbn. repeat split.
  Qed.
End Corollaries.

(* ================================================================== *)
(* ------------------------------------------------------------------ the fuel of the run loops suffices *)
Lemma filter_length_le' {A} (f : A -> bool) l : (length (filter f l) <= length l)%nat.
Proof. induction l as [|x l IH]; cbn; [lia|]. destruct (f x); cbn; lia. Qed.

Lemma remove_child_shorter l p o : find_child l p = Some o -> (length (remove_child l p) < length l)%nat.
Proof.
  unfold find_child, remove_child. induction l as [|x l IH]; cbn; [discriminate|].
  destruct (b_parent x =? p) eqn:E; cbn.
  - intros _. pose proof (filter_length_le' (fun b => negb (b_parent b =? p)) l). lia.
  - intros H. specialize (IH H). lia.
Qed.

Section Fuel.
  Variable iv : Z.
  Variable cluster_of : Z -> list Z.
  Variable genesis : block.

  (** R_fuel is unreachable: the orphan pool shrinks by one entry per resolved orphan. *)
  Theorem run_main_fuel_suffices fuel : forall s b,
    (length (n_orph s) <= fuel)%nat -> snd (fst (run_main iv cluster_of genesis fuel s b)) <> R_fuel.
  Proof.
    induction fuel as [|f IH]; intros s b Hlen; cbn [Accept.run_main]; unfold Accept.exec_block;
      destruct (valid_now iv cluster_of s b); [destruct (b_exec b)| |destruct (b_exec b)|];
      cbn [is_err R_ok R_exec R_invalid Z.leb Z.compare]; try (cbn; discriminate).
    - cbn [n_orph with_main store_block with_upd].
      destruct (n_orph s); [cbn; discriminate|cbn in Hlen; lia].
    - cbn [n_orph with_main store_block with_upd].
      destruct (find_child (n_orph s) (b_id b)) as [o|] eqn:FC; [|cbn; discriminate].
      destruct (b_no b + 1 =? b_no o); [|cbn; discriminate].
      set (s3 := with_orph _ _). specialize (IH s3 o).
      destruct (Accept.run_main iv cluster_of genesis f s3 o) as [[s4 r4] c4].
      cbn [fst snd] in *. apply IH. subst s3. cbn [n_orph with_orph with_main store_block with_upd].
      pose proof (remove_child_shorter _ _ _ FC). lia.
  Qed.

  Theorem run_side_fuel_suffices fuel : forall s b,
    (length (n_orph s) <= fuel)%nat -> snd (fst (run_side fuel s b)) <> R_fuel.
  Proof.
    induction fuel as [|f IH]; intros s b Hlen; cbn [Accept.run_side]; cbn [n_orph store_block].
    - destruct (n_orph s); [cbn; discriminate|cbn in Hlen; lia].
    - destruct (find_child (n_orph s) (b_id b)) as [o|] eqn:FC; [|cbn; discriminate].
      destruct (b_no b + 1 =? b_no o); [|cbn; discriminate].
      apply IH. cbn [n_orph with_orph]. pose proof (remove_child_shorter _ _ _ FC). lia.
  Qed.
End Fuel.

(** The stronger agreement_partial of DESIGN.md at the level of the rule: quorum intersection +
    a lock on correct producers.  Abstract block tree, abstract views of two nodes.
    What is proved: if in each of two views the LIB is below (an ancestor of) the proposals of
    2n/3+1 distinct producers of the SAME universe of n producers, every proposal is below the
    block of its producer that established it, and no correct producer has established a
    proposal in one view and signed, in the other view, a block whose branch excludes it (lock),
    then with f < n/3 the two LIBs are on one branch.
    What is NOT proved, and why it cannot be for the implementation as it is: see the end. *)
From Coq Require Import ZArith List Bool Lia.
From Verif Require Import Dpos.LibQuorum.
Import ListNotations.
Open Scope Z_scope.

Section Lock.
  Variable parent : Z -> option Z.

  Inductive anc : Z -> Z -> Prop :=
  | anc_refl : forall a, anc a a
  | anc_step : forall a b p, parent b = Some p -> anc a p -> anc a b.

  Lemma anc_trans : forall a b c, anc a b -> anc b c -> anc a c.
  Proof. intros a b c H1 H2. induction H2; auto. eapply anc_step; eauto. Qed.

  (** two ancestors of one block are on one branch *)
  Lemma anc_comparable : forall a c, anc a c -> forall b, anc b c -> anc a b \/ anc b a.
  Proof.
    intros a c H. induction H; intros b0 Hb.
    - right. exact Hb.
    - inversion Hb; subst.
      + left. eapply anc_step; eauto.
      + rewrite H in H1. inversion H1; subst. apply IHanc; auto.
  Qed.

  (** a node's view: its LIB and its proposal map producer -> (proposed block P, block X of that
      producer by which P became its proposal) *)
  Record view := mkView { v_lib : Z; v_entries : list (Z * (Z * Z)) }.

  Variable u : list Z.           (* the n producers *)
  Variable byz : list Z.

  (* Q: distinct producers whose proposals are at or above the LIB on its branch *)
  Definition supported (v : view) (Q : list Z) : Prop :=
    NoDup Q /\ incl Q u /\
    forall p, In p Q -> exists P X, In (p, (P, X)) (v_entries v) /\ anc (v_lib v) P /\ anc P X.

  (* lock: a correct producer's two establishing blocks are consistent: the chain of one of them
     contains the proposal established by the other *)
  Definition locked (v1 v2 : view) : Prop :=
    forall p P1 X1 P2 X2, ~ In p byz ->
      In (p, (P1, X1)) (v_entries v1) -> In (p, (P2, X2)) (v_entries v2) ->
      anc P1 X2 \/ anc P2 X1.

  Theorem agreement_under_lock : forall v1 v2 Q1 Q2,
    NoDup u ->
    let n := Z.of_nat (length u) in
    3 * Z.of_nat (length byz) < n ->
    supported v1 Q1 -> supported v2 Q2 ->
    2 * n / 3 + 1 <= Z.of_nat (length Q1) -> 2 * n / 3 + 1 <= Z.of_nat (length Q2) ->
    locked v1 v2 ->
    anc (v_lib v1) (v_lib v2) \/ anc (v_lib v2) (v_lib v1).
  Proof.
    intros v1 v2 Q1 Q2 Nu n Hf [N1 [I1 S1]] [N2 [I2 S2]] H1 H2 L.
    destruct (quorum_intersection u byz Q1 Q2 Nu N1 N2 I1 I2 Hf H1 H2) as [p [Hp1 [Hp2 Hb]]].
    destruct (S1 p Hp1) as [P1 [X1 [E1 [A1 B1]]]].
    destruct (S2 p Hp2) as [P2 [X2 [E2 [A2 B2]]]].
    destruct (L p P1 X1 P2 X2 Hb E1 E2) as [C|C].
    - (* X2's chain contains P1, hence both LIBs *)
      apply (anc_comparable _ X2 (anc_trans _ _ _ A1 C)).
      exact (anc_trans _ _ _ A2 B2).
    - apply (anc_comparable _ X1 (anc_trans _ _ _ A1 B1)).
      exact (anc_trans _ _ _ A2 C).
  Qed.
End Lock.

(** Example: the hypotheses are satisfiable (4 producers, chain 0 <- 1 <- 2 <- 3 <- 4). *)
Example agreement_under_lock_example :
  let parent := fun b => if b <=? 0 then None else Some (b - 1) in
  let v1 := mkView 1 [(0, (1, 2)); (1, (1, 3)); (2, (2, 4))] in
  let v2 := mkView 2 [(0, (2, 3)); (1, (2, 4)); (3, (2, 4))] in
  anc parent (v_lib v1) (v_lib v2) \/ anc parent (v_lib v2) (v_lib v1).
Proof.
  intros parent v1 v2. left. unfold v1, v2; simpl.
  eapply anc_step. reflexivity. apply anc_refl.
Qed.

(** Where the implementation-level theorem stops.
    To instantiate [supported] for a node of Dpos/Lib.v one needs
    (a) |Q| >= 2n/3+1 for the producer count n: calcLIB guarantees n' - (n'-1)/3 proposals at or
        above the LIB where n' is the number of ENTRIES of the map (lib_supported_by_two_thirds);
        this is 2n/3+1 only when the map has an entry for every producer.  With a sparse map the
        statement is false even if no correct producer ever signs anything
        (ProtocolProofs.agreement_refuted_single_producer: n' = 1);
    (b) "P is an ancestor of X and X is a block of that producer" for every entry: true when the
        entry is written (getPreLIB: P is an element of the confirms list below the last element X)
        but not carried as an invariant of Lib.v's proofs (SI speaks about Plib only; PlibBy can be
        a block of an abandoned branch after a reorganisation);
    (c) [locked] is not enforced by the code (F14b is a history in which correct producer B breaks
        it legitimately: its own LIB had not moved). *)

(** The three obstacles between [AgreementLock.agreement_under_lock] and the implementation, as
    facts about the model of the code, each with a witness that is also reproduced on the real
    dpos.Status by the check (corpus scenarios named below). *)
From Coq Require Import ZArith List Bool Lia.
From Verif Require Import Dpos.Lib Dpos.LibProofs Dpos.LibOnMain Dpos.Protocol Dpos.ProtocolProofs.
Import ListNotations.
Open Scope Z_scope.

(** (a) The 2/3 rule counts map entries, not producers: with 4 producers a node reports a LIB
    after blocks of one single producer (inflated Confirms).  corpus/C08/f14c_*.json, node 0. *)
Definition oa_events : list event :=
  [EDeliver (mkBlk 1 0 1 3 1); EDeliver (mkBlk 2 1 2 3 2); EDeliver (mkBlk 3 2 3 3 3)].
Example oa_values : lib_no (run (init_node 4 0) oa_events) = 1.
Proof. vm_compute. reflexivity. Qed.
Theorem lib_needs_two_thirds_of_producers_refuted :
  exists size self evs,
    4 <= size /\ Forall ev_ok evs /\ 0 < lib_no (run (init_node size self) evs) /\
    (forall b, In (EDeliver b) evs -> k_bp b = 3).
Proof.
  exists 4. exists 0. exists oa_events. split. lia. split.
  - repeat (apply Forall_cons; [unfold ev_ok, blk_ok; simpl; lia|]). apply Forall_nil.
  - split. rewrite oa_values. lia.
    intros b H. simpl in H. destruct H as [H|[H|[H|[]]]]; inversion H; reflexivity.
Qed.

(** (b) PlibBy is not kept on the main chain: after a reorganisation a proposal can name, as the
    block that established it, a block of the abandoned branch.  2 producers: blocks 1, 2 (producer
    0 establishes proposal 1 by block 2), then 3, 4 forking at block 1 win.
    corpus/C08/obstacle_plib_by_abandoned.json. *)
Definition ob_events : list event :=
  [EDeliver (mkBlk 1 0 1 1 1); EDeliver (mkBlk 2 1 2 0 2); EDeliver (mkBlk 3 1 2 1 1); EDeliver (mkBlk 4 3 3 1 1)].
Definition by_on_main (nd : node) : bool :=
  forallb (fun kv => let by_ := pl_by (snd kv) in
                     (b_no by_ =? 0) ||
                     match main_get (nd_main nd) (b_no by_) with Some m => k_id m =? b_id by_ | None => false end)
          (ls_prpsd (st_ls (nd_st nd))).
Example ob_values : by_on_main (run (init_node 2 0) ob_events) = false.
Proof. vm_compute. reflexivity. Qed.
Theorem plib_by_on_main_chain_refuted :
  exists size self evs, Forall ev_ok evs /\ by_on_main (run (init_node size self) evs) = false.
Proof.
  exists 2. exists 0. exists ob_events. split.
  - repeat (apply Forall_cons; [unfold ev_ok, blk_ok; simpl; lia|]). apply Forall_nil.
  - exact ob_values.
Qed.

(** (c) The lock is not a rule of the protocol: in the F14b history (valid for Protocol.v, one
    Byzantine producer of four) the correct producer 1 has, in correct node 0's proposal map, the
    proposal 15 (height 12) established by its block 19 (slot 21), and later (slot 25) signs
    block 22 whose branch does not contain block 15.  corpus/C08/f14b_*.json. *)
Definition lock_broken (w : world) (node p : Z) : bool :=
  match zget (w_nodes w) node with
  | None => false
  | Some nd =>
      match pget (ls_prpsd (st_ls (nd_st nd))) p with
      | None => false
      | Some pl =>
          match find_pblock (w_blocks w) (b_id (pl_by pl)) with
          | None => false
          | Some (x1, s1) =>
              (k_bp x1 =? p) &&
              existsb (fun bs => (k_bp (fst bs) =? p) && (s1 <? snd bs) &&
                                 negb (ancestor (length (w_blocks w)) (w_blocks w) (b_id (pl_plib pl)) (k_id (fst bs))))
                      (w_blocks w)
          end
      end
  end.
Example oc_values :
  match prun (init_world 4 [3]) f14b_history with
  | Some w => negb (is_byz w 1) && negb (is_byz w 0) && lock_broken w 0 1
  | None => false
  end = true.
Proof. vm_compute. reflexivity. Qed.
Theorem lock_not_enforced :
  exists w node p, prun (init_world 4 [3]) f14b_history = Some w /\ few_faults w = true /\
    is_byz w p = false /\ is_byz w node = false /\ lock_broken w node p = true.
Proof.
  pose proof oc_values as H.
  destruct (prun (init_world 4 [3]) f14b_history) as [w|] eqn:E; [|discriminate H].
  exists w. exists 0. exists 1. split; [reflexivity|].
  apply andb_true_iff in H. destruct H as [H H3]. apply andb_true_iff in H. destruct H as [H1 H2].
  apply negb_true_iff in H1. apply negb_true_iff in H2.
  destruct (refutes_sound _ _ _ f14b_history_valid_and_conflicting) as [w' [E' [F _]]].
  rewrite E in E'. inversion E'; subst w'. auto.
Qed.

(** Executable model of the block-producer election around the DPoS status.
    Mirrors /repo/consensus/impl/dpos/bp/cluster.go: election period 100, bootstrap height 300,
    snapBlockNo, Snapshots (cache of BP lists by reference height), AddSnapshot (gatherRankers at
    every block number that is a multiple of 100, UpdateCluster, gc of entries older than two
    periods), UpdateCluster / getCurrentCluster / loadClusterSnapshot (cache, else the state of the
    main-chain block at the reference height), Cluster.Update (the list, size = its length),
    NewSnapshots (UpdateCluster(best) at start-up); contract/system/vote.go GetRankers (the first
    BPCOUNT entries of the vote ranking stored in the state); and how status.go feeds it:
    Status.Update (AddSnapshot on the extend path, UpdateCluster on the rollback path, then
    libState.gc(bps) and setConfirmsRequired(bps.Size())), NewStatus (newLibStatus(c.Size())).

    system.GetRankers cuts the ranking read from a block's state at the node's IN-MEMORY BPCOUNT
    (system.GetBpCount), not at the BPCOUNT stored in that state (known finding
    C08:bp-snapshot-bpcount-from-memory; fixes/NOT_APPLIED_dpos_rankers_bpcount_from_state.diff).
    The first part of this file ([Section Election]) defines the election functions for a given
    cut ([sto] gives the ranking and the count to cut at); the second part ([Section ElectionMem])
    is the code as it is: every call is made with the cut [sto_mem mem] = (ranking of the state,
    current in-memory BPCOUNT), and the in-memory value follows system.InitSystemParams (start-up,
    after reorg.rollback: value of the fork point's state (F41), end of a reorganisation: value
    stored in the best block's state) and system.CommitParams(true)
    in Status.Update (after AddSnapshot: a change executed in the block becomes active).
    NewStatus reads the BP count after the snapshots are loaded (repair F24, committed).
    A block's state root is abstracted by [sto]: block id -> (vote ranking, BPCOUNT).
    No proofs in this file. *)
From Coq Require Import ZArith List Bool Lia.
From Verif Require Import Dpos.Lib.
Import ListNotations.
Open Scope Z_scope.

Definition election_period := 100.
Definition bootstrap_height := 300.
Definition snap_block_no (k : Z) : Z :=
  if k <? bootstrap_height then 0 else (k / election_period - 1) * election_period.
Definition is_snap_period (k : Z) : bool := k mod election_period =? 0.

Record snapshots := mkSn {
  sn_snaps : list (Z * list Z);    (* Snapshots.snaps: reference height -> BP list *)
  sn_cluster : list Z              (* Cluster.member by index (the list of the last Update) *)
}.
Definition esize (sn : snapshots) : Z := Z.of_nat (length (sn_cluster sn)).

Fixpoint snap_get (l : list (Z * list Z)) (k : Z) : option (list Z) :=
  match l with
  | [] => None
  | (h, v) :: tl => if h =? k then Some v else snap_get tl k
  end.
Definition snap_put (l : list (Z * list Z)) (k : Z) (v : list Z) : list (Z * list Z) :=
  (k, v) :: filter (fun hv => negb (fst hv =? k)) l.
Definition snap_gc (l : list (Z * list Z)) (k : Z) : list (Z * list Z) :=
  let g := if k >? 2 * election_period then k - 2 * election_period else 0 in
  filter (fun hv => negb (fst hv <? g)) l.

Section Election.
  Variable sto : Z -> list Z * Z.     (* block id -> (vote ranking, BPCOUNT) of its state *)
  Variable gen : list Z.              (* genesis BP list *)

  (* system.GetRankers on the state of block [id] *)
  Definition rankers (id : Z) : list Z := let '(r, n) := sto id in firstn (Z.to_nat n) r.

  Section WithChain.
    Variable g : Z -> option block.   (* cdb.GetBlockByNo *)

    Definition get_current_cluster (sn : snapshots) (k : Z) : option (list Z) :=
      let r := snap_block_no k in
      if r =? 0 then Some gen else
      match snap_get (sn_snaps sn) r with
      | Some l => Some l
      | None => match g r with Some b => Some (rankers (k_id b)) | None => None end
      end.

    (* UpdateCluster: returns the new state and the list handed to libStatus.gc *)
    Definition update_cluster (sn : snapshots) (k : Z) : snapshots * list Z :=
      match get_current_cluster sn k with
      | Some l => (mkSn (sn_snaps sn) l, l)
      | None => (sn, [])
      end.

    (* AddSnapshot(block.no) with the state DB at the block's own root *)
    Definition add_snapshot (sn : snapshots) (blk : block) : snapshots * list Z :=
      let k := k_no blk in
      if negb (is_snap_period k) || (k =? 0) then (sn, []) else
      let sn1 := mkSn (snap_put (sn_snaps sn) k (rankers (k_id blk))) (sn_cluster sn) in
      let '(sn2, bps) := update_cluster sn1 k in
      (mkSn (snap_gc (sn_snaps sn2) k) (sn_cluster sn2), bps).

    (** Status with its BP snapshots *)
    Record estatus := mkES { es_st : status; es_sn : snapshots }.

    Definition estatus_update (s : estatus) (blk : block) : estatus :=
      let '(sn', bps) :=
        if k_id (st_best (es_st s)) =? k_prev blk then add_snapshot (es_sn s) blk
        else update_cluster (es_sn s) (k_no blk) in
      mkES (status_update g bps (esize sn') (es_st s) blk) sn'.

    (* NewSnapshots + NewStatus + bootLoader at start-up *)
    Definition erestore (sv : option saved) (best : block) (self : Z) : estatus :=
      let sn := fst (update_cluster (mkSn [] gen) (k_no best)) in
      mkES (restore g sv best (esize sn) self) sn.
  End WithChain.

  (** The node *)
  Record enode := mkEN {
    en_self : Z;
    en_est : estatus;
    en_main : list block;
    en_store : list block;
    en_saved : option saved
  }.

  Definition einit_node (self : Z) : enode :=
    mkEN self (mkES (mkSt (new_lib_status (Z.of_nat (length gen)) self) genesis_block) (mkSn [] gen))
         [genesis_block] [genesis_block] None.

  Definition edeliver (nd : enode) (blk : block) : enode * outcome :=
    let st := es_st (en_est nd) in
    let ls := st_ls st in
    match find_block (en_store nd) (k_id blk) with
    | Some _ => (nd, ODup)
    | None =>
    if negb (verify_lib_rule ls blk) then (nd, OLeLib) else
    match find_block (en_store nd) (k_prev blk) with
    | None => (nd, OOrphan)
    | Some parent =>
    if negb (k_no parent + 1 =? k_no blk) then (nd, OInvalid) else
    let store' := blk :: en_store nd in
    let best := st_best st in
    if k_prev blk =? k_id best then
      let e' := estatus_update (main_get (en_main nd)) (en_est nd) blk in
      (mkEN (en_self nd) e' (en_main nd ++ [blk]) store' (Some (save (st_ls (es_st e')))), OConnected)
    else if k_no blk <=? k_no best then
      (mkEN (en_self nd) (en_est nd) (en_main nd) store' (en_saved nd), OSide)
    else
      match gather (length store') (en_main nd) store' blk [] with
      | None => (nd, OInvalid)
      | Some (root, new_blocks) =>
          if negb (need_reorganization ls (k_no root)) then
            (mkEN (en_self nd) (en_est nd) (en_main nd) store' (en_saved nd), OVeto)
          else
            let main_r := firstn (Z.to_nat (k_no root) + 1) (en_main nd) in
            let e1 := estatus_update (main_get main_r) (en_est nd) root in
            let e' := fold_left (estatus_update (main_get main_r)) new_blocks e1 in
            (mkEN (en_self nd) e' (main_r ++ new_blocks) store' (Some (save (st_ls (es_st e')))), OReorg)
      end
    end end.

  Definition erestart (nd : enode) : enode :=
    mkEN (en_self nd)
         (erestore (main_get (en_main nd)) (en_saved nd) (st_best (es_st (en_est nd))) (en_self nd))
         (en_main nd) (en_store nd) (en_saved nd).

  Definition estep (nd : enode) (e : event) : enode :=
    match e with EDeliver b => fst (edeliver nd b) | ERestart => erestart nd end.
  Definition erun (nd : enode) (evs : list event) : enode := fold_left estep evs nd.

  (** The producer set a node must be using when its main chain is [main] (best block at
      height [k]): the genesis list below the bootstrap height, else the ranking committed by
      the main-chain block at the reference height snapBlockNo(k). *)
  Definition cluster_spec (main : list block) (k : Z) : option (list Z) :=
    let r := snap_block_no k in
    if r =? 0 then Some gen else
    match main_get main r with Some b => Some (rankers (k_id b)) | None => None end.

  (** projection to the node of Dpos/Lib.v (same status, chain, store, saved status) *)
  Definition proj (nd : enode) : node :=
    mkNode (esize (es_sn (en_est nd))) (en_self nd) (es_st (en_est nd)) (en_main nd) (en_store nd) (en_saved nd).

  (** observation: the one of Lib.v plus the cluster *)
  Definition eobs_hash (code : Z) (nd : enode) : Z :=
    hash_list (flat_obs code (proj nd) ++ esize (es_sn (en_est nd)) :: sn_cluster (es_sn (en_est nd))).

  Inductive eop := EOpD (b : block) (h : Z) | EOpR (h : Z) | EOpS (h : Z).
  Fixpoint escenario_check (nd : enode) (ops : list eop) (i : nat) : option nat :=
    match ops with
    | [] => None
    | EOpD b h :: tl =>
        let '(nd', oc) := edeliver nd b in
        if eobs_hash (outcome_code oc) nd' =? h then escenario_check nd' tl (S i) else Some i
    | EOpR h :: tl =>
        let nd' := erestart nd in
        if eobs_hash 8 nd' =? h then escenario_check nd' tl (S i) else Some i
    | EOpS h :: tl =>
        if eobs_hash 8 (erestart nd) =? h then escenario_check nd tl (S i) else Some i
    end.
  Fixpoint escenario_obs_at (nd : enode) (ops : list eop) (i : nat) : list Z :=
    match ops with
    | [] => []
    | o :: tl =>
        let '(nd', code, keep) :=
          match o with
          | EOpD b _ => let '(nd', oc) := edeliver nd b in (nd', outcome_code oc, nd')
          | EOpR _ => (erestart nd, 8, erestart nd)
          | EOpS _ => (erestart nd, 8, nd)
          end in
        match i with
        | O => flat_obs code (proj nd') ++ esize (es_sn (en_est nd')) :: sn_cluster (es_sn (en_est nd'))
        | S j => escenario_obs_at keep tl j
        end
    end.
End Election.

(** * The code as it is: ranking cut at the in-memory BPCOUNT *)
Section ElectionMem.
  Variable sto : Z -> list Z * Z.     (* block id -> (vote ranking, BPCOUNT stored in its state) *)
  Variable gen : list Z.

  Definition sto_mem (mem : Z) : Z -> list Z * Z := fun id => (fst (sto id), mem).
  Definition param (id : Z) : Z := snd (sto id).

  Record mstatus := mkMS { ms_es : estatus; ms_mem : Z }.

  (* Status.Update: AddSnapshot/UpdateCluster with the current in-memory BPCOUNT, then
     CommitParams(true) on the extend path *)
  Definition mstatus_update (g : Z -> option block) (s : mstatus) (blk : block) : mstatus :=
    let parent := st_best (es_st (ms_es s)) in
    let extend := k_id parent =? k_prev blk in
    let es' := estatus_update (sto_mem (ms_mem s)) gen g (ms_es s) blk in
    mkMS es' (if extend && negb (param (k_id blk) =? param (k_id parent)) then param (k_id blk) else ms_mem s).

  Record mnode := mkMN {
    mn_self : Z;
    mn_ms : mstatus;
    mn_main : list block;
    mn_store : list block;
    mn_saved : option saved
  }.

  Definition minit_node (self : Z) : mnode :=
    let en := einit_node gen self in
    mkMN self (mkMS (en_est en) (param 0)) (en_main en) (en_store en) None.

  Definition mdeliver (nd : mnode) (blk : block) : mnode * outcome :=
    let st := es_st (ms_es (mn_ms nd)) in
    let ls := st_ls st in
    match find_block (mn_store nd) (k_id blk) with
    | Some _ => (nd, ODup)
    | None =>
    if negb (verify_lib_rule ls blk) then (nd, OLeLib) else
    match find_block (mn_store nd) (k_prev blk) with
    | None => (nd, OOrphan)
    | Some parent =>
    if negb (k_no parent + 1 =? k_no blk) then (nd, OInvalid) else
    let store' := blk :: mn_store nd in
    let best := st_best st in
    if k_prev blk =? k_id best then
      let m' := mstatus_update (main_get (mn_main nd)) (mn_ms nd) blk in
      (mkMN (mn_self nd) m' (mn_main nd ++ [blk]) store' (Some (save (st_ls (es_st (ms_es m'))))), OConnected)
    else if k_no blk <=? k_no best then
      (mkMN (mn_self nd) (mn_ms nd) (mn_main nd) store' (mn_saved nd), OSide)
    else
      match gather (length store') (mn_main nd) store' blk [] with
      | None => (nd, OInvalid)
      | Some (root, new_blocks) =>
          if negb (need_reorganization ls (k_no root)) then
            (mkMN (mn_self nd) (mn_ms nd) (mn_main nd) store' (mn_saved nd), OVeto)
          else
            let main_r := firstn (Z.to_nat (k_no root) + 1) (mn_main nd) in
            (* reorg.rollback: Update(root) still runs with the old best block's parameters; then
               cs.reloadSystemParams() loads those of the fork point's state (fix 3ddb1f18, F41) *)
            let m1 := mstatus_update (main_get main_r) (mn_ms nd) root in
            let m1' := mkMS (ms_es m1) (param (k_id root)) in
            let m2 := fold_left (mstatus_update (main_get main_r)) new_blocks m1' in
            (* chain.reorg ends with system.InitSystemParams(best state) *)
            let m' := mkMS (ms_es m2) (param (k_id blk)) in
            (mkMN (mn_self nd) m' (main_r ++ new_blocks) store' (Some (save (st_ls (es_st (ms_es m'))))), OReorg)
      end
    end end.

  (* start-up: parameters from the best block's state, then NewCluster/NewStatus *)
  Definition mrestart (nd : mnode) : mnode :=
    let best := st_best (es_st (ms_es (mn_ms nd))) in
    let mem := param (k_id best) in
    mkMN (mn_self nd)
         (mkMS (erestore (sto_mem mem) gen (main_get (mn_main nd)) (mn_saved nd) best (mn_self nd)) mem)
         (mn_main nd) (mn_store nd) (mn_saved nd).

  Definition mstep (nd : mnode) (e : event) : mnode :=
    match e with EDeliver b => fst (mdeliver nd b) | ERestart => mrestart nd end.
  Definition mrun (nd : mnode) (evs : list event) : mnode := fold_left mstep evs nd.

  Definition m_enode (nd : mnode) : enode :=
    mkEN (mn_self nd) (ms_es (mn_ms nd)) (mn_main nd) (mn_store nd) (mn_saved nd).
  Definition m_cluster (nd : mnode) : list Z := sn_cluster (es_sn (ms_es (mn_ms nd))).

  Definition mobs_flat (code : Z) (nd : mnode) : list Z :=
    flat_obs code (proj (m_enode nd)) ++ Z.of_nat (length (m_cluster nd)) :: m_cluster nd ++ [ms_mem (mn_ms nd)].
  Definition mobs_hash (code : Z) (nd : mnode) : Z := hash_list (mobs_flat code nd).

  Fixpoint mscenario_check (nd : mnode) (ops : list eop) (i : nat) : option nat :=
    match ops with
    | [] => None
    | EOpD b h :: tl =>
        let '(nd', oc) := mdeliver nd b in
        if mobs_hash (outcome_code oc) nd' =? h then mscenario_check nd' tl (S i) else Some i
    | EOpR h :: tl =>
        let nd' := mrestart nd in
        if mobs_hash 8 nd' =? h then mscenario_check nd' tl (S i) else Some i
    | EOpS h :: tl =>
        if mobs_hash 8 (mrestart nd) =? h then mscenario_check nd tl (S i) else Some i
    end.
  Fixpoint mscenario_obs_at (nd : mnode) (ops : list eop) (i : nat) : list Z :=
    match ops with
    | [] => []
    | o :: tl =>
        let '(nd', code, keep) :=
          match o with
          | EOpD b _ => let '(nd', oc) := mdeliver nd b in (nd', outcome_code oc, nd')
          | EOpR _ => (mrestart nd, 8, mrestart nd)
          | EOpS _ => (mrestart nd, 8, nd)
          end in
        match i with O => mobs_flat code nd' | S j => mscenario_obs_at keep tl j end
    end.
End ElectionMem.

(** scenario: genesis list, self, states (sid -> ranking, BPCOUNT), block id -> sid, ops *)
Fixpoint zassoc {A} (l : list (Z * A)) (k : Z) (d : A) : A :=
  match l with [] => d | (h, v) :: tl => if h =? k then v else zassoc tl k d end.
Definition ecase := (list Z * Z * list (Z * (list Z * Z)) * list (Z * Z) * list eop)%type.
Definition esto (states : list (Z * (list Z * Z))) (bs : list (Z * Z)) (id : Z) : list Z * Z :=
  zassoc states (zassoc bs id 0) ([], 0).
Definition escenario_first_diff (c : ecase) : Z :=
  let '(gen, self, states, bs, ops) := c in
  match mscenario_check (esto states bs) gen (minit_node (esto states bs) gen self) ops 0 with
  | None => -1 | Some i => Z.of_nat i end.
Definition escenario_debug (c : ecase) (i : nat) : list Z :=
  let '(gen, self, states, bs, ops) := c in
  mscenario_obs_at (esto states bs) gen (minit_node (esto states bs) gen self) ops i.

(** Executable model of the block-producer election around the DPoS status.
    Mirrors /repo/consensus/impl/dpos/bp/cluster.go: election period 100, bootstrap height 300,
    snapBlockNo, Snapshots (cache of BP lists by reference height), AddSnapshot (gatherRankers at
    every block number that is a multiple of 100, UpdateCluster, gc of entries older than two
    periods), UpdateCluster / getCurrentCluster / loadClusterSnapshot (cache, else the state of the
    main-chain block at the reference height), Cluster.Update (the list, size = its length),
    NewSnapshots (UpdateCluster(best) at start-up); contract/system/vote.go GetRankers (the first
    BPCOUNT entries of the vote ranking stored in the state); and how status.go feeds it:
    Status.Update (AddSnapshot on the extend path, UpdateCluster on the rollback path, then
    libState.gc(bps) and setConfirmsRequired(bps.Size())), NewStatus (newLibStatus(c.Size())).

    The model is the code AFTER the proposed repairs
      fixes/F23_dpos_rankers_bpcount_from_state.diff (GetRankers cuts the ranking at the BPCOUNT
        stored in the same state, not at the node's in-memory value) and
      fixes/F24_dpos_status_bp_count_after_snapshots.diff (NewStatus reads the BP count after the
        snapshots installed the best block's BP set).
    A block's state root is abstracted by [sto]: block id -> (vote ranking, BPCOUNT).
    No proofs in this file. *)
From Coq Require Import ZArith List Bool Lia.
From Verif Require Import Dpos.Lib.
Import ListNotations.
Open Scope Z_scope.

Definition election_period := 100.
Definition bootstrap_height := 300.
Definition snap_block_no (k : Z) : Z :=
  if k <? bootstrap_height then 0 else (k / election_period - 1) * election_period.
Definition is_snap_period (k : Z) : bool := k mod election_period =? 0.

Record snapshots := mkSn {
  sn_snaps : list (Z * list Z);    (* Snapshots.snaps: reference height -> BP list *)
  sn_cluster : list Z              (* Cluster.member by index (the list of the last Update) *)
}.
Definition esize (sn : snapshots) : Z := Z.of_nat (length (sn_cluster sn)).

Fixpoint snap_get (l : list (Z * list Z)) (k : Z) : option (list Z) :=
  match l with
  | [] => None
  | (h, v) :: tl => if h =? k then Some v else snap_get tl k
  end.
Definition snap_put (l : list (Z * list Z)) (k : Z) (v : list Z) : list (Z * list Z) :=
  (k, v) :: filter (fun hv => negb (fst hv =? k)) l.
Definition snap_gc (l : list (Z * list Z)) (k : Z) : list (Z * list Z) :=
  let g := if k >? 2 * election_period then k - 2 * election_period else 0 in
  filter (fun hv => negb (fst hv <? g)) l.

Section Election.
  Variable sto : Z -> list Z * Z.     (* block id -> (vote ranking, BPCOUNT) of its state *)
  Variable gen : list Z.              (* genesis BP list *)

  (* system.GetRankers on the state of block [id] *)
  Definition rankers (id : Z) : list Z := let '(r, n) := sto id in firstn (Z.to_nat n) r.

  Section WithChain.
    Variable g : Z -> option block.   (* cdb.GetBlockByNo *)

    Definition get_current_cluster (sn : snapshots) (k : Z) : option (list Z) :=
      let r := snap_block_no k in
      if r =? 0 then Some gen else
      match snap_get (sn_snaps sn) r with
      | Some l => Some l
      | None => match g r with Some b => Some (rankers (k_id b)) | None => None end
      end.

    (* UpdateCluster: returns the new state and the list handed to libStatus.gc *)
    Definition update_cluster (sn : snapshots) (k : Z) : snapshots * list Z :=
      match get_current_cluster sn k with
      | Some l => (mkSn (sn_snaps sn) l, l)
      | None => (sn, [])
      end.

    (* AddSnapshot(block.no) with the state DB at the block's own root *)
    Definition add_snapshot (sn : snapshots) (blk : block) : snapshots * list Z :=
      let k := k_no blk in
      if negb (is_snap_period k) || (k =? 0) then (sn, []) else
      let sn1 := mkSn (snap_put (sn_snaps sn) k (rankers (k_id blk))) (sn_cluster sn) in
      let '(sn2, bps) := update_cluster sn1 k in
      (mkSn (snap_gc (sn_snaps sn2) k) (sn_cluster sn2), bps).

    (** Status with its BP snapshots *)
    Record estatus := mkES { es_st : status; es_sn : snapshots }.

    Definition estatus_update (s : estatus) (blk : block) : estatus :=
      let '(sn', bps) :=
        if k_id (st_best (es_st s)) =? k_prev blk then add_snapshot (es_sn s) blk
        else update_cluster (es_sn s) (k_no blk) in
      mkES (status_update g bps (esize sn') (es_st s) blk) sn'.

    (* NewSnapshots + NewStatus + bootLoader at start-up *)
    Definition erestore (sv : option saved) (best : block) (self : Z) : estatus :=
      let sn := fst (update_cluster (mkSn [] gen) (k_no best)) in
      mkES (restore g sv best (esize sn) self) sn.
  End WithChain.

  (** The node *)
  Record enode := mkEN {
    en_self : Z;
    en_est : estatus;
    en_main : list block;
    en_store : list block;
    en_saved : option saved
  }.

  Definition einit_node (self : Z) : enode :=
    mkEN self (mkES (mkSt (new_lib_status (Z.of_nat (length gen)) self) genesis_block) (mkSn [] gen))
         [genesis_block] [genesis_block] None.

  Definition edeliver (nd : enode) (blk : block) : enode * outcome :=
    let st := es_st (en_est nd) in
    let ls := st_ls st in
    match find_block (en_store nd) (k_id blk) with
    | Some _ => (nd, ODup)
    | None =>
    if negb (verify_lib_rule ls blk) then (nd, OLeLib) else
    match find_block (en_store nd) (k_prev blk) with
    | None => (nd, OOrphan)
    | Some parent =>
    if negb (k_no parent + 1 =? k_no blk) then (nd, OInvalid) else
    let store' := blk :: en_store nd in
    let best := st_best st in
    if k_prev blk =? k_id best then
      let e' := estatus_update (main_get (en_main nd)) (en_est nd) blk in
      (mkEN (en_self nd) e' (en_main nd ++ [blk]) store' (Some (save (st_ls (es_st e')))), OConnected)
    else if k_no blk <=? k_no best then
      (mkEN (en_self nd) (en_est nd) (en_main nd) store' (en_saved nd), OSide)
    else
      match gather (length store') (en_main nd) store' blk [] with
      | None => (nd, OInvalid)
      | Some (root, new_blocks) =>
          if negb (need_reorganization ls (k_no root)) then
            (mkEN (en_self nd) (en_est nd) (en_main nd) store' (en_saved nd), OVeto)
          else
            let main_r := firstn (Z.to_nat (k_no root) + 1) (en_main nd) in
            let e1 := estatus_update (main_get main_r) (en_est nd) root in
            let e' := fold_left (estatus_update (main_get main_r)) new_blocks e1 in
            (mkEN (en_self nd) e' (main_r ++ new_blocks) store' (Some (save (st_ls (es_st e')))), OReorg)
      end
    end end.

  Definition erestart (nd : enode) : enode :=
    mkEN (en_self nd)
         (erestore (main_get (en_main nd)) (en_saved nd) (st_best (es_st (en_est nd))) (en_self nd))
         (en_main nd) (en_store nd) (en_saved nd).

  Definition estep (nd : enode) (e : event) : enode :=
    match e with EDeliver b => fst (edeliver nd b) | ERestart => erestart nd end.
  Definition erun (nd : enode) (evs : list event) : enode := fold_left estep evs nd.

  (** The producer set a node must be using when its main chain is [main] (best block at
      height [k]): the genesis list below the bootstrap height, else the ranking committed by
      the main-chain block at the reference height snapBlockNo(k). *)
  Definition cluster_spec (main : list block) (k : Z) : option (list Z) :=
    let r := snap_block_no k in
    if r =? 0 then Some gen else
    match main_get main r with Some b => Some (rankers (k_id b)) | None => None end.

  (** projection to the node of Dpos/Lib.v (same status, chain, store, saved status) *)
  Definition proj (nd : enode) : node :=
    mkNode (esize (es_sn (en_est nd))) (en_self nd) (es_st (en_est nd)) (en_main nd) (en_store nd) (en_saved nd).

  (** observation: the one of Lib.v plus the cluster *)
  Definition eobs_hash (code : Z) (nd : enode) : Z :=
    hash_list (flat_obs code (proj nd) ++ esize (es_sn (en_est nd)) :: sn_cluster (es_sn (en_est nd))).

  Inductive eop := EOpD (b : block) (h : Z) | EOpR (h : Z) | EOpS (h : Z).
  Fixpoint escenario_check (nd : enode) (ops : list eop) (i : nat) : option nat :=
    match ops with
    | [] => None
    | EOpD b h :: tl =>
        let '(nd', oc) := edeliver nd b in
        if eobs_hash (outcome_code oc) nd' =? h then escenario_check nd' tl (S i) else Some i
    | EOpR h :: tl =>
        let nd' := erestart nd in
        if eobs_hash 8 nd' =? h then escenario_check nd' tl (S i) else Some i
    | EOpS h :: tl =>
        if eobs_hash 8 (erestart nd) =? h then escenario_check nd tl (S i) else Some i
    end.
  Fixpoint escenario_obs_at (nd : enode) (ops : list eop) (i : nat) : list Z :=
    match ops with
    | [] => []
    | o :: tl =>
        let '(nd', code, keep) :=
          match o with
          | EOpD b _ => let '(nd', oc) := edeliver nd b in (nd', outcome_code oc, nd')
          | EOpR _ => (erestart nd, 8, erestart nd)
          | EOpS _ => (erestart nd, 8, nd)
          end in
        match i with
        | O => flat_obs code (proj nd') ++ esize (es_sn (en_est nd')) :: sn_cluster (es_sn (en_est nd'))
        | S j => escenario_obs_at keep tl j
        end
    end.
End Election.

(** scenario: genesis list, self, states (sid -> ranking, BPCOUNT), block id -> sid, ops *)
Fixpoint zassoc {A} (l : list (Z * A)) (k : Z) (d : A) : A :=
  match l with [] => d | (h, v) :: tl => if h =? k then v else zassoc tl k d end.
Definition ecase := (list Z * Z * list (Z * (list Z * Z)) * list (Z * Z) * list eop)%type.
Definition esto (states : list (Z * (list Z * Z))) (bs : list (Z * Z)) (id : Z) : list Z * Z :=
  zassoc states (zassoc bs id 0) ([], 0).
Definition escenario_first_diff (c : ecase) : Z :=
  let '(gen, self, states, bs, ops) := c in
  match escenario_check (esto states bs) gen (einit_node gen self) ops 0 with
  | None => -1 | Some i => Z.of_nat i end.
Definition escenario_debug (c : ecase) (i : nat) : list Z :=
  let '(gen, self, states, bs, ops) := c in
  escenario_obs_at (esto states bs) gen (einit_node gen self) ops i.

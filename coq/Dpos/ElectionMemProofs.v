(** The election as the code computes it (ranking cut at the in-memory BPCOUNT, Dpos/Election.v
    [Section ElectionMem]): refutation of "the producer set is a function of the main chain",
    the partial theorems for a constant BPCOUNT (by simulation with the state-cut functions of
    Dpos/ElectionProofs.v), and confirmsRequired = 2n/3+1 of the current producer count. *)
From Coq Require Import ZArith List Bool Lia.
From Verif Require Import Dpos.Lib Dpos.LibProofs Dpos.LibOnMain Dpos.Election Dpos.ElectionProofs.
Import ListNotations.
Open Scope Z_scope.

(** * Refutation *)
(** 3 genesis producers, ranking [0;1;2;3;4;5] in every state, BPCOUNT 3 until block 249 and 5
    from block 250 (DAO vote).  Online the snapshot taken at block 200 (cut at 3) is installed at
    block 300; the same node restarted at block 300 re-reads block 200's ranking and cuts it at
    its in-memory BPCOUNT 5. *)
Definition rf_sto (id : Z) : list Z * Z := ([0; 1; 2; 3; 4; 5], if id <? 250 then 3 else 5).
Fixpoint rf_chain (k : nat) (i : Z) : list event :=
  match k with O => [] | S k' => EDeliver (mkBlk i (i - 1) i (i mod 3) 1) :: rf_chain k' (i + 1) end.
Definition rf_evs : list event := rf_chain 300 1.
Local Notation rf_node := (mrun rf_sto [0; 1; 2] (minit_node rf_sto [0; 1; 2] 0) rf_evs).

Example rf_values : m_cluster rf_node = [0; 1; 2] /\
  m_cluster (mrestart rf_sto [0; 1; 2] rf_node) = [0; 1; 2; 3; 4] /\
  mn_main (mrestart rf_sto [0; 1; 2] rf_node) = mn_main rf_node.
Proof. vm_compute. repeat split; reflexivity. Qed.

Lemma rf_chain_ok : forall k i, 0 <= i -> Forall ev_ok (rf_chain k i).
Proof. induction k; simpl; intros; constructor. unfold ev_ok, blk_ok. simpl. lia. apply IHk. lia. Qed.

Lemma rf_direct : mn_main (mrestart rf_sto [0; 1; 2] rf_node) = mn_main rf_node /\
  m_cluster (mrestart rf_sto [0; 1; 2] rf_node) <> m_cluster rf_node.
Proof.
  destruct rf_values as [A [B C]].
  split; [exact C|]. intro H. pose proof (eq_trans (eq_sym B) (eq_trans H A)) as X. discriminate X.
Qed.

(** [cluster_function_of_chain_refuted]: a reachable node and the same node after a restart have
    the same main chain and different producer sets. *)
Theorem cluster_function_of_chain_refuted :
  exists sto gen self evs,
    Forall ev_ok evs /\
    mn_main (mrestart sto gen (mrun sto gen (minit_node sto gen self) evs)) =
      mn_main (mrun sto gen (minit_node sto gen self) evs) /\
    m_cluster (mrestart sto gen (mrun sto gen (minit_node sto gen self) evs)) <>
      m_cluster (mrun sto gen (minit_node sto gen self) evs).
Proof.
  exists rf_sto. exists [0; 1; 2]. exists 0. exists rf_evs.
  split. unfold rf_evs; apply rf_chain_ok; lia. exact rf_direct.
Qed.

(** * Constant BPCOUNT: the code computes what the state-cut functions compute *)
Section ConstParam.
  Variable rank : Z -> list Z.
  Variable n0 : Z.
  Variable gen : list Z.
  Let sto : Z -> list Z * Z := fun id => (rank id, n0).

  Definition embed (en : enode) : mnode :=
    mkMN (en_self en) (mkMS (en_est en) n0) (en_main en) (en_store en) (en_saved en).

  Lemma mstatus_update_embed : forall g es blk,
    mstatus_update sto gen g (mkMS es n0) blk = mkMS (estatus_update sto gen g es blk) n0.
  Proof.
    intros. unfold mstatus_update. cbn [ms_es ms_mem].
    change (sto_mem sto n0) with sto.
    unfold param, sto. cbn [snd]. rewrite Z.eqb_refl. cbn [negb]. rewrite andb_false_r. reflexivity.
  Qed.

  Lemma mfold_embed : forall g l es,
    fold_left (mstatus_update sto gen g) l (mkMS es n0) =
    mkMS (fold_left (estatus_update sto gen g) l es) n0.
  Proof.
    induction l; simpl; intros; auto. rewrite mstatus_update_embed. apply IHl.
  Qed.

  Lemma mdeliver_embed : forall en blk,
    mdeliver sto gen (embed en) blk =
    (embed (fst (edeliver sto gen en blk)), snd (edeliver sto gen en blk)).
  Proof.
    intros. unfold mdeliver, edeliver, embed. cbn [mn_store mn_ms mn_main mn_saved mn_self ms_es].
    destruct (find_block (en_store en) (k_id blk)); [reflexivity|].
    destruct (negb (verify_lib_rule _ blk)); [reflexivity|].
    destruct (find_block (en_store en) (k_prev blk)); [|reflexivity].
    destruct (negb (k_no b + 1 =? k_no blk)); [reflexivity|].
    destruct (k_prev blk =? k_id (st_best (es_st (en_est en)))).
    { rewrite mstatus_update_embed. reflexivity. }
    destruct (k_no blk <=? k_no (st_best (es_st (en_est en)))); [reflexivity|].
    destruct (gather _ _ _ _ _) as [[root nb]|]; [|reflexivity].
    destruct (negb (need_reorganization _ _)); [reflexivity|].
    rewrite mstatus_update_embed. cbn [ms_es].
    replace (param sto (k_id root)) with n0 by reflexivity.
    rewrite mfold_embed. cbn [fst snd ms_es].
    unfold param, sto. cbn [snd]. reflexivity.
  Qed.

  Lemma mrestart_embed : forall en, mrestart sto gen (embed en) = embed (erestart sto gen en).
  Proof.
    intros. unfold mrestart, erestart, embed. cbn [mn_store mn_ms mn_main mn_saved mn_self ms_es].
    unfold param, sto. cbn [snd]. reflexivity.
  Qed.

  Lemma mrun_embed : forall evs en, mrun sto gen (embed en) evs = embed (erun sto gen en evs).
  Proof.
    unfold mrun, erun. induction evs; simpl; intros; auto.
    destruct a; simpl.
    - rewrite mdeliver_embed. cbn [fst]. apply IHevs.
    - rewrite mrestart_embed. apply IHevs.
  Qed.

  Definition mreachable (nd : mnode) : Prop :=
    exists self evs, Forall ev_ok evs /\ nd = mrun sto gen (minit_node sto gen self) evs.

  Lemma mreachable_embed : forall nd, mreachable nd -> exists en, reachable sto gen en /\ nd = embed en.
  Proof.
    intros nd [self [evs [F E]]]. exists (erun sto gen (einit_node gen self) evs). split.
    - exists self, evs. auto.
    - subst. rewrite <- mrun_embed. reflexivity.
  Qed.

  (** [cluster_function_of_chain_partial]: if BPCOUNT never changes, the producer set installed
      after any history (forks, reorganisations across election boundaries, restarts) is the one
      the main chain determines. *)
  Theorem cluster_function_of_chain_partial : forall nd, mreachable nd ->
    cluster_spec sto gen (mn_main nd) (Z.of_nat (length (mn_main nd)) - 1) = Some (m_cluster nd).
  Proof.
    intros nd R. destruct (mreachable_embed nd R) as [en [Re E]]. subst.
    apply (cluster_function_of_chain sto gen en Re).
  Qed.

  Theorem same_chain_same_producers_partial : forall nd1 nd2, mreachable nd1 -> mreachable nd2 ->
    mn_main nd1 = mn_main nd2 -> m_cluster nd1 = m_cluster nd2.
  Proof.
    intros nd1 nd2 R1 R2 E. pose proof (cluster_function_of_chain_partial nd1 R1) as C1.
    pose proof (cluster_function_of_chain_partial nd2 R2) as C2. rewrite E in C1. congruence.
  Qed.

  Theorem restart_same_producers_partial : forall nd, mreachable nd ->
    m_cluster (mrestart sto gen nd) = m_cluster nd.
  Proof.
    intros nd R. destruct (mreachable_embed nd R) as [en [Re E]]. subst.
    rewrite mrestart_embed. apply (restart_same_producers sto gen en Re).
  Qed.

  (** the node-local finality clauses, with elections, for a constant BPCOUNT *)
  Theorem m_lib_on_main_chain_partial : forall nd, mreachable nd -> lib_on_main (proj (m_enode nd)) = true.
  Proof.
    intros nd R. destruct (mreachable_embed nd R) as [en [Re E]]. subst.
    replace (m_enode (embed en)) with en by (destruct en; reflexivity).
    apply (e_lib_on_main_chain sto gen en Re).
  Qed.
  Lemma minit_embed : forall self, minit_node sto gen self = embed (einit_node gen self).
  Proof. reflexivity. Qed.

  Theorem m_lib_monotone_partial : forall self evs1 evs2, Forall ev_ok (evs1 ++ evs2) ->
    e_lib_no (m_enode (mrun sto gen (minit_node sto gen self) evs1)) <=
    e_lib_no (m_enode (mrun sto gen (minit_node sto gen self) (evs1 ++ evs2))).
  Proof.
    intros self evs1 evs2 F. rewrite minit_embed, !mrun_embed.
    replace (m_enode (embed (erun sto gen (einit_node gen self) evs1))) with (erun sto gen (einit_node gen self) evs1)
      by (destruct (erun sto gen (einit_node gen self) evs1); reflexivity).
    replace (m_enode (embed (erun sto gen (einit_node gen self) (evs1 ++ evs2))))
      with (erun sto gen (einit_node gen self) (evs1 ++ evs2))
      by (destruct (erun sto gen (einit_node gen self) (evs1 ++ evs2)); reflexivity).
    apply e_lib_monotone; auto.
  Qed.

  Theorem m_finalized_never_undone_partial : forall self evs1 evs2 h b, Forall ev_ok (evs1 ++ evs2) ->
    0 <= h <= e_lib_no (m_enode (mrun sto gen (minit_node sto gen self) evs1)) ->
    main_get (mn_main (mrun sto gen (minit_node sto gen self) evs1)) h = Some b ->
    main_get (mn_main (mrun sto gen (minit_node sto gen self) (evs1 ++ evs2))) h = Some b.
  Proof.
    intros self evs1 evs2 h b F. rewrite minit_embed, !mrun_embed.
    replace (m_enode (embed (erun sto gen (einit_node gen self) evs1))) with (erun sto gen (einit_node gen self) evs1)
      by (destruct (erun sto gen (einit_node gen self) evs1); reflexivity).
    cbn [embed mn_main]. apply e_finalized_never_undone; auto.
  Qed.
End ConstParam.

(** * confirmsRequired follows the current producer count (any BPCOUNT history) *)
Section CrCurrent.
  Variable sto : Z -> list Z * Z.
  Variable gen : list Z.

  Definition m_cr_ok (nd : mnode) : Prop :=
    ls_cr (st_ls (es_st (ms_es (mn_ms nd)))) = confirms_required (Z.of_nat (length (m_cluster nd))).

  Lemma mstatus_update_cr : forall g s blk,
    ls_cr (st_ls (es_st (ms_es (mstatus_update sto gen g s blk)))) =
    confirms_required (esize (es_sn (ms_es (mstatus_update sto gen g s blk)))).
  Proof. intros. unfold mstatus_update. cbn [ms_es]. apply estatus_update_cr. Qed.

  Lemma mfold_cr : forall g l s, l <> [] ->
    ls_cr (st_ls (es_st (ms_es (fold_left (mstatus_update sto gen g) l s)))) =
    confirms_required (esize (es_sn (ms_es (fold_left (mstatus_update sto gen g) l s)))).
  Proof.
    induction l as [|y l' IH]; intros s0 Hne; [congruence|]. simpl.
    destruct l'. simpl. apply mstatus_update_cr. apply IH. discriminate.
  Qed.

  Lemma mdeliver_cr : forall nd blk, m_cr_ok nd -> m_cr_ok (fst (mdeliver sto gen nd blk)).
  Proof.
    intros nd blk H. unfold mdeliver.
    destruct (find_block (mn_store nd) (k_id blk)); [exact H|].
    destruct (negb (verify_lib_rule _ blk)); [exact H|].
    destruct (find_block (mn_store nd) (k_prev blk)); [|exact H].
    destruct (negb (k_no b + 1 =? k_no blk)); [exact H|].
    destruct (k_prev blk =? k_id _).
    { unfold m_cr_ok, m_cluster. cbn [fst mn_ms]. apply mstatus_update_cr. }
    destruct (k_no blk <=? k_no _); [exact H|].
    destruct (gather _ _ _ _ _) as [[root nb]|]; [|exact H].
    destruct (negb (need_reorganization _ _)); [exact H|].
    unfold m_cr_ok, m_cluster. cbn [fst mn_ms ms_es].
    destruct nb as [|x tl]. simpl. apply mstatus_update_cr. apply mfold_cr. discriminate.
  Qed.

  Lemma mrestart_cr : forall nd, m_cr_ok (mrestart sto gen nd).
  Proof.
    intros. unfold m_cr_ok, m_cluster, mrestart, erestore. cbn [mn_ms ms_es es_st es_sn].
    unfold restore. destruct (mn_saved nd) as [[[p l] lpb]|]; cbn [st_ls].
    - rewrite load_cr. reflexivity.
    - reflexivity.
  Qed.

  (** [confirms_required_current]: in every reachable node of the model of the code as it is
      (any history, any BPCOUNT changes), confirmsRequired = 2n/3+1 of the current producer count. *)
  Theorem confirms_required_current_mem : forall self evs,
    m_cr_ok (mrun sto gen (minit_node sto gen self) evs).
  Proof.
    intros self evs. unfold mrun.
    assert (I : m_cr_ok (minit_node sto gen self)) by reflexivity.
    revert I. generalize (minit_node sto gen self).
    induction evs; simpl; intros; auto. apply IHevs. destruct a; simpl.
    apply mdeliver_cr; auto. apply mrestart_cr.
  Qed.
End CrCurrent.


(** * The weaker hypothesis is not sufficient *)
(** "BPCOUNT unchanged between the reference block and the best block" -- even "BPCOUNT constant
    on the whole main chain" -- does not make the producer set a function of the main chain.
    reorg.rollback calls Status.Update(fork point) BEFORE the parameters are reloaded (fix F41
    reloads them right after), so UpdateCluster(fork point) still runs with the abandoned
    branch's in-memory BPCOUNT; when the snapshot is not cached (the node was restarted since the
    last boundary) the ranking is re-read and cut at that value, and it stays installed until the
    next boundary.  Main chain 1..356 with BPCOUNT 3 everywhere; node A restarted at 350, then
    received an abandoned branch 1351..1355 on which BPCOUNT was 5; node B never saw it.
    Block ids: main chain id = height, abandoned branch id = 1000 + height. *)
Definition wk_sto (id : Z) : list Z * Z := ([0; 1; 2; 3; 4; 5], if 1000 <? id then 5 else 3).
Fixpoint wk_seg (k : nat) (i off : Z) : list event :=
  match k with
  | O => []
  | S k' => EDeliver (mkBlk (off + i) (if i =? 351 then 350 else off + i - 1) i (i mod 3) 1) :: wk_seg k' (i + 1) off
  end.
Definition wk_common : list event := wk_seg 350 1 0 ++ [ERestart].
Definition wk_old : list event := wk_seg 5 351 1000.
Definition wk_new : list event := wk_seg 6 351 0.
Definition wk_evs_a : list event := wk_common ++ wk_old ++ wk_new.
Definition wk_evs_b : list event := wk_common ++ wk_new.
Local Notation wk_a := (mrun wk_sto [0; 1; 2] (minit_node wk_sto [0; 1; 2] 0) wk_evs_a).
Local Notation wk_b := (mrun wk_sto [0; 1; 2] (minit_node wk_sto [0; 1; 2] 0) wk_evs_b).

Example wk_same_main : mn_main wk_a = mn_main wk_b.
Proof. vm_compute. reflexivity. Qed.
Example wk_main_const : forallb (fun b => param wk_sto (k_id b) =? 3) (mn_main wk_a) = true.
Proof. vm_compute. reflexivity. Qed.
Example wk_clusters : m_cluster wk_a = [0; 1; 2; 3; 4] /\ m_cluster wk_b = [0; 1; 2].
Proof. vm_compute. split; reflexivity. Qed.

Lemma wk_seg_ok : forall k i off, 0 <= off -> 0 < i -> Forall ev_ok (wk_seg k i off).
Proof. induction k; simpl; intros; constructor. unfold ev_ok, blk_ok. simpl. lia. apply IHk; lia. Qed.

Theorem cluster_function_of_chain_main_const_refuted :
  exists sto gen self evs1 evs2,
    Forall ev_ok evs1 /\ Forall ev_ok evs2 /\
    mn_main (mrun sto gen (minit_node sto gen self) evs1) = mn_main (mrun sto gen (minit_node sto gen self) evs2) /\
    forallb (fun b => param sto (k_id b) =? 3) (mn_main (mrun sto gen (minit_node sto gen self) evs1)) = true /\
    m_cluster (mrun sto gen (minit_node sto gen self) evs1) <> m_cluster (mrun sto gen (minit_node sto gen self) evs2).
Proof.
  exists wk_sto. exists [0; 1; 2]. exists 0. exists wk_evs_a. exists wk_evs_b.
  assert (C : Forall ev_ok wk_common).
  { unfold wk_common. apply Forall_app; split; [apply wk_seg_ok; lia|]. constructor; [exact I|constructor]. }
  split. { unfold wk_evs_a, wk_old, wk_new. apply Forall_app; split; [exact C|].
           apply Forall_app; split; apply wk_seg_ok; lia. }
  split. { unfold wk_evs_b, wk_new. apply Forall_app; split; [exact C|apply wk_seg_ok; lia]. }
  split. exact wk_same_main. split. exact wk_main_const.
  destruct wk_clusters as [A B]. intro H.
  pose proof (eq_trans (eq_sym A) (eq_trans H B)) as X. discriminate X.
Qed.

(** Proofs about the block-producer election model (Dpos/Election.v): the producer set is a
    function of the main chain, confirmsRequired follows the current producer count, retired
    producers are dropped at the boundary; the node-local finality theorems hold with elections.
    [EI]: the installed producer set is the one the chain specifies and every cached snapshot
    agrees with the chain; [ENI] = NI of the projected node + EI + confirmsRequired. *)
From Coq Require Import ZArith List Bool Lia.
From Verif Require Import Dpos.Lib Dpos.LibProofs Dpos.LibOnMain Dpos.LibQuorum Dpos.LibQuorumHist Dpos.Election.
Import ListNotations.
Open Scope Z_scope.


(** * Arithmetic of reference heights *)
Lemma snap_block_no_le : forall k, 0 <= k -> 0 <= snap_block_no k <= k.
Proof.
  intros k Hk. unfold snap_block_no, bootstrap_height, election_period.
  destruct (k <? 300) eqn:E. lia. apply Z.ltb_ge in E.
  pose proof (Z.div_mod k 100 ltac:(lia)). pose proof (Z.mod_pos_bound k 100 ltac:(lia)).
  assert (3 <= k / 100) by (apply Z.div_le_lower_bound; lia). lia.
Qed.

Lemma snap_block_no_succ : forall k, 0 <= k -> (k + 1) mod 100 <> 0 ->
  snap_block_no (k + 1) = snap_block_no k.
Proof.
  intros k Hk Hm. unfold snap_block_no, bootstrap_height, election_period.
  pose proof (Z.div_mod k 100 ltac:(lia)) as D. pose proof (Z.mod_pos_bound k 100 ltac:(lia)) as B.
  pose proof (Z.div_mod (k + 1) 100 ltac:(lia)) as D1. pose proof (Z.mod_pos_bound (k + 1) 100 ltac:(lia)) as B1.
  assert (Q : (k + 1) / 100 = k / 100).
  { assert (k mod 100 <> 99).
    { intro. apply Hm. rewrite <- Z.add_mod_idemp_l by lia. rewrite H. reflexivity. }
    symmetry. apply (Z.div_unique (k + 1) 100 (k / 100) (k mod 100 + 1)); lia. }
  destruct (k <? 300) eqn:E; destruct (k + 1 <? 300) eqn:E1; auto.
  - apply Z.ltb_lt in E. apply Z.ltb_ge in E1. assert (k + 1 = 300) by lia. exfalso. apply Hm. rewrite H. reflexivity.
  - apply Z.ltb_ge in E. apply Z.ltb_lt in E1. lia.
  - rewrite Q. reflexivity.
Qed.

Lemma snap_block_no_period : forall k, 0 <= k -> snap_block_no k mod 100 = 0.
Proof.
  intros. unfold snap_block_no, bootstrap_height, election_period.
  destruct (k <? 300). reflexivity. apply Z.mod_mul. lia.
Qed.

Lemma snap_block_no_lt : forall k, 0 < k -> k mod 100 = 0 -> snap_block_no k < k.
Proof.
  intros k Hk Hm. unfold snap_block_no, bootstrap_height, election_period.
  destruct (k <? 300). lia.
  pose proof (Z.div_mod k 100 ltac:(lia)). lia.
Qed.


Lemma main_get_lt_some : forall (m : list block) r, 0 <= r < Z.of_nat (length m) -> exists b, main_get m r = Some b.
Proof.
  intros m r H. unfold main_get. destruct (r <? 0) eqn:E. apply Z.ltb_lt in E; lia.
  destruct (nth_error m (Z.to_nat r)) eqn:N. eauto.
  apply nth_error_None in N. lia.
Qed.

Lemma snap_get_In : forall l r v, snap_get l r = Some v -> In (r, v) l.
Proof.
  induction l as [|[h w] tl]; simpl; intros; try discriminate.
  destruct (h =? r) eqn:E. inversion H; subst. apply Z.eqb_eq in E. subst. auto. right; auto.
Qed.

Lemma snap_get_put : forall l k v r, snap_get (snap_put l k v) r = if k =? r then Some v else snap_get l r.
Proof.
  intros. unfold snap_put. simpl. destruct (k =? r) eqn:E; auto.
  induction l as [|[h w] tl]; simpl; auto.
  destruct (h =? k) eqn:E2; simpl.
  - rewrite IHtl. destruct (h =? r) eqn:E3; auto. apply Z.eqb_eq in E2, E3. apply Z.eqb_neq in E. lia.
  - destruct (h =? r); auto.
Qed.

Section EI.
  Variable sto : Z -> list Z * Z.
  Variable gen : list Z.

  (** the cache is consistent with chain C: keys are election boundaries and every entry whose
      height exists on C holds the ranking committed by C's block at that height *)
  Definition cache_ok (C : list block) (snaps : list (Z * list Z)) : Prop :=
    forall r l, In (r, l) snaps ->
      r mod 100 = 0 /\ 0 < r /\ forall b, main_get C r = Some b -> l = rankers sto (k_id b).

  Definition EI (C : list block) (k : Z) (sn : snapshots) : Prop :=
    cluster_spec sto gen C k = Some (sn_cluster sn) /\ cache_ok C (sn_snaps sn).

  Lemma cache_ok_filter : forall C f l, cache_ok C l -> cache_ok C (filter f l).
  Proof. intros C f l H r v I. apply filter_In in I. destruct I. apply H; auto. Qed.

  Lemma cache_ok_nil : forall C, cache_ok C [].
  Proof. intros C r l []. Qed.

  (** update_cluster computes the specification when the cache is consistent with chain C, [g]
      reads a prefix G of C, and the reference height is on G or cached *)
  Lemma update_cluster_spec : forall G rest k sn,
    cache_ok (G ++ rest) (sn_snaps sn) -> 0 <= k -> snap_block_no k < Z.of_nat (length (G ++ rest)) ->
    (snap_block_no k < Z.of_nat (length G) \/ exists l, snap_get (sn_snaps sn) (snap_block_no k) = Some l) ->
    exists l, cluster_spec sto gen (G ++ rest) k = Some l /\
              update_cluster sto gen (main_get G) sn k = (mkSn (sn_snaps sn) l, l).
  Proof.
    intros G rest k sn Hc Hk Hl Hg. unfold update_cluster, get_current_cluster, cluster_spec.
    pose proof (snap_block_no_le k Hk) as R.
    destruct (snap_block_no k =? 0) eqn:E0. { eexists; split; reflexivity. }
    destruct (main_get_lt_some (G ++ rest) (snap_block_no k) ltac:(lia)) as [b Gb]. rewrite Gb.
    destruct (snap_get (sn_snaps sn) (snap_block_no k)) as [l|] eqn:S.
    - apply snap_get_In in S. destruct (Hc _ _ S) as [_ [_ Q]]. rewrite (Q b Gb).
      eexists; split; reflexivity.
    - destruct Hg as [Hg|[l Hg]]; [|discriminate].
      destruct (main_get_lt_some G (snap_block_no k) ltac:(lia)) as [b' Gb'].
      rewrite Gb'. rewrite (main_get_app _ rest _ _ Gb') in Gb. inversion Gb; subst.
      eexists; split; reflexivity.
  Qed.

  (** extension by a block that is not an election boundary *)
  Lemma EI_extend_plain : forall C k sn x,
    EI C k sn -> 0 <= k -> Z.of_nat (length C) = k + 1 -> (k + 1) mod 100 <> 0 ->
    EI (C ++ [x]) (k + 1) sn.
  Proof.
    intros C k sn x [Hs Hc] Hk Hl Hm. split.
    - unfold cluster_spec in *. rewrite snap_block_no_succ by auto.
      destruct (snap_block_no k =? 0); auto.
      pose proof (snap_block_no_le k Hk).
      destruct (main_get_lt_some C (snap_block_no k) ltac:(lia)) as [b Gb].
      rewrite Gb in Hs. rewrite (main_get_app _ _ _ _ Gb). exact Hs.
    - intros r l I. destruct (Hc r l I) as [A [B Q]]. repeat split; auto.
      intros b Gb. destruct (main_get_app_inv _ _ _ _ Gb) as [G|[G _]]; auto.
      exfalso. apply Hm. rewrite <- Hl, <- G. exact A.
  Qed.
  Lemma cluster_spec_app : forall C x k, 0 <= k -> snap_block_no k < Z.of_nat (length C) ->
    cluster_spec sto gen (C ++ x) k = cluster_spec sto gen C k.
  Proof.
    intros C x k Hk Hl. unfold cluster_spec. destruct (snap_block_no k =? 0); auto.
    pose proof (snap_block_no_le k Hk).
    destruct (main_get_lt_some C (snap_block_no k) ltac:(lia)) as [b Gb].
    rewrite Gb. rewrite (main_get_app _ _ _ _ Gb). reflexivity.
  Qed.

  (** the most recent election boundary above r0 (if any) is cached *)
  Definition has_latest (r0 k : Z) (snaps : list (Z * list Z)) : Prop :=
    forall r, r mod 100 = 0 -> r0 < r <= k -> k - r < 100 -> exists l, snap_get snaps r = Some l.

  Lemma snap_get_filter_head : forall f h v tl, f (h, v) = true -> snap_get (filter f ((h, v) :: tl)) h = Some v.
  Proof. intros. simpl. rewrite H. simpl. rewrite Z.eqb_refl. reflexivity. Qed.

  (** AddSnapshot on the extend path; [g] reads the prefix G of the chain *)
  Lemma add_snapshot_EI : forall G rest k sn x sn' bps,
    let C := G ++ rest in
    EI C k sn -> 0 <= k -> Z.of_nat (length C) = k + 1 -> k_no x = k + 1 -> G <> [] ->
    has_latest (Z.of_nat (length G) - 1) k (sn_snaps sn) ->
    add_snapshot sto gen (main_get G) sn x = (sn', bps) ->
    EI (C ++ [x]) (k + 1) sn' /\ (bps = [] \/ bps = sn_cluster sn') /\
    has_latest (Z.of_nat (length G) - 1) (k + 1) (sn_snaps sn').
  Proof.
    intros G rest k sn x sn' bps C E Hk Hl Hx HG HL A.
    assert (HG' : 0 < Z.of_nat (length G)) by (destruct G; [congruence | simpl; lia]).
    unfold add_snapshot in A. rewrite Hx in A.
    unfold is_snap_period, election_period in A.
    destruct (negb ((k + 1) mod 100 =? 0) || (k + 1 =? 0)) eqn:Cond.
    { inversion A; subst. split; [|split]; auto.
      - apply EI_extend_plain; auto.
        apply orb_true_iff in Cond. destruct Cond as [Cd|Cd].
        + apply negb_true_iff, Z.eqb_neq in Cd. exact Cd.
        + apply Z.eqb_eq in Cd. lia.
      - intros r Hr Hb Hd. apply HL; auto; try lia.
        assert (r <> k + 1).
        { intro. subst r. apply orb_true_iff in Cond. destruct Cond as [Cd|Cd].
          apply negb_true_iff, Z.eqb_neq in Cd; auto. apply Z.eqb_eq in Cd; lia. }
        lia. }
    apply orb_false_iff in Cond. destruct Cond as [Em E0].
    apply negb_false_iff, Z.eqb_eq in Em.
    destruct E as [Hs Hc].
    set (sn1 := mkSn (snap_put (sn_snaps sn) (k + 1) (rankers sto (k_id x))) (sn_cluster sn)) in *.
    assert (C1 : cache_ok C (sn_snaps sn1)).
    { intros r l I. unfold sn1 in I. cbn [sn_snaps] in I. unfold snap_put in I. destruct I as [I|I].
      - inversion I; subst. repeat split; auto; try lia. intros b Gb.
        destruct (main_get_some_lt _ _ _ Gb). lia.
      - apply filter_In in I. destruct I. apply Hc; auto. }
    pose proof (snap_block_no_lt (k + 1) ltac:(lia) Em) as Lt.
    pose proof (snap_block_no_le (k + 1) ltac:(lia)) as Le.
    pose proof (snap_block_no_period (k + 1) ltac:(lia)) as Pe.
    assert (Hg : snap_block_no (k + 1) < Z.of_nat (length G) \/
                 exists l, snap_get (sn_snaps sn1) (snap_block_no (k + 1)) = Some l).
    { destruct (Z_lt_ge_dec (snap_block_no (k + 1)) (Z.of_nat (length G))); auto. right.
      assert (Hd : k - snap_block_no (k + 1) < 100).
      { unfold snap_block_no, bootstrap_height, election_period in *.
        destruct (k + 1 <? 300) eqn:E3.
        - exfalso. lia.
        - pose proof (Z.div_mod (k + 1) 100 ltac:(lia)). lia. }
      destruct (HL (snap_block_no (k + 1)) Pe ltac:(lia) Hd) as [l Sl].
      exists l. unfold sn1. cbn [sn_snaps]. rewrite snap_get_put.
      destruct (k + 1 =? snap_block_no (k + 1)) eqn:E4; auto. apply Z.eqb_eq in E4. lia. }
    destruct (update_cluster_spec G rest (k + 1) sn1 C1 ltac:(lia) ltac:(fold C; lia) Hg) as [l [Sp U]].
    rewrite U in A. apply pair_equal_spec in A. destruct A as [A1 A2]. subst sn' bps.
    cbn [sn_snaps sn_cluster]. split; [|split]; auto.
    - split.
      + cbn [sn_cluster]. rewrite cluster_spec_app by lia. exact Sp.
      + cbn [sn_snaps]. unfold snap_gc. apply cache_ok_filter. intros r v I.
        unfold sn1 in I. cbn [sn_snaps] in I. unfold snap_put in I. destruct I as [I|I].
        * inversion I; subst. repeat split; auto; try lia. intros b Gb.
          rewrite <- Hl in Gb. rewrite main_get_app_last in Gb. inversion Gb; subst. reflexivity.
        * apply filter_In in I. destruct I as [I F]. destruct (Hc _ _ I) as [P [Q R]]. repeat split; auto.
          intros b Gb. destruct (main_get_app_inv _ _ _ _ Gb) as [G0|[G0 _]]; auto.
          exfalso. cbn [fst] in F. apply negb_true_iff, Z.eqb_neq in F. lia.
    - intros r Hr Hb Hd. assert (r = k + 1).
      { pose proof (Z.div_mod r 100 ltac:(lia)). pose proof (Z.div_mod (k + 1) 100 ltac:(lia)). lia. }
      subst r. exists (rankers sto (k_id x)). unfold sn1. cbn [sn_snaps]. unfold snap_gc, snap_put.
      apply snap_get_filter_head. cbn [fst]. apply negb_true_iff, Z.ltb_ge.
      unfold election_period. destruct (k + 1 >? 2 * 100); lia.
  Qed.

  (** UpdateCluster on the rollback path / at start-up *)
  Lemma update_cluster_EI : forall C k snaps cl sn' bps,
    cache_ok C snaps -> 0 <= k -> Z.of_nat (length C) = k + 1 ->
    update_cluster sto gen (main_get C) (mkSn snaps cl) k = (sn', bps) ->
    EI C k sn' /\ bps = sn_cluster sn' /\ sn_snaps sn' = snaps.
  Proof.
    intros C k snaps cl sn' bps Hc Hk Hl U.
    pose proof (snap_block_no_le k Hk).
    assert (Hc' : cache_ok (C ++ []) (sn_snaps (mkSn snaps cl))) by (rewrite app_nil_r; exact Hc).
    destruct (update_cluster_spec C [] k (mkSn snaps cl) Hc' Hk ltac:(rewrite app_nil_r; lia) ltac:(left; lia))
      as [l [Sp U']].
    rewrite app_nil_r in Sp.
    rewrite U' in U. apply pair_equal_spec in U. destruct U; subst. cbn. split; auto. split; auto.
  Qed.

  Lemma cache_ok_firstn : forall C r snaps, 0 <= r -> cache_ok C snaps ->
    cache_ok (firstn (Z.to_nat r + 1) C) snaps.
  Proof.
    intros C r snaps Hr H h l I. destruct (H h l I) as [A [B Q]]. repeat split; auto.
    intros b Gb. apply main_get_firstn in Gb; auto. destruct Gb. auto.
  Qed.
End EI.


Section ENode.
  Variable sto : Z -> list Z * Z.
  Variable gen : list Z.

  Definition e_ls (nd : enode) := st_ls (es_st (en_est nd)).
  Definition e_best (nd : enode) := st_best (es_st (en_est nd)).
  Definition e_sn (nd : enode) := es_sn (en_est nd).

  Record ENI (nd : enode) : Prop := mkENI {
    eni_ni : NI (proj nd);
    eni_ei : EI sto gen (en_main nd) (k_no (e_best nd)) (e_sn nd);
    eni_cr : ls_cr (e_ls nd) = confirms_required (esize (e_sn nd))
  }.

  Lemma ENI_init : forall self, ENI (einit_node gen self).
  Proof.
    intros. constructor.
    - apply (NI_init (Z.of_nat (length gen)) self).
    - split. reflexivity. apply cache_ok_nil.
    - reflexivity.
  Qed.

  Lemma estatus_update_best : forall g s blk, st_best (es_st (estatus_update sto gen g s blk)) = blk.
  Proof.
    intros. unfold estatus_update.
    destruct (if k_id (st_best (es_st s)) =? k_prev blk then _ else _) as [sn' bps]. reflexivity.
  Qed.

  Lemma estatus_update_cr : forall g s blk,
    ls_cr (st_ls (es_st (estatus_update sto gen g s blk))) =
    confirms_required (esize (es_sn (estatus_update sto gen g s blk))).
  Proof.
    intros. unfold estatus_update.
    destruct (if k_id (st_best (es_st s)) =? k_prev blk then _ else _) as [sn' bps]. reflexivity.
  Qed.

  Lemma WF_best_nonneg : forall s C p, WF s C p -> 0 <= k_no p.
  Proof. intros s C p W. destruct (main_get_some_lt _ _ _ (wf_last _ _ _ W)). auto. Qed.

  (** one extend step of Status.Update with its snapshots; [g] reads the prefix G *)
  Lemma estatus_extend : forall store G rest s x,
    let C := G ++ rest in
    let p := st_best (es_st s) in
    WF store C p -> G <> [] ->
    k_prev x = k_id p -> k_no x = k_no p + 1 -> In x store ->
    SI (onm C) (st_ls (es_st s)) ->
    EI sto gen C (k_no p) (es_sn s) ->
    has_latest (Z.of_nat (length G) - 1) (k_no p) (sn_snaps (es_sn s)) ->
    let s' := estatus_update sto gen (main_get G) s x in
    WF store (C ++ [x]) x /\ SI (onm (C ++ [x])) (st_ls (es_st s')) /\
    EI sto gen (C ++ [x]) (k_no x) (es_sn s') /\
    has_latest (Z.of_nat (length G) - 1) (k_no x) (sn_snaps (es_sn s')).
  Proof.
    intros store G rest s x C p W HG Hp Hn Hi S E HL s'.
    assert (W' : WF store (C ++ [x]) x) by (eapply WF_snoc; eauto).
    pose proof (WF_best_nonneg _ _ _ W) as K0.
    unfold s', estatus_update. fold p.
    replace (k_id p =? k_prev x) with true by (symmetry; apply Z.eqb_eq; congruence).
    destruct (add_snapshot sto gen (main_get G) (es_sn s) x) as [sn' bps] eqn:A.
    destruct (add_snapshot_EI sto gen G rest (k_no p) (es_sn s) x sn' bps E K0 (wf_len _ _ _ W) Hn HG HL A)
      as [E' [_ HL']].
    cbn [es_st es_sn]. rewrite Hn.
    split; [exact W'|]. split; [|split; [exact E' | exact HL']].
    apply status_update_extend_SI.
    - eapply SI_impl; [|exact S]. intros. apply onm_app; auto.
    - apply onm_info_of. apply (wf_last _ _ _ W').
    - apply gen_onm. apply (wf_gen _ _ _ W').
    - apply Z.eqb_eq. fold p. congruence.
  Qed.

  Lemma efold_extend : forall store G nb rest s,
    let p := st_best (es_st s) in
    chain_from store p nb -> WF store (G ++ rest) p -> G <> [] ->
    SI (onm (G ++ rest)) (st_ls (es_st s)) ->
    EI sto gen (G ++ rest) (k_no p) (es_sn s) ->
    has_latest (Z.of_nat (length G) - 1) (k_no p) (sn_snaps (es_sn s)) ->
    let s' := fold_left (estatus_update sto gen (main_get G)) nb s in
    WF store (G ++ rest ++ nb) (st_best (es_st s')) /\
    SI (onm (G ++ rest ++ nb)) (st_ls (es_st s')) /\
    EI sto gen (G ++ rest ++ nb) (k_no (st_best (es_st s'))) (es_sn s') /\
    st_best (es_st s') = last nb p.
  Proof.
    induction nb as [|x tl]; intros rest s p Hc W HG S E HL; simpl fold_left.
    - rewrite app_nil_r. split; [exact W|]. split; [exact S|]. split; [exact E|reflexivity].
    - destruct Hc as [H1 [H2 [H3 H4]]].
      destruct (estatus_extend store G rest s x W HG H1 H2 H3 S E HL) as [W' [S' [E' HL']]].
      set (s1 := estatus_update sto gen (main_get G) s x) in *.
      assert (B1 : st_best (es_st s1) = x) by apply estatus_update_best.
      assert (Q : G ++ rest ++ x :: tl = G ++ (rest ++ [x]) ++ tl).
      { rewrite <- (app_assoc rest). reflexivity. }
      rewrite Q. rewrite last_cons_default.
      rewrite <- (app_assoc G rest [x]) in *.
      replace ((G ++ rest) ++ [x]) with (G ++ rest ++ [x]) in * by (rewrite app_assoc; reflexivity).
      specialize (IHtl (rest ++ [x]) s1). rewrite B1 in IHtl. apply IHtl; auto.
  Qed.
End ENode.


Section ENode2.
  Variable sto : Z -> list Z * Z.
  Variable gen : list Z.

  Lemma has_latest_vacuous : forall k snaps, has_latest k k snaps.
  Proof. intros k snaps r _ H. lia. Qed.

  Lemma edeliver_ENI : forall nd blk, ENI sto gen nd -> blk_ok blk -> ENI sto gen (fst (edeliver sto gen nd blk)).
  Proof.
    intros nd blk [N E Cr] Hid. unfold e_sn, e_best, e_ls in *.
    pose proof (NI_WF _ N) as W. unfold WFn in W. cbn [proj nd_store nd_main nd_st] in W.
    unfold edeliver.
    destruct (find_block (en_store nd) (k_id blk)) eqn:Fid; [constructor; auto|].
    destruct (negb (verify_lib_rule (st_ls (es_st (en_est nd))) blk)); [constructor; auto|].
    destruct (find_block (en_store nd) (k_prev blk)) as [parent|] eqn:Fp; [|constructor; auto].
    destruct (negb (k_no parent + 1 =? k_no blk)) eqn:En; [constructor; auto|].
    apply negb_false_iff, Z.eqb_eq in En.
    destruct (find_block_some _ _ _ Fp) as [Ipar Epar].
    assert (U' : uniq (blk :: en_store nd)) by (apply uniq_cons; [apply (ni_uniq _ N)|auto]).
    assert (I' : ids_ok (blk :: en_store nd)).
    { intros x [Ex|Hx]. subst; auto. apply (ni_ids _ N); auto. }
    assert (W' : WF (blk :: en_store nd) (en_main nd) (st_best (es_st (en_est nd)))).
    { eapply WF_store_mono; eauto. intros x Hx; right; auto. }
    set (best := st_best (es_st (en_est nd))) in *.
    assert (Ibest : In best (en_store nd)) by (apply (ni_height _ N _ _ (ni_best _ N))).
    pose proof (WF_best_nonneg _ _ _ W) as K0.
    assert (Hmain : en_main nd <> []).
    { intro Q. pose proof (wf_len _ _ _ W) as L. rewrite Q in L. simpl in L. lia. }
    destruct (k_prev blk =? k_id best) eqn:Eb.
    - (* connected *)
      apply Z.eqb_eq in Eb. cbn [fst].
      assert (parent = best).
      { eapply uniq_inj. apply (ni_uniq _ N). auto. auto. congruence. }
      subst parent.
      assert (Wn : WF (blk :: en_store nd) (en_main nd ++ []) best) by (rewrite app_nil_r; exact W').
      assert (Sn : SI (onm (en_main nd ++ [])) (st_ls (es_st (en_est nd)))).
      { rewrite app_nil_r. apply (ni_si _ N). }
      assert (En' : EI sto gen (en_main nd ++ []) (k_no best) (es_sn (en_est nd))) by (rewrite app_nil_r; exact E).
      assert (HLn : has_latest (Z.of_nat (length (en_main nd)) - 1) (k_no best) (sn_snaps (es_sn (en_est nd)))).
      { rewrite (wf_len _ _ _ W). replace (k_no best + 1 - 1) with (k_no best) by lia. apply has_latest_vacuous. }
      destruct (estatus_extend sto gen (blk :: en_store nd) (en_main nd) [] (en_est nd) blk Wn Hmain Eb
                  ltac:(fold best; lia) ltac:(left; reflexivity) Sn En' HLn) as [W2 [S2 [E2 _]]].
      rewrite app_nil_r in *.
      set (e' := estatus_update sto gen (main_get (en_main nd)) (en_est nd) blk) in *.
      assert (B2 : st_best (es_st e') = blk) by apply estatus_update_best.
      constructor.
      + apply NI_of; unfold proj; cbn [nd_main nd_st nd_store nd_saved en_est en_main en_store en_saved en_self]; auto.
        * unfold WFn. cbn [nd_main nd_st nd_store en_est en_main en_store]. rewrite B2. exact W2.
        * unfold save. destruct S2 as [a [b c]]. split; auto.
      + unfold e_best, e_sn. cbn [en_est en_main]. rewrite B2. exact E2.
      + apply estatus_update_cr.
    - destruct (k_no blk <=? k_no best) eqn:Es.
      + (* side *)
        cbn [fst]. constructor; auto.
        apply NI_of; unfold proj; cbn [nd_main nd_st nd_store nd_saved en_est en_main en_store en_saved en_self]; auto.
        apply (ni_si _ N). apply (ni_saved _ N).
      + destruct (gather (length (blk :: en_store nd)) (en_main nd) (blk :: en_store nd) blk [])
          as [[root nb]|] eqn:G; [|constructor; auto].
        destruct (negb (need_reorganization (st_ls (es_st (en_est nd))) (k_no root))) eqn:Ev.
        * (* veto *)
          cbn [fst]. constructor; auto.
          apply NI_of; unfold proj; cbn [nd_main nd_st nd_store nd_saved en_est en_main en_store en_saved en_self]; auto.
          apply (ni_si _ N). apply (ni_saved _ N).
        * (* reorg *)
          cbn [fst].
          apply negb_false_iff in Ev. unfold need_reorganization in Ev. apply Z.leb_le in Ev.
          destruct (reorg_facts (proj nd) blk root nb N Hid Fid G) as [Wr [Cn [Epath R0]]].
          cbn [proj nd_store nd_main nd_st] in Wr, Cn, Epath.
          set (r := k_no root) in *.
          set (main_r := firstn (Z.to_nat r + 1) (en_main nd)) in *.
          set (e1 := estatus_update sto gen (main_get main_r) (en_est nd) root).
          (* rollback step *)
          assert (Hr : main_r <> []).
          { intro Q. pose proof (wf_len _ _ _ Wr) as L. rewrite Q in L. simpl in L. fold r in L. lia. }
          destruct (update_cluster sto gen (main_get main_r) (es_sn (en_est nd)) r) as [sn1 bps1] eqn:U.
          assert (Ee1 : e1 = mkES (status_update (main_get main_r) bps1 (esize sn1) (es_st (en_est nd)) root) sn1).
          { unfold e1, estatus_update. fold best in Epath. fold best. rewrite Epath. fold r. rewrite U. reflexivity. }
          destruct E as [Esp Ech].
          assert (Uc : EI sto gen main_r r sn1 /\ bps1 = sn_cluster sn1 /\ sn_snaps sn1 = sn_snaps (es_sn (en_est nd))).
          { destruct (es_sn (en_est nd)) as [snaps cl] eqn:Sn0. cbn [sn_snaps] in *.
            apply (update_cluster_EI sto gen main_r r snaps cl sn1 bps1).
            - apply cache_ok_firstn; [exact R0 | exact Ech].
            - exact R0.
            - pose proof (wf_len _ _ _ Wr) as L. fold r in L. exact L.
            - exact U. }
          destruct Uc as [E1 [_ Sn1]].
          assert (S1 : SI (onm main_r) (st_ls (es_st e1))).
          { rewrite Ee1. cbn [es_st].
            eapply status_update_rollback_SI with (P := onm (en_main nd)).
            - apply (ni_si _ N).
            - apply gen_onm. apply (wf_gen _ _ _ Wr).
            - intros bi [x [Gx Ex]] Hle. exists x. split; auto.
              pose proof (main_get_firstn_app (en_main nd) [] r (b_no bi) x) as Q.
              rewrite app_nil_r in Q. apply Q; auto.
              destruct (main_get_some_lt _ _ _ Gx). fold r in Hle. lia.
            - intros i b Gb. apply onm_info_of.
              destruct (wf_height _ _ _ Wr _ _ Gb) as [Hb _]. rewrite Hb. exact Gb.
            - fold r. exact Ev.
            - exact Epath. }
          assert (B1 : st_best (es_st e1) = root) by apply estatus_update_best.
          assert (Wr0 : WF (blk :: en_store nd) (main_r ++ []) (st_best (es_st e1))).
          { rewrite app_nil_r, B1. exact Wr. }
          assert (HL1 : has_latest (Z.of_nat (length main_r) - 1) (k_no (st_best (es_st e1))) (sn_snaps (es_sn e1))).
          { rewrite B1. pose proof (wf_len _ _ _ Wr) as L. rewrite L.
            replace (k_no root + 1 - 1) with (k_no root) by lia. apply has_latest_vacuous. }
          assert (E10 : EI sto gen (main_r ++ []) (k_no (st_best (es_st e1))) (es_sn e1)).
          { rewrite app_nil_r, B1. rewrite Ee1. cbn [es_sn]. exact E1. }
          assert (S10 : SI (onm (main_r ++ [])) (st_ls (es_st e1))) by (rewrite app_nil_r; exact S1).
          assert (Cn1 : chain_from (blk :: en_store nd) (st_best (es_st e1)) nb) by (rewrite B1; exact Cn).
          destruct (efold_extend sto gen (blk :: en_store nd) main_r nb [] e1 Cn1 Wr0 Hr S10 E10 HL1)
            as [W2 [S2 [E2 B2]]].
          simpl app in W2, S2, E2.
          fold e1.
          set (e' := fold_left (estatus_update sto gen (main_get main_r)) nb e1) in *.
          constructor.
          -- apply NI_of; unfold proj; cbn [nd_main nd_st nd_store nd_saved en_est en_main en_store en_saved en_self]; auto.
             unfold save. destruct S2 as [a [b c]]. split; auto.
          -- exact E2.
          -- (* cr: the last update sets it; nb is not empty because blk is not on the main chain *)
             destruct nb as [|x tl].
             ++ simpl in e'. unfold e', e_ls, e_sn. cbn [en_est]. apply estatus_update_cr.
             ++ unfold e_ls, e_sn. cbn [en_est].
                assert (forall l s, l <> [] ->
                  ls_cr (st_ls (es_st (fold_left (estatus_update sto gen (main_get main_r)) l s))) =
                  confirms_required (esize (es_sn (fold_left (estatus_update sto gen (main_get main_r)) l s)))) as F.
                { induction l as [|y l' IH]; intros s0 Hne; [congruence|]. simpl.
                  destruct l'. simpl. apply estatus_update_cr. apply IH. discriminate. }
                apply F. discriminate.
  Qed.
End ENode2.


Lemma load_cr : forall g ls e, ls_cr (load g ls e) = ls_cr ls.
Proof.
  intros. unfold load. cbv zeta. destruct (e =? 0); auto.
  destruct (load_plib_status _ _ _ _ _); auto. destruct (ls_confirms l); reflexivity.
Qed.

Lemma NI_size : forall s1 s2 self st main store sv,
  NI (mkNode s1 self st main store sv) -> NI (mkNode s2 self st main store sv).
Proof. intros s1 s2 self st main store sv [a b c d e f g h i]. constructor; auto. Qed.

Section ENode3.
  Variable sto : Z -> list Z * Z.
  Variable gen : list Z.

  Lemma erestart_ENI : forall nd, ENI sto gen nd -> ENI sto gen (erestart sto gen nd).
  Proof.
    intros nd [N E Cr]. unfold e_sn, e_best, e_ls in *.
    pose proof (NI_WF _ N) as W. unfold WFn in W. cbn [proj nd_store nd_main nd_st] in W.
    pose proof (WF_best_nonneg _ _ _ W) as K0.
    unfold erestart, erestore.
    destruct (update_cluster sto gen (main_get (en_main nd)) (mkSn [] gen) (k_no (st_best (es_st (en_est nd)))))
      as [sn1 bps1] eqn:U.
    destruct (update_cluster_EI sto gen (en_main nd) _ [] gen sn1 bps1 (cache_ok_nil sto _) K0 (wf_len _ _ _ W) U)
      as [E1 _].
    cbn [fst].
    constructor.
    - unfold proj. cbn [en_est en_main en_store en_saved en_self es_st es_sn].
      pose proof (restart_NI (mkNode (esize sn1) (en_self nd) (es_st (en_est nd)) (en_main nd) (en_store nd) (en_saved nd))) as R.
      unfold restart in R. cbn [nd_size nd_self nd_st nd_main nd_store nd_saved] in R.
      apply R. eapply NI_size. exact N.
    - unfold e_best, e_sn. cbn [en_est en_main es_st es_sn].
      assert (B : st_best (restore (main_get (en_main nd)) (en_saved nd) (st_best (es_st (en_est nd))) (esize sn1) (en_self nd))
                  = st_best (es_st (en_est nd))).
      { unfold restore. destruct (en_saved nd) as [[[p l] lpb]|]; reflexivity. }
      rewrite B. exact E1.
    - unfold e_ls, e_sn. cbn [en_est es_st es_sn]. unfold restore.
      destruct (en_saved nd) as [[[p l] lpb]|]; cbn [st_ls].
      + rewrite load_cr. reflexivity.
      + reflexivity.
  Qed.

  Lemma estep_ENI : forall nd e, ENI sto gen nd -> ev_ok e -> ENI sto gen (estep sto gen nd e).
  Proof. destruct e; simpl; intros. apply edeliver_ENI; auto. apply erestart_ENI; auto. Qed.

  Lemma erun_ENI : forall evs nd, ENI sto gen nd -> Forall ev_ok evs -> ENI sto gen (erun sto gen nd evs).
  Proof.
    unfold erun. induction evs; simpl; intros; auto. inversion H0; subst.
    apply IHevs; auto. apply estep_ENI; auto.
  Qed.

  Definition reachable (nd : enode) : Prop :=
    exists self evs, Forall ev_ok evs /\ nd = erun sto gen (einit_node gen self) evs.

  Lemma reachable_ENI : forall nd, reachable nd -> ENI sto gen nd.
  Proof. intros nd [self [evs [F E]]]. subst. apply erun_ENI; auto. apply ENI_init. Qed.

  (** height of the best block = length of the main chain - 1 *)
  Lemma best_height : forall nd, ENI sto gen nd -> k_no (e_best nd) = Z.of_nat (length (en_main nd)) - 1.
  Proof.
    intros nd [N _ _]. pose proof (ni_len _ N) as L. unfold proj in L. cbn in L. unfold e_best. lia.
  Qed.

  (** [cluster_function_of_chain]: after any history of deliveries (forks, reorganisations across
      election boundaries, vetoes) and restarts, the producer set installed in the node is the one
      its main chain determines: the genesis list while the best block is below the bootstrap
      height, else the first BPCOUNT entries of the vote ranking committed by the main-chain block
      at the reference height snapBlockNo(best). *)
  Theorem cluster_function_of_chain : forall nd, reachable nd ->
    cluster_spec sto gen (en_main nd) (Z.of_nat (length (en_main nd)) - 1) = Some (sn_cluster (e_sn nd)).
  Proof.
    intros nd R. pose proof (reachable_ENI nd R) as I. rewrite <- (best_height nd I).
    destruct I as [_ [E _] _]. exact E.
  Qed.

  (** Two nodes with the same main chain use the same producer set, whatever their histories. *)
  Theorem same_chain_same_producers : forall nd1 nd2, reachable nd1 -> reachable nd2 ->
    en_main nd1 = en_main nd2 -> sn_cluster (e_sn nd1) = sn_cluster (e_sn nd2).
  Proof.
    intros nd1 nd2 R1 R2 E. pose proof (cluster_function_of_chain nd1 R1) as C1.
    pose proof (cluster_function_of_chain nd2 R2) as C2. rewrite E in C1. congruence.
  Qed.

  (** A restart does not change the producer set. *)
  Theorem restart_same_producers : forall nd, reachable nd ->
    sn_cluster (e_sn (erestart sto gen nd)) = sn_cluster (e_sn nd).
  Proof.
    intros nd [self [evs [F E]]]. apply same_chain_same_producers.
    - exists self, (evs ++ [ERestart]). split.
      + apply Forall_app. split; auto. constructor; simpl; auto.
      + subst. unfold erun. rewrite fold_left_app. reflexivity.
    - exists self, evs. auto.
    - reflexivity.
  Qed.

  (** [confirms_required_current]: confirmsRequired is 2n/3+1 of the current producer count. *)
  Theorem confirms_required_current : forall nd, reachable nd ->
    ls_cr (e_ls nd) = confirms_required (esize (e_sn nd)).
  Proof. intros nd R. destruct (reachable_ENI nd R) as [_ _ C]. exact C. Qed.

  (** [retired_producers_dropped]: when Update of an election-boundary block installs a new
      (non-empty) producer set, the proposal map keeps only entries of its members: proposals of
      retired producers are not counted by calcLIB after the boundary. *)
  Theorem retired_producers_dropped : forall g s blk sn' bps,
    (k_id (st_best (es_st s)) =? k_prev blk) = true ->
    add_snapshot sto gen g (es_sn s) blk = (sn', bps) -> bps <> [] ->
    bps = sn_cluster sn' /\
    Forall (fun kv => In (fst kv) bps) (ls_prpsd (st_ls (es_st (estatus_update sto gen g s blk)))).
  Proof.
    intros g s blk sn' bps P A Hb. split.
    - unfold add_snapshot in A.
      destruct (negb (is_snap_period (k_no blk)) || (k_no blk =? 0)). { inversion A; subst. congruence. }
      unfold update_cluster in A.
      destruct (get_current_cluster _ _ _ _ _) as [l|]; apply pair_equal_spec in A; destruct A; subst; auto.
      congruence.
    - unfold estatus_update. rewrite P, A. cbn [es_st]. unfold status_update. cbn [st_ls].
      unfold set_cr, gc, set_prpsd, set_confirms. cbn [ls_prpsd].
      unfold prpsd_gc. destruct bps as [|b0 bt]; [congruence|].
      apply Forall_forall. intros kv I. apply filter_In in I. destruct I as [_ I].
      unfold zmem in I. apply existsb_exists in I. destruct I as [y [Iy Ey]]. apply Z.eqb_eq in Ey. subst. exact Iy.
  Qed.
End ENode3.


(** * The node-local finality theorems with elections (changing producer set and confirmsRequired) *)
Section ENode4.
  Variable sto : Z -> list Z * Z.
  Variable gen : list Z.

  Definition e_lib_no (nd : enode) : Z := b_no (ls_lib (e_ls nd)).
  Definition e_main_at (nd : enode) (h : Z) : option block := main_get (en_main nd) h.

  Lemma estatus_update_lib_mono : forall g s blk,
    b_no (ls_lib (st_ls (es_st s))) <= b_no (ls_lib (st_ls (es_st (estatus_update sto gen g s blk)))).
  Proof.
    intros. unfold estatus_update.
    destruct (if k_id (st_best (es_st s)) =? k_prev blk then _ else _) as [sn' bps]. cbn [es_st].
    apply status_update_lib_mono.
  Qed.

  Lemma efold_lib_mono : forall g l s,
    b_no (ls_lib (st_ls (es_st s))) <=
    b_no (ls_lib (st_ls (es_st (fold_left (estatus_update sto gen g) l s)))).
  Proof.
    induction l; simpl; intros. lia.
    eapply Z.le_trans. 2: apply IHl. apply estatus_update_lib_mono.
  Qed.

  Ltac edeliver_cases nd blk :=
    unfold edeliver;
    destruct (find_block (en_store nd) (k_id blk)); [cbn [fst snd] |];
    [| destruct (negb (verify_lib_rule (st_ls (es_st (en_est nd))) blk)) eqn:Elib; [cbn [fst snd] |];
     [| destruct (find_block (en_store nd) (k_prev blk)) as [parent|]; [| cbn [fst snd]];
      [ destruct (negb (k_no parent + 1 =? k_no blk)); [cbn [fst snd] |];
        [| destruct (k_prev blk =? k_id (st_best (es_st (en_est nd)))); [cbn [fst snd] |];
         [| destruct (k_no blk <=? k_no (st_best (es_st (en_est nd)))); [cbn [fst snd] |];
          [| destruct (gather (length (blk :: en_store nd)) (en_main nd) (blk :: en_store nd) blk [])
               as [[root new_blocks]|]; [| cbn [fst snd]];
           [ destruct (negb (need_reorganization (st_ls (es_st (en_est nd))) (k_no root))) eqn:Eveto; cbn [fst snd] | ]]]] | ]]].

  Lemma edeliver_lib_mono : forall nd blk, e_lib_no nd <= e_lib_no (fst (edeliver sto gen nd blk)).
  Proof.
    intros. unfold e_lib_no, e_ls. edeliver_cases nd blk; cbn [en_est]; try lia.
    - apply estatus_update_lib_mono.
    - eapply Z.le_trans. 2: apply efold_lib_mono. apply estatus_update_lib_mono.
  Qed.

  Lemma erestart_lib : forall nd, ENI sto gen nd -> ls_lib (e_ls (erestart sto gen nd)) = ls_lib (e_ls nd).
  Proof.
    intros nd [N _ _]. pose proof (ni_saved _ N) as V. unfold proj in V. cbn in V.
    unfold erestart, erestore, e_ls, restore. cbn [en_est es_st].
    destruct (en_saved nd) as [[[p l] lpb]|]; cbn [st_ls].
    - rewrite load_lib. simpl. apply V.
    - simpl. symmetry. exact V.
  Qed.

  Lemma estep_lib_mono : forall nd e, ENI sto gen nd -> e_lib_no nd <= e_lib_no (estep sto gen nd e).
  Proof.
    destruct e; simpl; intros.
    - apply edeliver_lib_mono.
    - unfold e_lib_no. rewrite erestart_lib by auto. lia.
  Qed.

  Lemma estep_main_stable : forall nd e h b,
    0 <= h <= e_lib_no nd -> e_main_at nd h = Some b -> e_main_at (estep sto gen nd e) h = Some b.
  Proof.
    intros nd e h b Hh M. destruct e as [blk|]; simpl; [|exact M].
    unfold e_main_at, e_lib_no, e_ls in *. edeliver_cases nd blk; cbn [en_main]; auto.
    - apply main_get_app; auto.
    - apply main_get_firstn_app; auto.
      unfold need_reorganization in Eveto. apply negb_false_iff, Z.leb_le in Eveto. lia.
  Qed.

  (** With elections: the LIB height never decreases. *)
  Theorem e_lib_monotone : forall self evs1 evs2, Forall ev_ok (evs1 ++ evs2) ->
    e_lib_no (erun sto gen (einit_node gen self) evs1) <=
    e_lib_no (erun sto gen (einit_node gen self) (evs1 ++ evs2)).
  Proof.
    intros self evs1 evs2 F. apply Forall_app in F. destruct F as [F1 F2].
    unfold erun at 2. rewrite fold_left_app. fold (erun sto gen (einit_node gen self) evs1).
    pose proof (erun_ENI sto gen evs1 _ (ENI_init sto gen self) F1) as I.
    revert I. generalize (erun sto gen (einit_node gen self) evs1).
    induction evs2; simpl; intros. lia.
    inversion F2; subst.
    eapply Z.le_trans. apply (estep_lib_mono e a I). apply IHevs2; auto. apply estep_ENI; auto.
  Qed.

  (** With elections: a main-chain block at or below a reported LIB stays forever. *)
  Theorem e_finalized_never_undone : forall self evs1 evs2 h b, Forall ev_ok (evs1 ++ evs2) ->
    0 <= h <= e_lib_no (erun sto gen (einit_node gen self) evs1) ->
    e_main_at (erun sto gen (einit_node gen self) evs1) h = Some b ->
    e_main_at (erun sto gen (einit_node gen self) (evs1 ++ evs2)) h = Some b.
  Proof.
    intros self evs1 evs2 h b F. apply Forall_app in F. destruct F as [F1 F2].
    unfold erun at 3. rewrite fold_left_app. fold (erun sto gen (einit_node gen self) evs1).
    pose proof (erun_ENI sto gen evs1 _ (ENI_init sto gen self) F1) as I.
    revert I. generalize (erun sto gen (einit_node gen self) evs1).
    induction evs2; simpl; intros; auto.
    inversion F2; subst. apply IHevs2; auto.
    - apply estep_ENI; auto.
    - pose proof (estep_lib_mono e a I). lia.
    - apply estep_main_stable; auto.
  Qed.

  (** With elections: the LIB is on the main chain. *)
  Theorem e_lib_on_main_chain : forall nd, reachable sto gen nd -> lib_on_main (proj nd) = true.
  Proof. intros nd R. apply NI_lib_on_main. apply (eni_ni _ _ _ (reachable_ENI sto gen nd R)). Qed.
End ENode4.

(** Examples: a reachable node beyond the bootstrap height whose producer set was elected *)
Definition ex_sto (id : Z) : list Z * Z := ([2; 0; 1; 3], if id <? 150 then 3 else 2).
Fixpoint ex_chain (k : nat) (i : Z) : list event :=
  match k with O => [] | S k' => EDeliver (mkBlk i (i - 1) i (i mod 3) 1) :: ex_chain k' (i + 1) end.
Definition ex_enode : enode := erun ex_sto [0; 1; 2] (einit_node [0; 1; 2] 0) (ex_chain 405 1).
Example ex_elected : sn_cluster (e_sn ex_enode) = [2; 0] /\ ls_cr (e_ls ex_enode) = 2 /\
  Z.of_nat (length (en_main ex_enode)) = 406.
Proof. vm_compute. repeat split; reflexivity. Qed.

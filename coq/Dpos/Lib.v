(** Executable model of the DPoS finality bookkeeping.
    Mirrors /repo/consensus/impl/dpos/lib.go (libStatus, addConfirmInfo, getPreLIB, update,
    calcLIB, gc, load, loadPlibStatus, begRecoBlockNo, setConfirmsRequired, save),
    status.go (Status.Update, updateLIB, NeedReorganization, bootLoader.load with
    resetHeight = 0), dpos.go (VerifyTimestamp's `no <= lib` rule), blockfactory.go
    (Confirms = no - lpbNo) and, for the node around it, the call sequence of
    chain/chainhandle.go + chain/reorg.go (addBlock: VerifyTimestamp, connect = Update + Save;
    reorg: gather, NeedReorganization(rootNo), Update(root), Update(new blocks), swap, Save).

    The model is the code AFTER the two proposed repairs
      fixes/F9_dpos_lib_monotone.diff      (updateLIB keeps the old LIB if the new one is lower)
      fixes/F21_dpos_rollback_stale_prelib.diff (rollbackStatusTo resets proposals above the target).
    Block hashes are abstract identifiers (Z); genesis has id 0; the empty hash is -1.
    No proofs in this file. *)
From Coq Require Import ZArith List Bool Lia.
Import ListNotations.
Open Scope Z_scope.

(** * Data *)
Record block := mkBlk { k_id : Z; k_prev : Z; k_no : Z; k_bp : Z; k_confirms : Z }.
Record binfo := mkB { b_id : Z; b_no : Z; b_range : Z }.            (* blockInfo *)
Record cinfo := mkC { c_bi : binfo; c_bp : Z; c_left : Z }.          (* confirmInfo *)
Record plinfo := mkPL { pl_plib : binfo; pl_by : binfo }.            (* plInfo *)
Definition proposed := list (Z * plinfo).                            (* map bpid -> *plInfo *)

Record lib_status := mkLS {
  ls_prpsd : proposed;
  ls_lib : binfo;
  ls_lpb : Z;
  ls_confirms : list cinfo;   (* front first *)
  ls_cr : Z;                  (* confirmsRequired (uint16) *)
  ls_self : Z                 (* bpid of this node *)
}.

Definition genesis_block := mkBlk 0 (-1) 0 (-1) 0.
Definition genesis_info := mkB 0 0 0.
Definition empty_info := mkB (-1) 0 0.       (* &blockInfo{} *)
Definition info_of (b : block) := mkB (k_id b) (k_no b) (k_confirms b).

Definition u16 (x : Z) := x mod 65536.
Definition u64 (x : Z) := x mod 18446744073709551616.

Definition binfo_eqb (a b : binfo) : bool :=
  (b_id a =? b_id b) && (b_no a =? b_no b) && (b_range a =? b_range b).

(** * proposed map *)
Fixpoint pget (p : proposed) (bp : Z) : option plinfo :=
  match p with
  | [] => None
  | (k, v) :: tl => if k =? bp then Some v else pget tl bp
  end.
Fixpoint pset (p : proposed) (bp : Z) (v : plinfo) : proposed :=
  match p with
  | [] => [(bp, v)]
  | (k, w) :: tl => if k =? bp then (k, v) :: tl else (k, w) :: pset tl bp v
  end.
Definition pmem (p : proposed) (bp : Z) : bool :=
  match pget p bp with Some _ => true | None => false end.
Definition zmem (x : Z) (l : list Z) : bool := existsb (Z.eqb x) l.
(* proposed.gc *)
Definition prpsd_gc (p : proposed) (bps : list Z) : proposed :=
  match bps with
  | [] => p
  | _ => filter (fun kv => zmem (fst kv) bps) p
  end.

(** * setConfirmsRequired / newLibStatus *)
Definition confirms_required (bp_count : Z) : Z := u16 (u16 (bp_count * 2) / 3 + 1).
Definition new_lib_status (bp_count self : Z) : lib_status :=
  mkLS [] empty_info 0 [] (confirms_required bp_count) self.
Definition new_lib_status_cr (cr self : Z) : lib_status := mkLS [] empty_info 0 [] cr self.

Definition set_prpsd ls p := mkLS p (ls_lib ls) (ls_lpb ls) (ls_confirms ls) (ls_cr ls) (ls_self ls).
Definition set_lib ls l := mkLS (ls_prpsd ls) l (ls_lpb ls) (ls_confirms ls) (ls_cr ls) (ls_self ls).
Definition set_lpb ls x := mkLS (ls_prpsd ls) (ls_lib ls) x (ls_confirms ls) (ls_cr ls) (ls_self ls).
Definition set_confirms ls c := mkLS (ls_prpsd ls) (ls_lib ls) (ls_lpb ls) c (ls_cr ls) (ls_self ls).
Definition set_cr ls x := mkLS (ls_prpsd ls) (ls_lib ls) (ls_lpb ls) (ls_confirms ls) x (ls_self ls).

(** * addConfirmInfo *)
Definition add_confirm_info (ls : lib_status) (blk : block) : lib_status :=
  if k_no blk =? 0 then ls else
  let ci := mkC (info_of blk) (k_bp blk) (ls_cr ls) in
  let ls1 := set_confirms ls (ls_confirms ls ++ [ci]) in
  let ls2 := if pmem (ls_prpsd ls1) (k_bp blk) then ls1
             else set_prpsd ls1 (pset (ls_prpsd ls1) (k_bp blk) (mkPL genesis_info genesis_info)) in
  if k_bp blk =? ls_self ls2 then set_lpb ls2 (k_no blk) else ls2.

(** * getPreLIB: backward scan.  [win_min]/[win_max] are the uint64 window bounds of the
    last element; the list is given back to front. *)
Definition win_min (last : cinfo) : Z := u64 (b_no (c_bi last) - b_range (c_bi last) + 1).
Definition win_max (last : cinfo) : Z := b_no (c_bi last).
Definition in_window (mn mx : Z) (c : cinfo) : bool :=
  (mn <=? b_no (c_bi c)) && (b_no (c_bi c) <=? mx).
Definition dec_left (c : cinfo) : cinfo := mkC (c_bi c) (c_bp c) (u16 (c_left c - 1)).

Fixpoint scan (mn mx : Z) (rl : list cinfo) : list cinfo * option binfo :=
  match rl with
  | [] => ([], None)
  | c :: tl =>
      let c' := if in_window mn mx c then dec_left c else c in
      if c_left c' =? 0 then (c' :: tl, Some (c_bi c'))
      else let '(tl', r) := scan mn mx tl in (c' :: tl', r)
  end.

Definition get_pre_lib (ls : lib_status) : lib_status * option (Z * plinfo) :=
  match rev (ls_confirms ls) with
  | [] => (ls, None)            (* unreachable in the code: update is called after a push *)
  | last :: _ =>
      let '(rl', r) := scan (win_min last) (win_max last) (rev (ls_confirms ls)) in
      let ls' := set_confirms ls (rev rl') in
      match r with
      | None => (ls', None)
      | Some confirmed => (ls', Some (c_bp last, mkPL confirmed (c_bi last)))
      end
  end.

(** * calcLIB: sort ascending by block number, take index (n'-1)/3.  Ties between
    different hashes (possible only when entries are on different branches) are resolved
    by the identifier; the Go sort leaves them to the map iteration order. *)
Definition bi_le (a b : binfo) : bool :=
  (b_no a <? b_no b) || ((b_no a =? b_no b) && (b_id a <=? b_id b)).
Fixpoint insert_bi (x : binfo) (l : list binfo) : list binfo :=
  match l with
  | [] => [x]
  | y :: tl => if bi_le x y then x :: l else y :: insert_bi x tl
  end.
Fixpoint sort_bi (l : list binfo) : list binfo :=
  match l with [] => [] | x :: tl => insert_bi x (sort_bi tl) end.
Definition plibs (p : proposed) : list binfo := map (fun kv => pl_plib (snd kv)) p.
Definition lib_index (n' : Z) : Z := (n' - 1) / 3.
Definition calc_lib (p : proposed) : option binfo :=
  match p with
  | [] => None
  | _ => nth_error (sort_bi (plibs p)) (Z.to_nat (lib_index (Z.of_nat (length p))))
  end.

(** * update *)
Definition update (ls : lib_status) : lib_status * option binfo :=
  match get_pre_lib ls with
  | (ls', Some (bp, pl)) =>
      let ls'' := set_prpsd ls' (pset (ls_prpsd ls') bp pl) in
      (ls'', calc_lib (ls_prpsd ls''))
  | (ls', None) => (ls', None)
  end.

(** * Status.updateLIB, with the monotonicity guard (F9 repair) *)
Definition update_lib (ls : lib_status) (l : binfo) : lib_status :=
  if b_no l <? b_no (ls_lib ls) then ls else set_lib ls l.

(** * gc *)
Fixpoint drop_le_lib (libno : Z) (l : list cinfo) : list cinfo :=
  match l with
  | [] => []
  | c :: tl => if libno <? b_no (c_bi c) then l           (* bc: break *)
               else drop_le_lib libno tl                   (* p: remove *)
  end.
Definition gc_num_limit (ls : lib_status) : Z := u16 (ls_cr ls * 3).
Definition trim_front (limit : Z) (l : list cinfo) : list cinfo :=
  skipn (Z.to_nat (Z.of_nat (length l) - limit)) l.
Definition gc (ls : lib_status) (bps : list Z) : lib_status :=
  let c1 := drop_le_lib (b_no (ls_lib ls)) (ls_confirms ls) in
  let c2 := trim_front (gc_num_limit ls) c1 in
  set_prpsd (set_confirms ls c2) (prpsd_gc (ls_prpsd ls) bps).

(** * begRecoBlockNo / loadPlibStatus / load *)
Definition beg_reco_block_no (ls : lib_status) (end_no : Z) : Z :=
  let offset := 3 * ls_cr ls in
  let beg := if end_no <? b_no (ls_lib ls) then b_no (ls_lib ls) else end_no in
  if beg >? offset then beg - offset else 1.

Section WithChain.
  (** [get_by_no] is cdb.GetBlockByNo on the node's main chain. *)
  Variable get_by_no : Z -> option block.

  Fixpoint replay (fuel : nat) (i : Z) (pls : lib_status) : option lib_status :=
    match fuel with
    | O => Some pls
    | S f =>
        match get_by_no i with
        | None => None                         (* "failed to read block": return nil *)
        | Some b => replay f (i + 1) (fst (update (add_confirm_info pls b)))
        end
    end.

  Definition load_plib_status (beg end_no cr self : Z) : option lib_status :=
    if beg =? end_no then None
    else if beg >? end_no then None
    else let beg := if beg =? 0 then 1 else beg in
         replay (Z.to_nat (end_no - beg + 1)) beg (new_lib_status_cr cr self).

  Fixpoint merge_prpsd (p : proposed) (tmp : proposed) : proposed :=
    match tmp with
    | [] => p
    | (bp, v) :: tl =>
        merge_prpsd (if b_no (pl_plib v) >? 0 then pset p bp v else p) tl
    end.

  Definition load (ls : lib_status) (end_no : Z) : lib_status :=
    let ls1 := set_confirms ls [] in
    if end_no =? 0 then ls1 else
    match load_plib_status (beg_reco_block_no ls1 end_no) end_no (ls_cr ls1) (ls_self ls1) with
    | None => ls1
    | Some tmp =>
        let ls2 := match ls_confirms tmp with [] => ls1 | _ => set_confirms ls1 (ls_confirms tmp) end in
        set_prpsd ls2 (merge_prpsd (ls_prpsd ls2) (ls_prpsd tmp))
    end.

  (** rollbackStatusTo with the F21 repair: proposals above the target are reset to the
      genesis entry before the confirms list is rebuilt. *)
  Definition reset_stale (target : Z) (p : proposed) : proposed :=
    map (fun kv => if b_no (pl_plib (snd kv)) >? target
                   then (fst kv, mkPL genesis_info genesis_info) else kv) p.
  Definition rollback_status_to (ls : lib_status) (target : Z) : lib_status :=
    load (set_prpsd ls (reset_stale target (ls_prpsd ls))) target.

  (** * Status *)
  Record status := mkSt { st_ls : lib_status; st_best : block }.

  (** Status.Update.  [bps] is what AddSnapshot / UpdateCluster returned (nil = []), [size]
      is bps.Size() afterwards. *)
  Definition status_update (bps : list Z) (size : Z) (s : status) (blk : block) : status :=
    let ls :=
      if k_id (st_best s) =? k_prev blk then
        let ls1 := add_confirm_info (st_ls s) blk in
        match update ls1 with
        | (ls2, Some l) => update_lib ls2 l
        | (ls2, None) => ls2
        end
      else rollback_status_to (st_ls s) (k_no blk) in
    mkSt (set_cr (gc ls bps) (confirms_required size)) blk.

  (** save (gob of the exported fields) and bootLoader.load(resetHeight = 0) *)
  Definition saved := (proposed * binfo * Z)%type.
  Definition save (ls : lib_status) : saved := (ls_prpsd ls, ls_lib ls, ls_lpb ls).
  Definition restore (sv : option saved) (best : block) (size self : Z) : status :=
    let cr := confirms_required size in
    match sv with
    | None => mkSt (new_lib_status_cr cr self) best
    | Some (p, l, lpb) => mkSt (load (mkLS p l lpb [] cr self) (k_no best)) best
    end.
  (** bootLoader.load(resetHeight) with ForceResetHeight > 0 (operator action): proposals whose
      Plib or PlibBy is above the reset height are deleted, and a LIB above it is reset to the
      genesis block and the saved status is deleted from the DB. *)
  Definition reset_prune (rh : Z) (p : proposed) : proposed :=
    if rh >? 0 then
      filter (fun kv => negb ((b_no (pl_plib (snd kv)) >? rh) || (b_no (pl_by (snd kv)) >? rh))) p
    else p.
  Definition restore_reset (sv : option saved) (best : block) (size self rh : Z) : status * option saved :=
    let cr := confirms_required size in
    match sv with
    | None => (mkSt (new_lib_status_cr cr self) best, None)
    | Some (p, l, lpb) =>
        let ls := load (mkLS p l lpb [] cr self) (k_no best) in
        let ls1 := set_prpsd ls (reset_prune rh (ls_prpsd ls)) in
        if (rh >? 0) && (b_no (ls_lib ls1) >? rh)
        then (mkSt (set_lib ls1 genesis_info) best, None)
        else (mkSt ls1 best, sv)
    end.
End WithChain.

(** * NeedReorganization, VerifyTimestamp (LIB rule), generateBlock's Confirms *)
Definition need_reorganization (ls : lib_status) (root_no : Z) : bool := b_no (ls_lib ls) <=? root_no.
Definition verify_lib_rule (ls : lib_status) (blk : block) : bool := negb (k_no blk <=? b_no (ls_lib ls)).
Definition honest_confirms (no lpb_no : Z) : Z := no - lpb_no.

(** * The node around the status: main chain by number, block store, saved status.
    Mirrors chain.addBlock / chain.reorg as far as the consensus status is concerned. *)
Record node := mkNode {
  nd_size : Z;                 (* producer count *)
  nd_self : Z;
  nd_st : status;
  nd_main : list block;        (* index = height *)
  nd_store : list block;
  nd_saved : option saved
}.

Definition main_get (main : list block) (no : Z) : option block :=
  if no <? 0 then None else nth_error main (Z.to_nat no).
Fixpoint find_block (store : list block) (id : Z) : option block :=
  match store with
  | [] => None
  | b :: tl => if k_id b =? id then Some b else find_block tl id
  end.
Definition on_main (main : list block) (b : block) : bool :=
  match main_get main (k_no b) with Some m => k_id m =? k_id b | None => false end.

Definition init_node (size self : Z) : node :=
  mkNode size self (mkSt (new_lib_status size self) genesis_block) [genesis_block] [genesis_block] None.

(** gather: walk back from the branch tip to the first block that is on the main chain. *)
Fixpoint gather (fuel : nat) (main store : list block) (br : block) (acc : list block)
  : option (block * list block) :=
  if on_main main br then Some (br, acc) else
  match fuel with
  | O => None
  | S f =>
      match find_block store (k_prev br) with
      | None => None
      | Some p => if k_no p + 1 =? k_no br then gather f main store p (br :: acc) else None
      end
  end.

Inductive outcome := ODup | OLeLib | OOrphan | OInvalid | OConnected | OSide | OVeto | OReorg.

Definition deliver (nd : node) (blk : block) : node * outcome :=
  let ls := st_ls (nd_st nd) in
  match find_block (nd_store nd) (k_id blk) with
  | Some _ => (nd, ODup)
  | None =>
  if negb (verify_lib_rule ls blk) then (nd, OLeLib) else
  match find_block (nd_store nd) (k_prev blk) with
  | None => (nd, OOrphan)
  | Some parent =>
  if negb (k_no parent + 1 =? k_no blk) then (nd, OInvalid) else
  let store' := blk :: nd_store nd in
  let best := st_best (nd_st nd) in
  if k_prev blk =? k_id best then
    let st' := status_update (main_get (nd_main nd)) [] (nd_size nd) (nd_st nd) blk in
    (mkNode (nd_size nd) (nd_self nd) st' (nd_main nd ++ [blk]) store' (Some (save (st_ls st'))), OConnected)
  else if k_no blk <=? k_no best then
    (mkNode (nd_size nd) (nd_self nd) (nd_st nd) (nd_main nd) store' (nd_saved nd), OSide)
  else
    match gather (length store') (nd_main nd) store' blk [] with
    | None => (nd, OInvalid)
    | Some (root, new_blocks) =>
        if negb (need_reorganization ls (k_no root)) then
          (mkNode (nd_size nd) (nd_self nd) (nd_st nd) (nd_main nd) store' (nd_saved nd), OVeto)
        else
          let main_r := firstn (Z.to_nat (k_no root) + 1) (nd_main nd) in
          let st1 := status_update (main_get main_r) [] (nd_size nd) (nd_st nd) root in
          let st' := fold_left (status_update (main_get main_r) [] (nd_size nd)) new_blocks st1 in
          (mkNode (nd_size nd) (nd_self nd) st' (main_r ++ new_blocks) store' (Some (save (st_ls st'))), OReorg)
    end
  end end.

Definition restart (nd : node) : node :=
  let best := st_best (nd_st nd) in
  mkNode (nd_size nd) (nd_self nd)
         (restore (main_get (nd_main nd)) (nd_saved nd) best (nd_size nd) (nd_self nd))
         (nd_main nd) (nd_store nd) (nd_saved nd).

Inductive event := EDeliver (b : block) | ERestart.
Definition step (nd : node) (e : event) : node :=
  match e with EDeliver b => fst (deliver nd b) | ERestart => restart nd end.
Definition run (nd : node) (evs : list event) : node := fold_left step evs nd.

(** * Observation compared with the implementation after every engine step *)
Definition lib_on_main (nd : node) : bool :=
  let l := ls_lib (st_ls (nd_st nd)) in
  (b_id l =? -1) ||
  match main_get (nd_main nd) (b_no l) with Some m => k_id m =? b_id l | None => false end.

Definition outcome_code (o : outcome) : Z :=
  match o with ODup => 0 | OLeLib => 1 | OOrphan => 2 | OInvalid => 3 | OConnected => 4
             | OSide => 5 | OVeto => 6 | OReorg => 7 end.

(** Observation of a node after a step, flattened to numbers and hashed; the check computes
    the same hash from the implementation's observation (checks/C08.py:obs_hash).
    Flattening: outcome code; LIB id, no; LpbNo; confirmsRequired; best id; |Prpsd|, entries
    sorted by producer as (bp, plib id, plib no, by id, by no); |confirms|, elements front to
    back as (id, no, bp, range, confirmsLeft); |main chain|, and its ids by height after a reorg or veto. *)
Definition obs_entry := (Z * Z * Z * Z * Z)%type.
Definition prpsd_obs (p : proposed) : list obs_entry :=
  map (fun kv => (fst kv, b_id (pl_plib (snd kv)), b_no (pl_plib (snd kv)),
                  b_id (pl_by (snd kv)), b_no (pl_by (snd kv)))) p.
Definition confirms_obs (l : list cinfo) : list obs_entry :=
  map (fun c => (b_id (c_bi c), b_no (c_bi c), c_bp c, b_range (c_bi c), c_left c)) l.
Definition entry_key (e : obs_entry) : Z := let '(a, _, _, _, _) := e in a.
Fixpoint insert_entry (x : obs_entry) (l : list obs_entry) : list obs_entry :=
  match l with
  | [] => [x]
  | y :: tl => if entry_key x <=? entry_key y then x :: l else y :: insert_entry x tl
  end.
Fixpoint sort_entries (l : list obs_entry) : list obs_entry :=
  match l with [] => [] | x :: tl => insert_entry x (sort_entries tl) end.
Definition flat_entry (e : obs_entry) : list Z := let '(a, b, c, d, f) := e in [a; b; c; d; f].
Definition flat_entries (l : list obs_entry) : list Z :=
  Z.of_nat (length l) :: flat_map flat_entry l.
Definition main_ids (nd : node) : list Z := map k_id (nd_main nd).
Definition flat_obs (code : Z) (nd : node) : list Z :=
  let ls := st_ls (nd_st nd) in
  [code; b_id (ls_lib ls); b_no (ls_lib ls); ls_lpb ls; ls_cr ls; k_id (st_best (nd_st nd))]
  ++ flat_entries (sort_entries (prpsd_obs (ls_prpsd ls)))
  ++ flat_entries (confirms_obs (ls_confirms ls))
  ++ Z.of_nat (length (nd_main nd)) :: (if (code =? 6) || (code =? 7) then main_ids nd else []).
Definition hash_mask := 1152921504606846975.   (* 2^60 - 1 *)
Definition hash_list (l : list Z) : Z :=
  fold_left (fun h x => Z.land (Z.shiftl h 5 + h + x + 7) hash_mask) l 5381.
Definition obs_hash (code : Z) (nd : node) : Z := hash_list (flat_obs code nd).

(** A scripted scenario on one node: deliveries, restarts ("R": the node continues with the
    restored status), shadow restarts ("S": the restored status is only observed) and direct
    libStatus.gc(bps) calls; each op carries the hash of the implementation's observation. *)
Inductive op := OpD (b : block) (h : Z) | OpR (h : Z) | OpS (h : Z) | OpG (bps : list Z) (h : Z)
  (* chain-side tie (real ChainService with a recording consensus stub and a scripted LIB):
     OpL sets the LIB number; OpC delivers a block and carries the hash of the consensus
     calls the chain service made, the best block and the main chain *)
  | OpL (n : Z) | OpC (b : block) (h : Z)
  (* shadow restart with ForceResetHeight = rh: hash of the restored status, and whether the
     saved status is still in the DB (1) or was deleted (0) *)
  | OpF (rh : Z) (h : Z) (kept : Z)
  (* REAL restart with ForceResetHeight = rh > 0: the chain DB drops the main-chain blocks above rh
     (the block at rh becomes the best block), then the status boots through restore_reset *)
  | OpFR (rh : Z) (h : Z).

Definition force_reset_node (nd : node) (rh : Z) : node :=
  let main' := if (0 <? rh) && (rh <? k_no (st_best (nd_st nd)))
               then firstn (Z.to_nat rh + 1) (nd_main nd) else nd_main nd in
  let best' := last main' genesis_block in
  let '(st', sv') := restore_reset (main_get main') (nd_saved nd) best' (nd_size nd) (nd_self nd) rh in
  mkNode (nd_size nd) (nd_self nd) st' main' (nd_store nd) sv'.

(** The consensus calls chain.addBlock / chain.reorg make for one delivered block, as implied
    by [deliver], in the order recorded from the real ChainService: 1 no = VerifyTimestamp(block
    no), 5 id = VerifySign(block), 2 r = NeedReorganization(root no), 6 id best = IsBlockValid(block,
    best block of the chain DB) immediately before executing the block, 3 id = Update(block),
    4 = Save.  A block refused by VerifyTimestamp is not looked at further; IsBlockValid is evaluated
    for a block only when it is about to be executed, i.e. after Update of its predecessor. *)
Definition deliver_calls (nd : node) (blk : block) : list Z :=
  let best := k_id (st_best (nd_st nd)) in
  match snd (deliver nd blk) with
  | OLeLib => [1; k_no blk]
  | ODup => if verify_lib_rule (st_ls (nd_st nd)) blk then [1; k_no blk; 5; k_id blk] else [1; k_no blk]
  | OOrphan | OInvalid | OSide => [1; k_no blk; 5; k_id blk]
  | OConnected => [1; k_no blk; 5; k_id blk; 6; k_id blk; best; 3; k_id blk; 4]
  | OVeto | OReorg =>
      match gather (length (blk :: nd_store nd)) (nd_main nd) (blk :: nd_store nd) blk [] with
      | Some (root, nb) =>
          [1; k_no blk; 5; k_id blk; 2; k_no root] ++
          (if need_reorganization (st_ls (nd_st nd)) (k_no root)
           then 3 :: k_id root :: flat_map (fun b => [6; k_id b; best; 3; k_id b]) nb ++ [4] else [])
      | None => []
      end
  end.
Definition set_node_lib (nd : node) (n : Z) : node :=
  mkNode (nd_size nd) (nd_self nd)
         (mkSt (set_lib (st_ls (nd_st nd)) (mkB (-1) n 0)) (st_best (nd_st nd)))
         (nd_main nd) (nd_store nd) (nd_saved nd).
Definition chain_obs_hash (calls : list Z) (nd : node) : Z :=
  hash_list (calls ++ k_id (st_best (nd_st nd)) :: Z.of_nat (length (nd_main nd)) :: main_ids nd).
Definition gc_node (nd : node) (bps : list Z) : node :=
  mkNode (nd_size nd) (nd_self nd) (mkSt (gc (st_ls (nd_st nd)) bps) (st_best (nd_st nd)))
         (nd_main nd) (nd_store nd) (nd_saved nd).

(* index of the first op on which model and implementation differ, None = all agree *)
Fixpoint scenario_check (nd : node) (ops : list op) (i : nat) : option nat :=
  match ops with
  | [] => None
  | OpD b h :: tl =>
      let '(nd', oc) := deliver nd b in
      if obs_hash (outcome_code oc) nd' =? h then scenario_check nd' tl (S i) else Some i
  | OpR h :: tl =>
      let nd' := restart nd in
      if obs_hash 8 nd' =? h then scenario_check nd' tl (S i) else Some i
  | OpS h :: tl =>
      if obs_hash 8 (restart nd) =? h then scenario_check nd tl (S i) else Some i
  | OpG bps h :: tl =>
      let nd' := gc_node nd bps in
      if obs_hash 9 nd' =? h then scenario_check nd' tl (S i) else Some i
  | OpF rh h kept :: tl =>
      let '(st', sv') := restore_reset (main_get (nd_main nd)) (nd_saved nd) (st_best (nd_st nd)) (nd_size nd) (nd_self nd) rh in
      let nd' := mkNode (nd_size nd) (nd_self nd) st' (nd_main nd) (nd_store nd) sv' in
      if (obs_hash 8 nd' =? h) && ((match sv' with Some _ => 1 | None => 0 end) =? kept)
      then scenario_check nd tl (S i) else Some i
  | OpFR rh h :: tl =>
      let nd' := force_reset_node nd rh in
      if obs_hash 8 nd' =? h then scenario_check nd' tl (S i) else Some i
  | OpL n :: tl => scenario_check (set_node_lib nd n) tl (S i)
  | OpC b h :: tl =>
      let nd' := fst (deliver nd b) in
      if chain_obs_hash (deliver_calls nd b) nd' =? h then scenario_check nd' tl (S i) else Some i
  end.

(* the model's flattened observation after op [i] (for the replay of a mismatch) *)
Fixpoint scenario_obs_at (nd : node) (ops : list op) (i : nat) : list Z :=
  match ops with
  | [] => []
  | o :: tl =>
      let '(nd', code, keep) :=
        match o with
        | OpD b _ => let '(nd', oc) := deliver nd b in (nd', outcome_code oc, nd')
        | OpR _ => (restart nd, 8, restart nd)
        | OpS _ => (restart nd, 8, nd)
        | OpG bps _ => (gc_node nd bps, 9, gc_node nd bps)
        | OpF rh _ _ =>
            let '(st', sv') := restore_reset (main_get (nd_main nd)) (nd_saved nd) (st_best (nd_st nd)) (nd_size nd) (nd_self nd) rh in
            (mkNode (nd_size nd) (nd_self nd) st' (nd_main nd) (nd_store nd) sv', 8, nd)
        | OpFR rh _ => (force_reset_node nd rh, 8, force_reset_node nd rh)
        | OpL n => (set_node_lib nd n, 10, set_node_lib nd n)
        | OpC b _ => (fst (deliver nd b), 11, fst (deliver nd b))
        end in
      match i with
      | O => match o with
             | OpC b _ => deliver_calls nd b ++ k_id (st_best (nd_st nd')) :: Z.of_nat (length (nd_main nd')) :: main_ids nd'
             | _ => flat_obs code nd'
             end
      | S j => scenario_obs_at keep tl j
      end
  end.

Definition scenario_ok (c : (Z * Z) * list op) : bool :=
  let '((size, self), ops) := c in
  match scenario_check (init_node size self) ops 0 with None => true | Some _ => false end.
Definition scenario_first_diff (c : (Z * Z) * list op) : Z :=
  let '((size, self), ops) := c in
  match scenario_check (init_node size self) ops 0 with None => -1 | Some i => Z.of_nat i end.
Definition scenario_debug (c : (Z * Z) * list op) (i : nat) : list Z :=
  let '((size, self), ops) := c in scenario_obs_at (init_node size self) ops i.

Fixpoint mismatches_from {A} (ok : A -> bool) (l : list A) (i : nat) : list nat :=
  match l with
  | [] => []
  | x :: tl => if ok x then mismatches_from ok tl (S i) else i :: mismatches_from ok tl (S i)
  end.

(** Crash inside a reorganisation and recovery from the reorg marker (model, no proofs).
    chain/reorg.go swapChain: write marker (stop point 2) -> delete receipts, swap tx mapping ->
    swapChainMapping = new number->hash mapping + LatestBlock + consensus status in ONE bulk
    (stop point 3) -> delete marker.  At the next start (chain/chaindb.go ChainDB.recover,
    chain/recover.go): the marker's RecoverChainMapping puts the number->hash mapping back to the
    OLD chain ("required for LIB loading"), the consensus status is loaded from the DB
    (NewStatus/bootLoader), and ChainService.Recover redoes the reorganisation from the marker:
    Update(root), executeBlockReco (IsBlockValid, Update) for each new block, swapChainMapping +
    Save, delete marker; since fix 479daa05 (F40) the redo is not submitted to NeedReorganization
    again (before, the LIB saved with the swapped chain could veto it and a failing Recover is
    fatal: "CHAIN DATA IS CRASHED, BUT CAN'T BE RECOVERED").
    Crash at 2: old mapping, old saved status.  Crash at 3: old mapping (after RecoverChainMapping)
    but the NEW saved status. *)
From Coq Require Import ZArith List Bool Lia.
From Verif Require Import Dpos.Lib.
Import ListNotations.
Open Scope Z_scope.

Inductive coutcome := CO (o : outcome) | CRecovered | CRecoverVeto.
Definition coutcome_code (o : coutcome) : Z :=
  match o with CO o => outcome_code o | CRecovered => 14 | CRecoverVeto => 15 end.

(* the reorganisation proper, for a tip already in the store *)
Definition redo_reorg (nd : node) (tip : block) : node * coutcome :=
  match gather (length (nd_store nd)) (nd_main nd) (nd_store nd) tip [] with
  | None => (nd, CO OInvalid)
  | Some (root, new_blocks) =>
        let main_r := firstn (Z.to_nat (k_no root) + 1) (nd_main nd) in
        let st1 := status_update (main_get main_r) [] (nd_size nd) (nd_st nd) root in
        let st' := fold_left (status_update (main_get main_r) [] (nd_size nd)) new_blocks st1 in
        (mkNode (nd_size nd) (nd_self nd) st' (main_r ++ new_blocks) (nd_store nd) (Some (save (st_ls st'))), CRecovered)
  end.

Definition deliver_crash (point : Z) (nd : node) (blk : block) : node * coutcome :=
  let '(nd1, o) := deliver nd blk in
  match o with
  | OReorg =>
      let old_best := st_best (nd_st nd) in
      (* DB after the crash and RecoverChainMapping: old mapping; saved status old (2) or new (3) *)
      let sv := if point =? 3 then nd_saved nd1 else nd_saved nd in
      let st0 := restore (main_get (nd_main nd)) sv old_best (nd_size nd) (nd_self nd) in
      redo_reorg (mkNode (nd_size nd) (nd_self nd) st0 (nd_main nd) (nd_store nd1) sv) blk
  | _ => (nd1, CO o)
  end.

Inductive cop := COpK (b : block) (point : Z) (h : Z) | COpR (h : Z) | COpS (h : Z).
Fixpoint cscenario_check (nd : node) (ops : list cop) (i : nat) : option nat :=
  match ops with
  | [] => None
  | COpK b pt h :: tl =>
      let '(nd', oc) := deliver_crash pt nd b in
      if obs_hash (coutcome_code oc) nd' =? h then cscenario_check nd' tl (S i) else Some i
  | COpR h :: tl =>
      let nd' := restart nd in
      if obs_hash 8 nd' =? h then cscenario_check nd' tl (S i) else Some i
  | COpS h :: tl =>
      if obs_hash 8 (restart nd) =? h then cscenario_check nd tl (S i) else Some i
  end.
Definition cscenario_first_diff (c : (Z * Z) * list cop) : Z :=
  let '((size, self), ops) := c in
  match cscenario_check (init_node size self) ops 0 with None => -1 | Some i => Z.of_nat i end.

(** Proofs about the write units around the consensus status: what is saved with the chain tip,
    and crash recovery of a reorganisation (Dpos/LibCrash.v). *)
From Coq Require Import ZArith List Bool Lia.
From Verif Require Import Dpos.Lib Dpos.LibProofs Dpos.LibOnMain Dpos.LibCrash.
Import ListNotations.
Open Scope Z_scope.

(** * The status saved with the chain tip is the running status *)
Theorem saved_current_after_commit : forall nd blk nd' o,
  deliver nd blk = (nd', o) -> o = OConnected \/ o = OReorg ->
  nd_saved nd' = Some (save (st_ls (nd_st nd'))).
Proof.
  intros nd blk nd' o. deliver_cases nd blk; intros E; inversion E; subst; clear E;
    intros [H|H]; try discriminate; reflexivity.
Qed.

(** [restart_after_reorg_equals_running]: a node restarted right after a connected block or a
    reorganisation (before any further block) restores the running LIB and LpbNo, and its status
    is the recomputation (load) started from the RUNNING proposal map, not from an older one. *)
Theorem restart_after_reorg_equals_running : forall nd blk nd' o,
  deliver nd blk = (nd', o) -> o = OConnected \/ o = OReorg ->
  let cur := st_ls (nd_st nd') in
  st_ls (nd_st (restart nd')) =
    load (main_get (nd_main nd')) (mkLS (ls_prpsd cur) (ls_lib cur) (ls_lpb cur) [] (confirms_required (nd_size nd')) (nd_self nd'))
         (k_no (st_best (nd_st nd'))) /\
  ls_lib (st_ls (nd_st (restart nd'))) = ls_lib cur.
Proof.
  intros nd blk nd' o D H cur. pose proof (saved_current_after_commit _ _ _ _ D H) as S.
  unfold restart, restore. cbn [nd_st]. rewrite S. unfold save. cbn [st_ls]. split. reflexivity.
  rewrite load_lib. reflexivity.
Qed.

(** * Crash at stop point 2 (marker written, nothing swapped): the recovery is not vetoed *)
Lemma deliver_reorg_inv : forall nd blk nd' ,
  deliver nd blk = (nd', OReorg) ->
  exists root nb,
    gather (length (blk :: nd_store nd)) (nd_main nd) (blk :: nd_store nd) blk [] = Some (root, nb) /\
    need_reorganization (st_ls (nd_st nd)) (k_no root) = true /\ nd_store nd' = blk :: nd_store nd.
Proof.
  intros nd blk nd'. deliver_cases nd blk; intros E; inversion E; subst; clear E.
  exists root, new_blocks. repeat split; auto. apply negb_false_iff in Eveto. exact Eveto.
Qed.

Theorem recovery_point2_not_vetoed : forall nd blk,
  sv_inv nd -> snd (deliver nd blk) = OReorg -> snd (deliver_crash 2 nd blk) = CRecovered.
Proof.
  intros nd blk I H. unfold deliver_crash.
  destruct (deliver nd blk) as [nd1 o] eqn:D. simpl in H. subst o.
  destruct (deliver_reorg_inv _ _ _ D) as [root [nb [G [Nr St]]]].
  change (2 =? 3) with false. cbv iota. unfold redo_reorg. cbn [nd_store nd_main nd_st nd_size nd_self]. rewrite St, G.
  assert (L : ls_lib (st_ls (restore (main_get (nd_main nd)) (nd_saved nd) (st_best (nd_st nd)) (nd_size nd) (nd_self nd)))
              = ls_lib (st_ls (nd_st nd))).
  { pose proof (restart_lib nd I) as R. unfold restart in R. cbn [nd_st] in R. exact R. }
  unfold need_reorganization in *. rewrite L, Nr. reflexivity.
Qed.

(** * Crash at stop point 3 (mapping and status swapped, marker not deleted): refuted *)
(** 2 producers; main chain 1, 2; the side branch 3, 4, 5 forking at the genesis block wins at 5;
    the status saved by that reorganisation has LIB = block 3 (height 1); after the crash the
    number->hash mapping is put back to 0, 1, 2 and the recovery (fork point 0 < LIB 1) is vetoed:
    the node keeps the old chain with a LIB that is not on it (and a real node exits). *)
Definition f40_events : list event :=
  map EDeliver [mkBlk 1 0 1 0 1; mkBlk 2 1 2 0 1; mkBlk 3 0 1 0 1; mkBlk 4 3 2 1 2].
Definition f40_tip : block := mkBlk 5 4 3 0 2.
Local Notation f40_node := (run (init_node 2 1) f40_events).
Example f40_values :
  snd (deliver_crash 3 f40_node f40_tip) = CRecoverVeto /\
  lib_on_main (fst (deliver_crash 3 f40_node f40_tip)) = false /\
  main_ids (fst (deliver_crash 3 f40_node f40_tip)) = [0; 1; 2].
Proof. vm_compute. repeat split; reflexivity. Qed.

Theorem recovery_vetoed_refuted :
  exists size self evs tip,
    Forall ev_ok evs /\
    snd (deliver_crash 3 (run (init_node size self) evs) tip) = CRecoverVeto /\
    lib_on_main (fst (deliver_crash 3 (run (init_node size self) evs) tip)) = false.
Proof.
  exists 2. exists 1. exists f40_events. exists f40_tip. split.
  - unfold f40_events. simpl. repeat (apply Forall_cons; [unfold ev_ok, blk_ok; simpl; lia|]). apply Forall_nil.
  - destruct f40_values as [A [B _]]. split; [exact A | exact B].
Qed.

(** Proofs about the write units around the consensus status: what is saved with the chain tip,
    and crash recovery of a reorganisation (Dpos/LibCrash.v). *)
From Coq Require Import ZArith List Bool Lia.
From Verif Require Import Dpos.Lib Dpos.LibProofs Dpos.LibOnMain Dpos.LibQuorum Dpos.LibQuorumHist Dpos.LibCrash.
Import ListNotations.
Open Scope Z_scope.

(** * The status saved with the chain tip is the running status *)
Theorem saved_current_after_commit : forall nd blk nd' o,
  deliver nd blk = (nd', o) -> o = OConnected \/ o = OReorg ->
  nd_saved nd' = Some (save (st_ls (nd_st nd'))).
Proof.
  intros nd blk nd' o. deliver_cases nd blk; intros E; inversion E; subst; clear E;
    intros [H|H]; try discriminate; reflexivity.
Qed.

(** [restart_after_reorg_equals_running]: a node restarted right after a connected block or a
    reorganisation (before any further block) restores the running LIB and LpbNo, and its status
    is the recomputation (load) started from the RUNNING proposal map, not from an older one. *)
Theorem restart_after_reorg_equals_running : forall nd blk nd' o,
  deliver nd blk = (nd', o) -> o = OConnected \/ o = OReorg ->
  let cur := st_ls (nd_st nd') in
  st_ls (nd_st (restart nd')) =
    load (main_get (nd_main nd')) (mkLS (ls_prpsd cur) (ls_lib cur) (ls_lpb cur) [] (confirms_required (nd_size nd')) (nd_self nd'))
         (k_no (st_best (nd_st nd'))) /\
  ls_lib (st_ls (nd_st (restart nd'))) = ls_lib cur.
Proof.
  intros nd blk nd' o D H cur. pose proof (saved_current_after_commit _ _ _ _ D H) as S.
  unfold restart, restore. cbn [nd_st]. rewrite S. unfold save. cbn [st_ls]. split. reflexivity.
  rewrite load_lib. reflexivity.
Qed.

(** * Crash at stop point 2 (marker written, nothing swapped): the recovery is not vetoed *)
Lemma deliver_reorg_inv : forall nd blk nd' ,
  deliver nd blk = (nd', OReorg) ->
  exists root nb,
    gather (length (blk :: nd_store nd)) (nd_main nd) (blk :: nd_store nd) blk [] = Some (root, nb) /\
    need_reorganization (st_ls (nd_st nd)) (k_no root) = true /\ nd_store nd' = blk :: nd_store nd.
Proof.
  intros nd blk nd'. deliver_cases nd blk; intros E; inversion E; subst; clear E.
  exists root, new_blocks. repeat split; auto. apply negb_false_iff in Eveto. exact Eveto.
Qed.

(** Since fix 479daa05 the redo is not vetoed: whatever the crash point, the reorganisation is redone. *)
Theorem recovery_redone : forall point nd blk,
  snd (deliver nd blk) = OReorg -> snd (deliver_crash point nd blk) = CRecovered.
Proof.
  intros point nd blk H. unfold deliver_crash.
  destruct (deliver nd blk) as [nd1 o] eqn:D. simpl in H. subst o.
  destruct (deliver_reorg_inv _ _ _ D) as [root [nb [G [Nr St]]]].
  unfold redo_reorg. cbn [nd_store nd_main nd_st nd_size nd_self]. rewrite St, G. reflexivity.
Qed.

(** Regression (F40): 2 producers; main chain 1, 2; the side branch 3, 4, 5 forking at the genesis
    block wins at 5 and the status saved by that reorganisation has LIB = block 3 (height 1) of the
    new branch; crash between the swap and the deletion of the marker; before the fix the recovery
    (fork point 0 < LIB 1) was vetoed and the node kept chain 0,1,2 with that LIB.  Now: *)
Definition f40_events : list event :=
  map EDeliver [mkBlk 1 0 1 0 1; mkBlk 2 1 2 0 1; mkBlk 3 0 1 0 1; mkBlk 4 3 2 1 2].
Definition f40_tip : block := mkBlk 5 4 3 0 2.
Local Notation f40_node := (run (init_node 2 1) f40_events).
Example f40_recovered :
  snd (deliver_crash 3 f40_node f40_tip) = CRecovered /\
  lib_on_main (fst (deliver_crash 3 f40_node f40_tip)) = true /\
  main_ids (fst (deliver_crash 3 f40_node f40_tip)) = [0; 3; 4; 5] /\
  lib_no (fst (deliver_crash 3 f40_node f40_tip)) = 1.
Proof. vm_compute. repeat split; reflexivity. Qed.


(** * The recovered node satisfies the node invariant (LIB and proposals on the new main chain) *)
Lemma status_update_rollback_SI2 : forall (P Q : binfo -> Prop) g bps size s blk,
  Forall (fun kv => P (pl_plib (snd kv))) (ls_prpsd (st_ls s)) -> Q genesis_info ->
  (forall bi, P bi -> b_no bi <= k_no blk -> Q bi) ->
  (forall i b, g i = Some b -> Q (info_of b)) ->
  (ls_lib (st_ls s) = empty_info \/ Q (ls_lib (st_ls s))) ->
  (k_id (st_best s) =? k_prev blk) = false ->
  SI Q (st_ls (status_update g bps size s blk)).
Proof.
  intros P Q g bps size s blk Hp Qg PQ gQ Hl E. unfold status_update. rewrite E. simpl.
  apply set_cr_SI, gc_SI. unfold rollback_status_to. apply load_SI; auto; simpl.
  eapply reset_stale_P; eauto.
Qed.

Lemma fold_extend_SI_fixed : forall (P : binfo -> Prop) g size store nb p s,
  chain_from store p nb -> (forall x, In x nb -> P (info_of x)) -> P genesis_info ->
  k_id (st_best s) = k_id p -> SI P (st_ls s) ->
  SI P (st_ls (fold_left (status_update g [] size) nb s)) /\
  st_best (fold_left (status_update g [] size) nb s) = last nb (st_best s).
Proof.
  induction nb as [|x tl]; intros p s Hc Hx Pg Hb S.
  - simpl. split; auto.
  - destruct Hc as [H1 [H2 [H3 H4]]]. rewrite last_cons_default. cbn [fold_left].
    replace x with (st_best (status_update g [] size s x)) at 3 by reflexivity.
    apply (IHtl x); auto.
    + intros y Hy. apply Hx. right; auto.
    + apply status_update_extend_SI; auto. apply Hx. left; auto. apply Z.eqb_eq. congruence.
Qed.

Lemma In_main_get : forall s C p x, WF s C p -> In x C -> main_get C (k_no x) = Some x.
Proof.
  intros s C p x W I. apply In_nth_error in I. destruct I as [i Hi].
  assert (G : main_get C (Z.of_nat i) = Some x).
  { unfold main_get. destruct (Z.of_nat i <? 0) eqn:E. apply Z.ltb_lt in E; lia. rewrite Nat2Z.id. exact Hi. }
  destruct (wf_height _ _ _ W _ _ G) as [H _]. rewrite H. exact G.
Qed.

Theorem recovery_NI : forall point nd blk,
  NI nd -> blk_ok blk -> snd (deliver nd blk) = OReorg -> NI (fst (deliver_crash point nd blk)).
Proof.
  intros point nd blk N Hid H.
  pose proof (deliver_NI nd blk N Hid) as N1.
  unfold deliver_crash. destruct (deliver nd blk) as [nd1 o] eqn:D. simpl in H. subst o. cbn [fst] in N1.
  destruct (deliver_reorg_inv _ _ _ D) as [root [nb [G [Nr St]]]].
  (* shape of nd1 *)
  assert (Fid : find_block (nd_store nd) (k_id blk) = None).
  { revert D. unfold deliver. destruct (find_block (nd_store nd) (k_id blk)); auto. intros D; inversion D. }
  destruct (reorg_facts nd blk root nb N Hid Fid G) as [Wr [Cn [Epath R0]]].
  set (main_r := firstn (Z.to_nat (k_no root) + 1) (nd_main nd)) in *.
  assert (M1 : nd_main nd1 = main_r ++ nb /\ nd_size nd1 = nd_size nd /\ nd_self nd1 = nd_self nd).
  { revert D. unfold deliver. rewrite Fid.
    destruct (negb (verify_lib_rule _ blk)); [intros D; inversion D|].
    destruct (find_block (nd_store nd) (k_prev blk)); [|intros D; inversion D].
    destruct (negb (k_no b + 1 =? k_no blk)); [intros D; inversion D|].
    destruct (k_prev blk =? k_id _); [intros D; inversion D|].
    destruct (k_no blk <=? k_no _); [intros D; inversion D|].
    rewrite G. rewrite Nr. cbn [negb]. intros D; inversion D; subst. cbn. auto. }
  destruct M1 as [M1 [Sz Sf]].
  pose proof (NI_WF _ N1) as W1. unfold WFn in W1. rewrite M1, St in W1.
  set (P := onm (main_r ++ nb)).
  assert (Pg : P genesis_info) by (apply gen_onm; apply (wf_gen _ _ _ W1)).
  assert (Pnb : forall x, In x nb -> P (info_of x)).
  { intros x I. apply onm_info_of. eapply In_main_get; eauto. apply in_or_app; auto. }
  assert (Pr : forall bi, onm main_r bi -> P bi) by (intros; apply onm_app; auto).
  assert (Pold : forall bi, onm (nd_main nd) bi -> b_no bi <= k_no root -> P bi).
  { intros bi [x [Gx Ex]] Hle. apply Pr. exists x. split; auto.
    pose proof (main_get_firstn_app (nd_main nd) [] (k_no root) (b_no bi) x) as Q.
    rewrite app_nil_r in Q. apply Q; auto. destruct (main_get_some_lt _ _ _ Gx). lia. }
  (* the saved status the node restarts from, and the restored status *)
  set (sv := if point =? 3 then nd_saved nd1 else nd_saved nd).
  set (Q0 := fun bi => onm (nd_main nd) bi \/ P bi).
  set (st0 := restore (main_get (nd_main nd)) sv (st_best (nd_st nd)) (nd_size nd) (nd_self nd)).
  assert (S0 : Forall (fun kv => Q0 (pl_plib (snd kv))) (ls_prpsd (st_ls st0)) /\
               (ls_lib (st_ls st0) = empty_info \/ P (ls_lib (st_ls st0)))).
  { assert (Sv : match sv with
                 | Some (p, l, _) => Forall (fun kv => Q0 (pl_plib (snd kv))) p /\ (l = empty_info \/ P l)
                 | None => True end).
    { unfold sv. destruct (point =? 3).
      - pose proof (ni_saved _ N1) as V. pose proof (ni_si _ N1) as [_ [_ Sl]].
        destruct (nd_saved nd1) as [[[p l] lpb]|]; auto. destruct V as [V1 V2]. rewrite M1 in V2, Sl. split.
        + eapply Forall_impl; [|exact V2]. intros kv Hkv. right. exact Hkv.
        + rewrite V1. exact Sl.
      - pose proof (ni_saved _ N) as V. pose proof (ni_si _ N) as [_ [_ Sl]].
        destruct (nd_saved nd) as [[[p l] lpb]|]; auto. destruct V as [V1 V2]. split.
        + eapply Forall_impl; [|exact V2]. intros kv Hkv. left. exact Hkv.
        + rewrite V1. destruct Sl as [Sl|Sl]; auto. right. apply Pold; auto.
          unfold need_reorganization in Nr. apply Z.leb_le in Nr. exact Nr. }
    unfold st0, restore. destruct sv as [[[p l] lpb]|]; cbn [st_ls].
    - destruct Sv as [Sp Sl].
      assert (L : SI Q0 (load (main_get (nd_main nd)) (mkLS p l lpb [] (confirms_required (nd_size nd)) (nd_self nd)) (k_no (st_best (nd_st nd))))).
      { apply load_SI; simpl; auto.
        - intros i b Gb. left. apply onm_info_of. destruct (ni_height _ N _ _ Gb) as [Hb _]. rewrite Hb. exact Gb.
        - left. apply gen_onm. apply (ni_gen _ N).
        - destruct Sl as [Sl|Sl]; auto. right. right. exact Sl. }
      destruct L as [_ [Lp _]]. split; auto. rewrite load_lib. simpl. exact Sl.
    - simpl. split; auto. }
  destruct S0 as [S0p S0l].
  (* redo *)
  unfold redo_reorg. cbn [nd_store nd_main nd_st nd_size nd_self]. rewrite St, G. cbn [fst].
  fold main_r. fold sv. fold st0.
  assert (B0 : st_best st0 = st_best (nd_st nd)).
  { unfold st0, restore. destruct sv as [[[p l] lpb]|]; reflexivity. }
  set (st1 := status_update (main_get main_r) [] (nd_size nd) st0 root).
  assert (S1 : SI P (st_ls st1)).
  { unfold st1. eapply status_update_rollback_SI2 with (P := Q0); auto.
    - intros bi [Hb|Hb] Hle; auto.
    - intros i b Gb. apply Pr. apply onm_info_of. destruct (wf_height _ _ _ Wr _ _ Gb) as [Hb _]. rewrite Hb. exact Gb.
    - rewrite B0. exact Epath. }
  destruct (fold_extend_SI_fixed P (main_get main_r) (nd_size nd) (blk :: nd_store nd) nb root st1 Cn Pnb Pg eq_refl S1)
    as [S2 B2].
  set (st2 := fold_left (status_update (main_get main_r) [] (nd_size nd)) nb st1) in *.
  assert (Bst : st_best st2 = st_best (nd_st nd1)).
  { rewrite B2. change (st_best st1) with root.
    (* the online reorganisation ends on the same block *)
    revert D. unfold deliver. rewrite Fid.
    destruct (negb (verify_lib_rule _ blk)); [intros D; inversion D|].
    destruct (find_block (nd_store nd) (k_prev blk)); [|intros D; inversion D].
    destruct (negb (k_no b + 1 =? k_no blk)); [intros D; inversion D|].
    destruct (k_prev blk =? k_id _); [intros D; inversion D|].
    destruct (k_no blk <=? k_no _); [intros D; inversion D|].
    rewrite G. rewrite Nr. cbn [negb]. intros D; inversion D; subst. cbn [nd_st]. fold main_r.
    assert (F : forall l s, st_best (fold_left (status_update (main_get main_r) [] (nd_size nd)) l s) = last l (st_best s)).
    { induction l; intros; [reflexivity|]. cbn [fold_left]. rewrite IHl, last_cons_default. reflexivity. }
    rewrite F. reflexivity. }
  apply NI_of; cbn [nd_main nd_st nd_store nd_saved].
  - unfold WFn. cbn [nd_main nd_st nd_store]. rewrite Bst. exact W1.
  - rewrite <- St. apply (ni_uniq _ N1).
  - rewrite <- St. apply (ni_ids _ N1).
  - exact S2.
  - unfold save. destruct S2 as [a [b c]]. split; auto.
Qed.

(** [recovery_lib_on_main]: after a crash at either stop point of a reorganisation and the
    recovery, the LIB (and every proposal) is on the node's (new) main chain. *)
Theorem recovery_lib_on_main : forall point nd blk,
  NI nd -> blk_ok blk -> snd (deliver nd blk) = OReorg ->
  lib_on_main (fst (deliver_crash point nd blk)) = true.
Proof. intros. apply NI_lib_on_main, recovery_NI; auto. Qed.

From Coq Require Import ZArith List Bool Lia.
From Verif Require Import Dpos.Lib Dpos.LibProofs Dpos.LibOnMain Dpos.LibQuorum Dpos.LibQuorumHist.
Import ListNotations.
Open Scope Z_scope.

(** * Examples: the hypotheses of the theorems are satisfiable by non-trivial states *)
Definition ex_rr1 : node :=
  run (init_node 1 0) [EDeliver (mkBlk 1 0 1 0 1); EDeliver (mkBlk 2 1 2 0 1); EDeliver (mkBlk 3 2 3 0 1)].
(* block_le_lib_refused / finalized_never_undone: LIB = 3, block numbered 2 is refused, block 2 stays *)
Example ex_block_le_lib : lib_no ex_rr1 = 3 /\ k_no (mkBlk 9 1 2 0 1) <= lib_no ex_rr1 /\
  main_at ex_rr1 2 = Some (mkBlk 2 1 2 0 1).
Proof. vm_compute. repeat split; congruence. Qed.

(* reorg_below_lib_refused: 4 producers in round robin, main chain 1..8 (LIB 4), a side branch
   forking at height 2 stored while the LIB was 1 outgrows the main chain: vetoed *)
Definition ex_mainb (i : Z) := mkBlk i (i - 1) i (i mod 4) (Z.min i 4).
Definition ex_sideb (i : Z) := mkBlk (100 + i) (if i =? 3 then 2 else 100 + i - 1) i 0 1.
Definition ex_veto_node : node := run (init_node 4 0)
  (map EDeliver (map ex_mainb [1;2;3;4;5] ++ map ex_sideb [3;4;5] ++ map ex_mainb [6;7;8] ++ map ex_sideb [6;7;8])).
Example ex_veto : snd (deliver ex_veto_node (ex_sideb 9)) = OVeto /\ lib_no ex_veto_node = 4.
Proof. vm_compute. split; reflexivity. Qed.

(* plib_has_quorum: an Update that sets a proposal (1 producer: the block confirms itself) *)
Example ex_plib : exists ls1 pl,
  get_pre_lib (add_confirm_info (st_ls (nd_st (run (init_node 1 0) []))) (mkBlk 1 0 1 0 1)) = (ls1, Some (0, pl)).
Proof. eexists. eexists. vm_compute. reflexivity. Qed.

(* honest_windows_disjoint: two windows of one correct producer: (2,5] and (5,9] *)
Example ex_windows : window 5 (honest_confirms 5 2) 4 /\ window 9 (honest_confirms 9 5) 6.
Proof. unfold window, honest_confirms. lia. Qed.

(* restart: a node with a saved status *)
Example ex_restart : exists p l lpb, nd_saved ex_rr1 = Some (p, l, lpb) /\ b_no l = 3.
Proof. vm_compute. eexists. eexists. eexists. split; reflexivity. Qed.

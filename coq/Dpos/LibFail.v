(** Block execution failures around the DPoS status (model, no proofs).
    chain/chainhandle.go executeBlock: when ex.execute() fails (bad state root, failing
    transaction ...) the chain service calls cs.Update(bestBlock) -- Status.Update with the current
    best block of the chain DB, i.e. the rollback path with the best block as target -- and returns
    the error; nothing is saved, the chain DB is untouched.
      * child of the best block: V, VerifySign, IsBlockValid, Update(best);
      * block k of the new branch during reorg.rollforward: after Update(root), Update(new 1..k-1),
        then Update(old best); reorg's error path restores the state DB root (fix d08861f6) and the
        parameters (F41) and calls Update(old best) once more (fix 05cfcb8b, F42), then returns the error;
        the side branch stays in the block store and every further block of that branch repeats it.
    Call sequences recorded from the real ChainService (harness/engines/dposlib chain engine).
    [bad] says which block identifiers fail when executed. *)
From Coq Require Import ZArith List Bool Lia.
From Verif Require Import Dpos.Lib.
Import ListNotations.
Open Scope Z_scope.

Inductive foutcome := FO (o : outcome) | FExecFailed | FReorgFailed.
Definition foutcome_code (o : foutcome) : Z :=
  match o with FO o => outcome_code o | FExecFailed => 12 | FReorgFailed => 13 end.

(* cs.Update(bestBlock) after a failed execution *)
Definition update_to_best (main : list block) (nd : node) (st : status) : status :=
  match rev main with
  | [] => st
  | best :: _ => status_update (main_get main) [] (nd_size nd) st best
  end.

Definition exec_fail (nd : node) : node :=
  mkNode (nd_size nd) (nd_self nd) (update_to_best (nd_main nd) nd (nd_st nd))
         (nd_main nd) (nd_store nd) (nd_saved nd).

(* the new blocks executed before the first failing one, and the failing one if any *)
Fixpoint ok_prefix (bad : Z -> bool) (l : list block) : list block * option block :=
  match l with
  | [] => ([], None)
  | b :: tl => if bad (k_id b) then ([], Some b)
               else let '(p, f) := ok_prefix bad tl in (b :: p, f)
  end.

Definition deliver_f (bad : Z -> bool) (nd : node) (blk : block) : node * foutcome :=
  let ls := st_ls (nd_st nd) in
  match find_block (nd_store nd) (k_id blk) with
  | Some _ => (nd, FO ODup)
  | None =>
  if negb (verify_lib_rule ls blk) then (nd, FO OLeLib) else
  match find_block (nd_store nd) (k_prev blk) with
  | None => (nd, FO OOrphan)
  | Some parent =>
  if negb (k_no parent + 1 =? k_no blk) then (nd, FO OInvalid) else
  let store' := blk :: nd_store nd in
  let best := st_best (nd_st nd) in
  if k_prev blk =? k_id best then
    if bad (k_id blk) then (exec_fail nd, FExecFailed)
    else
    let st' := status_update (main_get (nd_main nd)) [] (nd_size nd) (nd_st nd) blk in
    (mkNode (nd_size nd) (nd_self nd) st' (nd_main nd ++ [blk]) store' (Some (save (st_ls st'))), FO OConnected)
  else if k_no blk <=? k_no best then
    (mkNode (nd_size nd) (nd_self nd) (nd_st nd) (nd_main nd) store' (nd_saved nd), FO OSide)
  else
    match gather (length store') (nd_main nd) store' blk [] with
    | None => (nd, FO OInvalid)
    | Some (root, new_blocks) =>
        if negb (need_reorganization ls (k_no root)) then
          (mkNode (nd_size nd) (nd_self nd) (nd_st nd) (nd_main nd) store' (nd_saved nd), FO OVeto)
        else
          let main_r := firstn (Z.to_nat (k_no root) + 1) (nd_main nd) in
          let st1 := status_update (main_get main_r) [] (nd_size nd) (nd_st nd) root in
          let '(okb, failed) := ok_prefix bad new_blocks in
          let st2 := fold_left (status_update (main_get main_r) [] (nd_size nd)) okb st1 in
          match failed with
          | Some _ =>
            (* executeBlock's Update(old best), then reorg's own Update(old best) (fix 05cfcb8b, F42) *)
            (mkNode (nd_size nd) (nd_self nd)
                    (update_to_best (nd_main nd) nd (update_to_best (nd_main nd) nd st2))
                    (nd_main nd) store' (nd_saved nd),
             FReorgFailed)
          | None =>
            (mkNode (nd_size nd) (nd_self nd) st2 (main_r ++ new_blocks) store' (Some (save (st_ls st2))), FO OReorg)
          end
    end
  end end.

(** consensus calls of the chain service, failures included (see Lib.deliver_calls) *)
Definition deliver_f_calls (bad : Z -> bool) (nd : node) (blk : block) : list Z :=
  let best := k_id (st_best (nd_st nd)) in
  match snd (deliver_f bad nd blk) with
  | FO _ => deliver_calls nd blk
  | FExecFailed => [1; k_no blk; 5; k_id blk; 6; k_id blk; best; 3; best]
  | FReorgFailed =>
      match gather (length (blk :: nd_store nd)) (nd_main nd) (blk :: nd_store nd) blk [] with
      | Some (root, nb) =>
          let '(okb, failed) := ok_prefix bad nb in
          [1; k_no blk; 5; k_id blk; 2; k_no root; 3; k_id root] ++
          flat_map (fun b => [6; k_id b; best; 3; k_id b]) okb ++
          match failed with Some b => [6; k_id b; best; 3; best; 3; best] | None => [] end
      | None => []
      end
  end.

Inductive fevent := FDeliver (b : block) | FRestart.
Definition step_f (bad : Z -> bool) (nd : node) (e : fevent) : node :=
  match e with FDeliver b => fst (deliver_f bad nd b) | FRestart => restart nd end.
Definition run_f (bad : Z -> bool) (nd : node) (evs : list fevent) : node := fold_left (step_f bad) evs nd.

(** scenario check against the engine (ops: deliveries, "this id fails", restarts) *)
Inductive fop := FOpD (b : block) (h : Z) | FOpBad (id : Z) | FOpR (h : Z) | FOpS (h : Z)
  | FOpL (n : Z) | FOpC (b : block) (h : Z).   (* chain-side tie, as Lib.OpL / Lib.OpC *)
Fixpoint fscenario_check (badl : list Z) (nd : node) (ops : list fop) (i : nat) : option nat :=
  match ops with
  | [] => None
  | FOpBad id :: tl => fscenario_check (id :: badl) nd tl (S i)
  | FOpD b h :: tl =>
      let '(nd', oc) := deliver_f (fun id => zmem id badl) nd b in
      if obs_hash (foutcome_code oc) nd' =? h then fscenario_check badl nd' tl (S i) else Some i
  | FOpR h :: tl =>
      let nd' := restart nd in
      if obs_hash 8 nd' =? h then fscenario_check badl nd' tl (S i) else Some i
  | FOpS h :: tl =>
      if obs_hash 8 (restart nd) =? h then fscenario_check badl nd tl (S i) else Some i
  | FOpL n :: tl => fscenario_check badl (set_node_lib nd n) tl (S i)
  | FOpC b h :: tl =>
      let bad := fun id => zmem id badl in
      let nd' := fst (deliver_f bad nd b) in
      if chain_obs_hash (deliver_f_calls bad nd b) nd' =? h then fscenario_check badl nd' tl (S i) else Some i
  end.
Fixpoint fscenario_obs_at (badl : list Z) (nd : node) (ops : list fop) (i : nat) : list Z :=
  match ops with
  | [] => []
  | FOpBad id :: tl => match i with O => [] | S j => fscenario_obs_at (id :: badl) nd tl j end
  | FOpL n :: tl => match i with O => [] | S j => fscenario_obs_at badl (set_node_lib nd n) tl j end
  | FOpC b _ :: tl =>
      let bad := fun id => zmem id badl in
      let nd' := fst (deliver_f bad nd b) in
      match i with
      | O => deliver_f_calls bad nd b ++ k_id (st_best (nd_st nd')) :: Z.of_nat (length (nd_main nd')) :: main_ids nd'
      | S j => fscenario_obs_at badl nd' tl j
      end
  | o :: tl =>
      let '(nd', code, keep) :=
        match o with
        | FOpD b _ => let '(nd', oc) := deliver_f (fun id => zmem id badl) nd b in (nd', foutcome_code oc, nd')
        | FOpR _ => (restart nd, 8, restart nd)
        | _ => (restart nd, 8, nd)
        end in
      match i with O => flat_obs code nd' | S j => fscenario_obs_at badl keep tl j end
  end.
Definition fscenario_first_diff (c : (Z * Z) * list fop) : Z :=
  let '((size, self), ops) := c in
  match fscenario_check [] (init_node size self) ops 0 with None => -1 | Some i => Z.of_nat i end.
Definition fscenario_debug (c : (Z * Z) * list fop) (i : nat) : list Z :=
  let '((size, self), ops) := c in fscenario_obs_at [] (init_node size self) ops i.

(** Block execution failures around the DPoS status (model, no proofs).
    chain/chainhandle.go executeBlock: when ex.execute() fails (bad state root, failing
    transaction ...) the chain service calls cs.Update(bestBlock) -- Status.Update with the current
    best block of the chain DB, i.e. the rollback path with the best block as target -- and returns
    the error; nothing is saved, the chain DB is untouched.
      * child of the best block: V, VerifySign, IsBlockValid, Update(best);
      * block k of the new branch during reorg.rollforward: after Update(root), Update(new 1..k-1),
        then Update(old best); reorg's error path restores the state DB root (fix d08861f6) and the
        parameters (F41) and calls Update(old best) once more (fix 05cfcb8b, F42), then returns the error;
        the side branch stays in the block store and every further block of that branch repeats it.
    Call sequences recorded from the real ChainService (harness/engines/dposlib chain engine).
      * a block refused by IsBlockValid (not the slot's producer, key not a current BP): executeBlock
        returns before executing and before its Update(best); as a child of the best block nothing
        happens at all; inside reorg.rollforward only reorg()'s own Update(old best) runs (F42), with
        the status standing on the previous new-branch block.  Status.Update tells a connected block
        from a rollback target by HASH linkage (best.id = block.prev): the old best block is never the
        child of a new-branch block, whatever its height.
    [bad] says which block identifiers fail when executed, [ref] which are refused by IsBlockValid. *)
From Coq Require Import ZArith List Bool Lia.
From Verif Require Import Dpos.Lib.
Import ListNotations.
Open Scope Z_scope.

Inductive foutcome := FO (o : outcome) | FExecFailed | FReorgFailed | FRefused | FReorgRefused.
Definition foutcome_code (o : foutcome) : Z :=
  match o with FO o => outcome_code o | FExecFailed => 12 | FReorgFailed => 13 | FRefused => 16 | FReorgRefused => 17 end.

(* cs.Update(bestBlock) after a failed execution *)
Definition update_to_best (main : list block) (nd : node) (st : status) : status :=
  match rev main with
  | [] => st
  | best :: _ => status_update (main_get main) [] (nd_size nd) st best
  end.

Definition exec_fail (nd : node) : node :=
  mkNode (nd_size nd) (nd_self nd) (update_to_best (nd_main nd) nd (nd_st nd))
         (nd_main nd) (nd_store nd) (nd_saved nd).

(* the new blocks executed before the first failing one, and the failing one if any, with its
   kind (true = refused by IsBlockValid, false = execution failure) *)
Fixpoint ok_prefix (bad ref : Z -> bool) (l : list block) : list block * option (block * bool) :=
  match l with
  | [] => ([], None)
  | b :: tl => if ref (k_id b) then ([], Some (b, true))
               else if bad (k_id b) then ([], Some (b, false))
               else let '(p, f) := ok_prefix bad ref tl in (b :: p, f)
  end.

Definition deliver_f (bad ref : Z -> bool) (nd : node) (blk : block) : node * foutcome :=
  let ls := st_ls (nd_st nd) in
  match find_block (nd_store nd) (k_id blk) with
  | Some _ => (nd, FO ODup)
  | None =>
  if negb (verify_lib_rule ls blk) then (nd, FO OLeLib) else
  match find_block (nd_store nd) (k_prev blk) with
  | None => (nd, FO OOrphan)
  | Some parent =>
  if negb (k_no parent + 1 =? k_no blk) then (nd, FO OInvalid) else
  let store' := blk :: nd_store nd in
  let best := st_best (nd_st nd) in
  if k_prev blk =? k_id best then
    if ref (k_id blk) then (nd, FRefused)
    else if bad (k_id blk) then (exec_fail nd, FExecFailed)
    else
    let st' := status_update (main_get (nd_main nd)) [] (nd_size nd) (nd_st nd) blk in
    (mkNode (nd_size nd) (nd_self nd) st' (nd_main nd ++ [blk]) store' (Some (save (st_ls st'))), FO OConnected)
  else if k_no blk <=? k_no best then
    (mkNode (nd_size nd) (nd_self nd) (nd_st nd) (nd_main nd) store' (nd_saved nd), FO OSide)
  else
    match gather (length store') (nd_main nd) store' blk [] with
    | None => (nd, FO OInvalid)
    | Some (root, new_blocks) =>
        if negb (need_reorganization ls (k_no root)) then
          (mkNode (nd_size nd) (nd_self nd) (nd_st nd) (nd_main nd) store' (nd_saved nd), FO OVeto)
        else
          let main_r := firstn (Z.to_nat (k_no root) + 1) (nd_main nd) in
          let st1 := status_update (main_get main_r) [] (nd_size nd) (nd_st nd) root in
          let '(okb, failed) := ok_prefix bad ref new_blocks in
          let st2 := fold_left (status_update (main_get main_r) [] (nd_size nd)) okb st1 in
          match failed with
          | Some (_, false) =>
            (* executeBlock's Update(old best), then reorg's own Update(old best) (fix 05cfcb8b, F42) *)
            (mkNode (nd_size nd) (nd_self nd)
                    (update_to_best (nd_main nd) nd (update_to_best (nd_main nd) nd st2))
                    (nd_main nd) store' (nd_saved nd),
             FReorgFailed)
          | Some (_, true) =>
            (* refused by IsBlockValid: only reorg's Update(old best) *)
            (mkNode (nd_size nd) (nd_self nd) (update_to_best (nd_main nd) nd st2)
                    (nd_main nd) store' (nd_saved nd),
             FReorgRefused)
          | None =>
            (mkNode (nd_size nd) (nd_self nd) st2 (main_r ++ new_blocks) store' (Some (save (st_ls st2))), FO OReorg)
          end
    end
  end end.

(** consensus calls of the chain service, failures included (see Lib.deliver_calls) *)
Definition deliver_f_calls (bad ref : Z -> bool) (nd : node) (blk : block) : list Z :=
  let best := k_id (st_best (nd_st nd)) in
  match snd (deliver_f bad ref nd blk) with
  | FO _ => deliver_calls nd blk
  | FExecFailed => [1; k_no blk; 5; k_id blk; 6; k_id blk; best; 3; best]
  | FRefused => [1; k_no blk; 5; k_id blk; 6; k_id blk; best]
  | FReorgFailed | FReorgRefused =>
      match gather (length (blk :: nd_store nd)) (nd_main nd) (blk :: nd_store nd) blk [] with
      | Some (root, nb) =>
          let '(okb, failed) := ok_prefix bad ref nb in
          [1; k_no blk; 5; k_id blk; 2; k_no root; 3; k_id root] ++
          flat_map (fun b => [6; k_id b; best; 3; k_id b]) okb ++
          match failed with
          | Some (b, false) => [6; k_id b; best; 3; best; 3; best]
          | Some (b, true) => [6; k_id b; best; 3; best]
          | None => []
          end
      | None => []
      end
  end.

Inductive fevent := FDeliver (b : block) | FRestart.
Definition step_f (bad ref : Z -> bool) (nd : node) (e : fevent) : node :=
  match e with FDeliver b => fst (deliver_f bad ref nd b) | FRestart => restart nd end.
Definition run_f (bad ref : Z -> bool) (nd : node) (evs : list fevent) : node := fold_left (step_f bad ref) evs nd.

(** scenario check against the engine (ops: deliveries, "this id fails", restarts) *)
Inductive fop := FOpD (b : block) (h : Z) | FOpBad (id : Z) | FOpRef (id : Z) | FOpR (h : Z) | FOpS (h : Z)
  | FOpL (n : Z) | FOpC (b : block) (h : Z).   (* chain-side tie, as Lib.OpL / Lib.OpC *)
Fixpoint fscenario_check (badl refl : list Z) (nd : node) (ops : list fop) (i : nat) : option nat :=
  match ops with
  | [] => None
  | FOpBad id :: tl => fscenario_check (id :: badl) refl nd tl (S i)
  | FOpRef id :: tl => fscenario_check badl (id :: refl) nd tl (S i)
  | FOpD b h :: tl =>
      let '(nd', oc) := deliver_f (fun id => zmem id badl) (fun id => zmem id refl) nd b in
      if obs_hash (foutcome_code oc) nd' =? h then fscenario_check badl refl nd' tl (S i) else Some i
  | FOpR h :: tl =>
      let nd' := restart nd in
      if obs_hash 8 nd' =? h then fscenario_check badl refl nd' tl (S i) else Some i
  | FOpS h :: tl =>
      if obs_hash 8 (restart nd) =? h then fscenario_check badl refl nd tl (S i) else Some i
  | FOpL n :: tl => fscenario_check badl refl (set_node_lib nd n) tl (S i)
  | FOpC b h :: tl =>
      let bad := fun id => zmem id badl in
      let ref := fun id => zmem id refl in
      let nd' := fst (deliver_f bad ref nd b) in
      if chain_obs_hash (deliver_f_calls bad ref nd b) nd' =? h then fscenario_check badl refl nd' tl (S i) else Some i
  end.
Definition fscenario_first_diff (c : (Z * Z) * list fop) : Z :=
  let '((size, self), ops) := c in
  match fscenario_check [] [] (init_node size self) ops 0 with None => -1 | Some i => Z.of_nat i end.

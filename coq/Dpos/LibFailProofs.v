(** Proofs about block execution failures (Dpos/LibFail.v). *)
From Coq Require Import ZArith List Bool Lia.
From Verif Require Import Dpos.Lib Dpos.LibProofs Dpos.LibOnMain Dpos.LibFail.
Import ListNotations.
Open Scope Z_scope.

(** * Conservative extension: without failing blocks it is [deliver] *)
Lemma ok_prefix_none : forall bad l p, ok_prefix bad l = (p, None) -> p = l.
Proof.
  induction l as [|b tl]; simpl; intros p H.
  - inversion H; auto.
  - destruct (bad (k_id b)); [discriminate|].
    destruct (ok_prefix bad tl) as [p' f] eqn:E. inversion H; subst. f_equal. apply IHtl; auto.
Qed.

Lemma ok_prefix_false : forall l, ok_prefix (fun _ => false) l = (l, None).
Proof. induction l; simpl; auto. rewrite IHl. reflexivity. Qed.

Theorem deliver_f_no_bad : forall nd blk,
  deliver_f (fun _ => false) nd blk = (fst (deliver nd blk), FO (snd (deliver nd blk))).
Proof.
  intros. unfold deliver_f, deliver.
  destruct (find_block (nd_store nd) (k_id blk)); [reflexivity|].
  destruct (negb (verify_lib_rule _ blk)); [reflexivity|].
  destruct (find_block (nd_store nd) (k_prev blk)); [|reflexivity].
  destruct (negb (k_no b + 1 =? k_no blk)); [reflexivity|].
  destruct (k_prev blk =? k_id _); [reflexivity|].
  destruct (k_no blk <=? k_no _); [reflexivity|].
  destruct (gather _ _ _ _ _) as [[root nb]|]; [|reflexivity].
  destruct (negb (need_reorganization _ _)); [reflexivity|].
  rewrite ok_prefix_false. reflexivity.
Qed.

(** * What still holds with failures: the LIB height does not decrease at a delivery, blocks at
    or below the LIB are refused and main-chain blocks at or below it are not replaced *)
Lemma update_to_best_lib_mono : forall main nd st,
  b_no (ls_lib (st_ls st)) <= b_no (ls_lib (st_ls (update_to_best main nd st))).
Proof.
  intros. unfold update_to_best. destruct (rev main). lia. apply status_update_lib_mono.
Qed.

Theorem deliver_f_lib_mono : forall bad nd blk, lib_no nd <= lib_no (fst (deliver_f bad nd blk)).
Proof.
  intros. unfold lib_no, deliver_f.
  destruct (find_block (nd_store nd) (k_id blk)); cbn [fst]; [lia|].
  destruct (negb (verify_lib_rule _ blk)); cbn [fst]; [lia|].
  destruct (find_block (nd_store nd) (k_prev blk)); cbn [fst]; [|lia].
  destruct (negb (k_no b + 1 =? k_no blk)); cbn [fst]; [lia|].
  destruct (k_prev blk =? k_id _).
  { destruct (bad (k_id blk)); cbn [fst nd_st exec_fail].
    - apply update_to_best_lib_mono.
    - apply status_update_lib_mono. }
  destruct (k_no blk <=? k_no _); cbn [fst nd_st]; [lia|].
  destruct (gather _ _ _ _ _) as [[root nb]|]; cbn [fst]; [|lia].
  destruct (negb (need_reorganization _ _)); cbn [fst nd_st]; [lia|].
  destruct (ok_prefix bad nb) as [okb failed].
  set (g := main_get (firstn (Z.to_nat (k_no root) + 1) (nd_main nd))).
  set (st1 := status_update g [] (nd_size nd) (nd_st nd) root).
  set (st2 := fold_left (status_update g [] (nd_size nd)) okb st1).
  assert (M : b_no (ls_lib (st_ls (nd_st nd))) <= b_no (ls_lib (st_ls st2))).
  { eapply Z.le_trans. 2: apply fold_status_update_lib_mono. apply status_update_lib_mono. }
  destruct failed; cbn [fst nd_st]; auto.
  eapply Z.le_trans. exact M. eapply Z.le_trans; apply update_to_best_lib_mono.
Qed.

Theorem deliver_f_main_stable : forall bad nd blk h b,
  0 <= h <= lib_no nd -> main_at nd h = Some b -> main_at (fst (deliver_f bad nd blk)) h = Some b.
Proof.
  intros bad nd blk h b Hh M. unfold main_at, lib_no, deliver_f in *.
  destruct (find_block (nd_store nd) (k_id blk)); cbn [fst]; auto.
  destruct (negb (verify_lib_rule _ blk)); cbn [fst]; auto.
  destruct (find_block (nd_store nd) (k_prev blk)); cbn [fst]; auto.
  destruct (negb (k_no b0 + 1 =? k_no blk)); cbn [fst]; auto.
  destruct (k_prev blk =? k_id _).
  { destruct (bad (k_id blk)); cbn [fst nd_main exec_fail]; auto. apply main_get_app; auto. }
  destruct (k_no blk <=? k_no _); cbn [fst nd_main]; auto.
  destruct (gather _ _ _ _ _) as [[root nb]|]; cbn [fst]; auto.
  destruct (negb (need_reorganization _ _)) eqn:Ev; cbn [fst nd_main]; auto.
  destruct (ok_prefix bad nb) as [okb failed]. destruct failed; cbn [fst nd_main]; auto.
  apply main_get_firstn_app; auto.
  unfold need_reorganization in Ev. apply negb_false_iff, Z.leb_le in Ev. lia.
Qed.

(** * What does not: after a failed reorganisation the LIB is a block of the failed branch *)
(** 2 producers; main chain 1..4; a side branch 5,6,7,8,9 from the genesis block whose last block
    fails at execution: the rollforward of 5..8 moved the LIB to block 6 (height 2), the error
    path (Update(old best), twice since fix 05cfcb8b) keeps it; the main chain holds block 2 at that height; nothing is
    saved, so a restart brings the old LIB back. *)
Definition f25_events : list fevent :=
  map FDeliver [mkBlk 1 0 1 1 1; mkBlk 2 1 2 0 2; mkBlk 3 2 3 0 1; mkBlk 4 3 4 0 1;
                mkBlk 5 0 1 0 1; mkBlk 6 5 2 0 1; mkBlk 7 6 3 1 2; mkBlk 8 7 4 0 2; mkBlk 9 8 5 0 1].
Definition f25_bad (id : Z) : bool := id =? 9.
Local Notation f25_node := (run_f f25_bad (init_node 2 0) f25_events).

Example f25_values :
  ls_lib (st_ls (nd_st f25_node)) = mkB 6 2 1 /\ main_ids f25_node = [0; 1; 2; 3; 4].
Proof. vm_compute. split; reflexivity. Qed.
Example f25_off_main : lib_on_main f25_node = false.
Proof. vm_compute. reflexivity. Qed.
Example f25_restart_decreases : lib_no (step_f f25_bad f25_node FRestart) < lib_no f25_node.
Proof. vm_compute. reflexivity. Qed.

Theorem lib_on_main_chain_failed_reorg_refuted :
  exists bad size self evs, lib_on_main (run_f bad (init_node size self) evs) = false.
Proof. exists f25_bad. exists 2. exists 0. exists f25_events. exact f25_off_main. Qed.

Theorem lib_monotone_failed_reorg_refuted :
  exists bad size self evs,
    lib_no (step_f bad (run_f bad (init_node size self) evs) FRestart) <
    lib_no (run_f bad (init_node size self) evs).
Proof. exists f25_bad. exists 2. exists 0. exists f25_events. exact f25_restart_decreases. Qed.


(** * An invalid child of the best block leaves every invariant intact *)
Lemma rev_last_WF : forall s C p, WF s C p -> exists tl, rev C = p :: tl.
Proof.
  intros s C p W. pose proof (wf_last _ _ _ W) as L. pose proof (wf_len _ _ _ W) as N.
  destruct (main_get_some_lt _ _ _ L) as [K0 _].
  destruct C as [|c0 C0]. { simpl in N. lia. }
  destruct (exists_last (l := c0 :: C0)) as [l' [a E]]. discriminate.
  rewrite E in *. rewrite rev_app_distr. simpl. exists (rev l').
  unfold main_get in L. destruct (k_no p <? 0) eqn:Q. { apply Z.ltb_lt in Q. lia. }
  rewrite app_length in N. simpl in N.
  assert (Z.to_nat (k_no p) = length l') by lia.
  rewrite H in L. rewrite nth_error_app2 in L by lia. rewrite Nat.sub_diag in L. simpl in L.
  inversion L; subst. reflexivity.
Qed.

Lemma best_not_own_parent : forall nd, NI nd ->
  (k_id (st_best (nd_st nd)) =? k_prev (st_best (nd_st nd))) = false.
Proof.
  intros nd N. pose proof (NI_WF _ N) as W. unfold WFn in W.
  set (best := st_best (nd_st nd)) in *.
  pose proof (wf_last _ _ _ W) as L.
  destruct (wf_height _ _ _ W _ _ L) as [_ Ib].
  apply Z.eqb_neq. intro Q.
  destruct (Z.eq_dec (k_no best) 0) as [Z0|Z0].
  - rewrite Z0 in L. rewrite (wf_gen _ _ _ W) in L. inversion L as [G]. rewrite <- G in Q. simpl in Q.
    pose proof (ni_ids _ N _ Ib). fold best in H. rewrite <- G in H. simpl in H. lia.
  - destruct (main_get_some_lt _ _ _ L) as [K0 _].
    destruct (wf_link _ _ _ W (k_no best) best ltac:(lia) L) as [q [Gq Eq]].
    destruct (wf_height _ _ _ W _ _ Gq) as [Hq Iq].
    assert (q = best) by (eapply uniq_inj; [apply (ni_uniq _ N) | auto | auto | congruence]).
    subst q. lia.
Qed.

Lemma exec_fail_NI : forall nd, NI nd -> NI (exec_fail nd).
Proof.
  intros nd N. pose proof (NI_WF _ N) as W. unfold WFn in W.
  destruct (rev_last_WF _ _ _ W) as [tl R].
  unfold exec_fail, update_to_best. rewrite R.
  set (best := st_best (nd_st nd)) in *.
  assert (Lib : b_no (ls_lib (st_ls (nd_st nd))) <= k_no best).
  { destruct (ni_si _ N) as [_ [_ [E|[m [G _]]]]].
    - rewrite E. simpl. destruct (main_get_some_lt _ _ _ (wf_last _ _ _ W)). lia.
    - destruct (main_get_some_lt _ _ _ G). pose proof (wf_len _ _ _ W). lia. }
  apply NI_of; cbn [nd_main nd_st nd_store nd_saved].
  - unfold WFn. cbn [nd_main nd_st nd_store]. exact W.
  - apply (ni_uniq _ N).
  - apply (ni_ids _ N).
  - eapply status_update_rollback_SI with (P := onm (nd_main nd)).
    + apply (ni_si _ N).
    + apply gen_onm. apply (wf_gen _ _ _ W).
    + auto.
    + intros i b Gb. apply onm_info_of. destruct (wf_height _ _ _ W _ _ Gb) as [Hb _]. rewrite Hb. exact Gb.
    + exact Lib.
    + apply best_not_own_parent; auto.
  - pose proof (ni_saved _ N) as V. pose proof (best_not_own_parent nd N) as Ep. fold best in Ep.
    destruct (nd_saved nd) as [[[p l] lpb]|].
    + destruct V as [V1 V2]. split; auto. unfold status_update. fold best.
      rewrite Ep. cbn [st_ls]. simpl. rewrite rollback_lib. exact V1.
    + unfold status_update. fold best. rewrite Ep. cbn [st_ls]. simpl. rewrite rollback_lib. exact V.
Qed.

Lemma deliver_f_FO : forall bad nd blk o,
  snd (deliver_f bad nd blk) = FO o -> fst (deliver_f bad nd blk) = fst (deliver nd blk).
Proof.
  intros bad nd blk o. unfold deliver_f, deliver.
  destruct (find_block (nd_store nd) (k_id blk)); [reflexivity|].
  destruct (negb (verify_lib_rule _ blk)); [reflexivity|].
  destruct (find_block (nd_store nd) (k_prev blk)); [|reflexivity].
  destruct (negb (k_no b + 1 =? k_no blk)); [reflexivity|].
  destruct (k_prev blk =? k_id _).
  { destruct (bad (k_id blk)); cbn [snd fst]; [discriminate|reflexivity]. }
  destruct (k_no blk <=? k_no _); [reflexivity|].
  destruct (gather _ _ _ _ _) as [[root nb]|]; [|reflexivity].
  destruct (negb (need_reorganization _ _)); [reflexivity|].
  destruct (ok_prefix bad nb) as [okb failed] eqn:E. destruct failed; cbn [snd fst]; [discriminate|].
  intros _. rewrite (ok_prefix_none _ _ _ E). reflexivity.
Qed.

Lemma deliver_f_exec_failed : forall bad nd blk,
  snd (deliver_f bad nd blk) = FExecFailed -> fst (deliver_f bad nd blk) = exec_fail nd.
Proof.
  intros bad nd blk. unfold deliver_f.
  destruct (find_block (nd_store nd) (k_id blk)); [discriminate|].
  destruct (negb (verify_lib_rule _ blk)); [discriminate|].
  destruct (find_block (nd_store nd) (k_prev blk)); [|discriminate].
  destruct (negb (k_no b + 1 =? k_no blk)); [discriminate|].
  destruct (k_prev blk =? k_id _).
  { destruct (bad (k_id blk)); cbn [snd fst]; [reflexivity|discriminate]. }
  destruct (k_no blk <=? k_no _); [discriminate|].
  destruct (gather _ _ _ _ _) as [[root nb]|]; [|discriminate].
  destruct (negb (need_reorganization _ _)); [discriminate|].
  destruct (ok_prefix bad nb) as [okb failed]. destruct failed; cbn [snd]; discriminate.
Qed.

(** histories in which no reorganisation fails (invalid blocks only as children of the best block) *)
Fixpoint no_failed_reorg (bad : Z -> bool) (nd : node) (evs : list fevent) : Prop :=
  match evs with
  | [] => True
  | FDeliver b :: tl =>
      blk_ok b /\ snd (deliver_f bad nd b) <> FReorgFailed /\ no_failed_reorg bad (fst (deliver_f bad nd b)) tl
  | FRestart :: tl => no_failed_reorg bad (restart nd) tl
  end.

Lemma run_f_NI : forall bad evs nd, NI nd -> no_failed_reorg bad nd evs -> NI (run_f bad nd evs).
Proof.
  unfold run_f. induction evs as [|e tl]; simpl; intros nd N H; auto.
  destruct e as [b|]; simpl.
  - destruct H as [Hb [Hr Ht]]. apply IHtl; auto.
    destruct (snd (deliver_f bad nd b)) as [o| |] eqn:O.
    + rewrite (deliver_f_FO _ _ _ _ O). apply deliver_NI; auto.
    + rewrite (deliver_f_exec_failed _ _ _ O). apply exec_fail_NI; auto.
    + congruence.
  - apply IHtl; auto. apply restart_NI; auto.
Qed.

(** [lib_on_main_chain_partial_f]: with invalid blocks delivered, as long as no reorganisation
    fails in the middle, the LIB (and all proposals) stay on the main chain. *)
Theorem lib_on_main_chain_partial_f : forall bad size self evs,
  no_failed_reorg bad (init_node size self) evs ->
  lib_on_main (run_f bad (init_node size self) evs) = true.
Proof. intros. apply NI_lib_on_main, run_f_NI; auto. apply NI_init. Qed.

Example no_failed_reorg_example :
  no_failed_reorg (fun id => id =? 2) (init_node 1 0)
    [FDeliver (mkBlk 1 0 1 0 1); FDeliver (mkBlk 2 1 2 0 1); FRestart; FDeliver (mkBlk 3 1 2 0 1)] /\
  lib_no (run_f (fun id => id =? 2) (init_node 1 0)
    [FDeliver (mkBlk 1 0 1 0 1); FDeliver (mkBlk 2 1 2 0 1); FRestart; FDeliver (mkBlk 3 1 2 0 1)]) = 2.
Proof.
  split; [|vm_compute; reflexivity].
  simpl. unfold blk_ok. simpl. repeat split; try lia; try discriminate.
Qed.

(** Proofs about block execution failures (Dpos/LibFail.v). *)
From Coq Require Import ZArith List Bool Lia.
From Verif Require Import Dpos.Lib Dpos.LibProofs Dpos.LibOnMain Dpos.LibFail.
Import ListNotations.
Open Scope Z_scope.

(** * Conservative extension: without failing blocks it is [deliver] *)
Lemma ok_prefix_none : forall bad ref l p, ok_prefix bad ref l = (p, None) -> p = l.
Proof.
  induction l as [|b tl]; simpl; intros p H.
  - inversion H; auto.
  - destruct (ref (k_id b)); [discriminate|]. destruct (bad (k_id b)); [discriminate|].
    destruct (ok_prefix bad ref tl) as [p' f] eqn:E. inversion H; subst. f_equal. apply IHtl; auto.
Qed.

Lemma ok_prefix_false : forall l, ok_prefix (fun _ => false) (fun _ => false) l = (l, None).
Proof. induction l; simpl; auto. rewrite IHl. reflexivity. Qed.

Theorem deliver_f_no_bad : forall nd blk,
  deliver_f (fun _ => false) (fun _ => false) nd blk = (fst (deliver nd blk), FO (snd (deliver nd blk))).
Proof.
  intros. unfold deliver_f, deliver.
  destruct (find_block (nd_store nd) (k_id blk)); [reflexivity|].
  destruct (negb (verify_lib_rule _ blk)); [reflexivity|].
  destruct (find_block (nd_store nd) (k_prev blk)); [|reflexivity].
  destruct (negb (k_no b + 1 =? k_no blk)); [reflexivity|].
  destruct (k_prev blk =? k_id _); [reflexivity|].
  destruct (k_no blk <=? k_no _); [reflexivity|].
  destruct (gather _ _ _ _ _) as [[root nb]|]; [|reflexivity].
  destruct (negb (need_reorganization _ _)); [reflexivity|].
  rewrite ok_prefix_false. reflexivity.
Qed.

(** * What still holds with failures: the LIB height does not decrease at a delivery, blocks at
    or below the LIB are refused and main-chain blocks at or below it are not replaced *)
Lemma update_to_best_lib_mono : forall main nd st,
  b_no (ls_lib (st_ls st)) <= b_no (ls_lib (st_ls (update_to_best main nd st))).
Proof.
  intros. unfold update_to_best. destruct (rev main). lia. apply status_update_lib_mono.
Qed.

Theorem deliver_f_lib_mono : forall bad ref nd blk, lib_no nd <= lib_no (fst (deliver_f bad ref nd blk)).
Proof.
  intros. unfold lib_no, deliver_f.
  destruct (find_block (nd_store nd) (k_id blk)); cbn [fst]; [lia|].
  destruct (negb (verify_lib_rule _ blk)); cbn [fst]; [lia|].
  destruct (find_block (nd_store nd) (k_prev blk)); cbn [fst]; [|lia].
  destruct (negb (k_no b + 1 =? k_no blk)); cbn [fst]; [lia|].
  destruct (k_prev blk =? k_id _).
  { destruct (ref (k_id blk)); cbn [fst]; [lia|]. destruct (bad (k_id blk)); cbn [fst nd_st exec_fail].
    - apply update_to_best_lib_mono.
    - apply status_update_lib_mono. }
  destruct (k_no blk <=? k_no _); cbn [fst nd_st]; [lia|].
  destruct (gather _ _ _ _ _) as [[root nb]|]; cbn [fst]; [|lia].
  destruct (negb (need_reorganization _ _)); cbn [fst nd_st]; [lia|].
  destruct (ok_prefix bad ref nb) as [okb failed].
  set (g := main_get (firstn (Z.to_nat (k_no root) + 1) (nd_main nd))).
  set (st1 := status_update g [] (nd_size nd) (nd_st nd) root).
  set (st2 := fold_left (status_update g [] (nd_size nd)) okb st1).
  assert (M : b_no (ls_lib (st_ls (nd_st nd))) <= b_no (ls_lib (st_ls st2))).
  { eapply Z.le_trans. 2: apply fold_status_update_lib_mono. apply status_update_lib_mono. }
  destruct failed as [[fb [|]]|]; cbn [fst nd_st]; auto.
  - eapply Z.le_trans. exact M. apply update_to_best_lib_mono.
  - eapply Z.le_trans. exact M. eapply Z.le_trans; apply update_to_best_lib_mono.
Qed.

Theorem deliver_f_main_stable : forall bad ref nd blk h b,
  0 <= h <= lib_no nd -> main_at nd h = Some b -> main_at (fst (deliver_f bad ref nd blk)) h = Some b.
Proof.
  intros bad ref nd blk h b Hh M. unfold main_at, lib_no, deliver_f in *.
  destruct (find_block (nd_store nd) (k_id blk)); cbn [fst]; auto.
  destruct (negb (verify_lib_rule _ blk)); cbn [fst]; auto.
  destruct (find_block (nd_store nd) (k_prev blk)); cbn [fst]; auto.
  destruct (negb (k_no b0 + 1 =? k_no blk)); cbn [fst]; auto.
  destruct (k_prev blk =? k_id _).
  { destruct (ref (k_id blk)); cbn [fst]; auto. destruct (bad (k_id blk)); cbn [fst nd_main exec_fail]; auto. apply main_get_app; auto. }
  destruct (k_no blk <=? k_no _); cbn [fst nd_main]; auto.
  destruct (gather _ _ _ _ _) as [[root nb]|]; cbn [fst]; auto.
  destruct (negb (need_reorganization _ _)) eqn:Ev; cbn [fst nd_main]; auto.
  destruct (ok_prefix bad ref nb) as [okb failed]. destruct failed as [[fb [|]]|]; cbn [fst nd_main]; auto.
  apply main_get_firstn_app; auto.
  unfold need_reorganization in Ev. apply negb_false_iff, Z.leb_le in Ev. lia.
Qed.

(** * What does not: after a failed reorganisation the LIB is a block of the failed branch *)
(** 2 producers; main chain 1..4; a side branch 5,6,7,8,9 from the genesis block whose last block
    fails at execution: the rollforward of 5..8 moved the LIB to block 6 (height 2), the error
    path (Update(old best), twice since fix 05cfcb8b) keeps it; the main chain holds block 2 at that height; nothing is
    saved, so a restart brings the old LIB back. *)
Definition f25_events : list fevent :=
  map FDeliver [mkBlk 1 0 1 1 1; mkBlk 2 1 2 0 2; mkBlk 3 2 3 0 1; mkBlk 4 3 4 0 1;
                mkBlk 5 0 1 0 1; mkBlk 6 5 2 0 1; mkBlk 7 6 3 1 2; mkBlk 8 7 4 0 2; mkBlk 9 8 5 0 1].
Definition f25_bad (id : Z) : bool := id =? 9.
Definition f25_ref (id : Z) : bool := false.
Local Notation f25_node := (run_f f25_bad f25_ref (init_node 2 0) f25_events).

Example f25_values :
  ls_lib (st_ls (nd_st f25_node)) = mkB 6 2 1 /\ main_ids f25_node = [0; 1; 2; 3; 4].
Proof. vm_compute. split; reflexivity. Qed.
Example f25_off_main : lib_on_main f25_node = false.
Proof. vm_compute. reflexivity. Qed.
Example f25_restart_decreases : lib_no (step_f f25_bad f25_ref f25_node FRestart) < lib_no f25_node.
Proof. vm_compute. reflexivity. Qed.

Theorem lib_on_main_chain_failed_reorg_refuted :
  exists bad ref size self evs, lib_on_main (run_f bad ref (init_node size self) evs) = false.
Proof. exists f25_bad. exists f25_ref. exists 2. exists 0. exists f25_events. exact f25_off_main. Qed.

Theorem lib_monotone_failed_reorg_refuted :
  exists bad ref size self evs,
    lib_no (step_f bad ref (run_f bad ref (init_node size self) evs) FRestart) <
    lib_no (run_f bad ref (init_node size self) evs).
Proof. exists f25_bad. exists f25_ref. exists 2. exists 0. exists f25_events. exact f25_restart_decreases. Qed.


(** * An invalid child of the best block leaves every invariant intact *)
Lemma rev_last_WF : forall s C p, WF s C p -> exists tl, rev C = p :: tl.
Proof.
  intros s C p W. pose proof (wf_last _ _ _ W) as L. pose proof (wf_len _ _ _ W) as N.
  destruct (main_get_some_lt _ _ _ L) as [K0 _].
  destruct C as [|c0 C0]. { simpl in N. lia. }
  destruct (exists_last (l := c0 :: C0)) as [l' [a E]]. discriminate.
  rewrite E in *. rewrite rev_app_distr. simpl. exists (rev l').
  unfold main_get in L. destruct (k_no p <? 0) eqn:Q. { apply Z.ltb_lt in Q. lia. }
  rewrite app_length in N. simpl in N.
  assert (Z.to_nat (k_no p) = length l') by lia.
  rewrite H in L. rewrite nth_error_app2 in L by lia. rewrite Nat.sub_diag in L. simpl in L.
  inversion L; subst. reflexivity.
Qed.

Lemma best_not_own_parent : forall nd, NI nd ->
  (k_id (st_best (nd_st nd)) =? k_prev (st_best (nd_st nd))) = false.
Proof.
  intros nd N. pose proof (NI_WF _ N) as W. unfold WFn in W.
  set (best := st_best (nd_st nd)) in *.
  pose proof (wf_last _ _ _ W) as L.
  destruct (wf_height _ _ _ W _ _ L) as [_ Ib].
  apply Z.eqb_neq. intro Q.
  destruct (Z.eq_dec (k_no best) 0) as [Z0|Z0].
  - rewrite Z0 in L. rewrite (wf_gen _ _ _ W) in L. inversion L as [G]. rewrite <- G in Q. simpl in Q.
    pose proof (ni_ids _ N _ Ib). fold best in H. rewrite <- G in H. simpl in H. lia.
  - destruct (main_get_some_lt _ _ _ L) as [K0 _].
    destruct (wf_link _ _ _ W (k_no best) best ltac:(lia) L) as [q [Gq Eq]].
    destruct (wf_height _ _ _ W _ _ Gq) as [Hq Iq].
    assert (q = best) by (eapply uniq_inj; [apply (ni_uniq _ N) | auto | auto | congruence]).
    subst q. lia.
Qed.

Lemma exec_fail_NI : forall nd, NI nd -> NI (exec_fail nd).
Proof.
  intros nd N. pose proof (NI_WF _ N) as W. unfold WFn in W.
  destruct (rev_last_WF _ _ _ W) as [tl R].
  unfold exec_fail, update_to_best. rewrite R.
  set (best := st_best (nd_st nd)) in *.
  assert (Lib : b_no (ls_lib (st_ls (nd_st nd))) <= k_no best).
  { destruct (ni_si _ N) as [_ [_ [E|[m [G _]]]]].
    - rewrite E. simpl. destruct (main_get_some_lt _ _ _ (wf_last _ _ _ W)). lia.
    - destruct (main_get_some_lt _ _ _ G). pose proof (wf_len _ _ _ W). lia. }
  apply NI_of; cbn [nd_main nd_st nd_store nd_saved].
  - unfold WFn. cbn [nd_main nd_st nd_store]. exact W.
  - apply (ni_uniq _ N).
  - apply (ni_ids _ N).
  - eapply status_update_rollback_SI with (P := onm (nd_main nd)).
    + apply (ni_si _ N).
    + apply gen_onm. apply (wf_gen _ _ _ W).
    + auto.
    + intros i b Gb. apply onm_info_of. destruct (wf_height _ _ _ W _ _ Gb) as [Hb _]. rewrite Hb. exact Gb.
    + exact Lib.
    + apply best_not_own_parent; auto.
  - pose proof (ni_saved _ N) as V. pose proof (best_not_own_parent nd N) as Ep. fold best in Ep.
    destruct (nd_saved nd) as [[[p l] lpb]|].
    + destruct V as [V1 V2]. split; auto. unfold status_update. fold best.
      rewrite Ep. cbn [st_ls]. simpl. rewrite rollback_lib. exact V1.
    + unfold status_update. fold best. rewrite Ep. cbn [st_ls]. simpl. rewrite rollback_lib. exact V.
Qed.

Lemma deliver_f_FO : forall bad ref nd blk o,
  snd (deliver_f bad ref nd blk) = FO o -> fst (deliver_f bad ref nd blk) = fst (deliver nd blk).
Proof.
  intros bad ref nd blk o. unfold deliver_f, deliver.
  destruct (find_block (nd_store nd) (k_id blk)); [reflexivity|].
  destruct (negb (verify_lib_rule _ blk)); [reflexivity|].
  destruct (find_block (nd_store nd) (k_prev blk)); [|reflexivity].
  destruct (negb (k_no b + 1 =? k_no blk)); [reflexivity|].
  destruct (k_prev blk =? k_id _).
  { destruct (ref (k_id blk)); cbn [snd fst]; [discriminate|]. destruct (bad (k_id blk)); cbn [snd fst]; [discriminate|reflexivity]. }
  destruct (k_no blk <=? k_no _); [reflexivity|].
  destruct (gather _ _ _ _ _) as [[root nb]|]; [|reflexivity].
  destruct (negb (need_reorganization _ _)); [reflexivity|].
  destruct (ok_prefix bad ref nb) as [okb failed] eqn:E. destruct failed as [[fb [|]]|]; cbn [snd fst]; try discriminate.
  intros _. rewrite (ok_prefix_none _ _ _ _ E). reflexivity.
Qed.

Lemma deliver_f_exec_failed : forall bad ref nd blk,
  snd (deliver_f bad ref nd blk) = FExecFailed -> fst (deliver_f bad ref nd blk) = exec_fail nd.
Proof.
  intros bad ref nd blk. unfold deliver_f.
  destruct (find_block (nd_store nd) (k_id blk)); [discriminate|].
  destruct (negb (verify_lib_rule _ blk)); [discriminate|].
  destruct (find_block (nd_store nd) (k_prev blk)); [|discriminate].
  destruct (negb (k_no b + 1 =? k_no blk)); [discriminate|].
  destruct (k_prev blk =? k_id _).
  { destruct (ref (k_id blk)); cbn [snd fst]; [discriminate|]. destruct (bad (k_id blk)); cbn [snd fst]; [reflexivity|discriminate]. }
  destruct (k_no blk <=? k_no _); [discriminate|].
  destruct (gather _ _ _ _ _) as [[root nb]|]; [|discriminate].
  destruct (negb (need_reorganization _ _)); [discriminate|].
  destruct (ok_prefix bad ref nb) as [okb failed]. destruct failed as [[fb [|]]|]; cbn [snd]; discriminate.
Qed.

Lemma deliver_f_refused : forall bad ref nd blk,
  snd (deliver_f bad ref nd blk) = FRefused -> fst (deliver_f bad ref nd blk) = nd.
Proof.
  intros bad ref nd blk. unfold deliver_f.
  destruct (find_block (nd_store nd) (k_id blk)); [discriminate|].
  destruct (negb (verify_lib_rule _ blk)); [discriminate|].
  destruct (find_block (nd_store nd) (k_prev blk)); [|discriminate].
  destruct (negb (k_no b + 1 =? k_no blk)); [discriminate|].
  destruct (k_prev blk =? k_id _).
  { destruct (ref (k_id blk)); cbn [snd fst]; [reflexivity|]. destruct (bad (k_id blk)); cbn [snd]; discriminate. }
  destruct (k_no blk <=? k_no _); [discriminate|].
  destruct (gather _ _ _ _ _) as [[root nb]|]; [|discriminate].
  destruct (negb (need_reorganization _ _)); [discriminate|].
  destruct (ok_prefix bad ref nb) as [okb failed]. destruct failed as [[fb [|]]|]; cbn [snd]; discriminate.
Qed.

(** histories in which no reorganisation fails in the middle (invalid or refused blocks only as
    children of the best block) *)
Fixpoint no_failed_reorg (bad ref : Z -> bool) (nd : node) (evs : list fevent) : Prop :=
  match evs with
  | [] => True
  | FDeliver b :: tl =>
      blk_ok b /\ snd (deliver_f bad ref nd b) <> FReorgFailed /\ snd (deliver_f bad ref nd b) <> FReorgRefused /\
      no_failed_reorg bad ref (fst (deliver_f bad ref nd b)) tl
  | FRestart :: tl => no_failed_reorg bad ref (restart nd) tl
  end.

Lemma run_f_NI : forall bad ref evs nd, NI nd -> no_failed_reorg bad ref nd evs -> NI (run_f bad ref nd evs).
Proof.
  unfold run_f. induction evs as [|e tl]; simpl; intros nd N H; auto.
  destruct e as [b|]; simpl.
  - destruct H as [Hb [Hr [Hr2 Ht]]]. apply IHtl; auto.
    destruct (snd (deliver_f bad ref nd b)) as [o| | | |] eqn:O.
    + rewrite (deliver_f_FO _ _ _ _ _ O). apply deliver_NI; auto.
    + rewrite (deliver_f_exec_failed _ _ _ _ O). apply exec_fail_NI; auto.
    + congruence.
    + rewrite (deliver_f_refused _ _ _ _ O). exact N.
    + congruence.
  - apply IHtl; auto. apply restart_NI; auto.
Qed.

(** [lib_on_main_chain_partial_f]: with invalid or refused blocks delivered, as long as no
    reorganisation fails in the middle, the LIB (and all proposals) stay on the main chain. *)
Theorem lib_on_main_chain_partial_f : forall bad ref size self evs,
  no_failed_reorg bad ref (init_node size self) evs ->
  lib_on_main (run_f bad ref (init_node size self) evs) = true.
Proof. intros. apply NI_lib_on_main, run_f_NI; auto. apply NI_init. Qed.

Example no_failed_reorg_example :
  no_failed_reorg (fun id => id =? 2) (fun id => id =? 4) (init_node 1 0)
    [FDeliver (mkBlk 1 0 1 0 1); FDeliver (mkBlk 2 1 2 0 1); FRestart; FDeliver (mkBlk 4 1 2 0 1); FDeliver (mkBlk 3 1 2 0 1)] /\
  lib_no (run_f (fun id => id =? 2) (fun id => id =? 4) (init_node 1 0)
    [FDeliver (mkBlk 1 0 1 0 1); FDeliver (mkBlk 2 1 2 0 1); FRestart; FDeliver (mkBlk 4 1 2 0 1); FDeliver (mkBlk 3 1 2 0 1)]) = 2.
Proof.
  split; [|vm_compute; reflexivity].
  simpl. unfold blk_ok. simpl. repeat split; try lia; try discriminate.
Qed.

(** After a reorganisation abandoned at ANY block (execution failure or IsBlockValid refusal) the
    confirms list is the one rebuilt from the main chain: the last call is Update(old best) on the
    rollback path, whatever the height of the failing block relative to the old best block. *)
Lemma update_to_best_confirms_on_main : forall nd st,
  NI nd -> k_id (st_best st) <> k_prev (st_best (nd_st nd)) ->
  Forall (fun c => onm (nd_main nd) (c_bi c)) (ls_confirms (st_ls (update_to_best (nd_main nd) nd st))).
Proof.
  intros nd st N Hne. pose proof (NI_WF _ N) as W. unfold WFn in W.
  destruct (rev_last_WF _ _ _ W) as [tl R]. unfold update_to_best. rewrite R.
  set (best := st_best (nd_st nd)) in *.
  unfold status_update. replace (k_id (st_best st) =? k_prev best) with false by (symmetry; apply Z.eqb_neq; auto).
  cbn [st_ls]. unfold set_cr, gc, set_prpsd, set_confirms. cbn [ls_confirms].
  unfold trim_front. apply skipn_forall. apply drop_le_lib_forall.
  unfold rollback_status_to, load. cbv zeta. cbn [ls_cr ls_self set_prpsd set_confirms ls_confirms].
  destruct (k_no best =? 0); [constructor|].
  match goal with |- context [load_plib_status ?g ?b ?e ?c ?s] => destruct (load_plib_status g b e c s) as [tmp|] eqn:L end; [|constructor].
  assert (T : SI (onm (nd_main nd)) tmp).
  { unfold load_plib_status in L.
    destruct (_ =? k_no best); try discriminate. destruct (_ >? k_no best); try discriminate.
    eapply replay_SI. 4: exact L.
    - intros i b Gb. apply onm_info_of. destruct (wf_height _ _ _ W _ _ Gb) as [Hb _]. rewrite Hb. exact Gb.
    - apply gen_onm. apply (wf_gen _ _ _ W).
    - unfold SI, new_lib_status_cr; simpl; auto. }
  destruct T as [Tc _]. unfold set_prpsd, set_confirms. cbn [ls_confirms].
  destruct (ls_confirms tmp) eqn:C; cbn [ls_confirms]; [constructor|]. exact Tc.
Qed.

Lemma update_to_best_best : forall nd st, NI nd ->
  st_best (update_to_best (nd_main nd) nd st) = st_best (nd_st nd).
Proof.
  intros nd st N. pose proof (NI_WF _ N) as W. unfold WFn in W.
  destruct (rev_last_WF _ _ _ W) as [tl R]. unfold update_to_best. rewrite R. reflexivity.
Qed.

(** [reorg_failed_confirms_on_main]: a reorganisation abandoned on an execution failure ends with
    executeBlock's Update(old best) followed by reorg's own Update(old best); the second one always
    takes the rollback path (the status' best block is the old best block, which is not its own
    parent), so the confirms list is rebuilt from the main chain wherever the failing block was. *)
Theorem reorg_failed_confirms_on_main : forall bad ref nd blk,
  NI nd -> snd (deliver_f bad ref nd blk) = FReorgFailed ->
  Forall (fun c => onm (nd_main nd) (c_bi c))
         (ls_confirms (st_ls (nd_st (fst (deliver_f bad ref nd blk))))).
Proof.
  intros bad ref nd blk N. unfold deliver_f.
  destruct (find_block (nd_store nd) (k_id blk)); [discriminate|].
  destruct (negb (verify_lib_rule _ blk)); [discriminate|].
  destruct (find_block (nd_store nd) (k_prev blk)); [|discriminate].
  destruct (negb (k_no b + 1 =? k_no blk)); [discriminate|].
  destruct (k_prev blk =? k_id _).
  { destruct (ref (k_id blk)); cbn [snd fst]; [discriminate|]. destruct (bad (k_id blk)); cbn [snd]; discriminate. }
  destruct (k_no blk <=? k_no _); [discriminate|].
  destruct (gather _ _ _ _ _) as [[root nb]|]; [|discriminate].
  destruct (negb (need_reorganization _ _)); [discriminate|].
  destruct (ok_prefix bad ref nb) as [okb failed]. destruct failed as [[fb [|]]|]; cbn [snd fst nd_st]; try discriminate.
  intros _. apply update_to_best_confirms_on_main; auto.
  rewrite update_to_best_best by auto. apply Z.eqb_neq. apply best_not_own_parent; auto.
Qed.

(** [reorg_refused_confirms_on_main]: when the branch block is refused by IsBlockValid only reorg's
    Update(old best) runs, from the status of the last executed branch block (or the branch root).
    It takes the rollback path because Update compares HASHES: the status' best block is the
    parent of the old best block only when the branch root is, and then Update legitimately
    re-extends the root with the old best block.  A height comparison would take the extend path
    whenever the refused block is at the old best block's height. *)
Theorem reorg_refused_confirms_on_main : forall bad ref nd blk,
  NI nd -> snd (deliver_f bad ref nd blk) = FReorgRefused ->
  forall root nb, gather (length (blk :: nd_store nd)) (nd_main nd) (blk :: nd_store nd) blk [] = Some (root, nb) ->
  k_id (last (fst (ok_prefix bad ref nb)) root) <> k_prev (st_best (nd_st nd)) ->
  Forall (fun c => onm (nd_main nd) (c_bi c))
         (ls_confirms (st_ls (nd_st (fst (deliver_f bad ref nd blk))))).
Proof.
  intros bad ref nd blk N. unfold deliver_f.
  destruct (find_block (nd_store nd) (k_id blk)); [discriminate|].
  destruct (negb (verify_lib_rule _ blk)); [discriminate|].
  destruct (find_block (nd_store nd) (k_prev blk)); [|discriminate].
  destruct (negb (k_no b + 1 =? k_no blk)); [discriminate|].
  destruct (k_prev blk =? k_id _).
  { destruct (ref (k_id blk)); cbn [snd fst]; [discriminate|]. destruct (bad (k_id blk)); cbn [snd]; discriminate. }
  destruct (k_no blk <=? k_no _); [discriminate|].
  destruct (gather _ _ _ _ _) as [[root nb]|]; [|discriminate].
  destruct (negb (need_reorganization _ _)); [discriminate|].
  destruct (ok_prefix bad ref nb) as [okb failed] eqn:OP. destruct failed as [[fb [|]]|]; cbn [snd fst nd_st]; try discriminate.
  intros _ root' nb' E Hne. inversion E; subst root' nb'. rewrite OP in Hne. cbn [fst] in Hne.
  apply update_to_best_confirms_on_main; auto.
  replace (st_best (fold_left _ okb _)) with (last okb root); [exact Hne|]. clear Hne.
  assert (Lc : forall (l : list block) x d, last (x :: l) d = last l x).
  { induction l as [|y l IH]; intros x d; [reflexivity|]. change (last (x :: y :: l) d) with (last (y :: l) d).
    rewrite (IH y d), (IH y x). reflexivity. }
  assert (G : forall l s,
     last l (st_best s) = st_best (fold_left (status_update (main_get (firstn (Z.to_nat (k_no root) + 1) (nd_main nd))) [] (nd_size nd)) l s)).
  { induction l as [|x l IH]; intros s; [reflexivity|]. rewrite Lc. cbn [fold_left]. rewrite <- IH. reflexivity. }
  rewrite <- G. reflexivity.
Qed.

(** The extend-vs-rollback test of Status.Update is the HASH linkage [k_id best = k_prev blk].
    [status_update_by_height] is the same function with the test replaced by the height
    comparison [k_no best + 1 = k_no blk]; the two agree on every call the chain service makes
    except reorg's Update(old best) after a refusal at the old best block's height. *)
Definition status_update_by_height (g : Z -> option block) (bps : list Z) (size : Z) (s : status) (blk : block) : status :=
  let ls :=
    if k_no (st_best s) + 1 =? k_no blk then
      let ls1 := add_confirm_info (st_ls s) blk in
      match update ls1 with
      | (ls2, Some l) => update_lib ls2 l
      | (ls2, None) => ls2
      end
    else rollback_status_to g (st_ls s) (k_no blk) in
  mkSt (set_cr (gc ls bps) (confirms_required size)) blk.

Local Notation r4_a1 := (mkBlk 1 0 1 0 1).
Local Notation r4_a2 := (mkBlk 2 1 2 1 2).
Local Notation r4_a3 := (mkBlk 3 2 3 2 3).
Local Notation r4_b1 := (mkBlk 11 0 1 3 1).
Local Notation r4_b2 := (mkBlk 12 11 2 3 1).
Local Notation r4_b3 := (mkBlk 13 12 3 3 1).
Local Notation r4_b4 := (mkBlk 14 13 4 3 1).
Local Notation r4_pre :=
  (run_f (fun _ => false) (fun id => id =? 13) (init_node 4 0)
     [FDeliver r4_a1; FDeliver r4_a2; FDeliver r4_a3; FDeliver r4_b1; FDeliver r4_b2; FDeliver r4_b3]).
Local Notation r4_st2 :=
  (fold_left (status_update (main_get [genesis_block]) [] 4) [r4_b1; r4_b2]
     (status_update (main_get [genesis_block]) [] 4 (nd_st r4_pre) genesis_block)).

Definition confirm_ids (s : status) : list Z := map (fun c => b_id (c_bi c)) (ls_confirms (st_ls s)).

(** main chain g-a1-a2-a3, branch g-b1-b2-b3-b4 with b3 refused by IsBlockValid (b3 is at the
    height of the old best block a3): the model's Update(a3) rebuilds the confirms list from the
    main chain; the height test would append a3 to the branch's list [b1; b2]. *)
Example refused_at_best_height :
  snd (deliver_f (fun _ => false) (fun id => id =? 13) r4_pre r4_b4) = FReorgRefused /\
  nd_st (fst (deliver_f (fun _ => false) (fun id => id =? 13) r4_pre r4_b4)) =
    status_update (main_get (nd_main r4_pre)) [] 4 r4_st2 r4_a3 /\
  confirm_ids (status_update (main_get (nd_main r4_pre)) [] 4 r4_st2 r4_a3) = [1; 2; 3] /\
  confirm_ids (status_update_by_height (main_get (nd_main r4_pre)) [] 4 r4_st2 r4_a3) = [11; 12; 3].
Proof. vm_compute. repeat split; reflexivity. Qed.

(** LpbNo bookkeeping (libStatus.LpbNo, the value blockfactory.go loads as lpbNo at start-up):
    in every reachable node it is at least the height of every own block on the main chain, so a
    correct producer's confirmation windows (lpbNo, no] on its main chain stay disjoint across
    reorganisations and restarts. *)
From Coq Require Import ZArith List Bool Lia.
From Verif Require Import Dpos.Lib Dpos.LibProofs Dpos.LibOnMain Dpos.LibQuorum Dpos.LibQuorumHist.
Import ListNotations.
Open Scope Z_scope.

Definition LP (self : Z) (C : list block) (ls : lib_status) : Prop :=
  ls_self ls = self /\ forall b, In b C -> k_bp b = self -> k_no b <= ls_lpb ls.

Lemma add_confirm_info_lpb : forall ls b,
  ls_self (add_confirm_info ls b) = ls_self ls /\
  ls_lpb (add_confirm_info ls b) =
    if k_no b =? 0 then ls_lpb ls else if k_bp b =? ls_self ls then k_no b else ls_lpb ls.
Proof.
  intros. unfold add_confirm_info. destruct (k_no b =? 0); auto. cbv zeta.
  destruct (pmem _ _); simpl; destruct (k_bp b =? ls_self ls); simpl; auto.
Qed.

Lemma update_lpb : forall ls, ls_lpb (fst (update ls)) = ls_lpb ls /\ ls_self (fst (update ls)) = ls_self ls.
Proof.
  intros. unfold update, get_pre_lib.
  destruct (rev (ls_confirms ls)) as [|last tl]; [simpl; auto|].
  destruct (scan (win_min last) (win_max last) (last :: tl)) as [rl' r]. destruct r; simpl; auto.
Qed.

Lemma load_lpb : forall g ls e, ls_lpb (load g ls e) = ls_lpb ls /\ ls_self (load g ls e) = ls_self ls.
Proof.
  intros. unfold load. cbv zeta. destruct (e =? 0); simpl; auto.
  destruct (load_plib_status _ _ _ _ _); simpl; auto. destruct (ls_confirms l); simpl; auto.
Qed.

Lemma status_update_lpb : forall g bps size s blk,
  ls_self (st_ls (status_update g bps size s blk)) = ls_self (st_ls s) /\
  ls_lpb (st_ls (status_update g bps size s blk)) =
    if k_id (st_best s) =? k_prev blk
    then (if k_no blk =? 0 then ls_lpb (st_ls s) else if k_bp blk =? ls_self (st_ls s) then k_no blk else ls_lpb (st_ls s))
    else ls_lpb (st_ls s).
Proof.
  intros. unfold status_update. cbn [st_ls]. unfold set_cr, gc, set_prpsd, set_confirms. cbn [ls_self ls_lpb].
  destruct (k_id (st_best s) =? k_prev blk).
  - destruct (add_confirm_info_lpb (st_ls s) blk) as [A B].
    destruct (update_lpb (add_confirm_info (st_ls s) blk)) as [C D].
    destruct (update (add_confirm_info (st_ls s) blk)) as [ls2 [l|]]; simpl in *.
    + unfold update_lib. destruct (_ <? _); simpl; rewrite ?C, ?D; auto.
    + rewrite C, D. auto.
  - unfold rollback_status_to. destruct (load_lpb g (set_prpsd (st_ls s) (reset_stale (k_no blk) (ls_prpsd (st_ls s)))) (k_no blk)) as [A B].
    rewrite A, B. simpl. auto.
Qed.

(** extending the chain by a block above every block already on it *)
Lemma LP_extend : forall self C ls g bps size s x,
  st_ls s = ls -> LP self C ls -> (forall b, In b C -> k_no b < k_no x) -> 0 < k_no x ->
  (k_id (st_best s) =? k_prev x) = true ->
  LP self (C ++ [x]) (st_ls (status_update g bps size s x)).
Proof.
  intros self C ls g bps size s x E [Hs Hl] Hh Hx P. subst ls.
  destruct (status_update_lpb g bps size s x) as [A B]. rewrite P in B.
  replace (k_no x =? 0) with false in B by (symmetry; apply Z.eqb_neq; lia).
  split. congruence.
  intros b I Hb. rewrite B. apply in_app_or in I. destruct I as [I|[I|[]]].
  - rewrite Hs. destruct (k_bp x =? self). pose proof (Hh b I). lia. apply Hl; auto.
  - subst b. rewrite Hs, Hb, Z.eqb_refl. lia.
Qed.

Lemma WF_In_le : forall s C p b, WF s C p -> In b C -> 0 <= k_no b <= k_no p.
Proof.
  intros s C p b W I. apply In_nth_error in I. destruct I as [i Hi].
  assert (G : main_get C (Z.of_nat i) = Some b).
  { unfold main_get. destruct (Z.of_nat i <? 0) eqn:E. apply Z.ltb_lt in E; lia. rewrite Nat2Z.id. exact Hi. }
  destruct (wf_height _ _ _ W _ _ G) as [H _]. destruct (main_get_some_lt _ _ _ G).
  pose proof (wf_len _ _ _ W). lia.
Qed.

Lemma WF_best_nonneg_local : forall s C p, WF s C p -> 0 <= k_no p.
Proof. intros s C p W. destruct (main_get_some_lt _ _ _ (wf_last _ _ _ W)). auto. Qed.

Lemma LP_fold : forall self g size store nb C s,
  chain_from store (st_best s) nb -> WF store C (st_best s) ->
  LP self C (st_ls s) ->
  LP self (C ++ nb) (st_ls (fold_left (status_update g [] size) nb s)).
Proof.
  induction nb as [|x tl]; intros C s Hc W L; simpl.
  - rewrite app_nil_r. exact L.
  - destruct Hc as [H1 [H2 [H3 H4]]].
    assert (E : C ++ x :: tl = (C ++ [x]) ++ tl) by (rewrite <- app_assoc; reflexivity). rewrite E.
    apply IHtl.
    + exact H4.
    + eapply WF_snoc; eauto.
    + eapply LP_extend; eauto.
      * intros b I. destruct (WF_In_le _ _ _ _ W I). lia.
      * pose proof (WF_best_nonneg_local _ _ _ W). lia.
      * apply Z.eqb_eq. congruence.
Qed.

Definition LPN (nd : node) : Prop :=
  LP (nd_self nd) (nd_main nd) (st_ls (nd_st nd)) /\
  match nd_saved nd with
  | Some (_, _, lpb) => lpb = ls_lpb (st_ls (nd_st nd))
  | None => nd_main nd = [genesis_block] /\ ls_lpb (st_ls (nd_st nd)) = 0
  end.

Lemma LPN_init : forall size self, LPN (init_node size self).
Proof.
  intros. split; [split|]; simpl; auto.
  intros b [E|[]] _. subst. simpl. lia.
Qed.

Lemma In_firstn : forall (A : Type) n (l : list A) x, In x (firstn n l) -> In x l.
Proof. induction n; destruct l; simpl; intros; auto. contradiction. destruct H; auto. Qed.

Lemma deliver_LPN : forall nd blk, NI nd -> LPN nd -> blk_ok2 blk -> LPN (fst (deliver nd blk)).
Proof.
  intros nd blk N [L S] [Hid Hno].
  pose proof (NI_WF _ N) as W. unfold WFn in W.
  unfold deliver.
  destruct (find_block (nd_store nd) (k_id blk)) eqn:Fid; [split; auto|].
  destruct (negb (verify_lib_rule (st_ls (nd_st nd)) blk)); [split; auto|].
  destruct (find_block (nd_store nd) (k_prev blk)) as [parent|] eqn:Fp; [|split; auto].
  destruct (negb (k_no parent + 1 =? k_no blk)) eqn:En; [split; auto|].
  apply negb_false_iff, Z.eqb_eq in En.
  destruct (find_block_some _ _ _ Fp) as [Ipar Epar].
  set (best := st_best (nd_st nd)) in *.
  assert (Ibest : In best (nd_store nd)) by (apply (ni_height _ N _ _ (ni_best _ N))).
  destruct (k_prev blk =? k_id best) eqn:Eb.
  - apply Z.eqb_eq in Eb. cbn [fst].
    assert (parent = best) by (eapply uniq_inj; [apply (ni_uniq _ N)|auto|auto|congruence]). subst parent.
    split; cbn [nd_self nd_main nd_st nd_saved].
    + eapply LP_extend; eauto.
      * intros b I. destruct (WF_In_le _ _ _ _ W I). fold best in H0. lia.
      * apply Z.eqb_eq. fold best. congruence.
    + reflexivity.
  - destruct (k_no blk <=? k_no best); [split; auto|].
    destruct (gather (length (blk :: nd_store nd)) (nd_main nd) (blk :: nd_store nd) blk [])
      as [[root nb]|] eqn:G; [|split; auto].
    destruct (negb (need_reorganization (st_ls (nd_st nd)) (k_no root))); [split; auto|].
    cbn [fst].
    destruct (reorg_facts nd blk root nb N Hid Fid G) as [Wr [Cn [Epath R0]]].
    split; cbn [nd_self nd_main nd_st nd_saved]; [|reflexivity].
    set (main_r := firstn (Z.to_nat (k_no root) + 1) (nd_main nd)) in *.
    set (st1 := status_update (main_get main_r) [] (nd_size nd) (nd_st nd) root).
    assert (L1 : LP (nd_self nd) main_r (st_ls st1)).
    { destruct L as [Ls Ll]. destruct (status_update_lpb (main_get main_r) [] (nd_size nd) (nd_st nd) root) as [A B].
      fold st1 in A, B. fold best in Epath. fold best in B. rewrite Epath in B.
      split. congruence. intros b I Hb. rewrite B. apply Ll; auto. eapply In_firstn; eauto. }
    apply LP_fold with (store := blk :: nd_store nd); auto.
Qed.

Lemma restart_LPN : forall nd, LPN nd -> LPN (restart nd).
Proof.
  intros nd [[Ls Ll] S]. unfold restart, restore, LPN, LP. cbn [nd_self nd_main nd_st nd_saved].
  destruct (nd_saved nd) as [[[p l] lpb]|]; cbn [st_ls].
  - destruct (load_lpb (main_get (nd_main nd)) (mkLS p l lpb [] (confirms_required (nd_size nd)) (nd_self nd)) (k_no (st_best (nd_st nd)))) as [A B].
    rewrite A, B. simpl. repeat split; auto. intros b I Hb. rewrite S. apply Ll; auto.
  - destruct S as [Sm Sl]. simpl. repeat split; auto. intros b I Hb. rewrite Sm in I. destruct I as [I|[]]. subst. simpl. lia.
Qed.

Lemma run_LPN : forall evs nd, NI nd -> LPN nd -> Forall ev_ok2 evs -> LPN (run nd evs).
Proof.
  unfold run. induction evs; simpl; intros nd N L F; auto. inversion F; subst.
  apply IHevs; auto.
  - apply step_NI; auto. apply ev_ok2_ok; auto.
  - destruct a; simpl. apply deliver_LPN; auto. apply restart_LPN; auto.
Qed.

(** [lpb_covers_own_blocks]: in every reachable node LpbNo (what the block factory uses as lpbNo
    after a start-up) is at least the height of every block of the node's own producer on its main
    chain. *)
Theorem lpb_covers_own_blocks : forall size self evs b,
  Forall ev_ok2 evs ->
  let nd := run (init_node size self) evs in
  In b (nd_main nd) -> k_bp b = self -> k_no b <= ls_lpb (st_ls (nd_st nd)).
Proof.
  intros size self evs b F nd I Hb.
  destruct (run_LPN evs (init_node size self) (NI_init size self) (LPN_init size self) F) as [[Ls Ll] _].
  fold nd in Ls, Ll. apply Ll; auto. 
  assert (nd_self nd = self).
  { unfold nd, run. assert (H : forall n0, nd_self (fold_left step evs n0) = nd_self n0).
    { clear. induction evs; simpl; intros; auto. rewrite IHevs. destruct a; simpl.
      - unfold deliver. repeat match goal with |- context [match ?x with _ => _ end] => destruct x end; reflexivity.
      - reflexivity. }
    rewrite H. reflexivity. }
  congruence.
Qed.

(** Hence the next block the producer signs on top of its main chain with Confirms = no - LpbNo
    has a window disjoint from the window of every own block b already on that chain. *)
Corollary own_windows_disjoint_after_restart : forall size self evs b no h,
  Forall ev_ok2 evs ->
  let nd := run (init_node size self) evs in
  In b (nd_main nd) -> k_bp b = self ->
  k_no b < no -> ls_lpb (st_ls (nd_st nd)) < no ->
  window no (honest_confirms no (ls_lpb (st_ls (nd_st nd)))) h -> h <= k_no b -> False.
Proof.
  intros size self evs b no h F nd I Hb Hn Hl Hw Hh.
  pose proof (lpb_covers_own_blocks size self evs b F I Hb) as C. fold nd in C.
  unfold window, honest_confirms in Hw. lia.
Qed.

(** blockfactory.go: Confirms = block.BlockNo() - lpbNo in uint64.  If lpbNo were above the block
    number (possible only after the chain was reset below the node's own last block), the
    subtraction wraps, and so does the window's lower bound in getPreLIB: the window is
    (lpbNo, no], empty -- the block confirms nothing, not even itself. *)
Lemma underflow_window_empty : forall no lpb bp left_ c,
  0 <= no < lpb -> lpb < 9223372036854775808 ->
  let last := mkC (mkB 0 no (u64 (no - lpb))) bp left_ in
  in_window (win_min last) (win_max last) c = false.
Proof.
  intros no lpb bp left_ c H1 H2 last. unfold in_window, win_min, win_max, last, u64. simpl.
  assert (E1 : (no - lpb) mod 18446744073709551616 = no - lpb + 18446744073709551616).
  { symmetry. apply (Z.mod_unique (no - lpb) 18446744073709551616 (-1)); lia. }
  rewrite E1.
  assert (E2 : (no - (no - lpb + 18446744073709551616) + 1) mod 18446744073709551616 = lpb + 1).
  { symmetry. apply (Z.mod_unique _ 18446744073709551616 (-1)); lia. }
  rewrite E2.
  destruct (lpb + 1 <=? b_no (c_bi c)) eqn:A; destruct (b_no (c_bi c) <=? no) eqn:B; auto.
  apply Z.leb_le in A. apply Z.leb_le in B. lia.
Qed.

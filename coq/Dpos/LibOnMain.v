(** LIB on the main chain: invariant proofs over Dpos/Lib.v.
    [SI P ls]: every element of the confirms list, every proposal and the LIB satisfy P
    ("is on chain C"); [NI nd]: the node's main chain is well formed, block identifiers in
    the store are unique and non-negative, the status satisfies SI w.r.t. the main chain and
    the saved status carries the current LIB and on-chain proposals. *)
From Coq Require Import ZArith List Bool Lia Permutation.
From Verif Require Import Dpos.Lib Dpos.LibProofs.
Import ListNotations.
Open Scope Z_scope.


(** * LIB on the main chain: status invariant relative to a chain *)
Definition onm (C : list block) (bi : binfo) : Prop :=
  exists m, main_get C (b_no bi) = Some m /\ k_id m = b_id bi.

Section StatusInv.
  Variable P : binfo -> Prop.       (* "is on the chain" *)

  Definition SI (ls : lib_status) : Prop :=
    Forall (fun c => P (c_bi c)) (ls_confirms ls) /\
    Forall (fun kv => P (pl_plib (snd kv))) (ls_prpsd ls) /\
    (ls_lib ls = empty_info \/ P (ls_lib ls)).

  Lemma pset_forall : forall (Q : Z * plinfo -> Prop) p bp v,
    Forall Q p -> Q (bp, v) -> (forall k w, Q (k, w) -> Q (k, w)) ->
    (forall k, k = bp -> Q (k, v)) -> Forall Q (pset p bp v).
  Proof.
    induction p as [|[k w] tl]; simpl; intros; auto.
    inversion H; subst. destruct (k =? bp) eqn:E.
    - constructor; auto. apply H2. apply Z.eqb_eq; auto.
    - constructor; auto.
  Qed.

  Lemma pset_P : forall p bp v,
    Forall (fun kv => P (pl_plib (snd kv))) p -> P (pl_plib v) ->
    Forall (fun kv => P (pl_plib (snd kv))) (pset p bp v).
  Proof. intros. apply pset_forall; auto. Qed.

  Lemma add_confirm_info_SI : forall ls blk,
    SI ls -> P (info_of blk) -> P genesis_info -> SI (add_confirm_info ls blk).
  Proof.
    intros ls blk [Hc [Hp Hl]] Hb Hg. unfold add_confirm_info.
    destruct (k_no blk =? 0). { repeat split; auto. }
    cbv zeta.
    assert (Hc' : Forall (fun c => P (c_bi c)) (ls_confirms ls ++ [mkC (info_of blk) (k_bp blk) (ls_cr ls)])).
    { apply Forall_app; split; auto. }
    destruct (pmem _ _); destruct (k_bp blk =? _); unfold SI; simpl; repeat split; auto;
      apply pset_P; auto.
  Qed.

  Lemma scan_P : forall mn mx rl rl' r,
    Forall (fun c => P (c_bi c)) rl -> scan mn mx rl = (rl', r) ->
    Forall (fun c => P (c_bi c)) rl' /\ (forall c, r = Some c -> P c).
  Proof.
    induction rl as [|c tl]; simpl; intros rl' r H E.
    - inversion E; subst. split; auto. intros; discriminate.
    - inversion H; subst.
      set (c' := if in_window mn mx c then dec_left c else c) in *.
      assert (Pc : P (c_bi c')). { unfold c'. destruct (in_window mn mx c); simpl; auto. }
      destruct (c_left c' =? 0).
      + inversion E; subst. split. constructor; auto. intros x Hx. inversion Hx; subst; auto.
      + destruct (scan mn mx tl) as [tl' r'] eqn:S. inversion E; subst.
        destruct (IHtl _ _ H3 eq_refl) as [A B]. split; auto.
  Qed.

  Lemma get_pre_lib_SI : forall ls ls' r,
    SI ls -> get_pre_lib ls = (ls', r) ->
    SI ls' /\ ls_prpsd ls' = ls_prpsd ls /\ ls_lib ls' = ls_lib ls /\
    (forall bp pl, r = Some (bp, pl) -> P (pl_plib pl)).
  Proof.
    intros ls ls' r [Hc [Hp Hl]] E. unfold get_pre_lib in E.
    destruct (rev (ls_confirms ls)) as [|last tl] eqn:R.
    - inversion E; subst. repeat split; auto. intros; discriminate.
    - rewrite <- R in E.
      destruct (scan (win_min last) (win_max last) (rev (ls_confirms ls))) as [rl' r'] eqn:S.
      assert (F : Forall (fun c => P (c_bi c)) (rev (ls_confirms ls))).
      { apply Forall_rev; auto. }
      destruct (scan_P _ _ _ _ _ F S) as [A B].
      destruct r' as [c|]; inversion E; subst; unfold SI; simpl; repeat split; auto;
        try (apply Forall_rev; auto).
      + intros bp pl H. inversion H; subst. simpl. auto.
      + intros; discriminate.
  Qed.

  Lemma In_insert_bi : forall x y l, In x (insert_bi y l) -> x = y \/ In x l.
  Proof.
    induction l; simpl; intros. destruct H; auto.
    destruct (bi_le y a); simpl in H.
    - destruct H; auto.
    - destruct H; auto. destruct (IHl H); auto.
  Qed.
  Lemma In_sort_bi : forall x l, In x (sort_bi l) -> In x l.
  Proof.
    induction l; simpl; intros; auto. destruct (In_insert_bi _ _ _ H); auto.
  Qed.
  Lemma calc_lib_In : forall p l, calc_lib p = Some l -> In l (plibs p).
  Proof.
    intros p l H. unfold calc_lib in H. destruct p; try discriminate.
    apply nth_error_In in H. apply In_sort_bi in H. exact H.
  Qed.

  Lemma calc_lib_P : forall p l,
    Forall (fun kv => P (pl_plib (snd kv))) p -> calc_lib p = Some l -> P l.
  Proof.
    intros p l F H. apply calc_lib_In in H. unfold plibs in H. apply in_map_iff in H.
    destruct H as [kv [E I]]. rewrite Forall_forall in F. subst. apply F; auto.
  Qed.

  Lemma update_SI : forall ls ls' r,
    SI ls -> update ls = (ls', r) -> SI ls' /\ (forall l, r = Some l -> P l).
  Proof.
    intros ls ls' r H E. unfold update in E.
    destruct (get_pre_lib ls) as [ls1 r1] eqn:G.
    destruct (get_pre_lib_SI _ _ _ H G) as [[Hc [Hp Hl]] [_ [_ Hr]]].
    destruct r1 as [[bp pl]|]; inversion E; subst.
    - assert (F : Forall (fun kv => P (pl_plib (snd kv))) (pset (ls_prpsd ls1) bp pl)).
      { apply pset_P; auto. eapply Hr; eauto. }
      split. unfold SI; simpl; repeat split; auto.
      intros l Hl'. simpl in Hl'. eapply calc_lib_P; eauto.
    - split. unfold SI; auto. intros; discriminate.
  Qed.

  Lemma update_lib_SI : forall ls l, SI ls -> P l -> SI (update_lib ls l).
  Proof.
    intros ls l [Hc [Hp Hl]] Pl. unfold update_lib. destruct (b_no l <? b_no (ls_lib ls)).
    - unfold SI; auto.
    - unfold SI; simpl; auto.
  Qed.

  Lemma drop_le_lib_forall : forall (Q : cinfo -> Prop) n l, Forall Q l -> Forall Q (drop_le_lib n l).
  Proof.
    induction l; simpl; intros; auto. inversion H; subst.
    destruct (n <? b_no (c_bi a)); auto.
  Qed.
  Lemma skipn_forall : forall (A : Type) (Q : A -> Prop) n l, Forall Q l -> Forall Q (skipn n l).
  Proof.
    induction n; destruct l; simpl; intros; auto. inversion H; auto.
  Qed.
  Lemma filter_forall : forall (A : Type) (Q : A -> Prop) f l, Forall Q l -> Forall Q (filter f l).
  Proof.
    induction l; simpl; intros; auto. inversion H; subst. destruct (f a); auto.
  Qed.

  Lemma gc_SI : forall ls bps, SI ls -> SI (gc ls bps).
  Proof.
    intros ls bps [Hc [Hp Hl]]. unfold gc, SI; simpl. repeat split; auto.
    - unfold trim_front. apply skipn_forall. apply drop_le_lib_forall. auto.
    - unfold prpsd_gc. destruct bps; auto. apply filter_forall; auto.
  Qed.

  Lemma set_cr_SI : forall ls x, SI ls -> SI (set_cr ls x).
  Proof. intros ls x [Hc [Hp Hl]]. unfold SI; simpl; auto. Qed.

  Section Load.
    Variable g : Z -> option block.
    Hypothesis g_P : forall i b, g i = Some b -> P (info_of b).
    Hypothesis gen_P : P genesis_info.

    Lemma replay_SI : forall fuel i pls r, SI pls -> replay g fuel i pls = Some r -> SI r.
    Proof.
      induction fuel; simpl; intros i pls r H E.
      - inversion E; subst; auto.
      - destruct (g i) as [b|] eqn:G; try discriminate.
        apply IHfuel in E; auto.
        destruct (update (add_confirm_info pls b)) as [ls' r'] eqn:U. simpl.
        eapply update_SI. 2: exact U. apply add_confirm_info_SI; eauto.
    Qed.

    Lemma merge_prpsd_P : forall tmp p,
      Forall (fun kv => P (pl_plib (snd kv))) p -> Forall (fun kv => P (pl_plib (snd kv))) tmp ->
      Forall (fun kv => P (pl_plib (snd kv))) (merge_prpsd p tmp).
    Proof.
      induction tmp as [|[bp v] tl]; simpl; intros; auto.
      inversion H0; subst. apply IHtl; auto.
      destruct (b_no (pl_plib v) >? 0); auto. apply pset_P; auto.
    Qed.

    (* load keeps the proposals and the LIB it is given: they must already be on the chain *)
    Lemma load_SI : forall ls e,
      Forall (fun kv => P (pl_plib (snd kv))) (ls_prpsd ls) ->
      (ls_lib ls = empty_info \/ P (ls_lib ls)) -> SI (load g ls e).
    Proof.
      intros ls e Hp Hl. unfold load. cbv zeta.
      destruct (e =? 0). { unfold SI; simpl; auto. }
      destruct (load_plib_status g _ _ _ _) as [tmp|] eqn:L.
      2: { unfold SI; simpl; auto. }
      assert (T : SI tmp).
      { unfold load_plib_status in L.
        destruct (_ =? e); try discriminate. destruct (_ >? e); try discriminate.
        eapply replay_SI. 2: exact L. unfold SI, new_lib_status_cr; simpl; auto. }
      destruct T as [Tc [Tp _]].
      destruct (ls_confirms tmp) eqn:C; unfold SI; simpl; repeat split; auto;
        apply merge_prpsd_P; auto.
    Qed.
  End Load.
End StatusInv.


(** * Node invariant *)
Lemma find_block_some : forall s id b, find_block s id = Some b -> In b s /\ k_id b = id.
Proof.
  induction s; simpl; intros; try discriminate.
  destruct (k_id a =? id) eqn:E.
  - inversion H; subst. split; auto. apply Z.eqb_eq; auto.
  - destruct (IHs _ _ H); auto.
Qed.
Lemma find_block_none : forall s id, find_block s id = None -> forall b, In b s -> k_id b <> id.
Proof.
  induction s; simpl; intros; auto.
  destruct (k_id a =? id) eqn:E; try discriminate.
  destruct H0; subst; auto. apply Z.eqb_neq; auto.
Qed.

Definition uniq (s : list block) : Prop := forall b, In b s -> find_block s (k_id b) = Some b.
Definition ids_ok (s : list block) : Prop := forall b, In b s -> 0 <= k_id b.

Lemma uniq_cons : forall s b, uniq s -> find_block s (k_id b) = None -> uniq (b :: s).
Proof.
  intros s b U N x [E|I]; simpl.
  - subst. rewrite Z.eqb_refl. auto.
  - destruct (k_id b =? k_id x) eqn:E.
    + exfalso. apply Z.eqb_eq in E. eapply find_block_none; eauto.
    + auto.
Qed.
Lemma uniq_inj : forall s a b, uniq s -> In a s -> In b s -> k_id a = k_id b -> a = b.
Proof.
  intros s a b U Ia Ib E. pose proof (U a Ia). pose proof (U b Ib). rewrite E in H. congruence.
Qed.

Lemma main_get_some_lt : forall m h b, main_get m h = Some b -> 0 <= h < Z.of_nat (length m).
Proof.
  unfold main_get. intros. destruct (h <? 0) eqn:E; try discriminate.
  apply Z.ltb_ge in E. split; auto.
  assert (L : (Z.to_nat h < length m)%nat) by (apply nth_error_Some; congruence).
  apply Nat2Z.inj_lt in L. rewrite Z2Nat.id in L by auto. exact L.
Qed.
Lemma main_get_app_last : forall m x, main_get (m ++ [x]) (Z.of_nat (length m)) = Some x.
Proof.
  unfold main_get. intros. destruct (Z.of_nat (length m) <? 0) eqn:E. { apply Z.ltb_lt in E. lia. }
  rewrite Nat2Z.id. rewrite nth_error_app2 by lia. rewrite Nat.sub_diag. reflexivity.
Qed.
Lemma main_get_app_inv : forall m x h b,
  main_get (m ++ [x]) h = Some b -> main_get m h = Some b \/ (h = Z.of_nat (length m) /\ b = x).
Proof.
  unfold main_get. intros. destruct (h <? 0) eqn:E; try discriminate. apply Z.ltb_ge in E.
  destruct (Nat.lt_ge_cases (Z.to_nat h) (length m)).
  - rewrite nth_error_app1 in H by auto. auto.
  - rewrite nth_error_app2 in H by auto.
    destruct (Z.to_nat h - length m)%nat eqn:D; simpl in H.
    + inversion H; subst. right. split; auto. lia.
    + destruct n; discriminate.
Qed.

Lemma onm_app : forall C x bi, onm C bi -> onm (C ++ x) bi.
Proof. intros C x bi [m [G E]]. exists m. split; auto. apply main_get_app; auto. Qed.

Record NI (nd : node) : Prop := mkNI {
  ni_gen : main_get (nd_main nd) 0 = Some genesis_block;
  ni_height : forall h b, main_get (nd_main nd) h = Some b -> k_no b = h /\ In b (nd_store nd);
  ni_link : forall h b, 0 < h -> main_get (nd_main nd) h = Some b ->
            exists p, main_get (nd_main nd) (h - 1) = Some p /\ k_prev b = k_id p;
  ni_best : main_get (nd_main nd) (k_no (st_best (nd_st nd))) = Some (st_best (nd_st nd));
  ni_len : Z.of_nat (length (nd_main nd)) = k_no (st_best (nd_st nd)) + 1;
  ni_uniq : uniq (nd_store nd);
  ni_ids : ids_ok (nd_store nd);
  ni_si : SI (onm (nd_main nd)) (st_ls (nd_st nd));
  ni_saved : match nd_saved nd with
             | Some (p, l, lpb) => l = ls_lib (st_ls (nd_st nd)) /\
                                   Forall (fun kv => onm (nd_main nd) (pl_plib (snd kv))) p
             | None => ls_lib (st_ls (nd_st nd)) = empty_info
             end
}.

Lemma NI_init : forall size self, NI (init_node size self).
Proof.
  intros. constructor; simpl; auto.
  - intros h b H. unfold main_get in H. destruct (h <? 0) eqn:E; try discriminate.
    destruct (Z.to_nat h) eqn:T; simpl in H.
    + inversion H; subst. split; auto. simpl. apply Z.ltb_ge in E. lia.
    + destruct n; discriminate.
  - intros h b Hh H. exfalso. unfold main_get in H. destruct (h <? 0); try discriminate.
    destruct (Z.to_nat h) eqn:T; simpl in H. lia. destruct n; discriminate.
  - intros b [E|[]]. subst. reflexivity.
  - intros b [E|[]]. subst. simpl. lia.
  - unfold SI; simpl; auto.
Qed.

Lemma gen_onm : forall C, main_get C 0 = Some genesis_block -> onm C genesis_info.
Proof. intros. exists genesis_block. auto. Qed.

(** status_update, extend path *)
Lemma status_update_extend_SI : forall P g bps size s blk,
  SI P (st_ls s) -> P (info_of blk) -> P genesis_info ->
  (k_id (st_best s) =? k_prev blk) = true ->
  SI P (st_ls (status_update g bps size s blk)).
Proof.
  intros P g bps size s blk H Pb Pg E. unfold status_update. rewrite E. simpl.
  apply set_cr_SI, gc_SI.
  destruct (update (add_confirm_info (st_ls s) blk)) as [ls2 r] eqn:U.
  destruct (update_SI P _ _ _ (add_confirm_info_SI P _ _ H Pb Pg) U) as [A B].
  destruct r; auto. apply update_lib_SI; auto.
Qed.

(** status_update, rollback path: relative to the truncated chain *)
Lemma reset_stale_P : forall (P Q : binfo -> Prop) target p,
  Forall (fun kv => P (pl_plib (snd kv))) p -> Q genesis_info ->
  (forall bi, P bi -> b_no bi <= target -> Q bi) ->
  Forall (fun kv => Q (pl_plib (snd kv))) (reset_stale target p).
Proof.
  induction p as [|[k v] tl]; simpl; intros; constructor; inversion H; subst; auto.
  simpl in *. destruct (b_no (pl_plib v) >? target) eqn:E; simpl; auto.
  apply H1; auto. lia.
Qed.

Lemma status_update_rollback_SI : forall (P Q : binfo -> Prop) g bps size s blk,
  SI P (st_ls s) -> Q genesis_info ->
  (forall bi, P bi -> b_no bi <= k_no blk -> Q bi) ->
  (forall i b, g i = Some b -> Q (info_of b)) ->
  b_no (ls_lib (st_ls s)) <= k_no blk ->
  (k_id (st_best s) =? k_prev blk) = false ->
  SI Q (st_ls (status_update g bps size s blk)).
Proof.
  intros P Q g bps size s blk [Hc [Hp Hl]] Qg PQ gQ Hlib E. unfold status_update. rewrite E. simpl.
  apply set_cr_SI, gc_SI. unfold rollback_status_to. apply load_SI; auto; simpl.
  - eapply reset_stale_P; eauto.
  - destruct Hl; auto.
Qed.


Lemma SI_impl : forall (P Q : binfo -> Prop) ls, (forall bi, P bi -> Q bi) -> SI P ls -> SI Q ls.
Proof.
  intros P Q ls H [Hc [Hp Hl]]. unfold SI. repeat split.
  - eapply Forall_impl; [|exact Hc]. simpl; auto.
  - eapply Forall_impl; [|exact Hp]. simpl; auto.
  - destruct Hl; auto.
Qed.

(** well-formed chain with last block [p], blocks taken from [store] *)
Record WF (store C : list block) (p : block) : Prop := mkWF {
  wf_gen : main_get C 0 = Some genesis_block;
  wf_height : forall h b, main_get C h = Some b -> k_no b = h /\ In b store;
  wf_link : forall h b, 0 < h -> main_get C h = Some b ->
            exists q, main_get C (h - 1) = Some q /\ k_prev b = k_id q;
  wf_last : main_get C (k_no p) = Some p;
  wf_len : Z.of_nat (length C) = k_no p + 1
}.

Lemma WF_store_mono : forall s s' C p, WF s C p -> incl s s' -> WF s' C p.
Proof.
  intros s s' C p [a b c d e] I. constructor; auto.
  intros h x H. destruct (b h x H). split; auto.
Qed.

Lemma WF_snoc : forall s C p x,
  WF s C p -> k_prev x = k_id p -> k_no x = k_no p + 1 -> In x s -> WF s (C ++ [x]) x.
Proof.
  intros s C p x [a b c d e] Hp Hn Hi.
  assert (Hx : main_get (C ++ [x]) (k_no x) = Some x).
  { rewrite Hn, <- e. apply main_get_app_last. }
  constructor; auto.
  - apply main_get_app; auto.
  - intros h y H. destruct (main_get_app_inv _ _ _ _ H) as [H1|[H1 H2]].
    + apply b; auto.
    + subst. split; auto. lia.
  - intros h y Hh H. destruct (main_get_app_inv _ _ _ _ H) as [H1|[H1 H2]].
    + destruct (c h y Hh H1) as [q [Q1 Q2]]. exists q. split; auto. apply main_get_app; auto.
    + subst. exists p. split; auto. apply main_get_app.
      replace (Z.of_nat (length C) - 1) with (k_no p) by lia. auto.
  - rewrite app_length. simpl. lia.
Qed.

Fixpoint chain_from (store : list block) (p : block) (l : list block) : Prop :=
  match l with
  | [] => True
  | x :: tl => k_prev x = k_id p /\ k_no x = k_no p + 1 /\ In x store /\ chain_from store x tl
  end.

Lemma last_nonempty_default : forall (l : list block) a d d', last (a :: l) d = last (a :: l) d'.
Proof. induction l; intros; auto. change (last (a0 :: a :: l) d) with (last (a :: l) d).
  change (last (a0 :: a :: l) d') with (last (a :: l) d'). apply IHl. Qed.
Lemma last_cons_default : forall (tl : list block) x p, last (x :: tl) p = last tl x.
Proof. destruct tl; intros; auto. change (last (x :: b :: tl) p) with (last (b :: tl) p).
  apply last_nonempty_default. Qed.

Lemma WF_chain : forall s nb C p,
  WF s C p -> chain_from s p nb -> WF s (C ++ nb) (last nb p).
Proof.
  induction nb as [|x tl]; intros C p W H.
  - rewrite app_nil_r. exact W.
  - destruct H as [H1 [H2 [H3 H4]]].
    rewrite last_cons_default.
    assert (E : C ++ x :: tl = (C ++ [x]) ++ tl) by (rewrite <- app_assoc; reflexivity).
    rewrite E. apply IHtl; auto. eapply WF_snoc; eauto.
Qed.

Lemma main_get_firstn : forall (m : list block) r h b, 0 <= r ->
  main_get (firstn (Z.to_nat r + 1) m) h = Some b -> main_get m h = Some b /\ h <= r.
Proof.
  unfold main_get. intros m r h b Hr H. destruct (h <? 0) eqn:E; try discriminate.
  apply Z.ltb_ge in E.
  assert (L : (Z.to_nat h < length (firstn (Z.to_nat r + 1) m))%nat) by (apply nth_error_Some; congruence).
  rewrite firstn_length in L.
  assert (L2 : (Z.to_nat h < Z.to_nat r + 1)%nat) by lia.
  rewrite nth_error_firstn_lt in H by auto. split; auto.
  destruct (Z_le_gt_dec h r); auto. exfalso.
  assert ((Z.to_nat r < Z.to_nat h)%nat) by (apply Z2Nat.inj_lt; lia).
  lia.
Qed.


Lemma WF_firstn : forall s C p r root,
  WF s C p -> main_get C r = Some root -> WF s (firstn (Z.to_nat r + 1) C) root.
Proof.
  intros s C p r root [a b c d e] H.
  destruct (main_get_some_lt _ _ _ H) as [R0 R1].
  destruct (b _ _ H) as [Hn Hi].
  assert (G : forall h x, 0 <= h <= r -> main_get C h = Some x ->
              main_get (firstn (Z.to_nat r + 1) C) h = Some x).
  { intros h x Hh Hx. pose proof (main_get_firstn_app C [] r h x Hh Hx) as Q.
    rewrite app_nil_r in Q. exact Q. }
  constructor.
  - apply G; auto. lia.
  - intros h x Hx. destruct (main_get_firstn _ _ _ _ R0 Hx). apply b; auto.
  - intros h x Hh Hx. destruct (main_get_firstn _ _ _ _ R0 Hx) as [Hx' Hr].
    destruct (c h x Hh Hx') as [q [Q1 Q2]]. exists q. split; auto. apply G; auto. lia.
  - rewrite Hn. apply G; auto. lia.
  - rewrite firstn_length. rewrite Nat.min_l by lia. lia.
Qed.

Lemma on_main_spec : forall main b, on_main main b = true ->
  exists m, main_get main (k_no b) = Some m /\ k_id m = k_id b.
Proof.
  unfold on_main. intros. destruct (main_get main (k_no b)) as [m|]; try discriminate.
  exists m. split; auto. apply Z.eqb_eq; auto.
Qed.

Lemma gather_spec : forall fuel main store br acc root nb,
  In br store -> chain_from store br acc ->
  gather fuel main store br acc = Some (root, nb) ->
  on_main main root = true /\ In root store /\ chain_from store root nb /\ exists pre, nb = pre ++ acc.
Proof.
  induction fuel; intros main store br acc root nb Hi Hc H; simpl in H.
  - destruct (on_main main br) eqn:O; try discriminate. inversion H; subst.
    repeat split; auto. exists []. reflexivity.
  - destruct (on_main main br) eqn:O.
    + inversion H; subst. repeat split; auto. exists []. reflexivity.
    + destruct (find_block store (k_prev br)) as [p|] eqn:F; try discriminate.
      destruct (k_no p + 1 =? k_no br) eqn:E; try discriminate.
      destruct (find_block_some _ _ _ F) as [Ip Ep]. apply Z.eqb_eq in E.
      assert (Hc' : chain_from store p (br :: acc)).
      { simpl. repeat split; auto; try lia; try congruence. }
      destruct (IHfuel _ _ _ _ _ _ Ip Hc' H) as [A [B [C [pre D]]]].
      repeat split; auto. exists (pre ++ [br]). rewrite <- app_assoc. exact D.
Qed.


Lemma status_update_best : forall g bps size s blk, st_best (status_update g bps size s blk) = blk.
Proof. reflexivity. Qed.

Lemma onm_info_of : forall C b, main_get C (k_no b) = Some b -> onm C (info_of b).
Proof. intros. exists b. auto. Qed.

(** rollforward: the fold of Update over a chain of new blocks *)
Lemma fold_extend_SI : forall store g size nb C p s,
  chain_from store p nb -> WF store C p -> k_id (st_best s) = k_id p ->
  SI (onm C) (st_ls s) ->
  SI (onm (C ++ nb)) (st_ls (fold_left (status_update g [] size) nb s)) /\
  st_best (fold_left (status_update g [] size) nb s) = last nb (st_best s).
Proof.
  induction nb as [|x tl]; intros C p s Hc W Hb H.
  - simpl. rewrite app_nil_r. auto.
  - destruct Hc as [H1 [H2 [H3 H4]]]. simpl fold_left.
    assert (W' : WF store (C ++ [x]) x) by (eapply WF_snoc; eauto).
    assert (E : C ++ x :: tl = (C ++ [x]) ++ tl) by (rewrite <- app_assoc; reflexivity).
    rewrite E. rewrite last_cons_default.
    destruct (IHtl (C ++ [x]) x (status_update g [] size s x) H4 W') as [A B].
    + reflexivity.
    + apply status_update_extend_SI.
      * eapply SI_impl; [|exact H]. intros. apply onm_app; auto.
      * apply onm_info_of. apply (wf_last _ _ _ W').
      * apply gen_onm. apply (wf_gen _ _ _ W').
      * apply Z.eqb_eq. congruence.
    + split; auto.
Qed.

Definition WFn (nd : node) := WF (nd_store nd) (nd_main nd) (st_best (nd_st nd)).

Lemma NI_WF : forall nd, NI nd -> WFn nd.
Proof. intros nd [a b c d e f g h i]. constructor; auto. Qed.

Lemma NI_of : forall nd,
  WFn nd -> uniq (nd_store nd) -> ids_ok (nd_store nd) ->
  SI (onm (nd_main nd)) (st_ls (nd_st nd)) ->
  match nd_saved nd with
  | Some (p, l, lpb) => l = ls_lib (st_ls (nd_st nd)) /\
                        Forall (fun kv => onm (nd_main nd) (pl_plib (snd kv))) p
  | None => ls_lib (st_ls (nd_st nd)) = empty_info
  end -> NI nd.
Proof. intros nd [a b c d e] U I S V. constructor; auto. Qed.

Lemma saved_of_SI : forall C ls, SI (onm C) ls ->
  ls_lib ls = ls_lib ls /\ Forall (fun kv => onm C (pl_plib (snd kv))) (ls_prpsd ls).
Proof. intros C ls [a [b c]]. auto. Qed.

Definition blk_ok (b : block) : Prop := 0 <= k_id b.

Lemma deliver_NI : forall nd blk, NI nd -> blk_ok blk -> NI (fst (deliver nd blk)).
Proof.
  intros nd blk N Hid. pose proof (NI_WF _ N) as W.
  unfold deliver.
  destruct (find_block (nd_store nd) (k_id blk)) eqn:Fid; [exact N|].
  destruct (negb (verify_lib_rule (st_ls (nd_st nd)) blk)); [exact N|].
  destruct (find_block (nd_store nd) (k_prev blk)) as [parent|] eqn:Fp; [|exact N].
  destruct (negb (k_no parent + 1 =? k_no blk)) eqn:En; [exact N|].
  apply negb_false_iff, Z.eqb_eq in En.
  destruct (find_block_some _ _ _ Fp) as [Ipar Epar].
  assert (U' : uniq (blk :: nd_store nd)) by (apply uniq_cons; [apply (ni_uniq _ N)|auto]).
  assert (I' : ids_ok (blk :: nd_store nd)).
  { intros x [E|Hx]. subst; auto. apply (ni_ids _ N); auto. }
  assert (W' : WF (blk :: nd_store nd) (nd_main nd) (st_best (nd_st nd))).
  { eapply WF_store_mono; eauto. intros x Hx; right; auto. }
  set (best := st_best (nd_st nd)) in *.
  assert (Ibest : In best (nd_store nd)) by (apply (ni_height _ N _ _ (ni_best _ N))).
  destruct (k_prev blk =? k_id best) eqn:Eb.
  - (* connected *)
    apply Z.eqb_eq in Eb. cbn [fst].
    assert (parent = best).
    { eapply uniq_inj. apply (ni_uniq _ N). auto. auto. congruence. }
    subst parent.
    assert (W2 : WF (blk :: nd_store nd) (nd_main nd ++ [blk]) blk).
    { apply (WF_snoc _ _ best); auto; try lia; try (left; reflexivity). }
    assert (S2 : SI (onm (nd_main nd ++ [blk]))
                    (st_ls (status_update (main_get (nd_main nd)) [] (nd_size nd) (nd_st nd) blk))).
    { apply status_update_extend_SI.
      - eapply SI_impl; [|apply (ni_si _ N)]. intros. apply onm_app; auto.
      - apply onm_info_of. apply (wf_last _ _ _ W2).
      - apply gen_onm. apply (wf_gen _ _ _ W2).
      - apply Z.eqb_eq. fold best. congruence. }
    apply NI_of; cbn [nd_main nd_st nd_store nd_saved]; auto.
    unfold save. destruct S2 as [a [b c]]. split; auto.
  - destruct (k_no blk <=? k_no best) eqn:Es.
    + (* side *)
      cbn [fst]. apply NI_of; cbn [nd_main nd_st nd_store nd_saved]; auto.
      apply (ni_si _ N). apply (ni_saved _ N).
    + destruct (gather (length (blk :: nd_store nd)) (nd_main nd) (blk :: nd_store nd) blk [])
        as [[root nb]|] eqn:G; [|exact N].
      destruct (negb (need_reorganization (st_ls (nd_st nd)) (k_no root))) eqn:Ev.
      * (* veto *)
        cbn [fst]. apply NI_of; cbn [nd_main nd_st nd_store nd_saved]; auto.
        apply (ni_si _ N). apply (ni_saved _ N).
      * (* reorg *)
        cbn [fst].
        apply negb_false_iff in Ev. unfold need_reorganization in Ev. apply Z.leb_le in Ev.
        assert (Iblk : In blk (blk :: nd_store nd)) by (left; reflexivity).
        destruct (gather_spec _ _ (blk :: nd_store nd) blk [] _ _ Iblk I G) as [Om [Ir [Cn [pre Epre]]]].
        rewrite app_nil_r in Epre. subst pre.
        destruct (on_main_spec _ _ Om) as [m [Gm Em]].
        destruct (wf_height _ _ _ W' _ _ Gm) as [Hm Im].
        assert (m = root) by (eapply uniq_inj; eauto). subst m.
        set (r := k_no root) in *.
        destruct (main_get_some_lt _ _ _ Gm) as [R0 R1].
        set (main_r := firstn (Z.to_nat r + 1) (nd_main nd)).
        assert (Wr : WF (blk :: nd_store nd) main_r root) by (eapply WF_firstn; eauto).
        (* the rollback Update(root) takes the rollback path *)
        assert (Epath : (k_id (st_best (nd_st nd)) =? k_prev root) = false).
        { apply Z.eqb_neq. fold best. intro Q.
          destruct (Z.eq_dec r 0) as [Z0|Z0].
          - rewrite Z0 in Gm. rewrite (wf_gen _ _ _ W') in Gm. inversion Gm; subst root.
            simpl in Q. pose proof (ni_ids _ N _ Ibest). lia.
          - destruct (wf_link _ _ _ W' r root ltac:(lia) Gm) as [q [Gq Eq]].
            destruct (wf_height _ _ _ W' _ _ Gq) as [Hq Iq].
            assert (q = best).
            { eapply uniq_inj. exact U'. auto. right; auto. congruence. }
            subst q. pose proof (wf_len _ _ _ W'). fold best in H. lia. }
        set (st1 := status_update (main_get main_r) [] (nd_size nd) (nd_st nd) root).
        assert (S1 : SI (onm main_r) (st_ls st1)).
        { unfold st1. eapply status_update_rollback_SI with (P := onm (nd_main nd)).
          - apply (ni_si _ N).
          - apply gen_onm. apply (wf_gen _ _ _ Wr).
          - intros bi [x [Gx Ex]] Hle. exists x. split; auto.
            pose proof (main_get_firstn_app (nd_main nd) [] r (b_no bi) x) as Q.
            rewrite app_nil_r in Q. apply Q; auto.
            destruct (main_get_some_lt _ _ _ Gx). fold r in Hle. lia.
          - intros i b Gb. apply onm_info_of.
            destruct (wf_height _ _ _ Wr _ _ Gb) as [Hb _]. rewrite Hb. exact Gb.
          - fold r. exact Ev.
          - exact Epath. }
        destruct (fold_extend_SI (blk :: nd_store nd) (main_get main_r) (nd_size nd) nb main_r root st1 Cn Wr
                    eq_refl S1) as [S2 B2].
        fold st1.
        set (st' := fold_left (status_update (main_get main_r) [] (nd_size nd)) nb st1) in *.
        assert (Wn : WF (blk :: nd_store nd) (main_r ++ nb) (last nb root)) by (apply WF_chain; auto).
        apply NI_of; cbn [nd_main nd_st nd_store nd_saved]; auto.
        -- unfold WFn. cbn [nd_main nd_st nd_store]. rewrite B2. exact Wn.
        -- unfold save. destruct S2 as [a [b c]]. split; auto.
Qed.


Lemma restart_NI : forall nd, NI nd -> NI (restart nd).
Proof.
  intros nd N. pose proof (NI_WF _ N) as W. unfold restart.
  apply NI_of; cbn [nd_main nd_st nd_store nd_saved].
  - unfold WFn, restore. cbn [nd_main nd_st nd_store].
    destruct (nd_saved nd) as [[[p l] lpb]|]; exact W.
  - apply (ni_uniq _ N).
  - apply (ni_ids _ N).
  - pose proof (ni_saved _ N) as V. unfold restore.
    destruct (nd_saved nd) as [[[p l] lpb]|]; cbn [st_ls].
    + destruct V as [V1 V2]. apply load_SI; simpl; auto.
      * intros i b Gb. apply onm_info_of.
        destruct (ni_height _ N _ _ Gb) as [Hb _]. rewrite Hb. exact Gb.
      * apply gen_onm. apply (ni_gen _ N).
      * subst l. destruct (ni_si _ N) as [_ [_ Hl]]. exact Hl.
    + unfold SI, new_lib_status_cr; simpl; auto.
  - pose proof (ni_saved _ N) as V. unfold restore.
    destruct (nd_saved nd) as [[[p l] lpb]|]; cbn [st_ls].
    + destruct V as [V1 V2]. split; auto. rewrite load_lib. reflexivity.
    + reflexivity.
Qed.

Definition ev_ok (e : event) : Prop := match e with EDeliver b => blk_ok b | ERestart => True end.

Lemma step_NI : forall nd e, NI nd -> ev_ok e -> NI (step nd e).
Proof. destruct e; simpl; intros. apply deliver_NI; auto. apply restart_NI; auto. Qed.

Lemma run_NI : forall evs nd, NI nd -> Forall ev_ok evs -> NI (run nd evs).
Proof.
  unfold run. induction evs; simpl; intros; auto. inversion H0; subst.
  apply IHevs; auto. apply step_NI; auto.
Qed.

Lemma NI_lib_on_main : forall nd, NI nd -> lib_on_main nd = true.
Proof.
  intros nd N. unfold lib_on_main. destruct (ni_si _ N) as [_ [_ [E|[m [G I]]]]].
  - rewrite E. reflexivity.
  - rewrite G. apply orb_true_iff. right. apply Z.eqb_eq. exact I.
Qed.

(** [lib_on_main_chain]: after any history of deliveries (arbitrary blocks with non-empty
    hashes, arbitrary Confirms, forks, reorganisations, vetoes) and restarts, the reported LIB
    is the empty initial value or the block the node's main chain holds at the LIB's height. *)
Theorem lib_on_main_chain : forall size self evs,
  Forall ev_ok evs -> lib_on_main (run (init_node size self) evs) = true.
Proof. intros. apply NI_lib_on_main, run_NI; auto. apply NI_init. Qed.

(** Every proposal of the map and every element of the confirms list is on the main chain too. *)
Theorem proposals_on_main_chain : forall size self evs,
  Forall ev_ok evs ->
  let nd := run (init_node size self) evs in
  Forall (fun kv => onm (nd_main nd) (pl_plib (snd kv))) (ls_prpsd (st_ls (nd_st nd))) /\
  Forall (fun c => onm (nd_main nd) (c_bi c)) (ls_confirms (st_ls (nd_st nd))).
Proof.
  intros. assert (N : NI nd) by (apply run_NI; auto; apply NI_init).
  destruct (ni_si _ N) as [a [b _]]. auto.
Qed.

Example lib_on_main_chain_nontrivial :
  let evs := [EDeliver (mkBlk 1 0 1 0 1); EDeliver (mkBlk 2 1 2 0 2); ERestart; EDeliver (mkBlk 3 2 3 0 3)] in
  Forall ev_ok evs /\ lib_no (run (init_node 1 0) evs) = 3.
Proof.
  split; [| vm_compute; reflexivity].
  repeat (apply Forall_cons; [unfold ev_ok, blk_ok; simpl; first [lia | exact I]|]). apply Forall_nil.
Qed.


(** [lib_advances_on_one_branch]: a LIB the node reported earlier is still the block its main
    chain holds at that height after any further history, and the later LIB is at or above it:
    one node never reports irreversible blocks on conflicting branches. *)
Theorem lib_advances_on_one_branch : forall size self evs1 evs2,
  Forall ev_ok (evs1 ++ evs2) ->
  let nd1 := run (init_node size self) evs1 in
  let nd2 := run (init_node size self) (evs1 ++ evs2) in
  b_id (ls_lib (st_ls (nd_st nd1))) <> -1 ->
  (exists m, main_at nd2 (lib_no nd1) = Some m /\ k_id m = b_id (ls_lib (st_ls (nd_st nd1)))) /\
  lib_no nd1 <= lib_no nd2.
Proof.
  intros size self evs1 evs2 F nd1 nd2 Hid.
  assert (F1 : Forall ev_ok evs1) by (apply Forall_app in F; tauto).
  pose proof (lib_on_main_chain size self evs1 F1) as L. fold nd1 in L.
  unfold lib_on_main in L. apply orb_true_iff in L. destruct L as [L|L].
  { apply Z.eqb_eq in L. contradiction. }
  destruct (main_get (nd_main nd1) (b_no (ls_lib (st_ls (nd_st nd1))))) as [m|] eqn:G; [|discriminate].
  apply Z.eqb_eq in L.
  split; [|apply lib_monotone].
  exists m. split; auto.
  apply finalized_never_undone; auto.
  destruct (main_get_some_lt _ _ _ G). unfold lib_no, nd1 in *. lia.
Qed.

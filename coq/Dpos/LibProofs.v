From Coq Require Import ZArith List Bool Lia.
From Verif Require Import Dpos.Lib.
Import ListNotations.
Open Scope Z_scope.

(** * Field preservation lemmas *)
Lemma add_confirm_info_lib : forall ls b, ls_lib (add_confirm_info ls b) = ls_lib ls.
Proof.
  intros. unfold add_confirm_info.
  destruct (k_no b =? 0); auto.
  cbv zeta.
  destruct (pmem _ _); destruct (k_bp b =? _); reflexivity.
Qed.

Lemma get_pre_lib_lib : forall ls, ls_lib (fst (get_pre_lib ls)) = ls_lib ls.
Proof.
  intros. unfold get_pre_lib.
  destruct (rev (ls_confirms ls)) eqn:E; auto.
  destruct (scan _ _ _) as [rl' r]. destruct r; reflexivity.
Qed.

Lemma update_lib_field : forall ls, ls_lib (fst (update ls)) = ls_lib ls.
Proof.
  intros. unfold update.
  pose proof (get_pre_lib_lib ls).
  destruct (get_pre_lib ls) as [ls' [[bp pl]|]]; simpl in *; auto.
Qed.

Lemma gc_lib : forall ls bps, ls_lib (gc ls bps) = ls_lib ls.
Proof. reflexivity. Qed.

Lemma load_lib : forall g ls e, ls_lib (load g ls e) = ls_lib ls.
Proof.
  intros. unfold load. cbv zeta.
  destruct (e =? 0); auto.
  destruct (load_plib_status _ _ _ _ _); auto.
  destruct (ls_confirms l); reflexivity.
Qed.

Lemma rollback_lib : forall g ls t, ls_lib (rollback_status_to g ls t) = ls_lib ls.
Proof. intros. unfold rollback_status_to. rewrite load_lib. reflexivity. Qed.

Lemma update_lib_mono : forall ls l, b_no (ls_lib ls) <= b_no (ls_lib (update_lib ls l)).
Proof.
  intros. unfold update_lib. destruct (b_no l <? b_no (ls_lib ls)) eqn:E; simpl; lia.
Qed.

Lemma status_update_lib_mono : forall g bps size s blk,
  b_no (ls_lib (st_ls s)) <= b_no (ls_lib (st_ls (status_update g bps size s blk))).
Proof.
  intros. unfold status_update. simpl.
  destruct (k_id (st_best s) =? k_prev blk).
  - pose proof (update_lib_field (add_confirm_info (st_ls s) blk)) as H.
    rewrite add_confirm_info_lib in H.
    destruct (update (add_confirm_info (st_ls s) blk)) as [ls2 [l|]]; simpl in *.
    + pose proof (update_lib_mono ls2 l). rewrite H in H0. exact H0.
    + rewrite H. lia.
  - rewrite rollback_lib. lia.
Qed.

Lemma fold_status_update_lib_mono : forall g bps size l s,
  b_no (ls_lib (st_ls s)) <= b_no (ls_lib (st_ls (fold_left (status_update g bps size) l s))).
Proof.
  induction l; simpl; intros. lia.
  eapply Z.le_trans. 2: apply IHl. apply status_update_lib_mono.
Qed.

Definition lib_no (nd : node) : Z := b_no (ls_lib (st_ls (nd_st nd))).

Ltac deliver_cases nd blk :=
  unfold deliver;
  destruct (find_block (nd_store nd) (k_id blk)); [cbn [fst snd] |];
  [| destruct (negb (verify_lib_rule (st_ls (nd_st nd)) blk)); [cbn [fst snd] |];
   [| destruct (find_block (nd_store nd) (k_prev blk)) as [parent|]; [| cbn [fst snd]];
    [ destruct (negb (k_no parent + 1 =? k_no blk)); [cbn [fst snd] |];
      [| destruct (k_prev blk =? k_id (st_best (nd_st nd))); [cbn [fst snd] |];
       [| destruct (k_no blk <=? k_no (st_best (nd_st nd))); [cbn [fst snd] |];
        [| destruct (gather (length (blk :: nd_store nd)) (nd_main nd) (blk :: nd_store nd) blk [])
             as [[root new_blocks]|]; [| cbn [fst snd]];
         [ destruct (negb (need_reorganization (st_ls (nd_st nd)) (k_no root))) eqn:Eveto; cbn [fst snd] | ]]]] | ]]].

Lemma deliver_lib_mono : forall nd blk, lib_no nd <= lib_no (fst (deliver nd blk)).
Proof.
  intros. unfold lib_no. deliver_cases nd blk; cbn [nd_st]; try lia.
  - apply status_update_lib_mono.
  - eapply Z.le_trans. 2: apply fold_status_update_lib_mono. apply status_update_lib_mono.
Qed.

(** The saved status carries the current LIB. *)
Definition sv_inv (nd : node) : Prop :=
  match nd_saved nd with
  | Some (p, l, lpb) => l = ls_lib (st_ls (nd_st nd))
  | None => ls_lib (st_ls (nd_st nd)) = empty_info
  end.

Lemma sv_inv_init : forall size self, sv_inv (init_node size self).
Proof. reflexivity. Qed.

Lemma restart_lib : forall nd, sv_inv nd -> ls_lib (st_ls (nd_st (restart nd))) = ls_lib (st_ls (nd_st nd)).
Proof.
  intros nd H. unfold restart, restore, sv_inv in *. simpl.
  destruct (nd_saved nd) as [[[p l] lpb]|]; simpl.
  - rewrite load_lib. simpl. auto.
  - symmetry. exact H.
Qed.

Lemma sv_inv_deliver : forall nd blk, sv_inv nd -> sv_inv (fst (deliver nd blk)).
Proof.
  intros nd blk H. deliver_cases nd blk; auto; reflexivity.
Qed.

Lemma sv_inv_restart : forall nd, sv_inv nd -> sv_inv (restart nd).
Proof.
  intros nd H. pose proof (restart_lib nd H) as R.
  unfold sv_inv in *. cbn [nd_saved restart] in *.
  destruct (nd_saved nd) as [[[p l] lpb]|]; rewrite R; auto.
Qed.

Lemma sv_inv_step : forall nd e, sv_inv nd -> sv_inv (step nd e).
Proof. destruct e; simpl; [apply sv_inv_deliver | apply sv_inv_restart]. Qed.

Lemma step_lib_mono : forall nd e, sv_inv nd -> lib_no nd <= lib_no (step nd e).
Proof.
  destruct e; simpl; intros.
  - apply deliver_lib_mono.
  - unfold lib_no. rewrite restart_lib by assumption. lia.
Qed.

(** [lib_monotone]: for every producer count, every history of deliveries (any blocks,
    any Confirms, forks, reorganisations) and restarts at any point, the LIB height
    reported after a prefix of the history is <= the one reported after the whole. *)
Theorem lib_monotone : forall size self evs1 evs2,
  lib_no (run (init_node size self) evs1) <= lib_no (run (init_node size self) (evs1 ++ evs2)).
Proof.
  intros. unfold run. rewrite fold_left_app.
  assert (I : sv_inv (fold_left step evs1 (init_node size self))).
  { generalize (sv_inv_init size self). generalize (init_node size self).
    induction evs1; simpl; intros; auto. apply IHevs1. apply sv_inv_step; auto. }
  revert I. generalize (fold_left step evs1 (init_node size self)).
  induction evs2; simpl; intros. lia.
  eapply Z.le_trans. apply (step_lib_mono n a I). apply IHevs2. apply sv_inv_step; auto.
Qed.

Definition main_at (nd : node) (h : Z) : option block := main_get (nd_main nd) h.

(** A block numbered at or below the LIB changes nothing (VerifyTimestamp's rule). *)
Theorem block_le_lib_refused : forall nd blk,
  k_no blk <= lib_no nd -> fst (deliver nd blk) = nd.
Proof.
  intros nd blk H. unfold deliver, lib_no in *.
  destruct (find_block (nd_store nd) (k_id blk)); auto.
  unfold verify_lib_rule. rewrite negb_involutive.
  replace (k_no blk <=? b_no (ls_lib (st_ls (nd_st nd)))) with true; auto.
  symmetry. apply Z.leb_le. exact H.
Qed.

Lemma nth_error_firstn_lt : forall (A : Type) (l : list A) n i,
  (i < n)%nat -> nth_error (firstn n l) i = nth_error l i.
Proof.
  induction l; intros; destruct n, i; simpl; auto; try lia. apply IHl. lia.
Qed.

Lemma main_get_app : forall m x h b, main_get m h = Some b -> main_get (m ++ x) h = Some b.
Proof.
  unfold main_get. intros. destruct (h <? 0); try discriminate.
  rewrite nth_error_app1; auto. apply nth_error_Some. congruence.
Qed.

Lemma main_get_firstn_app : forall m x r h b,
  0 <= h <= r -> main_get m h = Some b -> main_get (firstn (Z.to_nat r + 1) m ++ x) h = Some b.
Proof.
  unfold main_get. intros m x r h b H N. destruct (h <? 0) eqn:E; auto.
  assert (Hn : (Z.to_nat h <= Z.to_nat r)%nat) by (apply Z2Nat.inj_le; lia).
  assert (L : (Z.to_nat h < length m)%nat) by (apply nth_error_Some; congruence).
  rewrite nth_error_app1.
  + rewrite nth_error_firstn_lt. exact N. lia.
  + rewrite firstn_length. apply Nat.min_glb_lt; lia.
Qed.

(** A reorganisation keeps every main-chain block at or below the LIB; a reorganisation
    whose fork point is below the LIB is vetoed and changes neither chain nor status. *)
Theorem reorg_below_lib_refused : forall nd blk nd' o,
  deliver nd blk = (nd', o) ->
  (forall h, 0 <= h <= lib_no nd -> main_at nd' h = main_at nd h \/ (main_at nd h = None)) /\
  (o = OVeto -> nd_main nd' = nd_main nd /\ nd_st nd' = nd_st nd /\ nd_saved nd' = nd_saved nd).
Proof.
  intros nd blk nd' o. unfold main_at, lib_no. deliver_cases nd blk; intros E; inversion E; subst; clear E;
    cbn [nd_main nd_st nd_saved]; (split; [intros h Hh | intros Ho; try discriminate; auto]); auto.
  - destruct (main_get (nd_main nd) h) eqn:M; auto. left. apply main_get_app; auto.
  - destruct (main_get (nd_main nd) h) eqn:M; auto. left. apply main_get_firstn_app; auto.
    unfold need_reorganization in Eveto. apply negb_false_iff, Z.leb_le in Eveto. lia.
Qed.

Lemma step_main_stable : forall nd e h b,
  0 <= h <= lib_no nd -> main_at nd h = Some b -> main_at (step nd e) h = Some b.
Proof.
  intros nd e h b Hh M. destruct e; simpl.
  - destruct (deliver nd b0) as [nd' o] eqn:D.
    destruct (reorg_below_lib_refused _ _ _ _ D) as [P _]. simpl.
    destruct (P h Hh) as [Q|Q]; congruence.
  - exact M.
Qed.

(** [finalized_never_undone]: a main-chain block at or below a LIB the node has reported
    stays at its height on the node's main chain forever (any further deliveries, forks,
    reorganisation attempts and restarts). *)
Theorem finalized_never_undone : forall size self evs1 evs2 h b,
  0 <= h <= lib_no (run (init_node size self) evs1) ->
  main_at (run (init_node size self) evs1) h = Some b ->
  main_at (run (init_node size self) (evs1 ++ evs2)) h = Some b.
Proof.
  intros size self evs1 evs2 h b. unfold run. rewrite fold_left_app.
  assert (I : sv_inv (fold_left step evs1 (init_node size self))).
  { generalize (sv_inv_init size self). generalize (init_node size self).
    induction evs1; simpl; intros; auto. apply IHevs1. apply sv_inv_step; auto. }
  revert I. generalize (fold_left step evs1 (init_node size self)).
  induction evs2; simpl; intros; auto.
  apply IHevs2.
  - apply sv_inv_step; auto.
  - pose proof (step_lib_mono n a I). lia.
  - apply step_main_stable; auto.
Qed.

(** Quorum facts: support of a computed LIB, confirmation counting, quorum intersection,
    disjointness of honest confirmation windows. *)
From Coq Require Import ZArith List Bool Lia Permutation Sorting.Sorted.
From Verif Require Import Dpos.Lib.
Import ListNotations.
Open Scope Z_scope.

(** * calc_lib: at least n' - (n'-1)/3 proposals are >= the computed LIB *)
Definition no_le (a b : binfo) : Prop := b_no a <= b_no b.

Lemma bi_le_no : forall a b, bi_le a b = true -> no_le a b.
Proof.
  unfold bi_le, no_le. intros a b H. apply orb_true_iff in H. destruct H as [H|H].
  - apply Z.ltb_lt in H. lia.
  - apply andb_true_iff in H. destruct H as [H _]. apply Z.eqb_eq in H. lia.
Qed.
Lemma bi_le_false : forall a b, bi_le a b = false -> no_le b a.
Proof.
  unfold bi_le, no_le. intros a b H. apply orb_false_iff in H. destruct H as [H1 H2].
  apply Z.ltb_ge in H1. exact H1.
Qed.

Lemma insert_bi_perm : forall x l, Permutation (insert_bi x l) (x :: l).
Proof.
  induction l; simpl; auto. destruct (bi_le x a); auto.
  eapply perm_trans. apply perm_skip. apply IHl. apply perm_swap.
Qed.
Lemma sort_bi_perm : forall l, Permutation (sort_bi l) l.
Proof.
  induction l; simpl; auto. eapply perm_trans. apply insert_bi_perm. auto.
Qed.

Lemma insert_bi_sorted : forall x l, StronglySorted no_le l -> StronglySorted no_le (insert_bi x l).
Proof.
  induction l; simpl; intros H.
  - constructor; auto.
  - inversion H; subst. destruct (bi_le x a) eqn:E.
    + constructor; auto. constructor. apply bi_le_no; auto.
      eapply Forall_impl; [|exact H3]. intros b Hb. apply bi_le_no in E. unfold no_le in *. lia.
    + constructor; auto.
      assert (P : Permutation (insert_bi x l) (x :: l)) by apply insert_bi_perm.
      eapply Permutation_Forall. apply Permutation_sym; exact P.
      constructor; auto. apply bi_le_false; auto.
Qed.
Lemma sort_bi_sorted : forall l, StronglySorted no_le (sort_bi l).
Proof. induction l; simpl. constructor. apply insert_bi_sorted; auto. Qed.

Fixpoint count_ge (v : Z) (l : list binfo) : nat :=
  match l with [] => O | x :: tl => ((if (v <=? b_no x)%Z then 1 else 0) + count_ge v tl)%nat end.

Lemma count_ge_perm : forall v l l', Permutation l l' -> count_ge v l = count_ge v l'.
Proof. induction 1; simpl; lia. Qed.

Lemma count_ge_all : forall v l, Forall (fun x => v <= b_no x) l -> count_ge v l = length l.
Proof.
  induction l; simpl; intros; auto. inversion H; subst.
  replace (v <=? b_no a) with true by (symmetry; apply Z.leb_le; auto). rewrite IHl; auto.
Qed.

Lemma sorted_count : forall l k x, StronglySorted no_le l -> nth_error l k = Some x ->
  (length l - k <= count_ge (b_no x) l)%nat.
Proof.
  induction l; intros k x S H; destruct k; simpl in *; try discriminate.
  - inversion H; subst. inversion S; subst.
    rewrite Z.leb_refl. rewrite count_ge_all; auto.
  - inversion S; subst. pose proof (IHl _ _ H2 H). lia.
Qed.

(** [lib_supported_by_two_thirds]: whenever calcLIB returns l from a proposal map with n'
    entries, at least n' - (n'-1)/3 of the entries propose a block numbered >= l's. *)
Theorem lib_supported_by_two_thirds : forall p l,
  calc_lib p = Some l ->
  let n' := Z.of_nat (length p) in
  n' - (n' - 1) / 3 <= Z.of_nat (count_ge (b_no l) (plibs p)).
Proof.
  intros p l H n'. destruct p as [|e tl]; [discriminate H|].
  unfold calc_lib in H. cbv iota in H.
  assert (Hn : 0 < n') by (unfold n'; simpl length; lia).
  remember (e :: tl) as p eqn:Ep. clear Ep e tl.
  pose proof (sorted_count _ _ _ (sort_bi_sorted (plibs p)) H) as C.
  rewrite (count_ge_perm _ _ _ (sort_bi_perm (plibs p))) in C.
  rewrite (Permutation_length (sort_bi_perm (plibs p))) in C.
  unfold plibs in C at 1. rewrite map_length in C. unfold lib_index in C. fold n' in C.
  assert (0 <= (n' - 1) / 3) by (apply Z.div_pos; lia).
  assert (Z.of_nat (Z.to_nat ((n' - 1) / 3)) = (n' - 1) / 3) by (apply Z2Nat.id; auto).
  unfold n' in *. lia.
Qed.

Example lib_supported_example :
  calc_lib [(0, mkPL (mkB 5 5 1) genesis_info); (1, mkPL (mkB 7 7 1) genesis_info);
            (2, mkPL (mkB 6 6 1) genesis_info); (3, mkPL genesis_info genesis_info)] = Some (mkB 5 5 1).
Proof. reflexivity. Qed.

(** * Confirmation counting (per Update step) *)
(** One backward scan changes an element's confirmsLeft by at most one decrement, and only
    when the block's window contains the element. *)
Lemma scan_step : forall mn mx rl rl' r, scan mn mx rl = (rl', r) ->
  length rl' = length rl /\
  forall i c c', nth_error rl i = Some c -> nth_error rl' i = Some c' ->
    c_bi c' = c_bi c /\ c_bp c' = c_bp c /\
    (c_left c' = c_left c \/ (in_window mn mx c = true /\ c_left c' = u16 (c_left c - 1))).
Proof.
  induction rl as [|a tl]; simpl; intros rl' r H.
  - inversion H; subst. split; auto. intros i c c' H1. destruct i; discriminate.
  - destruct (c_left (if in_window mn mx a then dec_left a else a) =? 0) eqn:E.
    + inversion H; subst. split; auto. intros i c c' H1 H2. destruct i; simpl in *.
      * inversion H1; inversion H2; subst. destruct (in_window mn mx c) eqn:W; simpl; auto.
      * rewrite H1 in H2. inversion H2; subst. auto.
    + destruct (scan mn mx tl) as [tl' r'] eqn:S. inversion H; subst.
      destruct (IHtl _ _ eq_refl) as [L F]. split. simpl; lia.
      intros i c c' H1 H2. destruct i; simpl in *.
      * inversion H1; inversion H2; subst. destruct (in_window mn mx c) eqn:W; simpl; auto.
      * eapply F; eauto.
Qed.

(** The scan reports a block as confirmed only when its confirmsLeft is 0. *)
Lemma scan_confirmed_zero : forall mn mx rl rl' c, scan mn mx rl = (rl', Some c) ->
  exists e, In e rl' /\ c_bi e = c /\ c_left e = 0.
Proof.
  induction rl as [|a tl]; simpl; intros rl' c H; try discriminate.
  destruct (c_left (if in_window mn mx a then dec_left a else a) =? 0) eqn:E.
  - inversion H; subst. eexists. split. left; reflexivity. split; auto. apply Z.eqb_eq; auto.
  - destruct (scan mn mx tl) as [tl' r'] eqn:S. inversion H; subst.
    destruct (IHtl _ _ eq_refl) as [e [I [B L]]]. exists e. split; auto. right; auto.
Qed.

(** An element pushed with confirmsLeft = cr (0 < cr < 2^16) that shows 0 after k single
    decrements has been decremented at least cr times: k >= cr. *)
Fixpoint dec_n (k : nat) (x : Z) : Z := match k with O => x | S k' => u16 (dec_n k' x - 1) end.
Lemma dec_n_mod : forall k x, 0 <= x < 65536 -> dec_n k x = (x - Z.of_nat k) mod 65536.
Proof.
  induction k; intros x Hx.
  - simpl. rewrite Z.sub_0_r. symmetry. apply Z.mod_small; auto.
  - simpl dec_n. rewrite IHk by auto. unfold u16.
    rewrite Zminus_mod_idemp_l. f_equal. lia.
Qed.
Theorem left_zero_needs_cr_decrements : forall cr k,
  0 < cr < 65536 -> dec_n k cr = 0 -> cr <= Z.of_nat k.
Proof.
  intros cr k Hc H. rewrite dec_n_mod in H by lia.
  destruct (Z_le_gt_dec cr (Z.of_nat k)); auto. exfalso.
  rewrite Z.mod_small in H by lia. lia.
Qed.

(** confirmsRequired is more than two thirds of the producer count. *)
Theorem confirms_required_two_thirds : forall n, 0 < n < 21845 ->
  confirms_required n = 2 * n / 3 + 1 /\ 3 * confirms_required n > 2 * n.
Proof.
  intros n Hn. unfold confirms_required, u16.
  rewrite (Z.mod_small (n * 2)) by lia.
  assert (0 <= n * 2 / 3 < 65535).
  { split. apply Z.div_pos; lia. apply Z.div_lt_upper_bound; lia. }
  rewrite Z.mod_small by lia. replace (n * 2) with (2 * n) by lia.
  split; auto. pose proof (Z.div_mod (2 * n) 3 ltac:(lia)). pose proof (Z.mod_pos_bound (2 * n) 3 ltac:(lia)). lia.
Qed.

(** * Honest windows are disjoint *)
(** Two blocks of one correct producer: the later one was made with lpbNo >= the earlier
    block's number (blockfactory keeps the last number it produced), so the windows
    (lpb, no] do not overlap: a correct producer confirms a height at most once. *)
Definition window (no confirms h : Z) : Prop := no - confirms + 1 <= h <= no.
Theorem honest_windows_disjoint : forall no1 lpb1 no2 lpb2 h,
  0 <= lpb1 < no1 -> no1 <= lpb2 < no2 ->
  window no1 (honest_confirms no1 lpb1) h -> window no2 (honest_confirms no2 lpb2) h -> False.
Proof. unfold window, honest_confirms. intros. lia. Qed.

(** * Quorum intersection *)
Lemma exists_not_in : forall (l m : list Z), NoDup l -> (length m < length l)%nat ->
  exists x, In x l /\ ~ In x m.
Proof.
  intros l m N L.
  destruct (forallb (fun x => zmem x m) l) eqn:F.
  - exfalso. assert (I : incl l m).
    { intros x Hx. rewrite forallb_forall in F. specialize (F x Hx). unfold zmem in F.
      apply existsb_exists in F. destruct F as [y [Hy E]]. apply Z.eqb_eq in E. subst; auto. }
    pose proof (NoDup_incl_length N I). lia.
  - assert (E : existsb (fun x => negb (zmem x m)) l = true).
    { clear -F. induction l; simpl in *; try discriminate.
      destruct (zmem a m); simpl in *; auto. }
    apply existsb_exists in E. destruct E as [x [Hx Hn]]. exists x. split; auto.
    intro Hm. apply negb_true_iff in Hn. unfold zmem in Hn.
    assert (existsb (Z.eqb x) m = true) by (apply existsb_exists; exists x; split; auto; apply Z.eqb_refl).
    congruence.
Qed.

Lemma NoDup_app_local : forall (l1 l2 : list Z), NoDup l1 -> NoDup l2 ->
  (forall x, In x l1 -> ~ In x l2) -> NoDup (l1 ++ l2).
Proof.
  induction l1; simpl; intros; auto. inversion H; subst. constructor.
  - intro Q. apply in_app_or in Q. destruct Q; auto. apply (H1 a); auto.
  - apply IHl1; auto.
Qed.

Lemma inter_length : forall (u q1 q2 : list Z), NoDup q1 -> NoDup q2 -> incl q1 u -> incl q2 u -> NoDup u ->
  (length q1 + length q2 <= length u + length (filter (fun x => zmem x q2) q1))%nat.
Proof.
  intros u q1 q2 N1 N2 I1 I2 Nu.
  set (D := filter (fun x => negb (zmem x q2)) q1).
  assert (LD : (length q1 = length (filter (fun x => zmem x q2) q1) + length D)%nat).
  { unfold D. clear. induction q1; simpl; auto. destruct (zmem a q2); simpl; lia. }
  assert (ND : NoDup (D ++ q2)).
  { apply NoDup_app_local; auto.
    - unfold D. apply NoDup_filter; auto.
    - intros x Hx Hq. unfold D in Hx. apply filter_In in Hx. destruct Hx as [_ Hx].
      apply negb_true_iff in Hx. unfold zmem in Hx.
      assert (existsb (Z.eqb x) q2 = true) by (apply existsb_exists; exists x; split; auto; apply Z.eqb_refl).
      congruence. }
  assert (H : incl (D ++ q2) u).
  { intros x Hx. apply in_app_or in Hx. destruct Hx as [Hx|Hx]; auto.
    unfold D in Hx. apply filter_In in Hx. destruct Hx. auto. }
  pose proof (NoDup_incl_length ND H) as Q. rewrite app_length in Q. lia.
Qed.

(** [quorum_intersection]: among n producers of which f < n/3 are Byzantine, two sets of
    2n/3+1 distinct producers share a producer that is not Byzantine. *)
Theorem quorum_intersection : forall (u byz q1 q2 : list Z),
  NoDup u -> NoDup q1 -> NoDup q2 -> incl q1 u -> incl q2 u ->
  let n := Z.of_nat (length u) in
  3 * Z.of_nat (length byz) < n ->
  2 * n / 3 + 1 <= Z.of_nat (length q1) -> 2 * n / 3 + 1 <= Z.of_nat (length q2) ->
  exists x, In x q1 /\ In x q2 /\ ~ In x byz.
Proof.
  intros u byz q1 q2 Nu N1 N2 I1 I2 n Hf H1 H2.
  pose proof (inter_length u q1 q2 N1 N2 I1 I2 Nu) as L.
  set (I := filter (fun x => zmem x q2) q1) in *.
  assert (NI : NoDup I) by (apply NoDup_filter; auto).
  assert (LI : (length byz < length I)%nat).
  { pose proof (Z.div_mod (2 * n) 3 ltac:(lia)). pose proof (Z.mod_pos_bound (2 * n) 3 ltac:(lia)).
    unfold n in *. lia. }
  destruct (exists_not_in I byz NI LI) as [x [Hx Hb]].
  unfold I in Hx. apply filter_In in Hx. destruct Hx as [Hq1 Hq2].
  exists x. repeat split; auto.
  unfold zmem in Hq2. apply existsb_exists in Hq2. destruct Hq2 as [y [Hy E]].
  apply Z.eqb_eq in E. subst; auto.
Qed.

Example quorum_intersection_example :
  exists x, In x [0;1;2] /\ In x [1;2;3] /\ ~ In x [2].
Proof.
  apply (quorum_intersection [0;1;2;3] [2] [0;1;2] [1;2;3]).
  1-3: repeat constructor; simpl; intuition lia.
  1-2: intros x Hx; simpl in *; intuition.
  all: vm_compute; congruence.
Qed.

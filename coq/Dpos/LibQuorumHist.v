(** Confirmation counting over histories: [plib_has_quorum].
    [Qr]: every element of the confirms list has been decremented at most once per newer-or-equal
    element whose confirmation window covers it; preserved by push+scan, gc, rebuild (load),
    rollback, rollforward and restart in every reachable node. *)
From Coq Require Import ZArith List Bool Lia.
From Verif Require Import Dpos.Lib Dpos.LibProofs Dpos.LibOnMain Dpos.LibQuorum.
Import ListNotations.
Open Scope Z_scope.


(** * Confirmation counting over histories *)
(** [covers x e]: the confirmation window of block x contains block e's number. *)
Definition covers (x e : cinfo) : bool := in_window (win_min x) (win_max x) e.
Fixpoint cnt (pre : list cinfo) (e : cinfo) : nat :=
  match pre with [] => O | x :: tl => ((if covers x e then 1 else 0) + cnt tl e)%nat end.

(** Invariant of the confirms list, back to front: the element at position i (i elements
    are newer) has been decremented k times from cr0, and k is at most the number of
    elements at positions <= i (itself and newer ones) whose window covers it. *)
Definition Qr (cr0 : Z) (rl : list cinfo) : Prop :=
  forall i e, nth_error rl i = Some e ->
    exists k, c_left e = dec_n k cr0 /\ (k <= cnt (firstn (S i) rl) e)%nat.

Definition step_rel (mn mx : Z) (c c' : cinfo) : Prop :=
  c_bi c' = c_bi c /\
  (c_left c' = c_left c \/ (in_window mn mx c = true /\ c_left c' = u16 (c_left c - 1))).

Lemma scan_rel : forall mn mx rl rl' r, scan mn mx rl = (rl', r) -> Forall2 (step_rel mn mx) rl rl'.
Proof.
  induction rl as [|a tl]; simpl; intros rl' r H.
  - inversion H; subst. constructor.
  - assert (S0 : step_rel mn mx a (if in_window mn mx a then dec_left a else a)).
    { unfold step_rel. destruct (in_window mn mx a) eqn:W; simpl; auto. }
    destruct (c_left (if in_window mn mx a then dec_left a else a) =? 0).
    + inversion H; subst. constructor; auto.
      clear. induction tl; constructor; auto. unfold step_rel; auto.
    + destruct (scan mn mx tl) as [tl' r'] eqn:S. inversion H; subst. constructor; auto.
      eapply IHtl; eauto.
Qed.

Lemma covers_bi : forall x x' e e', c_bi x' = c_bi x -> c_bi e' = c_bi e -> covers x' e' = covers x e.
Proof. unfold covers, in_window, win_min, win_max. intros x x' e e' H1 H2. rewrite H1, H2. reflexivity. Qed.

Lemma cnt_rel : forall mn mx l l' e e', Forall2 (step_rel mn mx) l l' -> c_bi e' = c_bi e ->
  cnt l' e' = cnt l e.
Proof.
  induction 1; simpl; intros; auto. destruct H as [Hb _].
  rewrite (covers_bi x y e e') by auto. rewrite IHForall2; auto.
Qed.

Lemma Forall2_firstn : forall (A B : Type) (R : A -> B -> Prop) n l l',
  Forall2 R l l' -> Forall2 R (firstn n l) (firstn n l').
Proof. induction n; intros; simpl. constructor. inversion H; subst; constructor; auto. Qed.

Lemma Forall2_nth_r : forall (A B : Type) (R : A -> B -> Prop) l l' i y,
  Forall2 R l l' -> nth_error l' i = Some y -> exists x, nth_error l i = Some x /\ R x y.
Proof.
  intros A B R l l' i y H. revert i. induction H; intros i Hy; destruct i; simpl in *; try discriminate.
  - inversion Hy; subst. eauto.
  - eauto.
Qed.

(** pushing a block and scanning with its window preserves the invariant *)
Lemma push_scan_Qr : forall cr0 rl bi bp rl' r,
  Qr cr0 rl ->
  let b := mkC bi bp cr0 in
  scan (win_min b) (win_max b) (b :: rl) = (rl', r) -> Qr cr0 rl'.
Proof.
  intros cr0 rl bi bp rl' r Q b Sc.
  pose proof (scan_rel _ _ _ _ _ Sc) as F.
  intros i e' He'.
  destruct (Forall2_nth_r _ _ _ _ _ _ _ F He') as [e [He [Hbi Hl]]].
  assert (Hc : cnt (firstn (S i) rl') e' = cnt (firstn (S i) (b :: rl)) e).
  { apply (cnt_rel (win_min b) (win_max b)); [apply Forall2_firstn; exact F | exact Hbi]. }
  rewrite Hc. destruct i as [|j].
  - simpl in He. inversion He; subst e. simpl firstn. cbn [cnt].
    destruct Hl as [Hl|[Hw Hl]].
    + exists O. split; auto. destruct (covers b b); lia.
    + exists 1%nat. split. simpl. rewrite Hl. reflexivity.
      fold (covers b b) in Hw. unfold covers. unfold covers in Hw. rewrite Hw. lia.
  - simpl in He. destruct (Q j e He) as [k [Hk Hle]].
    change (firstn (S (S j)) (b :: rl)) with (b :: firstn (S j) rl). cbn [cnt].
    destruct Hl as [Hl|[Hw Hl]].
    + exists k. split. congruence. destruct (covers b e); lia.
    + exists (S k). split. simpl. rewrite Hl, Hk. reflexivity.
      unfold covers at 1. rewrite Hw. lia.
Qed.

Lemma nth_error_firstn_lt_local : forall (A : Type) (l : list A) n i,
  (i < n)%nat -> nth_error (firstn n l) i = nth_error l i.
Proof. induction l; intros; destruct n, i; simpl; auto; try lia. apply IHl. lia. Qed.

Lemma firstn_Qr : forall cr0 m rl, Qr cr0 rl -> Qr cr0 (firstn m rl).
Proof.
  intros cr0 m rl Q i e H.
  assert (L : (i < m)%nat).
  { assert ((i < length (firstn m rl))%nat) by (apply nth_error_Some; congruence).
    rewrite firstn_length in H0. lia. }
  rewrite nth_error_firstn_lt_local in H by auto.
  destruct (Q i e H) as [k [A B]]. exists k. split; auto.
  rewrite firstn_firstn. rewrite Nat.min_l by lia. auto.
Qed.


Definition QL (cr0 : Z) (ls : lib_status) : Prop := ls_cr ls = cr0 /\ Qr cr0 (rev (ls_confirms ls)).

Lemma Qr_nil : forall cr0, Qr cr0 [].
Proof. intros cr0 i e H. destruct i; discriminate. Qed.

Lemma rev_skipn_firstn : forall (A : Type) j (l : list A), rev (skipn j l) = firstn (length l - j) (rev l).
Proof.
  induction j; intros l.
  - simpl. rewrite Nat.sub_0_r. rewrite <- rev_length. symmetry. apply firstn_all.
  - destruct l as [|a l']; simpl; auto.
    rewrite IHj. rewrite firstn_app. rewrite rev_length.
    replace (length l' - j - length l')%nat with O by lia. simpl. rewrite app_nil_r. reflexivity.
Qed.

Lemma Qr_skipn : forall cr0 j l, Qr cr0 (rev l) -> Qr cr0 (rev (skipn j l)).
Proof. intros. rewrite rev_skipn_firstn. apply firstn_Qr; auto. Qed.

Lemma drop_le_lib_skipn : forall n l, exists j, drop_le_lib n l = skipn j l.
Proof.
  induction l; simpl. exists O; auto.
  destruct (n <? b_no (c_bi a)). exists O; auto.
  destruct IHl as [j E]. exists (S j). auto.
Qed.

Lemma add_confirm_info_fields : forall ls b, (k_no b =? 0) = false ->
  ls_confirms (add_confirm_info ls b) = ls_confirms ls ++ [mkC (info_of b) (k_bp b) (ls_cr ls)] /\
  ls_cr (add_confirm_info ls b) = ls_cr ls.
Proof.
  intros ls b H. unfold add_confirm_info. rewrite H. cbv zeta.
  destruct (pmem _ _); destruct (k_bp b =? _); simpl; auto.
Qed.

Lemma upd_add_QL : forall cr0 ls b, QL cr0 ls -> k_no b <> 0 ->
  QL cr0 (fst (update (add_confirm_info ls b))).
Proof.
  intros cr0 ls b [Hcr Q] Hn.
  assert (E : (k_no b =? 0) = false) by (apply Z.eqb_neq; auto).
  destruct (add_confirm_info_fields ls b E) as [Fc Fr].
  set (ls1 := add_confirm_info ls b) in *.
  unfold update, get_pre_lib. rewrite Fc. rewrite rev_unit.
  rewrite Hcr.
  set (ci := mkC (info_of b) (k_bp b) cr0).
  destruct (scan (win_min ci) (win_max ci) (ci :: rev (ls_confirms ls))) as [rl' r] eqn:S.
  pose proof (push_scan_Qr cr0 (rev (ls_confirms ls)) (info_of b) (k_bp b) rl' r Q S) as Q'.
  destruct r as [c|]; simpl; unfold QL; simpl; rewrite rev_involutive; split; auto; congruence.
Qed.

Lemma update_lib_QL : forall cr0 ls l, QL cr0 ls -> QL cr0 (update_lib ls l).
Proof. intros cr0 ls l H. unfold update_lib. destruct (_ <? _); auto. Qed.

Lemma gc_QL : forall cr0 ls bps, QL cr0 ls -> QL cr0 (gc ls bps).
Proof.
  intros cr0 ls bps [Hcr Q]. unfold gc, QL. simpl. split; auto.
  unfold trim_front. destruct (drop_le_lib_skipn (b_no (ls_lib ls)) (ls_confirms ls)) as [j E].
  rewrite E. apply Qr_skipn. apply Qr_skipn. auto.
Qed.

Lemma set_cr_QL : forall cr0 ls, QL cr0 ls -> QL cr0 (set_cr ls cr0).
Proof. intros cr0 ls [a b]. unfold QL; simpl; auto. Qed.

Section LoadQ.
  Variable g : Z -> option block.
  Hypothesis g_height : forall i b, g i = Some b -> k_no b = i.

  Lemma replay_QL : forall cr0 fuel i pls r, QL cr0 pls -> 1 <= i ->
    replay g fuel i pls = Some r -> QL cr0 r.
  Proof.
    induction fuel; simpl; intros i pls r Q Hi H.
    - inversion H; subst; auto.
    - destruct (g i) as [b|] eqn:G; try discriminate.
      apply IHfuel in H; auto; try lia.
      apply upd_add_QL; auto. rewrite (g_height _ _ G). lia.
  Qed.

  Lemma load_QL : forall cr0 ls e, ls_cr ls = cr0 -> QL cr0 (load g ls e).
  Proof.
    intros cr0 ls e Hcr. unfold load. cbv zeta.
    assert (Q0 : QL cr0 (set_confirms ls [])) by (unfold QL; simpl; split; auto; apply Qr_nil).
    destruct (e =? 0); auto.
    destruct (load_plib_status g _ _ _ _) as [tmp|] eqn:L; auto.
    assert (T : QL cr0 tmp).
    { unfold load_plib_status in L.
      destruct (_ =? e) eqn:E1; try discriminate. destruct (_ >? e) eqn:E2; try discriminate.
      eapply replay_QL. 3: exact L.
      - unfold QL, new_lib_status_cr; simpl. split; auto. apply Qr_nil.
      - unfold beg_reco_block_no. simpl.
        match goal with |- 1 <= (if ?x =? 0 then 1 else ?x) => destruct (x =? 0) eqn:E3; [lia|] end.
        apply Z.eqb_neq in E3.
        match goal with |- 1 <= (if ?c then ?a else 1) => destruct c eqn:E4; [|lia] end.
        apply Z.gtb_lt in E4. lia. }
    destruct T as [Tc Tq].
    destruct (ls_confirms tmp) eqn:C; unfold QL; simpl; split; auto;
      try apply Qr_nil; try (rewrite <- C; exact Tq).
  Qed.

  Lemma status_update_QL : forall size bps s blk,
    let cr0 := confirms_required size in
    QL cr0 (st_ls s) ->
    (k_no blk <> 0 \/ (k_id (st_best s) =? k_prev blk) = false) ->
    QL cr0 (st_ls (status_update g bps size s blk)).
  Proof.
    intros size bps s blk cr0 Q H. unfold status_update. simpl.
    apply set_cr_QL, gc_QL.
    destruct (k_id (st_best s) =? k_prev blk) eqn:E.
    - destruct H as [H|H]; [|discriminate].
      pose proof (upd_add_QL cr0 _ _ Q H) as U.
      destruct (update (add_confirm_info (st_ls s) blk)) as [ls2 [l|]]; simpl in U; auto.
      apply update_lib_QL; auto.
    - unfold rollback_status_to. apply load_QL. simpl. apply Q.
  Qed.
End LoadQ.


(** facts about a reorganisation, extracted from the invariant proof of LibOnMain *)
Lemma reorg_facts : forall nd blk root nb,
  NI nd -> blk_ok blk -> find_block (nd_store nd) (k_id blk) = None ->
  gather (length (blk :: nd_store nd)) (nd_main nd) (blk :: nd_store nd) blk [] = Some (root, nb) ->
  let store' := blk :: nd_store nd in
  let main_r := firstn (Z.to_nat (k_no root) + 1) (nd_main nd) in
  WF store' main_r root /\ chain_from store' root nb /\
  (k_id (st_best (nd_st nd)) =? k_prev root) = false /\ 0 <= k_no root.
Proof.
  intros nd blk root nb N Hid Fid G store' main_r.
  pose proof (NI_WF _ N) as W.
  assert (U' : uniq store') by (apply uniq_cons; [apply (ni_uniq _ N)|auto]).
  assert (W' : WF store' (nd_main nd) (st_best (nd_st nd))).
  { eapply WF_store_mono; eauto. intros x Hx; right; auto. }
  set (best := st_best (nd_st nd)) in *.
  assert (Ibest : In best (nd_store nd)) by (apply (ni_height _ N _ _ (ni_best _ N))).
  assert (Iblk : In blk store') by (left; reflexivity).
  destruct (gather_spec _ _ store' blk [] _ _ Iblk I G) as [Om [Ir [Cn [pre Epre]]]].
  destruct (on_main_spec _ _ Om) as [m [Gm Em]].
  destruct (wf_height _ _ _ W' _ _ Gm) as [Hm Im].
  assert (m = root) by (eapply uniq_inj; eauto). subst m.
  destruct (main_get_some_lt _ _ _ Gm) as [R0 R1].
  assert (Wr : WF store' main_r root) by (eapply WF_firstn; eauto).
  split; [exact Wr|]. split; [exact Cn|]. split; [|exact R0].
  apply Z.eqb_neq. intro Q.
  destruct (Z.eq_dec (k_no root) 0) as [Z0|Z0].
  - rewrite Z0 in Gm. rewrite (wf_gen _ _ _ W') in Gm. inversion Gm; subst root.
    simpl in Q. pose proof (ni_ids _ N _ Ibest). lia.
  - destruct (wf_link _ _ _ W' (k_no root) root ltac:(lia) Gm) as [q [Gq Eq]].
    destruct (wf_height _ _ _ W' _ _ Gq) as [Hq Iq].
    assert (q = best).
    { eapply uniq_inj. exact U'. auto. right; auto. congruence. }
    subst q. pose proof (wf_len _ _ _ W'). fold best in H. lia.
Qed.

Definition QN (nd : node) : Prop := QL (confirms_required (nd_size nd)) (st_ls (nd_st nd)).

Lemma QN_init : forall size self, QN (init_node size self).
Proof. intros. unfold QN, QL, init_node, new_lib_status; simpl. split; auto. apply Qr_nil. Qed.

Lemma fold_extend_QL : forall g size store nb p s,
  (forall i b, g i = Some b -> k_no b = i) ->
  chain_from store p nb -> 0 <= k_no p ->
  QL (confirms_required size) (st_ls s) ->
  QL (confirms_required size) (st_ls (fold_left (status_update g [] size) nb s)).
Proof.
  induction nb as [|x tl]; intros p s Hg Hc Hp Q; simpl; auto.
  destruct Hc as [H1 [H2 [H3 H4]]].
  apply (IHtl x); auto; try lia.
  apply status_update_QL; auto. left. lia.
Qed.

Definition blk_ok2 (b : block) : Prop := 0 <= k_id b /\ 0 < k_no b.

Lemma deliver_QN : forall nd blk, NI nd -> QN nd -> blk_ok2 blk -> QN (fst (deliver nd blk)).
Proof.
  intros nd blk N Q [Hid Hno]. unfold QN in *.
  assert (Hg : forall i b, main_get (nd_main nd) i = Some b -> k_no b = i).
  { intros i b H. apply (ni_height _ N _ _ H). }
  unfold deliver.
  destruct (find_block (nd_store nd) (k_id blk)) eqn:Fid; [exact Q|].
  destruct (negb (verify_lib_rule (st_ls (nd_st nd)) blk)); [exact Q|].
  destruct (find_block (nd_store nd) (k_prev blk)) as [parent|] eqn:Fp; [|exact Q].
  destruct (negb (k_no parent + 1 =? k_no blk)) eqn:En; [exact Q|].
  destruct (k_prev blk =? k_id (st_best (nd_st nd))) eqn:Eb.
  - cbn [fst nd_st nd_size]. apply status_update_QL; auto. left. lia.
  - destruct (k_no blk <=? k_no (st_best (nd_st nd))); [exact Q|].
    destruct (gather (length (blk :: nd_store nd)) (nd_main nd) (blk :: nd_store nd) blk [])
      as [[root nb]|] eqn:G; [|exact Q].
    destruct (negb (need_reorganization (st_ls (nd_st nd)) (k_no root))); [exact Q|].
    cbn [fst nd_st nd_size].
    destruct (reorg_facts nd blk root nb N Hid Fid G) as [Wr [Cn [Epath R0]]].
    assert (Hgr : forall i b, main_get (firstn (Z.to_nat (k_no root) + 1) (nd_main nd)) i = Some b -> k_no b = i).
    { intros i b H. apply (wf_height _ _ _ Wr _ _ H). }
    eapply fold_extend_QL; eauto.
    apply status_update_QL; auto.
Qed.

Lemma restart_QN : forall nd, NI nd -> QN (restart nd).
Proof.
  intros nd N. unfold QN, restart, restore. cbn [nd_st nd_size].
  destruct (nd_saved nd) as [[[p l] lpb]|]; cbn [st_ls].
  - apply load_QL; auto. intros i b H. apply (ni_height _ N _ _ H).
  - unfold QL, new_lib_status_cr; simpl. split; auto. apply Qr_nil.
Qed.

Definition ev_ok2 (e : event) : Prop := match e with EDeliver b => blk_ok2 b | ERestart => True end.
Lemma ev_ok2_ok : forall e, ev_ok2 e -> ev_ok e.
Proof. destruct e; simpl; auto. intros [Ha Hb]; auto. Qed.

Lemma run_QN : forall evs nd, NI nd -> QN nd -> Forall ev_ok2 evs -> NI (run nd evs) /\ QN (run nd evs).
Proof.
  unfold run. induction evs; simpl; intros nd N Q F; auto. inversion F; subst.
  apply IHevs; auto.
  - apply step_NI; auto. apply ev_ok2_ok; auto.
  - destruct a; simpl. apply deliver_QN; auto. apply restart_QN; auto.
Qed.

Lemma nth_error_rev_local : forall (A : Type) (l : list A) i, (i < length l)%nat ->
  nth_error (rev l) i = nth_error l (length l - S i).
Proof.
  induction l; simpl; intros i H. lia.
  destruct (Nat.eq_dec i (length l)).
  - subst. rewrite nth_error_app2 by (rewrite rev_length; lia). rewrite rev_length. rewrite ?Nat.sub_diag. reflexivity.
  - rewrite nth_error_app1 by (rewrite rev_length; lia). rewrite IHl by lia.
    replace (length l - i)%nat with (S (length l - S i)) by lia. reflexivity.
Qed.

(** number of elements of the confirms list, from position i (front = 0) to the back,
    whose confirmation window contains the element at position i *)
Definition confirmers (l : list cinfo) (e : cinfo) (i : nat) : nat := cnt (rev (skipn i l)) e.

(** [plib_has_quorum]: in every reachable node (any history of deliveries of non-genesis
    blocks with non-empty hashes, and restarts), when Update of the next block b makes a
    block the producer's proposed LIB, that block is an element of the confirms list (hence
    of the main chain, [proposals_on_main_chain]) and at least confirmsRequired = 2n/3+1
    elements of the list from it to the tip have confirmation windows containing it. *)
Theorem plib_has_quorum : forall size self evs b ls1 bp pl,
  Forall ev_ok2 evs -> 0 < size < 21845 -> k_no b <> 0 ->
  let nd := run (init_node size self) evs in
  get_pre_lib (add_confirm_info (st_ls (nd_st nd)) b) = (ls1, Some (bp, pl)) ->
  exists i e, nth_error (ls_confirms ls1) i = Some e /\ c_bi e = pl_plib pl /\
              (Z.to_nat (2 * size / 3 + 1) <= confirmers (ls_confirms ls1) e i)%nat.
Proof.
  intros size self evs b ls1 bp pl F Hs Hb nd G.
  destruct (run_QN evs (init_node size self) (NI_init size self) (QN_init size self) F) as [N Q].
  fold nd in N, Q. unfold QN in Q.
  assert (Sz : nd_size nd = size).
  { assert (H : forall n0, nd_size (fold_left step evs n0) = nd_size n0).
    { clear. induction evs; simpl; intros; auto. rewrite IHevs. destruct a; simpl.
      - unfold deliver. repeat match goal with |- context [match ?x with _ => _ end] => destruct x end; reflexivity.
      - reflexivity. }
    unfold nd, run. rewrite H. reflexivity. }
  rewrite Sz in Q.
  destruct (confirms_required_two_thirds size Hs) as [Ecr _].
  set (cr0 := confirms_required size) in *.
  pose proof (upd_add_QL cr0 _ b Q Hb) as U.
  unfold update in U. rewrite G in U. simpl in U. destruct U as [_ Qr1].
  (* the confirmed element has confirmsLeft = 0 *)
  unfold get_pre_lib in G.
  destruct (rev (ls_confirms (add_confirm_info (st_ls (nd_st nd)) b))) as [|last tl] eqn:R; [discriminate|].
  rewrite <- R in G.
  destruct (scan (win_min last) (win_max last) (rev (ls_confirms (add_confirm_info (st_ls (nd_st nd)) b))))
    as [rl' r] eqn:Sc.
  destruct r as [c|]; [|discriminate]. inversion G; subst ls1 bp pl. clear G.
  simpl in Qr1. rewrite rev_involutive in Qr1.
  cbn [ls_confirms set_confirms pl_plib].
  destruct (scan_confirmed_zero _ _ _ _ _ Sc) as [e [Ie [Be Le]]].
  apply In_nth_error in Ie. destruct Ie as [j Hj].
  destruct (Qr1 j e Hj) as [k [Hk Hle]].
  rewrite Le in Hk. symmetry in Hk.
  assert (Hcr : 0 < cr0 < 65536).
  { rewrite Ecr. split. assert (0 <= 2 * size / 3) by (apply Z.div_pos; lia). lia.
    assert (2 * size / 3 < 65535) by (apply Z.div_lt_upper_bound; lia). lia. }
  pose proof (left_zero_needs_cr_decrements cr0 k Hcr Hk) as K.
  (* position in the front-to-back list *)
  assert (Lj : (j < length rl')%nat) by (apply nth_error_Some; congruence).
  exists (length rl' - S j)%nat, e. repeat split; auto.
  - rewrite nth_error_rev_local by lia. replace (length rl' - S (length rl' - S j))%nat with j by lia. exact Hj.
  - unfold confirmers. rewrite rev_skipn_firstn. rewrite rev_involutive, rev_length.
    replace (length rl' - (length rl' - S j))%nat with (S j) by lia.
    rewrite <- Ecr. fold cr0. lia.
Qed.

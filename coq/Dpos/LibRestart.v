From Coq Require Import ZArith List Bool Lia.
From Verif Require Import Dpos.Lib Dpos.LibProofs.
Import ListNotations.
Open Scope Z_scope.

(** * Restart *)
(** The LIB restored by a restart is exactly the LIB before it, at every point of every history. *)
Theorem restart_lib_preserved : forall size self evs,
  let nd := run (init_node size self) evs in
  ls_lib (st_ls (nd_st (restart nd))) = ls_lib (st_ls (nd_st nd)).
Proof.
  intros. apply restart_lib. unfold nd, run.
  generalize (sv_inv_init size self). generalize (init_node size self).
  induction evs; simpl; intros; auto. apply IHevs. apply sv_inv_step; auto.
Qed.

(** Restoring is idempotent: a second restart without new blocks yields the same node. *)
Theorem restart_idempotent : forall nd, restart (restart nd) = restart nd.
Proof.
  intros nd. unfold restart, restore. cbn [nd_size nd_self nd_st nd_main nd_store nd_saved].
  destruct (nd_saved nd) as [[[p l] lpb]|]; reflexivity.
Qed.

(** What is restored: the saved proposal map with the proposals recomputed from the stored
    main-chain blocks of the recovery window merged over it, the saved LIB and LpbNo, and
    the confirms list recomputed from those blocks. *)
Theorem restart_equals_recompute : forall nd p l lpb,
  nd_saved nd = Some (p, l, lpb) ->
  st_ls (nd_st (restart nd)) =
    load (main_get (nd_main nd)) (mkLS p l lpb [] (confirms_required (nd_size nd)) (nd_self nd))
         (k_no (st_best (nd_st nd))).
Proof. intros nd p l lpb H. unfold restart, restore. cbn [nd_st]. rewrite H. reflexivity. Qed.

(** ... but the restored proposal map is not always the one computed online: the rebuild
    keeps confirms elements at or below the LIB that gc removed online and derives proposals
    from them, and a restart at height 1 rebuilds nothing (loadPlibStatus returns nil when
    beg = end).  Witness: 5 producers in round robin, restart after block 1, blocks 2..4: online
    producer 3 has no proposal, the status restored at height 4 has proposal (1, by 4). *)
Definition restart_witness : list event :=
  [EDeliver (mkBlk 1 0 1 0 1); ERestart; EDeliver (mkBlk 2 1 2 1 2); EDeliver (mkBlk 3 2 3 2 3);
   EDeliver (mkBlk 4 3 4 3 4)].
Theorem restart_equals_online_refuted :
  exists size self evs,
    let nd := run (init_node size self) evs in
    sort_entries (prpsd_obs (ls_prpsd (st_ls (nd_st (restart nd))))) <>
    sort_entries (prpsd_obs (ls_prpsd (st_ls (nd_st nd)))).
Proof. exists 5, 1, restart_witness. vm_compute. intro H. discriminate H. Qed.


(** * ForceResetHeight (bootLoader.load with resetHeight > 0) *)
(** Disabled (0): the ordinary restore. *)
Theorem restore_reset_zero : forall g sv best size self,
  restore_reset g sv best size self 0 = (restore g sv best size self, sv).
Proof.
  intros. unfold restore_reset, restore, reset_prune. destruct sv as [[[p l] lpb]|]; auto.
  cbn [Z.gtb Z.compare andb].
  replace (set_prpsd (load g (mkLS p l lpb [] (confirms_required size) self) (k_no best))
                     (ls_prpsd (load g (mkLS p l lpb [] (confirms_required size) self) (k_no best))))
    with (load g (mkLS p l lpb [] (confirms_required size) self) (k_no best)).
  reflexivity.
  destruct (load g _ _); reflexivity.
Qed.

(** Enabled: afterwards neither the LIB nor any proposal (Plib or PlibBy) is above the reset
    height, and the saved status is deleted exactly when the LIB had to be reset. *)
Theorem restore_reset_bounds : forall g sv best size self rh st sv',
  0 < rh -> restore_reset g sv best size self rh = (st, sv') ->
  b_no (ls_lib (st_ls st)) <= rh \/ sv = None /\ ls_lib (st_ls st) = empty_info.
Proof.
  intros g sv best size self rh st sv' Hr H. unfold restore_reset in H.
  destruct sv as [[[p l] lpb]|].
  - assert (Gt : (rh >? 0) = true) by (apply Z.gtb_lt; lia). rewrite Gt in H. cbn [andb] in H.
    match type of H with (if ?c then _ else _) = _ => destruct c eqn:E end;
      apply pair_equal_spec in H; destruct H; subst; cbn [st_ls]; left.
    + simpl. lia.
    + rewrite Z.gtb_ltb in E. apply Z.ltb_ge in E. exact E.
  - apply pair_equal_spec in H. destruct H; subst. right. split; reflexivity.
Qed.

Theorem restore_reset_proposals_bounded : forall g sv best size self rh st sv',
  0 < rh -> restore_reset g sv best size self rh = (st, sv') ->
  Forall (fun kv => b_no (pl_plib (snd kv)) <= rh /\ b_no (pl_by (snd kv)) <= rh) (ls_prpsd (st_ls st)).
Proof.
  intros g sv best size self rh st sv' Hr H. unfold restore_reset in H.
  destruct sv as [[[p l] lpb]|].
  - assert (Gt : (rh >? 0) = true) by (apply Z.gtb_lt; lia). rewrite Gt in H. cbn [andb] in H.
    assert (F : forall q, Forall (fun kv => b_no (pl_plib (snd kv)) <= rh /\ b_no (pl_by (snd kv)) <= rh) (reset_prune rh q)).
    { intros q. unfold reset_prune. rewrite Gt. apply Forall_forall. intros kv I. apply filter_In in I.
      destruct I as [_ I]. apply negb_true_iff, orb_false_iff in I. destruct I as [A B].
      rewrite Z.gtb_ltb in A, B. apply Z.ltb_ge in A. apply Z.ltb_ge in B. auto. }
    match type of H with (if ?c then _ else _) = _ => destruct c end;
      apply pair_equal_spec in H; destruct H; subst; cbn [st_ls]; simpl; apply F.
  - apply pair_equal_spec in H. destruct H; subst. simpl. constructor.
Qed.

(** The saved LIB is thrown away exactly when it is ABOVE the reset height (the test is
    [Lib.BlockNo > resetHeight]): a reset AT the LIB height keeps the LIB - the block that stays
    the best block after the chain reset is still irreversible. *)
Theorem restore_reset_keeps_lib_at_or_below_height : forall g sv best size self rh,
  let l0 := ls_lib (st_ls (restore g sv best size self)) in
  (rh <= 0 \/ b_no l0 <= rh ->
     ls_lib (st_ls (fst (restore_reset g sv best size self rh))) = l0 /\
     snd (restore_reset g sv best size self rh) = sv) /\
  (0 < rh < b_no l0 ->
     ls_lib (st_ls (fst (restore_reset g sv best size self rh))) = genesis_info /\
     snd (restore_reset g sv best size self rh) = None).
Proof.
  intros g sv best size self rh. unfold restore_reset, restore.
  destruct sv as [[[p l] lpb]|]; cbn [st_ls fst snd].
  - set (ls := load g (mkLS p l lpb [] (confirms_required size) self) (k_no best)).
    cbn [set_prpsd ls_lib]. cbv zeta. split.
    + intros H.
      assert (C : ((rh >? 0) && (b_no (ls_lib ls) >? rh)) = false).
      { apply andb_false_iff. destruct H as [H|H]; [left|right]; rewrite Z.gtb_ltb; apply Z.ltb_ge; lia. }
      unfold set_prpsd at 1. cbn [ls_lib]. rewrite C. cbn [fst snd st_ls]. split; reflexivity.
    + intros H.
      assert (C : ((rh >? 0) && (b_no (ls_lib ls) >? rh)) = true).
      { apply andb_true_iff. split; rewrite Z.gtb_ltb; apply Z.ltb_lt; lia. }
      unfold set_prpsd at 1. cbn [ls_lib]. rewrite C. cbn [fst snd st_ls]. split; reflexivity.
  - cbv zeta. split; intros H; [split; reflexivity|]. simpl in H. lia.
Qed.

(** so a reset at or above the LIB keeps the veto: no fork point below the LIB may be reorganised *)
Theorem restore_reset_veto_kept : forall g sv best size self rh f,
  b_no (ls_lib (st_ls (restore g sv best size self))) <= rh ->
  f < b_no (ls_lib (st_ls (restore g sv best size self))) ->
  need_reorganization (st_ls (fst (restore_reset g sv best size self rh))) f = false.
Proof.
  intros g sv best size self rh f H Hf. unfold need_reorganization.
  destruct (restore_reset_keeps_lib_at_or_below_height g sv best size self rh) as [K _].
  destruct (K (or_intror H)) as [E _]. rewrite E. apply Z.leb_gt. exact Hf.
Qed.


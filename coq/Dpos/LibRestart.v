From Coq Require Import ZArith List Bool Lia.
From Verif Require Import Dpos.Lib Dpos.LibProofs.
Import ListNotations.
Open Scope Z_scope.

(** * Restart *)
(** The LIB restored by a restart is exactly the LIB before it, at every point of every history. *)
Theorem restart_lib_preserved : forall size self evs,
  let nd := run (init_node size self) evs in
  ls_lib (st_ls (nd_st (restart nd))) = ls_lib (st_ls (nd_st nd)).
Proof.
  intros. apply restart_lib. unfold nd, run.
  generalize (sv_inv_init size self). generalize (init_node size self).
  induction evs; simpl; intros; auto. apply IHevs. apply sv_inv_step; auto.
Qed.

(** Restoring is idempotent: a second restart without new blocks yields the same node. *)
Theorem restart_idempotent : forall nd, restart (restart nd) = restart nd.
Proof.
  intros nd. unfold restart, restore. cbn [nd_size nd_self nd_st nd_main nd_store nd_saved].
  destruct (nd_saved nd) as [[[p l] lpb]|]; reflexivity.
Qed.

(** What is restored: the saved proposal map with the proposals recomputed from the stored
    main-chain blocks of the recovery window merged over it, the saved LIB and LpbNo, and
    the confirms list recomputed from those blocks. *)
Theorem restart_equals_recompute : forall nd p l lpb,
  nd_saved nd = Some (p, l, lpb) ->
  st_ls (nd_st (restart nd)) =
    load (main_get (nd_main nd)) (mkLS p l lpb [] (confirms_required (nd_size nd)) (nd_self nd))
         (k_no (st_best (nd_st nd))).
Proof. intros nd p l lpb H. unfold restart, restore. cbn [nd_st]. rewrite H. reflexivity. Qed.

(** ... but the restored proposal map is not always the one computed online: the rebuild
    keeps confirms elements at or below the LIB that gc removed online and derives proposals
    from them, and a restart at height 1 rebuilds nothing (loadPlibStatus returns nil when
    beg = end).  Witness: 5 producers in round robin, restart after block 1, blocks 2..4: online
    producer 3 has no proposal, the status restored at height 4 has proposal (1, by 4). *)
Definition restart_witness : list event :=
  [EDeliver (mkBlk 1 0 1 0 1); ERestart; EDeliver (mkBlk 2 1 2 1 2); EDeliver (mkBlk 3 2 3 2 3);
   EDeliver (mkBlk 4 3 4 3 4)].
Theorem restart_equals_online_refuted :
  exists size self evs,
    let nd := run (init_node size self) evs in
    sort_entries (prpsd_obs (ls_prpsd (st_ls (nd_st (restart nd))))) <>
    sort_entries (prpsd_obs (ls_prpsd (st_ls (nd_st nd)))).
Proof. exists 5, 1, restart_witness. vm_compute. intro H. discriminate H. Qed.

(** Abstract network of DPoS producers around the node model of Dpos/Lib.v.
    n producers, producer i owns node i.  Slot s belongs to producer s mod n (C09).
    Honest producers: at most one block per own slot, at the current time, on top of the best
    block of their own node, with Confirms = no - lpbNo (blockfactory.go), connected to their
    own node at once.  Byzantine producers: any parent, any Confirms, several blocks per slot,
    but only in their own slots and with a slot later than the parent's.
    The adversary schedules delivery: any known block to any node at any time (loss = never,
    partition = not yet).  [prun] checks a history against these rules; no proofs here. *)
From Coq Require Import ZArith List Bool Lia.
From Verif Require Import Dpos.Lib.
Import ListNotations.
Open Scope Z_scope.

Inductive pevent :=
| Produce (p slot parent confirms id : Z)
| Deliver (nd id : Z)
| Restart (nd : Z).

Record world := mkW {
  w_n : Z;
  w_byz : list Z;
  w_nodes : list node;             (* index = producer *)
  w_blocks : list (block * Z);     (* every block signed so far, with its slot *)
  w_lpb : list Z;                  (* blockfactory's lpbNo per producer *)
  w_last_slot : list Z;            (* last slot used per producer *)
  w_now : Z
}.

Fixpoint set_nth {A} (l : list A) (i : nat) (x : A) : list A :=
  match l, i with
  | [], _ => []
  | _ :: tl, O => x :: tl
  | y :: tl, S j => y :: set_nth tl j x
  end.
Definition zget {A} (l : list A) (i : Z) : option A := if i <? 0 then None else nth_error l (Z.to_nat i).
Definition zset {A} (l : list A) (i : Z) (x : A) : list A := set_nth l (Z.to_nat i) x.

Fixpoint nodes_init (size : Z) (k : nat) (i : Z) : list node :=
  match k with O => [] | S k' => init_node size i :: nodes_init size k' (i + 1) end.
Definition init_world (n : Z) (byz : list Z) : world :=
  let k := Z.to_nat n in
  mkW n byz (nodes_init n k 0) [(genesis_block, -1)] (repeat 0 k) (repeat (-1) k) 0.

Fixpoint find_pblock (l : list (block * Z)) (id : Z) : option (block * Z) :=
  match l with
  | [] => None
  | (b, s) :: tl => if k_id b =? id then Some (b, s) else find_pblock tl id
  end.

Definition is_byz (w : world) (p : Z) : bool := zmem p (w_byz w).

Definition pstep (w : world) (e : pevent) : option world :=
  match e with
  | Produce p slot parent confirms id =>
      if negb ((0 <=? p) && (p <? w_n w)) then None else
      if negb (slot mod w_n w =? p) then None else                    (* own slot only *)
      if negb (0 <=? id) then None else                               (* a hash is never empty *)
      match find_pblock (w_blocks w) id, find_pblock (w_blocks w) parent with
      | Some _, _ => None                                              (* identifiers are hashes: fresh *)
      | None, None => None
      | None, Some (pb, pslot) =>
          if negb (pslot <? slot) then None else
          let blk := mkBlk id parent (k_no pb + 1) p confirms in
          if is_byz w p then
            Some (mkW (w_n w) (w_byz w) (w_nodes w) ((blk, slot) :: w_blocks w) (w_lpb w) (w_last_slot w) (w_now w))
          else
            match zget (w_nodes w) p, zget (w_lpb w) p, zget (w_last_slot w) p with
            | Some nd, Some lpb, Some ls =>
                if negb (w_now w <=? slot) then None else               (* produces now, time moves forward *)
                if negb (ls <? slot) then None else                     (* one block per slot *)
                if negb (k_id (st_best (nd_st nd)) =? parent) then None else   (* on its own best block *)
                if negb (confirms =? honest_confirms (k_no blk) lpb) then None else
                let '(nd', oc) := deliver nd blk in
                let lpb' := match oc with OConnected => k_no blk | _ => lpb end in
                Some (mkW (w_n w) (w_byz w) (zset (w_nodes w) p nd') ((blk, slot) :: w_blocks w)
                          (zset (w_lpb w) p lpb') (zset (w_last_slot w) p slot) slot)
            | _, _, _ => None
            end
      end
  | Deliver i id =>
      match zget (w_nodes w) i, find_pblock (w_blocks w) id with
      | Some nd, Some (blk, _) =>
          Some (mkW (w_n w) (w_byz w) (zset (w_nodes w) i (fst (deliver nd blk))) (w_blocks w)
                    (w_lpb w) (w_last_slot w) (w_now w))
      | _, _ => None
      end
  | Restart i =>
      match zget (w_nodes w) i with
      | Some nd =>
          (* blockfactory.worker: lpbNo := bsLoader.lpbNo(), the LpbNo of the restored status *)
          let nd' := restart nd in
          Some (mkW (w_n w) (w_byz w) (zset (w_nodes w) i nd') (w_blocks w)
                    (zset (w_lpb w) i (ls_lpb (st_ls (nd_st nd')))) (w_last_slot w) (w_now w))
      | None => None
      end
  end.

Fixpoint prun (w : world) (evs : list pevent) : option world :=
  match evs with
  | [] => Some w
  | e :: tl => match pstep w e with Some w' => prun w' tl | None => None end
  end.

(** ancestor-or-equal in the global block tree *)
Fixpoint ancestor (fuel : nat) (blocks : list (block * Z)) (a b : Z) : bool :=
  if a =? b then true else
  match fuel with
  | O => false
  | S f => match find_pblock blocks b with
           | Some (bb, _) => if k_no bb <=? 0 then false else ancestor f blocks a (k_prev bb)
           | None => false
           end
  end.
Definition same_branch (w : world) (a b : Z) : bool :=
  let f := length (w_blocks w) in ancestor f (w_blocks w) a b || ancestor f (w_blocks w) b a.

Definition node_lib (w : world) (i : Z) : option binfo :=
  match zget (w_nodes w) i with Some nd => Some (ls_lib (st_ls (nd_st nd))) | None => None end.

(** Two correct nodes hold irreversible blocks on conflicting branches. *)
Definition conflicting (w : world) (i j : Z) : bool :=
  negb (is_byz w i) && negb (is_byz w j) &&
  match node_lib w i, node_lib w j with
  | Some a, Some b => (0 <=? b_id a) && (0 <=? b_id b) && negb (same_branch w (b_id a) (b_id b))
  | _, _ => false
  end.

Definition few_faults (w : world) : bool := 3 * Z.of_nat (length (w_byz w)) <? w_n w.

(** The agreement clause of C08 for one reachable world. *)
Definition agreement (w : world) : Prop :=
  few_faults w = true -> forall i j, conflicting w i j = false.

From Coq Require Import ZArith List Bool Lia.
(** Node invariant lifted to the protocol: every node of every reachable world. *)
From Verif Require Import Dpos.Lib Dpos.LibProofs Dpos.LibOnMain Dpos.Protocol.
Import ListNotations.
Open Scope Z_scope.

(** * Every node of every reachable world satisfies the node invariant *)
Definition WI (w : world) : Prop :=
  Forall NI (w_nodes w) /\ Forall (fun bs => 0 <= k_id (fst bs)) (w_blocks w).

Lemma set_nth_Forall : forall (A : Type) (P : A -> Prop) l i x, Forall P l -> P x -> Forall P (set_nth l i x).
Proof.
  induction l; intros i x H Hx; simpl; auto. destruct i; inversion H; subst; constructor; auto.
Qed.
Lemma zget_In : forall (A : Type) (l : list A) i x, zget l i = Some x -> In x l.
Proof. unfold zget. intros A l i x H. destruct (i <? 0); try discriminate. eapply nth_error_In; eauto. Qed.
Lemma find_pblock_In : forall l id b s, find_pblock l id = Some (b, s) -> In (b, s) l.
Proof.
  induction l as [|[b0 s0] tl]; simpl; intros; try discriminate.
  destruct (k_id b0 =? id). inversion H; subst; auto. right; eauto.
Qed.

Lemma nodes_init_NI : forall size k i, Forall NI (nodes_init size k i).
Proof. induction k; intros; simpl; constructor; auto. apply NI_init. Qed.

Lemma WI_init : forall n byz, WI (init_world n byz).
Proof.
  intros. split; simpl. apply nodes_init_NI. constructor; simpl; auto. lia.
Qed.

Lemma pstep_WI : forall w e w', WI w -> pstep w e = Some w' -> WI w'.
Proof.
  intros w e w' [HN HB] H. rewrite Forall_forall in HN.
  destruct e as [p slot parent confirms id | i id | i]; simpl in H.
  - destruct (negb ((0 <=? p) && (p <? w_n w))); try discriminate.
    destruct (negb (slot mod w_n w =? p)); try discriminate.
    destruct (negb (0 <=? id)) eqn:Eid; try discriminate.
    apply negb_false_iff, Z.leb_le in Eid.
    destruct (find_pblock (w_blocks w) id); try discriminate.
    destruct (find_pblock (w_blocks w) parent) as [[pb pslot]|]; try discriminate.
    destruct (negb (pslot <? slot)); try discriminate.
    set (blk := mkBlk id parent (k_no pb + 1) p confirms) in *.
    destruct (is_byz w p).
    + inversion H; subst. split; simpl. apply Forall_forall; auto. constructor; auto.
    + destruct (zget (w_nodes w) p) as [nd|] eqn:Gn; try discriminate.
      destruct (zget (w_lpb w) p); try discriminate.
      destruct (zget (w_last_slot w) p); try discriminate.
      destruct (negb (w_now w <=? slot)); try discriminate.
      destruct (negb (_ <? slot)); try discriminate.
      destruct (negb (k_id (st_best (nd_st nd)) =? parent)); try discriminate.
      destruct (negb (confirms =? _)); try discriminate.
      destruct (deliver nd blk) as [nd' oc] eqn:D. inversion H; subst. split; simpl.
      * apply set_nth_Forall. apply Forall_forall; auto.
        replace nd' with (fst (deliver nd blk)) by (rewrite D; reflexivity).
        apply deliver_NI. apply HN. eapply zget_In; eauto. exact Eid.
      * constructor; auto.
  - destruct (zget (w_nodes w) i) as [nd|] eqn:Gn; try discriminate.
    destruct (find_pblock (w_blocks w) id) as [[blk s]|] eqn:Fb; try discriminate.
    inversion H; subst. split; simpl; auto.
    apply set_nth_Forall. apply Forall_forall; auto.
    apply deliver_NI. apply HN. eapply zget_In; eauto.
    rewrite Forall_forall in HB. apply (HB (blk, s)). eapply find_pblock_In; eauto.
  - destruct (zget (w_nodes w) i) as [nd|] eqn:Gn; try discriminate.
    inversion H; subst. split; simpl; auto.
    apply set_nth_Forall. apply Forall_forall; auto.
    apply restart_NI. apply HN. eapply zget_In; eauto.
Qed.

Lemma prun_WI : forall evs w w', WI w -> prun w evs = Some w' -> WI w'.
Proof.
  induction evs; simpl; intros w w' I H. inversion H; subst; auto.
  destruct (pstep w a) as [w1|] eqn:S; try discriminate. apply (IHevs w1 w'); auto. apply (pstep_WI w a w1); auto.
Qed.

(** [protocol_lib_on_main_chain]: in every world reachable under the rules of Protocol.v, with any
    number of Byzantine producers and any delivery schedule, every node's reported LIB lies on that
    node's own main chain (so two nodes can conflict only if their main chains diverge below a LIB). *)
Theorem protocol_lib_on_main_chain : forall n byz evs w i nd,
  prun (init_world n byz) evs = Some w -> zget (w_nodes w) i = Some nd -> lib_on_main nd = true.
Proof.
  intros n byz evs w i nd R G.
  destruct (prun_WI _ _ _ (WI_init n byz) R) as [HN _].
  rewrite Forall_forall in HN. apply NI_lib_on_main. apply HN. eapply zget_In; eauto.
Qed.


(** [agreement_partial]: in a reachable world, if node j's main chain holds at node i's LIB height
    the block node i's main chain holds there (j has not diverged from i below i's LIB), then both
    LIBs lie on j's main chain, i.e. on one branch.  Conflicting LIBs therefore require main chains
    that diverged below a LIB -- which F14/F14b show the protocol does not prevent. *)
Theorem agreement_partial : forall n byz evs w i j ndi ndj,
  prun (init_world n byz) evs = Some w ->
  zget (w_nodes w) i = Some ndi -> zget (w_nodes w) j = Some ndj ->
  b_id (ls_lib (st_ls (nd_st ndi))) <> -1 -> b_id (ls_lib (st_ls (nd_st ndj))) <> -1 ->
  main_at ndj (lib_no ndi) = main_at ndi (lib_no ndi) ->
  onm (nd_main ndj) (ls_lib (st_ls (nd_st ndi))) /\ onm (nd_main ndj) (ls_lib (st_ls (nd_st ndj))).
Proof.
  intros n byz evs w i j ndi ndj R Gi Gj Hi Hj E.
  pose proof (protocol_lib_on_main_chain _ _ _ _ _ _ R Gi) as Li.
  pose proof (protocol_lib_on_main_chain _ _ _ _ _ _ R Gj) as Lj.
  unfold lib_on_main in *.
  apply orb_true_iff in Li. destruct Li as [Li|Li]; [apply Z.eqb_eq in Li; contradiction|].
  apply orb_true_iff in Lj. destruct Lj as [Lj|Lj]; [apply Z.eqb_eq in Lj; contradiction|].
  unfold main_at, lib_no in E. split.
  - destruct (main_get (nd_main ndi) (b_no (ls_lib (st_ls (nd_st ndi))))) as [m|] eqn:G; [|discriminate].
    exists m. split; auto. apply Z.eqb_eq; auto.
  - destruct (main_get (nd_main ndj) (b_no (ls_lib (st_ls (nd_st ndj))))) as [m|] eqn:G; [|discriminate].
    exists m. split; auto. apply Z.eqb_eq; auto.
Qed.

(** Witnesses against the agreement clause of C08 and what is proved instead at the
    protocol level. *)
From Coq Require Import ZArith List Bool Lia.
From Verif Require Import Dpos.Lib Dpos.Protocol.
Import ListNotations.
Open Scope Z_scope.

(** F14: n = 4, producers A=0, B=1, C=2 correct, X=3 Byzantine.  Common prefix 1..9 (round
    robin); X inflates Confirms (= block number) while alternating with A on branch C1 and
    with C on branch C2, equivocating in its slots 15 and 19; B produces block 14 on C1, then
    receives the longer C2 (its own LIB is still 7 <= fork point 9) and produces 16' on it.
    F14b: the same shape with X's Confirms honest-sized on each chain (pure equivocation). *)
Definition f14_history : list pevent :=
  [Produce 0 0 0 1 1;
  Deliver 1 1;
  Deliver 2 1;
  Produce 1 1 1 2 2;
  Deliver 0 2;
  Deliver 2 2;
  Produce 2 2 2 3 3;
  Deliver 0 3;
  Deliver 1 3;
  Produce 3 3 3 4 4;
  Deliver 0 4;
  Deliver 1 4;
  Deliver 2 4;
  Produce 0 4 4 4 5;
  Deliver 1 5;
  Deliver 2 5;
  Produce 1 5 5 4 6;
  Deliver 0 6;
  Deliver 2 6;
  Produce 2 6 6 4 7;
  Deliver 0 7;
  Deliver 1 7;
  Produce 3 7 7 4 8;
  Deliver 0 8;
  Deliver 1 8;
  Deliver 2 8;
  Produce 0 8 8 4 9;
  Deliver 1 9;
  Deliver 2 9;
  Produce 2 10 9 3 10;
  Produce 0 12 9 1 11;
  Deliver 1 11;
  Produce 3 11 10 11 12;
  Deliver 2 12;
  Produce 3 15 11 11 13;
  Deliver 0 13;
  Deliver 1 13;
  Produce 2 14 12 2 14;
  Produce 0 16 13 2 15;
  Deliver 1 15;
  Produce 3 15 14 13 16;
  Deliver 2 16;
  Produce 3 19 15 13 17;
  Deliver 0 17;
  Deliver 1 17;
  Produce 2 18 16 2 18;
  Produce 1 21 17 8 19;
  Deliver 0 19;
  Produce 3 19 18 15 20;
  Deliver 2 20;
  Produce 0 24 19 3 21;
  Deliver 1 10;
  Deliver 1 12;
  Deliver 1 14;
  Deliver 1 16;
  Deliver 1 18;
  Deliver 1 20;
  Produce 1 25 20 2 22;
  Deliver 2 22].
Definition f14b_history : list pevent :=
  [Produce 0 0 0 1 1;
  Deliver 1 1;
  Deliver 2 1;
  Produce 1 1 1 2 2;
  Deliver 0 2;
  Deliver 2 2;
  Produce 2 2 2 3 3;
  Deliver 0 3;
  Deliver 1 3;
  Produce 3 3 3 4 4;
  Deliver 0 4;
  Deliver 1 4;
  Deliver 2 4;
  Produce 0 4 4 4 5;
  Deliver 1 5;
  Deliver 2 5;
  Produce 1 5 5 4 6;
  Deliver 0 6;
  Deliver 2 6;
  Produce 2 6 6 4 7;
  Deliver 0 7;
  Deliver 1 7;
  Produce 3 7 7 4 8;
  Deliver 0 8;
  Deliver 1 8;
  Deliver 2 8;
  Produce 0 8 8 4 9;
  Deliver 1 9;
  Deliver 2 9;
  Produce 2 10 9 3 10;
  Produce 0 12 9 1 11;
  Deliver 1 11;
  Produce 3 11 10 3 12;
  Deliver 2 12;
  Produce 3 15 11 3 13;
  Deliver 0 13;
  Deliver 1 13;
  Produce 2 14 12 2 14;
  Produce 0 16 13 2 15;
  Deliver 1 15;
  Produce 3 15 14 2 16;
  Deliver 2 16;
  Produce 3 19 15 2 17;
  Deliver 0 17;
  Deliver 1 17;
  Produce 2 18 16 2 18;
  Produce 1 21 17 8 19;
  Deliver 0 19;
  Produce 3 19 18 2 20;
  Deliver 2 20;
  Produce 0 24 19 3 21;
  Deliver 1 10;
  Deliver 1 12;
  Deliver 1 14;
  Deliver 1 16;
  Deliver 1 18;
  Deliver 1 20;
  Produce 1 25 20 2 22;
  Deliver 2 22;
  Produce 3 27 21 3 23;
  Deliver 0 23;
  Produce 2 26 22 3 24;
  Deliver 1 24;
  Produce 0 28 23 2 25;
  Produce 3 27 24 3 26;
  Deliver 2 26;
  Deliver 1 26;
  Produce 3 31 25 2 27;
  Deliver 0 27;
  Produce 1 29 26 3 28;
  Deliver 2 28;
  Produce 0 32 27 2 29;
  Produce 2 34 28 3 30;
  Deliver 1 30;
  Produce 3 35 30 3 31;
  Deliver 2 31;
  Deliver 1 31].

Definition refutes (h : list pevent) (i j : Z) : bool :=
  match prun (init_world 4 [3]) h with
  | Some w => few_faults w && conflicting w i j
  | None => false
  end.

Lemma refutes_sound : forall h i j, refutes h i j = true ->
  exists w, prun (init_world 4 [3]) h = Some w /\ few_faults w = true /\ ~ agreement w.
Proof.
  unfold refutes. intros h i j H. destruct (prun (init_world 4 [3]) h) as [w|]; [|discriminate H].
  apply andb_true_iff in H. destruct H as [F C].
  exists w. split; [reflexivity|]. split; [exact F|].
  intro A. specialize (A F i j). rewrite A in C. discriminate C.
Qed.

Example f14_history_valid_and_conflicting : refutes f14_history 0 2 = true.
Proof. vm_compute. reflexivity. Qed.
Example f14b_history_valid_and_conflicting : refutes f14b_history 0 2 = true.
Proof. vm_compute. reflexivity. Qed.

(** [agreement_refuted]: a history that obeys every rule of Protocol.v for the three correct
    producers, with one Byzantine producer out of four (f < n/3), after which the correct
    nodes 0 and 2 report irreversible blocks on conflicting branches (heights 11 and 11'). *)
Theorem agreement_refuted :
  exists h w, prun (init_world 4 [3]) h = Some w /\ few_faults w = true /\ ~ agreement w.
Proof.
  exists f14_history. exact (refutes_sound _ _ _ f14_history_valid_and_conflicting).
Qed.

(** Second witness: the Byzantine producer's Confirms windows are honest-sized on each
    branch; it only signs on both sides of a partition, and a correct producer legitimately
    switches to the longer side.  Correct nodes 0 and 2 end with LIB 12 on C1 and 17 on C2. *)
Theorem agreement_refuted_equivocation_only :
  exists w, prun (init_world 4 [3]) f14b_history = Some w /\ few_faults w = true /\ ~ agreement w.
Proof. exact (refutes_sound _ _ _ f14b_history_valid_and_conflicting). Qed.

(** Third witness: no correct producer produces anything (all offline or partitioned away); the
    single Byzantine producer signs three blocks with inflated Confirms on each of two branches.
    Each node's proposal map has one entry, calcLIB takes index (1-1)/3 = 0 of it, and the two
    correct nodes report conflicting LIBs at height 1.  No lock on correct producers can prevent
    this: the 2/3 rule counts the entries of the map (n'), not the producer count (n). *)
Definition solo_history : list pevent :=
  [Produce 3 3 0 1 1; Produce 3 7 1 2 2; Produce 3 11 2 3 3;
   Produce 3 3 0 1 11; Produce 3 7 11 2 12; Produce 3 11 12 3 13;
   Deliver 0 1; Deliver 0 2; Deliver 0 3; Deliver 2 11; Deliver 2 12; Deliver 2 13].
Example solo_history_valid_and_conflicting : refutes solo_history 0 2 = true.
Proof. vm_compute. reflexivity. Qed.
Theorem agreement_refuted_single_producer :
  exists w, prun (init_world 4 [3]) solo_history = Some w /\ few_faults w = true /\ ~ agreement w.
Proof. exact (refutes_sound _ _ _ solo_history_valid_and_conflicting). Qed.

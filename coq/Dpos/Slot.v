(** C09 model: DPoS slot arithmetic (consensus/impl/dpos/slot/slot.go), the producer
    index map (consensus/impl/dpos/bp/cluster.go: Update / BpID2Index) and the
    consensus-level block acceptance rule (dpos.go: IsBlockValid, VerifySign,
    VerifyTimestamp's future test).  No proofs here: the model must keep running when a
    proof breaks.

    Go's int64 `/` and `%` truncate toward zero: Z.quot / Z.rem.  Overflow of int64 is
    not modelled: timestamps are nanoseconds since 1970 (< 2^63 until year 2262) and the
    theorems are stated for non-negative timestamps. *)
From Coq Require Import ZArith List Bool.
Import ListNotations.
Open Scope Z_scope.

Definition ns_to_ms (ns : Z) : Z := Z.quot ns 1000000.
Definition ms_to_index (iv ms : Z) : Z := Z.quot (ms - 1) iv.        (* msToIndex *)
Definition prev_index (iv ms : Z) : Z := ms_to_index iv ms.          (* msToPrevIndex *)
Definition next_index (iv ms : Z) : Z := ms_to_index iv (ms + iv).    (* msToNextIndex *)

Record slot := { s_ns : Z; s_ms : Z; s_prev : Z; s_next : Z }.
Definition from_unix_ns (iv ns : Z) : slot :=
  let ms := ns_to_ms ns in
  {| s_ns := ns; s_ms := ms; s_prev := prev_index iv ms; s_next := next_index iv ms |}.

Definition next_bp_index (s : slot) (n : Z) : Z := Z.rem (s_next s) n.  (* NextBpIndex *)
Definition is_for (s : slot) (idx n : Z) : bool := next_bp_index s n =? idx.
Definition is_future (s now : slot) : bool := s_next now + 2 <=? s_next s.
Definition slot_equal (a b : slot) : bool := s_next a =? s_next b.
Definition is_next_to (a b : slot) : bool := s_prev a =? s_next b.

(** bp.Cluster: Update(ids) builds index[id] := i for i ranging upwards (a later
    duplicate overwrites), size := number of distinct indices = length ids;
    BpID2Index returns indexNil = 65535 for a non-member. *)
Definition index_nil : Z := 65535.

Section Members.
  Context {ID : Type} (id_eqb : ID -> ID -> bool).

  Fixpoint index_from (ids : list ID) (i : Z) (x : ID) (acc : Z) : Z :=
    match ids with
    | [] => acc
    | y :: tl => index_from tl (i + 1) x (if id_eqb y x then i else acc)
    end.
  Definition bp_id_to_index (ids : list ID) (x : ID) : Z := index_from ids 0 x index_nil.
  Definition cluster_size (ids : list ID) : Z := Z.of_nat (length ids).

  (** IsBlockValid: the signer's index owns the slot of the block timestamp. *)
  Definition is_block_valid (iv : Z) (ids : list ID) (signer : ID) (ts_ns : Z) : bool :=
    is_for (from_unix_ns iv ts_ns) (bp_id_to_index ids signer) (cluster_size ids).

  (** Consensus-level acceptance: IsBlockValid, VerifySign (abstract bit), not future. *)
  Definition accept (iv : Z) (ids : list ID) (signer : ID) (sig_ok : bool) (ts_ns now_ns : Z) : bool :=
    is_block_valid iv ids signer ts_ns && sig_ok
    && negb (is_future (from_unix_ns iv ts_ns) (from_unix_ns iv now_ns)).
End Members.

(** slot.Now() = Time(time.Now()) = fromUnixNs(time.Now().UnixNano()): the slot of the local
    clock is computed from the clock READING (ns, untouched) by the same function as the slot
    of a block timestamp, so both live on the same grid (ms = ns / 10^6 truncated). *)
Definition now_slot (iv reading_ns : Z) : slot := from_unix_ns iv reading_ns.
(** a clock that rounds the reading to the nearest millisecond first (half up), as
    time.Now().Round(time.Millisecond) does: NOT what the code does; kept for the refutation *)
Definition rounded_now_slot (iv reading_ns : Z) : slot :=
  from_unix_ns iv (Z.quot (reading_ns + 500000) 1000000 * 1000000).
(* clock-bracket case: interval ms, clock before / after the call, observed Now() fields *)
Definition clock_case_ok (c : (Z * Z * Z) * (Z * Z * Z * Z)) : bool :=
  let '((iv, n0, n1), (ns, ms, p, nx)) := c in
  let s := now_slot iv ns in
  (n0 <=? ns) && (ns <=? n1) && (s_ms s =? ms) && (s_prev s =? p) && (s_next s =? nx).


(* ---- evaluation helpers for the correspondence check (cases.v) ---- *)
(* a case: interval ms, bp count, timestamp ns, observed (timeMs, prevIndex, nextIndex, nextBpIndex) *)
Definition slot_obs (iv n ns : Z) : Z * Z * Z * Z :=
  let s := from_unix_ns iv ns in (s_ms s, s_prev s, s_next s, next_bp_index s n).
Definition obs_eqb (a b : Z * Z * Z * Z) : bool :=
  let '(a1, a2, a3, a4) := a in let '(b1, b2, b3, b4) := b in
  (a1 =? b1) && (a2 =? b2) && (a3 =? b3) && (a4 =? b4).
Fixpoint mismatches_from {A} (ok : A -> bool) (l : list A) (i : nat) : list nat :=
  match l with
  | [] => []
  | x :: tl => if ok x then mismatches_from ok tl (S i) else i :: mismatches_from ok tl (S i)
  end.
Definition slot_case_ok (c : (Z * Z * Z) * (Z * Z * Z * Z)) : bool :=
  let '((iv, n, ns), o) := c in obs_eqb (slot_obs iv n ns) o.
Definition slot_mismatches l := mismatches_from slot_case_ok l 0.

(* membership / validity case: interval, member ids (as Z), signer id, ts, now, sig bit,
   observed (index, valid, future) *)
Definition valid_case_ok (c : (Z * list Z * Z * Z * Z) * (Z * bool * bool)) : bool :=
  let '((iv, ids, signer, ts, now), (oidx, ovalid, ofut)) := c in
  (bp_id_to_index Z.eqb ids signer =? oidx)
  && Bool.eqb (is_block_valid Z.eqb iv ids signer ts) ovalid
  && Bool.eqb (is_future (from_unix_ns iv ts) (from_unix_ns iv now)) ofut.
Definition valid_mismatches l := mismatches_from valid_case_ok l 0.

(** Proofs about the slot model (C09). *)
From Coq Require Import ZArith List Bool Lia.
From Verif Require Import Dpos.Slot.
Import ListNotations.
Open Scope Z_scope.

(** next_index is the ceiling of ms/iv: slot k (k >= 0) is the half-open millisecond
    interval ((k-1)*iv, k*iv]. *)
Lemma next_index_spec iv ms k :
  0 < iv -> 0 <= ms ->
  (next_index iv ms = k <-> (k - 1) * iv < ms <= k * iv).
Proof.
  intros Hiv Hms. unfold next_index, ms_to_index.
  rewrite Z.quot_div_nonneg by lia.
  pose proof (Z.div_mod (ms + iv - 1) iv ltac:(lia)) as Hdm.
  pose proof (Z.mod_pos_bound (ms + iv - 1) iv Hiv) as Hb.
  split.
  - intros <-. nia.
  - intros [H1 H2].
    assert (Hq: (ms + iv - 1) / iv = k).
    { symmetry. apply Z.div_unique with (r := ms + iv - 1 - iv * k); lia. }
    exact Hq.
Qed.

Lemma next_index_nonneg iv ms : 0 < iv -> 0 <= ms -> 0 <= next_index iv ms.
Proof.
  intros Hiv Hms. unfold next_index, ms_to_index.
  rewrite Z.quot_div_nonneg by lia. apply Z.div_pos; lia.
Qed.

Lemma ns_to_ms_nonneg ns : 0 <= ns -> 0 <= ns_to_ms ns.
Proof. intros H. unfold ns_to_ms. rewrite Z.quot_div_nonneg by lia. apply Z.div_pos; lia. Qed.

Lemma prev_next iv ms : 0 < iv -> 1 <= ms -> next_index iv ms = prev_index iv ms + 1.
Proof.
  intros Hiv Hms. unfold next_index, prev_index, ms_to_index.
  rewrite !Z.quot_div_nonneg by lia.
  replace (ms + iv - 1) with ((ms - 1) + 1 * iv) by lia.
  rewrite Z.div_add by lia. reflexivity.
Qed.

(** Every instant belongs to exactly one producer index. *)
Theorem slot_owner_unique iv n ns :
  0 < iv -> 0 < n -> 0 <= ns ->
  exists i, (0 <= i < n /\ is_for (from_unix_ns iv ns) i n = true) /\
            forall j, is_for (from_unix_ns iv ns) j n = true -> j = i.
Proof.
  intros Hiv Hn Hns.
  pose proof (next_index_nonneg iv (ns_to_ms ns) Hiv (ns_to_ms_nonneg ns Hns)) as Hnx.
  exists (Z.rem (next_index iv (ns_to_ms ns)) n). unfold is_for, next_bp_index; cbn [s_next from_unix_ns].
  split; [split|].
  - rewrite Z.rem_mod_nonneg by lia. apply Z.mod_pos_bound; lia.
  - apply Z.eqb_refl.
  - intros j Hj. apply Z.eqb_eq in Hj. symmetry; exact Hj.
Qed.

(** All instants of one slot have the same owner, and owners rotate modulo n. *)
Theorem slot_partition iv n k ms :
  0 < iv -> 0 < n -> 0 <= k -> (k - 1) * iv < ms <= k * iv -> 0 <= ms ->
  next_index iv ms = k /\ Z.rem (next_index iv ms) n = k mod n.
Proof.
  intros Hiv Hn Hk Hr Hms.
  assert (E: next_index iv ms = k) by (apply next_index_spec; assumption).
  split; [exact E|]. rewrite E. apply Z.rem_mod_nonneg; lia.
Qed.

Theorem slot_rotation iv n k ms1 ms2 :
  0 < iv -> 0 < n -> 0 <= k -> 0 <= ms1 ->
  (k - 1) * iv < ms1 <= k * iv -> k * iv < ms2 <= (k + 1) * iv ->
  Z.rem (next_index iv ms2) n = (Z.rem (next_index iv ms1) n + 1) mod n.
Proof.
  intros Hiv Hn Hk Hms1 H1 H2.
  destruct (slot_partition iv n k ms1 Hiv Hn Hk H1 Hms1) as [_ ->].
  assert (E2: next_index iv ms2 = k + 1) by (apply next_index_spec; nia).
  rewrite E2, Z.rem_mod_nonneg by lia.
  rewrite Zplus_mod_idemp_l. reflexivity.
Qed.

(** A timestamp two or more whole intervals ahead of the clock is "future"; a future
    timestamp is more than one interval ahead. *)
Theorem future_rejected iv ts now :
  0 < iv -> 0 <= now -> now + 2 * iv <= ts ->
  is_future (from_unix_ns iv (ts * 1000000)) (from_unix_ns iv (now * 1000000)) = true.
Proof.
  intros Hiv Hnow Hts. unfold is_future; cbn [s_next from_unix_ns].
  unfold ns_to_ms. rewrite !Z.quot_mul by lia.
  apply Z.leb_le.
  set (a := next_index iv now). set (b := next_index iv ts).
  assert (Ha: (a - 1) * iv < now <= a * iv) by (apply next_index_spec; [lia|lia|reflexivity]).
  assert (Hb: (b - 1) * iv < ts <= b * iv) by (apply next_index_spec; [lia|lia|reflexivity]).
  nia.
Qed.

Theorem future_is_ahead iv ts now :
  0 < iv -> 0 <= now -> 0 <= ts ->
  is_future (from_unix_ns iv ts) (from_unix_ns iv now) = true ->
  ns_to_ms now + iv < ns_to_ms ts.
Proof.
  intros Hiv Hnow Hts. unfold is_future; cbn [s_next from_unix_ns]. intros H.
  apply Z.leb_le in H.
  pose proof (ns_to_ms_nonneg now Hnow) as Hn'. pose proof (ns_to_ms_nonneg ts Hts) as Ht'.
  set (a := next_index iv (ns_to_ms now)) in *. set (b := next_index iv (ns_to_ms ts)) in *.
  assert (Ha: (a - 1) * iv < ns_to_ms now <= a * iv) by (apply next_index_spec; [lia|lia|reflexivity]).
  assert (Hb: (b - 1) * iv < ns_to_ms ts <= b * iv) by (apply next_index_spec; [lia|lia|reflexivity]).
  nia.
Qed.

(** Whatever the sub-millisecond phase of the clock: when the clock reading lies in slot k, a
    timestamp whose millisecond lies in slot k+2 or later is future. *)
Theorem now_and_block_same_grid iv now ts k :
  0 < iv -> 0 <= now -> 0 <= ts ->
  (k - 1) * iv < ns_to_ms now <= k * iv -> (k + 1) * iv < ns_to_ms ts ->
  is_future (from_unix_ns iv ts) (now_slot iv now) = true.
Proof.
  intros Hiv Hnow Hts Hk Hts2. unfold is_future, now_slot; cbn [s_next from_unix_ns].
  pose proof (ns_to_ms_nonneg now Hnow) as Hn'. pose proof (ns_to_ms_nonneg ts Hts) as Ht'.
  assert (Ea : next_index iv (ns_to_ms now) = k) by (apply next_index_spec; assumption).
  set (b := next_index iv (ns_to_ms ts)).
  assert (Hb : (b - 1) * iv < ns_to_ms ts <= b * iv) by (apply next_index_spec; [lia|lia|reflexivity]).
  rewrite Ea. apply Z.leb_le. nia.
Qed.

(** and conversely a timestamp in slot k+1 or earlier is not *)
Theorem now_and_block_same_grid_not_future iv now ts k :
  0 < iv -> 0 <= now -> 0 <= ts ->
  (k - 1) * iv < ns_to_ms now <= k * iv -> ns_to_ms ts <= (k + 1) * iv ->
  is_future (from_unix_ns iv ts) (now_slot iv now) = false.
Proof.
  intros Hiv Hnow Hts Hk Hts2. unfold is_future, now_slot; cbn [s_next from_unix_ns].
  pose proof (ns_to_ms_nonneg now Hnow) as Hn'. pose proof (ns_to_ms_nonneg ts Hts) as Ht'.
  assert (Ea : next_index iv (ns_to_ms now) = k) by (apply next_index_spec; assumption).
  set (b := next_index iv (ns_to_ms ts)).
  assert (Hb : (b - 1) * iv < ns_to_ms ts <= b * iv) by (apply next_index_spec; [lia|lia|reflexivity]).
  rewrite Ea. apply Z.leb_gt. nia.
Qed.

Theorem now_and_block_same_grid_both iv now ts k :
  0 < iv -> 0 <= now -> 0 <= ts ->
  (k - 1) * iv < ns_to_ms now <= k * iv ->
  ((k + 1) * iv < ns_to_ms ts -> is_future (from_unix_ns iv ts) (now_slot iv now) = true) /\
  (ns_to_ms ts <= (k + 1) * iv -> is_future (from_unix_ns iv ts) (now_slot iv now) = false).
Proof.
  intros H1 H2 H3 H4. split; intros H5.
  - exact (now_and_block_same_grid iv now ts k H1 H2 H3 H4 H5).
  - exact (now_and_block_same_grid_not_future iv now ts k H1 H2 H3 H4 H5).
Qed.

(** With a clock rounded to the nearest millisecond the two grids differ: in the last half
    millisecond of slot k a timestamp of slot k+2 is not future. *)
Theorem rounded_clock_off_grid_refuted :
  exists iv now ts k,
    (k - 1) * iv < ns_to_ms now <= k * iv /\ (k + 1) * iv < ns_to_ms ts /\
    is_future (from_unix_ns iv ts) (rounded_now_slot iv now) = false.
Proof.
  exists 1000, (5000 * 1000000 + 600000), (6001 * 1000000), 5. vm_compute. repeat split; discriminate.
Qed.

Section Members.
  Context {ID : Type} (id_eqb : ID -> ID -> bool).
  Hypothesis id_eqb_spec : forall a b, id_eqb a b = true <-> a = b.

  Lemma index_from_spec ids : forall i x acc,
    let r := index_from id_eqb ids i x acc in
    (r = acc /\ forall y, In y ids -> id_eqb y x = false) \/
    (i <= r < i + Z.of_nat (length ids) /\ nth_error ids (Z.to_nat (r - i)) = Some x).
  Proof.
    induction ids as [|y tl IH]; intros i x acc; cbn [index_from length].
    - left. split; [reflexivity|]. intros ? [].
    - destruct (id_eqb y x) eqn:E.
      + specialize (IH (i + 1) x i). cbv zeta in IH. destruct IH as [[Hr Hn]|[Hr Hn]].
        * right. cbv zeta. rewrite Hr. split; [lia|].
          replace (i - i) with 0 by lia. cbn. f_equal. apply id_eqb_spec; exact E.
        * right. cbv zeta. split; [lia|].
          replace (Z.to_nat (index_from id_eqb tl (i + 1) x i - i))
            with (S (Z.to_nat (index_from id_eqb tl (i + 1) x i - (i + 1)))) by lia.
          exact Hn.
      + specialize (IH (i + 1) x acc). cbv zeta in IH. destruct IH as [[Hr Hn]|[Hr Hn]].
        * left. cbv zeta. split; [exact Hr|]. intros z [<-|Hz]; [exact E|apply Hn; exact Hz].
        * right. cbv zeta. split; [lia|].
          replace (Z.to_nat (index_from id_eqb tl (i + 1) x acc - i))
            with (S (Z.to_nat (index_from id_eqb tl (i + 1) x acc - (i + 1)))) by lia.
          exact Hn.
  Qed.

  Lemma bp_index_non_member ids x :
    (forall y, In y ids -> id_eqb y x = false) -> bp_id_to_index id_eqb ids x = index_nil.
  Proof.
    intros Hn. unfold bp_id_to_index.
    pose proof (index_from_spec ids 0 x index_nil) as H. cbv zeta in H.
    destruct H as [[Hr _]|[_ Hs]]; [exact Hr|].
    exfalso. apply nth_error_In in Hs. specialize (Hn x Hs).
    assert (id_eqb x x = true) by (apply id_eqb_spec; reflexivity). congruence.
  Qed.

  (** A valid block's signer is the member stored at the index that owns the slot. *)
  Lemma valid_signer_at_owner iv ids x ts :
    0 < iv -> 0 <= ts -> ids <> [] -> Z.of_nat (length ids) <= index_nil ->
    is_block_valid id_eqb iv ids x ts = true ->
    nth_error ids (Z.to_nat (Z.rem (next_index iv (ns_to_ms ts)) (Z.of_nat (length ids)))) = Some x.
  Proof.
    intros Hiv Hts Hne Hlen Hv.
    unfold is_block_valid, is_for, next_bp_index, cluster_size in Hv. cbn [s_next from_unix_ns] in Hv.
    apply Z.eqb_eq in Hv.
    assert (Hpos: 0 < Z.of_nat (length ids)) by (destruct ids; [congruence|cbn [length]; lia]).
    pose proof (next_index_nonneg iv (ns_to_ms ts) Hiv (ns_to_ms_nonneg ts Hts)) as Hnx.
    assert (Hb: 0 <= Z.rem (next_index iv (ns_to_ms ts)) (Z.of_nat (length ids)) < Z.of_nat (length ids)).
    { rewrite Z.rem_mod_nonneg by lia. apply Z.mod_pos_bound; lia. }
    unfold bp_id_to_index in Hv.
    pose proof (index_from_spec ids 0 x index_nil) as H. cbv zeta in H.
    destruct H as [[Hr _]|[_ Hs]].
    - exfalso. rewrite Hr in Hv. lia.
    - rewrite Z.sub_0_r, <- Hv in Hs. exact Hs.
  Qed.

  (** A signer outside the producer set is never valid (newIndex enforces n <= 65535;
      the cluster size is in fact <= 100). *)
  Theorem non_member_never_valid iv ids x ts :
    0 < iv -> 0 <= ts -> ids <> [] -> Z.of_nat (length ids) <= index_nil ->
    ~ In x ids -> is_block_valid id_eqb iv ids x ts = false.
  Proof.
    intros Hiv Hts Hne Hlen Hn.
    destruct (is_block_valid id_eqb iv ids x ts) eqn:E; [|reflexivity].
    exfalso. apply Hn. eapply nth_error_In. eapply valid_signer_at_owner; eassumption.
  Qed.

  (** Two producers entitled at the same instant are the same producer. *)
  Theorem two_valid_same_producer iv ids a b ts :
    0 < iv -> 0 <= ts -> ids <> [] -> Z.of_nat (length ids) <= index_nil ->
    is_block_valid id_eqb iv ids a ts = true ->
    is_block_valid id_eqb iv ids b ts = true -> a = b.
  Proof.
    intros Hiv Hts Hne Hlen Ha Hb.
    pose proof (valid_signer_at_owner iv ids a ts Hiv Hts Hne Hlen Ha) as Pa.
    pose proof (valid_signer_at_owner iv ids b ts Hiv Hts Hne Hlen Hb) as Pb.
    congruence.
  Qed.

  (** Acceptance is exactly: member at the owning index, good signature, not future. *)
  Theorem accept_iff iv ids x sig_ok ts now :
    accept id_eqb iv ids x sig_ok ts now = true <->
    is_block_valid id_eqb iv ids x ts = true /\ sig_ok = true /\
    is_future (from_unix_ns iv ts) (from_unix_ns iv now) = false.
  Proof.
    unfold accept. rewrite !andb_true_iff, negb_true_iff. tauto.
  Qed.
End Members.

(** Non-vacuity: a concrete 3-producer set, 1 s interval. *)
Example ex_valid :
  is_block_valid Z.eqb 1000 [10; 20; 30] 30 (5000 * 1000000) = true /\
  is_block_valid Z.eqb 1000 [10; 20; 30] 10 (5001 * 1000000) = true /\
  is_block_valid Z.eqb 1000 [10; 20; 30] 30 (5001 * 1000000) = false.
Proof. vm_compute. repeat split. Qed.

(** Gov/AList.v — lemmas about the association lists of Gov/Model.v. *)
From Coq Require Import ZArith NArith List Bool Permutation Lia.
From Verif Require Import Gov.Model.
Import ListNotations.
Open Scope Z_scope.

Section AL.
  Context {K V : Type} (eqb : K -> K -> bool).
  Hypothesis eqb_eq : forall a b, eqb a b = true <-> a = b.

  Lemma eqb_refl a : eqb a a = true.
  Proof. now apply eqb_eq. Qed.
  Lemma eqb_neq a b : a <> b -> eqb a b = false.
  Proof. intros H. destruct (eqb a b) eqn:E; auto. apply eqb_eq in E. contradiction. Qed.

  Lemma al_get_set_same k (v : V) m : al_get eqb k (al_set eqb k v m) = Some v.
  Proof.
    induction m as [|[k' v'] m IH]; simpl.
    - now rewrite eqb_refl.
    - destruct (eqb k k') eqn:E; simpl; [now rewrite eqb_refl | now rewrite E].
  Qed.

  Lemma al_get_set_other k k' (v : V) m : k <> k' -> al_get eqb k' (al_set eqb k v m) = al_get eqb k' m.
  Proof.
    intros N. induction m as [|[k2 v2] m IH]; simpl.
    - rewrite eqb_neq; auto.
    - destruct (eqb k k2) eqn:E; simpl.
      + apply eqb_eq in E; subst. rewrite (eqb_neq k' k2); auto.
      + destruct (eqb k' k2); auto.
  Qed.

  Lemma al_get_in k (v : V) m : al_get eqb k m = Some v -> In (k, v) m.
  Proof.
    induction m as [|[k' v'] m IH]; simpl; [discriminate|].
    destruct (eqb k k') eqn:E.
    - apply eqb_eq in E; subst. intros [= ->]. now left.
    - intros H. right. auto.
  Qed.

  Lemma al_get_none k (m : list (K * V)) : al_get eqb k m = None <-> ~ In k (map fst m).
  Proof.
    induction m as [|[k' v'] m IH]; simpl; [tauto|].
    destruct (eqb k k') eqn:E.
    - apply eqb_eq in E; subst. split; [discriminate|]. intros H. exfalso. apply H. now left.
    - rewrite IH. split.
      + intros H [->|H2]; [rewrite eqb_refl in E; discriminate | contradiction].
      + intros H H2. apply H. now right.
  Qed.

  Lemma in_al_get k (v : V) m : NoDup (map fst m) -> In (k, v) m -> al_get eqb k m = Some v.
  Proof.
    induction m as [|[k' v'] m IH]; simpl; [tauto|].
    intros ND [E|H]; inversion ND as [|? ? Nk ND']; subst.
    - injection E as -> ->. now rewrite eqb_refl.
    - destruct (eqb k k') eqn:E.
      + apply eqb_eq in E; subst. exfalso. apply Nk. apply (in_map fst) in H. exact H.
      + auto.
  Qed.

  Lemma keys_al_set k (v : V) m :
    map fst (al_set eqb k v m) = map fst m \/ (~ In k (map fst m) /\ map fst (al_set eqb k v m) = map fst m ++ [k]).
  Proof.
    induction m as [|[k' v'] m IH]; simpl.
    - right. split; auto.
    - destruct (eqb k k') eqn:E; simpl.
      + apply eqb_eq in E; subst. now left.
      + destruct IH as [->|[N ->]]; [now left|]. right. split; auto.
        intros [->|H]; [rewrite eqb_refl in E; discriminate | contradiction].
  Qed.

  Lemma nodup_al_set k (v : V) m : NoDup (map fst m) -> NoDup (map fst (al_set eqb k v m)).
  Proof.
    intros ND. destruct (keys_al_set k v m) as [->|[N ->]]; auto.
    apply Permutation_NoDup with (l := k :: map fst m).
    - apply Permutation_cons_append.
    - constructor; auto.
  Qed.

  (** entries after [al_set], when keys are duplicate-free *)
  Lemma in_al_set_nodup k (v : V) m k' v' :
    NoDup (map fst m) ->
    In (k', v') (al_set eqb k v m) -> (k' = k /\ v' = v) \/ (k' <> k /\ In (k', v') m).
  Proof.
    induction m as [|[k2 v2] m IH]; simpl; intros ND.
    - intros [[= <- <-]|[]]. now left.
    - inversion ND as [|? ? Nk ND']; subst.
      destruct (eqb k k2) eqn:E; simpl.
      + apply eqb_eq in E; subst. intros [[= <- <-]|H]; [now left|].
        right. split; [|now right]. intros ->. apply Nk. apply (in_map fst) in H. exact H.
      + intros [[= <- <-]|H].
        * right. split; [|now left]. intros ->. rewrite eqb_refl in E. discriminate.
        * destruct (IH ND' H) as [?|[? ?]]; [now left|]. right. split; auto.
  Qed.

  Lemma in_al_set_other k (v : V) m k' v' : k' <> k -> In (k', v') m -> In (k', v') (al_set eqb k v m).
  Proof.
    intros N. induction m as [|[k2 v2] m IH]; simpl; [tauto|].
    intros [[= -> ->]|H].
    - rewrite eqb_neq; auto. now left.
    - destruct (eqb k k2); [now right|]. right. auto.
  Qed.

  (** sums *)
  Definition al_sumk (g : K -> V -> Z) (m : list (K * V)) : Z := fold_right (fun e acc => g (fst e) (snd e) + acc) 0 m.

  Lemma al_sumk_set g k v m :
    al_sumk g (al_set eqb k v m) = al_sumk g m - (match al_get eqb k m with Some x => g k x | None => 0 end) + g k v.
  Proof.
    induction m as [|[k' v'] m IH]; simpl.
    - lia.
    - destruct (eqb k k') eqn:E; simpl.
      + apply eqb_eq in E; subst. lia.
      + rewrite IH. lia.
  Qed.

  Lemma al_sumk_del g k m :
    al_sumk g (al_del eqb k m) = al_sumk g m - (match al_get eqb k m with Some x => g k x | None => 0 end).
  Proof.
    induction m as [|[k' v'] m IH]; simpl.
    - lia.
    - destruct (eqb k k') eqn:E; simpl.
      + apply eqb_eq in E; subst. lia.
      + rewrite IH. lia.
  Qed.

  Lemma al_del_in k m k' (v' : V) : In (k', v') (al_del eqb k m) -> In (k', v') m.
  Proof.
    induction m as [|[k2 v2] m IH]; simpl; auto.
    destruct (eqb k k2); [now right|]. intros [H|H]; [now left | right; auto].
  Qed.

  Lemma nodup_al_del k (m : list (K * V)) : NoDup (map fst m) -> NoDup (map fst (al_del eqb k m)).
  Proof.
    induction m as [|[k2 v2] m IH]; simpl; auto. intros ND. inversion ND as [|? ? N0 ND']; subst.
    destruct (eqb k k2); auto. simpl. constructor; auto.
    intros H. apply N0. apply in_map_iff in H. destruct H as ([k3 v3] & E & H). simpl in E. subst k3.
    apply al_del_in in H. apply (in_map fst) in H. exact H.
  Qed.

  Lemma in_al_del_nodup k m k' (v' : V) : NoDup (map fst m) -> In (k', v') (al_del eqb k m) -> k' <> k /\ In (k', v') m.
  Proof.
    induction m as [|[k2 v2] m IH]; simpl; intros ND; [tauto|].
    inversion ND as [|? ? N0 ND']; subst.
    destruct (eqb k k2) eqn:E.
    - apply eqb_eq in E; subst. intros H. split; [|now right]. intros ->. apply N0. apply (in_map fst) in H. exact H.
    - intros [[= <- <-]|H].
      + split; [|now left]. intros ->. rewrite eqb_refl in E. discriminate.
      + destruct (IH ND' H). split; auto.
  Qed.

  Lemma al_sumk_nonneg g m : (forall k v, In (k, v) m -> 0 <= g k v) -> 0 <= al_sumk g m.
  Proof.
    induction m as [|[k v] m IH]; simpl; intros H; [lia|].
    specialize (H k v (or_introl eq_refl)) as H0. assert (0 <= al_sumk g m) by (apply IH; intros; apply H; now right). lia.
  Qed.

  Lemma al_sumk_ge g m k v : (forall k v, In (k, v) m -> 0 <= g k v) -> In (k, v) m -> g k v <= al_sumk g m.
  Proof.
    induction m as [|[k' v'] m IH]; simpl; intros H; [tauto|].
    assert (0 <= al_sumk g m) by (apply al_sumk_nonneg; intros; apply H; now right).
    intros [[= -> ->]|Hin]; [lia|].
    specialize (H k' v' (or_introl eq_refl)) as Hk'.
    assert (g k v <= al_sumk g m) by (apply IH; auto; intros; apply H; now right). lia.
  Qed.

  Lemma al_sumk_ext g g' m : (forall k v, In (k, v) m -> g k v = g' k v) -> al_sumk g m = al_sumk g' m.
  Proof.
    induction m as [|[k v] m IH]; simpl; intros H; auto.
    rewrite (H k v (or_introl eq_refl)). f_equal. apply IH. intros; apply H; now right.
  Qed.
End AL.

(* ------------------------------------------------------------------ key equalities *)
Lemma cand_eqb_eq a : forall b, cand_eqb a b = true <-> a = b.
Proof.
  induction a as [|x a IH]; intros [|y b]; simpl; try (split; [discriminate|intros H; discriminate H]); [tauto|].
  rewrite andb_true_iff, N.eqb_eq, IH. split; [intros [-> ->]; auto | intros [= -> ->]; auto].
Qed.

Lemma vkey_eqb_eq (a b : vkey) : vkey_eqb a b = true <-> a = b.
Proof.
  destruct a, b. unfold vkey_eqb; simpl. rewrite andb_true_iff, !N.eqb_eq.
  split; [intros [-> ->]; auto | intros [= -> ->]; auto].
Qed.

Lemma Neqb_eq (a b : N) : N.eqb a b = true <-> a = b.
Proof. apply N.eqb_eq. Qed.

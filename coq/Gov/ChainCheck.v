(** Gov/ChainCheck.v — comparison of the model with what the REAL block executor
    (chain.executeTx through consensus/chain GatherTXs, engine `determ`) did with the
    governance transactions of a block: which ones it accepted / with which error it dropped
    them, and the governance observables of the connected state after every block. *)
From Coq Require Import ZArith NArith List Bool.
From Verif Require Import Gov.Model Gov.Check.
Import ListNotations.
Open Scope Z_scope.

(** per account: staked amount, when, BP ballot (candidates, amount) *)
Definition cacc := (Z * Z * option (list cand * Z))%type.
(** after a block: staking total, accounts, stored rankings of the five issues, total voting power in memory *)
Definition cobs := (Z * list cacc * list (list (cand * Z)) * Z)%type.

Fixpoint caccs_ok (d : durable) (i : N) (l : list cacc) : bool :=
  match l with
  | [] => true
  | (amt, when, bp) :: r =>
    (st_amount (get_stake d i) =? amt) && (st_when (get_stake d i) =? when)
    && vote_obs_eqb (option_map (fun v => (vt_cands v, vt_amount v)) (get_vote d 0%N i)) bp
    && caccs_ok d (N.succ i) r
  end.

Definition cobs_ok (c : cfg) (g : gstate) (o : cobs) : bool :=
  let '(total, accs, res, vtot) := o in
  (d_total (g_d g) =? total) && caccs_ok (g_d g) 0%N accs
  && list_eqb (fun a b => list_eqb ca_eqb a b) (map (get_result (g_d g)) catalog) res
  && (v_total (m_vpr (g_m g)) =? vtot).

(** a block: the governance transactions that reached execution with the observed outcome,
    then the observables of the connected state; the next block number *)
Definition cblock := (list (tx * err) * cobs * Z)%type.

Fixpoint ctxs_ok (c : cfg) (g : gstate) (l : list (tx * err)) : option gstate :=
  match l with
  | [] => Some g
  | (t, e) :: r =>
    let '(e', g') := step c g (OTx t) in
    if err_eqb e e' then ctxs_ok c g' r else None
  end.

(** index of the first block on which model and chain differ: 2k = outcome of a transaction
    of block k, 2k+1 = observables after block k *)
Fixpoint cblocks_bad (c : cfg) (g : gstate) (bs : list cblock) (k : nat) : list nat :=
  match bs with
  | [] => []
  | (txs, o, next) :: r =>
    match ctxs_ok c g txs with
    | None => [2 * k]%nat
    | Some g1 =>
      let g2 := snd (step c g1 (OBlock next)) in
      if cobs_ok c g2 o then cblocks_bad c g2 r (S k) else [2 * k + 1]%nat
    end
  end.

Definition ccase := (cfg * gstate * list cblock)%type.
Fixpoint ccases_bad (l : list ccase) (i : nat) : list (nat * nat) :=
  match l with
  | [] => []
  | (c, g, bs) :: r =>
    match cblocks_bad c g bs 0 with
    | [] => ccases_bad r (S i)
    | k :: _ => (i, k) :: ccases_bad r (S i)
    end
  end.

(** Gov/Check.v — comparison of the model with the observations dumped by the engine
    harness/engines/gov (executable, evaluated by vm_compute in the generated cases file). *)
From Coq Require Import ZArith NArith List Bool.
From Verif Require Import Gov.Model.
Import ListNotations.
Open Scope Z_scope.

Fixpoint list_eqb {A} (eqb : A -> A -> bool) (a b : list A) : bool :=
  match a, b with
  | [], [] => true
  | x :: a', y :: b' => eqb x y && list_eqb eqb a' b'
  | _, _ => false
  end.
Definition opt_eqb {A} (eqb : A -> A -> bool) (a b : option A) : bool :=
  match a, b with Some x, Some y => eqb x y | None, None => true | _, _ => false end.
Definition ca_eqb (x y : cand * Z) : bool := cand_eqb (fst x) (fst y) && (snd x =? snd y).
Definition nz_eqb (x y : N * Z) : bool := N.eqb (fst x) (fst y) && (snd x =? snd y).
Definition vp_eqb (x y : vp) : bool := N.eqb (fst x) (fst y) && N.eqb (fst (snd x)) (fst (snd y)) && (snd (snd x) =? snd (snd y)).
Definition bucket_eqb (x y : N * list vp) : bool := N.eqb (fst x) (fst y) && list_eqb vp_eqb (snd x) (snd y).

(** multiset equality of (candidate, amount) lists *)
Fixpoint remove_first (x : cand * Z) (l : list (cand * Z)) : option (list (cand * Z)) :=
  match l with
  | [] => None
  | y :: r => if ca_eqb x y then Some r else option_map (cons y) (remove_first x r)
  end.
Fixpoint perm_eqb (a b : list (cand * Z)) : bool :=
  match a with
  | [] => match b with [] => true | _ => false end
  | x :: a' => match remove_first x b with Some b' => perm_eqb a' b' | None => false end
  end.

(** the stored ranking: equal to the model's; with the legacy comparator (not total, F10) any
    list that is sorted for it and has the same entries is what sort.Sort may produce *)
Definition result_ok (fixed : bool) (model observed : list (cand * Z)) : bool :=
  list_eqb ca_eqb model observed
  || (negb fixed && sortedb (fun x y => negb (rank_before false y x)) observed && perm_eqb model observed).

Definition sort_by_id {V} (l : list (N * V)) : list (N * V) := isort (fun x y => N.leb (fst x) (fst y)) l.

Definition acc_obs := ((Z * bool) * (Z * Z) * list (option (list cand * Z)))%type.
Definition vpr_obs := (Z * list (N * list vp) * list (N * Z) * list (N * Z))%type.
(** GetRankers (candidates) and PickVotingRewardWinner draws: (random number r, winner account index) *)
Definition sel_obs := (list cand * list (Z * option N))%type.
Definition obs := (err * list acc_obs * (Z * Z) * list (list (cand * Z) * Z)
                   * (list Z * list (option Z) * list (option Z)) * vpr_obs * (Z * list (N * list vp)) * sel_obs)%type.

Definition vote_obs_eqb (a b : option (list cand * Z)) : bool :=
  opt_eqb (fun x y => list_eqb cand_eqb (fst x) (fst y) && (snd x =? snd y)) a b.

Definition acc_ok (d : durable) (i : N) (o : acc_obs) : bool :=
  let '((b, present), (amount, when), votes) := o in
  (bal_of d i =? b) && Bool.eqb (stake_present d i) present
  && (st_amount (get_stake d i) =? amount) && (st_when (get_stake d i) =? when)
  && list_eqb vote_obs_eqb
       (map (fun issue => option_map (fun v => (vt_cands v, vt_amount v)) (get_vote d issue i)) catalog) votes.

Fixpoint accs_ok (d : durable) (i : N) (os : list acc_obs) : bool :=
  match os with
  | [] => true
  | o :: r => acc_ok d i o && accs_ok d (N.succ i) r
  end.

Definition params4 : list N := [0; 1; 2; 3]%N.

(** failing components: 1 err, 2 accounts, 3 balances/total, 4 vote results, 5 params,
    6 in-memory vpr, 7 vpr rebuilt from storage, 8 GetRankers, 9 voting reward winner *)
Definition obs_bad (c : cfg) (e : err) (g : gstate) (o : obs) : list N :=
  let '(oe, oaccs, (osys, otot), ores, (opcur, opnext, opdb), (mtot, mb, mp, mch), (rtot, rb), (orank, opicks)) := o in
  let d := g_d g in let m := g_m g in
  let rl := load_vpr (d_vpr d) in
  (if err_eqb e oe then [] else [1%N])
  ++ (if accs_ok d 0%N oaccs then [] else [2%N])
  ++ (if (d_sysbal d =? osys) && (d_total d =? otot) then [] else [3%N])
  ++ (if forallb (fun '(issue, (ol, ot)) => result_ok (c_fixed c) (get_result d issue) ol && (getZ issue (d_vtotals d) =? ot))
                 (combine catalog ores) && Nat.eqb (length ores) 5 then [] else [4%N])
  ++ (if list_eqb Z.eqb (map (get_param c m) params4) opcur
         && list_eqb (opt_eqb Z.eqb) (map (fun p => al_get N.eqb p (m_pnext m)) params4) opnext
         && list_eqb (opt_eqb Z.eqb) (map (fun p => al_get N.eqb p (d_params d)) params4) opdb then [] else [5%N])
  ++ (if (v_total (m_vpr m) =? mtot)
         && list_eqb bucket_eqb (buckets_view (v_buckets (m_vpr m))) mb
         && list_eqb nz_eqb (sort_by_id (map (fun e => (fst e, snd (snd e))) (v_powers (m_vpr m)))) mp
         && list_eqb nz_eqb (sort_by_id (map (fun e => (fst e, snd (snd e))) (v_changes (m_vpr m)))) mch then [] else [6%N])
  ++ (if (v_total rl =? rtot) && list_eqb bucket_eqb (buckets_view (v_buckets rl)) rb then [] else [7%N])
  (* GetRankers: the first GetBpCount() (in-memory parameter) entries of the stored BP ranking *)
  ++ (if list_eqb cand_eqb (map fst (firstn (Z.to_nat (get_param c m 0%N)) (get_result d 0%N))) orank then [] else [8%N])
  (* pickVotingRewardWinner for the observed random draws *)
  ++ (if forallb (fun '(r, w) => opt_eqb N.eqb (pick_winner r (m_vpr m)) w) opicks then [] else [9%N]).

(** after a step the model adopts the observed ranking order (only relevant with the legacy
    comparator, where tied parity twins may be stored in either order) *)
Definition adopt_results (c : cfg) (g : gstate) (o : obs) : gstate :=
  if c_fixed c then g else
  let '(_, _, _, ores, _, _, _, _) := o in
  let d := g_d g in
  let rs := fold_left (fun acc '(issue, (ol, _)) =>
                 if result_ok false (get_result d issue) ol
                 then (match ol with [] => acc | _ => al_set N.eqb issue ol acc end) else acc)
              (combine catalog ores) (d_results d) in
  {| g_no := g_no g; g_d := set_results rs d; g_m := g_m g |}.

(** every step carries the fork version of the block it is executed in *)
Fixpoint run_check (c0 : cfg) (g : gstate) (ops : list (Z * (op * obs))) (i : nat) : list (nat * list N) :=
  match ops with
  | [] => []
  | (v, (o, ob)) :: r =>
    let c := set_ver v c0 in
    let '(e, g') := step c g o in
    match obs_bad c e g' ob with
    | [] => run_check c0 (adopt_results c g' ob) r (S i)
    | bad => [(i, bad)]       (* stop at the first differing step *)
    end
  end.

(** GovInv evaluated on the model state (the same clauses are evaluated on the
    implementation's dump by checks/C15.py) — used for Examples *)
Definition sum_stakes (d : durable) : Z := fold_right (fun e acc => st_amount (snd e) + acc) 0 (d_stakes d).

Definition scenario := (cfg * gstate * list (Z * (op * obs)))%type.
Definition scenario_bad (s : scenario) : list (nat * list N) :=
  let '(c, g, ops) := s in run_check c g ops 0.

Fixpoint scenarios_bad (l : list scenario) (i : nat) : list (nat * (nat * list N)) :=
  match l with
  | [] => []
  | s :: r => match scenario_bad s with
              | [] => scenarios_bad r (S i)
              | b :: _ => (i, b) :: scenarios_bad r (S i)
              end
  end.

(** Gov/Election.v — which producer list takes office (consensus/impl/dpos/bp/cluster.go
    Snapshots): the ranking of the state of the election reference block
    [(best/100 - 1) * 100] (the genesis list below height 300) ON THE CURRENT BRANCH.
    The running node keeps a cache height -> list; AddSnapshot at an election height gathers the
    rankers from the state again and overwrites the entry (HEAD).  The chain is modelled as the
    current branch: a function from heights to the ranking of that block's state. *)
From Coq Require Import ZArith List Bool Lia.
Import ListNotations.
Open Scope Z_scope.

Definition ranking := list nat.
Definition branch := Z -> ranking.            (* ranking of the state of the block at a height *)

Definition snap_block_no (h : Z) : Z := if h <? 300 then 0 else (h / 100 - 1) * 100.

Record node := { best : Z; cache : list (Z * ranking); br : branch }.

Fixpoint lookup (h : Z) (c : list (Z * ranking)) : option ranking :=
  match c with [] => None | (k, l) :: r => if h =? k then Some l else lookup h r end.

(** getCurrentCluster: cached entry, else loaded from the state of the reference block *)
Definition office (genesis : ranking) (n : node) : ranking :=
  let ref := snap_block_no (best n) in
  if ref =? 0 then genesis else match lookup ref (cache n) with Some l => l | None => br n ref end.

(** what a freshly started node installs: no cache *)
Definition office_restarted (genesis : ranking) (n : node) : ranking :=
  let ref := snap_block_no (best n) in if ref =? 0 then genesis else br n ref.

(** connect the next block (height best+1) whose state ranks [r]: AddSnapshot re-gathers at election heights *)
Definition is_election (h : Z) : bool := (h mod 100 =? 0) && negb (h =? 0).

Definition connect (r : ranking) (n : node) : node :=
  let h := best n + 1 in
  {| best := h; br := (fun x => if x =? h then r else br n x);
     cache := if is_election h then (h, r) :: cache n else cache n |}.

(** seeded (seeded/C15-r7): an entry already cached for that height is reused *)
Definition connect_seeded (r : ranking) (n : node) : node :=
  let h := best n + 1 in
  {| best := h; br := (fun x => if x =? h then r else br n x);
     cache := if is_election h
              then (match lookup h (cache n) with Some _ => cache n | None => (h, r) :: cache n end) else cache n |}.

(** reorganisation to branch root [r] (<= best): blocks above leave the branch; the cache is kept *)
Definition reorg (r : Z) (n : node) : node := {| best := r; cache := cache n; br := br n |}.

(** cached heights are election heights; every cached entry at or below the best block is the
    ranking of the current branch (entries above it may be leftovers of an abandoned branch) *)
Definition cache_ok (n : node) : Prop :=
  forall h l, lookup h (cache n) = Some l -> is_election h = true /\ (h <= best n -> l = br n h).

Lemma connect_ok r n : cache_ok n -> cache_ok (connect r n).
Proof.
  intros C x l. unfold connect. cbn [best cache br].
  destruct (is_election (best n + 1)) eqn:El; cbn [lookup].
  - destruct (x =? best n + 1) eqn:E.
    + apply Z.eqb_eq in E; subst x. intros [= <-]. split; [exact El | reflexivity].
    + intros L. destruct (C x l L) as [K B]. split; [exact K|]. intros Hx. apply Z.eqb_neq in E. apply B. lia.
  - intros L. destruct (C x l L) as [K B]. split; [exact K|]. intros Hx.
    destruct (x =? best n + 1) eqn:E.
    + apply Z.eqb_eq in E; subst x. congruence.
    + apply Z.eqb_neq in E. apply B. lia.
Qed.

Lemma reorg_ok r n : r <= best n -> cache_ok n -> cache_ok (reorg r n).
Proof.
  intros Hr C x l L. destruct (C x l L) as [K B]. split; [exact K|]. cbn [best br reorg]. intros Hx. apply B. lia.
Qed.

Lemma snap_block_no_le h : 0 <= h -> snap_block_no h <= h.
Proof.
  intros H. unfold snap_block_no. destruct (h <? 300); [lia|].
  pose proof (Z.mul_div_le h 100 ltac:(lia)). lia.
Qed.

(** the list in office on the running node is the one a restarted node installs = the ranking of
    the election reference block on the current branch *)
Theorem office_is_ranking_of_current_branch genesis n :
  0 <= best n -> cache_ok n -> office genesis n = office_restarted genesis n.
Proof.
  intros Hb C. unfold office, office_restarted.
  destruct (snap_block_no (best n) =? 0); [reflexivity|].
  destruct (lookup (snap_block_no (best n)) (cache n)) as [l|] eqn:L; [|reflexivity].
  apply (C _ _ L). now apply snap_block_no_le.
Qed.

(** histories of connects and reorganisations (to a root not above the best block) *)
Inductive eop := EConnect (r : ranking) | EReorg (root : Z).
Definition estep (n : node) (o : eop) : node :=
  match o with EConnect r => connect r n | EReorg root => if root <=? best n then reorg root n else n end.

Theorem office_all_histories genesis : forall ops n,
  0 <= best n -> cache_ok n -> (forall o, In o ops -> match o with EReorg r => 0 <= r | _ => True end) ->
  let n' := fold_left estep ops n in office genesis n' = office_restarted genesis n'.
Proof.
  induction ops as [|o ops IH]; intros n Hb C W; cbn [fold_left].
  - now apply office_is_ranking_of_current_branch.
  - apply IH.
    + destruct o as [r|root]; cbn [estep]; [cbn [connect best]; lia|].
      destruct (root <=? best n) eqn:E; [cbn [reorg best]; apply (W (EReorg root)); now left | exact Hb].
    + destruct o as [r|root]; cbn [estep]; [now apply connect_ok|].
      destruct (root <=? best n) eqn:E; [apply reorg_ok; [now apply Z.leb_le | exact C] | exact C].
    + intros o' Ho'. apply W. now right.
Qed.

(** seeded: after a reorganisation below an election block that was already connected, the list
    gathered on the abandoned branch takes office *)
Definition eseeded (n : node) (o : eop) : node :=
  match o with EConnect r => connect_seeded r n | EReorg root => if root <=? best n then reorg root n else n end.

Definition e_start : node := {| best := 299; cache := []; br := fun _ => [0%nat] |}.

Theorem cached_snapshot_reused_after_reorg_refuted :
  exists ops, let n := fold_left eseeded ops e_start in office [9%nat] n <> office_restarted [9%nat] n.
Proof.
  exists (EConnect [1%nat] :: EReorg 299 :: EConnect [2%nat] :: map (fun _ => EConnect [3%nat]) (seq 0 100)).
  vm_compute. discriminate.
Qed.

Example head_same_history_agrees :
  let ops := EConnect [1%nat] :: EReorg 299 :: EConnect [2%nat] :: map (fun _ => EConnect [3%nat]) (seq 0 100) in
  let n := fold_left estep ops e_start in office [9%nat] n = [2%nat] /\ office_restarted [9%nat] n = [2%nat].
Proof. vm_compute. split; reflexivity. Qed.
